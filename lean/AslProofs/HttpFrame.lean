import AslModel.HttpFrame
/-! Helper lemmas for C10 (HTTP framing): sender identities, the reader's loops on well-formed input, decimal and
hexadecimal text.  Core Lean only. -/
open AslModel.HttpFrame
namespace AslProofs.HttpFrame


/-! ### sender: plain framing is the identity, for every block size -/

theorem writeLoop_plain (blk : Nat) (hb : 0 < blk) : ∀ (f : Nat) (b : Bytes), b.length ≤ f → writeLoop false blk f b = b := by
  intro f
  induction f with
  | zero => intro b h; have : b = [] := List.eq_nil_of_length_eq_zero (by omega); subst this; rfl
  | succ f ih =>
    intro b h
    unfold writeLoop
    by_cases he : b.isEmpty = true
    · simp only [he, if_true]; exact (List.isEmpty_iff.mp he).symm
    · simp only [he]
      have hne : b ≠ [] := by intro h0; subst h0; simp at he
      have hl : 0 < b.length := List.length_pos_iff.mpr hne
      have : (List.drop (min b.length blk) b).length ≤ f := by
        rw [List.length_drop]; omega
      simp only [frameBlock, Bool.false_eq_true, if_false]
      rw [ih _ this, List.take_append_drop]

theorem writeBody_plain (blk : Nat) (hb : 0 < blk) (b : Bytes) : writeBody false blk b = b :=
  writeLoop_plain blk hb b.length b (Nat.le_refl _)



/-! ### the reader's connection -/

/-- no error flag, not closed -/
def Live (i : Inp) : Prop := i.closed = false ∧ i.err = false

theorem live_dead {i : Inp} (h : Live i) : i.dead = false := by
  simp [Inp.dead, h.1, h.2]

theorem live_advance {i : Inp} (h : Live i) (k : Nat) : Live (i.advance k) := h

theorem advance_advance (i : Inp) (a b : Nat) : (i.advance a).advance b = i.advance (a + b) := by
  simp [Inp.advance, List.drop_drop, Nat.add_assoc]

@[simp] theorem advance_data (i : Inp) (k : Nat) : (i.advance k).data = i.data.drop k := rfl

theorem advance_zero (i : Inp) : i.advance 0 = i := by
  simp [Inp.advance]

theorem readLineLoop_line (l : Bytes) (hl : ∀ c ∈ l, c ≠ 10) (rest : Bytes) :
    ∀ (n : Nat) (acc : Bytes), n + l.length ≤ 16001 →
      readLineLoop n acc (l ++ 10 :: rest) = (some (acc.reverse ++ l), rest, n + l.length + 1, false) := by
  induction l with
  | nil => intro n acc _; simp [readLineLoop]
  | cons c l ih =>
    intro n acc hn
    have hc : c ≠ 10 := hl c (List.mem_cons_self)
    have hl' : ∀ c ∈ l, c ≠ 10 := fun c hc => hl c (List.mem_cons_of_mem _ hc)
    simp only [List.length_cons] at hn
    have h1 : (c == 10) = false := by simpa using hc
    have h2 : ¬ n > 16000 := by omega
    simp only [List.cons_append, readLineLoop, h1, h2, if_false, Bool.false_eq_true]
    rw [ih hl' (n + 1) (c :: acc) (by omega)]
    simp only [List.reverse_cons, List.append_assoc, List.singleton_append, List.length_cons]
    congr 3
    omega

/-- reading one LF-terminated line from a live connection -/
theorem readLine_line {i : Inp} (hi : Live i) (l rest : Bytes) (hl : ∀ c ∈ l, c ≠ 10) (hlen : l.length ≤ 16001)
    (hd : i.data = l ++ 10 :: rest) :
    readLine i = (some l, i.advance (l.length + 1)) ∧ (i.advance (l.length + 1)).data = rest := by
  have hr := readLineLoop_line l hl rest 0 [] (by omega)
  constructor
  · unfold readLine
    rw [live_dead hi, hd, hr]
    simp only [Bool.false_eq_true, if_false, List.reverse_nil, List.nil_append, Nat.zero_add]
    have : i.err = false := hi.2
    simp [Inp.advance, hd, this]
  · simp [hd]

/-- the block read inside `readInner` when enough bytes are there -/
theorem inner_step_eq {i : Inp} (hi : Live i) (k : Nat) (hk : k ≤ i.data.length) :
    ({ (i.advance (i.data.take k).length) with err := decide ((i.data.take k).length < k) } : Inp) = i.advance k := by
  have h1 : (i.data.take k).length = k := by simp [List.length_take, Nat.min_eq_left hk]
  rw [h1]
  have : i.err = false := hi.2
  simp [Inp.advance, this]

/-- `readInner` under a Content-Length countdown: `m ≤ size ≤ bytes left` -/
theorem readInner_len (rblk : Nat) (hr : 0 < rblk) :
    ∀ (f : Nat) (i : Inp) (m size : Nat) (acc : List Bytes), Live i → m ≤ f → m ≤ size → 0 < size → size ≤ i.data.length →
      ∃ bl : List Bytes, bl.reverse.flatten = i.data.take m ∧
        readInner rblk f i m size acc = (bl ++ acc, i.advance m, size - m, decide (m = size)) := by
  intro f
  induction f with
  | zero =>
    intro i m size acc hi hm hms hs hd
    have : m = 0 := by omega
    subst this
    refine ⟨[], by simp, ?_⟩
    have : ¬ (0 = size) := by omega
    simp [readInner, advance_zero, this]
  | succ f ih =>
    intro i m size acc hi hm hms hs hd
    unfold readInner
    by_cases hm0 : m = 0
    · subst hm0
      refine ⟨[], by simp, ?_⟩
      have : ¬ (0 = size) := by omega
      simp [advance_zero, this]
    · simp only [hm0, if_false]
      have hk : min m rblk ≤ i.data.length := by omega
      have hk1 : 0 < min m rblk := by omega
      have hgl : (i.data.take (min m rblk)).length = min m rblk := by simp [List.length_take, Nat.min_eq_left hk]
      have hne : (i.data.take (min m rblk)).isEmpty = false := by
        cases hx : i.data.take (min m rblk) with
        | nil => rw [hx] at hgl; simp at hgl; omega
        | cons a t => rfl
      simp only [hne, Bool.false_eq_true, if_false]
      rw [inner_step_eq hi _ hk, hgl]
      simp only [hs, if_true]
      by_cases hle : size ≤ min m rblk
      · -- the last block of the body
        have hmk : min m rblk = m := by omega
        have hms' : m = size := by omega
        simp only [hle, if_true]
        refine ⟨[i.data.take (min m rblk)], ?_, ?_⟩
        · simp [hmk]
        · rw [hmk]; simp [hms']
      · simp only [hle, if_false]
        have hi' : Live (i.advance (min m rblk)) := hi
        obtain ⟨bl, hbl, heq⟩ := ih (i.advance (min m rblk)) (m - min m rblk) (size - min m rblk)
          (i.data.take (min m rblk) :: acc) hi' (by omega) (by omega) (by omega)
          (by simp only [advance_data, List.length_drop]; omega)
        refine ⟨bl ++ [i.data.take (min m rblk)], ?_, ?_⟩
        · simp only [List.reverse_append, List.reverse_cons, List.reverse_nil, List.nil_append, List.flatten_append,
            List.flatten_cons, List.flatten_nil, List.append_nil, List.singleton_append]
          rw [hbl, advance_data]
          have : m = min m rblk + (m - min m rblk) := by omega
          conv => rhs; rw [this, List.take_add]
        · rw [heq, advance_advance]
          have e1 : min m rblk + (m - min m rblk) = m := by omega
          have e2 : size - min m rblk - (m - min m rblk) = size - m := by omega
          have e3 : decide (m - min m rblk = size - min m rblk) = decide (m = size) := by
            apply decide_eq_decide.mpr; omega
          simp [e1, e2, e3]


/-- `available()` never exceeds what is left -/
theorem available_le (i : Inp) : i.available ≤ i.data.length := by
  unfold Inp.available
  split
  · exact Nat.min_le_right _ _
  · exact Nat.le_refl _

/-- the `while (!end)` loop with a Content-Length: exactly `size` bytes are taken, whatever `available()` reports -/
theorem readLenLoop_exact (rblk : Nat) (hr : 0 < rblk) :
    ∀ (f : Nat) (i : Inp) (size : Nat) (acc : List Bytes), Live i → size ≤ f → 0 < size → size ≤ i.data.length →
      ∃ bl : List Bytes, bl.reverse.flatten = i.data.take size ∧
        readLenLoop rblk f i size acc = (bl ++ acc, i.advance size) := by
  intro f
  induction f with
  | zero => intro i size acc _ h1 h2; omega
  | succ f ih =>
    intro i size acc hi hf hs hd
    unfold readLenLoop
    simp only [live_dead hi, Bool.false_eq_true, if_false]
    -- the amount asked from the inner loop
    generalize ha : (if i.available = 0 then 1 else i.available) = a
    have ha1 : 1 ≤ a := by rw [← ha]; split <;> omega
    generalize hm : (if size > 0 ∧ a > size then size else a) = m
    have hm1 : 1 ≤ m ∧ m ≤ size := by
      rw [← hm]; split <;> omega
    obtain ⟨bl, hbl, heq⟩ := readInner_len rblk hr (m + 1) i m size acc hi (by omega) hm1.2 hs hd
    rw [heq]
    by_cases hms : m = size
    · subst hms
      simp only [decide_true]
      exact ⟨bl, hbl, rfl⟩
    · simp only [hms, decide_false]
      obtain ⟨bl2, hbl2, heq2⟩ := ih (i.advance m) (size - m) (bl ++ acc) hi (by omega) (by omega)
        (by simp only [advance_data, List.length_drop]; omega)
      refine ⟨bl2 ++ bl, ?_, ?_⟩
      · simp only [List.reverse_append, List.flatten_append]
        rw [hbl, hbl2, advance_data]
        have : size = m + (size - m) := by omega
        conv => rhs; rw [this, List.take_add]
      · rw [heq2, advance_advance]
        have : m + (size - m) = size := by omega
        simp [this]



/-! ### decimal and hexadecimal text -/

theorem dec_digit : ∀ d, d < 10 →
    ((48 : UInt8) ≤ UInt8.ofNat (48 + d) ∧ UInt8.ofNat (48 + d) ≤ (57 : UInt8)) ∧ (UInt8.ofNat (48 + d)).toNat - 48 = d := by decide

def IsDigit (c : UInt8) : Prop := (48 : UInt8) ≤ c ∧ c ≤ (57 : UInt8)

theorem digitLoop_append (xs ys : Bytes) (hx : ∀ c ∈ xs, IsDigit c) : ∀ y, digitLoop (xs ++ ys) y = digitLoop ys (digitLoop xs y) := by
  induction xs with
  | nil => intro y; rfl
  | cons c t ih =>
    intro y
    have hc : (48 : UInt8) ≤ c ∧ c ≤ (57 : UInt8) := hx c List.mem_cons_self
    simp only [List.cons_append, digitLoop, hc, and_self, if_true]
    exact ih (fun c h => hx c (List.mem_cons_of_mem _ h)) _

theorem digitsRev_digits : ∀ f n, ∀ c ∈ digitsRev f n, IsDigit c := by
  intro f
  induction f with
  | zero => intro n c h; simp [digitsRev] at h
  | succ f ih =>
    intro n c h
    unfold digitsRev at h
    split at h
    · rename_i hn
      simp only [List.mem_singleton] at h
      subst h
      exact (dec_digit n hn).1
    · simp only [List.mem_cons] at h
      rcases h with h | h
      · subst h; exact (dec_digit (n % 10) (Nat.mod_lt _ (by decide))).1
      · exact ih _ _ h

theorem digitLoop_digitsRev : ∀ f n, n < f → digitLoop (digitsRev f n).reverse 0 = n := by
  intro f
  induction f with
  | zero => intro n h; omega
  | succ f ih =>
    intro n h
    unfold digitsRev
    split
    · rename_i hn
      have := dec_digit n hn
      simp only [List.reverse_cons, List.reverse_nil, List.nil_append, digitLoop, this.1, and_self, if_true]
      omega
    · rename_i hn
      have hd := dec_digit (n % 10) (Nat.mod_lt _ (by decide))
      simp only [List.reverse_cons]
      rw [digitLoop_append _ _ (fun c hc => digitsRev_digits f (n / 10) c (List.mem_reverse.mp hc))]
      rw [ih (n / 10) (by omega)]
      simp only [digitLoop, hd.1, and_self, if_true]
      omega

theorem utoa_digits (n : Nat) : ∀ c ∈ utoa n, IsDigit c := by
  intro c h
  exact digitsRev_digits _ _ c (List.mem_reverse.mp h)

theorem utoa_ne_nil (n : Nat) : utoa n ≠ [] := by
  unfold utoa digitsRev
  split <;> simp

/-- `myatoi(String(n)) = n` -/
theorem atoi_utoa (n : Nat) : atoi (utoa n) = n := by
  have h := digitLoop_digitsRev (n + 1) n (by omega)
  unfold atoi
  split
  · rename_i t heq
    have : IsDigit 43 := by
      have := utoa_digits n 43 (by rw [heq]; exact List.mem_cons_self)
      exact this
    exact absurd this (by unfold IsDigit; decide)
  · exact h



def blank (c : UInt8) : Bool := c == 32 || (9 ≤ c && c ≤ 13)

theorem hex_digit : ∀ d, d < 16 →
    hexVal (hexDigit d) = some d ∧ blank (hexDigit d) = false ∧ hexDigit d ≠ 43 ∧ hexDigit d ≠ 120 ∧ hexDigit d ≠ 88 ∧ hexDigit d ≠ 10
      ∧ hexDigit d ≠ 13 := by decide

def IsHexD (c : UInt8) : Prop := ∃ d, d < 16 ∧ c = hexDigit d

theorem hexRev_mem : ∀ f n, ∀ c ∈ hexRev f n, IsHexD c := by
  intro f
  induction f with
  | zero => intro n c h; simp [hexRev] at h
  | succ f ih =>
    intro n c h
    unfold hexRev at h
    split at h
    · rename_i hn
      simp only [List.mem_singleton] at h
      exact ⟨n, hn, h⟩
    · simp only [List.mem_cons] at h
      rcases h with h | h
      · exact ⟨n % 16, Nat.mod_lt _ (by decide), h⟩
      · exact ih _ _ h

theorem hexLoop_append (xs ys : Bytes) (hx : ∀ c ∈ xs, IsHexD c) : ∀ y, hexLoop (xs ++ ys) y = hexLoop ys (hexLoop xs y) := by
  induction xs with
  | nil => intro y; rfl
  | cons c t ih =>
    intro y
    obtain ⟨d, hd, hc⟩ := hx c List.mem_cons_self
    subst hc
    simp only [List.cons_append, hexLoop, (hex_digit d hd).1]
    exact ih (fun c h => hx c (List.mem_cons_of_mem _ h)) _

theorem hexLoop_hexRev : ∀ f n, n < f → hexLoop (hexRev f n).reverse 0 = n := by
  intro f
  induction f with
  | zero => intro n h; omega
  | succ f ih =>
    intro n h
    unfold hexRev
    split
    · rename_i hn
      simp only [List.reverse_cons, List.reverse_nil, List.nil_append, hexLoop, (hex_digit n hn).1]
      omega
    · rename_i hn
      have hd := hex_digit (n % 16) (Nat.mod_lt _ (by decide))
      simp only [List.reverse_cons]
      rw [hexLoop_append _ _ (fun c hc => hexRev_mem f (n / 16) c (List.mem_reverse.mp hc))]
      rw [ih (n / 16) (by omega)]
      simp only [hexLoop, hd.1]
      omega

theorem hexLower_mem (n : Nat) : ∀ c ∈ hexLower n, IsHexD c :=
  fun c h => hexRev_mem _ _ c (List.mem_reverse.mp h)

theorem hexLower_ne_nil (n : Nat) : hexLower n ≠ [] := by
  unfold hexLower hexRev
  split <;> simp

theorem hexVal_cr : hexVal 13 = none := by decide

/-- `hexToInt` reads back a `%x` chunk-size line (with its CR) -/
theorem hexToInt_hexLower (n : Nat) (hn : n < 4294967296) : hexToInt (hexLower n ++ [13]) = n := by
  have hmem := hexLower_mem n
  obtain ⟨c, t, hct⟩ := List.exists_cons_of_ne_nil (hexLower_ne_nil n)
  have hloop : hexLoop (hexLower n ++ [13]) 0 = n := by
    rw [hexLoop_append _ _ hmem]
    have := hexLoop_hexRev (n + 1) n (by omega)
    unfold hexLower
    rw [this]
    simp [hexLoop, hexVal_cr]
  obtain ⟨d, hd, hc⟩ := hmem c (by rw [hct]; exact List.mem_cons_self)
  have hfacts := hex_digit d hd
  unfold hexToInt
  have hb : isBlank c = false := by
    have := hfacts.2.1; unfold blank at this; unfold isBlank; rw [hc]; exact this
  have h1 : List.dropWhile isBlank (hexLower n ++ [13]) = hexLower n ++ [13] := by
    rw [hct]; simp only [List.cons_append]; rw [List.dropWhile_cons_of_neg (by simp [hb])]
  rw [h1]
  have h2 : skipPlus (hexLower n ++ [13]) = hexLower n ++ [13] := by
    rw [hct]; simp only [List.cons_append]
    unfold skipPlus
    split
    · rename_i heq; simp only [List.cons.injEq] at heq; exact absurd (hc ▸ heq.1) hfacts.2.2.1
    · rfl
  rw [h2]
  have h3 : skip0x (hexLower n ++ [13]) = hexLower n ++ [13] := by
    unfold skip0x
    split
    · rename_i x h t heq
      have hx : x ∈ hexLower n ++ [13] := by rw [heq]; simp
      have hx2 : x ≠ 120 ∧ x ≠ 88 := by
        rcases List.mem_append.mp hx with hx | hx
        · obtain ⟨d', hd', hxc⟩ := hmem x hx
          have := hex_digit d' hd'
          rw [hxc]; exact ⟨this.2.2.2.1, this.2.2.2.2.1⟩
        · simp only [List.mem_singleton] at hx; subst hx; decide
      have : (x == 120 || x == 88) = false := by simp [hx2.1, hx2.2]
      simp [this, heq]
    · rfl
  rw [h3, hloop]
  exact Nat.mod_eq_of_lt hn



theorem hexRev_length : ∀ (f n k : Nat), 0 < k → n < 16 ^ k → (hexRev f n).length ≤ k := by
  intro f
  induction f with
  | zero => intro n k hk _; simp [hexRev]
  | succ f ih =>
    intro n k hk hn
    unfold hexRev
    split
    · simp; omega
    · rename_i h16
      simp only [List.length_cons]
      cases k with
      | zero => omega
      | succ k =>
        cases k with
        | zero => simp at hn; omega
        | succ k =>
          have : n / 16 < 16 ^ (k + 1) := by
            rw [Nat.div_lt_iff_lt_mul (by decide)]
            calc n < 16 ^ (k + 1 + 1) := hn
              _ = 16 ^ (k + 1) * 16 := by rw [Nat.pow_succ]
          have := ih (n / 16) (k + 1) (by omega) this
          omega

theorem hexLower_length (n : Nat) (hn : n < 4294967296) : (hexLower n).length ≤ 8 := by
  unfold hexLower
  rw [List.length_reverse]
  exact hexRev_length _ n 8 (by decide) (by simpa using hn)

theorem digitsRev_length : ∀ (f n k : Nat), 0 < k → n < 10 ^ k → (digitsRev f n).length ≤ k := by
  intro f
  induction f with
  | zero => intro n k hk _; simp [digitsRev]
  | succ f ih =>
    intro n k hk hn
    unfold digitsRev
    split
    · simp; omega
    · rename_i h10
      simp only [List.length_cons]
      cases k with
      | zero => omega
      | succ k =>
        cases k with
        | zero => simp at hn; omega
        | succ k =>
          have : n / 10 < 10 ^ (k + 1) := by
            rw [Nat.div_lt_iff_lt_mul (by decide)]
            calc n < 10 ^ (k + 1 + 1) := hn
              _ = 10 ^ (k + 1) * 10 := by rw [Nat.pow_succ]
          have := ih (n / 10) (k + 1) (by omega) this
          omega

/-- a length that fits in an `int` prints in at most 10 digits -/
theorem utoa_length (n : Nat) (hn : n < 2147483648) : (utoa n).length ≤ 10 := by
  unfold utoa
  rw [List.length_reverse]
  exact digitsRev_length _ n 10 (by decide) (by omega)




/-- `readInner` without a Content-Length countdown (`size = 0`): `m` bytes when they are there -/
theorem readInner_chunk (rblk : Nat) (hr : 0 < rblk) :
    ∀ (f : Nat) (i : Inp) (m : Nat) (acc : List Bytes), Live i → m ≤ f → m ≤ i.data.length →
      ∃ bl : List Bytes, bl.reverse.flatten = i.data.take m ∧
        readInner rblk f i m 0 acc = (bl ++ acc, i.advance m, 0, false) := by
  intro f
  induction f with
  | zero =>
    intro i m acc hi hm hd
    have : m = 0 := by omega
    subst this
    exact ⟨[], by simp, by simp [readInner, advance_zero]⟩
  | succ f ih =>
    intro i m acc hi hm hd
    unfold readInner
    by_cases hm0 : m = 0
    · subst hm0
      exact ⟨[], by simp, by simp [advance_zero]⟩
    · simp only [hm0, if_false]
      have hk : min m rblk ≤ i.data.length := by omega
      have hk1 : 0 < min m rblk := by omega
      have hgl : (i.data.take (min m rblk)).length = min m rblk := by simp [List.length_take, Nat.min_eq_left hk]
      have hne : (i.data.take (min m rblk)).isEmpty = false := by
        cases hx : i.data.take (min m rblk) with
        | nil => rw [hx] at hgl; simp at hgl; omega
        | cons a t => rfl
      simp only [hne, Bool.false_eq_true, if_false]
      rw [inner_step_eq hi _ hk, hgl]
      simp only [Nat.lt_irrefl, gt_iff_lt, if_false]
      obtain ⟨bl, hbl, heq⟩ := ih (i.advance (min m rblk)) (m - min m rblk) (i.data.take (min m rblk) :: acc) hi (by omega)
        (by simp only [advance_data, List.length_drop]; omega)
      refine ⟨bl ++ [i.data.take (min m rblk)], ?_, ?_⟩
      · simp only [List.reverse_append, List.reverse_cons, List.reverse_nil, List.nil_append, List.flatten_cons,
          List.flatten_nil, List.append_nil, List.singleton_append]
        rw [hbl, advance_data]
        have : m = min m rblk + (m - min m rblk) := by omega
        conv => rhs; rw [this, List.take_add]
      · rw [heq, advance_advance]
        have e1 : min m rblk + (m - min m rblk) = m := by omega
        simp [e1]

theorem hexLower_no_lf (n : Nat) : ∀ c ∈ hexLower n ++ [13], c ≠ 10 := by
  intro c hc
  rcases List.mem_append.mp hc with h | h
  · obtain ⟨d, hd, hcd⟩ := hexLower_mem n c h
    rw [hcd]; exact (hex_digit d hd).2.2.2.2.2.1
  · simp only [List.mem_singleton] at h; subst h; decide

/-- one chunk `%x CRLF data CRLF` is consumed by one turn of the chunked loop -/
theorem readChunked_step (rblk : Nat) (hr : 0 < rblk) (f : Nat) (i : Inp) (acc : List Bytes) (p tail : Bytes)
    (hi : Live i) (hp0 : 0 < p.length) (hp : p.length < 4294967296)
    (hd : i.data = hexLower p.length ++ crlf ++ p ++ crlf ++ tail) :
    ∃ bl : List Bytes, bl.reverse.flatten = p ∧
      readChunkedLoop rblk (f + 1) i 0 acc =
        readChunkedLoop rblk f (i.advance ((hexLower p.length).length + 2 + p.length + 2)) 0 (bl ++ acc) := by
  have hd' : i.data = (hexLower p.length ++ [13]) ++ 10 :: (p ++ crlf ++ tail) := by
    rw [hd]; simp [crlf, List.append_assoc]
  have hlen : (hexLower p.length ++ [13]).length ≤ 16001 := by
    have := hexLower_length p.length hp
    simp only [List.length_append, List.length_cons, List.length_nil]; omega
  obtain ⟨hrl, hrest⟩ := readLine_line hi (hexLower p.length ++ [13]) (p ++ crlf ++ tail) (hexLower_no_lf _) hlen hd'
  have hll : (hexLower p.length ++ [13]).length + 1 = (hexLower p.length).length + 2 := by
    simp only [List.length_append, List.length_cons, List.length_nil]
  have hi1 : Live (i.advance ((hexLower p.length ++ [13]).length + 1)) := hi
  obtain ⟨bl, hbl, heq⟩ := readInner_chunk rblk hr (p.length + 1) _ p.length acc hi1 (by omega)
    (by rw [hrest]; simp only [List.length_append]; omega)
  refine ⟨bl, ?_, ?_⟩
  · rw [hbl, hrest]; simp [List.append_assoc]
  · rw [readChunkedLoop]
    simp only [live_dead hi, Bool.false_eq_true, if_false]
    rw [hrl]
    simp only []
    rw [hexToInt_hexLower _ hp, heq]
    simp only []
    rw [advance_advance]
    have hdat : ((i.advance ((hexLower p.length ++ [13]).length + 1 + p.length)).data) = crlf ++ tail := by
      rw [← advance_advance, advance_data, hrest]; simp [List.append_assoc]
    have htwo : List.take 2 (crlf ++ tail) = crlf := by simp [crlf]
    rw [hdat, htwo]
    have hi2 : Live (i.advance ((hexLower p.length ++ [13]).length + 1 + p.length)) := hi
    have hne : ¬ p.length = 0 := by omega
    have herr : (i.advance ((hexLower p.length ++ [13]).length + 1 + p.length)).err = false := hi2.2
    simp only [crlf, List.length_cons, List.length_nil, Nat.lt_irrefl, decide_false, Bool.or_false, if_false, hne, herr]
    rw [advance_advance]
    have hN : (hexLower p.length ++ [13]).length + 1 + p.length + (0 + 1 + 1) = (hexLower p.length).length + 2 + p.length + 2 := by
      omega
    rw [hN]
    congr 1
    simp [Inp.advance, hi.2]


theorem hexToInt_zero_cr : hexToInt [48, 13] = 0 := by decide

/-- the final `0 CRLF CRLF` ends the chunked loop -/
theorem readChunked_end (rblk : Nat) (f : Nat) (i : Inp) (acc : List Bytes) (rest : Bytes) (hi : Live i)
    (hd : i.data = lastChunk ++ rest) :
    readChunkedLoop rblk (f + 1) i 0 acc = (acc, i.advance 5) ∧ (i.advance 5).data = rest := by
  have hd' : i.data = [48, 13] ++ 10 :: ([13, 10] ++ rest) := by rw [hd]; simp [lastChunk]
  obtain ⟨hrl, hrest⟩ := readLine_line hi [48, 13] ([13, 10] ++ rest) (by decide) (by decide) hd'
  constructor
  · rw [readChunkedLoop]
    simp only [live_dead hi, Bool.false_eq_true, if_false]
    rw [hrl]
    have hi2 : (i.advance ([48, 13].length + 1)).err = false := hi.2
    have hlen : i.data.length = 5 + rest.length := by rw [hd]; simp [lastChunk]; omega
    simp [hexToInt_zero_cr, readInner, hrest, hi2, advance_advance]
    simp [Inp.advance, hi.2]
    omega
  · simp [hd, lastChunk]

theorem writeLoop_chunked_length (blk : Nat) (hb : 0 < blk) :
    ∀ (wf : Nat) (b : Bytes), b.length ≤ wf → b.length ≤ (writeLoop true blk wf b).length := by
  intro wf
  induction wf with
  | zero => intro b h; have : b = [] := List.eq_nil_of_length_eq_zero (by omega); subst this; simp
  | succ wf ih =>
    intro b h
    unfold writeLoop
    by_cases he : b.isEmpty = true
    · simp only [he, if_true]; have := List.isEmpty_iff.mp he; subst this; simp
    · have hf : b.isEmpty = false := by simpa using he
      simp only [hf, Bool.false_eq_true, if_false]
      have hne : b ≠ [] := by intro h0; subst h0; simp at he
      have hl : 0 < b.length := List.length_pos_iff.mpr hne
      have h2 := ih (b.drop (min b.length blk)) (by rw [List.length_drop]; omega)
      simp only [frameBlock, if_true, List.length_append, List.length_take, List.length_drop] at h2 ⊢
      omega


/-- all the chunks written by one `write(buffer, n)` are consumed and their data collected -/
theorem readChunked_writeLoop (blk rblk : Nat) (hb : 0 < blk) (hb2 : blk < 4294967296) (hr : 0 < rblk) :
    ∀ (wf : Nat) (b : Bytes) (f : Nat) (i : Inp) (acc : List Bytes) (tail : Bytes), Live i → b.length ≤ wf → wf ≤ f →
      i.data = writeLoop true blk wf b ++ tail →
      ∃ (bl : List Bytes) (f' : Nat), f - wf ≤ f' ∧ bl.reverse.flatten = b ∧
        readChunkedLoop rblk f i 0 acc = readChunkedLoop rblk f' (i.advance (writeLoop true blk wf b).length) 0 (bl ++ acc) := by
  intro wf
  induction wf with
  | zero =>
    intro b f i acc tail hi hbl hf hd
    have : b = [] := List.eq_nil_of_length_eq_zero (by omega)
    subst this
    exact ⟨[], f, by omega, by simp, by simp [writeLoop, advance_zero]⟩
  | succ wf ih =>
    intro b f i acc tail hi hbl hf hd
    by_cases he : b.isEmpty = true
    · have := List.isEmpty_iff.mp he; subst this
      exact ⟨[], f, by omega, by simp, by simp [writeLoop, advance_zero]⟩
    · have hf0 : b.isEmpty = false := by simpa using he
      have hne : b ≠ [] := by intro h0; subst h0; simp at he
      have hl : 0 < b.length := List.length_pos_iff.mpr hne
      have hw : writeLoop true blk (wf + 1) b =
          hexLower (b.take (min b.length blk)).length ++ crlf ++ b.take (min b.length blk) ++ crlf ++
            writeLoop true blk wf (b.drop (min b.length blk)) := by
        rw [writeLoop]; simp only [hf0, Bool.false_eq_true, if_false, frameBlock, if_true]
      have hpl : (b.take (min b.length blk)).length = min b.length blk := by
        rw [List.length_take]; omega
      obtain ⟨f0, hf0'⟩ : ∃ f0, f = f0 + 1 := ⟨f - 1, by omega⟩
      subst hf0'
      have hd2 : i.data = hexLower (b.take (min b.length blk)).length ++ crlf ++ b.take (min b.length blk) ++ crlf ++
            (writeLoop true blk wf (b.drop (min b.length blk)) ++ tail) := by
        rw [hd, hw]; simp [List.append_assoc]
      obtain ⟨bl1, hbl1, heq1⟩ := readChunked_step rblk hr f0 i acc (b.take (min b.length blk))
        (writeLoop true blk wf (b.drop (min b.length blk)) ++ tail) hi (by omega) (by omega) hd2
      have hi' : Live (i.advance ((hexLower (b.take (min b.length blk)).length).length + 2 + (b.take (min b.length blk)).length + 2)) := hi
      have hd3 : (i.advance ((hexLower (b.take (min b.length blk)).length).length + 2 + (b.take (min b.length blk)).length + 2)).data =
          writeLoop true blk wf (b.drop (min b.length blk)) ++ tail := by
        rw [advance_data, hd2]
        have : (hexLower (b.take (min b.length blk)).length).length + 2 + (b.take (min b.length blk)).length + 2 =
            (hexLower (b.take (min b.length blk)).length ++ crlf ++ b.take (min b.length blk) ++ crlf).length := by
          simp [crlf]; omega
        rw [this, List.drop_left]
      obtain ⟨bl2, f', hf', hbl2, heq2⟩ := ih (b.drop (min b.length blk)) f0 _ (bl1 ++ acc) tail hi'
        (by rw [List.length_drop]; omega) (by omega) hd3
      refine ⟨bl2 ++ bl1, f', by omega, ?_, ?_⟩
      · simp only [List.reverse_append, List.flatten_append]
        rw [hbl1, hbl2, List.take_append_drop]
      · rw [heq1, heq2, advance_advance, hw]
        simp only [List.length_append, List.append_assoc]
        congr 2
        simp [crlf]
        omega


def sumLen (parts : List Bytes) : Nat := (parts.map List.length).sum

theorem wire_parts_length (blk : Nat) (hb : 0 < blk) : ∀ parts : List Bytes,
    sumLen parts ≤ ((parts.map (writeBody true blk)).flatten).length := by
  intro parts
  induction parts with
  | nil => simp [sumLen]
  | cons p t ih =>
    have := writeLoop_chunked_length blk hb p.length p (Nat.le_refl _)
    simp only [sumLen, List.map_cons, List.sum_cons, List.flatten_cons, List.length_append, writeBody] at ih ⊢
    omega

/-- a body streamed through several `write(part)` calls is collected part after part -/
theorem readChunked_parts (blk rblk : Nat) (hb : 0 < blk) (hb2 : blk < 4294967296) (hr : 0 < rblk) :
    ∀ (parts : List Bytes) (f : Nat) (i : Inp) (acc : List Bytes) (tail : Bytes), Live i → sumLen parts ≤ f →
      i.data = (parts.map (writeBody true blk)).flatten ++ tail →
      ∃ (bl : List Bytes) (f' : Nat), f - sumLen parts ≤ f' ∧ bl.reverse.flatten = parts.flatten ∧
        readChunkedLoop rblk f i 0 acc =
          readChunkedLoop rblk f' (i.advance ((parts.map (writeBody true blk)).flatten).length) 0 (bl ++ acc) := by
  intro parts
  induction parts with
  | nil =>
    intro f i acc tail hi hf hd
    exact ⟨[], f, by simp [sumLen], by simp, by simp [advance_zero]⟩
  | cons p t ih =>
    intro f i acc tail hi hf hd
    have hs : sumLen (p :: t) = p.length + sumLen t := by simp [sumLen]
    have hd1 : i.data = writeLoop true blk p.length p ++ ((t.map (writeBody true blk)).flatten ++ tail) := by
      rw [hd]; simp [writeBody, List.append_assoc]
    obtain ⟨bl1, f1, hf1, hbl1, heq1⟩ := readChunked_writeLoop blk rblk hb hb2 hr p.length p f i acc _ hi (Nat.le_refl _) (by omega) hd1
    have hi' : Live (i.advance (writeLoop true blk p.length p).length) := hi
    have hd2 : (i.advance (writeLoop true blk p.length p).length).data = (t.map (writeBody true blk)).flatten ++ tail := by
      rw [advance_data, hd1, List.drop_left]
    obtain ⟨bl2, f2, hf2, hbl2, heq2⟩ := ih f1 _ (bl1 ++ acc) tail hi' (by omega) hd2
    refine ⟨bl2 ++ bl1, f2, by omega, ?_, ?_⟩
    · simp only [List.reverse_append, List.flatten_append, List.flatten_cons]
      rw [hbl1, hbl2]
    · rw [heq1, heq2, advance_advance]
      simp [writeBody, List.append_assoc]

theorem header_absent {h : Dic} {name : Bytes} (hh : hasHeader h name = false) : header h name = [] := by
  unfold hasHeader at hh
  unfold header
  cases hg : dicGet h (capitalized name) with
  | none => rfl
  | some v => rw [hg] at hh; simp at hh

/-- `readBody` on a chunk-framed body followed by the final chunk: the parts' data, the connection just after -/
theorem readBody_chunked (blk rblk : Nat) (hb : 0 < blk) (hb2 : blk < 4294967296) (hr : 0 < rblk) (h : Dic) (parts : List Bytes)
    (rest : Bytes) (i : Inp) (hi : Live i)
    (hcl : hasHeader h sContentLength = false) (hte : header h sTransferEncoding = sChunked)
    (hd : i.data = (parts.map (writeBody true blk)).flatten ++ lastChunk ++ rest) :
    readBodyWith rblk h i = (parts.flatten, i.advance (((parts.map (writeBody true blk)).flatten).length + 5)) ∧
      (i.advance (((parts.map (writeBody true blk)).flatten).length + 5)).data = rest := by
  have hw := wire_parts_length blk hb parts
  have hdl : i.data.length = ((parts.map (writeBody true blk)).flatten).length + 5 + rest.length := by
    rw [hd]; simp [lastChunk]; omega
  obtain ⟨bl, f', hf', hbl, heq⟩ := readChunked_parts blk rblk hb hb2 hr parts (i.data.length + 1) i [] (lastChunk ++ rest) hi
    (by omega) (by rw [hd]; simp [List.append_assoc])
  obtain ⟨f0, hf0⟩ : ∃ f0, f' = f0 + 1 := ⟨f' - 1, by omega⟩
  subst hf0
  have hi' : Live (i.advance ((parts.map (writeBody true blk)).flatten).length) := hi
  have hd2 : (i.advance ((parts.map (writeBody true blk)).flatten).length).data = lastChunk ++ rest := by
    rw [advance_data, hd, List.append_assoc, List.drop_left]
  obtain ⟨hend, hrest⟩ := readChunked_end rblk f0 _ (bl ++ []) rest hi' hd2
  constructor
  · unfold readBodyWith
    have hcl' : header h sContentLength = [] := header_absent hcl
    simp only [hcl, hcl', hte, Bool.false_eq_true, false_and, if_false, beq_self_eq_true, not_true_eq_false, and_false,
      if_true, atoi, digitLoop]
    rw [heq, hend, advance_advance]
    simp [hbl]
  · rw [← advance_advance]; exact hrest

theorem utoa_pos_ne_zero {n : Nat} (hn : 0 < n) : utoa n ≠ [48] := by
  intro h
  have := atoi_utoa n
  rw [h] at this
  have h0 : atoi [48] = 0 := by decide
  omega

/-- `readBody` with `Content-Length: n`: exactly the next `n` bytes, for every fragmentation (`i.cuts` is arbitrary) -/
theorem readBody_len (rblk : Nat) (hr : 0 < rblk) (h : Dic) (body rest : Bytes) (i : Inp) (hi : Live i)
    (hcl : hasHeader h sContentLength = true) (hv : header h sContentLength = utoa body.length)
    (hte : header h sTransferEncoding ≠ sChunked)
    (hd : i.data = body ++ rest) :
    readBodyWith rblk h i = (body, i.advance body.length) ∧ (i.advance body.length).data = rest := by
  constructor
  · unfold readBodyWith
    by_cases hn : body.length = 0
    · have : body = [] := List.eq_nil_of_length_eq_zero hn
      subst this
      have hu : utoa 0 = [48] := by decide
      simp [hcl, hv, hu, advance_zero]
    · have hne : utoa body.length ≠ [48] := utoa_pos_ne_zero (by omega)
      have hte' : (header h sTransferEncoding == sChunked) = false := by simpa using hte
      simp only [hcl, hv, hne, hte', and_false, if_false, Bool.false_eq_true, not_true_eq_false, false_and, atoi_utoa]
      obtain ⟨bl, hbl, heq⟩ := readLenLoop_exact rblk hr (i.data.length + 1) i body.length [] hi
        (by rw [hd]; simp; omega) (by omega) (by rw [hd]; simp)
      rw [heq]
      simp [hbl, hd]
  · simp [hd]




/-! ### `Dic` lookups -/

theorem dicGet_dicSet_same (d : Dic) (k v : Bytes) : dicGet (dicSet d k v) k = some v := by
  induction d with
  | nil => simp [dicSet, dicGet]
  | cons kv t ih =>
    obtain ⟨k', v'⟩ := kv
    unfold dicSet
    by_cases h1 : k' = k
    · simp [h1, dicGet]
    · simp only [h1, if_false]
      by_cases h2 : ltBytes k k' = true
      · simp [h2, dicGet]
      · simp only [h2, Bool.false_eq_true, if_false, dicGet, h1]
        exact ih

theorem dicGet_dicSet_other (d : Dic) (k v k2 : Bytes) (hne : k2 ≠ k) : dicGet (dicSet d k v) k2 = dicGet d k2 := by
  induction d with
  | nil =>
    have : ¬ k = k2 := fun h => hne h.symm
    simp [dicSet, dicGet, this]
  | cons kv t ih =>
    obtain ⟨k', v'⟩ := kv
    have hk : ¬ k = k2 := fun h => hne h.symm
    unfold dicSet
    by_cases h1 : k' = k
    · subst h1
      simp [dicGet, hk]
    · simp only [h1, if_false]
      by_cases h2 : ltBytes k k' = true
      · simp [h2, dicGet, hk]
      · simp only [h2, Bool.false_eq_true, if_false, dicGet]
        by_cases h3 : k' = k2
        · simp [h3]
        · simp only [h3, if_false]; exact ih

theorem setHeader_of_value {h : Dic} {n v : Bytes} (hv : v ≠ []) : setHeader h n v = dicSet h (capitalized n) v := by
  unfold setHeader
  have : v.isEmpty = false := by cases v <;> simp_all
  simp [this]

/-- headers whose capitalized name differs from `K` do not change what is stored under `K` -/
theorem foldl_setHeader_preserve (K : Bytes) : ∀ (l : List (Bytes × Bytes)) (d : Dic),
    (∀ x ∈ l, x.2 ≠ [] ∧ capitalized x.1 ≠ K) → dicGet (l.foldl (fun d nv => setHeader d nv.1 nv.2) d) K = dicGet d K := by
  intro l
  induction l with
  | nil => intro d _; rfl
  | cons x t ih =>
    intro d hx
    have h0 := hx x List.mem_cons_self
    simp only [List.foldl_cons]
    rw [ih _ (fun y hy => hx y (List.mem_cons_of_mem _ hy)), setHeader_of_value h0.1]
    exact dicGet_dicSet_other d _ _ K (fun h => h0.2 h.symm)

/-- the last header line whose capitalized name is `K` is the one that is kept -/
theorem foldl_setHeader_found (K : Bytes) (l1 l2 : List (Bytes × Bytes)) (n v : Bytes) (d : Dic)
    (hv : v ≠ []) (hn : capitalized n = K) (h2 : ∀ x ∈ l2, x.2 ≠ [] ∧ capitalized x.1 ≠ K) :
    dicGet ((l1 ++ (n, v) :: l2).foldl (fun d nv => setHeader d nv.1 nv.2) d) K = some v := by
  rw [List.foldl_append, List.foldl_cons, foldl_setHeader_preserve K l2 _ h2, setHeader_of_value hv, hn]
  exact dicGet_dicSet_same _ _ _

theorem dicSet_split (d : Dic) (k v : Bytes) : ∃ l1 l2, dicSet d k v = l1 ++ (k, v) :: l2 ∧ (∀ x ∈ l1, x ∈ d) ∧ (∀ x ∈ l2, x ∈ d) := by
  induction d with
  | nil => exact ⟨[], [], by simp [dicSet], by simp, by simp⟩
  | cons kv t ih =>
    obtain ⟨k', v'⟩ := kv
    unfold dicSet
    by_cases h1 : k' = k
    · exact ⟨[], t, by simp [h1], by simp, fun x hx => List.mem_cons_of_mem _ hx⟩
    · simp only [h1, if_false]
      by_cases h2 : ltBytes k k' = true
      · exact ⟨[], (k', v') :: t, by simp [h2], by simp, fun x hx => hx⟩
      · obtain ⟨l1, l2, he, ha, hb⟩ := ih
        refine ⟨(k', v') :: l1, l2, by simp [h2, he], ?_, fun x hx => List.mem_cons_of_mem _ (hb x hx)⟩
        intro x hx
        rcases List.mem_cons.mp hx with h | h
        · rw [h]; exact List.mem_cons_self
        · exact List.mem_cons_of_mem _ (ha x h)


/-! ### one header line -/

/-- a field name: not empty, no colon, no white space (so also no CR / LF) -/
def WFName (n : Bytes) : Prop := n ≠ [] ∧ ∀ c ∈ n, c ≠ 58 ∧ cIsSpace c = false

/-- a field value: not empty, no LF, no white space at either end -/
def WFValue (v : Bytes) : Prop :=
  v ≠ [] ∧ (∀ c ∈ v, c ≠ 10) ∧ (∀ c, v.head? = some c → isSpace c = false) ∧ (∀ c, v.getLast? = some c → isSpace c = false)

theorem cIsSpace_isSpace {c : UInt8} (h : cIsSpace c = false) : isSpace c = false ∧ c ≠ 10 ∧ c ≠ 13 := by
  unfold cIsSpace at h
  simp only [Bool.or_eq_false_iff, Bool.and_eq_false_iff, beq_eq_false_iff_ne, decide_eq_false_iff_not] at h
  obtain ⟨h32, h2⟩ := h
  have hx : ∀ k : UInt8, 9 ≤ k → k ≤ 13 → c ≠ k := by
    intro k hk1 hk2 hck; subst hck
    rcases h2 with h | h
    · exact h hk1
    · exact h hk2
  refine ⟨?_, hx 10 (by decide) (by decide), hx 13 (by decide) (by decide)⟩
  unfold isSpace
  simp [h32, hx 10 (by decide) (by decide), hx 13 (by decide) (by decide), hx 9 (by decide) (by decide)]

theorem trimStart_id {s : Bytes} (h : ∀ c, s.head? = some c → isSpace c = false) : trimStart s = s := by
  unfold trimStart
  cases s with
  | nil => rfl
  | cons a t =>
    have := h a rfl
    rw [List.dropWhile_cons_of_neg (by simp [this])]

theorem trimEnd_id {s : Bytes} (h : ∀ c, s.getLast? = some c → isSpace c = false) : trimEnd s = s := by
  unfold trimEnd
  have : s.reverse.dropWhile isSpace = s.reverse := by
    cases hr : s.reverse with
    | nil => rfl
    | cons a t =>
      have hl : s.getLast? = some a := by
        rw [← List.head?_reverse, hr]; rfl
      have := h a hl
      rw [List.dropWhile_cons_of_neg (by simp [this])]
  rw [this, List.reverse_reverse]

theorem trimEnd_cr (s : Bytes) : trimEnd (s ++ [13]) = trimEnd s := by
  unfold trimEnd
  rw [List.reverse_append]
  simp only [List.reverse_cons, List.reverse_nil, List.nil_append, List.singleton_append]
  rw [List.dropWhile_cons_of_pos (by decide)]

theorem indexOfByte_append (c : UInt8) (n t : Bytes) (hn : ∀ x ∈ n, x ≠ c) : indexOfByte c (n ++ c :: t) = some n.length := by
  induction n with
  | nil => simp [indexOfByte]
  | cons a n ih =>
    have ha : (a == c) = false := by simpa using hn a List.mem_cons_self
    simp only [List.cons_append, indexOfByte, ha, Bool.false_eq_true, if_false, List.length_cons]
    rw [ih (fun x hx => hn x (List.mem_cons_of_mem _ hx))]
    rfl

theorem getLast?_append_ne {a b : Bytes} (hb : b ≠ []) : (a ++ b).getLast? = b.getLast? := by
  cases b with
  | nil => exact absurd rfl hb
  | cons x t =>
    rw [List.getLast?_append]
    have : (x :: t).getLast? = some ((x :: t).getLast (by simp)) := List.getLast?_eq_some_getLast (by simp)
    rw [this]; rfl

/-- the text of a header line (without its LF) parses back into its name and value -/
theorem header_line_parse {n v : Bytes} (hn : WFName n) (hv : WFValue v) :
    let line := n ++ [58, 32] ++ v ++ [13]
    line ≠ [13] ∧ cIsSpace (line.headD 0) = false ∧
      indexOfByte 58 (trimmed line) = some n.length ∧
      (trimmed line).take n.length = n ∧ trimmed ((trimmed line).drop (n.length + 1)) = v := by
  obtain ⟨hn0, hnc⟩ := hn
  obtain ⟨hv0, _, hvh, hvl⟩ := hv
  obtain ⟨a, n', hna⟩ := List.exists_cons_of_ne_nil hn0
  have ha := hnc a (by rw [hna]; exact List.mem_cons_self)
  intro line
  have hline : line = n ++ [58, 32] ++ v ++ [13] := rfl
  -- trimmed line = n ++ ": " ++ v
  have ht : trimmed line = n ++ 58 :: ([32] ++ v) := by
    unfold trimmed
    have h1 : trimStart line = line := by
      apply trimStart_id
      intro c hc
      rw [hline, hna] at hc
      simp only [List.cons_append, List.head?_cons, Option.some.injEq] at hc
      subst hc
      exact (cIsSpace_isSpace ha.2).1
    rw [h1, hline, trimEnd_cr]
    have h2 : trimEnd (n ++ [58, 32] ++ v) = n ++ [58, 32] ++ v := by
      apply trimEnd_id
      intro c hc
      rw [getLast?_append_ne hv0] at hc
      exact hvl c hc
    rw [h2]; simp
  refine ⟨?_, ?_, ?_, ?_, ?_⟩
  · rw [hline, hna]; simp
  · rw [hline, hna]; simp only [List.cons_append, List.headD_cons]; exact ha.2
  · rw [ht]; exact indexOfByte_append 58 n _ (fun x hx => (hnc x hx).1)
  · rw [ht]; simp
  · rw [ht]
    have : (n ++ 58 :: ([32] ++ v)).drop (n.length + 1) = [32] ++ v := by
      rw [show n ++ 58 :: ([32] ++ v) = (n ++ [58]) ++ ([32] ++ v) by simp]
      rw [show n.length + 1 = (n ++ [58]).length by simp, List.drop_left]
    rw [this]
    unfold trimmed
    have h1 : trimStart ([32] ++ v) = v := by
      unfold trimStart
      simp only [List.singleton_append]
      rw [List.dropWhile_cons_of_pos (by decide)]
      exact trimStart_id hvh
    rw [h1]
    exact trimEnd_id hvl


/-! ### the header block -/

/-- a header line fits into `readLine`'s 16001-byte limit -/
def FitsLine (n v : Bytes) : Prop := n.length + v.length + 3 ≤ 16001

theorem readHeaders_step (f : Nat) (i : Inp) (h : Dic) (ln lv n v tail : Bytes) (hi : Live i)
    (hn : WFName n) (hv : WFValue v) (hfit : FitsLine n v)
    (hd : i.data = n ++ [58, 32] ++ v ++ crlf ++ tail) :
    readHeadersLoop (f + 1) i h ln lv =
      readHeadersLoop f (i.advance (n.length + 2 + v.length + 2)) (setHeader h n v) n v ∧
    (i.advance (n.length + 2 + v.length + 2)).data = tail := by
  have hd' : i.data = (n ++ [58, 32] ++ v ++ [13]) ++ 10 :: tail := by rw [hd]; simp [crlf]
  have hnolf : ∀ c ∈ n ++ [58, 32] ++ v ++ [13], c ≠ 10 := by
    intro c hc
    simp only [List.mem_append, List.mem_cons, List.mem_singleton, List.not_mem_nil, or_false] at hc
    rcases hc with ((h1 | h1) | h1) | h1
    · exact (cIsSpace_isSpace (hn.2 c h1).2).2.1
    · rcases h1 with h1 | h1 <;> subst h1 <;> decide
    · exact hv.2.1 c h1
    · subst h1; decide
  have hll : (n ++ [58, 32] ++ v ++ [13]).length = n.length + 2 + v.length + 1 := by simp; omega
  obtain ⟨hrl, hrest⟩ := readLine_line hi _ tail hnolf (by rw [hll]; unfold FitsLine at hfit; omega) hd'
  obtain ⟨p1, p2, p3, p4, p5⟩ := header_line_parse hn hv
  constructor
  · rw [readHeadersLoop, hrl]
    simp only [p1, if_false, p2, Bool.false_eq_true, p3, p4, p5]
    rw [hll]
  · rw [hll] at hrest; exact hrest

theorem readHeaders_end (f : Nat) (i : Inp) (h : Dic) (ln lv rest : Bytes) (hi : Live i) (hd : i.data = crlf ++ rest) :
    readHeadersLoop (f + 1) i h ln lv = (h, i.advance 2) ∧ (i.advance 2).data = rest := by
  have hd' : i.data = [13] ++ 10 :: rest := by rw [hd]; simp [crlf]
  obtain ⟨hrl, hrest⟩ := readLine_line hi [13] rest (by decide) (by decide) hd'
  constructor
  · rw [readHeadersLoop, hrl]; simp
  · exact hrest

/-- every line of a header list is well formed -/
def WFHeaders (hs : List (Bytes × Bytes)) : Prop := ∀ nv ∈ hs, WFName nv.1 ∧ WFValue nv.2 ∧ FitsLine nv.1 nv.2

theorem headerLines_length (hs : Dic) : hs.length ≤ (headerLines hs).length := by
  induction hs with
  | nil => simp [headerLines]
  | cons nv t ih => obtain ⟨n, v⟩ := nv; simp [headerLines, crlf]; omega

/-- reading the header lines the sender wrote applies `setHeader` to each, in order, and stops after the blank line -/
theorem readHeaders_lines : ∀ (hs : List (Bytes × Bytes)) (f : Nat) (i : Inp) (h : Dic) (ln lv rest : Bytes), Live i →
    WFHeaders hs → hs.length < f → i.data = headerLines hs ++ crlf ++ rest →
    readHeadersLoop f i h ln lv =
      (hs.foldl (fun d nv => setHeader d nv.1 nv.2) h, i.advance ((headerLines hs).length + 2)) ∧
    (i.advance ((headerLines hs).length + 2)).data = rest := by
  intro hs
  induction hs with
  | nil =>
    intro f i h ln lv rest hi _ hf hd
    obtain ⟨f0, rfl⟩ : ∃ f0, f = f0 + 1 := ⟨f - 1, by simp at hf; omega⟩
    have := readHeaders_end f0 i h ln lv rest hi (by simpa [headerLines] using hd)
    simpa [headerLines] using this
  | cons nv t ih =>
    intro f i h ln lv rest hi hwf hf hd
    obtain ⟨n, v⟩ := nv
    obtain ⟨f0, rfl⟩ : ∃ f0, f = f0 + 1 := ⟨f - 1, by simp at hf; omega⟩
    have h0 := hwf (n, v) List.mem_cons_self
    have hd1 : i.data = n ++ [58, 32] ++ v ++ crlf ++ (headerLines t ++ crlf ++ rest) := by
      rw [hd]; simp [headerLines, List.append_assoc]
    obtain ⟨hstep, hdat⟩ := readHeaders_step f0 i h ln lv n v _ hi h0.1 h0.2.1 h0.2.2 hd1
    have hi' : Live (i.advance (n.length + 2 + v.length + 2)) := hi
    obtain ⟨hrec, hdat2⟩ := ih f0 _ (setHeader h n v) n v rest hi' (fun x hx => hwf x (List.mem_cons_of_mem _ hx))
      (by simp at hf; omega) hdat
    have hlen : (headerLines ((n, v) :: t)).length + 2 = n.length + 2 + v.length + 2 + ((headerLines t).length + 2) := by
      simp [headerLines, crlf]; omega
    constructor
    · rw [hstep, hrec, advance_advance, hlen]; rfl
    · rw [hlen, ← advance_advance]; exact hdat2




/-! ### request line and status line -/

/-- a word of the first line: not empty, no blank, no LF -/
def WFWord (w : Bytes) : Prop := w ≠ [] ∧ ∀ c ∈ w, c ≠ 32 ∧ c ≠ 10

theorem indexOfFrom_eq (c : UInt8) (s : Bytes) (k : Nat) (n : Nat) (h : indexOfByte c (s.drop k) = some n) :
    indexOfFrom c s k = some (n + k) := by
  unfold indexOfFrom; rw [h]; rfl

theorem http11_trim : trimmed (sHttp11 ++ [13]) = sHttp11 := by decide

theorem request_line_parse {method target : Bytes} (hm : WFWord method) (ht : WFWord target) :
    let cmd := method ++ [32] ++ target ++ [32] ++ sHttp11 ++ [13]
    cmd.isEmpty = false ∧
    indexOfByte 32 cmd = some method.length ∧
    indexOfFrom 32 cmd (method.length + 1) = some (target.length + (method.length + 1)) ∧
    cmd.take method.length = method ∧
    (cmd.drop (method.length + 1)).take (target.length + (method.length + 1) - (method.length + 1)) = target ∧
    trimmed (cmd.drop (target.length + (method.length + 1) + 1)) = sHttp11 := by
  intro cmd
  have hcmd : cmd = method ++ 32 :: (target ++ 32 :: (sHttp11 ++ [13])) := by simp [cmd]
  obtain ⟨a, m', hma⟩ := List.exists_cons_of_ne_nil hm.1
  have hd1 : cmd.drop (method.length + 1) = target ++ 32 :: (sHttp11 ++ [13]) := by
    rw [hcmd, show method ++ 32 :: (target ++ 32 :: (sHttp11 ++ [13])) = (method ++ [32]) ++ (target ++ 32 :: (sHttp11 ++ [13])) by simp,
      show method.length + 1 = (method ++ [32]).length by simp, List.drop_left]
  refine ⟨?_, ?_, ?_, ?_, ?_, ?_⟩
  · rw [hcmd, hma]; rfl
  · rw [hcmd]; exact indexOfByte_append 32 method _ (fun x hx => (hm.2 x hx).1)
  · apply indexOfFrom_eq
    rw [hd1]; exact indexOfByte_append 32 target _ (fun x hx => (ht.2 x hx).1)
  · rw [hcmd]; simp
  · rw [hd1]; simp
  · have : cmd.drop (target.length + (method.length + 1) + 1) = sHttp11 ++ [13] := by
      rw [show target.length + (method.length + 1) + 1 = (method.length + 1) + (target.length + 1) by omega, ← List.drop_drop, hd1,
        show target ++ 32 :: (sHttp11 ++ [13]) = (target ++ [32]) ++ (sHttp11 ++ [13]) by simp,
        show target.length + 1 = (target ++ [32]).length by simp, List.drop_left]
    rw [this]; exact http11_trim

/-- `String::split()` peels off a leading word -/
theorem splitWs_word (w t : Bytes) (hw0 : w ≠ []) (hw : ∀ c ∈ w, isSpace c = false) : splitWs (w ++ 32 :: t) = w :: splitWs t := by
  unfold splitWs
  rw [List.foldr_append]
  simp only [List.foldr_cons]
  have h32 : isSpace 32 = true := by decide
  simp only [h32, if_true]
  generalize hr : List.foldr (fun c (acc : Bytes × List Bytes) =>
      if isSpace c = true then ([], if acc.1.isEmpty = true then acc.2 else acc.1 :: acc.2) else (c :: acc.1, acc.2)) ([], []) t = r
  -- folding the non-blank letters of `w` just conses them
  have hfold : ∀ (w : Bytes), (∀ c ∈ w, isSpace c = false) → ∀ (cur : Bytes) (ws : List Bytes),
      List.foldr (fun c (acc : Bytes × List Bytes) =>
        if isSpace c = true then ([], if acc.1.isEmpty = true then acc.2 else acc.1 :: acc.2) else (c :: acc.1, acc.2)) (cur, ws) w
        = (w ++ cur, ws) := by
    intro w
    induction w with
    | nil => intro _ cur ws; rfl
    | cons a w ih =>
      intro hw cur ws
      have ha := hw a List.mem_cons_self
      simp only [List.foldr_cons, ih (fun c hc => hw c (List.mem_cons_of_mem _ hc)), ha, Bool.false_eq_true, if_false, List.cons_append]
  rw [hfold w hw]
  simp [hw0]


/-! ### whole messages -/

/-- what the reader stores for a list of header lines -/
def norm (hs : List (Bytes × Bytes)) : Dic := hs.foldl (fun d nv => setHeader d nv.1 nv.2) []

/-- how the body follows the header block, as the stored headers `H` announce it: `Framed blk H wire body` -/
inductive Framed (blk : Nat) (H : Dic) : Bytes → Bytes → Prop
  | len (body : Bytes) : hasHeader H sContentLength = true → header H sContentLength = utoa body.length →
      header H sTransferEncoding ≠ sChunked → Framed blk H body body
  | chunked (parts : List Bytes) : hasHeader H sContentLength = false → header H sTransferEncoding = sChunked →
      Framed blk H ((parts.map (writeBody true blk)).flatten ++ lastChunk) parts.flatten
  | none : hasHeader H sContentLength = false → header H sTransferEncoding ≠ sChunked → Framed blk H [] []

theorem readBody_framed (blk rblk : Nat) (hb : 0 < blk) (hb2 : blk < 4294967296) (hr : 0 < rblk) (H : Dic) (w body rest : Bytes)
    (hf : Framed blk H w body) (i : Inp) (hi : Live i) (hd : i.data = w ++ rest) :
    readBodyWith rblk H i = (body, i.advance w.length) ∧ (i.advance w.length).data = rest := by
  cases hf with
  | len _ hcl hv hte => exact readBody_len rblk hr H _ rest i hi hcl hv hte hd
  | chunked parts hcl hte =>
    have := readBody_chunked blk rblk hb hb2 hr H parts rest i hi hcl hte (by rw [hd])
    simpa [lastChunk] using this
  | none hcl hte =>
    have hte' : (header H sTransferEncoding == sChunked) = false := by simpa using hte
    constructor
    · unfold readBodyWith; simp [hcl, hte', advance_zero]
    · simpa using hd

theorem recvBlock_pos : 0 < recvBlock := by decide
theorem sendBlock_pos : 0 < sendBlock := by decide
theorem sendBlock_lt : sendBlock < 4294967296 := by decide

/-- `HttpRequest::read` on the bytes of a request: first line, header lines, framed body; then whatever follows -/
theorem readRequest_wire (blk : Nat) (hb : 0 < blk) (hb2 : blk < 4294967296) (method target : Bytes) (hs : List (Bytes × Bytes))
    (w body rest : Bytes) (hm : WFWord method) (ht : WFWord target) (hfit : method.length + target.length + 11 ≤ 16001)
    (hwf : WFHeaders hs) (hf : Framed blk (norm hs) w body) (i : Inp) (hi : Live i)
    (hd : i.data = method ++ [32] ++ target ++ [32] ++ sHttp11 ++ crlf ++ headerLines hs ++ crlf ++ w ++ rest) :
    ∃ i' : Inp, readRequest i =
      ({ method := method, resource := target, proto := sHttp11, headers := norm hs, body := body,
         path := (splitTarget target).1, querystring := (splitTarget target).2.1, fragment := (splitTarget target).2.2 }, i') ∧
      i'.data = rest ∧ Live i' := by
  have hd' : i.data = (method ++ [32] ++ target ++ [32] ++ sHttp11 ++ [13]) ++ 10 :: (headerLines hs ++ crlf ++ (w ++ rest)) := by
    rw [hd]; simp [crlf, List.append_assoc]
  have hnolf : ∀ c ∈ method ++ [32] ++ target ++ [32] ++ sHttp11 ++ [13], c ≠ 10 := by
    intro c hc
    simp only [List.mem_append, List.mem_cons, List.mem_singleton, List.not_mem_nil, or_false] at hc
    rcases hc with ((((h1 | h1) | h1) | h1) | h1) | h1
    · exact (hm.2 c h1).2
    · subst h1; decide
    · exact (ht.2 c h1).2
    · subst h1; decide
    · intro h10; subst h10; revert h1; decide
    · subst h1; decide
  have hll : (method ++ [32] ++ target ++ [32] ++ sHttp11 ++ [13]).length = method.length + target.length + 11 := by
    simp [sHttp11]; omega
  obtain ⟨hrl, hrest⟩ := readLine_line hi _ _ hnolf (by rw [hll]; omega) hd'
  obtain ⟨q1, q2, q3, q4, q5, q6⟩ := request_line_parse hm ht
  have hi1 : Live (i.advance ((method ++ [32] ++ target ++ [32] ++ sHttp11 ++ [13]).length + 1)) := hi
  obtain ⟨hrh, hdat⟩ := readHeaders_lines hs ((i.advance ((method ++ [32] ++ target ++ [32] ++ sHttp11 ++ [13]).length + 1)).data.length + 1)
    _ [] [] [] (w ++ rest) hi1 hwf
    (by rw [hrest]; have := headerLines_length hs; simp only [List.length_append]; omega) hrest
  have hi2 : Live ((i.advance ((method ++ [32] ++ target ++ [32] ++ sHttp11 ++ [13]).length + 1)).advance ((headerLines hs).length + 2)) := hi
  obtain ⟨hrb, hdat2⟩ := readBody_framed blk recvBlock hb hb2 recvBlock_pos (norm hs) w body rest hf _ hi2 hdat
  refine ⟨_, ?_, hdat2, hi⟩
  unfold readRequest
  rw [hrl]
  have herr : (i.advance ((method ++ [32] ++ target ++ [32] ++ sHttp11 ++ [13]).length + 1)).err = false := hi.2
  simp only [q1, herr, Bool.false_eq_true, or_self, if_false, q2, q3, q4, q5, q6]
  unfold readHeaders
  rw [hrh]
  simp only []
  unfold readBody
  unfold norm at hrb
  rw [hrb]
  rfl


theorem digit_not_space {c : UInt8} (h : IsDigit c) : isSpace c = false ∧ c ≠ 10 := by
  have hx : ∀ k : UInt8, k < 48 → c ≠ k := by
    intro k hk hck; subst hck
    exact absurd h.1 (by simpa using hk)
  refine ⟨?_, hx 10 (by decide)⟩
  unfold isSpace
  simp [hx 32 (by decide), hx 10 (by decide), hx 13 (by decide), hx 9 (by decide)]

/-- the status line and what follows it, as `Http::request` reads them -/
theorem readResponse_wire (blk : Nat) (hb : 0 < blk) (hb2 : blk < 4294967296) (proto msg : Bytes) (code : Nat)
    (hs : List (Bytes × Bytes)) (w body rest : Bytes)
    (hp0 : proto ≠ []) (hp : ∀ c ∈ proto, isSpace c = false) (hmsg : ∀ c ∈ msg, c ≠ 10)
    (hfit : proto.length + (utoa code).length + msg.length + 3 ≤ 16001)
    (hwf : WFHeaders hs) (hf : Framed blk (norm hs) w body) (i : Inp) (hi : Live i)
    (hd : i.data = proto ++ [32] ++ utoa code ++ [32] ++ msg ++ crlf ++ headerLines hs ++ crlf ++ w ++ rest) :
    ∃ i' : Inp, readResponse i = ({ code := code, proto := proto, headers := norm hs, body := body, sockError := [] }, i') ∧
      i'.data = rest ∧ Live i' := by
  have hd' : i.data = (proto ++ [32] ++ utoa code ++ [32] ++ msg ++ [13]) ++ 10 :: (headerLines hs ++ crlf ++ (w ++ rest)) := by
    rw [hd]; simp [crlf, List.append_assoc]
  have hnolf : ∀ c ∈ proto ++ [32] ++ utoa code ++ [32] ++ msg ++ [13], c ≠ 10 := by
    intro c hc
    simp only [List.mem_append, List.mem_cons, List.not_mem_nil, or_false] at hc
    rcases hc with ((((h1 | h1) | h1) | h1) | h1) | h1
    · intro h10; subst h10; have := hp 10 h1; revert this; decide
    · subst h1; decide
    · exact (digit_not_space (utoa_digits code c h1)).2
    · subst h1; decide
    · exact hmsg c h1
    · subst h1; decide
  have hll : (proto ++ [32] ++ utoa code ++ [32] ++ msg ++ [13]).length = proto.length + (utoa code).length + msg.length + 3 := by
    simp; omega
  obtain ⟨hrl, hrest⟩ := readLine_line hi _ _ hnolf (by rw [hll]; omega) hd'
  have hi1 : Live (i.advance ((proto ++ [32] ++ utoa code ++ [32] ++ msg ++ [13]).length + 1)) := hi
  obtain ⟨hrh, hdat⟩ := readHeaders_lines hs ((i.advance ((proto ++ [32] ++ utoa code ++ [32] ++ msg ++ [13]).length + 1)).data.length + 1)
    _ [] [] [] (w ++ rest) hi1 hwf
    (by rw [hrest]; have := headerLines_length hs; simp only [List.length_append]; omega) hrest
  have hi2 : Live ((i.advance ((proto ++ [32] ++ utoa code ++ [32] ++ msg ++ [13]).length + 1)).advance ((headerLines hs).length + 2)) := hi
  obtain ⟨hrb, hdat2⟩ := readBody_framed blk recvBlock hb hb2 recvBlock_pos (norm hs) w body rest hf _ hi2 hdat
  have hsplit : splitWs (proto ++ [32] ++ utoa code ++ [32] ++ msg ++ [13]) = proto :: utoa code :: splitWs (msg ++ [13]) := by
    rw [show proto ++ [32] ++ utoa code ++ [32] ++ msg ++ [13] = proto ++ 32 :: (utoa code ++ 32 :: (msg ++ [13])) by simp]
    rw [splitWs_word proto _ hp0 hp, splitWs_word (utoa code) _ (utoa_ne_nil code)
      (fun c hc => (digit_not_space (utoa_digits code c hc)).1)]
  have hne : (proto ++ [32] ++ utoa code ++ [32] ++ msg ++ [13]).isEmpty = false := by
    cases proto with
    | nil => exact absurd rfl hp0
    | cons a t => rfl
  refine ⟨_, ?_, hdat2, hi⟩
  unfold readResponse readResponseHead
  rw [hrl]
  simp only [hne, Bool.false_eq_true, if_false, hsplit]
  unfold readHeaders
  rw [hrh]
  simp only [atoi_utoa]
  unfold readBody
  unfold norm at hrb
  rw [hrb]
  rfl




/-! ### what `Http::request` and the server put on the wire, in the shape the reader lemmas need -/

def sHostName : Bytes := [72, 111, 115, 116]

theorem mem_dicSet {d : Dic} {k v : Bytes} {x : Bytes × Bytes} (h : x ∈ dicSet d k v) : x = (k, v) ∨ x ∈ d := by
  obtain ⟨l1, l2, he, h1, h2⟩ := dicSet_split d k v
  rw [he] at h
  rcases List.mem_append.mp h with h | h
  · exact Or.inr (h1 x h)
  · rcases List.mem_cons.mp h with h | h
    · exact Or.inl h
    · exact Or.inr (h2 x h)

theorem wf_digits_value (n : Nat) : WFValue (utoa n) := by
  refine ⟨utoa_ne_nil n, fun c hc => (digit_not_space (utoa_digits n c hc)).2, ?_, ?_⟩
  · intro c hc
    exact (digit_not_space (utoa_digits n c (List.mem_of_mem_head? hc))).1
  · intro c hc
    exact (digit_not_space (utoa_digits n c (List.mem_of_getLast? hc))).1

theorem wf_name_cl : WFName sContentLength := by
  refine ⟨by decide, ?_⟩
  decide

theorem wf_name_host : WFName sHostName := by
  refine ⟨by decide, ?_⟩
  decide

theorem cap_cl : capitalized sContentLength = sContentLength := by decide
theorem cap_host_ne : capitalized sHostName ≠ sContentLength ∧ capitalized sHostName ≠ sTransferEncoding := by decide
theorem cap_cl_ne_te : capitalized sContentLength ≠ sTransferEncoding := by decide

/-- user headers that do not name the two framing headers -/
def NoFraming (hs : List (Bytes × Bytes)) : Prop :=
  ∀ nv ∈ hs, capitalized nv.1 ≠ sContentLength ∧ capitalized nv.1 ≠ sTransferEncoding

theorem header_norm_absent (K : Bytes) (hK : capitalized K = K) (hs : List (Bytes × Bytes))
    (h : ∀ x ∈ hs, x.2 ≠ [] ∧ capitalized x.1 ≠ K) : hasHeader (norm hs) K = false ∧ header (norm hs) K = [] := by
  have := foldl_setHeader_preserve K hs [] h
  unfold norm hasHeader header
  rw [hK, this]
  simp [dicGet]

theorem header_norm_found (K : Bytes) (hK : capitalized K = K) (l1 l2 : List (Bytes × Bytes)) (n v : Bytes)
    (hv : v ≠ []) (hn : capitalized n = K) (h2 : ∀ x ∈ l2, x.2 ≠ [] ∧ capitalized x.1 ≠ K) :
    hasHeader (norm (l1 ++ (n, v) :: l2)) K = true ∧ header (norm (l1 ++ (n, v) :: l2)) K = v := by
  have := foldl_setHeader_found K l1 l2 n v [] hv hn h2
  unfold norm hasHeader header
  rw [hK, this]
  simp

theorem writeBody_nil (c : Bool) (blk : Nat) : writeBody c blk [] = [] := rfl

/-- the framing of the message `Http::request` builds (`Content-Length` exactly when the body is not empty) -/
theorem client_framed (blk : Nat) (hostport : Bytes) (hs : Dic) (body : Bytes) (hb : 0 < blk)
    (hwf : WFHeaders hs) (hres : NoFraming hs) (hhp : hostport ≠ []) :
    let h' := if body.length ≠ 0 then setHeader hs sContentLength (utoa body.length) else hs
    Framed blk (norm ((sHostName, hostport) :: h')) (writeBody (isChunked h') blk body) body ∧
      (∀ x ∈ h', x = (sContentLength, utoa body.length) ∨ x ∈ hs) := by
  intro h'
  by_cases hb0 : body.length = 0
  · have hbody : body = [] := List.eq_nil_of_length_eq_zero hb0
    have hh : h' = hs := by simp [h', hb0]
    rw [hh, hbody, writeBody_nil]
    have hall : ∀ K, (∀ nv ∈ hs, capitalized nv.1 ≠ K) → capitalized sHostName ≠ K →
        ∀ x ∈ (sHostName, hostport) :: hs, x.2 ≠ [] ∧ capitalized x.1 ≠ K := by
      intro K h1 h2 x hx
      rcases List.mem_cons.mp hx with h | h
      · subst h; exact ⟨hhp, h2⟩
      · exact ⟨(hwf x h).2.1.1, h1 x h⟩
    have a1 := header_norm_absent sContentLength cap_cl _ (hall _ (fun nv h => (hres nv h).1) cap_host_ne.1)
    have a2 := header_norm_absent sTransferEncoding (by decide) _ (hall _ (fun nv h => (hres nv h).2) cap_host_ne.2)
    refine ⟨Framed.none a1.1 ?_, fun x hx => Or.inr hx⟩
    rw [a2.2]; decide
  · have hh : h' = dicSet hs sContentLength (utoa body.length) := by
      simp only [h', hb0, ne_eq, not_false_eq_true, if_true]
      rw [setHeader_of_value (utoa_ne_nil _), cap_cl]
    obtain ⟨l1, l2, he, hl1, hl2⟩ := dicSet_split hs sContentLength (utoa body.length)
    have hchunk : isChunked h' = false := by
      unfold isChunked header
      rw [cap_cl, hh, dicGet_dicSet_same]
      have := utoa_ne_nil body.length
      cases hu : utoa body.length with
      | nil => exact absurd hu this
      | cons a t => rfl
    rw [hchunk, writeBody_plain blk hb]
    have hmem : ∀ x ∈ h', x = (sContentLength, utoa body.length) ∨ x ∈ hs := by
      intro x hx; rw [hh] at hx; exact mem_dicSet hx
    refine ⟨?_, hmem⟩
    have hlist : (sHostName, hostport) :: h' = ((sHostName, hostport) :: l1) ++ (sContentLength, utoa body.length) :: l2 := by
      rw [hh, he]; rfl
    rw [hlist]
    have f1 := header_norm_found sContentLength cap_cl ((sHostName, hostport) :: l1) l2 sContentLength (utoa body.length)
      (utoa_ne_nil _) cap_cl (fun x hx => ⟨(hwf x (hl2 x hx)).2.1.1, (hres x (hl2 x hx)).1⟩)
    have f2 := header_norm_absent sTransferEncoding (by decide) (((sHostName, hostport) :: l1) ++ (sContentLength, utoa body.length) :: l2) (by
      intro x hx
      rcases List.mem_append.mp hx with h | h
      · rcases List.mem_cons.mp h with h | h
        · subst h; exact ⟨hhp, cap_host_ne.2⟩
        · exact ⟨(hwf x (hl1 x h)).2.1.1, (hres x (hl1 x h)).2⟩
      · rcases List.mem_cons.mp h with h | h
        · subst h; exact ⟨utoa_ne_nil _, cap_cl_ne_te⟩
        · exact ⟨(hwf x (hl2 x h)).2.1.1, (hres x (hl2 x h)).2⟩)
    exact Framed.len body f1.1 f1.2 (by rw [f2.2]; decide)




theorem dicGet_mem {d : Dic} {k v : Bytes} (h : dicGet d k = some v) : (k, v) ∈ d := by
  induction d with
  | nil => simp [dicGet] at h
  | cons kv t ih =>
    obtain ⟨k', v'⟩ := kv
    unfold dicGet at h
    by_cases h1 : k' = k
    · simp only [h1, if_true, Option.some.injEq] at h
      subst h1; subst h; exact List.mem_cons_self
    · simp only [h1, if_false] at h
      exact List.mem_cons_of_mem _ (ih h)

theorem cap_te : capitalized sTransferEncoding = sTransferEncoding := by decide
theorem wf_name_te : WFName sTransferEncoding := by
  refine ⟨by decide, ?_⟩
  decide
theorem wf_value_chunked : WFValue sChunked := by
  refine ⟨by decide, by decide, ?_, ?_⟩ <;> decide

/-- the framing of a message whose body was `put()` (Content-Length always set, also "0") -/
theorem put_framed (blk : Nat) (hs : Dic) (body : Bytes) (hb : 0 < blk) (hwf : WFHeaders hs) (hres : NoFraming hs) :
    let h' := setHeader hs sContentLength (utoa body.length)
    Framed blk (norm h') (writeBody (isChunked h') blk body) body ∧
      (∀ x ∈ h', x = (sContentLength, utoa body.length) ∨ x ∈ hs) := by
  intro h'
  have hh : h' = dicSet hs sContentLength (utoa body.length) := by
    simp only [h']; rw [setHeader_of_value (utoa_ne_nil _), cap_cl]
  obtain ⟨l1, l2, he, hl1, hl2⟩ := dicSet_split hs sContentLength (utoa body.length)
  have hchunk : isChunked h' = false := by
    unfold isChunked header
    rw [cap_cl, hh, dicGet_dicSet_same]
    have := utoa_ne_nil body.length
    cases hu : utoa body.length with
    | nil => exact absurd hu this
    | cons a t => rfl
  rw [hchunk, writeBody_plain blk hb]
  have hmem : ∀ x ∈ h', x = (sContentLength, utoa body.length) ∨ x ∈ hs := by
    intro x hx; rw [hh] at hx; exact mem_dicSet hx
  refine ⟨?_, hmem⟩
  rw [hh, he]
  have f1 := header_norm_found sContentLength cap_cl l1 l2 sContentLength (utoa body.length)
    (utoa_ne_nil _) cap_cl (fun x hx => ⟨(hwf x (hl2 x hx)).2.1.1, (hres x (hl2 x hx)).1⟩)
  have f2 := header_norm_absent sTransferEncoding cap_te (l1 ++ (sContentLength, utoa body.length) :: l2) (by
    intro x hx
    rcases List.mem_append.mp hx with h | h
    · exact ⟨(hwf x (hl1 x h)).2.1.1, (hres x (hl1 x h)).2⟩
    · rcases List.mem_cons.mp h with h | h
      · subst h; exact ⟨utoa_ne_nil _, cap_cl_ne_te⟩
      · exact ⟨(hwf x (hl2 x h)).2.1.1, (hres x (hl2 x h)).2⟩)
  exact Framed.len body f1.1 f1.2 (by rw [f2.2]; decide)

/-- the framing of a response streamed with `write(part)` under `Transfer-Encoding: chunked`, ended by the last chunk -/
theorem stream_framed (blk : Nat) (hs : Dic) (parts : List Bytes) (hwf : WFHeaders hs) (hres : NoFraming hs) :
    let h' := setHeader hs sTransferEncoding sChunked
    Framed blk (norm h') ((parts.map (writeBody (isChunked h') blk)).flatten ++ lastChunk) parts.flatten ∧
      (∀ x ∈ h', x = (sTransferEncoding, sChunked) ∨ x ∈ hs) := by
  intro h'
  have hh : h' = dicSet hs sTransferEncoding sChunked := by
    simp only [h']; rw [setHeader_of_value (by decide), cap_te]
  obtain ⟨l1, l2, he, hl1, hl2⟩ := dicSet_split hs sTransferEncoding sChunked
  have hmem : ∀ x ∈ h', x = (sTransferEncoding, sChunked) ∨ x ∈ hs := by
    intro x hx; rw [hh] at hx; exact mem_dicSet hx
  have hchunk : isChunked h' = true := by
    unfold isChunked header
    rw [cap_cl, hh, dicGet_dicSet_other _ _ _ _ (by decide)]
    cases hg : dicGet hs sContentLength with
    | none => rfl
    | some v => exact absurd cap_cl (hres _ (dicGet_mem hg)).1
  rw [hchunk]
  refine ⟨?_, hmem⟩
  rw [hh, he]
  have f1 := header_norm_found sTransferEncoding cap_te l1 l2 sTransferEncoding sChunked (by decide) cap_te
    (fun x hx => ⟨(hwf x (hl2 x hx)).2.1.1, (hres x (hl2 x hx)).2⟩)
  have f2 := header_norm_absent sContentLength cap_cl (l1 ++ (sTransferEncoding, sChunked) :: l2) (by
    intro x hx
    rcases List.mem_append.mp hx with h | h
    · exact ⟨(hwf x (hl1 x h)).2.1.1, (hres x (hl1 x h)).1⟩
    · rcases List.mem_cons.mp h with h | h
      · subst h; exact ⟨by decide, by decide⟩
      · exact ⟨(hwf x (hl2 x h)).2.1.1, (hres x (hl2 x h)).1⟩)
  exact Framed.chunked parts f2.1 f1.2




theorem serveOne_flags (blk rblk : Nat) (opt : Bool) (q : Request) (p : Plan) (js base : Bytes)
    (hproto : q.proto = sHttp11) (hconn : header q.headers sConnection = [])
    (hopt : ¬ (q.method = sOPTIONS ∧ opt = true)) :
    (serveOne blk rblk opt q p js base).called = true ∧ (serveOne blk rblk opt q p js base).keep = true := by
  have h1 : (sHttp11 = sHttp10) = False := by simp [sHttp11, sHttp10]
  have h2 : lowerAscii ([] : Bytes) = [] := rfl
  have h3 : (([] : Bytes) = sClose) = False := by simp [sClose]
  unfold serveOne
  simp only [hproto, hconn, h1, h2, h3, hopt, if_false]
  cases p.kind with
  | none => simp
  | bytes b => simp
  | json => simp
  | redirect loc b =>
    simp only []
    by_cases hr : q.resource = loc <;> simp [hr]
  | stream parts fin => simp
  | file content ext =>
    simp only []
    repeat' split
    all_goals simp




theorem clampXfer_bounds (w : Option Nat) (limit : Nat) (h : 0 < limit) : 1 ≤ clampXfer w limit ∧ clampXfer w limit ≤ limit := by
  unfold clampXfer
  cases w with
  | none => simp; omega
  | some w => simp only []; omega

theorem sockWriteLoop_all : ∀ (f : Nat) (sched : List Nat) (data out : Bytes) (s : Nat), data.length ≤ f → data ≠ [] →
    sockWriteLoop f sched data (out, s) = (out ++ data, s + data.length) := by
  intro f
  induction f with
  | zero => intro sched data out s h hne; exact absurd (List.eq_nil_of_length_eq_zero (by omega)) hne
  | succ f ih =>
    intro sched data out s h hne
    have hl : 0 < data.length := List.length_pos_iff.mpr hne
    have he : data.isEmpty = false := by cases data <;> simp_all
    obtain ⟨h1, h2⟩ := clampXfer_bounds sched.head? data.length hl
    unfold sockWriteLoop
    simp only [he, Bool.false_eq_true, if_false]
    by_cases hd : (data.drop (clampXfer sched.head? data.length)).isEmpty = true
    · simp only [hd, if_true]
      have hdl : (data.drop (clampXfer sched.head? data.length)).length = 0 := by
        rw [List.isEmpty_iff.mp hd]; rfl
      rw [List.length_drop] at hdl
      have hn : clampXfer sched.head? data.length = data.length := by omega
      rw [hn, List.take_length]
    · have hd' : (data.drop (clampXfer sched.head? data.length)).isEmpty = false := by simpa using hd
      simp only [hd', Bool.false_eq_true, if_false]
      have hne' : data.drop (clampXfer sched.head? data.length) ≠ [] := by
        intro h0; rw [h0] at hd'; simp at hd'
      rw [ih sched.tail _ _ _ (by rw [List.length_drop]; omega) hne']
      rw [List.append_assoc, List.take_append_drop, List.length_drop]
      congr 1
      omega

theorem sockReadLoop_all : ∀ (f : Nat) (sched : List Nat) (inc out : Bytes) (size : Nat), size ≤ f → 0 < size → size ≤ inc.length →
    sockReadLoop f sched inc size out = (out ++ inc.take size, false) := by
  intro f
  induction f with
  | zero => intro sched inc out size h1 h2; omega
  | succ f ih =>
    intro sched inc out size h1 h2 h3
    have he : inc.isEmpty = false := by cases inc <;> simp_all
    have hmin : min size inc.length = size := by omega
    obtain ⟨c1, c2⟩ := clampXfer_bounds sched.head? (min size inc.length) (by omega)
    unfold sockReadLoop
    simp only [he, Bool.false_eq_true, if_false]
    rw [hmin] at c1 c2 ⊢
    by_cases hz : size - clampXfer sched.head? size = 0
    · simp only [hz, if_true]
      have : clampXfer sched.head? size = size := by omega
      rw [this]
    · simp only [hz, if_false]
      rw [ih sched.tail _ _ _ (by omega) (by omega) (by rw [List.length_drop]; omega)]
      rw [List.append_assoc]
      congr 2
      have : size = clampXfer sched.head? size + (size - clampXfer sched.head? size) := by omega
      conv => rhs; rw [this, List.take_add]



/-! ### lemmas used by the property theorems -/

theorem writeFileLoop_plain (blk rblk : Nat) (hb : 0 < blk) (hr : 0 < rblk) :
    ∀ (f : Nat) (b : Bytes), b.length ≤ f → writeFileLoop false blk rblk f b = b := by
  intro f
  induction f with
  | zero => intro b h; have : b = [] := List.eq_nil_of_length_eq_zero (by omega); subst this; rfl
  | succ f ih =>
    intro b h
    unfold writeFileLoop
    by_cases he : b.isEmpty = true
    · simp only [he, if_true]; exact (List.isEmpty_iff.mp he).symm
    · have hf : b.isEmpty = false := by simpa using he
      have hne : b ≠ [] := by intro h0; subst h0; simp at he
      have hl : 0 < b.length := List.length_pos_iff.mpr hne
      simp only [hf, Bool.false_eq_true, if_false]
      rw [writeBody_plain blk hb, ih _ (by rw [List.length_drop]; omega), List.take_append_drop]

theorem norm_lookup : ∀ (hs : List (Bytes × Bytes)) (d : Dic) (nv : Bytes × Bytes), (∀ x ∈ hs, x.2 ≠ []) → nv ∈ hs →
    (∀ other ∈ hs, capitalized other.1 = capitalized nv.1 → other = nv) →
    dicGet (hs.foldl (fun d x => setHeader d x.1 x.2) d) (capitalized nv.1) = some nv.2 := by
  intro hs
  induction hs with
  | nil => intro d nv _ h; exact absurd h (by simp)
  | cons x t ih =>
    intro d nv hne hmem huniq
    simp only [List.foldl_cons]
    by_cases hin : nv ∈ t
    · exact ih _ nv (fun y hy => hne y (List.mem_cons_of_mem _ hy)) hin (fun o ho => huniq o (List.mem_cons_of_mem _ ho))
    · have hx : nv = x := by
        rcases List.mem_cons.mp hmem with h | h
        · exact h
        · exact absurd h hin
      subst hx
      rw [foldl_setHeader_preserve (capitalized nv.1) t _ (fun y hy => ⟨hne y (List.mem_cons_of_mem _ hy), fun hc => by
        have := huniq y (List.mem_cons_of_mem _ hy) hc
        subst this; exact hin hy⟩)]
      rw [setHeader_of_value (hne nv List.mem_cons_self)]
      exact dicGet_dicSet_same _ _ _

theorem codeMsg_ok (code : Nat) : (∀ c ∈ codeMsg code, c ≠ 10) ∧ (codeMsg code).length ≤ 15 := by
  unfold codeMsg
  repeat' split
  all_goals exact ⟨by decide, by decide⟩

theorem statusLine_eq (proto : Bytes) (code : Nat) : statusLine proto code = proto ++ [32] ++ utoa code ++ [32] ++ codeMsg code := rfl

/-- the two protocol texts a response can start with -/
def IsProto (p : Bytes) : Prop := p = sHttp11 ∨ p = sHttp10

theorem proto_ok {p : Bytes} (h : IsProto p) : p ≠ [] ∧ (∀ c ∈ p, isSpace c = false) ∧ p.length = 8 := by
  rcases h with h | h <;> subst h <;> exact ⟨by decide, by decide, by decide⟩




theorem byte_case_facts : ∀ n, n < 256 →
    toUpper (toLower (UInt8.ofNat n)) = toUpper (UInt8.ofNat n) ∧ toLower (toLower (UInt8.ofNat n)) = toLower (UInt8.ofNat n) ∧
    toUpper (toUpper (UInt8.ofNat n)) = toUpper (UInt8.ofNat n) ∧ toLower (toUpper (UInt8.ofNat n)) = toLower (UInt8.ofNat n) := by
  decide +kernel

theorem byte_case (c : UInt8) :
    toUpper (toLower c) = toUpper c ∧ toLower (toLower c) = toLower c ∧ toUpper (toUpper c) = toUpper c ∧ toLower (toUpper c) = toLower c := by
  have := byte_case_facts c.toNat (UInt8.toNat_lt c)
  simpa using this

theorem capLoop_lower (b : Bool) (n : Bytes) : capLoop b (lowerAscii n) = capLoop b n := by
  induction n generalizing b with
  | nil => rfl
  | cons c t ih =>
    have h := byte_case c
    cases b <;> simp [lowerAscii, capLoop, h.1, h.2.1] <;> exact ih _

/-- header names are matched without regard to case -/
theorem capitalized_lower (n : Bytes) : capitalized (lowerAscii n) = capitalized n := capLoop_lower true n



/-! ### many connections -/


theorem runSched_conn (opt : Bool) (base : Bytes) : ∀ (sched : List Nat) (s : Server) (k : Nat),
    runSched opt base sched s k = iterStep opt base (sched.count k) (s k) := by
  intro sched
  induction sched with
  | nil => intro s k; rfl
  | cons j t ih =>
    intro s k
    simp only [runSched]
    rw [ih]
    by_cases h : j = k
    · subst h
      simp [Server.turn, iterStep]
    · have h' : ¬ k = j := fun e => h e.symm
      simp [Server.turn, h, h', List.count_cons]

/-- a live connection that takes all its turns produces exactly `serveConn` of its own bytes -/
theorem iterStep_serveConn (opt : Bool) (base : Bytes) : ∀ (plans : List Plan) (c : Conn), c.plans = plans →
    (iterStep opt base plans.length c).out =
      c.out ++ (if c.alive then serveConn opt base plans c.inp else plans.map (fun _ => (none, []))) := by
  intro plans
  induction plans with
  | nil => intro c _; simp [iterStep, serveConn]
  | cons p ps ih =>
    intro c hc
    simp only [List.length_cons, iterStep]
    by_cases ha : c.alive = true
    · have hstep : c.step opt base = Conn.mk ps (serveStep opt base p c.inp).2.2.2
          (c.out ++ [((serveStep opt base p c.inp).1, (serveStep opt base p c.inp).2.1)]) (serveStep opt base p c.inp).2.2.1 := by
        unfold Conn.step; rw [hc]; simp [ha]
      rw [ih (c.step opt base) (by rw [hstep])]
      rw [hstep]
      simp only [ha, if_true, serveConn, List.append_assoc, List.singleton_append]
    · have ha' : c.alive = false := by simpa using ha
      have hstep : c.step opt base = { c with plans := ps, out := c.out ++ [(none, [])] } := by
        unfold Conn.step; rw [hc]; simp [ha']
      rw [ih (c.step opt base) (by rw [hstep])]
      rw [hstep]
      simp [ha']


end AslProofs.HttpFrame
