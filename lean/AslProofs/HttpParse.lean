import AslModel.HttpParse
/-!
# Helper lemmas for C09 (model: `AslModel/HttpParse.lean`).  Core Lean only.
-/
set_option linter.unusedVariables false
namespace AslProofs.HttpParse
open AslModel.HttpParse

/-! ## the `M` monad -/

theorem bind_ok {α β} {x : M α} {a : α} (f : α → M β) (h : x = .ok a) : (x >>= f) = f a := by
  subst h; rfl

theorem bind_eq_ok {α β} {x : M α} {f : α → M β} {b : β} (h : (x >>= f) = .ok b) :
    ∃ a, x = .ok a ∧ f a = .ok b := by
  cases x with
  | error e => simp [bind, Except.bind] at h
  | ok a => exact ⟨a, rfl, h⟩

/-! ## C strings and indices -/

theorem tw_pos {p : UInt8 → Bool} {a : UInt8} {t : Bytes} (h : p a = true) :
    (a :: t).takeWhile p = a :: t.takeWhile p := by simp [h]
theorem tw_neg {p : UInt8 → Bool} {a : UInt8} {t : Bytes} (h : p a = false) :
    (a :: t).takeWhile p = [] := by simp [h]

theorem cstr_length_le (s : Bytes) : (cstr s).length ≤ s.length := by
  unfold cstr
  induction s with
  | nil => simp
  | cons a t ih =>
    simp only [List.takeWhile]
    split <;> simp <;> omega

theorem cstr_prefix (s : Bytes) : ∃ r, s = cstr s ++ r := by
  unfold cstr
  exact ⟨s.dropWhile (· != 0), (List.takeWhile_append_dropWhile).symm⟩

theorem cstr_no_nul (s : Bytes) : ∀ c ∈ cstr s, c ≠ 0 := by
  unfold cstr
  induction s with
  | nil => simp
  | cons a t ih =>
    by_cases ha : a = 0
    · simp [ha]
    · have : (a != 0) = true := by simpa using ha
      rw [tw_pos (p := fun x => x != 0) this]
      intro c hc
      rcases List.mem_cons.mp hc with rfl | hc
      · exact ha
      · exact ih c hc

theorem cstr_of_no_nul (s : Bytes) (h : ∀ c ∈ s, c ≠ 0) : cstr s = s := by
  unfold cstr
  induction s with
  | nil => rfl
  | cons a t ih =>
    have ha : (a != 0) = true := by simpa using h a (by simp)
    rw [tw_pos (p := fun x => x != 0) ha, ih (fun c hc => h c (by simp [hc]))]

theorem cstr_idem (s : Bytes) : cstr (cstr s) = cstr s := cstr_of_no_nul _ (cstr_no_nul s)

theorem at?_ok (s : Bytes) (i : Nat) (h : i ≤ s.length) : ∃ c, at? s i = .ok c := by
  unfold at?
  by_cases h1 : i < s.length
  · simp only [h1, if_true]; exact ⟨_, rfl⟩
  · have : i = s.length := by omega
    subst this
    simp only [Nat.lt_irrefl, if_false, if_true]; exact ⟨_, rfl⟩

theorem substring?_ok (s : Bytes) (i j : Nat) (h1 : i ≤ j) (h2 : j ≤ s.length) :
    substring? s i j = .ok ((s.drop i).take (j - i)) := by
  unfold substring?
  simp only [h1, h2, and_self, if_true]; rfl

theorem substring?_eq_ok {s : Bytes} {i j : Nat} {r : Bytes} (h : substring? s i j = .ok r) :
    r = (s.drop i).take (j - i) ∧ i ≤ j ∧ j ≤ s.length := by
  unfold substring? at h
  split at h
  · rename_i hc
    simp only [pure, Except.pure, Except.ok.injEq] at h
    exact ⟨h.symm, hc.1, hc.2⟩
  · simp [throw, throwThe, MonadExceptOf.throw] at h

theorem findByte_some {c : UInt8} {l : Bytes} {k : Nat} (h : findByte c l = some k) :
    k < l.length ∧ l.getD k 0 = c ∧ (l.take k).all (· != c) = true := by
  induction l generalizing k with
  | nil => simp [findByte] at h
  | cons x t ih =>
    unfold findByte at h
    by_cases hx : x == c
    · simp only [hx, if_true, Option.some.injEq] at h
      subst h
      simp at hx
      simp [hx]
    · simp only [hx, Bool.false_eq_true, if_false, Option.map_eq_some_iff] at h
      obtain ⟨k', hk', rfl⟩ := h
      obtain ⟨h1, h2, h3⟩ := ih hk'
      refine ⟨by simp; omega, by simpa using h2, ?_⟩
      simp only [List.take_succ_cons, List.all_cons, h3, Bool.and_true]
      simpa [bne] using hx

theorem findByte_none {c : UInt8} {l : Bytes} (h : findByte c l = none) : ∀ x ∈ l, x ≠ c := by
  induction l with
  | nil => simp
  | cons x t ih =>
    unfold findByte at h
    by_cases hx : x == c
    · simp [hx] at h
    · simp only [hx, Bool.false_eq_true, if_false, Option.map_eq_none_iff] at h
      intro y hy
      rcases List.mem_cons.mp hy with rfl | hy
      · simpa using hx
      · exact ih h y hy

/-- `indexOf(c, i0)` never faults when `i0` points into the string or at its terminator; a hit lies
    inside the string, at or after `i0` -/
theorem indexOfByteFrom?_ok (s : Bytes) (c : UInt8) (i0 : Nat) (h : i0 ≤ s.length) :
    ∃ r, indexOfByteFrom? s c i0 = .ok r ∧ ∀ k, r = some k → i0 ≤ k ∧ k < s.length := by
  unfold indexOfByteFrom?
  simp only [h, if_true, pure, Except.pure]
  refine ⟨_, rfl, ?_⟩
  intro k hk
  simp only [Option.map_eq_some_iff] at hk
  obtain ⟨k', hk', rfl⟩ := hk
  have h1 := (findByte_some hk').1
  have h2 := cstr_length_le (s.drop i0)
  simp only [List.length_drop] at h2
  omega

theorem indexOfSubFrom?_ok (s pat : Bytes) (i0 : Nat) (h : i0 ≤ s.length) :
    ∃ r, indexOfSubFrom? s pat i0 = .ok r := by
  unfold indexOfSubFrom?
  simp [h, pure, Except.pure]


theorem at?_lt (s : Bytes) (i : Nat) (h : i < s.length) : at? s i = .ok (s.getD i 0) := by
  unfold at?; simp only [h, if_true]; rfl

theorem at?_len (s : Bytes) : at? s s.length = .ok 0 := by
  unfold at?; simp only [Nat.lt_irrefl, if_false, if_true]; rfl

theorem at?_zero (s : Bytes) : at? s 0 = .ok (s.getD 0 0) := by
  cases s with
  | nil => rfl
  | cons a t => exact at?_lt _ 0 (by simp)

theorem drop_eq_getD_cons (s : Bytes) (i : Nat) (h : i < s.length) : s.drop i = s.getD i 0 :: s.drop (i + 1) := by
  rw [List.drop_eq_getElem_cons h]
  simp [List.getD, h]

/-! ## fuel-indexed loops -/

/-- a loop whose every pass either leaves with a result satisfying `Post` or strictly decreases a
    measure (keeping an invariant) ends within `μ x + 1` passes, without a fault -/
theorem iterate_ok {σ ρ : Type} (step : σ → M (Step σ ρ)) (μ : σ → Nat) (Inv : σ → Prop) (Post : ρ → Prop)
    (hstep : ∀ x, Inv x → (∃ r, step x = .ok (.done r) ∧ Post r) ∨
                           (∃ y, step x = .ok (.next y) ∧ Inv y ∧ μ y < μ x)) :
    ∀ fuel x, Inv x → μ x < fuel → ∃ r, iterate step fuel x = .ok r ∧ Post r := by
  intro fuel
  induction fuel with
  | zero => intro x _ h; omega
  | succ fuel ih =>
    intro x hx hf
    rcases hstep x hx with ⟨r, hr, hp⟩ | ⟨y, hy, hiy, hlt⟩
    · exact ⟨r, by simp only [iterate, hr]; rfl, hp⟩
    · obtain ⟨r, hr, hp⟩ := ih y hiy (by omega)
      exact ⟨r, by simp only [iterate, hy]; exact hr, hp⟩

/-! ## `Url::decode` -/

/-- percent-decoding as a function of the text (RFC 3986 §2.1 for valid escapes; a truncated escape at
    the end stops the output; the two bytes after `%` always go through `strtoul`) -/
def urlDecodeSpec : Bytes → Bytes
  | [] => []
  | c :: t =>
    if c == 37 then
      match t with
      | a :: b :: t' => hexByte a b :: urlDecodeSpec t'
      | [a] => [hexByte a 0]
      | [] => []
    else c :: urlDecodeSpec t

theorem urlDecodeSpec_ne (c : UInt8) (t : Bytes) (h : (c == 37) = false) :
    urlDecodeSpec (c :: t) = c :: urlDecodeSpec t := by
  cases t with
  | nil => simp [urlDecodeSpec, h]
  | cons a t' => cases t' <;> simp [urlDecodeSpec, h]

theorem atA?_eq (s : Bytes) (i : Nat) : atA? s.toArray i = at? s i := by
  unfold atA? at?
  simp only [List.size_toArray]
  by_cases h : i < s.length
  · simp only [h, if_true]
    congr 1
    simp [Array.getD, List.getD, h]
  · simp only [h, if_false]

theorem decodeStep_ok (q0 : Bytes) (x : DecSt)
    (hx : x.acc.reverse ++ urlDecodeSpec (q0.drop x.i) = urlDecodeSpec q0) :
    (∃ r, decodeStep q0.toArray x = .ok (.done r) ∧ r = urlDecodeSpec q0) ∨
    (∃ y, decodeStep q0.toArray x = .ok (.next y) ∧ (y.acc.reverse ++ urlDecodeSpec (q0.drop y.i) = urlDecodeSpec q0) ∧
      q0.length - y.i < q0.length - x.i) := by
  unfold decodeStep
  simp only [atA?_eq, List.size_toArray]
  by_cases hi : x.i < q0.length
  · simp only [hi, if_true]
    rw [at?_lt _ _ hi]
    simp only [bind, Except.bind]
    rw [drop_eq_getD_cons _ _ hi] at hx
    by_cases hc : (q0.getD x.i 0 == 37) = true
    · simp only [hc, if_true]
      by_cases h2 : x.i + 2 > q0.length
      · left
        simp only [h2, if_true]
        refine ⟨_, rfl, ?_⟩
        have : q0.drop (x.i + 1) = [] := by
          apply List.drop_eq_nil_of_le; omega
        rw [this] at hx
        simp only [urlDecodeSpec, hc, if_true, List.append_nil] at hx
        exact hx
      · right
        simp only [h2, if_false]
        have h1 : x.i + 1 < q0.length := by omega
        rw [at?_lt _ _ h1]
        rw [drop_eq_getD_cons _ _ h1] at hx
        by_cases h3 : x.i + 2 < q0.length
        · rw [at?_lt _ _ h3]
          simp only [Except.bind, pure, Except.pure]
          refine ⟨_, rfl, ?_, by simp only []; omega⟩
          rw [drop_eq_getD_cons _ _ h3] at hx
          simp only [urlDecodeSpec, hc, if_true] at hx
          simp only [List.reverse_cons, List.append_assoc, List.singleton_append]
          exact hx
        · have h4 : x.i + 2 = q0.length := by omega
          rw [h4, at?_len]
          simp only [Except.bind, pure, Except.pure]
          refine ⟨_, rfl, ?_, by simp only []; omega⟩
          have : q0.drop (x.i + 1 + 1) = [] := by
            apply List.drop_eq_nil_of_le; omega
          rw [this] at hx
          simp only [urlDecodeSpec, hc, if_true] at hx
          have h5 : q0.drop (x.i + 3) = [] := by
            apply List.drop_eq_nil_of_le; omega
          simp only [h5, urlDecodeSpec, List.append_nil, List.reverse_cons, List.append_assoc, List.singleton_append]
          exact hx
    · right
      have hc' : (q0.getD x.i 0 == 37) = false := by simpa using hc
      simp only [hc', Bool.false_eq_true, if_false, pure, Except.pure]
      refine ⟨_, rfl, ?_, by simp only []; omega⟩
      rw [urlDecodeSpec_ne _ _ hc'] at hx
      simp only [List.reverse_cons, List.append_assoc, List.singleton_append]
      exact hx
  · left
    simp only [hi, if_false, pure, Except.pure]
    refine ⟨_, rfl, ?_⟩
    have : q0.drop x.i = [] := by
      apply List.drop_eq_nil_of_le; omega
    rw [this] at hx
    simpa [urlDecodeSpec] using hx

theorem urlDecode_eq_spec (q0 : Bytes) : urlDecode q0 = .ok (urlDecodeSpec q0) := by
  obtain ⟨r, hr, hp⟩ := iterate_ok (decodeStep q0.toArray) (fun x => q0.length - x.i)
    (fun x => x.acc.reverse ++ urlDecodeSpec (q0.drop x.i) = urlDecodeSpec q0) (fun r => r = urlDecodeSpec q0)
    (fun x hx => decodeStep_ok q0 x hx) (q0.length + 1) ⟨0, []⟩ (by simp) (by simp)
  unfold urlDecode
  rw [hr, hp]


/-! ## `..` removal -/

theorem rmDD_head_ne (s : Bytes) (h : s.head? ≠ some dot) : (rmDD s).head? ≠ some dot := by
  match s with
  | [] => simp [rmDD]
  | [a] => simpa [rmDD] using h
  | a :: b :: t =>
    have ha : a ≠ dot := by simpa using h
    simp [rmDD, ha]

/-- leftmost non-overlapping removal of ".." leaves no ".." -/
theorem rmDD_noDD (s : Bytes) : hasDD (rmDD s) = false := by
  fun_induction rmDD s with
  | case1 a b t h ih => exact ih
  | case2 a b t h ih =>
    cases hr : rmDD (b :: t) with
    | nil => simp [hasDD]
    | cons c r =>
      rw [hr] at ih
      simp only [hasDD, ih, Bool.or_false]
      by_cases ha : a = dot
      · have hb : b ≠ dot := fun hb => h ⟨ha, hb⟩
        have : (rmDD (b :: t)).head? ≠ some dot := rmDD_head_ne (b :: t) (by simpa using hb)
        rw [hr] at this
        have hc : c ≠ dot := by simpa using this
        simp [hc]
      · simp [ha]
  | case3 a => simp [hasDD]
  | case4 => simp [hasDD]

/-- `hasDD` is the bytewise scan: no index carries two consecutive dots -/
theorem hasDD_false_iff (p : Bytes) :
    hasDD p = false ↔ ∀ i, i + 1 < p.length → ¬ (p.getD i 0 = 46 ∧ p.getD (i + 1) 0 = 46) := by
  induction p with
  | nil => simp [hasDD]
  | cons a t ih =>
    cases t with
    | nil => simp [hasDD]
    | cons b t' =>
      simp only [hasDD, Bool.or_eq_false_iff, ih]
      constructor
      · rintro ⟨h1, h2⟩ i hi
        cases i with
        | zero =>
          simp only [List.getD_cons_zero, List.getD_cons_succ]
          intro ⟨ha, hb⟩
          simp [ha, hb, dot] at h1
        | succ j =>
          have := h2 j (by simp at hi ⊢; omega)
          simpa [List.getD_cons_succ] using this
      · intro h
        refine ⟨?_, ?_⟩
        · have := h 0 (by simp)
          simp only [List.getD_cons_zero, List.getD_cons_succ] at this
          by_cases ha : a = 46
          · by_cases hb : b = 46
            · exact absurd ⟨ha, hb⟩ this
            · simp [dot, hb]
          · simp [dot, ha]
        · intro i hi
          have := h (i + 1) (by simp at hi ⊢; omega)
          simpa [List.getD_cons_succ] using this

theorem sanitize_ok (raw : Bytes) : ∃ p, sanitize raw = .ok p ∧ hasDD p = false ∧ (∀ c ∈ p, c ≠ 0) := by
  unfold sanitize
  rw [urlDecode_eq_spec]
  simp only [bind, Except.bind, pure, Except.pure]
  refine ⟨_, rfl, ?_, ?_⟩
  · by_cases h : hasDD (cstr (urlDecodeSpec raw)) = true
    · simp only [h, if_true]; exact rmDD_noDD _
    · simp only [h, if_false]; simpa using h
  · have hsub : ∀ l : Bytes, ∀ c ∈ rmDD l, c ∈ l := by
      intro l
      fun_induction rmDD l with
      | case1 a b t h ih => intro c hc; simp [ih c hc]
      | case2 a b t h ih =>
        intro c hc
        rcases List.mem_cons.mp hc with rfl | hc
        · simp
        · exact List.mem_cons_of_mem _ (ih c hc)
      | case3 a => intro c hc; exact hc
      | case4 => intro c hc; exact hc
    by_cases h : hasDD (cstr (urlDecodeSpec raw)) = true
    · simp only [h, if_true]
      intro c hc
      exact cstr_no_nul _ c (hsub _ c hc)
    · simp only [h, if_false]
      exact cstr_no_nul _

/-! ## request line and target: the index computations are in bounds -/

theorem splitQuery_ok (res : Bytes) (q : Option Nat) (pathend : Nat) (fragment : Bytes)
    (hp : pathend ≤ res.length) : ∃ t, splitQuery res q pathend fragment = .ok t := by
  unfold splitQuery
  cases q with
  | none =>
    simp only []
    rw [substring?_ok _ _ _ (Nat.zero_le _) hp]
    exact ⟨_, rfl⟩
  | some qv =>
    simp only []
    by_cases hc : qv > 0 ∧ qv < pathend
    · simp only [hc, and_self, if_true]
      rw [substring?_ok _ _ _ (by omega) hp]
      simp only [bind, Except.bind]
      rw [substring?_ok _ _ _ (Nat.zero_le _) (by omega)]
      exact ⟨_, rfl⟩
    · simp only [hc, if_false]
      rw [substring?_ok _ _ _ (Nat.zero_le _) hp]
      exact ⟨_, rfl⟩

theorem splitFragment_ok (res : Bytes) (h q : Option Nat) (hh : ∀ k, h = some k → k < res.length) :
    ∃ t, splitFragment res h q = .ok t := by
  unfold splitFragment
  cases h with
  | none => exact splitQuery_ok _ _ _ _ (Nat.le_refl _)
  | some hv =>
    have := hh hv rfl
    simp only []
    by_cases hc : hv > 0
    · simp only [hc, if_true]
      rw [substring?_ok _ _ _ (by omega) (Nat.le_refl _)]
      simp only [bind, Except.bind]
      exact splitQuery_ok _ _ _ _ (by omega)
    · simp only [hc, if_false]
      exact splitQuery_ok _ _ _ _ (Nat.le_refl _)

theorem splitTarget_ok (res : Bytes) : ∃ t, splitTarget res = .ok t := by
  unfold splitTarget
  obtain ⟨h, hh, hhb⟩ := indexOfByteFrom?_ok res 35 0 (Nat.zero_le _)
  obtain ⟨q, hq, hqb⟩ := indexOfByteFrom?_ok res 63 0 (Nat.zero_le _)
  rw [hh]
  simp only [bind, Except.bind]
  rw [hq]
  simp only []
  exact splitFragment_ok _ _ _ (fun k hk => (hhb k hk).2)

theorem parseTarget_ok (res : Bytes) : ∃ t, parseTarget res = .ok t ∧ hasDD t.path = false ∧ (∀ c ∈ t.path, c ≠ 0) := by
  unfold parseTarget
  obtain ⟨t, ht⟩ := splitTarget_ok res
  obtain ⟨p, hp, hdd, hnul⟩ := sanitize_ok t.1
  rw [ht]
  simp only [bind, Except.bind]
  rw [hp]
  exact ⟨_, rfl, hdd, hnul⟩

theorem parseRequestLine_ok (cmd : Bytes) : ∃ r, parseRequestLine cmd = .ok r := by
  unfold parseRequestLine
  obtain ⟨i?, hi, hib⟩ := indexOfByteFrom?_ok cmd 32 0 (Nat.zero_le _)
  rw [hi]
  simp only [bind, Except.bind]
  cases i? with
  | none => exact ⟨_, rfl⟩
  | some i =>
    have hb := hib i rfl
    simp only []
    obtain ⟨j?, hj, hjb⟩ := indexOfByteFrom?_ok cmd 32 (i + 1) (by omega)
    rw [hj]
    simp only []
    cases j? with
    | none => exact ⟨_, rfl⟩
    | some j =>
      have hb2 := hjb j rfl
      simp only []
      rw [substring?_ok _ _ _ (Nat.zero_le _) (by omega)]
      simp only []
      rw [substring?_ok _ _ _ (by omega) (by omega)]
      simp only []
      rw [substring?_ok _ _ _ (by omega) (Nat.le_refl _)]
      exact ⟨_, rfl⟩


/-! ## the socket: every operation consumes input from the front and never gives bytes back -/

theorem readLineLoop_len (inp acc : Bytes) (n : Nat) :
    (readLineLoop inp acc n).2.1.length ≤ inp.length ∧
    (inp ≠ [] → (readLineLoop inp acc n).2.1.length < inp.length) := by
  induction inp generalizing acc n with
  | nil => simp [readLineLoop]
  | cons c t ih =>
    unfold readLineLoop
    by_cases h1 : (c == 10) = true
    · simp [h1]
    · by_cases h2 : n > 16000
      · simp [h1, h2]
      · simp only [h1, h2, if_false, Bool.false_eq_true]
        have := (ih (c :: acc) (n + 1)).1
        simp only [List.length_cons, ne_eq, reduceCtorEq, not_false_eq_true, forall_const]
        omega

/-- a socket on which reading can make progress -/
def Live (s : Sock) : Prop := s.err = 0 ∧ s.closed = false ∧ s.inp ≠ []

theorem readLine_facts (s : Sock) :
    (s.readLine).2.inp.length ≤ s.inp.length ∧
    (Live s → (s.readLine).2.inp.length < s.inp.length) ∧
    (¬ Live s → (s.readLine).1 = []) := by
  unfold Live Sock.readLine Sock.available Sock.waitInput Sock.readLineBody
  by_cases hc : s.closed = true
  · simp [hc]
  · have hc' : s.closed = false := by simpa using hc
    by_cases he : s.err = 0
    · cases hi : s.inp with
      | nil => simp [hc', he, hi, readLineLoop]
      | cons c t =>
        have h1 := readLineLoop_len (c :: t) [] 0
        simp only [hc', he, hi, bne_self_eq_false, Bool.or_self, Bool.false_eq_true, if_false, List.length_cons,
          Int.natCast_pos, Nat.zero_lt_succ, if_true, ne_eq, reduceCtorEq, not_false_eq_true, and_self, forall_const,
          not_true_eq_false, false_implies, and_true]
        have := h1.2 (by simp)
        simp only [List.length_cons] at this
        omega
    · have he' : (s.err != 0) = true := by simpa using he
      cases hi : s.inp with
      | nil => simp [hc', he, he', hi]
      | cons c t => simp [hc', he, he', hi]

theorem readLine_closed (s : Sock) : (s.readLine).2.closed = s.closed := by
  unfold Sock.readLine Sock.available Sock.waitInput Sock.readLineBody
  by_cases hc : s.closed = true
  · simp [hc]
  · have hc' : s.closed = false := by simpa using hc
    by_cases he : (s.err != 0) = true
    · cases hi : s.inp <;> simp [hc', he, hi]
    · have he' : (s.err != 0) = false := by simpa using he
      by_cases ha : (s.inp.length : Int) > 0
      · simp [hc', he', ha]
      · simp [hc', he', ha]

theorem rawRead_len (s : Sock) (n : Nat) :
    (s.rawRead n).2.inp.length + (s.rawRead n).1.length = s.inp.length := by
  unfold Sock.rawRead
  by_cases h : (s.closed || n == 0) = true
  · simp [h]
  · simp only [h, Bool.false_eq_true, if_false]
    split <;> simp only [List.length_drop, List.length_take] <;> omega

theorem write_inp (s : Sock) (b : Bytes) : (s.write b).inp = s.inp := by
  unfold Sock.write
  by_cases h1 : b.isEmpty = true
  · simp [h1]
  · by_cases h2 : s.closed = true <;> simp [h1, h2]

theorem expectContinue_inp (s : Sock) (h : Dic) : (expectContinue s h).inp = s.inp := by
  unfold expectContinue
  split
  · split <;> exact write_inp _ _
  · rfl

theorem respond_inp (r : Req) (s : Sock) : (respond r s).1.inp = s.inp := by
  unfold respond
  simp only []
  split
  · exact write_inp _ _
  · rw [write_inp, write_inp]

/-! ## `readHeaders` -/

theorem headersStep_ok (N : Nat) (x : HSt) (hx : x.s.inp.length ≤ N) :
    (∃ r, headersStep x = .ok (.done r) ∧ r.1.inp.length ≤ N) ∨
    (∃ y, headersStep x = .ok (.next y) ∧ y.s.inp.length ≤ N ∧ y.s.inp.length < x.s.inp.length) := by
  unfold headersStep
  obtain ⟨hle, hlt, hnil⟩ := readLine_facts x.s
  simp only []
  by_cases h13 : (cstr x.s.readLine.1 == [13]) = true
  · left
    simp only [h13, if_true]
    exact ⟨_, rfl, by simp only []; omega⟩
  · simp only [h13, Bool.false_eq_true, if_false]
    rw [at?_zero]
    simp only [bind, Except.bind]
    by_cases hlive : Live x.s
    · have hdec := hlt hlive
      by_cases hsp : cIsSpace (x.s.readLine.1.getD 0 0) = true
      · simp only [hsp, if_true]
        split
        · left
          exact ⟨_, rfl, by simp only []; omega⟩
        · right
          split <;> exact ⟨_, rfl, by simp only []; omega, by simp only []; omega⟩
      · simp only [hsp, Bool.false_eq_true, if_false]
        cases hf : findByte 58 (cstr (trimmed x.s.readLine.1)) with
        | none =>
          left
          simp only []
          exact ⟨_, rfl, by simp only []; omega⟩
        | some i =>
          simp only []
          have hi := (findByte_some hf).1
          have hcl := cstr_length_le (trimmed x.s.readLine.1)
          rw [substring?_ok _ _ _ (Nat.zero_le _) (by omega)]
          simp only []
          split
          · left
            exact ⟨_, rfl, by simp only []; omega⟩
          · right
            rw [substring?_ok _ _ _ (by omega) (Nat.le_refl _)]
            simp only []
            exact ⟨_, rfl, by simp only []; omega, by simp only []; omega⟩
    · left
      have hl := hnil hlive
      simp only [hl]
      have : cIsSpace (([] : Bytes).getD 0 0) = false := by decide
      simp only [this, Bool.false_eq_true, if_false]
      have h2 : findByte 58 (cstr (trimmed ([] : Bytes))) = none := by decide
      simp only [h2]
      exact ⟨_, rfl, by simp only []; omega⟩

theorem readHeaders_ok (s : Sock) : ∃ r, readHeaders s = .ok r ∧ r.1.inp.length ≤ s.inp.length := by
  unfold readHeaders
  exact iterate_ok headersStep (fun x => x.s.inp.length) (fun x => x.s.inp.length ≤ s.inp.length)
    (fun r => r.1.inp.length ≤ s.inp.length)
    (fun x hx => by
      rcases headersStep_ok s.inp.length x hx with h | ⟨y, h1, h2, h3⟩
      · exact Or.inl h
      · exact Or.inr ⟨y, h1, h2, h3⟩)
    (s.inp.length + 2) ⟨s, [], [], []⟩ (Nat.le_refl _) (by simp only []; omega)

/-! ## `readBody` -/

theorem blocksStep_ok (N : Nat) (x : BSt) (hx : x.s.inp.length ≤ N) :
    (∃ r, blocksStep x = .ok (.done r) ∧ r.s.inp.length ≤ N) ∨
    (∃ y, blocksStep x = .ok (.next y) ∧ y.s.inp.length ≤ N ∧ y.s.inp.length < x.s.inp.length) := by
  unfold blocksStep
  have hr := rawRead_len x.s (min x.mx 16000).toNat
  by_cases h1 : x.mx ≤ 0
  · left; simp only [h1, if_true]; exact ⟨_, rfl, hx⟩
  · simp only [h1, if_false]
    by_cases h2 : ((x.s.rawRead (min x.mx 16000).toNat).1.length == 0) = true
    · left; simp only [h2, if_true]; exact ⟨_, rfl, by simp only []; omega⟩
    · simp only [h2, Bool.false_eq_true, if_false]
      have hpos : (x.s.rawRead (min x.mx 16000).toNat).1.length ≠ 0 := by simpa using h2
      by_cases h3 : (x.size != 0) = true
      · simp only [h3, if_true]
        by_cases h4 : x.size - ((x.s.rawRead (min x.mx 16000).toNat).1.length : Int) ≤ 0
        · left; simp only [h4, if_true]; exact ⟨_, rfl, by simp only []; omega⟩
        · right; simp only [h4, if_false]
          exact ⟨_, rfl, by simp only []; omega, by simp only []; omega⟩
      · right; simp only [h3, Bool.false_eq_true, if_false]
        exact ⟨_, rfl, by simp only []; omega, by simp only []; omega⟩

theorem readBlocks_ok (s : Sock) (mx size : Int) (body : Bytes) :
    ∃ b, readBlocks s mx size body = .ok b ∧ b.s.inp.length ≤ s.inp.length := by
  unfold readBlocks
  exact iterate_ok blocksStep (fun x => x.s.inp.length) (fun x => x.s.inp.length ≤ s.inp.length)
    (fun r => r.s.inp.length ≤ s.inp.length) (fun x hx => blocksStep_ok s.inp.length x hx)
    (s.inp.length + 1) ⟨s, mx, size, body⟩ (Nat.le_refl _) (by simp only []; omega)

/-- with something to read (`maxToRead ≥ 1`) on an open socket, the inner loop either returns from
    `readBody` or has consumed at least one byte -/
theorem readBlocks_progress (s : Sock) (mx size : Int) (body : Bytes) (hmx : mx ≥ 1) (hc : s.closed = false) :
    ∃ b, readBlocks s mx size body = .ok b ∧ b.s.inp.length ≤ s.inp.length ∧
      (b.ret = true ∨ b.s.inp.length < s.inp.length) := by
  unfold readBlocks
  -- first pass by hand
  have hstep := blocksStep_ok s.inp.length ⟨s, mx, size, body⟩ (Nat.le_refl _)
  simp only [iterate]
  unfold blocksStep at hstep ⊢
  have hr := rawRead_len s (min mx 16000).toNat
  have h1 : ¬ mx ≤ 0 := by omega
  simp only [h1, if_false] at hstep ⊢
  by_cases h2 : ((s.rawRead (min mx 16000).toNat).1.length == 0) = true
  · simp only [h2, if_true]
    exact ⟨_, rfl, by simp only []; omega, Or.inl rfl⟩
  · simp only [h2, Bool.false_eq_true, if_false]
    have hpos : (s.rawRead (min mx 16000).toNat).1.length ≠ 0 := by simpa using h2
    have hrest : ∀ (y : BSt), y.s.inp.length < s.inp.length →
        ∃ b, iterate blocksStep s.inp.length y = .ok b ∧ b.s.inp.length ≤ s.inp.length ∧
          (b.ret = true ∨ b.s.inp.length < s.inp.length) := by
      intro y hy
      obtain ⟨b, hb, hp⟩ := iterate_ok blocksStep (fun x => x.s.inp.length) (fun x => x.s.inp.length ≤ y.s.inp.length)
        (fun r => r.s.inp.length ≤ y.s.inp.length) (fun x hx => blocksStep_ok y.s.inp.length x hx)
        s.inp.length y (Nat.le_refl _) hy
      exact ⟨b, hb, by omega, Or.inr (by omega)⟩
    by_cases h3 : (size != 0) = true
    · simp only [h3, if_true]
      by_cases h4 : size - ((s.rawRead (min mx 16000).toNat).1.length : Int) ≤ 0
      · simp only [h4, if_true]
        exact ⟨_, rfl, by simp only []; omega, Or.inl rfl⟩
      · simp only [h4, if_false]
        exact hrest _ (by simp only []; omega)
    · simp only [h3, Bool.false_eq_true, if_false]
      exact hrest _ (by simp only []; omega)


theorem available_nonneg {s : Sock} (h : ¬ s.available < 0) : s.err = 0 ∧ s.closed = false := by
  unfold Sock.available at h
  by_cases hc : (s.err != 0 || s.closed) = true
  · simp [hc] at h
  · simp only [Bool.or_eq_true, bne_iff_ne, ne_eq, not_or, Decidable.not_not, Bool.not_eq_true] at hc
    exact hc

theorem bodyStep_ok (chunked : Bool) (N : Nat) (x : BodySt) (hx : x.s.inp.length ≤ N) :
    (∃ r, bodyStep chunked x = .ok (.done r) ∧ r.1.inp.length ≤ N) ∨
    (∃ y, bodyStep chunked x = .ok (.next y) ∧ y.s.inp.length ≤ N ∧ y.s.inp.length < x.s.inp.length) := by
  unfold bodyStep
  simp only []
  by_cases hav : x.s.available < 0
  · left; simp only [hav, if_true]; exact ⟨_, rfl, hx⟩
  · simp only [hav, if_false]
    obtain ⟨he, hc⟩ := available_nonneg hav
    cases chunked with
    | true =>
      simp only [if_true]
      obtain ⟨hle, hlt, hnil⟩ := readLine_facts x.s
      by_cases hok : (!chunkLineOk x.s.readLine.1) = true
      · left; simp only [hok, if_true]; exact ⟨_, rfl, by simp only []; omega⟩
      · simp only [hok, Bool.false_eq_true, if_false]
        obtain ⟨b, hb, hbl⟩ := readBlocks_ok x.s.readLine.2 (hexToInt x.s.readLine.1) x.size x.body
        rw [hb]
        simp only [bind, Except.bind]
        by_cases hret : b.ret = true
        · left; simp only [hret, if_true]; exact ⟨_, rfl, by simp only []; omega⟩
        · simp only [hret, Bool.false_eq_true, if_false]
          have hr2 := rawRead_len b.s 2
          by_cases h2 : (b.s.rawRead 2).1.length < 2
          · left; simp only [h2, if_true]; exact ⟨_, rfl, by simp only []; omega⟩
          · simp only [h2, if_false]
            by_cases hcr : ((b.s.rawRead 2).1 != [13, 10]) = true
            · left; simp only [hcr, if_true]; exact ⟨_, rfl, by simp only []; omega⟩
            · simp only [hcr, Bool.false_eq_true, if_false]
              by_cases h0 : (hexToInt x.s.readLine.1 == 0) = true
              · left; simp only [h0, if_true]; exact ⟨_, rfl, by simp only []; omega⟩
              · right; simp only [h0, Bool.false_eq_true, if_false]
                have hne : x.s.inp ≠ [] := by
                  intro hnil'
                  have : x.s.inp.length = 0 := by simp [hnil']
                  omega
                have := hlt ⟨he, hc, hne⟩
                exact ⟨_, rfl, by simp only []; omega, by simp only []; omega⟩
    | false =>
      simp only [Bool.false_eq_true, if_false]
      have hmx : (if x.size > 0 && (if x.s.available ≤ 0 then (1 : Int) else x.s.available) > x.size then x.size
          else (if x.s.available ≤ 0 then (1 : Int) else x.s.available)) ≥ 1 := by
        by_cases ha : x.s.available ≤ 0
        · simp only [ha, if_true]
          split
          · rename_i h; simp only [Bool.and_eq_true, decide_eq_true_eq] at h; omega
          · omega
        · simp only [ha, if_false]
          split
          · rename_i h; simp only [Bool.and_eq_true, decide_eq_true_eq] at h; omega
          · omega
      obtain ⟨b, hb, hbl, hprog⟩ := readBlocks_progress x.s _ x.size x.body hmx hc
      rw [hb]
      simp only [bind, Except.bind]
      by_cases hret : b.ret = true
      · left; simp only [hret, if_true]; exact ⟨_, rfl, by simp only []; omega⟩
      · right; simp only [hret, Bool.false_eq_true, if_false]
        rcases hprog with h | h
        · exact absurd h hret
        · exact ⟨_, rfl, by simp only []; omega, by simp only []; omega⟩

theorem readBody_ok (s : Sock) (h : Dic) : ∃ r, readBody s h = .ok r ∧ r.1.inp.length ≤ s.inp.length := by
  unfold readBody
  simp only []
  have hit : ∀ ch sz, ∃ r, iterate (bodyStep ch) (s.inp.length + 2) ⟨s, sz, []⟩ = .ok r ∧ r.1.inp.length ≤ s.inp.length :=
    fun ch sz => iterate_ok (bodyStep ch) (fun x => x.s.inp.length) (fun x => x.s.inp.length ≤ s.inp.length)
        (fun r => r.1.inp.length ≤ s.inp.length) (fun x hx => bodyStep_ok ch s.inp.length x hx)
        (s.inp.length + 2) ⟨s, sz, []⟩ (Nat.le_refl _) (by simp only []; omega)
  split
  · exact ⟨_, rfl, Nat.le_refl _⟩
  · split
    · exact hit true 0
    · split
      · split
        · exact ⟨_, rfl, Nat.le_refl _⟩
        · exact hit false _
      · exact ⟨_, rfl, Nat.le_refl _⟩

/-! ## `HttpRequest::read` and `HttpServer::serve` -/

theorem read_ok (s : Sock) :
    ∃ r, AslModel.HttpParse.read s = .ok r ∧ r.2.inp.length ≤ s.inp.length ∧ (Live s → r.2.inp.length < s.inp.length) ∧
      hasDD r.1.path = false ∧ (∀ c ∈ r.1.path, c ≠ 0) := by
  unfold AslModel.HttpParse.read
  obtain ⟨hle, hlt, hnil⟩ := readLine_facts s
  simp only []
  split
  · exact ⟨_, rfl, hle, hlt, rfl, by simp⟩
  · obtain ⟨rl?, hrl⟩ := parseRequestLine_ok s.readLine.1
    rw [hrl]
    simp only [bind, Except.bind]
    cases rl? with
    | none => exact ⟨_, rfl, hle, hlt, rfl, by simp⟩
    | some rl =>
      simp only []
      obtain ⟨hs, hhs, hhl⟩ := readHeaders_ok s.readLine.2
      rw [hhs]
      simp only []
      split
      · refine ⟨_, rfl, by simp only []; omega, fun hl => ?_, rfl, by simp⟩
        have := hlt hl
        simp only []
        omega
      · obtain ⟨b, hb, hbl⟩ := readBody_ok (expectContinue hs.1 hs.2) hs.2
        rw [hb]
        simp only []
        obtain ⟨t, ht, hdd, hnul⟩ := parseTarget_ok rl.res
        rw [ht]
        rw [expectContinue_inp] at hbl
        refine ⟨_, rfl, by simp only []; omega, fun hl => ?_, hdd, hnul⟩
        have := hlt hl
        simp only []
        omega

theorem serveStep_ok (N : Nat) (x : SrvSt) (hx : x.s.inp.length ≤ N)
    (hacc : ∀ q ∈ x.acc, hasDD q.path = false) :
    (∃ r, serveStep x = .ok (.done r) ∧ r.1.inp.length ≤ N ∧ ∀ q ∈ r.2, hasDD q.path = false) ∨
    (∃ y, serveStep x = .ok (.next y) ∧ (y.s.inp.length ≤ N ∧ ∀ q ∈ y.acc, hasDD q.path = false) ∧
      y.s.inp.length < x.s.inp.length) := by
  unfold serveStep
  by_cases h0 : (x.s.closed || x.s.err != 0 || x.s.inp.isEmpty) = true
  · left
    simp only [h0, if_true]
    exact ⟨_, rfl, hx, fun q hq => hacc q (List.mem_reverse.mp hq)⟩
  · simp only [h0, Bool.false_eq_true, if_false]
    have hlive : Live x.s := by
      simp only [Bool.or_eq_true, bne_iff_ne, ne_eq, List.isEmpty_iff, not_or, Decidable.not_not, Bool.not_eq_true] at h0
      exact ⟨h0.1.2, h0.1.1, h0.2⟩
    obtain ⟨rs, hrs, hle, hlt, hdd, _⟩ := read_ok x.s
    have hdec := hlt hlive
    rw [hrs]
    simp only [bind, Except.bind]
    split
    · left
      exact ⟨_, rfl, by simp only []; omega, fun q hq => hacc q (List.mem_reverse.mp hq)⟩
    · have hacc' : ∀ q ∈ (if (cstr rs.1.method == sOptions) = true then x.acc else rs.1 :: x.acc), hasDD q.path = false := by
        intro q hq
        split at hq
        · exact hacc q hq
        · rcases List.mem_cons.mp hq with rfl | hq
          · exact hdd
          · exact hacc q hq
      have hinp : (respond rs.1 rs.2).1.inp.length = rs.2.inp.length := by rw [respond_inp]
      split
      · left
        exact ⟨_, rfl, by simp only []; omega, fun q hq => hacc' q (List.mem_reverse.mp hq)⟩
      · right
        exact ⟨_, rfl, ⟨by simp only []; omega, hacc'⟩, by simp only []; omega⟩

theorem serveLoop_ok (s : Sock) :
    ∃ r, serveLoop s = .ok r ∧ r.1.inp.length ≤ s.inp.length ∧ ∀ q ∈ r.2, hasDD q.path = false := by
  unfold serveLoop
  exact iterate_ok serveStep (fun x => x.s.inp.length)
    (fun x => x.s.inp.length ≤ s.inp.length ∧ ∀ q ∈ x.acc, hasDD q.path = false)
    (fun r => r.1.inp.length ≤ s.inp.length ∧ ∀ q ∈ r.2, hasDD q.path = false)
    (fun x hx => serveStep_ok s.inp.length x hx.1 hx.2)
    (s.inp.length + 1) ⟨s, []⟩ ⟨Nat.le_refl _, by simp⟩ (by simp only []; omega)

theorem closeBehind_inp_le (s : Sock) : (closeBehind s).inp.length ≤ s.inp.length := by
  unfold closeBehind
  split
  · exact Nat.le_refl _
  · split <;> simp

theorem closeBehind_closed (s : Sock) : (closeBehind s).closed = true := by
  unfold closeBehind
  split
  · assumption
  · split <;> rfl

theorem closeBehind_err (s : Sock) (h : s.err = 0) : (closeBehind s).err = 0 := by
  unfold closeBehind
  split
  · exact h
  · split
    · rename_i h2; simp [h] at h2
    · exact h

theorem closeBehind_out (s : Sock) : (closeBehind s).out = s.out := by
  unfold closeBehind
  split
  · rfl
  · split <;> rfl

theorem closeBehind_suffix (s : Sock) : ∃ w, s.inp = w ++ (closeBehind s).inp := by
  unfold closeBehind
  split
  · exact ⟨[], rfl⟩
  · split
    · exact ⟨[], rfl⟩
    · exact ⟨s.inp, by simp⟩

/-- `serve` = the loop, then `closeBehind` -/
theorem serve_eq (s : Sock) (res : Sock × List Req) (h : serve s = .ok res) :
    ∃ r, serveLoop s = .ok r ∧ res = (closeBehind r.1, r.2) := by
  unfold serve at h
  cases hl : serveLoop s with
  | error e => rw [hl] at h; simp [bind, Except.bind] at h
  | ok r =>
    rw [hl] at h
    simp only [bind, Except.bind, pure, Except.pure, Except.ok.injEq] at h
    exact ⟨r, rfl, h.symm⟩

theorem serve_of_loop (s : Sock) (r : Sock × List Req) (h : serveLoop s = .ok r) :
    serve s = .ok (closeBehind r.1, r.2) := by
  unfold serve
  rw [h]
  rfl

theorem serve_ok (s : Sock) :
    ∃ r, serve s = .ok r ∧ r.1.inp.length ≤ s.inp.length ∧ ∀ q ∈ r.2, hasDD q.path = false := by
  obtain ⟨r, hr, hl, hq⟩ := serveLoop_ok s
  exact ⟨_, serve_of_loop s r hr, Nat.le_trans (closeBehind_inp_le r.1) hl, hq⟩

/-! ## `Url::Url` -/

theorem at?_val (s : Bytes) (i : Nat) (h : i ≤ s.length) : at? s i = .ok (s.getD i 0) := by
  by_cases h1 : i < s.length
  · exact at?_lt _ _ h1
  · have : i = s.length := by omega
    subst this
    rw [at?_len]
    simp [List.getD]

theorem getD_cstr (l : Bytes) (k : Nat) (h : k < (cstr l).length) : (cstr l).getD k 0 = l.getD k 0 := by
  obtain ⟨r, hr⟩ := cstr_prefix l
  conv => rhs; rw [hr]
  simp only [List.getD_eq_getElem?_getD]
  rw [List.getElem?_append_left h]

theorem indexOfByteFrom?_spec (s : Bytes) (c : UInt8) (i0 : Nat) (h : i0 ≤ s.length) :
    ∃ r, indexOfByteFrom? s c i0 = .ok r ∧ ∀ k, r = some k → i0 ≤ k ∧ k < s.length ∧ s.getD k 0 = c := by
  unfold indexOfByteFrom?
  simp only [h, if_true, pure, Except.pure]
  refine ⟨_, rfl, ?_⟩
  intro k hk
  simp only [Option.map_eq_some_iff] at hk
  obtain ⟨k', hk', rfl⟩ := hk
  obtain ⟨h1, h2, _⟩ := findByte_some hk'
  have h3 := cstr_length_le (s.drop i0)
  simp only [List.length_drop] at h3
  refine ⟨by omega, by omega, ?_⟩
  rw [getD_cstr _ _ h1] at h2
  simp only [List.getD_eq_getElem?_getD, List.getElem?_drop] at h2
  simp only [List.getD_eq_getElem?_getD]
  rw [Nat.add_comm]
  exact h2

theorem isPrefix_len {p l : Bytes} (h : isPrefix p l = true) : p.length ≤ l.length := by
  induction p generalizing l with
  | nil => simp
  | cons a p ih =>
    cases l with
    | nil => simp [isPrefix] at h
    | cons b l =>
      simp only [isPrefix, Bool.and_eq_true] at h
      have := ih h.2
      simp; omega

theorem findSub_some_len {pat l : Bytes} {k : Nat} (h : findSub pat l = some k) : k + pat.length ≤ l.length := by
  induction l generalizing k with
  | nil =>
    unfold findSub at h
    by_cases hp : pat.isEmpty = true
    · simp only [hp, if_true, Option.some.injEq] at h
      subst h
      have : pat = [] := by simpa using hp
      simp [this]
    · simp [hp] at h
  | cons c t ih =>
    unfold findSub at h
    by_cases hp : isPrefix pat (c :: t) = true
    · simp only [hp, if_true, Option.some.injEq] at h
      subst h
      have := isPrefix_len hp
      omega
    · simp only [hp, Bool.false_eq_true, if_false, Option.map_eq_some_iff] at h
      obtain ⟨k', hk', rfl⟩ := h
      have := ih hk'
      simp; omega

theorem urlPort_ok (url : Bytes) (portstart pathstart : Nat)
    (h : portstart = 0 ∨ (portstart ≤ pathstart ∧ pathstart ≤ url.length)) : ∃ p, urlPort url portstart pathstart = .ok p := by
  unfold urlPort
  by_cases h0 : (portstart == 0) = true
  · simp only [h0, if_true]; exact ⟨_, rfl⟩
  · simp only [h0, Bool.false_eq_true, if_false]
    have : portstart ≠ 0 := by simpa using h0
    rcases h with h | ⟨h1, h2⟩
    · exact absurd h this
    · rw [substring?_ok _ _ _ h1 h2]; exact ⟨_, rfl⟩

theorem urlBracket_ok (url protocol path : Bytes) (hoststart pathstart : Nat) (h1 : hoststart ≤ url.length)
    (h2 : pathstart ≤ url.length) (h3 : pathstart = url.length ∨ url.getD pathstart 0 = 47) :
    ∃ u, urlBracket url protocol path hoststart pathstart = .ok u := by
  unfold urlBracket
  obtain ⟨he, hhe, hb⟩ := indexOfByteFrom?_spec url 93 hoststart h1
  rw [hhe]
  simp only [bind, Except.bind]
  cases he with
  | none => exact ⟨_, rfl⟩
  | some hostend =>
    obtain ⟨hb1, hb2, hb3⟩ := hb hostend rfl
    simp only []
    by_cases hgt : hostend > pathstart
    · simp only [hgt, if_true]; exact ⟨_, rfl⟩
    · simp only [hgt, if_false]
      rw [at?_val _ _ (by omega)]
      simp only []
      have hlt : hostend < pathstart := by
        rcases h3 with h3 | h3
        · omega
        · have : hostend ≠ pathstart := by
            intro heq
            rw [heq, h3] at hb3
            exact absurd hb3 (by decide)
          omega
      rw [substring?_ok _ _ _ hb1 (by omega)]
      simp only []
      have hport : (if (url.getD (hostend + 1) 0 == 58) = true then hostend + 2 else 0) = 0 ∨
          ((if (url.getD (hostend + 1) 0 == 58) = true then hostend + 2 else 0) ≤ pathstart ∧ pathstart ≤ url.length) := by
        by_cases hc : (url.getD (hostend + 1) 0 == 58) = true
        · right
          simp only [hc, if_true]
          have hc' : url.getD (hostend + 1) 0 = 58 := by simpa using hc
          refine ⟨?_, h2⟩
          have : hostend + 1 ≠ pathstart := by
            intro heq
            rcases h3 with h3 | h3
            · rw [heq, h3] at hc'
              simp [List.getD] at hc'
            · rw [heq, h3] at hc'
              exact absurd hc' (by decide)
          omega
        · left; simp only [hc, Bool.false_eq_true, if_false]
      obtain ⟨p, hp⟩ := urlPort_ok url _ pathstart hport
      rw [hp]
      exact ⟨_, rfl⟩

theorem urlPlain_ok (url protocol path : Bytes) (hoststart pathstart : Nat) (h1 : hoststart ≤ pathstart)
    (h2 : pathstart ≤ url.length) : ∃ u, urlPlain url protocol path hoststart pathstart = .ok u := by
  unfold urlPlain
  obtain ⟨j, hj, hb⟩ := indexOfByteFrom?_spec url 58 hoststart (by omega)
  rw [hj]
  simp only [bind, Except.bind]
  cases j with
  | none =>
    simp only []
    rw [substring?_ok _ _ _ h1 h2]
    simp only []
    obtain ⟨p, hp⟩ := urlPort_ok url 0 pathstart (Or.inl rfl)
    rw [hp]
    exact ⟨_, rfl⟩
  | some jv =>
    obtain ⟨hb1, hb2, _⟩ := hb jv rfl
    simp only []
    by_cases hlt : jv < pathstart
    · simp only [hlt, if_true]
      rw [substring?_ok _ _ _ hb1 (by omega)]
      simp only []
      obtain ⟨p, hp⟩ := urlPort_ok url (jv + 1) pathstart (Or.inr ⟨by omega, h2⟩)
      rw [hp]
      exact ⟨_, rfl⟩
    · simp only [hlt, if_false]
      rw [substring?_ok _ _ _ h1 h2]
      simp only []
      obtain ⟨p, hp⟩ := urlPort_ok url 0 pathstart (Or.inl rfl)
      rw [hp]
      exact ⟨_, rfl⟩

theorem parseUrl_ok (url : Bytes) : ∃ u, parseUrl url = .ok u := by
  unfold parseUrl
  unfold indexOfSubFrom?
  simp only [Nat.zero_le, if_true, pure, Except.pure, bind, Except.bind, List.drop_zero, Nat.add_zero, Option.map_id']
  -- hoststart ≤ length
  have hhs : ∀ k, findSub sSchemeSep (cstr url) = some k → k + 3 ≤ url.length := by
    intro k hk
    have := findSub_some_len hk
    have h2 := cstr_length_le url
    simp only [sSchemeSep, List.length_cons, List.length_nil] at this
    omega
  cases hi : findSub sSchemeSep (cstr url) with
  | none =>
    simp only [Option.map_none, Bool.false_eq_true, if_false, Option.getD_none]
    obtain ⟨ps, hps, hpb⟩ := indexOfByteFrom?_spec url 47 0 (Nat.zero_le _)
    rw [hps]
    simp only []
    have hpl : ps.getD url.length ≤ url.length := by
      cases ps with
      | none => simp
      | some k => have := (hpb k rfl).2.1; simp; omega
    have hp3 : ps.getD url.length = url.length ∨ url.getD (ps.getD url.length) 0 = 47 := by
      cases ps with
      | none => left; simp
      | some k => right; simpa using (hpb k rfl).2.2
    rw [substring?_ok _ _ _ (Nat.zero_le _) hpl]
    simp only []
    rw [substring?_ok _ _ _ hpl (Nat.le_refl _)]
    simp only []
    rw [at?_val _ _ (Nat.zero_le _)]
    simp only []
    split
    · rename_i hc
      have hne : url.getD 0 0 = 91 := by simpa using hc
      have : 0 < url.length := by
        cases url with
        | nil => simp [List.getD] at hne
        | cons a t => simp
      exact urlBracket_ok _ _ _ _ _ (by omega) hpl hp3
    · exact urlPlain_ok _ _ _ _ _ (Nat.zero_le _) hpl
  | some k =>
    have hk3 := hhs k hi
    simp only [Option.map_some, Option.getD_some]
    by_cases hpos : (decide (k > 0)) = true
    · simp only [hpos, if_true]
      rw [substring?_ok _ _ _ (Nat.zero_le _) (by omega)]
      simp only []
      obtain ⟨ps, hps, hpb⟩ := indexOfByteFrom?_spec url 47 (k + 3) hk3
      rw [hps]
      simp only []
      have hpl : ps.getD url.length ≤ url.length := by
        cases ps with
        | none => simp
        | some k' => have := (hpb k' rfl).2.1; simp; omega
      have hpg : k + 3 ≤ ps.getD url.length := by
        cases ps with
        | none => simpa using hk3
        | some k' => have := (hpb k' rfl).1; simpa using this
      have hp3 : ps.getD url.length = url.length ∨ url.getD (ps.getD url.length) 0 = 47 := by
        cases ps with
        | none => left; simp
        | some k' => right; simpa using (hpb k' rfl).2.2
      rw [substring?_ok _ _ _ hpg hpl]
      simp only []
      rw [substring?_ok _ _ _ hpl (Nat.le_refl _)]
      simp only []
      rw [at?_val _ _ hk3]
      simp only []
      split
      · rename_i hc
        have hne : url.getD (k + 3) 0 = 91 := by simpa using hc
        have : k + 3 < url.length := by
          by_cases hlt : k + 3 < url.length
          · exact hlt
          · have : k + 3 = url.length := by omega
            rw [this] at hne
            simp [List.getD] at hne
        exact urlBracket_ok _ _ _ _ _ (by omega) hpl hp3
      · exact urlPlain_ok _ _ _ _ _ hpg hpl
    · simp only [hpos, Bool.false_eq_true, if_false]
      obtain ⟨ps, hps, hpb⟩ := indexOfByteFrom?_spec url 47 0 (Nat.zero_le _)
      rw [hps]
      simp only []
      have hpl : ps.getD url.length ≤ url.length := by
        cases ps with
        | none => simp
        | some k' => have := (hpb k' rfl).2.1; simp; omega
      have hp3 : ps.getD url.length = url.length ∨ url.getD (ps.getD url.length) 0 = 47 := by
        cases ps with
        | none => left; simp
        | some k' => right; simpa using (hpb k' rfl).2.2
      rw [substring?_ok _ _ _ (Nat.zero_le _) hpl]
      simp only []
      rw [substring?_ok _ _ _ hpl (Nat.le_refl _)]
      simp only []
      rw [at?_val _ _ (Nat.zero_le _)]
      simp only []
      split
      · rename_i hc
        have hne : url.getD 0 0 = 91 := by simpa using hc
        have : 0 < url.length := by
          cases url with
          | nil => simp [List.getD] at hne
          | cons a t => simp
        exact urlBracket_ok _ _ _ _ _ (by omega) hpl hp3
      · exact urlPlain_ok _ _ _ _ _ (Nat.zero_le _) hpl


/-! ## header names: `capitalized` -/

theorem byte_cases (P : UInt8 → Prop) (h : ∀ n, n < 256 → P (UInt8.ofNat n)) : ∀ c, P c := by
  intro c
  have := h c.toNat c.toNat_lt
  simpa using this

theorem case_facts : ∀ n, n < 256 →
    toUpper (toLower (UInt8.ofNat n)) = toUpper (UInt8.ofNat n) ∧ toLower (toUpper (UInt8.ofNat n)) = toLower (UInt8.ofNat n) ∧
    toUpper (toUpper (UInt8.ofNat n)) = toUpper (UInt8.ofNat n) ∧ toLower (toLower (UInt8.ofNat n)) = toLower (UInt8.ofNat n) := by
  decide +kernel

theorem case_facts' (c : UInt8) :
    toUpper (toLower c) = toUpper c ∧ toLower (toUpper c) = toLower c ∧
    toUpper (toUpper c) = toUpper c ∧ toLower (toLower c) = toLower c :=
  byte_cases (fun c => toUpper (toLower c) = toUpper c ∧ toLower (toUpper c) = toLower c ∧
    toUpper (toUpper c) = toUpper c ∧ toLower (toLower c) = toLower c) case_facts c

theorem capAux_lower (cap : Bool) (s : Bytes) : capAux cap (s.map toLower) = capAux cap s := by
  induction s generalizing cap with
  | nil => rfl
  | cons c t ih =>
    obtain ⟨h1, h2, h3, h4⟩ := case_facts' c
    cases cap <;> simp only [List.map_cons, capAux, Bool.false_eq_true, if_false, if_true, h1, h4, ih]

theorem capAux_upper (cap : Bool) (s : Bytes) : capAux cap (s.map toUpper) = capAux cap s := by
  induction s generalizing cap with
  | nil => rfl
  | cons c t ih =>
    obtain ⟨h1, h2, h3, h4⟩ := case_facts' c
    cases cap <;> simp only [List.map_cons, capAux, Bool.false_eq_true, if_false, if_true, h2, h3, ih]

theorem capAux_idem (cap : Bool) (s : Bytes) : capAux cap (capAux cap s) = capAux cap s := by
  induction s generalizing cap with
  | nil => rfl
  | cons c t ih =>
    obtain ⟨h1, h2, h3, h4⟩ := case_facts' c
    cases cap <;> simp only [capAux, Bool.false_eq_true, if_false, if_true, h3, h4, ih]

/-! ## the header dictionary -/

theorem cmpBytes_refl (a : Bytes) : cmpBytes a a = .eq := by
  induction a with
  | nil => rfl
  | cons x t ih => simp [cmpBytes, ih]

theorem dicFind_dicSet_same (d : Dic) (k v : Bytes) : dicFind (dicSet d k v) k = some v := by
  induction d with
  | nil => simp [dicSet, dicFind, cmpBytes_refl]
  | cons kv t ih =>
    obtain ⟨k', v'⟩ := kv
    unfold dicSet
    cases hc : cmpBytes (cstr k') (cstr k) with
    | lt => simp only [dicFind, hc, ih]
    | eq => simp only [dicFind, hc]
    | gt => simp only [dicFind, cmpBytes_refl]


/-! ## `Url::parseQuery` -/

theorem queryPairs_ok (ps : List Bytes) (d : Dic) : ∃ r, queryPairs ps d = .ok r := by
  induction ps generalizing d with
  | nil => exact ⟨_, rfl⟩
  | cons p t ih =>
    unfold queryPairs
    cases hf : findByte 61 p with
    | none => exact ih d
    | some j =>
      have hj := (findByte_some hf).1
      simp only []
      by_cases hpos : j > 0
      · simp only [hpos, if_true]
        rw [substring?_ok _ _ _ (Nat.zero_le _) (by omega)]
        simp only [bind, Except.bind]
        rw [substring?_ok _ _ _ (by omega) (Nat.le_refl _)]
        exact ih _
      · simp only [hpos, if_false]
        exact ih d

theorem queryDecode_ok (raw d : Dic) : ∃ r, queryDecode raw d = .ok r := by
  induction raw generalizing d with
  | nil => exact ⟨_, rfl⟩
  | cons kv t ih =>
    unfold queryDecode
    rw [urlDecode_eq_spec, urlDecode_eq_spec]
    exact ih _

theorem parseQuery_ok (qs : Bytes) : ∃ d, parseQuery qs = .ok d := by
  unfold parseQuery
  obtain ⟨raw, hraw⟩ := queryPairs_ok (splitByte 38 (cstr (qs.map fun c => if c == 43 then 32 else c))) []
  simp only [bind, Except.bind]
  rw [hraw]
  exact queryDecode_ok raw []

/-! ## faithful reading of well-formed input -/

theorem readLineLoop_line (line rest : Bytes) (h10 : ∀ c ∈ line, c ≠ 10) :
    ∀ (acc : Bytes) (n : Nat), n + line.length ≤ 16001 →
      readLineLoop (line ++ 10 :: rest) acc n = (acc.reverse ++ line, rest, 0) := by
  induction line with
  | nil => intro acc n _; simp [readLineLoop]
  | cons c t ih =>
    intro acc n hlen
    have hc : (c == 10) = false := by simpa using h10 c (by simp)
    have hn : ¬ n > 16000 := by simp at hlen; omega
    simp only [List.cons_append, readLineLoop, hc, Bool.false_eq_true, if_false, hn]
    rw [ih (fun x hx => h10 x (by simp [hx])) (c :: acc) (n + 1) (by simp at hlen ⊢; omega)]
    simp

/-- a healthy socket holding `line LF rest` yields exactly `line` and keeps `rest` -/
theorem readLine_line (s : Sock) (line rest : Bytes) (he : s.err = 0) (hc : s.closed = false)
    (hi : s.inp = line ++ 10 :: rest) (h10 : ∀ c ∈ line, c ≠ 10) (hlen : line.length ≤ 16001) :
    s.readLine = (line, { s with inp := rest }) := by
  unfold Sock.readLine Sock.available Sock.readLineBody
  have hpos : ((s.inp.length : Int) > 0) := by rw [hi]; simp; omega
  simp only [he, hc, bne_self_eq_false, Bool.or_self, Bool.false_eq_true, if_false, hpos, if_true]
  rw [hi, readLineLoop_line line rest h10 [] 0 (by omega)]
  simp

theorem cstr_append_of_no_nul (a b : Bytes) (h : ∀ c ∈ a, c ≠ 0) : cstr (a ++ b) = a ++ cstr b := by
  unfold cstr
  induction a with
  | nil => rfl
  | cons x t ih =>
    have hx : (x != 0) = true := by simpa using h x (by simp)
    rw [List.cons_append, tw_pos (p := fun x => x != 0) hx, ih (fun c hc => h c (by simp [hc]))]
    rfl

theorem findByte_append (c : UInt8) (a b : Bytes) (h : ∀ x ∈ a, x ≠ c) : findByte c (a ++ c :: b) = some a.length := by
  induction a with
  | nil => simp [findByte]
  | cons x t ih =>
    have hx : (x == c) = false := by simpa using h x (by simp)
    simp only [List.cons_append, findByte, hx, Bool.false_eq_true, if_false, ih (fun y hy => h y (by simp [hy]))]
    simp

/-- the request line `method SP target SP protocol` is split into exactly these three -/
theorem parseRequestLine_faithful (m t p : Bytes) (hm : ∀ c ∈ m, c ≠ 32 ∧ c ≠ 0) (ht : ∀ c ∈ t, c ≠ 32 ∧ c ≠ 0) :
    parseRequestLine (m ++ 32 :: (t ++ 32 :: p)) = .ok (some ⟨m, t, trimmed p⟩) := by
  unfold parseRequestLine indexOfByteFrom?
  have h1 : cstr (m ++ 32 :: (t ++ 32 :: p)) = m ++ 32 :: (t ++ 32 :: cstr p) := by
    rw [cstr_append_of_no_nul _ _ (fun c hc => (hm c hc).2)]
    show m ++ cstr ([32] ++ (t ++ 32 :: p)) = _
    rw [cstr_append_of_no_nul [32] _ (by decide)]
    rw [cstr_append_of_no_nul _ _ (fun c hc => (ht c hc).2)]
    show m ++ ([32] ++ (t ++ cstr ([32] ++ p))) = _
    rw [cstr_append_of_no_nul [32] _ (by decide)]
    rfl
  simp only [Nat.zero_le, if_true, List.drop_zero, h1, pure, Except.pure, bind, Except.bind]
  rw [findByte_append 32 m _ (fun c hc => (hm c hc).1)]
  simp only [Option.map_some, Nat.add_zero]
  have hlen : m.length + 1 ≤ (m ++ 32 :: (t ++ 32 :: p)).length := by simp
  simp only [hlen, if_true]
  have hd : (m ++ 32 :: (t ++ 32 :: p)).drop (m.length + 1) = t ++ 32 :: p := by
    rw [show m ++ 32 :: (t ++ 32 :: p) = (m ++ [32]) ++ (t ++ 32 :: p) by simp]
    rw [List.drop_left' (by simp)]
  rw [hd]
  have h2 : cstr (t ++ 32 :: p) = t ++ 32 :: cstr p := by
    rw [cstr_append_of_no_nul _ _ (fun c hc => (ht c hc).2)]
    show t ++ cstr ([32] ++ p) = _
    rw [cstr_append_of_no_nul [32] _ (by decide)]
    rfl
  rw [h2, findByte_append 32 t _ (fun c hc => (ht c hc).1)]
  simp only [Option.map_some]
  rw [substring?_ok _ _ _ (Nat.zero_le _) (by simp)]
  simp only []
  rw [substring?_ok _ _ _ (by omega) (by simp; omega)]
  simp only []
  rw [substring?_ok _ _ _ (by simp; omega) (Nat.le_refl _)]
  simp only [List.drop_zero, Nat.sub_zero, List.take_left']
  have e1 : ((m ++ 32 :: (t ++ 32 :: p)).drop (m.length + 1)).take (t.length + (m.length + 1) - (m.length + 1)) = t := by
    rw [hd]; simp
  have e2 : (m ++ 32 :: (t ++ 32 :: p)).drop (t.length + (m.length + 1) + 1) = p := by
    rw [show m ++ 32 :: (t ++ 32 :: p) = (m ++ [32] ++ t ++ [32]) ++ p by simp]
    rw [List.drop_left' (by simp; omega)]
  rw [e1, e2]
  simp only [List.length_append, List.length_cons]
  rw [List.take_of_length_le (by omega)]

/-! ### header lines -/

theorem dropWhile_append_all (p : UInt8 → Bool) (pre rest : Bytes) (h : ∀ c ∈ pre, p c = true) :
    (pre ++ rest).dropWhile p = rest.dropWhile p := by
  induction pre with
  | nil => rfl
  | cons x t ih =>
    have hx : p x = true := h x (by simp)
    simp only [List.cons_append, List.dropWhile_cons, hx, if_true]
    exact ih (fun c hc => h c (by simp [hc]))

theorem dropWhile_head_false (p : UInt8 → Bool) (x : UInt8) (t : Bytes) (h : p x = false) :
    (x :: t).dropWhile p = x :: t := by
  simp [List.dropWhile_cons, h]

theorem headD_append_ne (l1 l2 : Bytes) (d : UInt8) (h : l1 ≠ []) : (l1 ++ l2).headD d = l1.headD d := by
  obtain ⟨x, t, rfl⟩ := List.exists_cons_of_ne_nil h
  rfl

/-- trimming removes exactly the blanks around a core that starts and ends with a non-blank -/
theorem trimmed_core (pre a post : Bytes) (hpre : ∀ c ∈ pre, isSp c = true) (hpost : ∀ c ∈ post, isSp c = true)
    (hne : a ≠ []) (hh : isSp (a.headD 0) = false) (hl : isSp (a.reverse.headD 0) = false) :
    trimmed (pre ++ a ++ post) = a := by
  unfold trimmed
  rw [List.append_assoc, dropWhile_append_all _ _ _ hpre]
  obtain ⟨x, t, rfl⟩ := List.exists_cons_of_ne_nil hne
  rw [List.cons_append, dropWhile_head_false _ _ _ (by simpa using hh)]
  rw [← List.cons_append, List.reverse_append, dropWhile_append_all _ _ _ (fun c hc => hpost c (List.mem_reverse.mp hc))]
  have hr : (x :: t).reverse ≠ [] := by simp
  obtain ⟨y, u, hyu⟩ := List.exists_cons_of_ne_nil hr
  rw [hyu] at hl ⊢
  rw [dropWhile_head_false _ _ _ (by simpa using hl), ← hyu, List.reverse_reverse]

/-- a header name as the reader needs it: non-empty, no `:`/NUL/LF, not starting with white space -/
def NameOk (n : Bytes) : Prop :=
  n ≠ [] ∧ (∀ c ∈ n, c ≠ 58 ∧ c ≠ 0 ∧ c ≠ 10) ∧ cIsSpace (n.headD 0) = false ∧ validName n = true
/-- a header value: non-empty, no LF, no blanks at either end -/
def ValueOk (v : Bytes) : Prop :=
  v ≠ [] ∧ (∀ c ∈ v, c ≠ 10) ∧ isSp (v.headD 0) = false ∧ isSp (v.reverse.headD 0) = false

theorem isSp_of_not_cIsSpace (c : UInt8) (h : cIsSpace c = false) : isSp c = false := by
  revert h
  revert c
  apply byte_cases
  decide +kernel

/-- one well-formed header line `name: value CRLF` is taken off the stream and stored under `name` -/
theorem headersStep_line (x : HSt) (name value rest : Bytes) (he : x.s.err = 0) (hc : x.s.closed = false)
    (hi : x.s.inp = name ++ 58 :: 32 :: (value ++ 13 :: 10 :: rest)) (hn : NameOk name) (hv : ValueOk value)
    (hlen : name.length + value.length + 3 ≤ 16001) :
    headersStep x = .ok (.next ⟨{ x.s with inp := rest }, storeHeader x.h name value, name, value⟩) := by
  obtain ⟨hn0, hn1, hn2, hn3⟩ := hn
  obtain ⟨hv0, hv1, hv2, hv3⟩ := hv
  obtain ⟨a, t, rfl⟩ := List.exists_cons_of_ne_nil hn0
  have hline : x.s.readLine = ((a :: t) ++ 58 :: 32 :: (value ++ [13]), { x.s with inp := rest }) := by
    apply readLine_line x.s _ rest he hc
    · rw [hi]; simp
    · intro c hcm
      simp only [List.cons_append, List.mem_cons, List.mem_append, List.not_mem_nil, or_false] at hcm
      rcases hcm with rfl | h | rfl | rfl | h | rfl
      · exact (hn1 _ (by simp)).2.2
      · exact (hn1 c (by simp [h])).2.2
      · decide
      · decide
      · exact hv1 c h
      · decide
    · simp only [List.length_cons, List.length_append, List.length_nil] at hlen ⊢; omega
  unfold headersStep
  simp only [hline]
  have hcs : cstr ((a :: t) ++ 58 :: 32 :: (value ++ [13])) = (a :: t) ++ cstr (58 :: 32 :: (value ++ [13])) :=
    cstr_append_of_no_nul _ _ (fun c hc => (hn1 c hc).2.1)
  have ha13 : a ≠ 13 := by
    intro h; rw [h] at hn2; simp [cIsSpace] at hn2
  have h13 : (cstr ((a :: t) ++ 58 :: 32 :: (value ++ [13])) == [13]) = false := by
    rw [hcs]
    simp [ha13]
  simp only [h13, Bool.false_eq_true, if_false]
  rw [at?_zero]
  simp only [bind, Except.bind, List.cons_append, List.getD_cons_zero]
  have hsp : cIsSpace a = false := by simpa using hn2
  simp only [hsp, Bool.false_eq_true, if_false]
  -- the trimmed line
  have hcore : trimmed (a :: (t ++ 58 :: 32 :: (value ++ [13]))) = a :: (t ++ 58 :: 32 :: value) := by
    have := trimmed_core [] ((a :: t) ++ 58 :: 32 :: value) [13] (by simp) (by decide) (by simp)
      (by simpa using isSp_of_not_cIsSpace a hsp)
      (by
        have : ((a :: t) ++ 58 :: 32 :: value).reverse = value.reverse ++ (32 :: 58 :: (a :: t).reverse) := by
          simp
        rw [this, headD_append_ne _ _ _ (by simpa using hv0)]; exact hv3)
    simpa using this
  rw [hcore]
  have hcs2 : cstr (a :: (t ++ 58 :: 32 :: value)) = (a :: t) ++ 58 :: cstr (32 :: value) := by
    have := cstr_append_of_no_nul (a :: t) (58 :: 32 :: value) (fun c hc => (hn1 c hc).2.1)
    rw [List.cons_append] at this
    rw [this]
    show _ ++ cstr ([58] ++ 32 :: value) = _
    rw [cstr_append_of_no_nul [58] _ (by decide)]
    rfl
  rw [hcs2, findByte_append 58 (a :: t) _ (fun c hc => (hn1 c hc).1)]
  simp only []
  rw [substring?_ok _ _ _ (Nat.zero_le _) (by simp)]
  simp only [List.drop_zero, Nat.sub_zero]
  have e1 : (a :: (t ++ 58 :: 32 :: value)).take (a :: t).length = a :: t := by
    rw [← List.cons_append]; simp
  rw [e1]
  simp only [hn3, Bool.not_true, Bool.false_eq_true, if_false]
  rw [substring?_ok _ _ _ (by simp only [List.length_cons, List.length_append]; omega) (Nat.le_refl _)]
  simp only []
  have e2 : (a :: (t ++ 58 :: 32 :: value)).drop ((a :: t).length + 1) = 32 :: value := by
    rw [show a :: (t ++ 58 :: 32 :: value) = ((a :: t) ++ [58]) ++ 32 :: value by simp]
    rw [List.drop_left' (by simp)]
  rw [e2]
  have e3 : ((32 :: value).take ((a :: (t ++ 58 :: 32 :: value)).length - ((a :: t).length + 1))) = 32 :: value := by
    apply List.take_of_length_le
    simp only [List.length_cons, List.length_append]; omega
  rw [e3]
  have e4 : trimmed (32 :: value) = value := by
    have := trimmed_core [32] value [] (by decide) (by simp) hv0 hv2 hv3
    simpa using this
  rw [e4]
  rfl

/-- the empty line that ends the header block -/
theorem headersStep_end (x : HSt) (rest : Bytes) (he : x.s.err = 0) (hc : x.s.closed = false)
    (hi : x.s.inp = 13 :: 10 :: rest) : headersStep x = .ok (.done ({ x.s with inp := rest }, x.h)) := by
  have hline : x.s.readLine = ([13], { x.s with inp := rest }) :=
    readLine_line x.s [13] rest he hc (by rw [hi]; rfl) (by decide) (by simp)
  unfold headersStep
  simp only [hline]
  rfl

/-- serialisation of a header block -/
def hdrBlock (hs : List (Bytes × Bytes)) : Bytes := hs.flatMap fun nv => nv.1 ++ 58 :: 32 :: (nv.2 ++ [13, 10])

def HeadersOk (hs : List (Bytes × Bytes)) : Prop :=
  ∀ nv ∈ hs, NameOk nv.1 ∧ ValueOk nv.2 ∧ nv.1.length + nv.2.length + 3 ≤ 16001

theorem iterate_headers (hs : List (Bytes × Bytes)) (rest : Bytes) (hok : HeadersOk hs) :
    ∀ (fuel : Nat) (s : Sock) (h : Dic) (n v : Bytes), s.err = 0 → s.closed = false →
      s.inp = hdrBlock hs ++ 13 :: 10 :: rest → hs.length < fuel →
      iterate headersStep fuel ⟨s, h, n, v⟩ =
        .ok ({ s with inp := rest }, hs.foldl (fun d nv => storeHeader d nv.1 nv.2) h) := by
  induction hs with
  | nil =>
    intro fuel s h n v he hc hi hf
    obtain ⟨f, rfl⟩ : ∃ f, fuel = f + 1 := ⟨fuel - 1, by omega⟩
    simp only [iterate]
    rw [headersStep_end ⟨s, h, n, v⟩ rest he hc (by simpa [hdrBlock] using hi)]
    rfl
  | cons nv t ih =>
    intro fuel s h n v he hc hi hf
    obtain ⟨f, rfl⟩ : ∃ f, fuel = f + 1 := ⟨fuel - 1, by simp at hf; omega⟩
    obtain ⟨h1, h2, h3⟩ := hok nv (by simp)
    simp only [iterate]
    rw [headersStep_line ⟨s, h, n, v⟩ nv.1 nv.2 (hdrBlock t ++ 13 :: 10 :: rest) he hc
      (by rw [hi]; simp [hdrBlock]) h1 h2 h3]
    simp only []
    have := ih (fun x hx => hok x (by simp [hx])) f
      { inp := hdrBlock t ++ 13 :: 10 :: rest, err := s.err, closed := s.closed, out := s.out }
      (storeHeader h nv.1 nv.2) nv.1 nv.2 he hc rfl (by simp at hf; omega)
    rw [this]
    rfl

/-! ### Content-Length bodies -/

theorem rawRead_exact (s : Sock) (k : Nat) (h0 : 0 < k) (hk : k ≤ s.inp.length) (hc : s.closed = false) :
    s.rawRead k = (s.inp.take k, { s with inp := s.inp.drop k }) := by
  unfold Sock.rawRead
  have : (s.closed || k == 0) = false := by
    simp only [hc, Bool.false_or, beq_eq_false_iff_ne, ne_eq]; omega
  simp only [this, Bool.false_eq_true, if_false, List.length_take]
  have : ¬ (min k s.inp.length < k) := by omega
  simp only [this, if_false]

theorem blocksStep_exact (s : Sock) (m : Nat) (body : Bytes) (h0 : 0 < m) (hm : m ≤ s.inp.length)
    (hc : s.closed = false) :
    blocksStep ⟨s, m, m, body⟩ =
      if m ≤ 16000 then .ok (.done ⟨{ s with inp := s.inp.drop m }, 0, body ++ s.inp.take m, true⟩)
      else .ok (.next ⟨{ s with inp := s.inp.drop 16000 }, ((m - 16000 : Nat) : Int), ((m - 16000 : Nat) : Int),
                        body ++ s.inp.take 16000⟩) := by
  unfold blocksStep
  have h1 : ¬ ((m : Int) ≤ 0) := by omega
  have h3 : ((m : Int) != 0) = true := by simp only [bne_iff_ne, ne_eq]; omega
  simp only [h1, if_false, h3, if_true]
  by_cases hlast : m ≤ 16000
  · have hk : (min (m : Int) 16000).toNat = m := by omega
    rw [hk, rawRead_exact s m h0 hm hc]
    have hgl : (s.inp.take m).length = m := by rw [List.length_take]; omega
    have h2 : ((s.inp.take m).length == 0) = false := by
      rw [hgl]; simp only [beq_eq_false_iff_ne, ne_eq]; omega
    have h4 : (m : Int) - (((s.inp.take m).length : Nat) : Int) ≤ 0 := by rw [hgl]; omega
    have h5 : (m : Int) - (((s.inp.take m).length : Nat) : Int) = 0 := by rw [hgl]; omega
    simp only [h2, Bool.false_eq_true, if_false, h4, if_true, hlast, pure, Except.pure, h5, Int.le_refl]
  · have hk : (min (m : Int) 16000).toNat = 16000 := by omega
    rw [hk, rawRead_exact s 16000 (by omega) (by omega) hc]
    have hgl : (s.inp.take 16000).length = 16000 := by rw [List.length_take]; omega
    have h2 : ((s.inp.take 16000).length == 0) = false := by rw [hgl]; rfl
    have h4 : ¬ ((m : Int) - (((s.inp.take 16000).length : Nat) : Int) ≤ 0) := by rw [hgl]; omega
    have hcast : (m : Int) - (((s.inp.take 16000).length : Nat) : Int) = ((m - 16000 : Nat) : Int) := by
      rw [hgl]; omega
    simp only [h2, Bool.false_eq_true, if_false, h4, hlast, pure, Except.pure, hcast]
    have h6 : ¬ (((m - 16000 : Nat) : Int) ≤ 0) := by omega
    simp only [h6, if_false]

/-- the inner loop asked for exactly the `m` announced bytes, all of them pending: it takes them in blocks of at
    most 16000 and returns from `readBody` with the count at 0 -/
theorem iterate_blocks_exact :
    ∀ (fuel : Nat) (s : Sock) (m : Nat) (body : Bytes), 0 < m → m ≤ s.inp.length → s.closed = false → m < fuel + 1 →
      iterate blocksStep fuel ⟨s, m, m, body⟩ =
        .ok ⟨{ s with inp := s.inp.drop m }, 0, body ++ s.inp.take m, true⟩ := by
  intro fuel
  induction fuel with
  | zero => intro s m body h0 _ _ hf; omega
  | succ fuel ih =>
    intro s m body h0 hm hc hf
    simp only [iterate]
    rw [blocksStep_exact s m body h0 hm hc]
    by_cases hlast : m ≤ 16000
    · simp only [hlast, if_true]; rfl
    · simp only [hlast, if_false]
      have := ih { s with inp := s.inp.drop 16000 } (m - 16000) (body ++ s.inp.take 16000) (by omega)
        (by simp only [List.length_drop]; omega) hc (by omega)
      rw [this]
      have e : 16000 + (m - 16000) = m := by omega
      have hd : (s.inp.drop 16000).drop (m - 16000) = s.inp.drop m := by
        rw [List.drop_drop, e]
      have ht : s.inp.take 16000 ++ (s.inp.drop 16000).take (m - 16000) = s.inp.take m := by
        conv => rhs; rw [← e, List.take_add]
      simp only [hd, List.append_assoc, ht]

theorem myatoi_zero : myatoi 32 [48] = 0 := by decide

/-- a body framed by `Content-Length: n` with all `n` bytes pending is read exactly; what follows stays unread -/
theorem readBody_content_length (s : Sock) (h : Dic) (body rest : Bytes) (he : s.err = 0) (hc : s.closed = false)
    (hi : s.inp = body ++ rest) (hpos : 0 < body.length)
    (hcl : hasHeader h sContentLength = true) (hvalid : validLength (header h sContentLength) = true)
    (hval : myatoi 32 (cstr (header h sContentLength)) = (body.length : Int))
    (hte : isChunked (header h sTransferEncoding) = false) :
    readBody s h = .ok ({ s with inp := rest }, body) := by
  unfold readBody
  have hnot0 : ((body.length : Int) == 0) = false := by
    simp only [beq_eq_false_iff_ne, ne_eq]; omega
  simp only [hcl, hvalid, hnot0, Bool.and_false, Bool.false_eq_true, if_false, Bool.not_true, Bool.false_and, hte, hval,
    if_true]
  have hfuel : s.inp.length + 2 = (s.inp.length + 1) + 1 := rfl
  rw [hfuel]
  simp only [iterate]
  unfold bodyStep
  have hav : s.available = (s.inp.length : Int) := by
    unfold Sock.available; simp [he, hc]
  have hlen : s.inp.length = body.length + rest.length := by rw [hi]; simp
  have h1 : ¬ ((s.inp.length : Int) < 0) := by omega
  simp only [hav, h1, if_false, Bool.false_eq_true]
  have h2 : ¬ ((s.inp.length : Int) ≤ 0) := by omega
  simp only [h2, if_false]
  have hmx : (if (decide ((body.length : Int) > 0) && decide ((s.inp.length : Int) > (body.length : Int))) = true
      then (body.length : Int) else (s.inp.length : Int)) = (body.length : Int) := by
    split
    · rfl
    · rename_i hh
      simp only [Bool.and_eq_true, decide_eq_true_eq, not_and] at hh
      have := hh (by omega)
      omega
  rw [hmx]
  unfold readBlocks
  rw [iterate_blocks_exact (s.inp.length + 1) s body.length [] hpos (by omega) hc (by omega)]
  simp only [bind, Except.bind, if_true, pure, Except.pure]
  rw [hi]
  simp

theorem readBody_none (s : Sock) (h : Dic) (hcl : hasHeader h sContentLength = false)
    (hte : isChunked (header h sTransferEncoding) = false) : readBody s h = .ok (s, []) := by
  unfold readBody
  simp only [hcl, hte, Bool.false_and, Bool.false_eq_true, if_false, Bool.not_false, Bool.and_self, if_true]
  rfl

theorem hdrBlock_length (hs : List (Bytes × Bytes)) : hs.length ≤ (hdrBlock hs).length := by
  induction hs with
  | nil => simp [hdrBlock]
  | cons nv t ih =>
    simp only [hdrBlock, List.flatMap_cons, List.length_append, List.length_cons, List.length_nil] at ih ⊢
    omega

/-! ### whole requests -/

structure WfReq where
  method : Bytes
  target : Bytes
  proto : Bytes
  headers : List (Bytes × Bytes)
  body : Bytes

/-- the bytes of a request on the wire (RFC 7230 §3: request-line, header fields, empty line, body) -/
def serialize (q : WfReq) : Bytes :=
  q.method ++ 32 :: (q.target ++ 32 :: (q.proto ++ 13 :: 10 :: (hdrBlock q.headers ++ 13 :: 10 :: q.body)))

/-- the header dictionary that results from storing the fields in order under their canonical names -/
def hdrDic (hs : List (Bytes × Bytes)) : Dic := hs.foldl (fun d nv => storeHeader d nv.1 nv.2) []

theorem header_of_not_has (h : Dic) (n : Bytes) (hn : hasHeader h n = false) : header h n = [] := by
  unfold hasHeader at hn
  unfold header
  cases hf : dicFind h (capitalized n) with
  | none => rfl
  | some v => rw [hf] at hn; simp at hn

theorem not_chunked_of_no_te (h : Dic) (hn : hasHeader h sTransferEncoding = false) :
    isChunked (header h sTransferEncoding) = false := by
  rw [header_of_not_has h _ hn]; decide

structure WellFormed (q : WfReq) : Prop where
  method_ne : q.method ≠ []
  method_ok : ∀ c ∈ q.method, c ≠ 32 ∧ c ≠ 0 ∧ c ≠ 10
  target_ok : ∀ c ∈ q.target, c ≠ 32 ∧ c ≠ 0 ∧ c ≠ 10
  proto_ok : ValueOk q.proto
  line_len : q.method.length + q.target.length + q.proto.length + 3 ≤ 16001
  headers_ok : HeadersOk q.headers
  no_expect : (cstr (header (hdrDic q.headers) sExpect) == s100continue) = false
  no_te : hasHeader (hdrDic q.headers) sTransferEncoding = false
  framing : (q.body = [] ∧ hasHeader (hdrDic q.headers) sContentLength = false) ∨
            (0 < q.body.length ∧ hasHeader (hdrDic q.headers) sContentLength = true ∧
              validLength (header (hdrDic q.headers) sContentLength) = true ∧
              myatoi 32 (cstr (header (hdrDic q.headers) sContentLength)) = (q.body.length : Int))

theorem read_faithful_aux (q : WfReq) (rest : Bytes) (hw : WellFormed q) :
    ∃ t, parseTarget q.target = .ok t ∧
      AslModel.HttpParse.read { inp := serialize q ++ rest } =
        .ok ({ method := q.method, res := q.target, proto := q.proto, path := t.path, query := t.query,
               fragment := t.fragment, parts := t.parts, headers := hdrDic q.headers, body := q.body },
             { inp := rest }) := by
  obtain ⟨t, ht, _, _⟩ := parseTarget_ok q.target
  refine ⟨t, ht, ?_⟩
  obtain ⟨hp0, hp1, hp2, hp3⟩ := hw.proto_ok
  -- the request line
  have hline : (⟨serialize q ++ rest, 0, false, []⟩ : Sock).readLine =
      (q.method ++ 32 :: (q.target ++ 32 :: (q.proto ++ [13])),
       ⟨hdrBlock q.headers ++ 13 :: 10 :: (q.body ++ rest), 0, false, []⟩) := by
    apply readLine_line _ _ _ rfl rfl
    · simp [serialize]
    · intro c hcm
      simp only [List.mem_append, List.mem_cons, List.not_mem_nil, or_false] at hcm
      rcases hcm with h | rfl | h | rfl | h | rfl
      · exact (hw.method_ok c h).2.2
      · decide
      · exact (hw.target_ok c h).2.2
      · decide
      · exact hp1 c h
      · decide
    · have := hw.line_len
      simp only [List.length_append, List.length_cons, List.length_nil]; omega
  unfold AslModel.HttpParse.read
  simp only [hline]
  have hne : ((q.method ++ 32 :: (q.target ++ 32 :: (q.proto ++ [13]))).length == 0) = false := by simp
  simp only [bne_self_eq_false, hne, Bool.or_self, Bool.false_eq_true, if_false]
  rw [parseRequestLine_faithful q.method q.target (q.proto ++ [13])
    (fun c hc => ⟨(hw.method_ok c hc).1, (hw.method_ok c hc).2.1⟩)
    (fun c hc => ⟨(hw.target_ok c hc).1, (hw.target_ok c hc).2.1⟩)]
  simp only [bind, Except.bind]
  have hproto : trimmed (q.proto ++ [13]) = q.proto := by
    have := trimmed_core [] q.proto [13] (by simp) (by decide) hp0 hp2 hp3
    simpa using this
  rw [hproto]
  -- the header block
  unfold readHeaders
  rw [iterate_headers q.headers (q.body ++ rest) hw.headers_ok _ _ [] [] [] rfl rfl rfl
    (by have := hdrBlock_length q.headers; simp only [List.length_append, List.length_cons]; omega)]
  simp only []
  have hexp : expectContinue ⟨q.body ++ rest, 0, false, []⟩ (hdrDic q.headers) = ⟨q.body ++ rest, 0, false, []⟩ := by
    unfold expectContinue
    simp only [hw.no_expect, Bool.false_eq_true, if_false]
  have hfold : List.foldl (fun d nv => storeHeader d nv.fst nv.snd) [] q.headers = hdrDic q.headers := rfl
  simp only [hfold]
  simp only [hw.no_te, Bool.false_and, Bool.false_eq_true, if_false]
  rw [hexp]
  rcases hw.framing with ⟨hb, hcl⟩ | ⟨hb, hcl, hvalid, hval⟩
  · rw [readBody_none _ _ hcl (not_chunked_of_no_te _ hw.no_te)]
    simp only [ht, hb, List.nil_append]
    rfl
  · rw [readBody_content_length _ _ q.body rest rfl rfl rfl hb hcl hvalid hval (not_chunked_of_no_te _ hw.no_te)]
    simp only [ht]
    rfl

/-- `read_faithful_aux` on any healthy socket (whatever has been written to the peer so far) -/
theorem read_faithful_sock (s : Sock) (q : WfReq) (rest : Bytes) (hw : WellFormed q) (he : s.err = 0)
    (hc : s.closed = false) (hi : s.inp = serialize q ++ rest) :
    ∃ t, parseTarget q.target = .ok t ∧
      AslModel.HttpParse.read s =
        .ok ({ method := q.method, res := q.target, proto := q.proto, path := t.path, query := t.query,
               fragment := t.fragment, parts := t.parts, headers := hdrDic q.headers, body := q.body },
             { s with inp := rest }) := by
  obtain ⟨t, ht, _, _⟩ := parseTarget_ok q.target
  refine ⟨t, ht, ?_⟩
  obtain ⟨hp0, hp1, hp2, hp3⟩ := hw.proto_ok
  have hline : s.readLine =
      (q.method ++ 32 :: (q.target ++ 32 :: (q.proto ++ [13])),
       { s with inp := hdrBlock q.headers ++ 13 :: 10 :: (q.body ++ rest) }) := by
    apply readLine_line _ _ _ he hc
    · rw [hi]; simp [serialize]
    · intro c hcm
      simp only [List.mem_append, List.mem_cons, List.not_mem_nil, or_false] at hcm
      rcases hcm with h | rfl | h | rfl | h | rfl
      · exact (hw.method_ok c h).2.2
      · decide
      · exact (hw.target_ok c h).2.2
      · decide
      · exact hp1 c h
      · decide
    · have := hw.line_len
      simp only [List.length_append, List.length_cons, List.length_nil]; omega
  unfold AslModel.HttpParse.read
  simp only [hline]
  have hne : ((q.method ++ 32 :: (q.target ++ 32 :: (q.proto ++ [13]))).length == 0) = false := by simp
  have he' : (s.err != 0) = false := by simp [he]
  simp only [he', hne, Bool.or_self, Bool.false_eq_true, if_false]
  rw [parseRequestLine_faithful q.method q.target (q.proto ++ [13])
    (fun c hc => ⟨(hw.method_ok c hc).1, (hw.method_ok c hc).2.1⟩)
    (fun c hc => ⟨(hw.target_ok c hc).1, (hw.target_ok c hc).2.1⟩)]
  simp only [bind, Except.bind]
  have hproto : trimmed (q.proto ++ [13]) = q.proto := by
    have := trimmed_core [] q.proto [13] (by simp) (by decide) hp0 hp2 hp3
    simpa using this
  rw [hproto]
  unfold readHeaders
  rw [iterate_headers q.headers (q.body ++ rest) hw.headers_ok _
    { s with inp := hdrBlock q.headers ++ 13 :: 10 :: (q.body ++ rest) } [] [] [] he hc rfl
    (by have := hdrBlock_length q.headers; simp only [List.length_append, List.length_cons]; omega)]
  simp only []
  have hfold : List.foldl (fun d nv => storeHeader d nv.fst nv.snd) [] q.headers = hdrDic q.headers := rfl
  simp only [hfold]
  have hexp : ∀ x : Sock, expectContinue x (hdrDic q.headers) = x := by
    intro x
    unfold expectContinue
    simp only [hw.no_expect, Bool.false_eq_true, if_false]
  simp only [hw.no_te, Bool.false_and, Bool.false_eq_true, if_false]
  rw [hexp]
  rcases hw.framing with ⟨hb, hcl⟩ | ⟨hb, hcl, hvalid, hval⟩
  · rw [readBody_none _ _ hcl (not_chunked_of_no_te _ hw.no_te)]
    simp only [ht, hb, List.nil_append]
    rfl
  · rw [readBody_content_length { s with inp := q.body ++ rest } _ q.body rest he hc rfl hb hcl hvalid hval (not_chunked_of_no_te _ hw.no_te)]
    simp only [ht]
    rfl

/-! ### the keep-alive loop hands over every pipelined request, in order -/

/-- the request the application sees for a well-formed `q` -/
def reqOf (q : WfReq) : Req :=
  match parseTarget q.target with
  | .ok t => { method := q.method, res := q.target, proto := q.proto, path := t.path, query := t.query,
               fragment := t.fragment, parts := t.parts, headers := hdrDic q.headers, body := q.body }
  | .error _ => {}

theorem read_faithful_reqOf (s : Sock) (q : WfReq) (rest : Bytes) (hw : WellFormed q) (he : s.err = 0)
    (hc : s.closed = false) (hi : s.inp = serialize q ++ rest) :
    AslModel.HttpParse.read s = .ok (reqOf q, { s with inp := rest }) ∧
    (reqOf q).method = q.method ∧ (reqOf q).proto = q.proto := by
  obtain ⟨tg, htg, hread⟩ := read_faithful_sock s q rest hw he hc hi
  unfold reqOf
  rw [htg]
  exact ⟨hread, rfl, rfl⟩

/-- `q` is dispatched to the application and the connection is kept: not OPTIONS (answered by the server itself),
    a non-empty decoded path, and neither `Connection: close` nor HTTP/1.0 without keep-alive -/
structure Dispatched (q : WfReq) : Prop where
  not_options : (cstr q.method == sOptions) = false
  path_ne : (reqOf q).path.length ≠ 0
  keeps : ((cstr (reqOf q).proto == sHttp10 && cstr ((header (reqOf q).headers sConnection).map toLower) != sKeepAlive)
            || cstr ((header (reqOf q).headers sConnection).map toLower) == sClose) = false

theorem write_open (s : Sock) (b : Bytes) (hc : s.closed = false) :
    (s.write b).err = s.err ∧ (s.write b).closed = false ∧ (s.write b).inp = s.inp := by
  unfold Sock.write
  by_cases h1 : b.isEmpty = true
  · simp [h1, hc]
  · simp [h1, hc]

theorem respond_open (r : Req) (s : Sock) (hc : s.closed = false) :
    (respond r s).1.err = s.err ∧ (respond r s).1.closed = false ∧ (respond r s).1.inp = s.inp := by
  unfold respond
  simp only []
  split
  · exact write_open _ _ hc
  · obtain ⟨h1, h2, h3⟩ := write_open s (responseBytes (if (cstr r.proto == sHttp10) = true then sHttp10 else sHttp11)
        (setHeader (if (cstr (List.map toLower (header r.headers sConnection)) == sKeepAlive) = true then
          setHeader [] sConnection sKeepAlive else []) sContentLength (decimal (ofStr "ok").length)) []) hc
    obtain ⟨h4, h5, h6⟩ := write_open _ (ofStr "ok") h2
    exact ⟨h4.trans h1, h5, h6.trans h3⟩

theorem respond_stop (r : Req) (s : Sock) :
    (respond r s).2 = ((cstr r.proto == sHttp10 && cstr ((header r.headers sConnection).map toLower) != sKeepAlive)
            || cstr ((header r.headers sConnection).map toLower) == sClose) := by
  unfold respond
  rfl

theorem serialize_length_pos (q : WfReq) : 0 < (serialize q).length := by
  unfold serialize
  simp only [List.length_append, List.length_cons]
  omega

theorem flatMap_serialize_length (qs : List WfReq) : qs.length ≤ (qs.flatMap serialize).length := by
  induction qs with
  | nil => simp
  | cons q t ih =>
    have := serialize_length_pos q
    simp only [List.flatMap_cons, List.length_append, List.length_cons]
    omega

theorem serveStep_dispatch (s : Sock) (acc : List Req) (q : WfReq) (rest : Bytes) (hw : WellFormed q)
    (hd : Dispatched q) (he : s.err = 0) (hc : s.closed = false) (hi : s.inp = serialize q ++ rest) :
    serveStep ⟨s, acc⟩ = .ok (.next ⟨(respond (reqOf q) { s with inp := rest }).1, reqOf q :: acc⟩) := by
  obtain ⟨inp, err, closed, out⟩ := s
  simp only at he hc hi
  subst he hc
  unfold serveStep
  have hne : inp.isEmpty = false := by
    have := serialize_length_pos q
    cases hs : inp with
    | nil => rw [hs] at hi; have := congrArg List.length hi; simp at this; omega
    | cons a b => rfl
  have he' : ((0 : Nat) != 0) = false := rfl
  simp only [he', hne, Bool.or_self, Bool.false_eq_true, if_false]
  obtain ⟨hread, hrm, hrp⟩ := read_faithful_reqOf ⟨inp, 0, false, out⟩ q rest hw rfl rfl hi
  rw [hread]
  simp only [bind, Except.bind]
  have hm : ((reqOf q).method.length == 0) = false := by
    rw [hrm]
    have := hw.method_ne
    cases hmm : q.method with
    | nil => exact absurd hmm this
    | cons a b => rfl
  have hp : ((reqOf q).path.length == 0) = false := by simpa using hd.path_ne
  have hpr : ((reqOf q).proto.length == 0) = false := by
    rw [hrp]
    have := hw.proto_ok.1
    cases hmm : q.proto with
    | nil => exact absurd hmm this
    | cons a b => rfl
  simp only [he', hm, hp, hpr, Bool.or_self, Bool.false_eq_true, if_false]
  have hstop : (respond (reqOf q) ⟨rest, 0, false, out⟩).2 = false := by
    rw [respond_stop]
    exact hd.keeps
  have hopt : (cstr (reqOf q).method == sOptions) = false := by rw [hrm]; exact hd.not_options
  simp only [hstop, hopt, Bool.false_eq_true, if_false, pure, Except.pure]

theorem serveStep_eof (s : Sock) (acc : List Req) (hi : s.inp = []) :
    serveStep ⟨s, acc⟩ = .ok (.done (s, acc.reverse)) := by
  unfold serveStep
  have : s.inp.isEmpty = true := by rw [hi]; rfl
  simp only [this, Bool.or_true, if_true]
  rfl

theorem iterate_serve_pipelined (qs : List WfReq) (hq : ∀ q ∈ qs, WellFormed q ∧ Dispatched q) :
    ∀ (fuel : Nat) (s : Sock) (acc : List Req), s.err = 0 → s.closed = false → s.inp = qs.flatMap serialize →
      qs.length < fuel →
      ∃ s', iterate serveStep fuel ⟨s, acc⟩ = .ok (s', acc.reverse ++ qs.map reqOf) ∧ s'.inp = [] ∧ s'.err = 0 := by
  induction qs with
  | nil =>
    intro fuel s acc he hc hi hf
    obtain ⟨f, rfl⟩ : ∃ f, fuel = f + 1 := ⟨fuel - 1, by omega⟩
    simp only [iterate]
    rw [serveStep_eof s acc (by simpa using hi)]
    exact ⟨s, by simp [pure, Except.pure], by simpa using hi, he⟩
  | cons q t ih =>
    intro fuel s acc he hc hi hf
    obtain ⟨f, rfl⟩ : ∃ f, fuel = f + 1 := ⟨fuel - 1, by simp at hf; omega⟩
    obtain ⟨hw, hd⟩ := hq q (by simp)
    simp only [iterate]
    rw [serveStep_dispatch s acc q (t.flatMap serialize) hw hd he hc (by rw [hi]; simp)]
    simp only []
    obtain ⟨h1, h2, h3⟩ := respond_open (reqOf q) { s with inp := t.flatMap serialize } hc
    obtain ⟨s', hs', hinp, herr⟩ := ih (fun x hx => hq x (by simp [hx])) f
      (respond (reqOf q) { s with inp := t.flatMap serialize }).1 (reqOf q :: acc) (h1.trans he) h2 h3
      (by simp at hf; omega)
    refine ⟨s', ?_, hinp, herr⟩
    rw [hs']
    simp

/-! ### chunked bodies -/

theorem blocksStep_nosize (s : Sock) (m : Nat) (body : Bytes) (h0 : 0 < m) (hm : m ≤ s.inp.length)
    (hc : s.closed = false) :
    blocksStep ⟨s, m, 0, body⟩ =
      .ok (.next ⟨{ s with inp := s.inp.drop (min m 16000) }, ((m - min m 16000 : Nat) : Int), 0,
                    body ++ s.inp.take (min m 16000)⟩) := by
  unfold blocksStep
  have h1 : ¬ ((m : Int) ≤ 0) := by omega
  have h3 : ((0 : Int) != 0) = false := rfl
  simp only [h1, if_false, h3, Bool.false_eq_true]
  have hk : (min (m : Int) 16000).toNat = min m 16000 := by omega
  rw [hk, rawRead_exact s (min m 16000) (by omega) (by omega) hc]
  have hgl : (s.inp.take (min m 16000)).length = min m 16000 := by rw [List.length_take]; omega
  have h2 : ((s.inp.take (min m 16000)).length == 0) = false := by
    rw [hgl]; simp only [beq_eq_false_iff_ne, ne_eq]; omega
  have hcast : (m : Int) - (((s.inp.take (min m 16000)).length : Nat) : Int) = ((m - min m 16000 : Nat) : Int) := by
    rw [hgl]; omega
  simp only [h2, Bool.false_eq_true, if_false, pure, Except.pure, hcast]

/-- a chunk of `m` pending bytes (no Content-Length countdown) is appended whole; the loop leaves normally -/
theorem iterate_blocks_chunk :
    ∀ (fuel : Nat) (s : Sock) (m : Nat) (body : Bytes), m ≤ s.inp.length → s.closed = false → m + 1 < fuel + 1 →
      iterate blocksStep fuel ⟨s, m, 0, body⟩ =
        .ok ⟨{ s with inp := s.inp.drop m }, 0, body ++ s.inp.take m, false⟩ := by
  intro fuel
  induction fuel with
  | zero => intro s m body _ _ hf; omega
  | succ fuel ih =>
    intro s m body hm hc hf
    simp only [iterate]
    by_cases h0 : m = 0
    · subst h0
      unfold blocksStep
      simp only [Int.natCast_zero, Int.le_refl, if_true, List.drop_zero, List.take_zero, List.append_nil]
      rfl
    · rw [blocksStep_nosize s m body (by omega) hm hc]
      simp only []
      have := ih { s with inp := s.inp.drop (min m 16000) } (m - min m 16000) (body ++ s.inp.take (min m 16000))
        (by simp only [List.length_drop]; omega) hc (by omega)
      rw [this]
      have e : min m 16000 + (m - min m 16000) = m := by omega
      have hd : (s.inp.drop (min m 16000)).drop (m - min m 16000) = s.inp.drop m := by
        rw [List.drop_drop, e]
      have ht : s.inp.take (min m 16000) ++ (s.inp.drop (min m 16000)).take (m - min m 16000) = s.inp.take m := by
        conv => rhs; rw [← e, List.take_add]
      simp only [hd, List.append_assoc, ht]

/-- one chunk on the wire: a size line (any spelling the code parses to the data length), CRLF, the data, CRLF -/
structure Chunk where
  sizeLine : Bytes
  data : Bytes

def Chunk.bytes (c : Chunk) : Bytes := c.sizeLine ++ 13 :: 10 :: (c.data ++ [13, 10])

structure ChunkOk (c : Chunk) : Prop where
  no_lf : ∀ b ∈ c.sizeLine, b ≠ 10
  short : c.sizeLine.length ≤ 16000
  line_ok : chunkLineOk (c.sizeLine ++ [13]) = true
  size : hexToInt (c.sizeLine ++ [13]) = (c.data.length : Int)
  nonempty : 0 < c.data.length

theorem bodyStep_chunk (s : Sock) (body rest : Bytes) (c : Chunk) (hk : ChunkOk c) (he : s.err = 0)
    (hc : s.closed = false) (hi : s.inp = c.bytes ++ rest) :
    bodyStep true ⟨s, 0, body⟩ = .ok (.next ⟨{ s with inp := rest }, 0, body ++ c.data⟩) := by
  obtain ⟨inp, err, closed, out⟩ := s
  simp only at he hc hi
  subst he hc
  have hline : (⟨inp, 0, false, out⟩ : Sock).readLine =
      (c.sizeLine ++ [13], ⟨c.data ++ 13 :: 10 :: rest, 0, false, out⟩) := by
    apply readLine_line _ _ _ rfl rfl
    · rw [hi]; simp [Chunk.bytes]
    · intro b hb
      simp only [List.mem_append, List.mem_cons, List.not_mem_nil, or_false] at hb
      rcases hb with h | rfl
      · exact hk.no_lf b h
      · decide
    · have := hk.short; simp only [List.length_append, List.length_cons, List.length_nil]; omega
  unfold bodyStep
  have hav : ¬ ((⟨inp, 0, false, out⟩ : Sock).available < 0) := by
    unfold Sock.available; simp
  simp only [hav, if_false, if_true, hline, hk.size, hk.line_ok, Bool.not_true, Bool.false_eq_true]
  unfold readBlocks
  rw [iterate_blocks_chunk _ ⟨c.data ++ 13 :: 10 :: rest, 0, false, out⟩ c.data.length body
    (by simp only [List.length_append, List.length_cons]; omega) rfl
    (by simp only [List.length_append, List.length_cons]; omega)]
  have hd : (c.data ++ 13 :: 10 :: rest).drop c.data.length = 13 :: 10 :: rest := by
    rw [List.drop_left' rfl]
  have ht : (c.data ++ 13 :: 10 :: rest).take c.data.length = c.data := by
    rw [List.take_left' rfl]
  simp only [bind, Except.bind, Bool.false_eq_true, if_false, hd, ht]
  rw [rawRead_exact ⟨13 :: 10 :: rest, 0, false, out⟩ 2 (by omega) (by simp) rfl]
  have hn0 : ((c.data.length : Int) == 0) = false := by
    have := hk.nonempty
    simp only [beq_eq_false_iff_ne, ne_eq]; omega
  simp only [List.take_succ_cons, List.take_zero, List.length_cons, List.length_nil, Nat.lt_irrefl, if_false, hn0,
    Bool.false_eq_true, List.drop_succ_cons, List.drop_zero, pure, Except.pure, bne_self_eq_false]

/-- the terminating chunk: a size line that parses to 0, CRLF, CRLF -/
theorem bodyStep_last (s : Sock) (body rest sizeLine : Bytes) (hlf : ∀ b ∈ sizeLine, b ≠ 10)
    (hshort : sizeLine.length ≤ 16000) (hok : chunkLineOk (sizeLine ++ [13]) = true)
    (hz : hexToInt (sizeLine ++ [13]) = 0) (he : s.err = 0)
    (hc : s.closed = false) (hi : s.inp = sizeLine ++ 13 :: 10 :: 13 :: 10 :: rest) :
    bodyStep true ⟨s, 0, body⟩ = .ok (.done ({ s with inp := rest }, body)) := by
  obtain ⟨inp, err, closed, out⟩ := s
  simp only at he hc hi
  subst he hc
  have hline : (⟨inp, 0, false, out⟩ : Sock).readLine =
      (sizeLine ++ [13], ⟨13 :: 10 :: rest, 0, false, out⟩) := by
    apply readLine_line _ _ _ rfl rfl
    · rw [hi]; simp
    · intro b hb
      simp only [List.mem_append, List.mem_cons, List.not_mem_nil, or_false] at hb
      rcases hb with h | rfl
      · exact hlf b h
      · decide
    · simp only [List.length_append, List.length_cons, List.length_nil]; omega
  unfold bodyStep
  have hav : ¬ ((⟨inp, 0, false, out⟩ : Sock).available < 0) := by
    unfold Sock.available; simp
  simp only [hav, if_false, if_true, hline, hz, hok, Bool.not_true, Bool.false_eq_true]
  unfold readBlocks
  have := iterate_blocks_chunk ((13 :: 10 :: rest).length + 1) ⟨13 :: 10 :: rest, 0, false, out⟩ 0 body
    (Nat.zero_le _) rfl (by simp only [List.length_cons]; omega)
  simp only [Int.natCast_zero] at this
  rw [this]
  simp only [bind, Except.bind, Bool.false_eq_true, if_false, List.drop_zero, List.take_zero, List.append_nil]
  rw [rawRead_exact ⟨13 :: 10 :: rest, 0, false, out⟩ 2 (by omega) (by simp) rfl]
  simp only [List.take_succ_cons, List.take_zero, List.length_cons, List.length_nil, Nat.lt_irrefl, if_false,
    BEq.rfl, if_true, List.drop_succ_cons, List.drop_zero, pure, Except.pure, bne_self_eq_false, Bool.false_eq_true]

/-- a chunked body: every chunk is appended in order, the terminating chunk ends the body, the rest stays unread -/
theorem iterate_body_chunked (cs : List Chunk) (sizeLine rest : Bytes) (hcs : ∀ c ∈ cs, ChunkOk c)
    (hlf : ∀ b ∈ sizeLine, b ≠ 10) (hshort : sizeLine.length ≤ 16000) (hok : chunkLineOk (sizeLine ++ [13]) = true)
    (hz : hexToInt (sizeLine ++ [13]) = 0) :
    ∀ (fuel : Nat) (s : Sock) (body : Bytes), s.err = 0 → s.closed = false →
      s.inp = cs.flatMap Chunk.bytes ++ (sizeLine ++ 13 :: 10 :: 13 :: 10 :: rest) → cs.length < fuel →
      iterate (bodyStep true) fuel ⟨s, 0, body⟩ = .ok ({ s with inp := rest }, body ++ (cs.map Chunk.data).flatten) := by
  induction cs with
  | nil =>
    intro fuel s body he hc hi hf
    obtain ⟨f, rfl⟩ : ∃ f, fuel = f + 1 := ⟨fuel - 1, by omega⟩
    simp only [iterate]
    rw [bodyStep_last s body rest sizeLine hlf hshort hok hz he hc (by simpa using hi)]
    simp [pure, Except.pure]
  | cons c t ih =>
    intro fuel s body he hc hi hf
    obtain ⟨f, rfl⟩ : ∃ f, fuel = f + 1 := ⟨fuel - 1, by simp at hf; omega⟩
    simp only [iterate]
    rw [bodyStep_chunk s body (t.flatMap Chunk.bytes ++ (sizeLine ++ 13 :: 10 :: 13 :: 10 :: rest)) c
      (hcs c (by simp)) he hc (by rw [hi]; simp)]
    simp only []
    rw [ih (fun x hx => hcs x (by simp [hx])) f { s with inp := t.flatMap Chunk.bytes ++ (sizeLine ++ 13 :: 10 :: 13 :: 10 :: rest) }
      (body ++ c.data) he hc rfl (by simp at hf; omega)]
    simp

/-! ### whole chunked requests -/

/-- request line + header block are well formed (no framing condition yet) -/
structure HeadOk (m t p : Bytes) (hs : List (Bytes × Bytes)) : Prop where
  method_ne : m ≠ []
  method_ok : ∀ c ∈ m, c ≠ 32 ∧ c ≠ 0 ∧ c ≠ 10
  target_ok : ∀ c ∈ t, c ≠ 32 ∧ c ≠ 0 ∧ c ≠ 10
  proto_ok : ValueOk p
  line_len : m.length + t.length + p.length + 3 ≤ 16001
  headers_ok : HeadersOk hs
  no_expect : (cstr (header (hdrDic hs) sExpect) == s100continue) = false

/-- the request record `read` builds -/
def mkReq (m t p : Bytes) (tg : Target) (h : Dic) (body : Bytes) : Req :=
  { method := m, res := t, proto := p, path := tg.path, query := tg.query, fragment := tg.fragment,
    parts := tg.parts, headers := h, body := body }

/-- after a well-formed head, `read` is: read the body from what follows, then derive the path from the target -/
theorem read_head (s : Sock) (m t p : Bytes) (hs : List (Bytes × Bytes)) (tail : Bytes) (hw : HeadOk m t p hs)
    (hte : (hasHeader (hdrDic hs) sTransferEncoding && !isChunked (header (hdrDic hs) sTransferEncoding)) = false)
    (he : s.err = 0) (hc : s.closed = false)
    (hi : s.inp = m ++ 32 :: (t ++ 32 :: (p ++ 13 :: 10 :: (hdrBlock hs ++ 13 :: 10 :: tail)))) :
    AslModel.HttpParse.read s =
      (match readBody { s with inp := tail } (hdrDic hs) with
       | .error e => .error e
       | .ok b => match parseTarget t with
         | .error e => .error e
         | .ok tg => .ok (mkReq m t p tg (hdrDic hs) b.2, b.1)) := by
  obtain ⟨hp0, hp1, hp2, hp3⟩ := hw.proto_ok
  have hline : s.readLine =
      (m ++ 32 :: (t ++ 32 :: (p ++ [13])), { s with inp := hdrBlock hs ++ 13 :: 10 :: tail }) := by
    apply readLine_line _ _ _ he hc
    · rw [hi]; simp
    · intro c hcm
      simp only [List.mem_append, List.mem_cons, List.not_mem_nil, or_false] at hcm
      rcases hcm with h | rfl | h | rfl | h | rfl
      · exact (hw.method_ok c h).2.2
      · decide
      · exact (hw.target_ok c h).2.2
      · decide
      · exact hp1 c h
      · decide
    · have := hw.line_len
      simp only [List.length_append, List.length_cons, List.length_nil]; omega
  unfold AslModel.HttpParse.read
  simp only [hline]
  have hne : ((m ++ 32 :: (t ++ 32 :: (p ++ [13]))).length == 0) = false := by simp
  have he' : (s.err != 0) = false := by simp [he]
  simp only [he', hne, Bool.or_self, Bool.false_eq_true, if_false]
  rw [parseRequestLine_faithful m t (p ++ [13])
    (fun c hc => ⟨(hw.method_ok c hc).1, (hw.method_ok c hc).2.1⟩)
    (fun c hc => ⟨(hw.target_ok c hc).1, (hw.target_ok c hc).2.1⟩)]
  simp only [bind, Except.bind]
  have hproto : trimmed (p ++ [13]) = p := by
    have := trimmed_core [] p [13] (by simp) (by decide) hp0 hp2 hp3
    simpa using this
  rw [hproto]
  unfold readHeaders
  rw [iterate_headers hs tail hw.headers_ok _ { s with inp := hdrBlock hs ++ 13 :: 10 :: tail } [] [] [] he hc rfl
    (by have := hdrBlock_length hs; simp only [List.length_append, List.length_cons]; omega)]
  simp only []
  have hfold : List.foldl (fun d nv => storeHeader d nv.fst nv.snd) [] hs = hdrDic hs := rfl
  simp only [hfold]
  have hexp : ∀ x : Sock, expectContinue x (hdrDic hs) = x := by
    intro x
    unfold expectContinue
    simp only [hw.no_expect, Bool.false_eq_true, if_false]
  rw [hexp]
  simp only [hte, Bool.false_eq_true, if_false]
  cases readBody { s with inp := tail } (hdrDic hs) with
  | error e => rfl
  | ok b =>
    cases parseTarget t with
    | error e => rfl
    | ok tg => rfl

theorem readBody_chunked (s : Sock) (h : Dic) (cs : List Chunk) (sizeLine rest : Bytes) (hcs : ∀ c ∈ cs, ChunkOk c)
    (hlf : ∀ b ∈ sizeLine, b ≠ 10) (hshort : sizeLine.length ≤ 16000) (hok : chunkLineOk (sizeLine ++ [13]) = true)
    (hz : hexToInt (sizeLine ++ [13]) = 0)
    (he : s.err = 0) (hc : s.closed = false)
    (hi : s.inp = cs.flatMap Chunk.bytes ++ (sizeLine ++ 13 :: 10 :: 13 :: 10 :: rest))
    (hcl : hasHeader h sContentLength = false) (hte : isChunked (header h sTransferEncoding) = true) :
    readBody s h = .ok ({ s with inp := rest }, (cs.map Chunk.data).flatten) := by
  unfold readBody
  have hsz : myatoi 32 (cstr (header h sContentLength)) = 0 := by
    unfold header hasHeader at *
    cases hf : dicFind h (capitalized sContentLength) with
    | none => rfl
    | some v => rw [hf] at hcl; simp at hcl
  simp only [hcl, hte, Bool.false_and, Bool.false_eq_true, if_false, Bool.not_true, Bool.and_false, hsz]
  have hlen : cs.length ≤ (cs.flatMap Chunk.bytes).length := by
    clear hi hcs
    induction cs with
    | nil => simp
    | cons c t ih =>
      simp only [List.flatMap_cons, List.length_append, List.length_cons, Chunk.bytes]
      omega
  have := iterate_body_chunked cs sizeLine rest hcs hlf hshort hok hz (s.inp.length + 2) s [] he hc hi
    (by rw [hi]; simp only [List.length_append]; omega)
  rw [this]
  simp

/-- **read ∘ serialize = id for chunked framing**: a well-formed head with `Transfer-Encoding: chunked`, any number
    of chunks, the terminating chunk, then arbitrary further bytes -/
theorem read_faithful_chunked_aux (s : Sock) (m t p : Bytes) (hs : List (Bytes × Bytes)) (cs : List Chunk)
    (sizeLine rest : Bytes) (hw : HeadOk m t p hs) (hcs : ∀ c ∈ cs, ChunkOk c)
    (hlf : ∀ b ∈ sizeLine, b ≠ 10) (hshort : sizeLine.length ≤ 16000) (hok : chunkLineOk (sizeLine ++ [13]) = true)
    (hz : hexToInt (sizeLine ++ [13]) = 0)
    (hcl : hasHeader (hdrDic hs) sContentLength = false)
    (hte : isChunked (header (hdrDic hs) sTransferEncoding) = true)
    (he : s.err = 0) (hc : s.closed = false)
    (hi : s.inp = m ++ 32 :: (t ++ 32 :: (p ++ 13 :: 10 :: (hdrBlock hs ++ 13 :: 10 ::
            (cs.flatMap Chunk.bytes ++ (sizeLine ++ 13 :: 10 :: 13 :: 10 :: rest)))))) :
    ∃ tg, parseTarget t = .ok tg ∧
      AslModel.HttpParse.read s = .ok (mkReq m t p tg (hdrDic hs) (cs.map Chunk.data).flatten, { s with inp := rest }) := by
  obtain ⟨tg, htg, _, _⟩ := parseTarget_ok t
  refine ⟨tg, htg, ?_⟩
  rw [read_head s m t p hs _ hw (by rw [hte]; simp) he hc hi]
  rw [readBody_chunked { s with inp := cs.flatMap Chunk.bytes ++ (sizeLine ++ 13 :: 10 :: 13 :: 10 :: rest) }
    (hdrDic hs) cs sizeLine rest hcs hlf hshort hok hz he hc rfl hcl hte]
  simp only [htg]

/-! ### canonical chunk-size lines: lowercase hexadecimal without leading zeros -/

def hexDigitChar (d : Nat) : UInt8 := if d < 10 then UInt8.ofNat (48 + d) else UInt8.ofNat (87 + d)

/-- the hexadecimal digits of `n`, most significant first (`"%x"`) -/
def hexDigitsOf (n : Nat) : Bytes :=
  if h : n < 16 then [hexDigitChar n] else hexDigitsOf (n / 16) ++ [hexDigitChar (n % 16)]
termination_by n
decreasing_by omega

theorem hexVal_digit : ∀ d, d < 16 → hexVal (hexDigitChar d) = some d := by decide

theorem hexDigitChar_props : ∀ d, d < 16 →
    hexDigitChar d ≠ 0 ∧ hexDigitChar d ≠ 10 ∧ cIsSpace (hexDigitChar d) = false ∧ hexDigitChar d ≠ 45 ∧
    hexDigitChar d ≠ 43 ∧ hexDigitChar d ≠ 120 ∧ hexDigitChar d ≠ 88 := by decide

theorem hexDigits_of (n : Nat) : ∀ (t : Bytes) (acc : Nat),
    ∃ k, hexDigits (hexDigitsOf n ++ t) acc = hexDigits t (acc * 16 ^ k + n) := by
  induction n using Nat.strongRecOn with
  | _ n ih =>
    intro t acc
    rw [hexDigitsOf]
    by_cases h : n < 16
    · simp only [h, dite_true, List.singleton_append, hexDigits, hexVal_digit n h]
      exact ⟨1, by simp⟩
    · simp only [h, dite_false, List.append_assoc, List.singleton_append]
      obtain ⟨k, hk⟩ := ih (n / 16) (by omega) (hexDigitChar (n % 16) :: t) acc
      rw [hk]
      simp only [hexDigits, hexVal_digit (n % 16) (by omega)]
      refine ⟨k + 1, ?_⟩
      congr 1
      rw [Nat.pow_succ, ← Nat.mul_assoc, Nat.add_mul, Nat.add_assoc]
      congr 1
      omega

theorem hexDigitsOf_ne_nil (n : Nat) : hexDigitsOf n ≠ [] := by
  rw [hexDigitsOf]
  by_cases h : n < 16 <;> simp [h]

theorem hexDigitsOf_mem (n : Nat) : ∀ c ∈ hexDigitsOf n, ∃ d, d < 16 ∧ c = hexDigitChar d := by
  induction n using Nat.strongRecOn with
  | _ n ih =>
    intro c hc
    rw [hexDigitsOf] at hc
    by_cases h : n < 16
    · simp only [h, dite_true, List.mem_singleton] at hc
      exact ⟨n, h, hc⟩
    · simp only [h, dite_false, List.mem_append, List.mem_singleton] at hc
      rcases hc with hc | hc
      · exact ih (n / 16) (by omega) c hc
      · exact ⟨n % 16, by omega, hc⟩

theorem strtoul16_plain (d0 : UInt8) (r : Bytes) (h0 : cIsSpace d0 = false) (h1 : d0 ≠ 45) (h2 : d0 ≠ 43)
    (hx : ∀ x t, r = x :: t → x ≠ 120 ∧ x ≠ 88) (hv : hexDigits (d0 :: r) 0 < 2 ^ 64) :
    strtoul16 (d0 :: r) = hexDigits (d0 :: r) 0 := by
  unfold strtoul16
  have hdw : (d0 :: r).dropWhile cIsSpace = d0 :: r := dropWhile_head_false _ _ _ h0
  have hsign : stripSign (d0 :: r) = (false, d0 :: r) := by
    unfold stripSign
    split
    · rename_i t heq; simp only [List.cons.injEq] at heq; exact absurd heq.1 h1
    · rename_i t heq; simp only [List.cons.injEq] at heq; exact absurd heq.1 h2
    · rfl
  have hpre : strip0x (d0 :: r) = d0 :: r := by
    unfold strip0x
    split
    · rename_i x h t heq
      simp only [List.cons.injEq] at heq
      obtain ⟨hx1, hx2⟩ := hx x (h :: t) heq.2
      have : (x == 120 || x == 88) = false := by simp [hx1, hx2]
      simp only [this, Bool.false_and, Bool.false_eq_true, if_false]
      rw [heq.1, heq.2]
    · rfl
  simp only [hdw, hsign, hpre]
  have : ¬ (hexDigits (d0 :: r) 0 ≥ 2 ^ 64) := by omega
  simp only [this, if_false, Bool.false_eq_true]

theorem wrap32_small (n : Nat) (h : n < 2 ^ 31) : wrap 32 ((n % 2 ^ 32 : Nat) : Int) = (n : Int) := by
  unfold wrap
  have e1 : (2 : Int) ^ (32 - 1) = 2147483648 := by decide
  have e2 : (2 : Int) ^ 32 = 4294967296 := by decide
  have e3 : (2 : Nat) ^ 32 = 4294967296 := by decide
  have e4 : (2 : Nat) ^ 31 = 2147483648 := by decide
  rw [e1, e2, e3]
  rw [e4] at h
  omega

/-- the size line `"%x" CR` of a chunk of `n < 2^31` bytes parses to `n` -/
theorem hexDigitsOf_no_nul (n : Nat) : ∀ c ∈ hexDigitsOf n ++ [13], c ≠ 0 := by
  intro c hc
  rcases List.mem_append.mp hc with hc | hc
  · obtain ⟨d, hd, rfl⟩ := hexDigitsOf_mem n c hc
    exact (hexDigitChar_props d hd).1
  · simp at hc; rw [hc]; decide

theorem strtoul16_hexDigitsOf (n : Nat) (h : n < 2 ^ 31) : strtoul16 (hexDigitsOf n ++ [13]) = n := by
  have hmem := hexDigitsOf_mem n
  obtain ⟨d0, ds, hds⟩ := List.exists_cons_of_ne_nil (hexDigitsOf_ne_nil n)
  obtain ⟨k, hk⟩ := hexDigits_of n [13] 0
  have hval : hexDigits (hexDigitsOf n ++ [13]) 0 = n := by
    rw [hk]; simp [hexDigits, hexVal]
  obtain ⟨e0, he0, rfl⟩ := hmem d0 (by rw [hds]; simp)
  have hp := hexDigitChar_props e0 he0
  have hval' : hexDigits (hexDigitChar e0 :: (ds ++ [13])) 0 = n := by
    rw [← List.cons_append, ← hds]; exact hval
  rw [hds, List.cons_append]
  rw [strtoul16_plain _ _ hp.2.2.1 hp.2.2.2.1 hp.2.2.2.2.1 ?_ ?_]
  · exact hval'
  · intro x t hxt
    cases ds with
    | nil =>
      simp only [List.nil_append, List.cons.injEq] at hxt
      rw [← hxt.1]; decide
    | cons d1 ds' =>
      simp only [List.cons_append, List.cons.injEq] at hxt
      obtain ⟨e1, he1, hd1⟩ := hmem d1 (by rw [hds]; simp)
      rw [← hxt.1, hd1]
      exact ⟨(hexDigitChar_props e1 he1).2.2.2.2.2.1, (hexDigitChar_props e1 he1).2.2.2.2.2.2⟩
  · rw [hval']
    have : (2 : Nat) ^ 31 < 2 ^ 64 := by decide
    omega

theorem hexToInt_hexDigitsOf (n : Nat) (h : n < 2 ^ 31) : hexToInt (hexDigitsOf n ++ [13]) = (n : Int) := by
  unfold hexToInt
  rw [cstr_of_no_nul _ (hexDigitsOf_no_nul n), strtoul16_hexDigitsOf n h]
  exact wrap32_small n h

theorem hexDigitsOf_length (k : Nat) : ∀ n, n < 16 ^ (k + 1) → (hexDigitsOf n).length ≤ k + 1 := by
  induction k with
  | zero =>
    intro n hn
    rw [hexDigitsOf]
    have : n < 16 := by simpa using hn
    simp [this]
  | succ k ih =>
    intro n hn
    rw [hexDigitsOf]
    by_cases h : n < 16
    · simp [h]
    · simp only [h, dite_false, List.length_append, List.length_cons, List.length_nil]
      have : n / 16 < 16 ^ (k + 1) := by
        rw [Nat.pow_succ] at hn
        omega
      have := ih (n / 16) this
      omega

theorem chunkLineOk_zero : chunkLineOk ([48] ++ [13]) = true := by decide
theorem hexToInt_zero : hexToInt ([48] ++ [13]) = 0 := by decide

theorem takeWhile_append_stop (p : UInt8 → Bool) (l : Bytes) (x : UInt8) (r : Bytes) (hl : ∀ c ∈ l, p c = true)
    (hx : p x = false) : (l ++ x :: r).takeWhile p = l := by
  induction l with
  | nil => simp [hx]
  | cons a t ih =>
    have ha : p a = true := hl a (by simp)
    rw [List.cons_append, tw_pos ha, ih (fun c hc => hl c (by simp [hc]))]

/-- the canonical size line `"%x" CR` of a chunk of `n < 2^31` bytes passes the reader's check -/
theorem chunkLineOk_hexDigitsOf (n : Nat) (h : n < 2 ^ 31) : chunkLineOk (hexDigitsOf n ++ [13]) = true := by
  unfold chunkLineOk
  simp only []
  rw [cstr_of_no_nul _ (hexDigitsOf_no_nul n)]
  have hall : ∀ c ∈ hexDigitsOf n, (hexVal c).isSome = true := by
    intro c hc
    obtain ⟨d, hd, rfl⟩ := hexDigitsOf_mem n c hc
    rw [hexVal_digit d hd]; rfl
  rw [takeWhile_append_stop (fun c => (hexVal c).isSome) _ 13 [] hall (by decide)]
  have hlen : (hexDigitsOf n).length ≤ 8 := by
    have : n < 16 ^ (7 + 1) := by
      have : (2 : Nat) ^ 31 < 16 ^ 8 := by decide
      omega
    exact hexDigitsOf_length 7 n this
  have hpos : 1 ≤ (hexDigitsOf n).length := by
    cases hd : hexDigitsOf n with
    | nil => exact absurd hd (hexDigitsOf_ne_nil n)
    | cons a t => simp
  rw [List.drop_left' rfl, strtoul16_hexDigitsOf n h]
  have e31 : (2 : Nat) ^ 31 = 2147483648 := by decide
  have e32 : (2 : Nat) ^ 32 = 4294967296 := by decide
  rw [e31] at h
  rw [e32]
  have hmod : n % 4294967296 ≤ 2147483647 := by omega
  simp [hpos, hlen, hmod]

/-- the canonical chunked encoding of a list of chunks: `"%x" CRLF data CRLF` each, then `0 CRLF CRLF` -/
def chunkedBody (chunks : List Bytes) : Bytes :=
  chunks.flatMap (fun d => hexDigitsOf d.length ++ 13 :: 10 :: (d ++ [13, 10])) ++ [48, 13, 10, 13, 10]

theorem read_faithful_chunked_canon (m t p : Bytes) (hs : List (Bytes × Bytes)) (chunks : List Bytes) (rest : Bytes)
    (hw : HeadOk m t p hs) (hch : ∀ d ∈ chunks, 0 < d.length ∧ d.length < 2 ^ 31)
    (hcl : hasHeader (hdrDic hs) sContentLength = false)
    (hte : isChunked (header (hdrDic hs) sTransferEncoding) = true) :
    ∃ tg, parseTarget t = .ok tg ∧
      AslModel.HttpParse.read
          { inp := m ++ 32 :: (t ++ 32 :: (p ++ 13 :: 10 :: (hdrBlock hs ++ 13 :: 10 :: (chunkedBody chunks ++ rest)))) } =
        .ok (mkReq m t p tg (hdrDic hs) chunks.flatten, { inp := rest }) := by
  let cs : List Chunk := chunks.map fun d => ⟨hexDigitsOf d.length, d⟩
  have hcs : ∀ c ∈ cs, ChunkOk c := by
    intro c hc
    obtain ⟨d, hd, rfl⟩ := List.mem_map.mp hc
    obtain ⟨h0, h31⟩ := hch d hd
    refine ⟨?_, ?_, chunkLineOk_hexDigitsOf _ h31, hexToInt_hexDigitsOf _ h31, h0⟩
    · intro b hb
      obtain ⟨e, he, rfl⟩ := hexDigitsOf_mem _ b hb
      exact (hexDigitChar_props e he).2.1
    · have : d.length < 16 ^ (7 + 1) := by
        have : (2 : Nat) ^ 31 < 16 ^ 8 := by decide
        omega
      have := hexDigitsOf_length 7 d.length this
      simp only at this ⊢
      omega
  have hbytes : cs.flatMap Chunk.bytes = chunks.flatMap (fun d => hexDigitsOf d.length ++ 13 :: 10 :: (d ++ [13, 10])) := by
    simp only [cs, List.flatMap_map, Chunk.bytes]
  have hdata : (cs.map Chunk.data).flatten = chunks.flatten := by
    simp only [cs, List.map_map]
    congr 1
    exact List.map_id' _
  have := read_faithful_chunked_aux { inp := m ++ 32 :: (t ++ 32 :: (p ++ 13 :: 10 :: (hdrBlock hs ++ 13 :: 10 :: (chunkedBody chunks ++ rest)))) }
    m t p hs cs [48] rest hw hcs (by decide) (by decide) chunkLineOk_zero hexToInt_zero hcl hte rfl rfl
    (by simp only [hbytes, chunkedBody, List.append_assoc, List.cons_append, List.nil_append])
  rw [hdata] at this
  exact this

/-! ## history: why the totality theorems were false before the repairs (not part of the obligations) -/

/-- the non-chunked pass of `readBody`'s outer loop as it was before fix c3aed7a: `maxToRead = available()` with
    no `maxToRead = 1` when the peer has closed -/
def bodyStepBeforeFix (x : BodySt) : M (Step BodySt (Sock × Bytes)) :=
  let av := x.s.available
  if av < 0 then pure (.done (x.s, x.body))
  else do
    let b ← readBlocks x.s av x.size x.body
    if b.ret then pure (.done (b.s, b.body)) else pure (.next ⟨b.s, b.size, b.body⟩)

/-- `Content-Length: 100`, nothing left to read, peer closed: every pass leaves the state unchanged, so no amount of
    fuel ends the loop (the 100 % CPU spin of defect #14) -/
theorem readBody_spin_before_fix (fuel : Nat) :
    iterate bodyStepBeforeFix fuel ⟨{ inp := [] }, 100, []⟩ = .error .spin := by
  induction fuel with
  | zero => rfl
  | succ f ih =>
    have hstep : bodyStepBeforeFix ⟨{ inp := [] }, 100, []⟩ = .ok (.next ⟨{ inp := [] }, 100, []⟩) := by rfl
    simp only [iterate, hstep]
    exact ih


end AslProofs.HttpParse
