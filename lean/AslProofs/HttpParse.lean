import AslModel.HttpParse
/-!
# Helper lemmas for C09 (model: `AslModel/HttpParse.lean`).  Core Lean only.
-/
set_option linter.unusedVariables false
namespace AslProofs.HttpParse
open AslModel.HttpParse

/-! ## the `M` monad -/

theorem bind_ok {α β} {x : M α} {a : α} (f : α → M β) (h : x = .ok a) : (x >>= f) = f a := by
  subst h; rfl

theorem bind_eq_ok {α β} {x : M α} {f : α → M β} {b : β} (h : (x >>= f) = .ok b) :
    ∃ a, x = .ok a ∧ f a = .ok b := by
  cases x with
  | error e => simp [bind, Except.bind] at h
  | ok a => exact ⟨a, rfl, h⟩

/-! ## C strings and indices -/

theorem tw_pos {p : UInt8 → Bool} {a : UInt8} {t : Bytes} (h : p a = true) :
    (a :: t).takeWhile p = a :: t.takeWhile p := by simp [h]
theorem tw_neg {p : UInt8 → Bool} {a : UInt8} {t : Bytes} (h : p a = false) :
    (a :: t).takeWhile p = [] := by simp [h]

theorem cstr_length_le (s : Bytes) : (cstr s).length ≤ s.length := by
  unfold cstr
  induction s with
  | nil => simp
  | cons a t ih =>
    simp only [List.takeWhile]
    split <;> simp <;> omega

theorem cstr_prefix (s : Bytes) : ∃ r, s = cstr s ++ r := by
  unfold cstr
  exact ⟨s.dropWhile (· != 0), (List.takeWhile_append_dropWhile).symm⟩

theorem cstr_no_nul (s : Bytes) : ∀ c ∈ cstr s, c ≠ 0 := by
  unfold cstr
  induction s with
  | nil => simp
  | cons a t ih =>
    by_cases ha : a = 0
    · simp [ha]
    · have : (a != 0) = true := by simpa using ha
      rw [tw_pos (p := fun x => x != 0) this]
      intro c hc
      rcases List.mem_cons.mp hc with rfl | hc
      · exact ha
      · exact ih c hc

theorem cstr_of_no_nul (s : Bytes) (h : ∀ c ∈ s, c ≠ 0) : cstr s = s := by
  unfold cstr
  induction s with
  | nil => rfl
  | cons a t ih =>
    have ha : (a != 0) = true := by simpa using h a (by simp)
    rw [tw_pos (p := fun x => x != 0) ha, ih (fun c hc => h c (by simp [hc]))]

theorem cstr_idem (s : Bytes) : cstr (cstr s) = cstr s := cstr_of_no_nul _ (cstr_no_nul s)

theorem at?_ok (s : Bytes) (i : Nat) (h : i ≤ s.length) : ∃ c, at? s i = .ok c := by
  unfold at?
  by_cases h1 : i < s.length
  · simp only [h1, if_true]; exact ⟨_, rfl⟩
  · have : i = s.length := by omega
    subst this
    simp only [Nat.lt_irrefl, if_false, if_true]; exact ⟨_, rfl⟩

theorem substring?_ok (s : Bytes) (i j : Nat) (h1 : i ≤ j) (h2 : j ≤ s.length) :
    substring? s i j = .ok ((s.drop i).take (j - i)) := by
  unfold substring?
  simp only [h1, h2, and_self, if_true]; rfl

theorem substring?_eq_ok {s : Bytes} {i j : Nat} {r : Bytes} (h : substring? s i j = .ok r) :
    r = (s.drop i).take (j - i) ∧ i ≤ j ∧ j ≤ s.length := by
  unfold substring? at h
  split at h
  · rename_i hc
    simp only [pure, Except.pure, Except.ok.injEq] at h
    exact ⟨h.symm, hc.1, hc.2⟩
  · simp [throw, throwThe, MonadExceptOf.throw] at h

theorem findByte_some {c : UInt8} {l : Bytes} {k : Nat} (h : findByte c l = some k) :
    k < l.length ∧ l.getD k 0 = c ∧ (l.take k).all (· != c) = true := by
  induction l generalizing k with
  | nil => simp [findByte] at h
  | cons x t ih =>
    unfold findByte at h
    by_cases hx : x == c
    · simp only [hx, if_true, Option.some.injEq] at h
      subst h
      simp at hx
      simp [hx]
    · simp only [hx, Bool.false_eq_true, if_false, Option.map_eq_some_iff] at h
      obtain ⟨k', hk', rfl⟩ := h
      obtain ⟨h1, h2, h3⟩ := ih hk'
      refine ⟨by simp; omega, by simpa using h2, ?_⟩
      simp only [List.take_succ_cons, List.all_cons, h3, Bool.and_true]
      simpa [bne] using hx

theorem findByte_none {c : UInt8} {l : Bytes} (h : findByte c l = none) : ∀ x ∈ l, x ≠ c := by
  induction l with
  | nil => simp
  | cons x t ih =>
    unfold findByte at h
    by_cases hx : x == c
    · simp [hx] at h
    · simp only [hx, Bool.false_eq_true, if_false, Option.map_eq_none_iff] at h
      intro y hy
      rcases List.mem_cons.mp hy with rfl | hy
      · simpa using hx
      · exact ih h y hy

/-- `indexOf(c, i0)` never faults when `i0` points into the string or at its terminator; a hit lies
    inside the string, at or after `i0` -/
theorem indexOfByteFrom?_ok (s : Bytes) (c : UInt8) (i0 : Nat) (h : i0 ≤ s.length) :
    ∃ r, indexOfByteFrom? s c i0 = .ok r ∧ ∀ k, r = some k → i0 ≤ k ∧ k < s.length := by
  unfold indexOfByteFrom?
  simp only [h, if_true, pure, Except.pure]
  refine ⟨_, rfl, ?_⟩
  intro k hk
  simp only [Option.map_eq_some_iff] at hk
  obtain ⟨k', hk', rfl⟩ := hk
  have h1 := (findByte_some hk').1
  have h2 := cstr_length_le (s.drop i0)
  simp only [List.length_drop] at h2
  omega

theorem indexOfSubFrom?_ok (s pat : Bytes) (i0 : Nat) (h : i0 ≤ s.length) :
    ∃ r, indexOfSubFrom? s pat i0 = .ok r := by
  unfold indexOfSubFrom?
  simp [h, pure, Except.pure]


theorem at?_lt (s : Bytes) (i : Nat) (h : i < s.length) : at? s i = .ok (s.getD i 0) := by
  unfold at?; simp only [h, if_true]; rfl

theorem at?_len (s : Bytes) : at? s s.length = .ok 0 := by
  unfold at?; simp only [Nat.lt_irrefl, if_false, if_true]; rfl

theorem at?_zero (s : Bytes) : at? s 0 = .ok (s.getD 0 0) := by
  cases s with
  | nil => rfl
  | cons a t => exact at?_lt _ 0 (by simp)

theorem drop_eq_getD_cons (s : Bytes) (i : Nat) (h : i < s.length) : s.drop i = s.getD i 0 :: s.drop (i + 1) := by
  rw [List.drop_eq_getElem_cons h]
  simp [List.getD, h]

/-! ## fuel-indexed loops -/

/-- a loop whose every pass either leaves with a result satisfying `Post` or strictly decreases a
    measure (keeping an invariant) ends within `μ x + 1` passes, without a fault -/
theorem iterate_ok {σ ρ : Type} (step : σ → M (Step σ ρ)) (μ : σ → Nat) (Inv : σ → Prop) (Post : ρ → Prop)
    (hstep : ∀ x, Inv x → (∃ r, step x = .ok (.done r) ∧ Post r) ∨
                           (∃ y, step x = .ok (.next y) ∧ Inv y ∧ μ y < μ x)) :
    ∀ fuel x, Inv x → μ x < fuel → ∃ r, iterate step fuel x = .ok r ∧ Post r := by
  intro fuel
  induction fuel with
  | zero => intro x _ h; omega
  | succ fuel ih =>
    intro x hx hf
    rcases hstep x hx with ⟨r, hr, hp⟩ | ⟨y, hy, hiy, hlt⟩
    · exact ⟨r, by simp only [iterate, hr]; rfl, hp⟩
    · obtain ⟨r, hr, hp⟩ := ih y hiy (by omega)
      exact ⟨r, by simp only [iterate, hy]; exact hr, hp⟩

/-! ## `Url::decode` -/

/-- percent-decoding as a function of the text (RFC 3986 §2.1 for valid escapes; a truncated escape at
    the end stops the output; the two bytes after `%` always go through `strtoul`) -/
def urlDecodeSpec : Bytes → Bytes
  | [] => []
  | c :: t =>
    if c == 37 then
      match t with
      | a :: b :: t' => hexByte a b :: urlDecodeSpec t'
      | [a] => [hexByte a 0]
      | [] => []
    else c :: urlDecodeSpec t

theorem urlDecodeSpec_ne (c : UInt8) (t : Bytes) (h : (c == 37) = false) :
    urlDecodeSpec (c :: t) = c :: urlDecodeSpec t := by
  cases t with
  | nil => simp [urlDecodeSpec, h]
  | cons a t' => cases t' <;> simp [urlDecodeSpec, h]

theorem decodeStep_ok (q0 : Bytes) (x : DecSt)
    (hx : x.acc.reverse ++ urlDecodeSpec (q0.drop x.i) = urlDecodeSpec q0) :
    (∃ r, decodeStep q0 x = .ok (.done r) ∧ r = urlDecodeSpec q0) ∨
    (∃ y, decodeStep q0 x = .ok (.next y) ∧ (y.acc.reverse ++ urlDecodeSpec (q0.drop y.i) = urlDecodeSpec q0) ∧
      q0.length - y.i < q0.length - x.i) := by
  unfold decodeStep
  by_cases hi : x.i < q0.length
  · simp only [hi, if_true]
    rw [at?_lt _ _ hi]
    simp only [bind, Except.bind]
    rw [drop_eq_getD_cons _ _ hi] at hx
    by_cases hc : (q0.getD x.i 0 == 37) = true
    · simp only [hc, if_true]
      by_cases h2 : x.i + 2 > q0.length
      · left
        simp only [h2, if_true]
        refine ⟨_, rfl, ?_⟩
        have : q0.drop (x.i + 1) = [] := by
          apply List.drop_eq_nil_of_le; omega
        rw [this] at hx
        simp only [urlDecodeSpec, hc, if_true, List.append_nil] at hx
        exact hx
      · right
        simp only [h2, if_false]
        have h1 : x.i + 1 < q0.length := by omega
        rw [at?_lt _ _ h1]
        rw [drop_eq_getD_cons _ _ h1] at hx
        by_cases h3 : x.i + 2 < q0.length
        · rw [at?_lt _ _ h3]
          simp only [Except.bind, pure, Except.pure]
          refine ⟨_, rfl, ?_, by simp only []; omega⟩
          rw [drop_eq_getD_cons _ _ h3] at hx
          simp only [urlDecodeSpec, hc, if_true] at hx
          simp only [List.reverse_cons, List.append_assoc, List.singleton_append]
          exact hx
        · have h4 : x.i + 2 = q0.length := by omega
          rw [h4, at?_len]
          simp only [Except.bind, pure, Except.pure]
          refine ⟨_, rfl, ?_, by simp only []; omega⟩
          have : q0.drop (x.i + 1 + 1) = [] := by
            apply List.drop_eq_nil_of_le; omega
          rw [this] at hx
          simp only [urlDecodeSpec, hc, if_true] at hx
          have h5 : q0.drop (x.i + 3) = [] := by
            apply List.drop_eq_nil_of_le; omega
          simp only [h5, urlDecodeSpec, List.append_nil, List.reverse_cons, List.append_assoc, List.singleton_append]
          exact hx
    · right
      have hc' : (q0.getD x.i 0 == 37) = false := by simpa using hc
      simp only [hc', Bool.false_eq_true, if_false, pure, Except.pure]
      refine ⟨_, rfl, ?_, by simp only []; omega⟩
      rw [urlDecodeSpec_ne _ _ hc'] at hx
      simp only [List.reverse_cons, List.append_assoc, List.singleton_append]
      exact hx
  · left
    simp only [hi, if_false, pure, Except.pure]
    refine ⟨_, rfl, ?_⟩
    have : q0.drop x.i = [] := by
      apply List.drop_eq_nil_of_le; omega
    rw [this] at hx
    simpa [urlDecodeSpec] using hx

theorem urlDecode_eq_spec (q0 : Bytes) : urlDecode q0 = .ok (urlDecodeSpec q0) := by
  obtain ⟨r, hr, hp⟩ := iterate_ok (decodeStep q0) (fun x => q0.length - x.i)
    (fun x => x.acc.reverse ++ urlDecodeSpec (q0.drop x.i) = urlDecodeSpec q0) (fun r => r = urlDecodeSpec q0)
    (fun x hx => decodeStep_ok q0 x hx) (q0.length + 1) ⟨0, []⟩ (by simp) (by simp)
  unfold urlDecode
  rw [hr, hp]


/-! ## `..` removal -/

theorem rmDD_head_ne (s : Bytes) (h : s.head? ≠ some dot) : (rmDD s).head? ≠ some dot := by
  match s with
  | [] => simp [rmDD]
  | [a] => simpa [rmDD] using h
  | a :: b :: t =>
    have ha : a ≠ dot := by simpa using h
    simp [rmDD, ha]

/-- leftmost non-overlapping removal of ".." leaves no ".." -/
theorem rmDD_noDD (s : Bytes) : hasDD (rmDD s) = false := by
  fun_induction rmDD s with
  | case1 a b t h ih => exact ih
  | case2 a b t h ih =>
    cases hr : rmDD (b :: t) with
    | nil => simp [hasDD]
    | cons c r =>
      rw [hr] at ih
      simp only [hasDD, ih, Bool.or_false]
      by_cases ha : a = dot
      · have hb : b ≠ dot := fun hb => h ⟨ha, hb⟩
        have : (rmDD (b :: t)).head? ≠ some dot := rmDD_head_ne (b :: t) (by simpa using hb)
        rw [hr] at this
        have hc : c ≠ dot := by simpa using this
        simp [hc]
      · simp [ha]
  | case3 a => simp [hasDD]
  | case4 => simp [hasDD]

/-- `hasDD` is the bytewise scan: no index carries two consecutive dots -/
theorem hasDD_false_iff (p : Bytes) :
    hasDD p = false ↔ ∀ i, i + 1 < p.length → ¬ (p.getD i 0 = 46 ∧ p.getD (i + 1) 0 = 46) := by
  induction p with
  | nil => simp [hasDD]
  | cons a t ih =>
    cases t with
    | nil => simp [hasDD]
    | cons b t' =>
      simp only [hasDD, Bool.or_eq_false_iff, ih]
      constructor
      · rintro ⟨h1, h2⟩ i hi
        cases i with
        | zero =>
          simp only [List.getD_cons_zero, List.getD_cons_succ]
          intro ⟨ha, hb⟩
          simp [ha, hb, dot] at h1
        | succ j =>
          have := h2 j (by simp at hi ⊢; omega)
          simpa [List.getD_cons_succ] using this
      · intro h
        refine ⟨?_, ?_⟩
        · have := h 0 (by simp)
          simp only [List.getD_cons_zero, List.getD_cons_succ] at this
          by_cases ha : a = 46
          · by_cases hb : b = 46
            · exact absurd ⟨ha, hb⟩ this
            · simp [dot, hb]
          · simp [dot, ha]
        · intro i hi
          have := h (i + 1) (by simp at hi ⊢; omega)
          simpa [List.getD_cons_succ] using this

theorem sanitize_ok (raw : Bytes) : ∃ p, sanitize raw = .ok p ∧ hasDD p = false ∧ (∀ c ∈ p, c ≠ 0) := by
  unfold sanitize
  rw [urlDecode_eq_spec]
  simp only [bind, Except.bind, pure, Except.pure]
  refine ⟨_, rfl, ?_, ?_⟩
  · by_cases h : hasDD (cstr (urlDecodeSpec raw)) = true
    · simp only [h, if_true]; exact rmDD_noDD _
    · simp only [h, if_false]; simpa using h
  · have hsub : ∀ l : Bytes, ∀ c ∈ rmDD l, c ∈ l := by
      intro l
      fun_induction rmDD l with
      | case1 a b t h ih => intro c hc; simp [ih c hc]
      | case2 a b t h ih =>
        intro c hc
        rcases List.mem_cons.mp hc with rfl | hc
        · simp
        · exact List.mem_cons_of_mem _ (ih c hc)
      | case3 a => intro c hc; exact hc
      | case4 => intro c hc; exact hc
    by_cases h : hasDD (cstr (urlDecodeSpec raw)) = true
    · simp only [h, if_true]
      intro c hc
      exact cstr_no_nul _ c (hsub _ c hc)
    · simp only [h, if_false]
      exact cstr_no_nul _

/-! ## request line and target: the index computations are in bounds -/

theorem splitQuery_ok (res : Bytes) (q : Option Nat) (pathend : Nat) (fragment : Bytes)
    (hp : pathend ≤ res.length) : ∃ t, splitQuery res q pathend fragment = .ok t := by
  unfold splitQuery
  cases q with
  | none =>
    simp only []
    rw [substring?_ok _ _ _ (Nat.zero_le _) hp]
    exact ⟨_, rfl⟩
  | some qv =>
    simp only []
    by_cases hc : qv > 0 ∧ qv < pathend
    · simp only [hc, and_self, if_true]
      rw [substring?_ok _ _ _ (by omega) hp]
      simp only [bind, Except.bind]
      rw [substring?_ok _ _ _ (Nat.zero_le _) (by omega)]
      exact ⟨_, rfl⟩
    · simp only [hc, if_false]
      rw [substring?_ok _ _ _ (Nat.zero_le _) hp]
      exact ⟨_, rfl⟩

theorem splitFragment_ok (res : Bytes) (h q : Option Nat) (hh : ∀ k, h = some k → k < res.length) :
    ∃ t, splitFragment res h q = .ok t := by
  unfold splitFragment
  cases h with
  | none => exact splitQuery_ok _ _ _ _ (Nat.le_refl _)
  | some hv =>
    have := hh hv rfl
    simp only []
    by_cases hc : hv > 0
    · simp only [hc, if_true]
      rw [substring?_ok _ _ _ (by omega) (Nat.le_refl _)]
      simp only [bind, Except.bind]
      exact splitQuery_ok _ _ _ _ (by omega)
    · simp only [hc, if_false]
      exact splitQuery_ok _ _ _ _ (Nat.le_refl _)

theorem splitTarget_ok (res : Bytes) : ∃ t, splitTarget res = .ok t := by
  unfold splitTarget
  obtain ⟨h, hh, hhb⟩ := indexOfByteFrom?_ok res 35 0 (Nat.zero_le _)
  obtain ⟨q, hq, hqb⟩ := indexOfByteFrom?_ok res 63 0 (Nat.zero_le _)
  rw [hh]
  simp only [bind, Except.bind]
  rw [hq]
  simp only []
  exact splitFragment_ok _ _ _ (fun k hk => (hhb k hk).2)

theorem parseTarget_ok (res : Bytes) : ∃ t, parseTarget res = .ok t ∧ hasDD t.path = false ∧ (∀ c ∈ t.path, c ≠ 0) := by
  unfold parseTarget
  obtain ⟨t, ht⟩ := splitTarget_ok res
  obtain ⟨p, hp, hdd, hnul⟩ := sanitize_ok t.1
  rw [ht]
  simp only [bind, Except.bind]
  rw [hp]
  exact ⟨_, rfl, hdd, hnul⟩

theorem parseRequestLine_ok (cmd : Bytes) : ∃ r, parseRequestLine cmd = .ok r := by
  unfold parseRequestLine
  obtain ⟨i?, hi, hib⟩ := indexOfByteFrom?_ok cmd 32 0 (Nat.zero_le _)
  rw [hi]
  simp only [bind, Except.bind]
  cases i? with
  | none => exact ⟨_, rfl⟩
  | some i =>
    have hb := hib i rfl
    simp only []
    obtain ⟨j?, hj, hjb⟩ := indexOfByteFrom?_ok cmd 32 (i + 1) (by omega)
    rw [hj]
    simp only []
    cases j? with
    | none => exact ⟨_, rfl⟩
    | some j =>
      have hb2 := hjb j rfl
      simp only []
      rw [substring?_ok _ _ _ (Nat.zero_le _) (by omega)]
      simp only []
      rw [substring?_ok _ _ _ (by omega) (by omega)]
      simp only []
      rw [substring?_ok _ _ _ (by omega) (Nat.le_refl _)]
      exact ⟨_, rfl⟩


/-! ## the socket: every operation consumes input from the front and never gives bytes back -/

theorem readLineLoop_len (inp acc : Bytes) (n : Nat) :
    (readLineLoop inp acc n).2.1.length ≤ inp.length ∧
    (inp ≠ [] → (readLineLoop inp acc n).2.1.length < inp.length) := by
  induction inp generalizing acc n with
  | nil => simp [readLineLoop]
  | cons c t ih =>
    unfold readLineLoop
    by_cases h1 : (c == 10) = true
    · simp [h1]
    · by_cases h2 : n > 16000
      · simp [h1, h2]
      · simp only [h1, h2, if_false, Bool.false_eq_true]
        have := (ih (c :: acc) (n + 1)).1
        simp only [List.length_cons, ne_eq, reduceCtorEq, not_false_eq_true, forall_const]
        omega

/-- a socket on which reading can make progress -/
def Live (s : Sock) : Prop := s.err = 0 ∧ s.closed = false ∧ s.inp ≠ []

theorem readLine_facts (s : Sock) :
    (s.readLine).2.inp.length ≤ s.inp.length ∧
    (Live s → (s.readLine).2.inp.length < s.inp.length) ∧
    (¬ Live s → (s.readLine).1 = []) := by
  unfold Live Sock.readLine Sock.available Sock.waitInput Sock.readLineBody
  by_cases hc : s.closed = true
  · simp [hc]
  · have hc' : s.closed = false := by simpa using hc
    by_cases he : s.err = 0
    · cases hi : s.inp with
      | nil => simp [hc', he, hi, readLineLoop]
      | cons c t =>
        have h1 := readLineLoop_len (c :: t) [] 0
        simp only [hc', he, hi, bne_self_eq_false, Bool.or_self, Bool.false_eq_true, if_false, List.length_cons,
          Int.natCast_pos, Nat.zero_lt_succ, if_true, ne_eq, reduceCtorEq, not_false_eq_true, and_self, forall_const,
          not_true_eq_false, false_implies, and_true]
        have := h1.2 (by simp)
        simp only [List.length_cons] at this
        omega
    · have he' : (s.err != 0) = true := by simpa using he
      cases hi : s.inp with
      | nil => simp [hc', he, he', hi]
      | cons c t => simp [hc', he, he', hi]

theorem readLine_closed (s : Sock) : (s.readLine).2.closed = s.closed := by
  unfold Sock.readLine Sock.available Sock.waitInput Sock.readLineBody
  by_cases hc : s.closed = true
  · simp [hc]
  · have hc' : s.closed = false := by simpa using hc
    by_cases he : (s.err != 0) = true
    · cases hi : s.inp <;> simp [hc', he, hi]
    · have he' : (s.err != 0) = false := by simpa using he
      by_cases ha : (s.inp.length : Int) > 0
      · simp [hc', he', ha]
      · simp [hc', he', ha]

theorem rawRead_len (s : Sock) (n : Nat) :
    (s.rawRead n).2.inp.length + (s.rawRead n).1.length = s.inp.length := by
  unfold Sock.rawRead
  by_cases h : (s.closed || n == 0) = true
  · simp [h]
  · simp only [h, Bool.false_eq_true, if_false]
    split <;> simp only [List.length_drop, List.length_take] <;> omega

theorem write_inp (s : Sock) (b : Bytes) : (s.write b).inp = s.inp := by
  unfold Sock.write
  by_cases h1 : b.isEmpty = true
  · simp [h1]
  · by_cases h2 : s.closed = true <;> simp [h1, h2]

theorem expectContinue_inp (s : Sock) (h : Dic) : (expectContinue s h).inp = s.inp := by
  unfold expectContinue
  split
  · split <;> exact write_inp _ _
  · rfl

theorem respond_inp (r : Req) (s : Sock) : (respond r s).1.inp = s.inp := by
  unfold respond
  simp only []
  split
  · exact write_inp _ _
  · rw [write_inp, write_inp]

/-! ## `readHeaders` -/

theorem headersStep_ok (N : Nat) (x : HSt) (hx : x.s.inp.length ≤ N) :
    (∃ r, headersStep x = .ok (.done r) ∧ r.1.inp.length ≤ N) ∨
    (∃ y, headersStep x = .ok (.next y) ∧ y.s.inp.length ≤ N ∧ y.s.inp.length < x.s.inp.length) := by
  unfold headersStep
  obtain ⟨hle, hlt, hnil⟩ := readLine_facts x.s
  simp only []
  by_cases h13 : (cstr x.s.readLine.1 == [13]) = true
  · left
    simp only [h13, if_true]
    exact ⟨_, rfl, by simp only []; omega⟩
  · simp only [h13, Bool.false_eq_true, if_false]
    rw [at?_zero]
    simp only [bind, Except.bind]
    by_cases hlive : Live x.s
    · have hdec := hlt hlive
      by_cases hsp : cIsSpace (x.s.readLine.1.getD 0 0) = true
      · right
        simp only [hsp, if_true]
        exact ⟨_, rfl, by simp only []; omega, by simp only []; omega⟩
      · simp only [hsp, Bool.false_eq_true, if_false]
        cases hf : findByte 58 (cstr (trimmed x.s.readLine.1)) with
        | none =>
          left
          simp only []
          exact ⟨_, rfl, by simp only []; omega⟩
        | some i =>
          right
          simp only []
          have hi := (findByte_some hf).1
          have hcl := cstr_length_le (trimmed x.s.readLine.1)
          rw [substring?_ok _ _ _ (Nat.zero_le _) (by omega)]
          simp only []
          rw [substring?_ok _ _ _ (by omega) (Nat.le_refl _)]
          simp only []
          exact ⟨_, rfl, by simp only []; omega, by simp only []; omega⟩
    · left
      have hl := hnil hlive
      simp only [hl]
      have : cIsSpace (([] : Bytes).getD 0 0) = false := by decide
      simp only [this, Bool.false_eq_true, if_false]
      have h2 : findByte 58 (cstr (trimmed ([] : Bytes))) = none := by decide
      simp only [h2]
      exact ⟨_, rfl, by simp only []; omega⟩

theorem readHeaders_ok (s : Sock) : ∃ r, readHeaders s = .ok r ∧ r.1.inp.length ≤ s.inp.length := by
  unfold readHeaders
  exact iterate_ok headersStep (fun x => x.s.inp.length) (fun x => x.s.inp.length ≤ s.inp.length)
    (fun r => r.1.inp.length ≤ s.inp.length)
    (fun x hx => by
      rcases headersStep_ok s.inp.length x hx with h | ⟨y, h1, h2, h3⟩
      · exact Or.inl h
      · exact Or.inr ⟨y, h1, h2, h3⟩)
    (s.inp.length + 2) ⟨s, [], [], []⟩ (Nat.le_refl _) (by simp only []; omega)

/-! ## `readBody` -/

theorem blocksStep_ok (N : Nat) (x : BSt) (hx : x.s.inp.length ≤ N) :
    (∃ r, blocksStep x = .ok (.done r) ∧ r.s.inp.length ≤ N) ∨
    (∃ y, blocksStep x = .ok (.next y) ∧ y.s.inp.length ≤ N ∧ y.s.inp.length < x.s.inp.length) := by
  unfold blocksStep
  have hr := rawRead_len x.s (min x.mx 16000).toNat
  by_cases h1 : x.mx ≤ 0
  · left; simp only [h1, if_true]; exact ⟨_, rfl, hx⟩
  · simp only [h1, if_false]
    by_cases h2 : ((x.s.rawRead (min x.mx 16000).toNat).1.length == 0) = true
    · left; simp only [h2, if_true]; exact ⟨_, rfl, by simp only []; omega⟩
    · simp only [h2, Bool.false_eq_true, if_false]
      have hpos : (x.s.rawRead (min x.mx 16000).toNat).1.length ≠ 0 := by simpa using h2
      by_cases h3 : (x.size != 0) = true
      · simp only [h3, if_true]
        by_cases h4 : x.size - ((x.s.rawRead (min x.mx 16000).toNat).1.length : Int) ≤ 0
        · left; simp only [h4, if_true]; exact ⟨_, rfl, by simp only []; omega⟩
        · right; simp only [h4, if_false]
          exact ⟨_, rfl, by simp only []; omega, by simp only []; omega⟩
      · right; simp only [h3, Bool.false_eq_true, if_false]
        exact ⟨_, rfl, by simp only []; omega, by simp only []; omega⟩

theorem readBlocks_ok (s : Sock) (mx size : Int) (body : Bytes) :
    ∃ b, readBlocks s mx size body = .ok b ∧ b.s.inp.length ≤ s.inp.length := by
  unfold readBlocks
  exact iterate_ok blocksStep (fun x => x.s.inp.length) (fun x => x.s.inp.length ≤ s.inp.length)
    (fun r => r.s.inp.length ≤ s.inp.length) (fun x hx => blocksStep_ok s.inp.length x hx)
    (s.inp.length + 1) ⟨s, mx, size, body⟩ (Nat.le_refl _) (by simp only []; omega)

/-- with something to read (`maxToRead ≥ 1`) on an open socket, the inner loop either returns from
    `readBody` or has consumed at least one byte -/
theorem readBlocks_progress (s : Sock) (mx size : Int) (body : Bytes) (hmx : mx ≥ 1) (hc : s.closed = false) :
    ∃ b, readBlocks s mx size body = .ok b ∧ b.s.inp.length ≤ s.inp.length ∧
      (b.ret = true ∨ b.s.inp.length < s.inp.length) := by
  unfold readBlocks
  -- first pass by hand
  have hstep := blocksStep_ok s.inp.length ⟨s, mx, size, body⟩ (Nat.le_refl _)
  simp only [iterate]
  unfold blocksStep at hstep ⊢
  have hr := rawRead_len s (min mx 16000).toNat
  have h1 : ¬ mx ≤ 0 := by omega
  simp only [h1, if_false] at hstep ⊢
  by_cases h2 : ((s.rawRead (min mx 16000).toNat).1.length == 0) = true
  · simp only [h2, if_true]
    exact ⟨_, rfl, by simp only []; omega, Or.inl rfl⟩
  · simp only [h2, Bool.false_eq_true, if_false]
    have hpos : (s.rawRead (min mx 16000).toNat).1.length ≠ 0 := by simpa using h2
    have hrest : ∀ (y : BSt), y.s.inp.length < s.inp.length →
        ∃ b, iterate blocksStep s.inp.length y = .ok b ∧ b.s.inp.length ≤ s.inp.length ∧
          (b.ret = true ∨ b.s.inp.length < s.inp.length) := by
      intro y hy
      obtain ⟨b, hb, hp⟩ := iterate_ok blocksStep (fun x => x.s.inp.length) (fun x => x.s.inp.length ≤ y.s.inp.length)
        (fun r => r.s.inp.length ≤ y.s.inp.length) (fun x hx => blocksStep_ok y.s.inp.length x hx)
        s.inp.length y (Nat.le_refl _) hy
      exact ⟨b, hb, by omega, Or.inr (by omega)⟩
    by_cases h3 : (size != 0) = true
    · simp only [h3, if_true]
      by_cases h4 : size - ((s.rawRead (min mx 16000).toNat).1.length : Int) ≤ 0
      · simp only [h4, if_true]
        exact ⟨_, rfl, by simp only []; omega, Or.inl rfl⟩
      · simp only [h4, if_false]
        exact hrest _ (by simp only []; omega)
    · simp only [h3, Bool.false_eq_true, if_false]
      exact hrest _ (by simp only []; omega)


theorem available_nonneg {s : Sock} (h : ¬ s.available < 0) : s.err = 0 ∧ s.closed = false := by
  unfold Sock.available at h
  by_cases hc : (s.err != 0 || s.closed) = true
  · simp [hc] at h
  · simp only [Bool.or_eq_true, bne_iff_ne, ne_eq, not_or, Decidable.not_not, Bool.not_eq_true] at hc
    exact hc

theorem bodyStep_ok (chunked : Bool) (N : Nat) (x : BodySt) (hx : x.s.inp.length ≤ N) :
    (∃ r, bodyStep chunked x = .ok (.done r) ∧ r.1.inp.length ≤ N) ∨
    (∃ y, bodyStep chunked x = .ok (.next y) ∧ y.s.inp.length ≤ N ∧ y.s.inp.length < x.s.inp.length) := by
  unfold bodyStep
  simp only []
  by_cases hav : x.s.available < 0
  · left; simp only [hav, if_true]; exact ⟨_, rfl, hx⟩
  · simp only [hav, if_false]
    obtain ⟨he, hc⟩ := available_nonneg hav
    cases chunked with
    | true =>
      simp only [if_true]
      obtain ⟨hle, hlt, hnil⟩ := readLine_facts x.s
      obtain ⟨b, hb, hbl⟩ := readBlocks_ok x.s.readLine.2 (hexToInt x.s.readLine.1) x.size x.body
      rw [hb]
      simp only [bind, Except.bind]
      by_cases hret : b.ret = true
      · left; simp only [hret, if_true]; exact ⟨_, rfl, by simp only []; omega⟩
      · simp only [hret, Bool.false_eq_true, if_false]
        have hr2 := rawRead_len b.s 2
        by_cases h2 : (b.s.rawRead 2).1.length < 2
        · left; simp only [h2, if_true]; exact ⟨_, rfl, by simp only []; omega⟩
        · simp only [h2, if_false]
          by_cases h0 : (hexToInt x.s.readLine.1 == 0) = true
          · left; simp only [h0, if_true]; exact ⟨_, rfl, by simp only []; omega⟩
          · right; simp only [h0, Bool.false_eq_true, if_false]
            have hne : x.s.inp ≠ [] := by
              intro hnil'
              have : x.s.inp.length = 0 := by simp [hnil']
              omega
            have := hlt ⟨he, hc, hne⟩
            exact ⟨_, rfl, by simp only []; omega, by simp only []; omega⟩
    | false =>
      simp only [Bool.false_eq_true, if_false]
      have hmx : (if x.size > 0 && (if x.s.available ≤ 0 then (1 : Int) else x.s.available) > x.size then x.size
          else (if x.s.available ≤ 0 then (1 : Int) else x.s.available)) ≥ 1 := by
        by_cases ha : x.s.available ≤ 0
        · simp only [ha, if_true]
          split
          · rename_i h; simp only [Bool.and_eq_true, decide_eq_true_eq] at h; omega
          · omega
        · simp only [ha, if_false]
          split
          · rename_i h; simp only [Bool.and_eq_true, decide_eq_true_eq] at h; omega
          · omega
      obtain ⟨b, hb, hbl, hprog⟩ := readBlocks_progress x.s _ x.size x.body hmx hc
      rw [hb]
      simp only [bind, Except.bind]
      by_cases hret : b.ret = true
      · left; simp only [hret, if_true]; exact ⟨_, rfl, by simp only []; omega⟩
      · right; simp only [hret, Bool.false_eq_true, if_false]
        rcases hprog with h | h
        · exact absurd h hret
        · exact ⟨_, rfl, by simp only []; omega, by simp only []; omega⟩

theorem readBody_ok (s : Sock) (h : Dic) : ∃ r, readBody s h = .ok r ∧ r.1.inp.length ≤ s.inp.length := by
  unfold readBody
  simp only []
  split
  · exact ⟨_, rfl, Nat.le_refl _⟩
  · split
    · exact ⟨_, rfl, Nat.le_refl _⟩
    · exact iterate_ok (bodyStep _) (fun x => x.s.inp.length) (fun x => x.s.inp.length ≤ s.inp.length)
        (fun r => r.1.inp.length ≤ s.inp.length) (fun x hx => bodyStep_ok _ s.inp.length x hx)
        (s.inp.length + 2) ⟨s, _, []⟩ (Nat.le_refl _) (by simp only []; omega)

/-! ## `HttpRequest::read` and `HttpServer::serve` -/

theorem read_ok (s : Sock) :
    ∃ r, AslModel.HttpParse.read s = .ok r ∧ r.2.inp.length ≤ s.inp.length ∧ (Live s → r.2.inp.length < s.inp.length) ∧
      hasDD r.1.path = false ∧ (∀ c ∈ r.1.path, c ≠ 0) := by
  unfold AslModel.HttpParse.read
  obtain ⟨hle, hlt, hnil⟩ := readLine_facts s
  simp only []
  split
  · exact ⟨_, rfl, hle, hlt, rfl, by simp⟩
  · obtain ⟨rl?, hrl⟩ := parseRequestLine_ok s.readLine.1
    rw [hrl]
    simp only [bind, Except.bind]
    cases rl? with
    | none => exact ⟨_, rfl, hle, hlt, rfl, by simp⟩
    | some rl =>
      simp only []
      obtain ⟨hs, hhs, hhl⟩ := readHeaders_ok s.readLine.2
      rw [hhs]
      simp only []
      obtain ⟨b, hb, hbl⟩ := readBody_ok (expectContinue hs.1 hs.2) hs.2
      rw [hb]
      simp only []
      obtain ⟨t, ht, hdd, hnul⟩ := parseTarget_ok rl.res
      rw [ht]
      rw [expectContinue_inp] at hbl
      refine ⟨_, rfl, by simp only []; omega, fun hl => ?_, hdd, hnul⟩
      have := hlt hl
      simp only []
      omega

theorem serveStep_ok (N : Nat) (x : SrvSt) (hx : x.s.inp.length ≤ N)
    (hacc : ∀ q ∈ x.acc, hasDD q.path = false) :
    (∃ r, serveStep x = .ok (.done r) ∧ r.1.inp.length ≤ N ∧ ∀ q ∈ r.2, hasDD q.path = false) ∨
    (∃ y, serveStep x = .ok (.next y) ∧ (y.s.inp.length ≤ N ∧ ∀ q ∈ y.acc, hasDD q.path = false) ∧
      y.s.inp.length < x.s.inp.length) := by
  unfold serveStep
  by_cases h0 : (x.s.closed || x.s.err != 0 || x.s.inp.isEmpty) = true
  · left
    simp only [h0, if_true]
    exact ⟨_, rfl, hx, fun q hq => hacc q (List.mem_reverse.mp hq)⟩
  · simp only [h0, Bool.false_eq_true, if_false]
    have hlive : Live x.s := by
      simp only [Bool.or_eq_true, bne_iff_ne, ne_eq, List.isEmpty_iff, not_or, Decidable.not_not, Bool.not_eq_true] at h0
      exact ⟨h0.1.2, h0.1.1, h0.2⟩
    obtain ⟨rs, hrs, hle, hlt, hdd, _⟩ := read_ok x.s
    have hdec := hlt hlive
    rw [hrs]
    simp only [bind, Except.bind]
    split
    · left
      exact ⟨_, rfl, by simp only []; omega, fun q hq => hacc q (List.mem_reverse.mp hq)⟩
    · have hacc' : ∀ q ∈ (if (cstr rs.1.method == sOptions) = true then x.acc else rs.1 :: x.acc), hasDD q.path = false := by
        intro q hq
        split at hq
        · exact hacc q hq
        · rcases List.mem_cons.mp hq with rfl | hq
          · exact hdd
          · exact hacc q hq
      have hinp : (respond rs.1 rs.2).1.inp.length = rs.2.inp.length := by rw [respond_inp]
      split
      · left
        exact ⟨_, rfl, by simp only []; omega, fun q hq => hacc' q (List.mem_reverse.mp hq)⟩
      · right
        exact ⟨_, rfl, ⟨by simp only []; omega, hacc'⟩, by simp only []; omega⟩

theorem serve_ok (s : Sock) :
    ∃ r, serve s = .ok r ∧ r.1.inp.length ≤ s.inp.length ∧ ∀ q ∈ r.2, hasDD q.path = false := by
  unfold serve
  exact iterate_ok serveStep (fun x => x.s.inp.length)
    (fun x => x.s.inp.length ≤ s.inp.length ∧ ∀ q ∈ x.acc, hasDD q.path = false)
    (fun r => r.1.inp.length ≤ s.inp.length ∧ ∀ q ∈ r.2, hasDD q.path = false)
    (fun x hx => serveStep_ok s.inp.length x hx.1 hx.2)
    (s.inp.length + 1) ⟨s, []⟩ ⟨Nat.le_refl _, by simp⟩ (by simp only []; omega)


/-! ## `Url::Url` -/

theorem at?_val (s : Bytes) (i : Nat) (h : i ≤ s.length) : at? s i = .ok (s.getD i 0) := by
  by_cases h1 : i < s.length
  · exact at?_lt _ _ h1
  · have : i = s.length := by omega
    subst this
    rw [at?_len]
    simp [List.getD]

theorem getD_cstr (l : Bytes) (k : Nat) (h : k < (cstr l).length) : (cstr l).getD k 0 = l.getD k 0 := by
  obtain ⟨r, hr⟩ := cstr_prefix l
  conv => rhs; rw [hr]
  simp only [List.getD_eq_getElem?_getD]
  rw [List.getElem?_append_left h]

theorem indexOfByteFrom?_spec (s : Bytes) (c : UInt8) (i0 : Nat) (h : i0 ≤ s.length) :
    ∃ r, indexOfByteFrom? s c i0 = .ok r ∧ ∀ k, r = some k → i0 ≤ k ∧ k < s.length ∧ s.getD k 0 = c := by
  unfold indexOfByteFrom?
  simp only [h, if_true, pure, Except.pure]
  refine ⟨_, rfl, ?_⟩
  intro k hk
  simp only [Option.map_eq_some_iff] at hk
  obtain ⟨k', hk', rfl⟩ := hk
  obtain ⟨h1, h2, _⟩ := findByte_some hk'
  have h3 := cstr_length_le (s.drop i0)
  simp only [List.length_drop] at h3
  refine ⟨by omega, by omega, ?_⟩
  rw [getD_cstr _ _ h1] at h2
  simp only [List.getD_eq_getElem?_getD, List.getElem?_drop] at h2
  simp only [List.getD_eq_getElem?_getD]
  rw [Nat.add_comm]
  exact h2

theorem isPrefix_len {p l : Bytes} (h : isPrefix p l = true) : p.length ≤ l.length := by
  induction p generalizing l with
  | nil => simp
  | cons a p ih =>
    cases l with
    | nil => simp [isPrefix] at h
    | cons b l =>
      simp only [isPrefix, Bool.and_eq_true] at h
      have := ih h.2
      simp; omega

theorem findSub_some_len {pat l : Bytes} {k : Nat} (h : findSub pat l = some k) : k + pat.length ≤ l.length := by
  induction l generalizing k with
  | nil =>
    unfold findSub at h
    by_cases hp : pat.isEmpty = true
    · simp only [hp, if_true, Option.some.injEq] at h
      subst h
      have : pat = [] := by simpa using hp
      simp [this]
    · simp [hp] at h
  | cons c t ih =>
    unfold findSub at h
    by_cases hp : isPrefix pat (c :: t) = true
    · simp only [hp, if_true, Option.some.injEq] at h
      subst h
      have := isPrefix_len hp
      omega
    · simp only [hp, Bool.false_eq_true, if_false, Option.map_eq_some_iff] at h
      obtain ⟨k', hk', rfl⟩ := h
      have := ih hk'
      simp; omega

theorem urlPort_ok (url : Bytes) (portstart pathstart : Nat)
    (h : portstart = 0 ∨ (portstart ≤ pathstart ∧ pathstart ≤ url.length)) : ∃ p, urlPort url portstart pathstart = .ok p := by
  unfold urlPort
  by_cases h0 : (portstart == 0) = true
  · simp only [h0, if_true]; exact ⟨_, rfl⟩
  · simp only [h0, Bool.false_eq_true, if_false]
    have : portstart ≠ 0 := by simpa using h0
    rcases h with h | ⟨h1, h2⟩
    · exact absurd h this
    · rw [substring?_ok _ _ _ h1 h2]; exact ⟨_, rfl⟩

theorem urlBracket_ok (url protocol path : Bytes) (hoststart pathstart : Nat) (h1 : hoststart ≤ url.length)
    (h2 : pathstart ≤ url.length) (h3 : pathstart = url.length ∨ url.getD pathstart 0 = 47) :
    ∃ u, urlBracket url protocol path hoststart pathstart = .ok u := by
  unfold urlBracket
  obtain ⟨he, hhe, hb⟩ := indexOfByteFrom?_spec url 93 hoststart h1
  rw [hhe]
  simp only [bind, Except.bind]
  cases he with
  | none => exact ⟨_, rfl⟩
  | some hostend =>
    obtain ⟨hb1, hb2, hb3⟩ := hb hostend rfl
    simp only []
    by_cases hgt : hostend > pathstart
    · simp only [hgt, if_true]; exact ⟨_, rfl⟩
    · simp only [hgt, if_false]
      rw [at?_val _ _ (by omega)]
      simp only []
      have hlt : hostend < pathstart := by
        rcases h3 with h3 | h3
        · omega
        · have : hostend ≠ pathstart := by
            intro heq
            rw [heq, h3] at hb3
            exact absurd hb3 (by decide)
          omega
      rw [substring?_ok _ _ _ hb1 (by omega)]
      simp only []
      have hport : (if (url.getD (hostend + 1) 0 == 58) = true then hostend + 2 else 0) = 0 ∨
          ((if (url.getD (hostend + 1) 0 == 58) = true then hostend + 2 else 0) ≤ pathstart ∧ pathstart ≤ url.length) := by
        by_cases hc : (url.getD (hostend + 1) 0 == 58) = true
        · right
          simp only [hc, if_true]
          have hc' : url.getD (hostend + 1) 0 = 58 := by simpa using hc
          refine ⟨?_, h2⟩
          have : hostend + 1 ≠ pathstart := by
            intro heq
            rcases h3 with h3 | h3
            · rw [heq, h3] at hc'
              simp [List.getD] at hc'
            · rw [heq, h3] at hc'
              exact absurd hc' (by decide)
          omega
        · left; simp only [hc, Bool.false_eq_true, if_false]
      obtain ⟨p, hp⟩ := urlPort_ok url _ pathstart hport
      rw [hp]
      exact ⟨_, rfl⟩

theorem urlPlain_ok (url protocol path : Bytes) (hoststart pathstart : Nat) (h1 : hoststart ≤ pathstart)
    (h2 : pathstart ≤ url.length) : ∃ u, urlPlain url protocol path hoststart pathstart = .ok u := by
  unfold urlPlain
  obtain ⟨j, hj, hb⟩ := indexOfByteFrom?_spec url 58 hoststart (by omega)
  rw [hj]
  simp only [bind, Except.bind]
  cases j with
  | none =>
    simp only []
    rw [substring?_ok _ _ _ h1 h2]
    simp only []
    obtain ⟨p, hp⟩ := urlPort_ok url 0 pathstart (Or.inl rfl)
    rw [hp]
    exact ⟨_, rfl⟩
  | some jv =>
    obtain ⟨hb1, hb2, _⟩ := hb jv rfl
    simp only []
    by_cases hlt : jv < pathstart
    · simp only [hlt, if_true]
      rw [substring?_ok _ _ _ hb1 (by omega)]
      simp only []
      obtain ⟨p, hp⟩ := urlPort_ok url (jv + 1) pathstart (Or.inr ⟨by omega, h2⟩)
      rw [hp]
      exact ⟨_, rfl⟩
    · simp only [hlt, if_false]
      rw [substring?_ok _ _ _ h1 h2]
      simp only []
      obtain ⟨p, hp⟩ := urlPort_ok url 0 pathstart (Or.inl rfl)
      rw [hp]
      exact ⟨_, rfl⟩

theorem parseUrl_ok (url : Bytes) : ∃ u, parseUrl url = .ok u := by
  unfold parseUrl
  unfold indexOfSubFrom?
  simp only [Nat.zero_le, if_true, pure, Except.pure, bind, Except.bind, List.drop_zero, Nat.add_zero, Option.map_id']
  -- hoststart ≤ length
  have hhs : ∀ k, findSub sSchemeSep (cstr url) = some k → k + 3 ≤ url.length := by
    intro k hk
    have := findSub_some_len hk
    have h2 := cstr_length_le url
    simp only [sSchemeSep, List.length_cons, List.length_nil] at this
    omega
  cases hi : findSub sSchemeSep (cstr url) with
  | none =>
    simp only [Option.map_none, Bool.false_eq_true, if_false, Option.getD_none]
    obtain ⟨ps, hps, hpb⟩ := indexOfByteFrom?_spec url 47 0 (Nat.zero_le _)
    rw [hps]
    simp only []
    have hpl : ps.getD url.length ≤ url.length := by
      cases ps with
      | none => simp
      | some k => have := (hpb k rfl).2.1; simp; omega
    have hp3 : ps.getD url.length = url.length ∨ url.getD (ps.getD url.length) 0 = 47 := by
      cases ps with
      | none => left; simp
      | some k => right; simpa using (hpb k rfl).2.2
    rw [substring?_ok _ _ _ (Nat.zero_le _) hpl]
    simp only []
    rw [substring?_ok _ _ _ hpl (Nat.le_refl _)]
    simp only []
    rw [at?_val _ _ (Nat.zero_le _)]
    simp only []
    split
    · rename_i hc
      have hne : url.getD 0 0 = 91 := by simpa using hc
      have : 0 < url.length := by
        cases url with
        | nil => simp [List.getD] at hne
        | cons a t => simp
      exact urlBracket_ok _ _ _ _ _ (by omega) hpl hp3
    · exact urlPlain_ok _ _ _ _ _ (Nat.zero_le _) hpl
  | some k =>
    have hk3 := hhs k hi
    simp only [Option.map_some, Option.getD_some]
    by_cases hpos : (decide (k > 0)) = true
    · simp only [hpos, if_true]
      rw [substring?_ok _ _ _ (Nat.zero_le _) (by omega)]
      simp only []
      obtain ⟨ps, hps, hpb⟩ := indexOfByteFrom?_spec url 47 (k + 3) hk3
      rw [hps]
      simp only []
      have hpl : ps.getD url.length ≤ url.length := by
        cases ps with
        | none => simp
        | some k' => have := (hpb k' rfl).2.1; simp; omega
      have hpg : k + 3 ≤ ps.getD url.length := by
        cases ps with
        | none => simpa using hk3
        | some k' => have := (hpb k' rfl).1; simpa using this
      have hp3 : ps.getD url.length = url.length ∨ url.getD (ps.getD url.length) 0 = 47 := by
        cases ps with
        | none => left; simp
        | some k' => right; simpa using (hpb k' rfl).2.2
      rw [substring?_ok _ _ _ hpg hpl]
      simp only []
      rw [substring?_ok _ _ _ hpl (Nat.le_refl _)]
      simp only []
      rw [at?_val _ _ hk3]
      simp only []
      split
      · rename_i hc
        have hne : url.getD (k + 3) 0 = 91 := by simpa using hc
        have : k + 3 < url.length := by
          by_cases hlt : k + 3 < url.length
          · exact hlt
          · have : k + 3 = url.length := by omega
            rw [this] at hne
            simp [List.getD] at hne
        exact urlBracket_ok _ _ _ _ _ (by omega) hpl hp3
      · exact urlPlain_ok _ _ _ _ _ hpg hpl
    · simp only [hpos, Bool.false_eq_true, if_false]
      obtain ⟨ps, hps, hpb⟩ := indexOfByteFrom?_spec url 47 0 (Nat.zero_le _)
      rw [hps]
      simp only []
      have hpl : ps.getD url.length ≤ url.length := by
        cases ps with
        | none => simp
        | some k' => have := (hpb k' rfl).2.1; simp; omega
      have hp3 : ps.getD url.length = url.length ∨ url.getD (ps.getD url.length) 0 = 47 := by
        cases ps with
        | none => left; simp
        | some k' => right; simpa using (hpb k' rfl).2.2
      rw [substring?_ok _ _ _ (Nat.zero_le _) hpl]
      simp only []
      rw [substring?_ok _ _ _ hpl (Nat.le_refl _)]
      simp only []
      rw [at?_val _ _ (Nat.zero_le _)]
      simp only []
      split
      · rename_i hc
        have hne : url.getD 0 0 = 91 := by simpa using hc
        have : 0 < url.length := by
          cases url with
          | nil => simp [List.getD] at hne
          | cons a t => simp
        exact urlBracket_ok _ _ _ _ _ (by omega) hpl hp3
      · exact urlPlain_ok _ _ _ _ _ (Nat.zero_le _) hpl


/-! ## header names: `capitalized` -/

theorem byte_cases (P : UInt8 → Prop) (h : ∀ n, n < 256 → P (UInt8.ofNat n)) : ∀ c, P c := by
  intro c
  have := h c.toNat c.toNat_lt
  simpa using this

theorem case_facts : ∀ n, n < 256 →
    toUpper (toLower (UInt8.ofNat n)) = toUpper (UInt8.ofNat n) ∧ toLower (toUpper (UInt8.ofNat n)) = toLower (UInt8.ofNat n) ∧
    toUpper (toUpper (UInt8.ofNat n)) = toUpper (UInt8.ofNat n) ∧ toLower (toLower (UInt8.ofNat n)) = toLower (UInt8.ofNat n) := by
  decide +kernel

theorem case_facts' (c : UInt8) :
    toUpper (toLower c) = toUpper c ∧ toLower (toUpper c) = toLower c ∧
    toUpper (toUpper c) = toUpper c ∧ toLower (toLower c) = toLower c :=
  byte_cases (fun c => toUpper (toLower c) = toUpper c ∧ toLower (toUpper c) = toLower c ∧
    toUpper (toUpper c) = toUpper c ∧ toLower (toLower c) = toLower c) case_facts c

theorem capAux_lower (cap : Bool) (s : Bytes) : capAux cap (s.map toLower) = capAux cap s := by
  induction s generalizing cap with
  | nil => rfl
  | cons c t ih =>
    obtain ⟨h1, h2, h3, h4⟩ := case_facts' c
    cases cap <;> simp only [List.map_cons, capAux, Bool.false_eq_true, if_false, if_true, h1, h4, ih]

theorem capAux_upper (cap : Bool) (s : Bytes) : capAux cap (s.map toUpper) = capAux cap s := by
  induction s generalizing cap with
  | nil => rfl
  | cons c t ih =>
    obtain ⟨h1, h2, h3, h4⟩ := case_facts' c
    cases cap <;> simp only [List.map_cons, capAux, Bool.false_eq_true, if_false, if_true, h2, h3, ih]

theorem capAux_idem (cap : Bool) (s : Bytes) : capAux cap (capAux cap s) = capAux cap s := by
  induction s generalizing cap with
  | nil => rfl
  | cons c t ih =>
    obtain ⟨h1, h2, h3, h4⟩ := case_facts' c
    cases cap <;> simp only [capAux, Bool.false_eq_true, if_false, if_true, h3, h4, ih]

/-! ## the header dictionary -/

theorem cmpBytes_refl (a : Bytes) : cmpBytes a a = .eq := by
  induction a with
  | nil => rfl
  | cons x t ih => simp [cmpBytes, ih]

theorem dicFind_dicSet_same (d : Dic) (k v : Bytes) : dicFind (dicSet d k v) k = some v := by
  induction d with
  | nil => simp [dicSet, dicFind, cmpBytes_refl]
  | cons kv t ih =>
    obtain ⟨k', v'⟩ := kv
    unfold dicSet
    cases hc : cmpBytes (cstr k') (cstr k) with
    | lt => simp only [dicFind, hc, ih]
    | eq => simp only [dicFind, hc]
    | gt => simp only [dicFind, cmpBytes_refl]

end AslProofs.HttpParse
