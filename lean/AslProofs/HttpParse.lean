import AslModel.HttpParse
/-!
# Helper lemmas for C09 (model: `AslModel/HttpParse.lean`).  Core Lean only.
-/
set_option linter.unusedVariables false
namespace AslProofs.HttpParse
open AslModel.HttpParse

/-! ## the `M` monad -/

theorem bind_ok {α β} {x : M α} {a : α} (f : α → M β) (h : x = .ok a) : (x >>= f) = f a := by
  subst h; rfl

theorem bind_eq_ok {α β} {x : M α} {f : α → M β} {b : β} (h : (x >>= f) = .ok b) :
    ∃ a, x = .ok a ∧ f a = .ok b := by
  cases x with
  | error e => simp [bind, Except.bind] at h
  | ok a => exact ⟨a, rfl, h⟩

/-! ## C strings and indices -/

theorem tw_pos {p : UInt8 → Bool} {a : UInt8} {t : Bytes} (h : p a = true) :
    (a :: t).takeWhile p = a :: t.takeWhile p := by simp [h]
theorem tw_neg {p : UInt8 → Bool} {a : UInt8} {t : Bytes} (h : p a = false) :
    (a :: t).takeWhile p = [] := by simp [h]

theorem cstr_length_le (s : Bytes) : (cstr s).length ≤ s.length := by
  unfold cstr
  induction s with
  | nil => simp
  | cons a t ih =>
    simp only [List.takeWhile]
    split <;> simp <;> omega

theorem cstr_prefix (s : Bytes) : ∃ r, s = cstr s ++ r := by
  unfold cstr
  exact ⟨s.dropWhile (· != 0), (List.takeWhile_append_dropWhile).symm⟩

theorem cstr_no_nul (s : Bytes) : ∀ c ∈ cstr s, c ≠ 0 := by
  unfold cstr
  induction s with
  | nil => simp
  | cons a t ih =>
    by_cases ha : a = 0
    · simp [ha]
    · have : (a != 0) = true := by simpa using ha
      rw [tw_pos (p := fun x => x != 0) this]
      intro c hc
      rcases List.mem_cons.mp hc with rfl | hc
      · exact ha
      · exact ih c hc

theorem cstr_of_no_nul (s : Bytes) (h : ∀ c ∈ s, c ≠ 0) : cstr s = s := by
  unfold cstr
  induction s with
  | nil => rfl
  | cons a t ih =>
    have ha : (a != 0) = true := by simpa using h a (by simp)
    rw [tw_pos (p := fun x => x != 0) ha, ih (fun c hc => h c (by simp [hc]))]

theorem cstr_idem (s : Bytes) : cstr (cstr s) = cstr s := cstr_of_no_nul _ (cstr_no_nul s)

theorem at?_ok (s : Bytes) (i : Nat) (h : i ≤ s.length) : ∃ c, at? s i = .ok c := by
  unfold at?
  by_cases h1 : i < s.length
  · simp only [h1, if_true]; exact ⟨_, rfl⟩
  · have : i = s.length := by omega
    subst this
    simp only [Nat.lt_irrefl, if_false, if_true]; exact ⟨_, rfl⟩

theorem substring?_ok (s : Bytes) (i j : Nat) (h1 : i ≤ j) (h2 : j ≤ s.length) :
    substring? s i j = .ok ((s.drop i).take (j - i)) := by
  unfold substring?
  simp only [h1, h2, and_self, if_true]; rfl

theorem substring?_eq_ok {s : Bytes} {i j : Nat} {r : Bytes} (h : substring? s i j = .ok r) :
    r = (s.drop i).take (j - i) ∧ i ≤ j ∧ j ≤ s.length := by
  unfold substring? at h
  split at h
  · rename_i hc
    simp only [pure, Except.pure, Except.ok.injEq] at h
    exact ⟨h.symm, hc.1, hc.2⟩
  · simp [throw, throwThe, MonadExceptOf.throw] at h

theorem findByte_some {c : UInt8} {l : Bytes} {k : Nat} (h : findByte c l = some k) :
    k < l.length ∧ l.getD k 0 = c ∧ (l.take k).all (· != c) = true := by
  induction l generalizing k with
  | nil => simp [findByte] at h
  | cons x t ih =>
    unfold findByte at h
    by_cases hx : x == c
    · simp only [hx, if_true, Option.some.injEq] at h
      subst h
      simp at hx
      simp [hx]
    · simp only [hx, Bool.false_eq_true, if_false, Option.map_eq_some_iff] at h
      obtain ⟨k', hk', rfl⟩ := h
      obtain ⟨h1, h2, h3⟩ := ih hk'
      refine ⟨by simp; omega, by simpa using h2, ?_⟩
      simp only [List.take_succ_cons, List.all_cons, h3, Bool.and_true]
      simpa [bne] using hx

theorem findByte_none {c : UInt8} {l : Bytes} (h : findByte c l = none) : ∀ x ∈ l, x ≠ c := by
  induction l with
  | nil => simp
  | cons x t ih =>
    unfold findByte at h
    by_cases hx : x == c
    · simp [hx] at h
    · simp only [hx, Bool.false_eq_true, if_false, Option.map_eq_none_iff] at h
      intro y hy
      rcases List.mem_cons.mp hy with rfl | hy
      · simpa using hx
      · exact ih h y hy

/-- `indexOf(c, i0)` never faults when `i0` points into the string or at its terminator; a hit lies
    inside the string, at or after `i0` -/
theorem indexOfByteFrom?_ok (s : Bytes) (c : UInt8) (i0 : Nat) (h : i0 ≤ s.length) :
    ∃ r, indexOfByteFrom? s c i0 = .ok r ∧ ∀ k, r = some k → i0 ≤ k ∧ k < s.length := by
  unfold indexOfByteFrom?
  simp only [h, if_true, pure, Except.pure]
  refine ⟨_, rfl, ?_⟩
  intro k hk
  simp only [Option.map_eq_some_iff] at hk
  obtain ⟨k', hk', rfl⟩ := hk
  have h1 := (findByte_some hk').1
  have h2 := cstr_length_le (s.drop i0)
  simp only [List.length_drop] at h2
  omega

theorem indexOfSubFrom?_ok (s pat : Bytes) (i0 : Nat) (h : i0 ≤ s.length) :
    ∃ r, indexOfSubFrom? s pat i0 = .ok r := by
  unfold indexOfSubFrom?
  simp [h, pure, Except.pure]


theorem at?_lt (s : Bytes) (i : Nat) (h : i < s.length) : at? s i = .ok (s.getD i 0) := by
  unfold at?; simp only [h, if_true]; rfl

theorem at?_len (s : Bytes) : at? s s.length = .ok 0 := by
  unfold at?; simp only [Nat.lt_irrefl, if_false, if_true]; rfl

theorem at?_zero (s : Bytes) : at? s 0 = .ok (s.getD 0 0) := by
  cases s with
  | nil => rfl
  | cons a t => exact at?_lt _ 0 (by simp)

theorem drop_eq_getD_cons (s : Bytes) (i : Nat) (h : i < s.length) : s.drop i = s.getD i 0 :: s.drop (i + 1) := by
  rw [List.drop_eq_getElem_cons h]
  simp [List.getD, h]

/-! ## fuel-indexed loops -/

/-- a loop whose every pass either leaves with a result satisfying `Post` or strictly decreases a
    measure (keeping an invariant) ends within `μ x + 1` passes, without a fault -/
theorem iterate_ok {σ ρ : Type} (step : σ → M (Step σ ρ)) (μ : σ → Nat) (Inv : σ → Prop) (Post : ρ → Prop)
    (hstep : ∀ x, Inv x → (∃ r, step x = .ok (.done r) ∧ Post r) ∨
                           (∃ y, step x = .ok (.next y) ∧ Inv y ∧ μ y < μ x)) :
    ∀ fuel x, Inv x → μ x < fuel → ∃ r, iterate step fuel x = .ok r ∧ Post r := by
  intro fuel
  induction fuel with
  | zero => intro x _ h; omega
  | succ fuel ih =>
    intro x hx hf
    rcases hstep x hx with ⟨r, hr, hp⟩ | ⟨y, hy, hiy, hlt⟩
    · exact ⟨r, by simp only [iterate, hr]; rfl, hp⟩
    · obtain ⟨r, hr, hp⟩ := ih y hiy (by omega)
      exact ⟨r, by simp only [iterate, hy]; exact hr, hp⟩

/-! ## `Url::decode` -/

/-- percent-decoding as a function of the text (RFC 3986 §2.1 for valid escapes; a truncated escape at
    the end stops the output; the two bytes after `%` always go through `strtoul`) -/
def urlDecodeSpec : Bytes → Bytes
  | [] => []
  | c :: t =>
    if c == 37 then
      match t with
      | a :: b :: t' => hexByte a b :: urlDecodeSpec t'
      | [a] => [hexByte a 0]
      | [] => []
    else c :: urlDecodeSpec t

theorem urlDecodeSpec_ne (c : UInt8) (t : Bytes) (h : (c == 37) = false) :
    urlDecodeSpec (c :: t) = c :: urlDecodeSpec t := by
  cases t with
  | nil => simp [urlDecodeSpec, h]
  | cons a t' => cases t' <;> simp [urlDecodeSpec, h]

theorem decodeStep_ok (q0 : Bytes) (x : DecSt)
    (hx : x.acc.reverse ++ urlDecodeSpec (q0.drop x.i) = urlDecodeSpec q0) :
    (∃ r, decodeStep q0 x = .ok (.done r) ∧ r = urlDecodeSpec q0) ∨
    (∃ y, decodeStep q0 x = .ok (.next y) ∧ (y.acc.reverse ++ urlDecodeSpec (q0.drop y.i) = urlDecodeSpec q0) ∧
      q0.length - y.i < q0.length - x.i) := by
  unfold decodeStep
  by_cases hi : x.i < q0.length
  · simp only [hi, if_true]
    rw [at?_lt _ _ hi]
    simp only [bind, Except.bind]
    rw [drop_eq_getD_cons _ _ hi] at hx
    by_cases hc : (q0.getD x.i 0 == 37) = true
    · simp only [hc, if_true]
      by_cases h2 : x.i + 2 > q0.length
      · left
        simp only [h2, if_true]
        refine ⟨_, rfl, ?_⟩
        have : q0.drop (x.i + 1) = [] := by
          apply List.drop_eq_nil_of_le; omega
        rw [this] at hx
        simp only [urlDecodeSpec, hc, if_true, List.append_nil] at hx
        exact hx
      · right
        simp only [h2, if_false]
        have h1 : x.i + 1 < q0.length := by omega
        rw [at?_lt _ _ h1]
        rw [drop_eq_getD_cons _ _ h1] at hx
        by_cases h3 : x.i + 2 < q0.length
        · rw [at?_lt _ _ h3]
          simp only [Except.bind, pure, Except.pure]
          refine ⟨_, rfl, ?_, by simp only []; omega⟩
          rw [drop_eq_getD_cons _ _ h3] at hx
          simp only [urlDecodeSpec, hc, if_true] at hx
          simp only [List.reverse_cons, List.append_assoc, List.singleton_append]
          exact hx
        · have h4 : x.i + 2 = q0.length := by omega
          rw [h4, at?_len]
          simp only [Except.bind, pure, Except.pure]
          refine ⟨_, rfl, ?_, by simp only []; omega⟩
          have : q0.drop (x.i + 1 + 1) = [] := by
            apply List.drop_eq_nil_of_le; omega
          rw [this] at hx
          simp only [urlDecodeSpec, hc, if_true] at hx
          have h5 : q0.drop (x.i + 3) = [] := by
            apply List.drop_eq_nil_of_le; omega
          simp only [h5, urlDecodeSpec, List.append_nil, List.reverse_cons, List.append_assoc, List.singleton_append]
          exact hx
    · right
      have hc' : (q0.getD x.i 0 == 37) = false := by simpa using hc
      simp only [hc', Bool.false_eq_true, if_false, pure, Except.pure]
      refine ⟨_, rfl, ?_, by simp only []; omega⟩
      rw [urlDecodeSpec_ne _ _ hc'] at hx
      simp only [List.reverse_cons, List.append_assoc, List.singleton_append]
      exact hx
  · left
    simp only [hi, if_false, pure, Except.pure]
    refine ⟨_, rfl, ?_⟩
    have : q0.drop x.i = [] := by
      apply List.drop_eq_nil_of_le; omega
    rw [this] at hx
    simpa [urlDecodeSpec] using hx

theorem urlDecode_eq_spec (q0 : Bytes) : urlDecode q0 = .ok (urlDecodeSpec q0) := by
  obtain ⟨r, hr, hp⟩ := iterate_ok (decodeStep q0) (fun x => q0.length - x.i)
    (fun x => x.acc.reverse ++ urlDecodeSpec (q0.drop x.i) = urlDecodeSpec q0) (fun r => r = urlDecodeSpec q0)
    (fun x hx => decodeStep_ok q0 x hx) (q0.length + 1) ⟨0, []⟩ (by simp) (by simp)
  unfold urlDecode
  rw [hr, hp]


/-! ## `..` removal -/

theorem rmDD_head_ne (s : Bytes) (h : s.head? ≠ some dot) : (rmDD s).head? ≠ some dot := by
  match s with
  | [] => simp [rmDD]
  | [a] => simpa [rmDD] using h
  | a :: b :: t =>
    have ha : a ≠ dot := by simpa using h
    simp [rmDD, ha]

/-- leftmost non-overlapping removal of ".." leaves no ".." -/
theorem rmDD_noDD (s : Bytes) : hasDD (rmDD s) = false := by
  fun_induction rmDD s with
  | case1 a b t h ih => exact ih
  | case2 a b t h ih =>
    cases hr : rmDD (b :: t) with
    | nil => simp [hasDD]
    | cons c r =>
      rw [hr] at ih
      simp only [hasDD, ih, Bool.or_false]
      by_cases ha : a = dot
      · have hb : b ≠ dot := fun hb => h ⟨ha, hb⟩
        have : (rmDD (b :: t)).head? ≠ some dot := rmDD_head_ne (b :: t) (by simpa using hb)
        rw [hr] at this
        have hc : c ≠ dot := by simpa using this
        simp [hc]
      · simp [ha]
  | case3 a => simp [hasDD]
  | case4 => simp [hasDD]

/-- `hasDD` is the bytewise scan: no index carries two consecutive dots -/
theorem hasDD_false_iff (p : Bytes) :
    hasDD p = false ↔ ∀ i, i + 1 < p.length → ¬ (p.getD i 0 = 46 ∧ p.getD (i + 1) 0 = 46) := by
  induction p with
  | nil => simp [hasDD]
  | cons a t ih =>
    cases t with
    | nil => simp [hasDD]
    | cons b t' =>
      simp only [hasDD, Bool.or_eq_false_iff, ih]
      constructor
      · rintro ⟨h1, h2⟩ i hi
        cases i with
        | zero =>
          simp only [List.getD_cons_zero, List.getD_cons_succ]
          intro ⟨ha, hb⟩
          simp [ha, hb, dot] at h1
        | succ j =>
          have := h2 j (by simp at hi ⊢; omega)
          simpa [List.getD_cons_succ] using this
      · intro h
        refine ⟨?_, ?_⟩
        · have := h 0 (by simp)
          simp only [List.getD_cons_zero, List.getD_cons_succ] at this
          by_cases ha : a = 46
          · by_cases hb : b = 46
            · exact absurd ⟨ha, hb⟩ this
            · simp [dot, hb]
          · simp [dot, ha]
        · intro i hi
          have := h (i + 1) (by simp at hi ⊢; omega)
          simpa [List.getD_cons_succ] using this

theorem sanitize_ok (raw : Bytes) : ∃ p, sanitize raw = .ok p ∧ hasDD p = false ∧ (∀ c ∈ p, c ≠ 0) := by
  unfold sanitize
  rw [urlDecode_eq_spec]
  simp only [bind, Except.bind, pure, Except.pure]
  refine ⟨_, rfl, ?_, ?_⟩
  · by_cases h : hasDD (cstr (urlDecodeSpec raw)) = true
    · simp only [h, if_true]; exact rmDD_noDD _
    · simp only [h, if_false]; simpa using h
  · have hsub : ∀ l : Bytes, ∀ c ∈ rmDD l, c ∈ l := by
      intro l
      fun_induction rmDD l with
      | case1 a b t h ih => intro c hc; simp [ih c hc]
      | case2 a b t h ih =>
        intro c hc
        rcases List.mem_cons.mp hc with rfl | hc
        · simp
        · exact List.mem_cons_of_mem _ (ih c hc)
      | case3 a => intro c hc; exact hc
      | case4 => intro c hc; exact hc
    by_cases h : hasDD (cstr (urlDecodeSpec raw)) = true
    · simp only [h, if_true]
      intro c hc
      exact cstr_no_nul _ c (hsub _ c hc)
    · simp only [h, if_false]
      exact cstr_no_nul _

/-! ## request line and target: the index computations are in bounds -/

theorem splitQuery_ok (res : Bytes) (q : Option Nat) (pathend : Nat) (fragment : Bytes)
    (hp : pathend ≤ res.length) : ∃ t, splitQuery res q pathend fragment = .ok t := by
  unfold splitQuery
  cases q with
  | none =>
    simp only []
    rw [substring?_ok _ _ _ (Nat.zero_le _) hp]
    exact ⟨_, rfl⟩
  | some qv =>
    simp only []
    by_cases hc : qv > 0 ∧ qv < pathend
    · simp only [hc, and_self, if_true]
      rw [substring?_ok _ _ _ (by omega) hp]
      simp only [bind, Except.bind]
      rw [substring?_ok _ _ _ (Nat.zero_le _) (by omega)]
      exact ⟨_, rfl⟩
    · simp only [hc, if_false]
      rw [substring?_ok _ _ _ (Nat.zero_le _) hp]
      exact ⟨_, rfl⟩

theorem splitFragment_ok (res : Bytes) (h q : Option Nat) (hh : ∀ k, h = some k → k < res.length) :
    ∃ t, splitFragment res h q = .ok t := by
  unfold splitFragment
  cases h with
  | none => exact splitQuery_ok _ _ _ _ (Nat.le_refl _)
  | some hv =>
    have := hh hv rfl
    simp only []
    by_cases hc : hv > 0
    · simp only [hc, if_true]
      rw [substring?_ok _ _ _ (by omega) (Nat.le_refl _)]
      simp only [bind, Except.bind]
      exact splitQuery_ok _ _ _ _ (by omega)
    · simp only [hc, if_false]
      exact splitQuery_ok _ _ _ _ (Nat.le_refl _)

theorem splitTarget_ok (res : Bytes) : ∃ t, splitTarget res = .ok t := by
  unfold splitTarget
  obtain ⟨h, hh, hhb⟩ := indexOfByteFrom?_ok res 35 0 (Nat.zero_le _)
  obtain ⟨q, hq, hqb⟩ := indexOfByteFrom?_ok res 63 0 (Nat.zero_le _)
  rw [hh]
  simp only [bind, Except.bind]
  rw [hq]
  simp only []
  exact splitFragment_ok _ _ _ (fun k hk => (hhb k hk).2)

theorem parseTarget_ok (res : Bytes) : ∃ t, parseTarget res = .ok t ∧ hasDD t.path = false ∧ (∀ c ∈ t.path, c ≠ 0) := by
  unfold parseTarget
  obtain ⟨t, ht⟩ := splitTarget_ok res
  obtain ⟨p, hp, hdd, hnul⟩ := sanitize_ok t.1
  rw [ht]
  simp only [bind, Except.bind]
  rw [hp]
  exact ⟨_, rfl, hdd, hnul⟩

theorem parseRequestLine_ok (cmd : Bytes) : ∃ r, parseRequestLine cmd = .ok r := by
  unfold parseRequestLine
  obtain ⟨i?, hi, hib⟩ := indexOfByteFrom?_ok cmd 32 0 (Nat.zero_le _)
  rw [hi]
  simp only [bind, Except.bind]
  cases i? with
  | none => exact ⟨_, rfl⟩
  | some i =>
    have hb := hib i rfl
    simp only []
    obtain ⟨j?, hj, hjb⟩ := indexOfByteFrom?_ok cmd 32 (i + 1) (by omega)
    rw [hj]
    simp only []
    cases j? with
    | none => exact ⟨_, rfl⟩
    | some j =>
      have hb2 := hjb j rfl
      simp only []
      rw [substring?_ok _ _ _ (Nat.zero_le _) (by omega)]
      simp only []
      rw [substring?_ok _ _ _ (by omega) (by omega)]
      simp only []
      rw [substring?_ok _ _ _ (by omega) (Nat.le_refl _)]
      exact ⟨_, rfl⟩

end AslProofs.HttpParse
