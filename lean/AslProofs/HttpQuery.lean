import AslModel.Codec
import AslProofs.HttpParse
import AslProofs.HttpDispatch
import AslProofs.Query3
/-!
# C09 — `HttpParse.parseQuery` (the model the C09 driver runs) computes the same dictionary as C15's
`AslModel.Query.parseQuery`, so C15's `query_roundtrip` holds for it.  Core Lean only.
-/
set_option linter.unusedVariables false
namespace AslProofs.HttpQuery
open AslModel.HttpParse AslProofs.HttpParse AslProofs.HttpDispatch

theorem hexVal_eq (c : UInt8) : AslModel.Codec.hexVal c = hexVal c := rfl
theorem cIsSpace_eq : AslModel.Codec.cIsSpace = cIsSpace := rfl
theorem cstr_eq (s : Bytes) : AslModel.Query.cstr s = cstr s := rfl

theorem hexDigits_eq (l : Bytes) : ∀ acc, AslModel.Codec.hexDigits l acc = hexDigits l acc := by
  induction l with
  | nil => intro acc; rfl
  | cons c t ih =>
    intro acc
    simp only [AslModel.Codec.hexDigits, hexDigits, hexVal_eq]
    cases hexVal c <;> simp [ih]

/-- C15's `strtoul16` written with this model's pieces -/
theorem c15_strtoul (s : Bytes) : AslModel.Codec.strtoul16 s =
    (let r := stripSign ((cstr s).dropWhile cIsSpace)
     let v := hexDigits (strip0x r.2) 0
     if r.1 then (4294967296 - v % 4294967296) % 4294967296 else v % 4294967296) := by
  unfold AslModel.Codec.strtoul16 stripSign strip0x cstr
  simp only [cIsSpace_eq, hexDigits_eq]
  split <;> split <;> (split <;> simp_all [hexVal_eq])

theorem hexDigits_lt (l : Bytes) : ∀ acc, hexDigits l acc < (acc + 1) * 16 ^ l.length := by
  induction l with
  | nil => intro acc; simp [hexDigits]
  | cons c t ih =>
    intro acc
    simp only [hexDigits, List.length_cons, Nat.pow_succ]
    cases hv : hexVal c with
    | none =>
      simp only []
      have : 1 ≤ 16 ^ t.length * 16 := Nat.mul_pos (Nat.pow_pos (by decide)) (by decide)
      calc acc < (acc + 1) * 1 := by omega
        _ ≤ (acc + 1) * (16 ^ t.length * 16) := Nat.mul_le_mul_left _ this
    | some v =>
      simp only []
      have hv16 : v < 16 := by
        unfold hexVal at hv
        split at hv
        · rename_i h; simp only [Option.some.injEq] at hv
          have := UInt8.le_iff_toNat_le.mp h.2; have := UInt8.le_iff_toNat_le.mp h.1
          simp at *; omega
        · split at hv
          · rename_i h; simp only [Option.some.injEq] at hv
            have := UInt8.le_iff_toNat_le.mp h.2; have := UInt8.le_iff_toNat_le.mp h.1
            simp at *; omega
          · split at hv
            · rename_i h; simp only [Option.some.injEq] at hv
              have := UInt8.le_iff_toNat_le.mp h.2; have := UInt8.le_iff_toNat_le.mp h.1
              simp at *; omega
            · simp at hv
      calc hexDigits t (acc * 16 + v) < (acc * 16 + v + 1) * 16 ^ t.length := ih _
        _ ≤ ((acc + 1) * 16) * 16 ^ t.length := Nat.mul_le_mul_right _ (by omega)
        _ = (acc + 1) * (16 ^ t.length * 16) := by rw [Nat.mul_assoc, Nat.mul_comm 16]

theorem dropWhile_len (p : UInt8 → Bool) (l : Bytes) : (l.dropWhile p).length ≤ l.length := by
  induction l with
  | nil => simp
  | cons a t ih => simp only [List.dropWhile_cons]; split <;> simp <;> omega

theorem stripSign_len (l : Bytes) : (stripSign l).2.length ≤ l.length := by
  unfold stripSign; split <;> simp
theorem strip0x_len (l : Bytes) : (strip0x l).length ≤ l.length := by
  unfold strip0x; split
  · split <;> simp
  · simp

/-- on strings of at most two characters the two `strtoul` models agree in their low byte (C15 keeps 32 bits,
    this model 64 with saturation) -/
theorem strtoul_lowbyte (s : Bytes) (h : (cstr s).length ≤ 2) :
    UInt8.ofNat (AslModel.Codec.strtoul16 s) = UInt8.ofNat (strtoul16 (cstr s)) := by
  rw [c15_strtoul]
  unfold strtoul16
  simp only []
  have hv : hexDigits (strip0x (stripSign ((cstr s).dropWhile cIsSpace)).2) 0 < 256 := by
    have h1 := hexDigits_lt (strip0x (stripSign ((cstr s).dropWhile cIsSpace)).2) 0
    have h2 := strip0x_len (stripSign ((cstr s).dropWhile cIsSpace)).2
    have h3 := stripSign_len ((cstr s).dropWhile cIsSpace)
    have h4 : ((cstr s).dropWhile cIsSpace).length ≤ (cstr s).length := dropWhile_len _ _
    have h5 : 16 ^ (strip0x (stripSign ((cstr s).dropWhile cIsSpace)).2).length ≤ 16 ^ 2 :=
      Nat.pow_le_pow_right (by decide) (by omega)
    simp only [Nat.zero_add, Nat.one_mul] at h1
    have : (16 : Nat) ^ 2 = 256 := by decide
    omega
  have hci : cstr (cstr s) = cstr s := cstr_idem s
  generalize hexDigits (strip0x (stripSign ((cstr s).dropWhile cIsSpace)).2) 0 = v at hv ⊢
  have e64 : (2 : Nat) ^ 64 = 18446744073709551616 := by decide
  rw [e64]
  have hge : ¬ (v ≥ 18446744073709551616) := by omega
  simp only [hge, if_false]
  cases (stripSign ((cstr s).dropWhile cIsSpace)).1 with
  | false =>
    simp only [Bool.false_eq_true, if_false]
    congr 1
    omega
  | true =>
    simp only [if_true]
    apply UInt8.toNat_inj.mp
    simp only [UInt8.toNat_ofNat']
    omega

theorem urlDecode_eq (s : Bytes) : urlDecodeSpec s = AslModel.Codec.urlDecode s := by
  fun_induction AslModel.Codec.urlDecode s with
  | case1 a b t ih =>
    simp only [urlDecodeSpec, BEq.rfl, if_true, ih]
    congr 1
    unfold hexByte
    have hl : (cstr [a, b]).length ≤ 2 := by have := cstr_length_le [a, b]; simpa using this
    rw [strtoul_lowbyte [a, b] hl]
  | case2 a =>
    simp only [urlDecodeSpec, BEq.rfl, if_true]
    congr 1
    unfold hexByte
    have hl : (cstr [a]).length ≤ 2 := by have := cstr_length_le [a]; simp at this; omega
    rw [strtoul_lowbyte [a] hl]
    congr 2
  | case3 => simp [urlDecodeSpec]
  | case4 c t h1 h2 h3 ih =>
    by_cases hc : c = 37
    · subst hc
      cases t with
      | nil => exact absurd rfl (h3 rfl)
      | cons a t' =>
        cases t' with
        | nil => exact absurd rfl (h2 a rfl)
        | cons b t'' => exact absurd rfl (h1 a b t'' rfl)
    · have : (c == 37) = false := by simpa using hc
      rw [urlDecodeSpec_ne _ _ this, ih]
  | case5 => rfl

/-! ## the dictionary -/

theorem cmpBytes_spec (a : Bytes) : ∀ b,
    (cmpBytes a b = .lt ∧ AslModel.Query.bytesLt a b = true ∧ AslModel.Query.bytesLt b a = false) ∨
    (cmpBytes a b = .eq ∧ AslModel.Query.bytesLt a b = false ∧ AslModel.Query.bytesLt b a = false) ∨
    (cmpBytes a b = .gt ∧ AslModel.Query.bytesLt a b = false ∧ AslModel.Query.bytesLt b a = true) := by
  induction a with
  | nil => intro b; cases b <;> simp [cmpBytes, AslModel.Query.bytesLt]
  | cons x t ih =>
    intro b
    cases b with
    | nil => simp [cmpBytes, AslModel.Query.bytesLt]
    | cons y u =>
      simp only [cmpBytes, AslModel.Query.bytesLt]
      by_cases h1 : x < y
      · have : ¬ y < x := by
          have := UInt8.lt_iff_toNat_lt.mp h1
          intro h; have := UInt8.lt_iff_toNat_lt.mp h; omega
        simp [h1, this]
      · by_cases h2 : y < x
        · simp [h1, h2]
        · simp only [h1, h2, if_false]
          exact ih u

theorem dicSet_eq (d : Dic) (k v : Bytes) : dicSet d k v = AslModel.Query.dicSet d k v := by
  induction d with
  | nil => rfl
  | cons kv t ih =>
    obtain ⟨k', v'⟩ := kv
    unfold dicSet AslModel.Query.dicSet AslModel.Query.strLt
    simp only [cstr_eq]
    rcases cmpBytes_spec (cstr k') (cstr k) with ⟨h1, h2, h3⟩ | ⟨h1, h2, h3⟩ | ⟨h1, h2, h3⟩
    · simp only [h1, h2, h3, Bool.false_eq_true, if_false, if_true, ih]
    · simp only [h1, h2, h3, Bool.false_eq_true, if_false]
    · simp only [h1, h2, h3, Bool.false_eq_true, if_false, if_true]

theorem splitByte_eq (sep : UInt8) (s : Bytes) : splitByte sep s = AslModel.Query.splitByte sep s := by
  induction s with
  | nil => rfl
  | cons c t ih =>
    unfold splitByte AslModel.Query.splitByte
    rw [ih]
    have hne := AslProofs.Query.splitByte_ne_nil sep t
    cases hs : AslModel.Query.splitByte sep t with
    | nil => exact absurd hs hne
    | cons p ps =>
      simp only []
      by_cases hc : c = sep
      · simp [hc]
      · have : (c == sep) = false := by simpa using hc
        simp [hc, this]

theorem findByte_eq (c : UInt8) (l : Bytes) : findByte c l = AslModel.Query.indexOfByte c l := by
  induction l with
  | nil => rfl
  | cons x t ih =>
    unfold findByte AslModel.Query.indexOfByte
    by_cases hx : x = c
    · simp [hx]
    · have : (x == c) = false := by simpa using hx
      simp [hx, this, ih]

theorem queryPairs_eq (ps : List Bytes) : ∀ d : Dic,
    queryPairs ps d = .ok (ps.foldl (fun acc p =>
      match AslModel.Query.indexOfByte 61 p with
      | some j => if j > 0 then AslModel.Query.dicSet acc (p.take j) (p.drop (j + 1)) else acc
      | none => acc) d) := by
  induction ps with
  | nil => intro d; rfl
  | cons p t ih =>
    intro d
    unfold queryPairs
    rw [findByte_eq]
    simp only [List.foldl_cons]
    cases hf : AslModel.Query.indexOfByte 61 p with
    | none => simp only []; exact ih d
    | some j =>
      have hj : j < p.length := by
        rw [← findByte_eq] at hf
        exact (findByte_some hf).1
      simp only []
      by_cases hpos : j > 0
      · simp only [hpos, if_true]
        rw [substring?_ok _ _ _ (Nat.zero_le _) (by omega)]
        simp only [bind, Except.bind]
        rw [substring?_ok _ _ _ (by omega) (Nat.le_refl _)]
        simp only [List.drop_zero, Nat.sub_zero]
        have e : (p.drop (j + 1)).take (p.length - (j + 1)) = p.drop (j + 1) := by
          apply List.take_of_length_le; simp
        rw [e, dicSet_eq]
        exact ih _
      · simp only [hpos, if_false]
        exact ih d

theorem queryDecode_eq (raw : Dic) : ∀ d : Dic,
    queryDecode raw d = .ok (raw.foldl (fun acc kv =>
      AslModel.Query.dicSet acc (AslModel.Codec.urlDecode kv.1) (AslModel.Codec.urlDecode kv.2)) d) := by
  induction raw with
  | nil => intro d; rfl
  | cons kv t ih =>
    intro d
    unfold queryDecode
    rw [urlDecode_eq_spec, urlDecode_eq_spec]
    simp only [bind, Except.bind, List.foldl_cons]
    rw [urlDecode_eq, urlDecode_eq, dicSet_eq]
    exact ih _

/-- **the C09 model's `Url::parseQuery` is C15's**, on every NUL-free query string (request targets are NUL-free) -/
theorem parseQuery_eq_c15 (qs : Bytes) (h0 : ∀ c ∈ qs, c ≠ 0) :
    parseQuery qs = .ok (AslModel.Query.parseQuery qs) := by
  unfold parseQuery AslModel.Query.parseQuery AslModel.Query.splitDic AslModel.Query.ofPairs
  have hmap : (qs.map fun c => if c == 43 then 32 else c) = (qs.map fun c => if c = 43 then 32 else c) := by
    apply List.map_congr_left
    intro c _
    by_cases hc : c = 43 <;> simp [hc]
  simp only [hmap]
  have hnn : cstr (qs.map fun c => if c = 43 then 32 else c) = qs.map fun c => if c = 43 then 32 else c := by
    apply cstr_of_no_nul
    intro c hc
    obtain ⟨x, hx, rfl⟩ := List.mem_map.mp hc
    by_cases h43 : x = 43
    · simp [h43]
    · simp only [h43, if_false]; exact h0 x hx
  simp only [hnn, splitByte_eq, queryPairs_eq, bind, Except.bind, queryDecode_eq, List.foldl_map]
  rfl

end AslProofs.HttpQuery

namespace AslProofs.HttpQuery
open AslModel.HttpParse AslProofs.HttpParse AslModel.Query AslModel.Codec AslProofs.Query

theorem params_no_nul (d : Dict) (hs : Sorted d) : ∀ c ∈ params d, c ≠ 0 := by
  have hnd : ((d.map encPair).map (fun kv => AslModel.Query.cstr kv.1)).Nodup := by
    rw [List.map_map]
    have hn := sorted_nodup_keys d hs
    unfold List.Nodup at hn ⊢
    rw [List.pairwise_map] at hn ⊢
    refine hn.imp ?_
    intro a b hab h
    simp only [Function.comp, encPair, cstr_enc] at h
    exact hab (by rw [enc_inj a.1 b.1 h])
  obtain ⟨_, hep⟩ := ofPairs_sorted_perm (d.map encPair) hnd
  intro c hc h0
  subst h0
  unfold params at hc
  rcases mem_join 38 61 0 _ hc with h | h | ⟨kv, hkv, h⟩
  · cases h
  · cases h
  · obtain ⟨y, _, rfl⟩ := List.mem_map.mp (hep.subset hkv)
    have hz : ∀ s, (0 : UInt8) ∉ urlEncode s true := fun s => enc_no s 0 (by decide) (by decide) (by decide)
    rcases h with h | h
    · exact hz _ h
    · exact hz _ h

/-- **query round trip for the C09 model**: the dictionary the handler gets from `Url::params(d)` is `d`, for every
    sorted dictionary with non-empty keys (any bytes in keys and values: `&`, `=`, `+`, `%`, NUL-free or not) -/
theorem parseQuery_params (d : Dict) (hs : Sorted d) (hk : ∀ kv ∈ d, kv.1 ≠ []) :
    AslModel.HttpParse.parseQuery (params d) = .ok d := by
  rw [parseQuery_eq_c15 _ (params_no_nul d hs), query_roundtrip d hs hk]

end AslProofs.HttpQuery
