import AslModel.HttpFrame
import AslProofs.Query3
/-! C10 extension: `AslModel.HttpFrame.parseQuery` (the transcription of `Url::parseQuery` that the C10 driver prints on
every `H` line) computes the dictionary of C15's `AslModel.Query.parseQuery` whenever no key holds a NUL, so C15's
`query_roundtrip` carries over.  Core Lean only. -/
namespace AslProofs.HttpQueryFrame
open AslModel.HttpFrame

theorem ltBytes_eq : ∀ a b : Bytes, ltBytes a b = AslModel.Query.bytesLt a b
  | [], [] => rfl
  | [], _ :: _ => rfl
  | _ :: _, [] => rfl
  | a :: s, b :: t => by
    unfold ltBytes AslModel.Query.bytesLt
    rw [ltBytes_eq s t]

theorem indexOfByte_eq (c : UInt8) (l : Bytes) : indexOfByte c l = AslModel.Query.indexOfByte c l := by
  induction l with
  | nil => rfl
  | cons x t ih =>
    unfold indexOfByte AslModel.Query.indexOfByte
    by_cases hx : x = c
    · simp [hx]
    · have : (x == c) = false := by simpa using hx
      simp [hx, this, ih]

theorem splitByte_eq (sep : UInt8) (s : Bytes) : splitByte sep s = AslModel.Query.splitByte sep s := by
  induction s with
  | nil => rfl
  | cons c t ih =>
    have hne := AslProofs.Query.splitByte_ne_nil sep t
    unfold splitByte at ih ⊢
    unfold AslModel.Query.splitByte
    rw [List.foldr_cons]
    cases hs : AslModel.Query.splitByte sep t with
    | nil => exact absurd hs hne
    | cons p ps =>
      rw [hs] at ih
      have h1 := (List.cons.inj ih).1
      have h2 := (List.cons.inj ih).2
      simp only [beq_iff_eq] at h1 h2
      by_cases hc : c = sep
      · have : (c == sep) = true := by simpa using hc
        simp [hc, h1, h2]
      · have : (c == sep) = false := by simpa using hc
        simp [hc, this, h1, h2]

def KeysOk (d : Dic) : Prop := ∀ kv ∈ d, (0 : UInt8) ∉ kv.1

theorem dicSet_eq (d : Dic) (k v : Bytes) (hk : (0 : UInt8) ∉ k) (hd : KeysOk d) :
    dicSet d k v = AslModel.Query.dicSet d k v := by
  induction d with
  | nil => rfl
  | cons kv t ih =>
    obtain ⟨k', v'⟩ := kv
    have hk' : (0 : UInt8) ∉ k' := hd (k', v') (by simp)
    have ht : KeysOk t := fun x hx => hd x (List.mem_cons_of_mem _ hx)
    unfold dicSet AslModel.Query.dicSet AslModel.Query.strLt
    rw [AslProofs.Query.cstr_of_not_mem k hk, AslProofs.Query.cstr_of_not_mem k' hk', ltBytes_eq, ih ht]
    by_cases he : k' = k
    · subst he
      simp [AslProofs.Query.bytesLt_irrefl]
    · simp only [he, if_false]
      by_cases h1 : AslModel.Query.bytesLt k k' = true
      · simp [h1]
      · have h1' : AslModel.Query.bytesLt k k' = false := by simpa using h1
        have h2 : AslModel.Query.bytesLt k' k = true := by
          cases h : AslModel.Query.bytesLt k' k with
          | true => rfl
          | false => exact absurd (AslProofs.Query.bytesLt_trichotomy k' k h h1') he
        simp [h1', h2]

theorem dicSet_keysOk (d : Dic) (k v : Bytes) (hk : (0 : UInt8) ∉ k) (hd : KeysOk d) : KeysOk (dicSet d k v) := by
  induction d with
  | nil => intro kv h; simp [dicSet] at h; subst h; exact hk
  | cons kv t ih =>
    obtain ⟨k', v'⟩ := kv
    have hk' : (0 : UInt8) ∉ k' := hd (k', v') (by simp)
    have ht : KeysOk t := fun x hx => hd x (List.mem_cons_of_mem _ hx)
    unfold dicSet
    split
    · intro x hx
      rcases List.mem_cons.mp hx with rfl | hx
      · exact hk
      · exact ht x hx
    · split
      · intro x hx
        rcases List.mem_cons.mp hx with rfl | hx
        · exact hk
        · exact hd x hx
      · intro x hx
        rcases List.mem_cons.mp hx with rfl | hx
        · exact hk'
        · exact ih ht x hx

theorem foldl_agree {α β : Type} (f g : α → β → α) (I : α → Prop) (P : β → Prop)
    (h : ∀ a b, I a → P b → f a b = g a b ∧ I (g a b)) :
    ∀ (l : List β), (∀ b ∈ l, P b) → ∀ a, I a → l.foldl f a = l.foldl g a ∧ I (l.foldl g a)
  | [], _, a, ha => ⟨rfl, ha⟩
  | b :: t, hl, a, ha => by
    obtain ⟨e, i⟩ := h a b ha (hl b (by simp))
    simp only [List.foldl_cons, e]
    exact foldl_agree f g I P h t (fun x hx => hl x (List.mem_cons_of_mem _ hx)) _ i

theorem mem_splitByte (sep : UInt8) : ∀ (s : Bytes), ∀ p ∈ AslModel.Query.splitByte sep s, ∀ c ∈ p, c ∈ s
  | [], p, hp, c, hc => by
    simp [AslModel.Query.splitByte] at hp; subst hp; cases hc
  | x :: t, p, hp, c, hc => by
    have hne := AslProofs.Query.splitByte_ne_nil sep t
    unfold AslModel.Query.splitByte at hp
    cases hs : AslModel.Query.splitByte sep t with
    | nil => exact absurd hs hne
    | cons q qs =>
      rw [hs] at hp
      by_cases hx : x = sep
      · simp only [hx, if_true] at hp
        rcases List.mem_cons.mp hp with rfl | hp
        · cases hc
        · exact List.mem_cons_of_mem _ (mem_splitByte sep t p (hs ▸ hp) c hc)
      · simp only [hx, if_false] at hp
        rcases List.mem_cons.mp hp with rfl | hp
        · rcases List.mem_cons.mp hc with rfl | hc
          · simp
          · exact List.mem_cons_of_mem _ (mem_splitByte sep t q (hs ▸ List.mem_cons_self) c hc)
        · exact List.mem_cons_of_mem _ (mem_splitByte sep t p (hs ▸ List.mem_cons_of_mem _ hp) c hc)

/-- **the C10 model's `Url::parseQuery` is C15's** on every query string without NUL whose decoded keys hold no NUL
(`%00` inside a key is where the two transcriptions may differ: C15's compares keys as C strings) -/
theorem parseQuery_eq_c15 (qs : Bytes) (h0 : (0 : UInt8) ∉ qs)
    (hkeys : ∀ kv ∈ AslModel.Query.splitDic 38 61 (qs.map fun c => if c = 43 then 32 else c),
      (0 : UInt8) ∉ AslModel.Codec.urlDecode kv.1) :
    parseQuery qs = AslModel.Query.parseQuery qs := by
  have hmap : (qs.map fun c => if c == 43 then (32 : UInt8) else c) = qs.map fun c => if c = 43 then 32 else c := by
    apply List.map_congr_left; intro c _; by_cases h : c = 43 <;> simp [h]
  have h0' : (0 : UInt8) ∉ qs.map fun c => if c = 43 then (32 : UInt8) else c := by
    intro h
    obtain ⟨c, hc, e⟩ := List.mem_map.mp h
    by_cases h43 : c = 43
    · simp [h43] at e
    · simp only [h43, if_false] at e; exact h0 (e ▸ hc)
  unfold parseQuery AslModel.Query.parseQuery AslModel.Query.ofPairs
  simp only [hmap, splitByte_eq]
  generalize hq : (qs.map fun c => if c = 43 then (32 : UInt8) else c) = q at h0' hkeys
  have s1 := foldl_agree
    (fun (d : Dic) p => match indexOfByte 61 p with
      | some j => if j > 0 then dicSet d (p.take j) (p.drop (j + 1)) else d
      | none => d)
    (fun (acc : Dic) p => match AslModel.Query.indexOfByte 61 p with
      | some j => if j > 0 then AslModel.Query.dicSet acc (p.take j) (p.drop (j + 1)) else acc
      | none => acc)
    KeysOk (fun p => (0 : UInt8) ∉ p)
    (by
      intro a p ha hp
      simp only [indexOfByte_eq]
      cases AslModel.Query.indexOfByte 61 p with
      | none => exact ⟨rfl, ha⟩
      | some j =>
        by_cases hj : j > 0
        · have ht : (0 : UInt8) ∉ p.take j := fun m => hp (List.mem_of_mem_take m)
          simp only [hj, if_true]
          rw [← dicSet_eq a _ _ ht ha]
          exact ⟨rfl, dicSet_keysOk a _ _ ht ha⟩
        · simp only [hj, if_false]; exact ⟨trivial, ha⟩)
    (AslModel.Query.splitByte 38 q)
    (fun p hp m => h0' (mem_splitByte 38 q p hp 0 m)) [] (fun _ h => by cases h)
  have e1 : _ = AslModel.Query.splitDic 38 61 q := s1.1
  refine (congrArg (List.foldl _ []) e1).trans ?_
  rw [List.foldl_map]
  exact (foldl_agree
    (fun (d : Dic) (kv : Bytes × Bytes) => dicSet d (AslModel.Codec.urlDecode kv.1) (AslModel.Codec.urlDecode kv.2))
    (fun (acc : Dic) kv => AslModel.Query.dicSet acc (AslModel.Codec.urlDecode kv.1) (AslModel.Codec.urlDecode kv.2))
    KeysOk (fun kv => (0 : UInt8) ∉ AslModel.Codec.urlDecode kv.1)
    (fun a kv ha hp => ⟨dicSet_eq a _ _ hp ha, by rw [← dicSet_eq a _ _ hp ha]; exact dicSet_keysOk a _ _ hp ha⟩)
    (AslModel.Query.splitDic 38 61 q) hkeys [] (fun _ h => by cases h)).1

open AslModel.Query AslModel.Codec AslProofs.Query in
/-- what `Url::params d` is made of: the sorted dictionary `e` of the encoded pairs, joined; splitting it gives `e` back -/
theorem params_shape (d : Dict) (hs : Sorted d) (hk : ∀ kv ∈ d, kv.1 ≠ []) :
    ∃ e : Dict, params d = join 38 61 e ∧ (∀ kv ∈ e, ∃ kv0 ∈ d, kv = encPair kv0) ∧
      splitDic 38 61 ((join 38 61 e).map fun c => if c = 43 then 32 else c) = ofPairs e ∧
      (ofPairs e).Perm (d.map encPair) := by
  have hnd : ((d.map encPair).map (fun kv => cstr kv.1)).Nodup := by
    rw [List.map_map]
    have hn := sorted_nodup_keys d hs
    unfold List.Nodup at hn ⊢
    rw [List.pairwise_map] at hn ⊢
    refine hn.imp ?_
    intro a b hab h
    simp only [Function.comp, encPair, cstr_enc] at h
    exact hab (by rw [enc_inj a.1 b.1 h])
  obtain ⟨hes, hep⟩ := ofPairs_sorted_perm (d.map encPair) hnd
  refine ⟨ofPairs (d.map encPair), rfl, ?_, ?_, ?_⟩
  · intro kv h
    obtain ⟨y, hy, rfl⟩ := List.mem_map.mp (hep.subset h)
    exact ⟨y, hy, rfl⟩
  · generalize ofPairs (d.map encPair) = e at hes hep
    have hin : ∀ kv ∈ e, ∃ kv0 ∈ d, kv = encPair kv0 := by
      intro kv h
      obtain ⟨y, hy, rfl⟩ := List.mem_map.mp (hep.subset h)
      exact ⟨y, hy, rfl⟩
    have hok : ∀ kv ∈ e, EntryOk 38 61 kv := by
      intro kv h
      obtain ⟨kv0, h0, rfl⟩ := hin kv h
      exact ⟨enc_ne_nil _ (hk kv0 h0), amp_not_enc _, eq_not_enc _, amp_not_enc _⟩
    have hplus : (43 : UInt8) ∉ join 38 61 e := by
      intro h
      rcases mem_join 38 61 43 e h with h | h | ⟨kv, hkv, h⟩
      · cases h
      · cases h
      · obtain ⟨kv0, _, rfl⟩ := hin kv hkv
        rcases h with h | h <;> exact plus_not_enc _ h
    rw [plus_map_id _ hplus, splitDic_join 38 61 (by decide) e hok]
  · have hee : ofPairs (ofPairs (d.map encPair)) = ofPairs (d.map encPair) := by
      obtain ⟨a, b⟩ := ofPairs_sorted_perm _ (sorted_nodup_keys _ hes)
      exact sorted_perm_eq _ _ a hes b
    rw [hee]; exact hep

open AslModel.Query AslModel.Codec AslProofs.Query in
/-- **query round trip for the C10 model**: the dictionary the handler's `H` line shows for `Url::params(d)` is `d`, for
every sorted dictionary with non-empty, NUL-free keys (values: any bytes) -/
theorem parseQuery_params (d : Dict) (hs : Sorted d) (hk : ∀ kv ∈ d, kv.1 ≠ []) (hz : ∀ kv ∈ d, (0 : UInt8) ∉ kv.1) :
    AslModel.HttpFrame.parseQuery (params d) = d := by
  obtain ⟨e, he, hin, hsplit, hperm⟩ := params_shape d hs hk
  have hzero : ∀ s, (0 : UInt8) ∉ urlEncode s true := fun s => enc_no s 0 (by decide) (by decide) (by decide)
  have h0 : (0 : UInt8) ∉ params d := by
    rw [he]; intro hc
    rcases mem_join 38 61 0 _ hc with h | h | ⟨kv, hkv, h⟩
    · cases h
    · cases h
    · obtain ⟨y, _, rfl⟩ := hin kv hkv
      rcases h with h | h <;> exact hzero _ h
  rw [parseQuery_eq_c15 _ h0, query_roundtrip d hs hk]
  rw [he, hsplit]
  intro kv hkv
  obtain ⟨y, hy, rfl⟩ := List.mem_map.mp (hperm.subset hkv)
  simp only [encPair, AslProofs.Codec.url_roundtrip]
  exact hz y hy

open AslModel.Query AslModel.Codec AslProofs.Query in
/-- `Url::params` never puts out a `#`: the query string it makes cannot end early in `HttpRequest::read` -/
theorem params_no_hash (d : Dict) (hs : Sorted d) (hk : ∀ kv ∈ d, kv.1 ≠ []) : (35 : UInt8) ∉ params d := by
  obtain ⟨e, he, hin, _, _⟩ := params_shape d hs hk
  rw [he]; intro hc
  rcases mem_join 38 61 35 _ hc with h | h | ⟨kv, hkv, h⟩
  · cases h
  · cases h
  · obtain ⟨y, _, rfl⟩ := hin kv hkv
    rcases h with h | h <;> exact enc_no _ 35 (by decide) (by decide) (by decide) h

end AslProofs.HttpQueryFrame
