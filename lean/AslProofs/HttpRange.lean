import AslModel.HttpRange
import AslProofs.HttpParse
import AslProofs.HttpFrame
import AslProofs.HttpDispatch
/-! Lemmas for C09's Range parser, Upgrade hand-off and single percent-decoding. -/
namespace AslProofs.HttpRange
open AslModel.HttpParse AslProofs.HttpParse AslProofs.HttpDispatch

theorem splitC_length (sep : UInt8) (s : Bytes) : 1 ≤ (splitC sep s).length := by
  simp [splitC]

theorem partAt_zero (sep : UInt8) (s : Bytes) : ∃ x, partAt? (splitC sep s) 0 = .ok x := by
  have h := splitC_length sep s
  cases hp : splitC sep s with
  | nil => rw [hp] at h; simp at h
  | cons a t => exact ⟨a, by simp [partAt?, pure, Except.pure]⟩

theorem partAt_one (ps : List Bytes) (h : ps.length > 1) : ∃ x, partAt? ps 1 = .ok x := by
  match ps, h with
  | _ :: b :: _, _ => exact ⟨b, by simp [partAt?, pure, Except.pure]⟩

theorem rangeArgs9_ok (n : Nat) (spec : Bytes) : ∃ be, rangeArgs9 n spec = .ok be := by
  obtain ⟨p0, h0⟩ := partAt_zero 45 spec
  unfold rangeArgs9
  simp only [h0, bind, Except.bind]
  by_cases hl : (splitC 45 spec).length > 1
  · obtain ⟨p1, h1⟩ := partAt_one _ hl
    simp only [hl, if_true, h1, pure, Except.pure]
    split <;> exact ⟨_, rfl⟩
  · simp only [hl, if_false, pure, Except.pure]
    split <;> exact ⟨_, rfl⟩

theorem rangeAnswer_spec (n : Nat) (h : Dic) :
    ∃ a, rangeAnswer n h = .ok a ∧
      (a = .whole ∨ a = .unsat ∨ ∃ b e, a = .part b e ∧ b ≤ e ∧ e < n) := by
  unfold rangeAnswer
  split
  · dsimp only
    split
    · obtain ⟨be, hbe⟩ := rangeArgs9_ok n ((header h sRange).drop 6)
      simp only [hbe, bind, Except.bind]
      cases hr : AslModel.HttpFrame.rangeOf n be.1 be.2 with
      | none => exact ⟨_, rfl, Or.inr (Or.inl rfl)⟩
      | some p =>
        obtain ⟨b', e'⟩ := p
        have := AslProofs.HttpFrame.rangeOf_some hr
        exact ⟨_, rfl, Or.inr (Or.inr ⟨b', e', rfl, by omega, by omega⟩)⟩
    · exact ⟨_, rfl, Or.inl rfl⟩
  · exact ⟨_, rfl, Or.inl rfl⟩

/-! ## one decoding -/

theorem hexByte_25 : hexByte 50 53 = 37 := by decide

theorem urlDecodeSpec_escPct (p : Bytes) : urlDecodeSpec (escPct p) = p := by
  induction p with
  | nil => simp [escPct, urlDecodeSpec]
  | cons c t ih =>
    by_cases hc : (c == 37) = true
    · have : c = 37 := by simpa using hc
      subst this
      simp [escPct, urlDecodeSpec, ih, hexByte_25]
    · have hc' : (c == 37) = false := by simpa using hc
      simp only [escPct, hc', Bool.false_eq_true, if_false]
      rw [urlDecodeSpec_ne c _ hc', ih]

theorem mem_escPct (p : Bytes) (c : UInt8) (h : c ∈ escPct p) : c ∈ p ∨ c = 50 ∨ c = 53 := by
  induction p with
  | nil => simp [escPct] at h
  | cons a t ih =>
    by_cases ha : (a == 37) = true
    · simp only [escPct, ha, if_true, List.mem_cons] at h
      have a37 : a = 37 := by simpa using ha
      rcases h with h | h | h | h
      · left; simp [h, a37]
      · right; left; exact h
      · right; right; exact h
      · rcases ih h with h | h
        · left; exact List.mem_cons_of_mem _ h
        · right; exact h
    · have ha' : (a == 37) = false := by simpa using ha
      simp only [escPct, ha', Bool.false_eq_true, if_false, List.mem_cons] at h
      rcases h with h | h
      · left; simp [h]
      · rcases ih h with h | h
        · left; exact List.mem_cons_of_mem _ h
        · right; exact h

/-- `parseTarget_plain` without its `..` hypothesis: the path is the once-decoded target, cut at a decoded NUL, with the `..`
    of *that text* removed when it has any -/
theorem parseTarget_plain_any (raw : Bytes) (hq : ∀ c ∈ raw, c ≠ 35 ∧ c ≠ 63) :
    ∃ t, parseTarget raw = .ok t ∧
      t.path = (if hasDD (cstr (urlDecodeSpec raw)) then rmDD (cstr (urlDecodeSpec raw)) else cstr (urlDecodeSpec raw)) ∧
      t.query = [] ∧ t.fragment = [] := by
  have hnone : ∀ c : UInt8, (c = 35 ∨ c = 63) → findByte c (cstr raw) = none := by
    intro c hc
    cases hf : findByte c (cstr raw) with
    | none => rfl
    | some k =>
      exfalso
      obtain ⟨hk, hg, _⟩ := findByte_some hf
      obtain ⟨r, hr⟩ := cstr_prefix raw
      have hmem : c ∈ raw := by
        rw [hr]
        apply List.mem_append_left
        rw [← hg]
        simp only [List.getD_eq_getElem?_getD, List.getElem?_eq_getElem hk, Option.getD_some]
        exact List.getElem_mem hk
      rcases hc with rfl | rfl
      · exact (hq _ hmem).1 rfl
      · exact (hq _ hmem).2 rfl
  unfold parseTarget splitTarget indexOfByteFrom?
  simp only [Nat.zero_le, if_true, List.drop_zero, hnone 35 (Or.inl rfl), hnone 63 (Or.inr rfl), Option.map_none,
    pure, Except.pure, bind, Except.bind, splitFragment, splitQuery]
  rw [substring?_ok _ _ _ (Nat.zero_le _) (Nat.le_refl _)]
  simp only [List.drop_zero, Nat.sub_zero, List.take_length]
  unfold sanitize
  rw [urlDecode_eq_spec]
  simp only [bind, Except.bind, pure, Except.pure]
  exact ⟨_, rfl, rfl, rfl, rfl⟩

/-! ## the canonical forms `bytes=first-last`, `bytes=first-` -/

def IsDigits (v : Bytes) : Prop := v.all (fun c => decide (48 ≤ c) && decide (c ≤ 57)) = true

theorem splitByte_no_sep (sep : UInt8) (x : Bytes) (hx : ∀ c ∈ x, c ≠ sep) : splitByte sep x = [x] := by
  induction x with
  | nil => rfl
  | cons c t ih =>
    have hc : (c == sep) = false := by simpa using hx c (by simp)
    simp [splitByte, ih (fun d hd => hx d (by simp [hd])), hc]

theorem splitByte_two (sep : UInt8) (x y : Bytes) (hx : ∀ c ∈ x, c ≠ sep) (hy : ∀ c ∈ y, c ≠ sep) :
    splitByte sep (x ++ sep :: y) = [x, y] := by
  induction x with
  | nil => simp [splitByte, splitByte_no_sep sep y hy]
  | cons c t ih =>
    have hc : (c == sep) = false := by simpa using hx c (by simp)
    simp [splitByte, ih (fun d hd => hx d (by simp [hd])), hc]

theorem digit_mem {v : Bytes} (hd : IsDigits v) {c : UInt8} (hc : c ∈ v) : 48 ≤ c ∧ c ≤ 57 := by
  have := (List.all_eq_true.mp hd) c hc
  simpa using this

theorem myatoi_digits (bits : Nat) (v : Bytes) (hd : IsDigits v) : myatoi bits v = atoiDigits bits v 0 := by
  cases v with
  | nil => rfl
  | cons a t =>
    have ha := digit_mem hd (c := a) (by simp)
    unfold myatoi
    split
    · rename_i heq; simp only [List.cons.injEq] at heq; rw [heq.1] at ha; exact absurd ha.1 (by decide)
    · rename_i heq; simp only [List.cons.injEq] at heq; rw [heq.1] at ha; exact absurd ha.1 (by decide)
    · rfl

theorem posOf_digits (v : Bytes) (hd : IsDigits v) (hl : v.length ≤ 9) :
    posOf v = (decFold v 0 : Int) ∧ decFold v 0 < 10 ^ 9 := by
  have hlt := decFold_lt v hd 0
  have hpow : 10 ^ v.length ≤ 10 ^ 9 := Nat.pow_le_pow_right (by decide) hl
  have hb : decFold v 0 < 10 ^ 9 := by omega
  refine ⟨?_, hb⟩
  unfold posOf
  have : ¬ v.length > 18 := by omega
  simp only [this, if_false]
  rw [digits_no_nul v hd, myatoi_digits 64 v hd]
  have := atoiDigits_dec 64 (by decide) v hd 0 (by
    have : (10 : Nat) ^ 9 < 2 ^ (64 - 1) := by decide
    omega)
  simpa using this

theorem toInt32_small (a : Nat) (h : a < 10 ^ 9) : toInt32 (a : Int) = (a : Int) := by
  unfold toInt32 wrap
  have h1 : ¬ ((a : Int) > 2147483647) := by omega
  simp only [h1, if_false]
  omega

theorem splitC_two (x y : Bytes) (hx : IsDigits x) (hy : IsDigits y) : splitC 45 (x ++ 45 :: y) = [x, y] := by
  have hx' : ∀ c ∈ x, c ≠ 45 := by
    intro c hc h; have := digit_mem hx hc; rw [h] at this; exact absurd this.1 (by decide)
  have hy' : ∀ c ∈ y, c ≠ 45 := by
    intro c hc h; have := digit_mem hy hc; rw [h] at this; exact absurd this.1 (by decide)
  have hnn : ∀ c ∈ x ++ 45 :: y, c ≠ 0 := by
    intro c hc h
    simp only [List.mem_append, List.mem_cons] at hc
    rcases hc with hc | hc | hc
    · have := digit_mem hx hc; rw [h] at this; exact absurd this.1 (by decide)
    · rw [h] at hc; exact absurd hc (by decide)
    · have := digit_mem hy hc; rw [h] at this; exact absurd this.1 (by decide)
  unfold splitC
  simp only [cstr_of_no_nul _ hnn, List.drop_length, List.append_nil, splitByte_two 45 x y hx' hy']
  rfl

theorem rangeArgs9_canonical (n : Nat) (x y : Bytes) (hx : IsDigits x) (hx1 : x ≠ []) (hxl : x.length ≤ 9)
    (hy : IsDigits y) (hyl : y.length ≤ 9) :
    rangeArgs9 n (x ++ 45 :: y) = .ok ((decFold x 0 : Int), (decFold y 0 : Int)) := by
  obtain ⟨px, bx⟩ := posOf_digits x hx hxl
  obtain ⟨py, bY⟩ := posOf_digits y hy hyl
  have he : x.isEmpty = false := by cases x with
    | nil => exact absurd rfl hx1
    | cons _ _ => rfl
  unfold rangeArgs9
  simp only [splitC_two x y hx hy, partAt?, List.getElem?_cons_zero, List.getElem?_cons_succ, List.length_cons, List.length_nil,
    bind, Except.bind, pure, Except.pure, he, Bool.false_and, px, py, toInt32_small _ bx, toInt32_small _ bY]
  simp

/-- the answer RFC 7233 asks for a single `first-last` / `first-` range (apart from last = 0, which `putFile` reads as "to the end") -/
def canonicalAnswer (n a b : Nat) : RangeAns :=
  if b = 0 ∨ b ≥ n then (if a < n then .part a (n - 1) else .unsat)
  else (if a ≤ b then .part a b else .unsat)

theorem rangeOf_nat (n a b : Nat) :
    (match AslModel.HttpFrame.rangeOf n (a : Int) (b : Int) with
      | some (b', e') => RangeAns.part b' e'
      | none => RangeAns.unsat) = canonicalAnswer n a b := by
  unfold AslModel.HttpFrame.rangeOf canonicalAnswer
  by_cases h1 : b = 0 ∨ b ≥ n
  · have h1' : ((b : Int) = 0 ∨ (b : Int) ≥ (n : Int)) := by omega
    simp only [h1, h1', if_true]
    by_cases h2 : a < n
    · have : ¬ ((n : Int) - 1 < (a : Int) ∨ (a : Int) < 0) := by omega
      simp only [this, h2, if_false, if_true]
      congr 1 <;> omega
    · have : ((n : Int) - 1 < (a : Int) ∨ (a : Int) < 0) := by omega
      simp only [this, h2, if_false, if_true]
  · have h1' : ¬ ((b : Int) = 0 ∨ (b : Int) ≥ (n : Int)) := by omega
    simp only [h1, h1', if_false]
    by_cases h2 : a ≤ b
    · have : ¬ ((b : Int) < (a : Int) ∨ (a : Int) < 0) := by omega
      simp only [this, h2, if_false, if_true]
      congr 1 <;> omega
    · have : ((b : Int) < (a : Int) ∨ (a : Int) < 0) := by omega
      simp only [this, h2, if_false, if_true]

theorem rangeAnswer_canonical (n : Nat) (h : Dic) (x y : Bytes) (hh : hasHeader h sRange = true)
    (hv : header h sRange = sBytesEq ++ (x ++ 45 :: y))
    (hx : IsDigits x) (hx1 : x ≠ []) (hxl : x.length ≤ 9) (hy : IsDigits y) (hyl : y.length ≤ 9) :
    rangeAnswer n h = .ok (canonicalAnswer n (decFold x 0) (decFold y 0)) := by
  have hnn : ∀ c ∈ sBytesEq ++ (x ++ 45 :: y), c ≠ 0 ∧ c ≠ 44 := by
    intro c hc
    simp only [List.mem_append, List.mem_cons] at hc
    rcases hc with hc | hc | hc | hc
    · revert c; decide
    · have := digit_mem hx hc
      constructor <;> (intro h0; rw [h0] at this; exact absurd this.1 (by decide))
    · rw [hc]; decide
    · have := digit_mem hy hc
      constructor <;> (intro h0; rw [h0] at this; exact absurd this.1 (by decide))
  have hc0 : cstr (sBytesEq ++ (x ++ 45 :: y)) = sBytesEq ++ (x ++ 45 :: y) := cstr_of_no_nul _ (fun c hc => (hnn c hc).1)
  have hcomma : (sBytesEq ++ (x ++ 45 :: y)).contains 44 = false := by
    cases hcc : (sBytesEq ++ (x ++ 45 :: y)).contains 44 with
    | false => rfl
    | true =>
      have := List.contains_iff_mem.mp hcc
      exact absurd rfl (hnn 44 this).2
  have hpre : isPrefix sBytesEq (sBytesEq ++ (x ++ 45 :: y)) = true := by simp [sBytesEq, isPrefix]
  have hdrop : (sBytesEq ++ (x ++ 45 :: y)).drop 6 = x ++ 45 :: y := by simp [sBytesEq]
  unfold rangeAnswer
  simp only [hh, if_true, hv, hc0, hcomma, hpre, Bool.not_false, Bool.and_self, hdrop,
    rangeArgs9_canonical n x y hx hx1 hxl hy hyl, bind, Except.bind]
  have := rangeOf_nat n (decFold x 0) (decFold y 0)
  revert this
  cases AslModel.HttpFrame.rangeOf n (decFold x 0 : Int) (decFold y 0 : Int) with
  | none => intro h; simp only [pure, Except.pure]; rw [← h]
  | some p => obtain ⟨b', e'⟩ := p; intro h; simp only [pure, Except.pure]; rw [← h]

end AslProofs.HttpRange
