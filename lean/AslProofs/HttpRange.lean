import AslModel.HttpRange
import AslProofs.HttpParse
import AslProofs.HttpFrame
import AslProofs.HttpDispatch
/-! Lemmas for C09's Range parser, Upgrade hand-off and single percent-decoding. -/
namespace AslProofs.HttpRange
open AslModel.HttpParse AslProofs.HttpParse AslProofs.HttpDispatch

theorem splitC_length (sep : UInt8) (s : Bytes) : 1 ≤ (splitC sep s).length := by
  simp [splitC]

theorem partAt_zero (sep : UInt8) (s : Bytes) : ∃ x, partAt? (splitC sep s) 0 = .ok x := by
  have h := splitC_length sep s
  cases hp : splitC sep s with
  | nil => rw [hp] at h; simp at h
  | cons a t => exact ⟨a, by simp [partAt?, pure, Except.pure]⟩

theorem partAt_one (ps : List Bytes) (h : ps.length > 1) : ∃ x, partAt? ps 1 = .ok x := by
  match ps, h with
  | _ :: b :: _, _ => exact ⟨b, by simp [partAt?, pure, Except.pure]⟩

theorem rangeArgs9_ok (n : Nat) (spec : Bytes) : ∃ be, rangeArgs9 n spec = .ok be := by
  obtain ⟨p0, h0⟩ := partAt_zero 45 spec
  unfold rangeArgs9
  simp only [h0, bind, Except.bind]
  by_cases hl : (splitC 45 spec).length > 1
  · obtain ⟨p1, h1⟩ := partAt_one _ hl
    simp only [hl, if_true, h1, pure, Except.pure]
    split <;> exact ⟨_, rfl⟩
  · simp only [hl, if_false, pure, Except.pure]
    split <;> exact ⟨_, rfl⟩

theorem rangeAnswer_spec (n : Nat) (h : Dic) :
    ∃ a, rangeAnswer n h = .ok a ∧
      (a = .whole ∨ a = .unsat ∨ ∃ b e, a = .part b e ∧ b ≤ e ∧ e < n) := by
  unfold rangeAnswer
  split
  · dsimp only
    split
    · obtain ⟨be, hbe⟩ := rangeArgs9_ok n ((header h sRange).drop 6)
      simp only [hbe, bind, Except.bind]
      cases hr : AslModel.HttpFrame.rangeOf n be.1 be.2 with
      | none => exact ⟨_, rfl, Or.inr (Or.inl rfl)⟩
      | some p =>
        obtain ⟨b', e'⟩ := p
        have := AslProofs.HttpFrame.rangeOf_some hr
        exact ⟨_, rfl, Or.inr (Or.inr ⟨b', e', rfl, by omega, by omega⟩)⟩
    · exact ⟨_, rfl, Or.inl rfl⟩
  · exact ⟨_, rfl, Or.inl rfl⟩

/-! ## one decoding -/

theorem hexByte_25 : hexByte 50 53 = 37 := by decide

theorem urlDecodeSpec_escPct (p : Bytes) : urlDecodeSpec (escPct p) = p := by
  induction p with
  | nil => simp [escPct, urlDecodeSpec]
  | cons c t ih =>
    by_cases hc : (c == 37) = true
    · have : c = 37 := by simpa using hc
      subst this
      simp [escPct, urlDecodeSpec, ih, hexByte_25]
    · have hc' : (c == 37) = false := by simpa using hc
      simp only [escPct, hc', Bool.false_eq_true, if_false]
      rw [urlDecodeSpec_ne c _ hc', ih]

theorem mem_escPct (p : Bytes) (c : UInt8) (h : c ∈ escPct p) : c ∈ p ∨ c = 50 ∨ c = 53 := by
  induction p with
  | nil => simp [escPct] at h
  | cons a t ih =>
    by_cases ha : (a == 37) = true
    · simp only [escPct, ha, if_true, List.mem_cons] at h
      have a37 : a = 37 := by simpa using ha
      rcases h with h | h | h | h
      · left; simp [h, a37]
      · right; left; exact h
      · right; right; exact h
      · rcases ih h with h | h
        · left; exact List.mem_cons_of_mem _ h
        · right; exact h
    · have ha' : (a == 37) = false := by simpa using ha
      simp only [escPct, ha', Bool.false_eq_true, if_false, List.mem_cons] at h
      rcases h with h | h
      · left; simp [h]
      · rcases ih h with h | h
        · left; exact List.mem_cons_of_mem _ h
        · right; exact h

/-- `parseTarget_plain` without its `..` hypothesis: the path is the once-decoded target, cut at a decoded NUL, with the `..`
    of *that text* removed when it has any -/
theorem parseTarget_plain_any (raw : Bytes) (hq : ∀ c ∈ raw, c ≠ 35 ∧ c ≠ 63) :
    ∃ t, parseTarget raw = .ok t ∧
      t.path = (if hasDD (cstr (urlDecodeSpec raw)) then rmDD (cstr (urlDecodeSpec raw)) else cstr (urlDecodeSpec raw)) ∧
      t.query = [] ∧ t.fragment = [] := by
  have hnone : ∀ c : UInt8, (c = 35 ∨ c = 63) → findByte c (cstr raw) = none := by
    intro c hc
    cases hf : findByte c (cstr raw) with
    | none => rfl
    | some k =>
      exfalso
      obtain ⟨hk, hg, _⟩ := findByte_some hf
      obtain ⟨r, hr⟩ := cstr_prefix raw
      have hmem : c ∈ raw := by
        rw [hr]
        apply List.mem_append_left
        rw [← hg]
        simp only [List.getD_eq_getElem?_getD, List.getElem?_eq_getElem hk, Option.getD_some]
        exact List.getElem_mem hk
      rcases hc with rfl | rfl
      · exact (hq _ hmem).1 rfl
      · exact (hq _ hmem).2 rfl
  unfold parseTarget splitTarget indexOfByteFrom?
  simp only [Nat.zero_le, if_true, List.drop_zero, hnone 35 (Or.inl rfl), hnone 63 (Or.inr rfl), Option.map_none,
    pure, Except.pure, bind, Except.bind, splitFragment, splitQuery]
  rw [substring?_ok _ _ _ (Nat.zero_le _) (Nat.le_refl _)]
  simp only [List.drop_zero, Nat.sub_zero, List.take_length]
  unfold sanitize
  rw [urlDecode_eq_spec]
  simp only [bind, Except.bind, pure, Except.pure]
  exact ⟨_, rfl, rfl, rfl, rfl⟩

end AslProofs.HttpRange
