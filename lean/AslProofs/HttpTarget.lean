import AslModel.HttpFrame
import AslProofs.Codec
import AslProofs.CodecExt
/-! C10 extension: `HttpRequest::read`'s split of the request target (`AslModel.HttpFrame.splitTarget`, the function the
C10 driver runs inside `readRequest`) into decoded path, query string and fragment.  Core Lean only. -/
namespace AslProofs.HttpTarget
open AslModel.HttpFrame AslModel.Codec

theorem indexOfByte_none (c : UInt8) : ∀ a : Bytes, c ∉ a → indexOfByte c a = none
  | [], _ => rfl
  | x :: t, h => by
    have hx : (x == c) = false := by
      simp only [beq_eq_false_iff_ne, ne_eq]; intro e; exact h (by simp [e])
    have ht : c ∉ t := fun m => h (List.mem_cons_of_mem _ m)
    simp [indexOfByte, hx, indexOfByte_none c t ht]

theorem indexOfByte_append (c : UInt8) : ∀ (a r : Bytes), c ∉ a → indexOfByte c (a ++ c :: r) = some a.length
  | [], r, _ => by simp [indexOfByte]
  | x :: t, r, h => by
    have hx : (x == c) = false := by
      simp only [beq_eq_false_iff_ne, ne_eq]; intro e; exact h (by simp [e])
    have ht : c ∉ t := fun m => h (List.mem_cons_of_mem _ m)
    simp [indexOfByte, hx, indexOfByte_append c t r ht]

/-- the path part after decoding, as `HttpRequest::read` stores it -/
def pathOf (t : Bytes) : Bytes := rmDotDot (fixNul (urlDecode t))

theorem split_path_only (t : Bytes) (h35 : 35 ∉ t) (h63 : 63 ∉ t) : splitTarget t = (pathOf t, [], []) := by
  unfold splitTarget pathOf
  simp [indexOfByte_none 35 t h35, indexOfByte_none 63 t h63]

theorem split_path_query (t q : Bytes) (ht : t ≠ []) (h35 : 35 ∉ t) (h63 : 63 ∉ t) (hq : 35 ∉ q) :
    splitTarget (t ++ 63 :: q) = (pathOf t, q, []) := by
  have hl : 0 < t.length := List.length_pos_iff.mpr ht
  have hn : (35 : UInt8) ∉ t ++ 63 :: q := by
    simp only [List.mem_append, List.mem_cons, not_or]
    exact ⟨h35, by decide, hq⟩
  unfold splitTarget pathOf
  simp only [indexOfByte_none 35 _ hn, indexOfByte_append 63 t q h63]
  simp [hl]
  exact List.take_of_length_le (by omega)

theorem split_path_query_fragment (t q f : Bytes) (ht : t ≠ []) (h35 : 35 ∉ t) (h63 : 63 ∉ t) (hq : 35 ∉ q) :
    splitTarget (t ++ 63 :: (q ++ 35 :: f)) = (pathOf t, q, f) := by
  have hl : 0 < t.length := List.length_pos_iff.mpr ht
  have hn : (35 : UInt8) ∉ t ++ 63 :: q := by
    simp only [List.mem_append, List.mem_cons, not_or]
    exact ⟨h35, by decide, hq⟩
  have e : t ++ 63 :: (q ++ 35 :: f) = (t ++ 63 :: q) ++ 35 :: f := by simp
  unfold splitTarget pathOf
  rw [show indexOfByte 35 (t ++ 63 :: (q ++ 35 :: f)) = some (t ++ 63 :: q).length from by
    rw [e]; exact indexOfByte_append 35 _ f hn]
  simp only [indexOfByte_append 63 t (q ++ 35 :: f) h63]
  have hp : 0 < t.length + (q.length + 1) := by omega
  have hlt : t.length < t.length + (q.length + 1) := by omega
  simp [hl, hp, hlt]
  refine ⟨?_, ?_⟩
  · rw [show t.length + (q.length + 1) - (t.length + 1) = q.length by omega]; simp
  · rw [e, List.drop_append]; simp

theorem indexOfByte_skip (c : UInt8) : ∀ (a r : Bytes), c ∉ a → indexOfByte c (a ++ r) = (indexOfByte c r).map (· + a.length)
  | [], r, _ => by simp
  | x :: t, r, h => by
    have hx : (x == c) = false := by
      simp only [beq_eq_false_iff_ne, ne_eq]; intro e; exact h (by simp [e])
    have ht : c ∉ t := fun m => h (List.mem_cons_of_mem _ m)
    simp only [List.cons_append, indexOfByte, hx, indexOfByte_skip c t r ht]
    cases indexOfByte c r <;> simp <;> omega

/-- a `?` after the `#` belongs to the fragment -/
theorem split_path_fragment (t f : Bytes) (ht : t ≠ []) (h35 : 35 ∉ t) (h63 : 63 ∉ t) :
    splitTarget (t ++ 35 :: f) = (pathOf t, [], f) := by
  have hl : 0 < t.length := List.length_pos_iff.mpr ht
  unfold splitTarget pathOf
  rw [indexOfByte_append 35 t f h35, indexOfByte_skip 63 t (35 :: f) h63]
  cases hk : indexOfByte 63 (35 :: f) with
  | none => simp [hl]
  | some k =>
    have : ¬ (k + t.length < t.length) := by omega
    simp [hl, this]

/-! ## what `Url::encode` puts out never contains a delimiter of the target that the source text did not contain -/

theorem encode_byte_delims : ∀ comp : Bool, ∀ n, n < 256 → ∀ c ∈ urlEncode [UInt8.ofNat n] comp,
    (c = 35 ∨ c = 63 ∨ c = 0) → (comp = false ∧ UInt8.ofNat n = c ∧ c ≠ 0) := by decide +kernel

theorem encode_delims (comp : Bool) : ∀ s : Bytes, ∀ c ∈ urlEncode s comp, (c = 35 ∨ c = 63 ∨ c = 0) → (comp = false ∧ c ∈ s)
  | [], c, h, _ => by simp [urlEncode] at h
  | x :: t, c, h, hc => by
    rw [AslProofs.CodecExt.urlEncode_cons] at h
    rcases List.mem_append.mp h with h1 | h2
    · have := encode_byte_delims comp x.toNat x.toNat_lt
      rw [UInt8.ofNat_toNat] at this
      obtain ⟨a, b, _⟩ := this c h1 hc
      exact ⟨a, by simp [b]⟩
    · obtain ⟨a, b⟩ := encode_delims comp t c h2 hc
      exact ⟨a, List.mem_cons_of_mem _ b⟩

theorem encode_ne_nil (comp : Bool) (s : Bytes) (h : s ≠ []) : urlEncode s comp ≠ [] := by
  intro e
  have := congrArg urlDecode e
  rw [AslProofs.Codec.url_roundtrip] at this
  exact h (by simpa [urlDecode] using this)

theorem fixNul_id (p : Bytes) (h : 0 ∉ p) : fixNul p = p := by
  unfold fixNul
  induction p with
  | nil => rfl
  | cons c t ih =>
    have hc : (c != 0) = true := by
      simp only [bne_iff_ne, ne_eq]; intro e; exact h (by simp [e])
    have := ih (fun m => h (List.mem_cons_of_mem _ m))
    simp only [List.takeWhile_cons, hc, if_true, this]

end AslProofs.HttpTarget
