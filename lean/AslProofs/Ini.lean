import AslModel.Ini
/-! # C18 — helper lemmas about the IniFile model (core Lean only) -/
namespace AslProofs.Ini
open AslModel.Ini

/-! ## Dic -/
section dic
variable {α : Type}

theorem dicGet?_replace_ne (d : Dic α) (k : Bytes) (v : α) (k' : Bytes) (hk : k' ≠ k) :
    dicGet? (dicReplace d k v) k' = dicGet? d k' := by
  induction d with
  | nil => simp [dicReplace, dicGet?]
  | cons a t ih =>
    obtain ⟨ka, va⟩ := a
    simp only [dicReplace] at ih ⊢
    by_cases hka : ka = k
    · subst hka
      have : ¬ ka = k' := fun h => hk h.symm
      simp [dicGet?, this, ih]
    · simp [hka, dicGet?, ih]

theorem dicGet?_replace_eq (d : Dic α) (k : Bytes) (v : α) (h : dicHas d k = true) :
    dicGet? (dicReplace d k v) k = some v := by
  induction d with
  | nil => simp [dicHas, dicGet?] at h
  | cons a t ih =>
    obtain ⟨ka, va⟩ := a
    simp only [dicReplace] at ih ⊢
    by_cases hka : ka = k
    · subst hka; simp [dicGet?]
    · have ht : dicHas t k = true := by
        simpa [dicHas, dicGet?, hka] using h
      simp [hka, dicGet?, ih ht]

theorem dicGet?_replace (d : Dic α) (k : Bytes) (v : α) (k' : Bytes) (h : dicHas d k = true) :
    dicGet? (dicReplace d k v) k' = if k' = k then some v else dicGet? d k' := by
  by_cases hk : k' = k
  · subst hk; simp [dicGet?_replace_eq d k' v h]
  · simp [hk, dicGet?_replace_ne d k v k' hk]

theorem dicGet?_insert (d : Dic α) (k : Bytes) (v : α) (k' : Bytes) (h : dicHas d k = false) :
    dicGet? (dicInsert d k v) k' = if k' = k then some v else dicGet? d k' := by
  induction d with
  | nil =>
    by_cases hk : k' = k
    · subst hk; simp [dicInsert, dicGet?]
    · have : ¬ k = k' := fun h => hk h.symm
      simp [dicInsert, dicGet?, hk, this]
  | cons a t ih =>
    obtain ⟨ka, va⟩ := a
    have hka : ¬ ka = k := by
      intro e; subst e; simp [dicHas, dicGet?] at h
    have ht : dicHas t k = false := by
      simpa [dicHas, dicGet?, hka] using h
    simp only [dicInsert]
    split
    · by_cases hk : k' = k
      · subst hk; simp [dicGet?]
      · have : ¬ k = k' := fun h => hk h.symm
        simp [dicGet?, hk, this]
    · by_cases hk : k' = k
      · subst hk
        simp [dicGet?, hka, ih ht]
      · simp [dicGet?, ih ht, hk]

theorem dicGet?_set (d : Dic α) (k : Bytes) (v : α) (k' : Bytes) :
    dicGet? (dicSet d k v) k' = if k' = k then some v else dicGet? d k' := by
  unfold dicSet
  by_cases h : dicHas d k = true
  · simp [h, dicGet?_replace d k v k' h]
  · have h' : dicHas d k = false := by simpa using h
    simp [h', dicGet?_insert d k v k' h']

theorem dicGet?_remove (d : Dic α) (k k' : Bytes) :
    dicGet? (dicRemove d k) k' = if k' = k then none else dicGet? d k' := by
  induction d with
  | nil => simp [dicRemove, dicGet?]
  | cons a t ih =>
    obtain ⟨ka, va⟩ := a
    simp only [dicRemove] at ih ⊢
    by_cases hka : ka = k
    · subst hka
      simp only [List.filter, bne_self_eq_false, ih]
      by_cases hk : k' = ka
      · simp [hk]
      · have : ¬ ka = k' := fun h => hk h.symm
        simp [dicGet?, hk, this]
    · have : (ka != k) = true := by simpa using hka
      simp only [List.filter, this, dicGet?, ih]
      by_cases hk : k' = k
      · subst hk; simp [hka]
      · simp [hk]

end dic

/-! ## sections -/

def lookupD (secs : Dic Section) (s k : Bytes) : Bytes := (lookup secs s k).getD []

theorem dicHas_eq {α : Type} (d : Dic α) (k : Bytes) : dicHas d k = (dicGet? d k).isSome := rfl

theorem lookup_touch (secs : Dic Section) (n s k : Bytes) : lookup (touch secs n) s k = lookup secs s k := by
  unfold touch
  by_cases h : dicHas secs n = true
  · simp [h]
  · have h' : dicHas secs n = false := by simpa using h
    simp only [h', Bool.false_eq_true, if_false, lookup, dicGet?_set]
    by_cases hs : s = n
    · subst hs
      have : dicGet? secs s = none := by
        simpa [dicHas_eq] using h'
      simp [this, dicGet?]
    · simp [hs]

theorem lookup_secSet (secs : Dic Section) (c key v s k : Bytes) :
    lookup (secSet secs c key v) s k = if s = c ∧ k = key then some v else lookup secs s k := by
  simp only [secSet, lookup, dicGet?_set]
  by_cases hs : s = c
  · subst hs
    simp only [if_true, true_and, dicGet?_set, secOf]
    by_cases hk : k = key
    · simp [hk]
    · simp only [hk, if_false]
      cases h : dicGet? secs s with
      | none => simp [dicGet?]
      | some x => simp
  · simp [hs]

theorem lookup_remove (secs : Dic Section) (n s k : Bytes) :
    lookup (dicRemove secs n) s k = if s = n then none else lookup secs s k := by
  simp only [lookup, dicGet?_remove]
  by_cases hs : s = n <;> simp [hs]

theorem lookupD_touch (secs : Dic Section) (n s k : Bytes) : lookupD (touch secs n) s k = lookupD secs s k := by
  simp [lookupD, lookup_touch]

theorem lookupD_touchKey (secs : Dic Section) (c key s k : Bytes) :
    lookupD (touchKey secs c key) s k = lookupD secs s k := by
  unfold touchKey
  simp only
  by_cases h : dicHas (secOf secs c) key = true
  · simp [h, lookupD_touch]
  · have h' : dicHas (secOf secs c) key = false := by simpa using h
    simp only [h', Bool.false_eq_true, if_false, lookupD, lookup, dicGet?_set]
    by_cases hs : s = c
    · subst hs
      simp only [if_true, dicGet?_set]
      by_cases hk : k = key
      · subst hk
        have : dicGet? (secOf secs s) k = none := by simpa [dicHas_eq] using h'
        simp only [if_true, Option.getD_some]
        cases hg : dicGet? secs s with
        | none => simp
        | some x =>
          simp only [secOf, hg, Option.getD_some] at this
          simp [this]
      · simp only [hk, if_false, secOf]
        cases hg : dicGet? secs s with
        | none => simp [dicGet?]
        | some x => simp
    · simp [hs]

/-! ## the reader as a fold over line events -/

/-- what a line means to a reader: nothing, "section `n` starts", "key `k` has value `v`" -/
inductive Ev where
  | none
  | sec (n : Bytes)
  | kv (k v : Bytes)
deriving Repr, DecidableEq

/-- the reader's view of a line -/
def evR (line : Bytes) : Ev :=
  match classifyR line with
  | .header n => .sec n
  | .kv rk rv => .kv (slashToBackslash (trim rk)) (trim rv)
  | _ => .none

/-- value of `s`/`k` after the events, starting in section `cur` with value `acc` -/
def evLookup (s k : Bytes) : List Ev → Bytes → Option Bytes → Option Bytes
  | [], _, acc => acc
  | .sec n :: t, _, acc => evLookup s k t n acc
  | .kv key v :: t, cur, acc => evLookup s k t cur (if cur = s ∧ key = k then some v else acc)
  | .none :: t, cur, acc => evLookup s k t cur acc

/-- current section after the events -/
def evCur : List Ev → Bytes → Bytes
  | [], cur => cur
  | .sec n :: t, _ => evCur t n
  | _ :: t, cur => evCur t cur

theorem read_fold_lookup (sw : Bool) (s k : Bytes) (ls : List Bytes) (st : RState) :
    lookup (ls.foldl (readStep sw) st).sections s k
      = evLookup s k (ls.map evR) st.cur (lookup st.sections s k) := by
  induction ls generalizing st with
  | nil => simp [evLookup]
  | cons l t ih =>
    simp only [List.foldl_cons, List.map_cons]
    rw [ih]
    unfold readStep evR
    cases h : classifyR l with
    | skip => simp [evLookup]
    | garbage => simp [evLookup]
    | header n => simp [evLookup, lookup_touch]
    | kv rk rv =>
      simp only [evLookup, lookup_secSet]
      congr 1
      by_cases hc : st.cur = s
      · subst hc
        by_cases hk : k = slashToBackslash (trim rk)
        · subst hk; simp
        · have : ¬ slashToBackslash (trim rk) = k := fun e => hk e.symm
          simp [hk, this]
      · have : ¬ s = st.cur := fun e => hc e.symm
        simp [hc, this]

theorem lookup_initR (s k : Bytes) : lookup initR.sections s k = none := by
  show lookup (touch [] nosection) s k = none
  rw [lookup_touch]; rfl

theorem lookup_finish (sw : Bool) (st : RState) (s k : Bytes) :
    lookup (finish sw st).sections s k = lookup st.sections s k := by
  unfold finish
  by_cases h : (secOf st.sections nosection).isEmpty = true
  · simp only [h, if_true, lookup_remove]
    by_cases hs : s = nosection
    · subst hs
      simp only [if_true, lookup]
      cases hg : dicGet? st.sections nosection with
      | none => rfl
      | some x =>
        simp only [secOf, hg, Option.getD_some, List.isEmpty_iff] at h
        subst h; simp [dicGet?]
    · simp [hs]
  · simp [h]

/-- the dictionary an `IniFile` holds after reading the lines `ls` -/
theorem readLines_lookup (sw : Bool) (ls : List Bytes) (s k : Bytes) :
    lookup (readLines sw ls).sections s k = evLookup s k (ls.map evR) nosection none := by
  unfold readLines
  rw [lookup_finish, read_fold_lookup, lookup_initR]
  rfl

end AslProofs.Ini
