import AslProofs.IniPersist
import AslProofs.IniOrder
/-! # C18 — IniFile sessions (sequences of `set` / `write`) over the model (core Lean only) -/
namespace AslProofs.Ini
open AslModel
open AslModel.Ini hiding Bytes
open C18Spec hiding Bytes

abbrev Bytes := List UInt8

/-- the name `"section/key"` the API takes -/
def path (s k : Bytes) : Bytes := s ++ [47] ++ k

/-- an operation of a session on a well-formed document: `set("sec/key", value)` or `write()`
    (the destructor is a `write`) -/
inductive Op where
  | set (o : SetOp)
  | write

/-- object and file content after one operation; `none` = out-of-bounds read in `write` -/
def step (st : Ini × Bytes) : Op → Option (Ini × Bytes)
  | .set o => some (Ini.set st.1 (path o.sec o.key) o.val, st.2)
  | .write => (Ini.write st.1).map fun r => (r.ini, r.text.getD st.2)

def run : Ini × Bytes → List Op → Option (Ini × Bytes)
  | st, [] => some st
  | st, o :: t =>
    match step st o with
    | none => none
    | some st' => run st' t

def setsOf : List Op → List SetOp
  | [] => []
  | .set o :: t => o :: setsOf t
  | .write :: t => setsOf t

/-- last set of `s`/`k`, else `d` -/
def foldD (s k : Bytes) (ops : List SetOp) (d : Bytes) : Bytes :=
  ops.foldl (fun acc o => if o.sec = s ∧ o.key = k then o.val else acc) d

theorem afterSets_getD (doc : List Item) (ops : List SetOp) (s k : Bytes) :
    (afterSets doc ops s k).getD [] = foldD s k ops ((relGet doc s k).getD []) := by
  unfold afterSets foldD
  generalize relGet doc s k = a
  induction ops generalizing a with
  | nil => rfl
  | cons o t ih =>
    simp only [List.foldl_cons]
    rw [ih]
    by_cases h : o.sec = s ∧ o.key = k <;> simp [h]

/-! ## the written file is again a document of the grammar -/

theorem wfLine_kvLine (indent : Bytes) (kv : Bytes × Bytes) (hI : Blank indent) (hk : KeyOK kv.1) (hv : ValOK kv.2) :
    WFLine (kvLine indent kv) :=
  ⟨.kv indent kv.1 [] [] kv.2 [], ⟨hI, hk, blank_nil, blank_nil, hv, blank_nil⟩, by simp [Item.render, kvLine]⟩

theorem wfLine_header (title : Bytes) (h : NameOK title) : WFLine (headerLine title) :=
  ⟨.header title, h, rfl⟩

theorem placeSection_wfLines (indent : Bytes) (lines : List Bytes) (title : Bytes) (sect : Section) (out : List Bytes)
    (hI : Blank indent) (ht : NameOK title) (hs : ∀ kv ∈ sect, KeyOK kv.1 ∧ ValOK kv.2)
    (hl : ∀ l ∈ lines, WFLine l) (hp : placeSection indent lines title sect = some out) : ∀ l ∈ out, WFLine l := by
  unfold placeSection at hp
  have hkvs : ∀ l ∈ sect.map (kvLine indent), WFLine l := by
    intro l hl'
    obtain ⟨kv, hkv, rfl⟩ := List.mem_map.mp hl'
    exact wfLine_kvLine indent kv hI (hs kv hkv).1 (hs kv hkv).2
  have htake : ∀ j, ∀ l ∈ lines.take j, WFLine l := fun j l h => hl l (List.mem_of_mem_take h)
  have hdrop : ∀ j, ∀ l ∈ lines.drop j, WFLine l := fun j l h => hl l (List.mem_of_mem_drop h)
  split at hp
  · simp at hp; subst hp; exact hl
  · split at hp
    · simp only [Option.some.injEq] at hp; subst hp
      intro l hmem
      simp only [List.mem_append] at hmem
      rcases hmem with (h | h) | h
      · exact htake _ l h
      · exact hkvs l h
      · exact hdrop _ l h
    · split at hp
      · simp at hp
      · simp only [Option.some.injEq] at hp; subst hp
        intro l hmem
        simp only [List.mem_append, List.mem_singleton] at hmem
        rcases hmem with (((h | h) | h) | h) | h
        · exact htake _ l h
        · split at h
          · simp at h; subst h; exact wfLine_nil
          · simp at h
        · subst h; exact wfLine_header title ht
        · exact hkvs l h
        · exact hdrop _ l h

theorem pass2_wfLines (indent : Bytes) (hI : Blank indent) (secs : Dic Section) (lines out : List Bytes)
    (hok : SecsOK secs) (hl : ∀ l ∈ lines, WFLine l) (hp : pass2 indent lines secs = some out) :
    ∀ l ∈ out, WFLine l := by
  induction secs generalizing lines with
  | nil => simp only [pass2, Option.some.injEq] at hp; subst hp; exact hl
  | cons ts t ih =>
    obtain ⟨title, sect⟩ := ts
    obtain ⟨hnd, hall⟩ := hok
    obtain ⟨hname, hsn, hskv⟩ := hall (title, sect) (by simp)
    simp only [pass2] at hp
    cases hps : placeSection indent lines title sect with
    | none => simp [hps] at hp
    | some lines' =>
      simp only [hps] at hp
      exact ih lines' ⟨(List.nodup_cons.mp hnd).2, fun ts hts => hall ts (by simp [hts])⟩
        (placeSection_wfLines indent lines title sect lines' hI hname hskv hl hps) hp

theorem joinLines_render (doc : List Item) :
    joinLines (doc.map Item.render) = renderDoc doc [10] (!doc.isEmpty) := by
  unfold joinLines renderDoc
  induction doc with
  | nil => rfl
  | cons it t ih =>
    cases t with
    | nil => simp [joinWith]
    | cons it2 t2 =>
      simp only [List.map_cons, List.flatMap_cons, List.isEmpty_cons, Bool.not_false, if_true] at ih ⊢
      rw [ih]
      simp [joinWith, List.append_assoc]

/-- the text `write` produces is the text of a well-formed document (LF line ends) -/
theorem write_is_document (ini : Ini) (h : WFIni ini) (r : WriteResult) (hw : write ini = some r)
    (t : Bytes) (ht : r.text = some t) :
    ∃ doc : List Item, (∀ it ∈ doc, it.WF) ∧ t = renderDoc doc [10] (!doc.isEmpty) := by
  obtain ⟨doc, hlines, hd⟩ := doc_of_wfLines ini.lines h.1
  unfold write at hw
  simp only at hw
  let w0 : W1 := ⟨touch ini.sections nosection, ini.sections, nosection, ini.modified⟩
  have hw0 : ∀ s k, lookupD w0.sections s k = lookupD ini.sections s k := fun s k => lookupD_touch _ _ s k
  obtain ⟨hout1, _, _⟩ := pass1_doc ini.indent ini.sections doc hd w0 hw0
  obtain ⟨_, hnewOK⟩ := pass1_secsOK ini.indent doc hd w0 (secsOK_touch _ _ h.2.2 nameOK_nosection) h.2.2 nameOK_nosection
  rw [hlines] at hw
  change (match pass2 ini.indent (pass1 ini.indent w0 (doc.map Item.render)).2
      (pruneEmpty (pass1 ini.indent w0 (doc.map Item.render)).1.newsecs) with
    | none => none
    | some out => some _) = some r at hw
  cases hp2 : pass2 ini.indent (pass1 ini.indent w0 (doc.map Item.render)).2
      (pruneEmpty (pass1 ini.indent w0 (doc.map Item.render)).1.newsecs) with
  | none => rw [hp2] at hw; simp at hw
  | some out =>
    rw [hp2] at hw
    simp only [Option.some.injEq] at hw
    subst hw
    simp only at ht
    split at ht
    · simp only [Option.some.injEq] at ht
      subst ht
      have hdoc1 := rewriteDoc_wf ini.indent ini.sections h.2.1 h.2.2 doc hd nosection
      have hl1 : ∀ l ∈ (pass1 ini.indent w0 (doc.map Item.render)).2, WFLine l := by
        intro l hl
        rw [hout1] at hl
        obtain ⟨it, hit, rfl⟩ := List.mem_map.mp hl
        exact ⟨it, hdoc1 it hit, rfl⟩
      have hout := pass2_wfLines ini.indent h.2.1 _ _ out (secsOK_prune _ hnewOK) hl1 hp2
      obtain ⟨doc', hdl, hd'⟩ := doc_of_wfLines out hout
      exact ⟨doc', hd', by rw [hdl, joinLines_render]⟩
    · simp at ht


/-- the file holds the text of a well-formed document -/
def IsDoc (f : Bytes) : Prop :=
  ∃ (doc : List Item) (eol : Bytes) (fnl : Bool), (∀ it ∈ doc, it.WF) ∧ LineEnd eol ∧ f = renderDoc doc eol fnl

/-- the file agrees with the object -/
def Agree (st : Ini × Bytes) : Prop :=
  ∀ sw s k, lookupD (Ini.read st.2 sw).sections s k = lookupD st.1.sections s k

theorem lookupD_secSet (secs : Dic Section) (c key v s k : Bytes) :
    lookupD (secSet secs c key v) s k = if s = c ∧ k = key then v else lookupD secs s k := by
  unfold lookupD
  rw [lookup_secSet]
  by_cases h : s = c ∧ k = key <;> simp [h]

theorem run_inv (ops : List Op) (st : Ini × Bytes) (hwf : WFIni st.1) (hne : HasNE st.1.lines)
    (hops : ∀ o ∈ setsOf ops, o.WF) (hJ : st.1.modified = false → Agree st) (hdoc : IsDoc st.2) :
    ∃ st', run st ops = some st' ∧ WFIni st'.1 ∧ HasNE st'.1.lines ∧ (st'.1.modified = false → Agree st') ∧
      (∀ s k, lookupD st'.1.sections s k = foldD s k (setsOf ops) (lookupD st.1.sections s k)) ∧ IsDoc st'.2 := by
  induction ops generalizing st with
  | nil => exact ⟨st, rfl, hwf, hne, hJ, fun s k => rfl, hdoc⟩
  | cons o t ih =>
    cases o with
    | set o =>
      have ho : o.WF := hops o (by simp [setsOf])
      obtain ⟨h1, h2, h3, h4⟩ := ho
      have hwf' : WFIni (Ini.set st.1 (path o.sec o.key) o.val) := set_wf st.1 o.sec o.key o.val hwf h1 h2 h3 h4
      have hne' : HasNE (Ini.set st.1 (path o.sec o.key) o.val).lines := by
        rw [path, set_slash st.1 o.sec o.key o.val h2]; exact hne
      obtain ⟨st', hr, hw', hn', hJ', hl, hd'⟩ := ih (Ini.set st.1 (path o.sec o.key) o.val, st.2) hwf' hne'
        (fun x hx => hops x (by simp [setsOf, hx])) (by
          intro hm
          rw [path, set_slash st.1 o.sec o.key o.val h2] at hm
          simp at hm) hdoc
      refine ⟨st', by simp [run, step, hr], hw', hn', hJ', ?_, hd'⟩
      intro s k
      rw [hl s k]
      simp only [setsOf, foldD, List.foldl_cons]
      congr 1
      show lookupD (Ini.set st.1 (path o.sec o.key) o.val).sections s k = _
      rw [path, set_slash st.1 o.sec o.key o.val h2]
      simp only [lookupD_secSet]
      by_cases h : o.sec = s ∧ o.key = k
      · obtain ⟨e1, e2⟩ := h; subst e1; subst e2; simp
      · have : ¬ (s = o.sec ∧ k = o.key) := fun ⟨a, b⟩ => h ⟨a.symm, b.symm⟩
        simp [h, this]
    | write =>
      obtain ⟨r, hw, hlines⟩ := write_isSome st.1 hne
      obtain ⟨hwf', _, hsame, _, hnone⟩ := write_wf st.1 hwf r hw
      have hagree : Agree (r.ini, r.text.getD st.2) := by
        intro sw s k
        rw [hsame]
        cases ht : r.text with
        | some t =>
          obtain ⟨doc, hdl, hd⟩ := doc_of_wfLines st.1.lines hwf.1
          exact write_lookup st.1 doc hdl hd hwf.2.1 hwf.2.2 r hw t ht sw s k
        | none => exact hJ (hnone ht) sw s k
      have hdoc' : IsDoc (r.text.getD st.2) := by
        cases ht : r.text with
        | none => exact hdoc
        | some t =>
          obtain ⟨doc', hd', he'⟩ := write_is_document st.1 hwf r hw t ht
          exact ⟨doc', [10], !doc'.isEmpty, hd', Or.inl rfl, he'⟩
      obtain ⟨st', hr, hw', hn', hJ', hl, hd'⟩ := ih (r.ini, r.text.getD st.2) hwf' (by rw [hlines]; exact hne)
        (fun x hx => hops x (by simpa [setsOf] using hx)) (fun _ => hagree) hdoc'
      refine ⟨st', by simp [run, step, hw, hr], hw', hn', hJ', ?_, hd'⟩
      intro s k
      rw [hl s k]
      simp only [setsOf]
      rw [hsame]

theorem run_append (a b : List Op) (st : Ini × Bytes) :
    run st (a ++ b) = (run st a).bind fun st' => run st' b := by
  induction a generalizing st with
  | nil => rfl
  | cons o t ih =>
    simp only [List.cons_append, run]
    cases step st o with
    | none => rfl
    | some st' => exact ih st'

/-- a session ending with a `write` leaves a file that agrees with the object -/
theorem run_final_write (st1 : Ini × Bytes) (hw1 : WFIni st1.1) (hn1 : HasNE st1.1.lines)
    (hJ1 : st1.1.modified = false → Agree st1) (hdoc : IsDoc st1.2) :
    ∃ st2, run st1 [Op.write] = some st2 ∧ Agree st2 ∧ (∀ s k, lookupD st2.1.sections s k = lookupD st1.1.sections s k) ∧
      IsDoc st2.2 := by
  obtain ⟨r, hw, _⟩ := write_isSome st1.1 hn1
  obtain ⟨_, _, hsame, _, hnone⟩ := write_wf st1.1 hw1 r hw
  have hdoc' : IsDoc (r.text.getD st1.2) := by
    cases ht : r.text with
    | none => exact hdoc
    | some t =>
      obtain ⟨doc', hd', he'⟩ := write_is_document st1.1 hw1 r hw t ht
      exact ⟨doc', [10], !doc'.isEmpty, hd', Or.inl rfl, he'⟩
  refine ⟨(r.ini, r.text.getD st1.2), by simp [run, step, hw], ?_, hsame, hdoc'⟩
  intro sw s k
  rw [hsame]
  cases ht : r.text with
  | some t =>
    obtain ⟨doc', hdl, hd'⟩ := doc_of_wfLines st1.1.lines hw1.1
    exact write_lookup st1.1 doc' hdl hd' hw1.2.1 hw1.2.2 r hw t ht sw s k
  | none => exact hJ1 (hnone ht) sw s k

/-! ## arbitrary sessions on arbitrary files -/

/-- any public mutation with any byte strings -/
inductive AnyOp where
  | set (name value : Bytes)
  | put (name value : Bytes)
  | write

def anyStep (i : Ini) : AnyOp → Option Ini
  | .set n v => some (Ini.set i n v)
  | .put n v => some (Ini.put i n v)
  | .write => (Ini.write i).map (·.ini)

def anyRun : Ini → List AnyOp → Option Ini
  | i, [] => some i
  | i, o :: t =>
    match anyStep i o with
    | none => none
    | some i' => anyRun i' t

theorem anyRun_isSome (i : Ini) (h : HasNE i.lines) (ops : List AnyOp) : (anyRun i ops).isSome = true := by
  induction ops generalizing i with
  | nil => rfl
  | cons o t ih =>
    cases o with
    | set n v => simpa [anyRun, anyStep] using ih _ (by rw [set_lines]; exact h)
    | put n v => simpa [anyRun, anyStep] using ih _ (by rw [put_lines]; exact h)
    | write =>
      obtain ⟨r, hw, hl⟩ := write_isSome i h
      simpa [anyRun, anyStep, hw] using ih r.ini (by rw [hl]; exact h)

theorem ident_byte (c : UInt8)
    (h : (48 ≤ c ∧ c ≤ 57) ∨ (65 ≤ c ∧ c ≤ 90) ∨ (97 ≤ c ∧ c ≤ 122) ∨ c = 95) :
    c ≠ 61 ∧ c ≠ 10 ∧ c ≠ 47 ∧ ¬ (c = 32 ∨ c = 9 ∨ c = 10 ∨ c = 13) ∧ (47 < c ∧ c < 128 ∧ c ≠ 59 ∧ c ≠ 91) := by
  simp only [UInt8.le_iff_toNat_le, UInt8.lt_iff_toNat_lt, ne_eq, ← UInt8.toNat_inj] at h ⊢
  simp at h ⊢
  omega

/-- identifier-like keys are keys -/
theorem ident_keyOK (k : Bytes) (h : Ident k) : KeyOK k := by
  obtain ⟨hne, hall⟩ := h
  have hno : ∀ c ∈ k, c ≠ 61 ∧ c ≠ 10 ∧ c ≠ 47 ∧ ¬ White c ∧ (47 < c ∧ c < 128 ∧ c ≠ 59 ∧ c ≠ 91) :=
    fun c hc => ident_byte c (hall c hc)
  refine ⟨hne, fun h => (hno 61 h).1 rfl, fun h => (hno 10 h).2.1 rfl, fun h => (hno 47 h).2.2.1 rfl, ?_, ?_, ?_⟩
  · intro c hc
    exact (hno c (List.mem_of_mem_head? hc)).2.2.2.2
  · intro c hc
    exact (hno c (List.mem_of_getLast? hc)).2.2.2.1
  · intro h0
    exact absurd (hno 0 h0).2.2.2.2.1 (by decide)


/-- the byte strings of an operation are C strings -/
def AnyOp.NulFree : AnyOp → Prop
  | .set n v => 0 ∉ n ∧ 0 ∉ v
  | .put n v => 0 ∉ n ∧ 0 ∉ v
  | .write => True

/-! ## order of lines, from the old file to the new file -/

theorem readFold_lines (ls : List Bytes) (st : RState) (h : ∀ l ∈ ls, classifyR l ≠ .garbage) :
    (ls.foldl (readStep true) st).lines = st.lines ++ ls := by
  induction ls generalizing st with
  | nil => simp
  | cons l t ih =>
    have hl := h l (by simp)
    rw [List.foldl_cons, ih _ (fun x hx => h x (by simp [hx]))]
    unfold readStep
    cases hc : classifyR l with
    | garbage => exact absurd hc hl
    | skip => simp
    | header n => simp
    | kv a b => simp

theorem finish_lines (sw : Bool) (st : RState) : (finish sw st).lines = stripTrail st.lines := by
  unfold finish; split <;> rfl

theorem finish_indent (sw : Bool) (st : RState) : (finish sw st).indent = st.indent := by
  unfold finish; split <;> rfl

/-- `stripTrail` only drops empty lines at the end -/
theorem stripTrail_split (ls : List Bytes) : ∃ d : List Bytes, (∀ l ∈ d, l = []) ∧ stripTrail ls ++ d = ls := by
  cases ls with
  | nil => exact ⟨[], by simp, rfl⟩
  | cons a t =>
    refine ⟨(t.reverse.takeWhile (·.isEmpty)).reverse, ?_, ?_⟩
    · intro l hl
      have hall : ∀ (xs : List Bytes), ∀ x ∈ xs.takeWhile (·.isEmpty), x = [] := by
        intro xs
        induction xs with
        | nil => simp
        | cons y ys ih =>
          intro x hx
          by_cases hy : y.isEmpty = true
          · simp only [List.takeWhile_cons, hy, if_true, List.mem_cons] at hx
            rcases hx with e | e
            · subst e; simpa using hy
            · exact ih x e
          · simp [hy] at hx
      exact hall _ l (List.mem_reverse.mp hl)
    · simp only [stripTrail, List.cons_append, List.cons.injEq, true_and]
      rw [← List.reverse_append, List.takeWhile_append_dropWhile, List.reverse_reverse]

/-- the `_lines` of a fresh `IniFile` on the text of a document: the document's lines, possibly followed by
    empty lines, less the empty lines at the end -/
theorem read_lines_doc (doc : List Item) (hd : ∀ it ∈ doc, it.WF) (eol : Bytes) (he : LineEnd eol) (fnl : Bool) :
    ∃ b1 b2 : List Bytes, (∀ l ∈ b1, l = []) ∧ (∀ l ∈ b2, l = []) ∧
      (Ini.read (renderDoc doc eol fnl) true).lines ++ b1 = doc.map Item.render ++ b2 := by
  unfold AslModel.Ini.read renderDoc
  obtain ⟨extra, hex, heq⟩ := fileLines_join eol he fnl (doc.map Item.render) (by
    intro l hl
    obtain ⟨it, hit, rfl⟩ := List.mem_map.mp hl
    exact render_lineOK it (hd it hit))
  rw [heq]
  unfold readLines
  rw [finish_lines, readFold_lines]
  · obtain ⟨d, hd1, hd2⟩ := stripTrail_split (initR.lines ++ (doc.map Item.render ++ extra))
    refine ⟨d, extra, hd1, hex, ?_⟩
    rw [hd2]; simp [initR]
  · intro l hl
    rcases List.mem_append.mp hl with e | e
    · obtain ⟨it, hit, rfl⟩ := List.mem_map.mp e
      exact classifyR_render_ne_garbage it (hd it hit)
    · rw [hex l e]; simp [classifyR]

theorem write_keeps (ini : Ini) (r : WriteResult) (hw : write ini = some r) :
    r.ini.lines = ini.lines ∧ r.ini.indent = ini.indent := by
  unfold write at hw
  simp only at hw
  split at hw
  · simp at hw
  · simp only [Option.some.injEq] at hw
    subst hw
    exact ⟨rfl, rfl⟩

/-- the file is the original one, or a text that keeps every line of `L` in order -/
def FileOrd (L : List Bytes) (I orig f : Bytes) : Prop :=
  f = orig ∨ ∃ kept out : List Bytes, f = joinLines out ∧ kept.Sublist out ∧ Pointwise (SameLine I) L kept

theorem set_indent (ini : Ini) (n v : Bytes) : (Ini.set ini n v).indent = ini.indent := by
  unfold AslModel.Ini.set put; split <;> rfl

theorem run_order (ops : List Op) (st st' : Ini × Bytes) (orig : Bytes)
    (hf : FileOrd st.1.lines st.1.indent orig st.2) (hr : run st ops = some st') :
    st'.1.lines = st.1.lines ∧ st'.1.indent = st.1.indent ∧ FileOrd st.1.lines st.1.indent orig st'.2 := by
  induction ops generalizing st with
  | nil => simp only [run, Option.some.injEq] at hr; subst hr; exact ⟨rfl, rfl, hf⟩
  | cons o t ih =>
    simp only [run] at hr
    cases o with
    | set o =>
      simp only [step] at hr
      have h1 : (Ini.set st.1 (path o.sec o.key) o.val).lines = st.1.lines := set_lines _ _ _
      have h2 : (Ini.set st.1 (path o.sec o.key) o.val).indent = st.1.indent := set_indent _ _ _
      have := ih (Ini.set st.1 (path o.sec o.key) o.val, st.2) (by simp only [h1, h2]; exact hf) hr
      simpa only [h1, h2] using this
    | write =>
      simp only [step] at hr
      cases hw : Ini.write st.1 with
      | none => simp [hw] at hr
      | some r =>
        simp only [hw, Option.map_some] at hr
        obtain ⟨h1, h2⟩ := write_keeps st.1 r hw
        have hf' : FileOrd r.ini.lines r.ini.indent orig (r.text.getD st.2) := by
          rw [h1, h2]
          cases ht : r.text with
          | none => exact hf
          | some tx =>
            obtain ⟨kept, out, e1, e2, e3⟩ := write_order st.1 r hw tx ht
            exact Or.inr ⟨kept, out, e1, e2, e3⟩
        have := ih (r.ini, r.text.getD st.2) hf' hr
        simpa only [h1, h2] using this

/-- a line that the first loop of `write` does not rewrite -/
def isEntryLine (l : Bytes) : Bool :=
  match classifyW l with
  | .kv _ _ => true
  | _ => false

theorem pointwise_filter (I : Bytes) (L kept : List Bytes) (h : Pointwise (SameLine I) L kept) :
    (L.filter fun l => !isEntryLine l && !l.isEmpty).Sublist kept := by
  induction h with
  | nil => exact List.Sublist.refl _
  | @cons a b l l' hab _ ih =>
    by_cases hp : (!isEntryLine a && !a.isEmpty) = true
    · rw [List.filter_cons_of_pos (p := fun l => !isEntryLine l && !l.isEmpty) hp]
      have hne : isEntryLine a = false := by
        simp only [Bool.and_eq_true, Bool.not_eq_true'] at hp; exact hp.1
      have : b = a := by
        unfold SameLine at hab
        unfold isEntryLine at hne
        cases hc : classifyW a with
        | kv x y => simp [hc] at hne
        | skip => simpa [hc] using hab
        | garbage => simpa [hc] using hab
        | header n => simpa [hc] using hab
      subst this
      exact ih.cons₂ _
    · rw [List.filter_cons_of_neg (p := fun l => !isEntryLine l && !l.isEmpty) hp]
      exact ih.cons _

theorem filter_append_blanks (p : Bytes → Bool) (hp : p [] = false) (a b : List Bytes) (hb : ∀ l ∈ b, l = []) :
    (a ++ b).filter p = a.filter p := by
  rw [List.filter_append]
  have : b.filter p = [] := by
    apply List.filter_eq_nil_iff.mpr
    intro l hl; rw [hb l hl, hp]; simp
  simp [this]


end AslProofs.Ini
