import AslProofs.IniHistory
import AslProps.C18Spec
/-!
# C18 — which section / key names survive `set`, write, fresh read; sessions on one path

`NameOk` is the executable (Bool) form of the name conditions of `C18Spec` (`NameOK` for the section, no `/` in
the section, `KeyOK` for the key).  `oneShot` is the smallest history the correspondence check runs
(`load - 1`, `set`, `close`, `reopen 0`, `get`) on the model functions of the driver; `sessions` is a sequence of
open / sets and writes / destructor sessions on one path.
-/
namespace AslProofs.Ini
open AslModel AslModel.Ini C18Spec

/-- executable form of `KeyOK` -/
def keyOkB (k : Bytes) : Bool :=
  !k.isEmpty && !k.contains 61 && !k.contains 10 && !k.contains 47 &&
  (match k.head? with
   | some c => decide (47 < c) && decide (c < 128) && c != 59 && c != 91
   | none => true) &&
  (match k.getLast? with
   | some c => !(c == 32 || c == 9 || c == 10 || c == 13)
   | none => true) &&
  !k.contains 0

/-- executable form of `NameOK n ∧ 47 ∉ n` (what `set("n/key", …)` needs of the section part) -/
def secOkB (n : Bytes) : Bool := !n.contains 93 && !n.contains 10 && !n.contains 0 && !n.contains 47

/-- **the names that round-trip**: section without `]`, `/`, LF, NUL (anything else: blanks, `[`, `=`, `#`, `;`,
    empty); key non-empty, without `=`, `/`, LF, NUL, first byte an ASCII byte above `/` other than `;` `[`,
    last byte not white space -/
def NameOk (s k : Bytes) : Bool := secOkB s && keyOkB k

theorem keyOkB_iff (k : Bytes) : keyOkB k = true ↔ KeyOK k := by
  unfold keyOkB KeyOK White
  cases hh : k.head? <;> cases hl : k.getLast? <;>
    simp [and_assoc, UInt8.lt_iff_toNat_lt]

theorem secOkB_iff (n : Bytes) : secOkB n = true ↔ (NameOK n ∧ 47 ∉ n) := by
  unfold secOkB NameOK
  simp [and_assoc]

theorem nameOk_iff (s k : Bytes) : NameOk s k = true ↔ (NameOK s ∧ 47 ∉ s ∧ KeyOK k) := by
  unfold NameOk
  rw [Bool.and_eq_true, keyOkB_iff, secOkB_iff, and_assoc]

/-- on an existing empty file: `set("s/k", v)`, destructor, then `operator[]("s/k")` of a fresh `IniFile` -/
def oneShot (s k v : Bytes) : Option Bytes :=
  match run (Ini.read [] true, []) [Op.set ⟨s, k, v⟩, Op.write] with
  | some (_, f) => some (Ini.get (Ini.read f false) (path s k))
  | none => none

/-- names outside `NameOk`, one per clause (and a few more): empty key; `=`; LF; `/` in the key; leading blank;
    `#`; `;`; `[`; first byte below `0` (`.`); first byte above 127 (`char` is signed here); trailing blank;
    trailing CR; section with `]`; section with LF; section with `/` (the API splits at the first `/`) -/
def nameWitnesses : List (Bytes × Bytes) :=
  [([115], []), ([115], [97, 61, 98]), ([115], [97, 10, 98]), ([115], [97, 47, 98]), ([115], [32, 97]),
   ([115], [35, 97]), ([115], [59, 97]), ([115], [91, 97]), ([115], [46, 97]), ([115], [0xc3, 0xa9]),
   ([115], [97, 32]), ([115], [97, 13]), ([97, 93, 98], [107]), ([97, 10, 98], [107]), ([97, 47, 98], [107])]

/-- sessions on one path: open with `shouldwrite`, the operations, destructor; the next one opens what was left -/
def sessions (file : Bytes) : List (List Op) → Option Bytes
  | [] => some file
  | ops :: t =>
    match run (Ini.read file true, file) (ops ++ [Op.write]) with
    | none => none
    | some st => sessions st.2 t

theorem setsOf_append (a b : List Op) : setsOf (a ++ b) = setsOf a ++ setsOf b := by
  induction a with
  | nil => rfl
  | cons o t ih => cases o <;> simp [setsOf, ih]

theorem setsOf_flatten_cons (ops : List Op) (t : List (List Op)) :
    setsOf (ops :: t).flatten = setsOf ops ++ setsOf t.flatten := by
  rw [List.flatten_cons, setsOf_append]

/-- the meaning after more sets only depends on the meaning before them -/
theorem afterSets_chain (doc doc' : List Item) (a b : List SetOp) (s k : Bytes)
    (h : (relGet doc' s k).getD [] = (afterSets doc a s k).getD []) :
    (afterSets doc' b s k).getD [] = (afterSets doc (a ++ b) s k).getD [] := by
  rw [afterSets_getD, afterSets_getD, h, afterSets_getD]
  unfold foldD
  rw [List.foldl_append]

end AslProofs.Ini
