import AslProofs.IniWrite
/-! # C18 — `IniFile::write` keeps every line in place (core Lean only) -/
namespace AslProofs.Ini
open AslModel.Ini

/-- what the first loop of `write` may do to a line: entries become `indent key=value` with the same key,
    every other line (comment, header, blank, anything else) stays byte for byte -/
def SameLine (indent l l' : Bytes) : Prop :=
  match classifyW l with
  | .kv rk _ => ∃ v, l' = indent ++ trim rk ++ [61] ++ v
  | _ => l' = l

/-- the two lists have the same length and corresponding lines are related by `R` -/
inductive Pointwise (R : Bytes → Bytes → Prop) : List Bytes → List Bytes → Prop where
  | nil : Pointwise R [] []
  | cons {a b : Bytes} {l l' : List Bytes} : R a b → Pointwise R l l' → Pointwise R (a :: l) (b :: l')

theorem writeStep_same (indent : Bytes) (w : W1) (l : Bytes) : SameLine indent l (writeStep indent w l).2 := by
  unfold SameLine writeStep
  cases classifyW l with
  | skip => rfl
  | garbage => rfl
  | header n => rfl
  | kv rk rv => exact ⟨_, rfl⟩

theorem pass1_same (indent : Bytes) (w : W1) (lines : List Bytes) :
    Pointwise (SameLine indent) lines (pass1 indent w lines).2 := by
  induction lines generalizing w with
  | nil => exact Pointwise.nil
  | cons l t ih => exact Pointwise.cons (writeStep_same indent w l) (ih _)

theorem sublist_splice (l x : List Bytes) (j : Nat) : l.Sublist (l.take j ++ x ++ l.drop j) := by
  have h : l = l.take j ++ l.drop j := (List.take_append_drop j l).symm
  conv => lhs; rw [h]
  rw [List.append_assoc]
  exact List.Sublist.append (List.Sublist.refl _) (List.sublist_append_right _ _)

theorem placeSection_sublist (indent : Bytes) (lines : List Bytes) (title : Bytes) (sect : Section) (out : List Bytes)
    (hp : placeSection indent lines title sect = some out) : lines.Sublist out := by
  unfold placeSection at hp
  split at hp
  · simp only [Option.some.injEq] at hp; subst hp; exact List.Sublist.refl _
  · split at hp
    · simp only [Option.some.injEq] at hp; subst hp; exact sublist_splice _ _ _
    · split at hp
      · simp at hp
      · simp only [Option.some.injEq] at hp; subst hp
        rename_i j _
        have := sublist_splice lines ((if lines.length > 0 then [[]] else []) ++ [headerLine title] ++ sect.map (kvLine indent)) j
        simpa [List.append_assoc] using this

theorem pass2_sublist (indent : Bytes) (secs : Dic Section) (lines out : List Bytes)
    (hp : pass2 indent lines secs = some out) : lines.Sublist out := by
  induction secs generalizing lines with
  | nil => simp only [pass2, Option.some.injEq] at hp; subst hp; exact List.Sublist.refl _
  | cons ts t ih =>
    obtain ⟨title, sect⟩ := ts
    simp only [pass2] at hp
    cases hps : placeSection indent lines title sect with
    | none => simp [hps] at hp
    | some lines' =>
      simp only [hps] at hp
      exact (placeSection_sublist indent lines title sect lines' hps).trans (ih lines' hp)

/-- every line of `_lines` is still in the file, in the same order; entries are respelled `key=value`,
    all other lines are unchanged; new lines are only inserted -/
theorem write_order (ini : Ini) (r : WriteResult) (hw : write ini = some r) (t : Bytes) (ht : r.text = some t) :
    ∃ kept out : List Bytes, t = joinLines out ∧ kept.Sublist out ∧ Pointwise (SameLine ini.indent) ini.lines kept := by
  unfold write at hw
  simp only at hw
  split at hw
  · simp at hw
  · rename_i out hp2
    simp only [Option.some.injEq] at hw
    subst hw
    simp only at ht
    split at ht
    · simp only [Option.some.injEq] at ht
      exact ⟨_, out, ht.symm, pass2_sublist _ _ _ out hp2, pass1_same _ _ _⟩
    · simp at ht

/-! ## all histories: no out-of-bounds read -/

theorem put_lines (ini : Ini) (n v : Bytes) : (put ini n v).lines = ini.lines := by
  unfold put; split <;> rfl

theorem set_lines (ini : Ini) (n v : Bytes) : (AslModel.Ini.set ini n v).lines = ini.lines := by
  unfold AslModel.Ini.set; exact put_lines ini n v

end AslProofs.Ini
