import AslProofs.IniPlace
/-! # C18 — the first loop of `IniFile::write` on the lines of a well-formed document (core Lean only) -/
namespace AslProofs.Ini
open AslModel.Ini
open C18Spec (Item Blank White NameOK KeyOK ValOK)

/-! ## structure of dictionaries -/
section dic2
variable {α : Type}

theorem mem_of_dicGet? (d : Dic α) (k : Bytes) (v : α) (h : dicGet? d k = some v) : (k, v) ∈ d := by
  induction d with
  | nil => simp [dicGet?] at h
  | cons kv t ih =>
    obtain ⟨k1, v1⟩ := kv
    by_cases hk : k1 = k
    · subst hk; simp [dicGet?] at h; subst h; simp
    · simp only [dicGet?, hk, if_false] at h
      simp [ih h]

theorem not_mem_keys_of_not_has (d : Dic α) (k : Bytes) (h : dicHas d k = false) : k ∉ d.map Prod.fst := by
  induction d with
  | nil => simp
  | cons kv t ih =>
    obtain ⟨k1, v1⟩ := kv
    by_cases hk : k1 = k
    · subst hk; simp [dicHas, dicGet?] at h
    · have : dicHas t k = false := by simpa [dicHas, dicGet?, hk] using h
      have := ih this
      simp only [List.map_cons, List.mem_cons, not_or]
      exact ⟨fun e => hk e.symm, this⟩

theorem keys_dicReplace (d : Dic α) (k : Bytes) (v : α) : (dicReplace d k v).map Prod.fst = d.map Prod.fst := by
  induction d with
  | nil => rfl
  | cons kv t ih =>
    obtain ⟨k1, v1⟩ := kv
    simp only [dicReplace, List.map_cons] at ih ⊢
    by_cases hk : k1 = k
    · subst hk; simp [ih]
    · simp [hk, ih]

theorem mem_dicReplace (d : Dic α) (k : Bytes) (v : α) (x : Bytes × α) (h : x ∈ dicReplace d k v) : x = (k, v) ∨ x ∈ d := by
  simp only [dicReplace, List.mem_map] at h
  obtain ⟨y, hy, rfl⟩ := h
  by_cases hk : y.1 = k
  · simp [hk]
  · simp [hk, hy]

theorem mem_dicInsert (d : Dic α) (k : Bytes) (v : α) (x : Bytes × α) (h : x ∈ dicInsert d k v) : x = (k, v) ∨ x ∈ d := by
  induction d with
  | nil => simpa [dicInsert] using h
  | cons kv t ih =>
    obtain ⟨k1, v1⟩ := kv
    simp only [dicInsert] at h
    split at h
    · simpa using h
    · simp only [List.mem_cons] at h ⊢
      rcases h with e | e
      · exact Or.inr (Or.inl e)
      · rcases ih e with e' | e'
        · exact Or.inl e'
        · exact Or.inr (Or.inr e')

theorem keys_dicInsert_perm (d : Dic α) (k : Bytes) (v : α) : ((dicInsert d k v).map Prod.fst).Perm (k :: d.map Prod.fst) := by
  induction d with
  | nil => simp [dicInsert]
  | cons kv t ih =>
    obtain ⟨k1, v1⟩ := kv
    simp only [dicInsert]
    split
    · simp
    · simp only [List.map_cons]
      exact (List.Perm.cons k1 ih).trans (List.Perm.swap k k1 _)

theorem mem_dicSet (d : Dic α) (k : Bytes) (v : α) (x : Bytes × α) (h : x ∈ dicSet d k v) : x = (k, v) ∨ x ∈ d := by
  unfold dicSet at h
  split at h
  · exact mem_dicReplace d k v x h
  · exact mem_dicInsert d k v x h

theorem keysNodup_dicSet (d : Dic α) (k : Bytes) (v : α) (h : KeysNodup d) : KeysNodup (dicSet d k v) := by
  unfold dicSet KeysNodup
  by_cases hh : dicHas d k = true
  · simp only [hh, if_true, keys_dicReplace]; exact h
  · have hh' : dicHas d k = false := by simpa using hh
    simp only [hh', Bool.false_eq_true, if_false]
    exact (keys_dicInsert_perm d k v).nodup_iff.mpr (List.nodup_cons.mpr ⟨not_mem_keys_of_not_has d k hh', h⟩)

theorem keysNodup_filter (d : Dic α) (p : Bytes × α → Bool) (h : KeysNodup d) : KeysNodup (d.filter p) := by
  unfold KeysNodup at h ⊢
  exact List.Nodup.sublist (List.Sublist.map _ (List.filter_sublist)) h

theorem dicGet?_filter (d : Dic α) (p : Bytes × α → Bool) (h : KeysNodup d) (k : Bytes) :
    dicGet? (d.filter p) k = match dicGet? d k with
      | some v => if p (k, v) then some v else none
      | none => none := by
  induction d with
  | nil => simp [dicGet?]
  | cons kv t ih =>
    obtain ⟨k1, v1⟩ := kv
    have hn' : KeysNodup t := (List.nodup_cons.mp h).2
    have hk1 : k1 ∉ t.map Prod.fst := (List.nodup_cons.mp h).1
    by_cases hk : k1 = k
    · subst hk
      by_cases hp : p (k1, v1) = true
      · simp [List.filter, hp, dicGet?]
      · have hp' : p (k1, v1) = false := by simpa using hp
        have : dicGet? (t.filter p) k1 = none := by
          apply dicGet?_none_of_not_mem
          intro hmem
          apply hk1
          obtain ⟨x, hx, hxe⟩ := List.mem_map.mp hmem
          exact List.mem_map.mpr ⟨x, (List.mem_filter.mp hx).1, hxe⟩
        simp [List.filter, hp', dicGet?, this]
    · by_cases hp : p (k1, v1) = true
      · simp [List.filter, hp, dicGet?, hk, ih hn']
      · have hp' : p (k1, v1) = false := by simpa using hp
        simp [List.filter, hp', dicGet?, hk, ih hn']

end dic2

theorem nameOK_nosection : NameOK nosection := by
  refine ⟨?_, ?_, ?_⟩ <;> decide

theorem valOK_nil : ValOK [] := by
  refine ⟨by simp, ?_, ?_, by simp⟩ <;> intro c hc <;> simp at hc

theorem secsOK_set (secs : Dic Section) (c : Bytes) (x : Section) (h : SecsOK secs) (hc : NameOK c)
    (hx : KeysNodup x) (hxe : ∀ kv ∈ x, KeyOK kv.1 ∧ ValOK kv.2) : SecsOK (dicSet secs c x) := by
  refine ⟨keysNodup_dicSet secs c x h.1, ?_⟩
  intro ts hts
  rcases mem_dicSet secs c x ts hts with e | e
  · subst e; exact ⟨hc, hx, hxe⟩
  · exact h.2 ts e

theorem secOf_ok (secs : Dic Section) (c : Bytes) (h : SecsOK secs) :
    KeysNodup (secOf secs c) ∧ ∀ kv ∈ secOf secs c, KeyOK kv.1 ∧ ValOK kv.2 := by
  unfold secOf
  cases hg : dicGet? secs c with
  | none => simp [KeysNodup]
  | some x =>
    have := h.2 (c, x) (mem_of_dicGet? secs c x hg)
    exact ⟨this.2.1, this.2.2⟩

theorem secsOK_touch (secs : Dic Section) (c : Bytes) (h : SecsOK secs) (hc : NameOK c) : SecsOK (touch secs c) := by
  unfold touch
  split
  · exact h
  · exact secsOK_set secs c [] h hc (by simp [KeysNodup]) (by simp)

theorem secsOK_secSet (secs : Dic Section) (c key v : Bytes) (h : SecsOK secs) (hc : NameOK c) (hk : KeyOK key) (hv : ValOK v) :
    SecsOK (secSet secs c key v) := by
  unfold secSet
  obtain ⟨h1, h2⟩ := secOf_ok secs c h
  apply secsOK_set secs c _ h hc (keysNodup_dicSet _ key v h1)
  intro kv hkv
  rcases mem_dicSet _ key v kv hkv with e | e
  · subst e; exact ⟨hk, hv⟩
  · exact h2 kv e

theorem secsOK_touchKey (secs : Dic Section) (c key : Bytes) (h : SecsOK secs) (hc : NameOK c) (hk : KeyOK key) :
    SecsOK (touchKey secs c key) := by
  unfold touchKey
  simp only
  split
  · exact secsOK_touch secs c h hc
  · exact secsOK_secSet secs c key [] h hc hk valOK_nil

theorem secsOK_removeKey (secs : Dic Section) (c key : Bytes) (h : SecsOK secs) (hc : NameOK c) :
    SecsOK (dicSet secs c (dicRemove (secOf secs c) key)) := by
  obtain ⟨h1, h2⟩ := secOf_ok secs c h
  apply secsOK_set secs c _ h hc (keysNodup_filter _ _ h1)
  intro kv hkv
  exact h2 kv (List.mem_filter.mp hkv).1

theorem lookup_removeKey (secs : Dic Section) (c key s k : Bytes) :
    lookup (dicSet secs c (dicRemove (secOf secs c) key)) s k = if s = c ∧ k = key then none else lookup secs s k := by
  simp only [lookup, dicGet?_set]
  by_cases hs : s = c
  · subst hs
    simp only [if_true, true_and, dicGet?_remove, secOf]
    by_cases hk : k = key
    · simp [hk]
    · simp only [hk, if_false]
      cases hg : dicGet? secs s with
      | none => simp [dicGet?]
      | some x => simp
  · simp [hs]

theorem lookupD_valOK (secs : Dic Section) (s k : Bytes) (h : SecsOK secs) : ValOK (lookupD secs s k) := by
  unfold lookupD lookup
  cases hg : dicGet? secs s with
  | none => exact valOK_nil
  | some x =>
    simp only
    cases hk : dicGet? x k with
    | none => exact valOK_nil
    | some v =>
      have h1 := h.2 (s, x) (mem_of_dicGet? secs s x hg)
      exact (h1.2.2 (k, v) (mem_of_dicGet? x k v hk)).2


theorem idxOf_cons_ne (c x : UInt8) (t : Bytes) (h : x ≠ c) : idxOf c (x :: t) = (idxOf c t).map (· + 1) := by
  simp [idxOf, h]

/-- the reader and the first loop of the writer classify alike every line the reader keeps -/
theorem classifyW_eq_classifyR (l : Bytes) (h : classifyR l ≠ .garbage) : classifyW l = classifyR l := by
  unfold classifyR at h ⊢
  unfold classifyW
  cases l with
  | nil => simp [charAt, leadSpaces, isKeyStart]
  | cons x t =>
    simp only [List.isEmpty_cons, Bool.false_eq_true, if_false] at h ⊢
    by_cases h0 : charAt (x :: t) 0 = 91
    · have hx : x = 91 := by simpa [charAt] using h0
      subst hx
      simp only [h0, if_true, List.drop_succ_cons, List.drop_zero]
      rw [idxOf_cons_ne 93 91 t (by decide)]
      cases idxOf 93 t with
      | none => simp
      | some e => simp
    · simp only [h0, if_false] at h ⊢
      by_cases hk : isKeyStart (charAt (x :: t) (leadSpaces (x :: t))) = true
      · simp only [hk, if_true] at h ⊢
        cases hi : idxOf 61 (x :: t) with
        | none => simp [hi] at h
        | some i =>
          cases i with
          | zero => simp [hi] at h
          | succ i => simp
      · simp [hk]

theorem classifyR_render_ne_garbage (it : Item) (h : it.WF) : classifyR it.render ≠ .garbage := by
  cases it with
  | header n => rw [Item.render, classifyR_header n h]; simp
  | kv ind key ws1 ws2 val ws3 =>
    rw [Item.render, classifyR_kv ind key ws1 ws2 val ws3 h.1 h.2.1 h.2.2.1]; simp
  | comment ws m t => rw [Item.render, classifyR_comment ws m t h.1 h.2.1]; simp
  | blank ws => rw [Item.render, classifyR_blank ws h]; simp

/-- the document after the first loop of `write`: every `key = value` line spells the value held in `secs` -/
def rewriteDoc (indent : Bytes) (secs : Dic Section) : List Item → Bytes → List Item
  | [], _ => []
  | .header n :: t, _ => .header n :: rewriteDoc indent secs t n
  | .kv _ key _ _ _ _ :: t, cur => .kv indent key [] [] (lookupD secs cur key) [] :: rewriteDoc indent secs t cur
  | .comment ws m x :: t, cur => .comment ws m x :: rewriteDoc indent secs t cur
  | .blank ws :: t, cur => .blank ws :: rewriteDoc indent secs t cur

theorem trim_key (ind key ws1 : Bytes) (hind : Blank ind) (hkey : KeyOK key) (hws1 : Blank ws1) :
    trim (ind ++ key ++ ws1) = key := by
  apply trim_margins ind key ws1 (blank_isSpace hind) (blank_isSpace hws1)
  · intro c hc; exact keyStart_not_space (hkey.2.2.2.2.1 c hc).1
  · intro c hc; exact not_white_isSpace (hkey.2.2.2.2.2.1 c hc)

theorem trim_val (ws2 val ws3 : Bytes) (hws2 : Blank ws2) (hval : ValOK val) (hws3 : Blank ws3) :
    trim (ws2 ++ val ++ ws3) = val := by
  apply trim_margins ws2 val ws3 (blank_isSpace hws2) (blank_isSpace hws3)
  · intro c hc; exact not_white_isSpace (hval.2.1 c hc)
  · intro c hc; exact not_white_isSpace (hval.2.2.1 c hc)

/-- first loop of `write` on the lines of a well-formed document -/
theorem pass1_doc (indent : Bytes) (secs : Dic Section) (doc : List Item) (hd : ∀ it ∈ doc, it.WF) (w : W1)
    (hw : ∀ s k, lookupD w.sections s k = lookupD secs s k) :
    (pass1 indent w (doc.map Item.render)).2 = (rewriteDoc indent secs doc w.sec).map Item.render ∧
    (∀ s k, lookup (pass1 indent w (doc.map Item.render)).1.newsecs s k =
        if occE s k (doc.map evOf) w.sec = true then none else lookup w.newsecs s k) ∧
    (∀ s k, lookupD (pass1 indent w (doc.map Item.render)).1.sections s k = lookupD secs s k) := by
  induction doc generalizing w with
  | nil => exact ⟨by simp [pass1, rewriteDoc], by simp [pass1, occE], by simpa [pass1] using hw⟩
  | cons it t ih =>
    have hit : it.WF := hd it (by simp)
    have ht : ∀ it ∈ t, it.WF := fun x hx => hd x (by simp [hx])
    have hcw : classifyW it.render = classifyR it.render :=
      classifyW_eq_classifyR _ (classifyR_render_ne_garbage it hit)
    simp only [List.map_cons, pass1]
    cases it with
    | header n =>
      have hstep : writeStep indent w (Item.render (.header n)) =
          ((⟨touch w.sections n, w.newsecs, n, w.modified⟩ : W1), Item.render (.header n)) := by
        unfold writeStep
        rw [hcw, Item.render, classifyR_header n hit]
      rw [hstep]
      obtain ⟨h1, h2, h3⟩ := ih ht (⟨touch w.sections n, w.newsecs, n, w.modified⟩ : W1) (by
        intro s k; simp only [lookupD_touch]; exact hw s k)
      refine ⟨?_, ?_, h3⟩
      · simp only [rewriteDoc, List.map_cons, h1]
      · intro s k; rw [h2]; simp [evOf, occE]
    | kv ind key ws1 ws2 val ws3 =>
      obtain ⟨hind, hkey, hws1, hws2, hval, hws3⟩ := hit
      let w' : W1 := ⟨touchKey w.sections w.sec key, dicSet w.newsecs w.sec (dicRemove (secOf w.newsecs w.sec) key), w.sec, w.modified || val != (lookup (touchKey w.sections w.sec key) w.sec key).getD []⟩
      have hstep : writeStep indent w (Item.render (.kv ind key ws1 ws2 val ws3)) =
          (w', indent ++ key ++ [61] ++ (lookup (touchKey w.sections w.sec key) w.sec key).getD []) := by
        unfold writeStep
        rw [hcw, Item.render, classifyR_kv ind key ws1 ws2 val ws3 hind hkey hws1]
        simp only [trim_key ind key ws1 hind hkey hws1, trim_val ws2 val ws3 hws2 hval hws3, w']
      rw [hstep]
      have hv : (lookup (touchKey w.sections w.sec key) w.sec key).getD [] = lookupD secs w.sec key := by
        have := lookupD_touchKey w.sections w.sec key w.sec key
        unfold lookupD at this
        rw [this]; exact hw w.sec key
      obtain ⟨h1, h2, h3⟩ := ih ht w' (by
        intro s k; simp only [w', lookupD_touchKey]; exact hw s k)
      refine ⟨?_, ?_, h3⟩
      · simp only [rewriteDoc, List.map_cons, h1, hv, Item.render, List.append_nil]
        rfl
      · intro s k
        rw [h2]
        simp only [w', evOf, occE, lookup_removeKey]
        by_cases hsk : w.sec = s ∧ key = k
        · obtain ⟨e1, e2⟩ := hsk
          subst e1; subst e2
          simp
        · have : ¬ (s = w.sec ∧ k = key) := fun ⟨a, b⟩ => hsk ⟨a.symm, b.symm⟩
          simp [hsk, this]
    | comment ws m x =>
      have hstep : writeStep indent w (Item.render (.comment ws m x)) = (w, Item.render (.comment ws m x)) := by
        unfold writeStep
        rw [hcw, Item.render, classifyR_comment ws m x hit.1 hit.2.1]
      rw [hstep]
      obtain ⟨h1, h2, h3⟩ := ih ht w hw
      refine ⟨?_, ?_, h3⟩
      · simp only [rewriteDoc, List.map_cons, h1]
      · intro s k; rw [h2]; simp [evOf, occE]
    | blank ws =>
      have hstep : writeStep indent w (Item.render (.blank ws)) = (w, Item.render (.blank ws)) := by
        unfold writeStep
        rw [hcw, Item.render, classifyR_blank ws hit]
      rw [hstep]
      obtain ⟨h1, h2, h3⟩ := ih ht w hw
      refine ⟨?_, ?_, h3⟩
      · simp only [rewriteDoc, List.map_cons, h1]
      · intro s k; rw [h2]; simp [evOf, occE]


theorem blank_nil : Blank [] := by intro c hc; simp at hc

theorem rewriteDoc_wf (indent : Bytes) (secs : Dic Section) (hI : Blank indent) (hS : SecsOK secs)
    (doc : List Item) (hd : ∀ it ∈ doc, it.WF) (cur : Bytes) : ∀ it ∈ rewriteDoc indent secs doc cur, it.WF := by
  induction doc generalizing cur with
  | nil => simp [rewriteDoc]
  | cons it t ih =>
    have hit : it.WF := hd it (by simp)
    have ht : ∀ it ∈ t, it.WF := fun x hx => hd x (by simp [hx])
    cases it with
    | header n =>
      intro x hx
      simp only [rewriteDoc, List.mem_cons] at hx
      rcases hx with e | e
      · subst e; exact hit
      · exact ih ht n x e
    | kv ind key ws1 ws2 val ws3 =>
      intro x hx
      simp only [rewriteDoc, List.mem_cons] at hx
      rcases hx with e | e
      · subst e
        exact ⟨hI, hit.2.1, blank_nil, blank_nil, lookupD_valOK secs cur key hS, blank_nil⟩
      · exact ih ht cur x e
    | comment ws m y =>
      intro x hx
      simp only [rewriteDoc, List.mem_cons] at hx
      rcases hx with e | e
      · subst e; exact hit
      · exact ih ht cur x e
    | blank ws =>
      intro x hx
      simp only [rewriteDoc, List.mem_cons] at hx
      rcases hx with e | e
      · subst e; exact hit
      · exact ih ht cur x e

theorem occE_rewrite (indent : Bytes) (secs : Dic Section) (s k : Bytes) (doc : List Item) (cur : Bytes) :
    occE s k ((rewriteDoc indent secs doc cur).map evOf) cur = occE s k (doc.map evOf) cur := by
  induction doc generalizing cur with
  | nil => rfl
  | cons it t ih => cases it <;> simp [rewriteDoc, evOf, occE, ih]

theorem evLookup_rewrite (indent : Bytes) (secs : Dic Section) (s k : Bytes) (doc : List Item) (cur : Bytes)
    (acc : Option Bytes) :
    evLookup s k ((rewriteDoc indent secs doc cur).map evOf) cur acc =
      if occE s k (doc.map evOf) cur = true then some (lookupD secs s k) else acc := by
  induction doc generalizing cur acc with
  | nil => simp [rewriteDoc, evLookup, occE]
  | cons it t ih =>
    cases it with
    | header n => simp [rewriteDoc, evOf, evLookup, occE, ih]
    | comment ws m y => simp [rewriteDoc, evOf, evLookup, occE, ih]
    | blank ws => simp [rewriteDoc, evOf, evLookup, occE, ih]
    | kv ind key ws1 ws2 val ws3 =>
      simp only [rewriteDoc, List.map_cons, evOf, evLookup, occE, ih]
      by_cases h : cur = s ∧ key = k
      · obtain ⟨e1, e2⟩ := h
        subst e1; subst e2
        simp
      · simp [h]

theorem map_evR_render (doc : List Item) (hd : ∀ it ∈ doc, it.WF) : (doc.map Item.render).map evR = doc.map evOf := by
  rw [List.map_map]
  apply List.map_congr_left
  intro it hit
  exact evR_render it (hd it hit)

/-! ## the text written is read back line by line -/

theorem fileLines_joinLines (out : List Bytes) (h : ∀ l ∈ out, LineOK l) : fileLines (joinLines out) = out ++ [[]] := by
  unfold fileLines joinLines
  induction out with
  | nil => rfl
  | cons l t ih =>
    have hl := h l (by simp)
    have e : List.flatMap (fun x => x ++ [10]) (l :: t) = l ++ 10 :: List.flatMap (fun x => x ++ [10]) t := by
      simp
    rw [e, splitLF_line l _ [] hl.1, ih (fun x hx => h x (by simp [hx]))]
    simp [stripCR_ok l hl.2]

theorem lineOK_nil : LineOK [] := by
  constructor <;> simp

theorem lineOK_headerLine (title : Bytes) (h : NameOK title) : LineOK (headerLine title) :=
  render_lineOK (.header title) h

theorem lineOK_kvLine (indent : Bytes) (kv : Bytes × Bytes) (hI : Blank indent) (hk : KeyOK kv.1) (hv : ValOK kv.2) :
    LineOK (kvLine indent kv) := by
  have := render_lineOK (.kv indent kv.1 [] [] kv.2 []) ⟨hI, hk, blank_nil, blank_nil, hv, blank_nil⟩
  simpa [Item.render, kvLine] using this

theorem placeSection_lineOK (indent : Bytes) (lines : List Bytes) (title : Bytes) (sect : Section) (out : List Bytes)
    (hI : Blank indent) (ht : NameOK title) (hs : ∀ kv ∈ sect, KeyOK kv.1 ∧ ValOK kv.2)
    (hl : ∀ l ∈ lines, LineOK l) (hp : placeSection indent lines title sect = some out) : ∀ l ∈ out, LineOK l := by
  unfold placeSection at hp
  have hkvs : ∀ l ∈ sect.map (kvLine indent), LineOK l := by
    intro l hl'
    obtain ⟨kv, hkv, rfl⟩ := List.mem_map.mp hl'
    exact lineOK_kvLine indent kv hI (hs kv hkv).1 (hs kv hkv).2
  have htake : ∀ j, ∀ l ∈ lines.take j, LineOK l := fun j l h => hl l (List.mem_of_mem_take h)
  have hdrop : ∀ j, ∀ l ∈ lines.drop j, LineOK l := fun j l h => hl l (List.mem_of_mem_drop h)
  split at hp
  · simp at hp; subst hp; exact hl
  · split at hp
    · simp only [Option.some.injEq] at hp; subst hp
      intro l hmem
      simp only [List.mem_append] at hmem
      rcases hmem with (h | h) | h
      · exact htake _ l h
      · exact hkvs l h
      · exact hdrop _ l h
    · split at hp
      · simp at hp
      · simp only [Option.some.injEq] at hp; subst hp
        intro l hmem
        simp only [List.mem_append, List.mem_singleton] at hmem
        rcases hmem with (((h | h) | h) | h) | h
        · exact htake _ l h
        · split at h
          · simp at h; subst h; exact lineOK_nil
          · simp at h
        · subst h; exact lineOK_headerLine title ht
        · exact hkvs l h
        · exact hdrop _ l h

theorem pass2_lineOK (indent : Bytes) (hI : Blank indent) (secs : Dic Section) (lines out : List Bytes)
    (hok : SecsOK secs) (hl : ∀ l ∈ lines, LineOK l) (hp : pass2 indent lines secs = some out) :
    ∀ l ∈ out, LineOK l := by
  induction secs generalizing lines with
  | nil => simp only [pass2, Option.some.injEq] at hp; subst hp; exact hl
  | cons ts t ih =>
    obtain ⟨title, sect⟩ := ts
    obtain ⟨hnd, hall⟩ := hok
    obtain ⟨hname, hsn, hskv⟩ := hall (title, sect) (by simp)
    simp only [pass2] at hp
    cases hps : placeSection indent lines title sect with
    | none => simp [hps] at hp
    | some lines' =>
      simp only [hps] at hp
      exact ih lines' ⟨(List.nodup_cons.mp hnd).2, fun ts hts => hall ts (by simp [hts])⟩
        (placeSection_lineOK indent lines title sect lines' hI hname hskv hl hps) hp


end AslProofs.Ini
