import AslProofs.IniPass1
/-! # C18 — `IniFile::write` followed by a fresh read returns what the object holds (core Lean only) -/
namespace AslProofs.Ini
open AslModel.Ini
open C18Spec (Item Blank White NameOK KeyOK ValOK joinWith renderDoc LineEnd rel relGet)

/-- `writeStep` on the text of a well-formed item -/
theorem writeStep_render (indent : Bytes) (w : W1) (it : Item) (hit : it.WF) :
    writeStep indent w it.render =
      match it with
      | .header n => ((⟨touch w.sections n, w.newsecs, n, w.modified⟩ : W1), it.render)
      | .kv _ key _ _ val _ =>
        ((⟨touchKey w.sections w.sec key, dicSet w.newsecs w.sec (dicRemove (secOf w.newsecs w.sec) key), w.sec,
            w.modified || val != (lookup (touchKey w.sections w.sec key) w.sec key).getD []⟩ : W1),
          indent ++ key ++ [61] ++ (lookup (touchKey w.sections w.sec key) w.sec key).getD [])
      | _ => (w, it.render) := by
  have hcw : classifyW it.render = classifyR it.render :=
    classifyW_eq_classifyR _ (classifyR_render_ne_garbage it hit)
  unfold writeStep
  rw [hcw]
  cases it with
  | header n => rw [Item.render, classifyR_header n hit]
  | kv ind key ws1 ws2 val ws3 =>
    obtain ⟨hind, hkey, hws1, hws2, hval, hws3⟩ := hit
    rw [Item.render, classifyR_kv ind key ws1 ws2 val ws3 hind hkey hws1]
    simp only [trim_key ind key ws1 hind hkey hws1, trim_val ws2 val ws3 hws2 hval hws3]
  | comment ws m x => rw [Item.render, classifyR_comment ws m x hit.1 hit.2.1]
  | blank ws => rw [Item.render, classifyR_blank ws hit]

theorem pass1_secsOK (indent : Bytes) (doc : List Item) (hd : ∀ it ∈ doc, it.WF) (w : W1)
    (h1 : SecsOK w.sections) (h2 : SecsOK w.newsecs) (h3 : NameOK w.sec) :
    SecsOK (pass1 indent w (doc.map Item.render)).1.sections ∧ SecsOK (pass1 indent w (doc.map Item.render)).1.newsecs := by
  induction doc generalizing w with
  | nil => exact ⟨h1, h2⟩
  | cons it t ih =>
    have hit : it.WF := hd it (by simp)
    have ht : ∀ it ∈ t, it.WF := fun x hx => hd x (by simp [hx])
    simp only [List.map_cons, pass1, writeStep_render indent w it hit]
    cases it with
    | header n => exact ih ht _ (secsOK_touch _ n h1 hit) h2 hit
    | kv ind key ws1 ws2 val ws3 =>
      exact ih ht _ (secsOK_touchKey _ _ key h1 h3 hit.2.1) (secsOK_removeKey _ _ key h2 h3) h3
    | comment ws m x => exact ih ht w h1 h2 h3
    | blank ws => exact ih ht w h1 h2 h3

theorem pass1_modified (indent : Bytes) (lines : List Bytes) (w : W1) (h : w.modified = true) :
    (pass1 indent w lines).1.modified = true := by
  induction lines generalizing w with
  | nil => exact h
  | cons l t ih =>
    simp only [pass1]
    apply ih
    unfold writeStep
    cases classifyW l <;> simp [h]

theorem allEmpty_get (x : Section) (k v : Bytes) (h : allEmpty x = true) (hg : dicGet? x k = some v) : v = [] := by
  have := mem_of_dicGet? x k v hg
  unfold allEmpty at h
  have := List.all_eq_true.mp h (k, v) this
  simpa using this

theorem secsOK_prune (secs : Dic Section) (h : SecsOK secs) : SecsOK (pruneEmpty secs) :=
  ⟨keysNodup_filter _ _ h.1, fun ts hts => h.2 ts (List.mem_filter.mp hts).1⟩

theorem lookup_prune (secs : Dic Section) (h : SecsOK secs) (s k : Bytes) :
    lookup (pruneEmpty secs) s k =
      match dicGet? secs s with
      | some x => if allEmpty x then none else dicGet? x k
      | none => none := by
  unfold lookup pruneEmpty
  rw [dicGet?_filter secs _ h.1 s]
  cases dicGet? secs s with
  | none => rfl
  | some x => by_cases ha : allEmpty x = true <;> simp [ha]

/-- **the written file says what the object holds**: when `_lines` are the lines of a well-formed document,
    the indent is blank and the dictionary is well formed, every `section/key` read back from the text that
    `write` produces has the value the object holds (absent ≙ empty) -/
theorem write_lookup (ini : Ini) (doc : List Item) (hlines : ini.lines = doc.map Item.render)
    (hd : ∀ it ∈ doc, it.WF) (hI : Blank ini.indent) (hS : SecsOK ini.sections)
    (r : WriteResult) (hw : write ini = some r) (t : Bytes) (ht : r.text = some t) (sw : Bool) (s k : Bytes) :
    lookupD (AslModel.Ini.read t sw).sections s k = lookupD ini.sections s k := by
  unfold write at hw
  simp only at hw
  -- first loop
  let w0 : W1 := ⟨touch ini.sections nosection, ini.sections, nosection, ini.modified⟩
  have hw0 : ∀ s k, lookupD w0.sections s k = lookupD ini.sections s k := fun s k => lookupD_touch _ _ s k
  obtain ⟨hout1, hnew, _⟩ := pass1_doc ini.indent ini.sections doc hd w0 hw0
  have hnew : ∀ s k, lookup (pass1 ini.indent w0 (doc.map Item.render)).1.newsecs s k =
      if occE s k (doc.map evOf) nosection = true then none else lookup ini.sections s k := hnew
  obtain ⟨_, hnewOK⟩ := pass1_secsOK ini.indent doc hd w0 (secsOK_touch _ _ hS nameOK_nosection) hS nameOK_nosection
  rw [hlines] at hw
  change (match pass2 ini.indent (pass1 ini.indent w0 (doc.map Item.render)).2
      (pruneEmpty (pass1 ini.indent w0 (doc.map Item.render)).1.newsecs) with
    | none => none
    | some out => some _) = some r at hw
  cases hp2 : pass2 ini.indent (pass1 ini.indent w0 (doc.map Item.render)).2
      (pruneEmpty (pass1 ini.indent w0 (doc.map Item.render)).1.newsecs) with
  | none => rw [hp2] at hw; simp at hw
  | some out =>
    rw [hp2] at hw
    simp only [Option.some.injEq] at hw
    subst hw
    simp only at ht
    split at ht
    · simp only [Option.some.injEq] at ht
      subst ht
      -- the document after the first loop
      let doc1 := rewriteDoc ini.indent ini.sections doc nosection
      have hdoc1 : ∀ it ∈ doc1, it.WF := rewriteDoc_wf ini.indent ini.sections hI hS doc hd nosection
      have hev1 : (pass1 ini.indent w0 (doc.map Item.render)).2.map evR = doc1.map evOf := by
        rw [hout1]; exact map_evR_render doc1 hdoc1
      have hprOK := secsOK_prune _ hnewOK
      have hno : ∀ s k, (lookup (pruneEmpty (pass1 ini.indent w0 (doc.map Item.render)).1.newsecs) s k).isSome = true →
          occE s k ((pass1 ini.indent w0 (doc.map Item.render)).2.map evR) nosection = false := by
        intro s k hsome
        rw [hev1, occE_rewrite]
        rw [lookup_prune _ hnewOK] at hsome
        cases hg : dicGet? (pass1 ini.indent w0 (doc.map Item.render)).1.newsecs s with
        | none => simp [hg] at hsome
        | some x =>
          simp only [hg] at hsome
          by_cases ha : allEmpty x = true
          · simp [ha] at hsome
          · simp only [ha, Bool.false_eq_true, if_false] at hsome
            have h2 := hnew s k
            simp only [lookup, hg] at h2
            by_cases hocc : occE s k (doc.map evOf) nosection = true
            · simp only [hocc, if_true] at h2
              rw [h2] at hsome; simp at hsome
            · simpa using hocc
      have hev := pass2_events ini.indent hI _ _ out hprOK hp2 hno s k
      have hlok : ∀ l ∈ out, LineOK l := by
        apply pass2_lineOK ini.indent hI _ _ out hprOK _ hp2
        intro l hl
        rw [hout1] at hl
        obtain ⟨it, hit, rfl⟩ := List.mem_map.mp hl
        exact render_lineOK it (hdoc1 it hit)
      unfold lookupD AslModel.Ini.read
      rw [fileLines_joinLines out hlok, readLines_lookup, List.map_append,
        evLookup_append_none _ _ _ _ _ _ (by intro e he; simp [evR_nil] at he; exact he), hev, hev1,
        evLookup_rewrite, lookup_prune _ hnewOK]
      have h2 := hnew s k
      generalize (pass1 ini.indent w0 (doc.map Item.render)).1.newsecs = N at h2 ⊢
      simp only [lookupD]
      generalize hL : lookup ini.sections s k = L at h2 ⊢
      by_cases hocc : occE s k (doc.map evOf) nosection = true
      · simp only [hocc, if_true] at h2
        simp only [hocc, if_true]
        cases hg : dicGet? N s with
        | none => simp
        | some x =>
          have h3 : dicGet? x k = none := by simpa only [lookup, hg] using h2
          by_cases ha : allEmpty x = true <;> simp [ha, h3]
      · simp only [hocc, Bool.false_eq_true, if_false] at h2
        simp only [hocc, Bool.false_eq_true, if_false, Option.or_none]
        cases hg : dicGet? N s with
        | none =>
          have h3 : L = none := by rw [← h2]; simp only [lookup, hg]
          simp [h3]
        | some x =>
          have h3 : dicGet? x k = L := by rw [← h2]; simp only [lookup, hg]
          by_cases ha : allEmpty x = true
          · simp only [ha, if_true, Option.getD_none]
            cases hk : dicGet? x k with
            | none => rw [← h3, hk]; rfl
            | some v => rw [← h3, hk, allEmpty_get x k v ha hk]; rfl
          · simp only [ha, Bool.false_eq_true, if_false, h3]
    · simp at ht


/-! ## the state invariant -/

def WFLine (l : Bytes) : Prop := ∃ it : Item, it.WF ∧ l = it.render

/-- the object is in a state reachable from a well-formed document by well-formed sets -/
def WFIni (ini : Ini) : Prop :=
  (∀ l ∈ ini.lines, WFLine l) ∧ Blank ini.indent ∧ SecsOK ini.sections

theorem wfLine_nil : WFLine [] := ⟨.blank [], blank_nil, rfl⟩

theorem doc_of_wfLines (ls : List Bytes) (h : ∀ l ∈ ls, WFLine l) :
    ∃ doc : List Item, ls = doc.map Item.render ∧ ∀ it ∈ doc, it.WF := by
  induction ls with
  | nil => exact ⟨[], rfl, by simp⟩
  | cons l t ih =>
    obtain ⟨it, hit, rfl⟩ := h l (by simp)
    obtain ⟨doc, hdoc, hwf⟩ := ih (fun x hx => h x (by simp [hx]))
    refine ⟨it :: doc, by simp [hdoc], ?_⟩
    intro x hx
    rcases List.mem_cons.mp hx with e | e
    · subst e; exact hit
    · exact hwf x e

theorem mem_stripTrail (ls : List Bytes) (l : Bytes) (h : l ∈ stripTrail ls) : l ∈ ls := by
  cases ls with
  | nil => simp [stripTrail] at h
  | cons a t =>
    simp only [stripTrail, List.mem_cons, List.mem_reverse] at h ⊢
    rcases h with e | e
    · exact Or.inl e
    · exact Or.inr (List.mem_reverse.mp ((List.dropWhile_sublist _).subset e))

/-- reader loop invariant on lines that are texts of well-formed items -/
structure RInv (st : RState) : Prop where
  lines : ∀ l ∈ st.lines, WFLine l
  indent : Blank st.indent
  secs : SecsOK st.sections
  cur : NameOK st.cur

theorem takeWhile_isSpace_kv (ind key ws1 ws2 val ws3 : Bytes) (hind : Blank ind) (hkey : KeyOK key) :
    (ind ++ key ++ ws1 ++ [61] ++ ws2 ++ val ++ ws3).takeWhile isSpace = ind := by
  obtain ⟨hne, _, _, _, hhead, _⟩ := hkey
  cases key with
  | nil => exact absurd rfl hne
  | cons c k' =>
    have hc := hhead c rfl
    have e : ind ++ c :: k' ++ ws1 ++ [61] ++ ws2 ++ val ++ ws3 = ind ++ c :: (k' ++ ws1 ++ [61] ++ ws2 ++ val ++ ws3) := by simp
    rw [e, takeWhile_append_stop ind c _ (blank_isSpace hind) (keyStart_not_space hc.1)]

theorem readStep_inv (st : RState) (l : Bytes) (h : RInv st) (hl : WFLine l) : RInv (readStep true st l) := by
  obtain ⟨it, hit, rfl⟩ := hl
  have hlines : ∀ x ∈ st.lines ++ [it.render], WFLine x := by
    intro x hx
    rcases List.mem_append.mp hx with e | e
    · exact h.lines x e
    · simp at e; subst e; exact ⟨it, hit, rfl⟩
  unfold readStep
  cases it with
  | header n =>
    simp only [Item.render, classifyR_header n hit, if_true]
    exact ⟨hlines, h.indent, secsOK_touch _ n h.secs hit, hit⟩
  | kv ind key ws1 ws2 val ws3 =>
    obtain ⟨hind, hkey, hws1, hws2, hval, hws3⟩ := hit
    simp only [Item.render, classifyR_kv ind key ws1 ws2 val ws3 hind hkey hws1, if_true]
    refine ⟨hlines, ?_, ?_, h.cur⟩
    · simp only
      split
      · rw [takeWhile_isSpace_kv ind key ws1 ws2 val ws3 hind hkey]; exact hind
      · exact h.indent
    · simp only [trim_key ind key ws1 hind hkey hws1, trim_val ws2 val ws3 hws2 hval hws3,
        slashToBackslash_id key hkey.2.2.2.1]
      exact secsOK_secSet _ _ key val h.secs h.cur hkey hval
  | comment ws m x =>
    simp only [Item.render, classifyR_comment ws m x hit.1 hit.2.1, if_true]
    exact ⟨hlines, h.indent, h.secs, h.cur⟩
  | blank ws =>
    simp only [Item.render, classifyR_blank ws hit, if_true]
    exact ⟨hlines, h.indent, h.secs, h.cur⟩

theorem readFold_inv (ls : List Bytes) (st : RState) (h : RInv st) (hl : ∀ l ∈ ls, WFLine l) :
    RInv (ls.foldl (readStep true) st) := by
  induction ls generalizing st with
  | nil => exact h
  | cons l t ih =>
    exact ih _ (readStep_inv st l h (hl l (by simp))) (fun x hx => hl x (by simp [hx]))

theorem secsOK_remove (secs : Dic Section) (n : Bytes) (h : SecsOK secs) : SecsOK (dicRemove secs n) :=
  ⟨keysNodup_filter _ _ h.1, fun ts hts => h.2 ts (List.mem_filter.mp hts).1⟩

theorem initR_inv : RInv initR :=
  ⟨by simp [initR], by simp [initR, blank_nil],
   secsOK_touch [] nosection ⟨by simp [KeysNodup], by simp⟩ nameOK_nosection, nameOK_nosection⟩

theorem readLines_wf (ls : List Bytes) (hl : ∀ l ∈ ls, WFLine l) : WFIni (readLines true ls) := by
  have h := readFold_inv ls initR initR_inv hl
  unfold readLines finish
  split
  · exact ⟨fun l hl' => h.lines l (mem_stripTrail _ l hl'), h.indent, secsOK_remove _ _ h.secs⟩
  · exact ⟨fun l hl' => h.lines l (mem_stripTrail _ l hl'), h.indent, h.secs⟩

theorem read_wf (doc : List Item) (hd : ∀ it ∈ doc, it.WF) (eol : Bytes) (he : LineEnd eol) (fnl : Bool) :
    WFIni (AslModel.Ini.read (renderDoc doc eol fnl) true) := by
  unfold AslModel.Ini.read renderDoc
  obtain ⟨extra, hex, heq⟩ := fileLines_join eol he fnl (doc.map Item.render) (by
    intro l hl
    obtain ⟨it, hit, rfl⟩ := List.mem_map.mp hl
    exact render_lineOK it (hd it hit))
  rw [heq]
  apply readLines_wf
  intro l hl
  rcases List.mem_append.mp hl with e | e
  · obtain ⟨it, hit, rfl⟩ := List.mem_map.mp e
    exact ⟨it, hd it hit, rfl⟩
  · rw [hex l e]; exact wfLine_nil

/-! ## `set("sec/key", value)` -/

theorem idxOf_slash (s k : Bytes) (hs : 47 ∉ s) : idxOf 47 (s ++ [47] ++ k) = some s.length := by
  have : s ++ [47] ++ k = s ++ 47 :: k := by simp
  rw [this]; exact idxOf_append_not_mem 47 s k hs

theorem set_slash (ini : Ini) (s k v : Bytes) (hs : 47 ∉ s) :
    AslModel.Ini.set ini (s ++ [47] ++ k) v = { ini with sections := secSet ini.sections s k v, modified := true } := by
  unfold AslModel.Ini.set put
  rw [idxOf_slash s k hs]
  have e : s ++ [47] ++ k = s ++ 47 :: k := by simp
  simp only [e, take_len_append, drop_len_succ_append]

theorem get_slash (ini : Ini) (s k : Bytes) (hs : 47 ∉ s) : AslModel.Ini.get ini (s ++ [47] ++ k) = lookupD ini.sections s k := by
  unfold AslModel.Ini.get
  rw [idxOf_slash s k hs]
  have e : s ++ [47] ++ k = s ++ 47 :: k := by simp
  simp only [e, take_len_append, drop_len_succ_append, lookupD]

theorem has_slash (ini : Ini) (s k : Bytes) (hs : 47 ∉ s) : has ini (s ++ [47] ++ k) = (lookup ini.sections s k).isSome := by
  unfold has
  rw [idxOf_slash s k hs]
  have e : s ++ [47] ++ k = s ++ 47 :: k := by simp
  simp only [e, take_len_append, drop_len_succ_append]

theorem set_wf (ini : Ini) (s k v : Bytes) (h : WFIni ini) (hs : NameOK s) (hs' : 47 ∉ s) (hk : KeyOK k) (hv : ValOK v) :
    WFIni (AslModel.Ini.set ini (s ++ [47] ++ k) v) := by
  rw [set_slash ini s k v hs']
  exact ⟨h.1, h.2.1, secsOK_secSet _ s k v h.2.2 hs hk hv⟩

/-! ## `write` keeps the invariant and the dictionary -/

theorem write_wf (ini : Ini) (h : WFIni ini) (r : WriteResult) (hw : write ini = some r) :
    WFIni r.ini ∧ r.ini.lines = ini.lines ∧ (∀ s k, lookupD r.ini.sections s k = lookupD ini.sections s k) ∧
    (ini.modified = true → r.text.isSome = true) ∧ (r.text = none → ini.modified = false) := by
  obtain ⟨doc, hlines, hd⟩ := doc_of_wfLines ini.lines h.1
  unfold write at hw
  simp only at hw
  let w0 : W1 := ⟨touch ini.sections nosection, ini.sections, nosection, ini.modified⟩
  have hw0 : ∀ s k, lookupD w0.sections s k = lookupD ini.sections s k := fun s k => lookupD_touch _ _ s k
  obtain ⟨_, _, hsecs⟩ := pass1_doc ini.indent ini.sections doc hd w0 hw0
  obtain ⟨hsOK, _⟩ := pass1_secsOK ini.indent doc hd w0 (secsOK_touch _ _ h.2.2 nameOK_nosection) h.2.2 nameOK_nosection
  rw [hlines] at hw
  change (match pass2 ini.indent (pass1 ini.indent w0 (doc.map Item.render)).2
      (pruneEmpty (pass1 ini.indent w0 (doc.map Item.render)).1.newsecs) with
    | none => none
    | some out => some _) = some r at hw
  cases hp2 : pass2 ini.indent (pass1 ini.indent w0 (doc.map Item.render)).2
      (pruneEmpty (pass1 ini.indent w0 (doc.map Item.render)).1.newsecs) with
  | none => rw [hp2] at hw; simp at hw
  | some out =>
    rw [hp2] at hw
    simp only [Option.some.injEq] at hw
    subst hw
    refine ⟨⟨fun l hl => h.1 l (by rw [hlines]; exact hl), h.2.1, hsOK⟩, hlines.symm, hsecs, ?_, ?_⟩
    · intro hm
      have := pass1_modified ini.indent (doc.map Item.render) w0 hm
      simp only [w0] at this
      simp [this]
    · intro hnone
      simp only at hnone
      split at hnone
      · simp at hnone
      · rename_i hmod
        cases hm : ini.modified with
        | false => rfl
        | true =>
          have := pass1_modified ini.indent (doc.map Item.render) w0 hm
          simp only [w0] at this
          simp [this] at hmod


end AslProofs.Ini
