import AslProofs.IniWrite
import AslProofs.IniRead
/-! # C18 — where `IniFile::write` places new keys, at the level of line events (core Lean only) -/
namespace AslProofs.Ini
open AslModel.Ini
open C18Spec (Item Blank White NameOK KeyOK ValOK)

theorem evLookup_insert_block (s k c : Bytes) (a b : List Ev) (sect : Section) (hn : KeysNodup sect)
    (cur0 : Bytes) (acc0 : Option Bytes) (hc : evCur a cur0 = c)
    (hno : ∀ k, dicHas sect k = true → occE c k b c = false) :
    evLookup s k (a ++ blockEv sect ++ b) cur0 acc0 =
      (if s = c then dicGet? sect k else none).or (evLookup s k (a ++ b) cur0 acc0) := by
  rw [evLookup_append, evCur_append, hc, evCur_block, evLookup_append, hc, evLookup_block s k sect hn,
    evLookup_append (a := a) (b := b), hc]
  by_cases hs : s = c
  · subst hs
    cases hg : dicGet? sect k with
    | none => simp
    | some v =>
      have : dicHas sect k = true := by simp [dicHas, hg]
      simp [evLookup_of_not_occ s k b s (some v) (hno k this)]
  · have : ¬ c = s := fun e => hs e.symm
    simp [hs, this]

theorem occE_insert_block (s k c : Bytes) (a b : List Ev) (sect : Section) (cur0 : Bytes)
    (hc : evCur a cur0 = c) :
    occE s k (a ++ blockEv sect ++ b) cur0 = (occE s k (a ++ b) cur0 || (decide (c = s) && dicHas sect k)) := by
  rw [occE_append, evCur_append, hc, evCur_block, occE_append, hc, occE_block, occE_append, hc]
  cases occE s k a cur0 <;> cases occE s k b c <;> cases (decide (c = s) && dicHas sect k) <;> rfl

/-! ## where the writer puts a section's new keys -/

theorem classifyR_header_bracket (l n : Bytes) (h : classifyR l = .header n) : charAt l 0 = 91 := by
  unfold classifyR at h
  by_cases he : l.isEmpty = true
  · simp [he] at h
  · by_cases h0 : charAt l 0 = 91
    · exact h0
    · simp only [he, Bool.false_eq_true, if_false, h0] at h
      by_cases hk : isKeyStart (charAt l (leadSpaces l)) = true
      · simp only [hk, if_true] at h
        cases hi : idxOf 61 l with
        | none => simp [hi] at h
        | some i => cases i <;> simp [hi] at h
      · simp [hk] at h

theorem evR_not_sec_of_not_bracket (l : Bytes) (h : startsWithBracket l = false) (n : Bytes) : evR l ≠ .sec n := by
  have h0 : ¬ charAt l 0 = 91 := by simpa [startsWithBracket] using h
  intro he
  unfold evR at he
  cases hc : classifyR l with
  | skip => simp [hc] at he
  | garbage => simp [hc] at he
  | kv a b => simp [hc] at he
  | header m => exact h0 (classifyR_header_bracket l m hc)

theorem evCur_no_bracket (ls : List Bytes) (cur : Bytes) (h : ∀ l ∈ ls, startsWithBracket l = false) :
    evCur (ls.map evR) cur = cur := by
  induction ls with
  | nil => rfl
  | cons l t ih =>
    have hl := evR_not_sec_of_not_bracket l (h l (by simp))
    have ht := ih (fun x hx => h x (by simp [hx]))
    simp only [List.map_cons]
    cases he : evR l with
    | none => simpa [evCur] using ht
    | kv a b => simpa [evCur] using ht
    | sec n => exact absurd he (hl n)

theorem backBlank_le (lines : List Bytes) (n : Nat) : backBlank lines n ≤ n := by
  induction n with
  | zero => simp [backBlank]
  | succ n ih =>
    unfold backBlank
    split
    · omega
    · omega

theorem backBlank_ge (lines : List Bytes) (i n : Nat) (hi : i ≤ n) (hne : lines.getD i [] ≠ []) :
    i ≤ backBlank lines n := by
  induction n with
  | zero => omega
  | succ n ih =>
    unfold backBlank
    by_cases hb : (lines.getD (n + 1) []).isEmpty = true
    · simp only [hb, if_true]
      by_cases hin : i = n + 1
      · subst hin
        have : lines.getD (n + 1) [] = [] := by simpa using hb
        exact absurd this hne
      · exact ih (by omega)
    · rw [if_neg hb]; omega

theorem idxOfLine_some (h : Bytes) (lines : List Bytes) (i : Nat) (hi : idxOfLine h lines = some i) :
    ∃ pre post, lines = pre ++ h :: post ∧ pre.length = i := by
  induction lines generalizing i with
  | nil => simp [idxOfLine] at hi
  | cons l t ih =>
    unfold idxOfLine at hi
    by_cases hl : l = h
    · subst hl
      simp at hi
      subst hi
      exact ⟨[], t, rfl, rfl⟩
    · simp only [hl, if_false, Option.map_eq_some_iff] at hi
      obtain ⟨i', hi', rfl⟩ := hi
      obtain ⟨pre, post, he, hlen⟩ := ih i' hi'
      exact ⟨l :: pre, post, by simp [he], by simp [hlen]⟩

theorem take_takeWhile_no_bracket (ls : List Bytes) (m : Nat)
    (hm : m ≤ (ls.takeWhile (fun l => !startsWithBracket l)).length) :
    ∀ l ∈ ls.take m, startsWithBracket l = false := by
  induction ls generalizing m with
  | nil => simp
  | cons x t ih =>
    cases m with
    | zero => simp
    | succ m =>
      by_cases hx : startsWithBracket x = true
      · simp [List.takeWhile, hx] at hm
      · have hx' : startsWithBracket x = false := by simpa using hx
        simp only [List.takeWhile, hx', Bool.not_false, List.length_cons] at hm
        intro l hl
        simp only [List.take_succ_cons, List.mem_cons] at hl
        rcases hl with e | e
        · subst e; exact hx'
        · exact ih m (by omega) l e

/-- the index found by `findPos` lies inside the block of section `title` -/
theorem findPos_cur (lines : List Bytes) (title : Bytes) (j : Nat) (ht : NameOK title)
    (h : findPos lines title = some j) :
    j ≤ lines.length ∧ evCur ((lines.take j).map evR) nosection = title := by
  unfold findPos at h
  by_cases hno : (title == nosection) = true
  · have htitle : title = nosection := by simpa using hno
    simp only [hno, if_true] at h
    by_cases hl : lines.isEmpty = true
    · simp [hl] at h
    · simp only [hl, Bool.false_eq_true, if_false, Option.map_some, Option.some.injEq, Nat.add_zero] at h
      have hscan : scanToBracket lines 0 = (lines.takeWhile (fun l => !startsWithBracket l)).length := by
        simp [scanToBracket]
      have hle : (lines.takeWhile (fun l => !startsWithBracket l)).length ≤ lines.length :=
        (List.takeWhile_prefix _).length_le
      have hj : j ≤ (lines.takeWhile (fun l => !startsWithBracket l)).length := by
        rw [hscan] at h
        by_cases h0 : (lines.takeWhile (fun l => !startsWithBracket l)).length = 0
        · simp [h0] at h; omega
        · simp only [h0, if_false] at h
          have := backBlank_le lines ((lines.takeWhile (fun l => !startsWithBracket l)).length - 1)
          omega
      refine ⟨by omega, ?_⟩
      rw [evCur_no_bracket _ _ (take_takeWhile_no_bracket lines j hj), htitle]
  · simp only [hno, Bool.false_eq_true, if_false, Option.map_eq_some_iff] at h
    obtain ⟨i, hi, hj⟩ := h
    obtain ⟨pre, post, hlines, hlen⟩ := idxOfLine_some _ _ _ hi
    have hscan : scanToBracket lines (i + 1) = i + 1 + (post.takeWhile (fun l => !startsWithBracket l)).length := by
      unfold scanToBracket
      rw [hlines, ← hlen]
      have : (pre ++ headerLine title :: post).drop (pre.length + 1) = post := by
        rw [show pre ++ headerLine title :: post = (pre ++ [headerLine title]) ++ post by simp]
        rw [show pre.length + 1 = (pre ++ [headerLine title]).length by simp]
        exact List.drop_left
      rw [this]
    have hne0 : scanToBracket lines (i + 1) ≠ 0 := by rw [hscan]; omega
    simp only [hne0, if_false] at hj
    have hgeti : lines.getD i [] ≠ [] := by
      rw [hlines, ← hlen]
      simp [headerLine]
    have hge := backBlank_ge lines i (scanToBracket lines (i + 1) - 1) (by rw [hscan]; omega) hgeti
    have hle := backBlank_le lines (scanToBracket lines (i + 1) - 1)
    have hpl : (post.takeWhile (fun l => !startsWithBracket l)).length ≤ post.length := (List.takeWhile_prefix _).length_le
    have hll : lines.length = i + 1 + post.length := by rw [hlines, ← hlen]; simp; omega
    -- j = i + 1 + m with m ≤ length of the bracket-free prefix of post
    obtain ⟨m, hm⟩ : ∃ m, j = i + 1 + m := ⟨j - (i + 1), by omega⟩
    have hmle : m ≤ (post.takeWhile (fun l => !startsWithBracket l)).length := by
      rw [hscan] at hj hle; omega
    refine ⟨by omega, ?_⟩
    have htake : lines.take j = pre ++ headerLine title :: post.take m := by
      rw [hlines, hm, ← hlen]
      rw [show pre ++ headerLine title :: post = (pre ++ [headerLine title]) ++ post by simp]
      rw [show pre.length + 1 + m = (pre ++ [headerLine title]).length + m by simp]
      rw [List.take_length_add_append]
      simp
    rw [htake, List.map_append, List.map_cons, evCur_append]
    have hev : evR (headerLine title) = .sec title := by
      have := classifyR_header title ht
      simp only [evR, headerLine, this]
    simp only [evCur, hev]
    exact evCur_no_bracket _ _ (take_takeWhile_no_bracket post m hmle)


theorem backBlankU_some (lines : List Bytes) (n j : Nat) (h : backBlankU lines n = some j) :
    j ≤ n ∧ ∀ i, j < i → i ≤ n → lines.getD i [] = [] := by
  induction n with
  | zero =>
    unfold backBlankU at h
    by_cases hb : (lines.getD 0 []).isEmpty = true
    · rw [if_pos hb] at h; simp at h
    · rw [if_neg hb] at h
      simp at h; subst h
      exact ⟨Nat.le_refl _, fun i h1 h2 => by omega⟩
  | succ n ih =>
    unfold backBlankU at h
    by_cases hb : (lines.getD (n + 1) []).isEmpty = true
    · rw [if_pos hb] at h
      obtain ⟨h1, h2⟩ := ih h
      refine ⟨by omega, fun i hi1 hi2 => ?_⟩
      by_cases hin : i = n + 1
      · subst hin; simpa using hb
      · exact h2 i hi1 (by omega)
    · rw [if_neg hb] at h
      simp at h; subst h
      exact ⟨Nat.le_refl _, fun i h1 h2 => by omega⟩

theorem appendPos_drop (lines : List Bytes) (j : Nat) (h : appendPos lines = some j) :
    j ≤ lines.length ∧ ∀ l ∈ lines.drop j, l = [] := by
  unfold appendPos at h
  by_cases hl : lines.length ≤ 1
  · simp only [hl, if_true, Option.some.injEq] at h
    subst h
    simp
  · simp only [hl, if_false, Option.map_eq_some_iff] at h
    obtain ⟨j', hj', rfl⟩ := h
    obtain ⟨h1, h2⟩ := backBlankU_some lines _ j' hj'
    refine ⟨by omega, fun l hlmem => ?_⟩
    obtain ⟨m, hm, hget⟩ := List.mem_iff_getElem.mp hlmem
    rw [List.getElem_drop] at hget
    rw [List.length_drop] at hm
    have := h2 (j' + 1 + m) (by omega) (by omega)
    rw [List.getD_eq_getElem?_getD, List.getElem?_eq_getElem (by omega)] at this
    simp only [Option.getD_some] at this
    rw [← hget]; exact this

/-- the lines written for a section's entries mean exactly those entries -/
theorem evR_kvLine (indent : Bytes) (kv : Bytes × Bytes) (hI : Blank indent) (hk : KeyOK kv.1) (hv : ValOK kv.2) :
    evR (kvLine indent kv) = .kv kv.1 kv.2 := by
  have := evR_render (.kv indent kv.1 [] [] kv.2 []) ⟨hI, hk, by intro c hc; simp at hc, by intro c hc; simp at hc, hv, by intro c hc; simp at hc⟩
  simpa [Item.render, kvLine, evOf] using this

theorem map_evR_kvLines (indent : Bytes) (sect : Section) (hI : Blank indent)
    (hs : ∀ kv ∈ sect, KeyOK kv.1 ∧ ValOK kv.2) :
    (sect.map (kvLine indent)).map evR = blockEv sect := by
  induction sect with
  | nil => rfl
  | cons kv t ih =>
    have h1 := hs kv (by simp)
    simp only [List.map_cons, blockEv] at ih ⊢
    rw [evR_kvLine indent kv hI h1.1 h1.2, ih (fun x hx => hs x (by simp [hx]))]

theorem map_evR_all_nil (ls : List Bytes) (h : ∀ l ∈ ls, l = []) : ∀ e ∈ ls.map evR, e = Ev.none := by
  intro e he
  obtain ⟨l, hl, rfl⟩ := List.mem_map.mp he
  rw [h l hl, evR_nil]

theorem occE_append_none (s k : Bytes) (a extra : List Ev) (cur : Bytes)
    (h : ∀ e ∈ extra, e = Ev.none) : occE s k (a ++ extra) cur = occE s k a cur := by
  rw [occE_append]
  have : ∀ c, occE s k extra c = false := by
    intro c
    induction extra with
    | nil => rfl
    | cons e t ih =>
      have he : e = Ev.none := h e (by simp)
      subst he
      simpa [occE] using ih (fun e he => h e (by simp [he]))
  simp [this]

theorem evCur_append_none (a extra : List Ev) (cur : Bytes) (h : ∀ e ∈ extra, e = Ev.none) :
    evCur (a ++ extra) cur = evCur a cur := by
  rw [evCur_append]
  generalize evCur a cur = c
  induction extra with
  | nil => rfl
  | cons e t ih =>
    have he : e = Ev.none := h e (by simp)
    subst he
    simpa [evCur] using ih (fun e he => h e (by simp [he]))

/-- what one iteration of the second loop of `write` does to the meaning of the lines -/
theorem placeSection_events (indent : Bytes) (lines : List Bytes) (title : Bytes) (sect : Section) (out : List Bytes)
    (hI : Blank indent) (ht : NameOK title) (hs : ∀ kv ∈ sect, KeyOK kv.1 ∧ ValOK kv.2) (hn : KeysNodup sect)
    (hp : placeSection indent lines title sect = some out)
    (hno : ∀ k, dicHas sect k = true → occE title k (lines.map evR) nosection = false) :
    (∀ s k, evLookup s k (out.map evR) nosection none =
        (if s = title then dicGet? sect k else none).or (evLookup s k (lines.map evR) nosection none)) ∧
    (∀ s k, occE s k (out.map evR) nosection =
        (occE s k (lines.map evR) nosection || (decide (title = s) && dicHas sect k))) := by
  unfold placeSection at hp
  by_cases hse : sect.isEmpty = true
  · have : sect = [] := by simpa using hse
    subst this
    simp at hp; subst hp
    constructor
    · intro s k; by_cases h : s = title <;> simp [h, dicGet?]
    · intro s k; simp [dicHas, dicGet?]
  · simp only [hse, Bool.false_eq_true, if_false] at hp
    cases hf : findPos lines title with
    | some j =>
      simp only [hf, Option.some.injEq] at hp
      subst hp
      obtain ⟨hjle, hcur⟩ := findPos_cur lines title j ht hf
      have hsplit : lines.map evR = (lines.take j).map evR ++ (lines.drop j).map evR := by
        rw [← List.map_append, List.take_append_drop]
      have hno' : ∀ k, dicHas sect k = true → occE title k ((lines.drop j).map evR) title = false := by
        intro k hk
        have := hno k hk
        rw [hsplit, occE_append, hcur] at this
        simp only [Bool.or_eq_false_iff] at this
        exact this.2
      simp only [List.map_append, map_evR_kvLines indent sect hI hs]
      constructor
      · intro s k
        rw [evLookup_insert_block s k title _ _ sect hn nosection none hcur hno', ← hsplit]
      · intro s k
        rw [occE_insert_block s k title _ _ sect nosection hcur, ← hsplit]
    | none =>
      simp only [hf] at hp
      cases ha : appendPos lines with
      | none => simp [ha] at hp
      | some j =>
        simp only [ha, Option.some.injEq] at hp
        subst hp
        obtain ⟨hjle, hdrop⟩ := appendPos_drop lines j ha
        have hdropE := map_evR_all_nil _ hdrop
        have hsplit : lines.map evR = (lines.take j).map evR ++ (lines.drop j).map evR := by
          rw [← List.map_append, List.take_append_drop]
        have hsepE : ∀ e ∈ (List.map evR (if lines.length > 0 then [[]] else [])), e = Ev.none := by
          apply map_evR_all_nil
          intro l hl
          split at hl <;> simp at hl
          exact hl
        have hev : evR (headerLine title) = .sec title := by
          have := classifyR_header title ht
          simp only [evR, headerLine, this]
        -- events: a ++ nones ++ [sec title] ++ block ++ nones
        have hform : List.map evR (lines.take j ++ (if lines.length > 0 then [[]] else []) ++ [headerLine title] ++
              sect.map (kvLine indent) ++ lines.drop j)
            = ((lines.take j).map evR ++ List.map evR (if lines.length > 0 then [[]] else []) ++ [Ev.sec title]) ++ blockEv sect
                ++ (lines.drop j).map evR := by
          simp only [List.map_append, map_evR_kvLines indent sect hI hs, List.map_cons, List.map_nil, hev]
        have hcur : evCur ((lines.take j).map evR ++ List.map evR (if lines.length > 0 then [[]] else []) ++ [Ev.sec title]) nosection = title := by
          rw [evCur_append]; rfl
        have hnob : ∀ k, dicHas sect k = true → occE title k ((lines.drop j).map evR) title = false := by
          intro k _
          have := occE_append_none title k [] _ title hdropE
          simpa [occE] using this
        constructor
        · intro s k
          rw [hform, evLookup_insert_block s k title _ _ sect hn nosection none hcur hnob]
          have e1 : evLookup s k (((lines.take j).map evR ++ List.map evR (if lines.length > 0 then [[]] else []) ++ [Ev.sec title]) ++ (lines.drop j).map evR) nosection none
              = evLookup s k (lines.map evR) nosection none := by
            rw [evLookup_append_none _ _ _ _ _ _ hdropE, evLookup_append, evLookup_append_none _ _ _ _ _ _ hsepE]
            simp only [evLookup]
            rw [hsplit, evLookup_append_none _ _ _ _ _ _ hdropE]
          rw [e1]
        · intro s k
          rw [hform, occE_insert_block s k title _ _ sect nosection hcur]
          have e1 : occE s k (((lines.take j).map evR ++ List.map evR (if lines.length > 0 then [[]] else []) ++ [Ev.sec title]) ++ (lines.drop j).map evR) nosection
              = occE s k (lines.map evR) nosection := by
            rw [occE_append_none _ _ _ _ _ hdropE, occE_append, occE_append_none _ _ _ _ _ hsepE]
            simp only [occE, Bool.or_false]
            rw [hsplit, occE_append_none _ _ _ _ _ hdropE]
          rw [e1]


theorem dicGet?_none_of_not_mem {α : Type} (d : Dic α) (k : Bytes) (h : k ∉ d.map Prod.fst) : dicGet? d k = none := by
  have := dicHas_false_of_not_mem d k h
  simpa [dicHas] using this

/-- entries of a dictionary of sections are well formed -/
def SecsOK (secs : Dic Section) : Prop :=
  KeysNodup secs ∧ ∀ ts ∈ secs, NameOK ts.1 ∧ KeysNodup ts.2 ∧ ∀ kv ∈ ts.2, KeyOK kv.1 ∧ ValOK kv.2

/-- the second loop of `write`: every entry of `secs` becomes readable, nothing else changes -/
theorem pass2_events (indent : Bytes) (hI : Blank indent) (secs : Dic Section) (lines out : List Bytes)
    (hok : SecsOK secs)
    (hp : pass2 indent lines secs = some out)
    (hno : ∀ s k, (lookup secs s k).isSome = true → occE s k (lines.map evR) nosection = false) :
    ∀ s k, evLookup s k (out.map evR) nosection none =
      (lookup secs s k).or (evLookup s k (lines.map evR) nosection none) := by
  induction secs generalizing lines with
  | nil =>
    simp only [pass2, Option.some.injEq] at hp
    subst hp
    intro s k; simp [lookup, dicGet?]
  | cons ts t ih =>
    obtain ⟨title, sect⟩ := ts
    obtain ⟨hnd, hall⟩ := hok
    have htitle : title ∉ t.map Prod.fst := (List.nodup_cons.mp hnd).1
    have hndt : KeysNodup t := (List.nodup_cons.mp hnd).2
    obtain ⟨hname, hsn, hskv⟩ := hall (title, sect) (by simp)
    simp only [pass2] at hp
    cases hps : placeSection indent lines title sect with
    | none => simp [hps] at hp
    | some lines' =>
      simp only [hps] at hp
      have hno1 : ∀ k, dicHas sect k = true → occE title k (lines.map evR) nosection = false := by
        intro k hk
        apply hno title k
        simp only [lookup, dicGet?, if_true]
        simpa [dicHas] using hk
      obtain ⟨hl, ho⟩ := placeSection_events indent lines title sect lines' hI hname hskv hsn hps hno1
      have hokt : SecsOK t := ⟨hndt, fun ts hts => hall ts (by simp [hts])⟩
      have hno2 : ∀ s k, (lookup t s k).isSome = true → occE s k (lines'.map evR) nosection = false := by
        intro s k hsk
        have hs : s ≠ title := by
          intro e; subst e
          simp [lookup, dicGet?_none_of_not_mem t s htitle] at hsk
        have hts : ¬ title = s := fun e => hs e.symm
        rw [ho]
        have : occE s k (lines.map evR) nosection = false := by
          apply hno s k
          simpa [lookup, dicGet?, hts] using hsk
        simp [this, hts]
      intro s k
      rw [ih lines' hokt hp hno2 s k, hl]
      by_cases hs : s = title
      · subst hs
        simp [lookup, dicGet?, dicGet?_none_of_not_mem t s htitle]
      · have hts : ¬ title = s := fun e => hs e.symm
        simp [lookup, dicGet?, hs, hts]


end AslProofs.Ini
