import AslProofs.Ini
import AslProps.C18Spec
/-! # C18 — the reader on the text of a well-formed INI document (core Lean only) -/
namespace AslProofs.Ini
open AslModel.Ini
open C18Spec (Item Blank White NameOK KeyOK ValOK joinWith renderDoc LineEnd rel relGet)

/-! ## byte-list helpers -/

theorem idxOf_append_not_mem (c : UInt8) (a b : Bytes) (h : c ∉ a) :
    idxOf c (a ++ c :: b) = some a.length := by
  induction a with
  | nil => simp [idxOf]
  | cons x t ih =>
    have hx : ¬ x = c := fun e => h (by simp [e])
    have ht : c ∉ t := fun e => h (by simp [e])
    simp [idxOf, hx, ih ht]

theorem idxOf_none (c : UInt8) (a : Bytes) (h : c ∉ a) : idxOf c a = none := by
  induction a with
  | nil => rfl
  | cons x t ih =>
    have hx : ¬ x = c := fun e => h (by simp [e])
    have ht : c ∉ t := fun e => h (by simp [e])
    simp [idxOf, hx, ih ht]

theorem takeWhile_append_stop {p : UInt8 → Bool} (a : Bytes) (y : UInt8) (b : Bytes)
    (ha : ∀ x ∈ a, p x = true) (hy : p y = false) : (a ++ y :: b).takeWhile p = a := by
  induction a with
  | nil => simp [hy]
  | cons x t ih =>
    have hx : p x = true := ha x (by simp)
    simp [hx, ih (fun z hz => ha z (by simp [hz]))]

theorem takeWhile_all {p : UInt8 → Bool} (a : Bytes) (ha : ∀ x ∈ a, p x = true) : a.takeWhile p = a := by
  induction a with
  | nil => rfl
  | cons x t ih =>
    have hx : p x = true := ha x (by simp)
    simp [hx, ih (fun z hz => ha z (by simp [hz]))]

theorem dropWhile_append_stop {p : UInt8 → Bool} (a : Bytes) (y : UInt8) (b : Bytes)
    (ha : ∀ x ∈ a, p x = true) (hy : p y = false) : (a ++ y :: b).dropWhile p = y :: b := by
  induction a with
  | nil => simp [hy]
  | cons x t ih =>
    have hx : p x = true := ha x (by simp)
    simp [hx, ih (fun z hz => ha z (by simp [hz]))]

theorem dropWhile_all {p : UInt8 → Bool} (a : Bytes) (ha : ∀ x ∈ a, p x = true) : a.dropWhile p = [] := by
  induction a with
  | nil => rfl
  | cons x t ih =>
    have hx : p x = true := ha x (by simp)
    simp [hx, ih (fun z hz => ha z (by simp [hz]))]

theorem take_len_append (a : Bytes) (b : Bytes) : (a ++ b).take a.length = a := by
  induction a with
  | nil => simp
  | cons x t ih => simp [ih]

theorem drop_len_succ_append (a : Bytes) (y : UInt8) (b : Bytes) : (a ++ y :: b).drop (a.length + 1) = b := by
  induction a with
  | nil => simp
  | cons x t ih => simp [ih]

theorem charAt_append_len (a : Bytes) (y : UInt8) (b : Bytes) : charAt (a ++ y :: b) a.length = y := by
  simp [charAt]

theorem charAt_len (a : Bytes) : charAt a a.length = 0 := by
  simp [charAt]

theorem blank_isSpace {ws : Bytes} (h : Blank ws) : ∀ x ∈ ws, isSpace x = true := by
  intro x hx
  rcases h x hx with e | e <;> subst e <;> decide

theorem not_white_isSpace {c : UInt8} (h : ¬ White c) : isSpace c = false := by
  unfold White at h
  unfold isSpace
  have h1 : c ≠ 32 := fun e => h (Or.inl e)
  have h2 : c ≠ 9 := fun e => h (Or.inr (Or.inl e))
  have h3 : c ≠ 10 := fun e => h (Or.inr (Or.inr (Or.inl e)))
  have h4 : c ≠ 13 := fun e => h (Or.inr (Or.inr (Or.inr e)))
  simp [h1, h2, h3, h4]

/-- `trim` removes blank margins around a text whose first and last bytes are not white -/
theorem trim_margins (a m b : Bytes) (ha : ∀ x ∈ a, isSpace x = true) (hb : ∀ x ∈ b, isSpace x = true)
    (hh : ∀ c, m.head? = some c → isSpace c = false) (hl : ∀ c, m.getLast? = some c → isSpace c = false) :
    trim (a ++ m ++ b) = m := by
  unfold trim
  cases m with
  | nil =>
    have : ∀ x ∈ a ++ [] ++ b, isSpace x = true := by
      intro x hx
      simp at hx
      rcases hx with h | h
      · exact ha x h
      · exact hb x h
    rw [dropWhile_all _ this]; rfl
  | cons x m' =>
    have hx : isSpace x = false := hh x rfl
    have e1 : a ++ x :: m' ++ b = a ++ x :: (m' ++ b) := by simp
    rw [e1, dropWhile_append_stop a x (m' ++ b) ha hx]
    -- reverse: b.reverse ++ (x :: m').reverse
    have hne : (x :: m') ≠ [] := by simp
    obtain ⟨r, y, hr⟩ : ∃ r y, (x :: m').reverse = y :: r := by
      cases h : (x :: m').reverse with
      | nil => simp at h
      | cons y r => exact ⟨r, y, rfl⟩
    have hy : isSpace y = false := by
      apply hl y
      have : (x :: m').getLast? = (x :: m').reverse.head? := (List.head?_reverse).symm
      rw [this, hr]; rfl
    have e2 : (x :: (m' ++ b)).reverse = b.reverse ++ y :: r := by
      have : x :: (m' ++ b) = (x :: m') ++ b := by simp
      rw [this, List.reverse_append, hr]
    rw [e2, dropWhile_append_stop b.reverse y r (fun z hz => hb z (by simpa using hz)) hy, ← hr]
    simp

theorem slashToBackslash_id (k : Bytes) (h : 47 ∉ k) : slashToBackslash k = k := by
  induction k with
  | nil => rfl
  | cons x t ih =>
    have hx : ¬ x = 47 := fun e => h (by simp [e])
    have ht : 47 ∉ t := fun e => h (by simp [e])
    have := ih ht
    simp only [slashToBackslash] at this ⊢
    simp [hx, this]


/-- the meaning of an item -/
def evOf : Item → Ev
  | .header n => .sec n
  | .kv _ key _ _ val _ => .kv key val
  | _ => .none

theorem classifyR_header (n : Bytes) (h : NameOK n) : classifyR ([91] ++ n ++ [93]) = .header n := by
  unfold classifyR
  have h93 : 93 ∉ n := h.1
  have e : ([91] ++ n ++ [93] : Bytes) = 91 :: (n ++ [93]) := by simp
  rw [e]
  simp only [List.isEmpty_cons, Bool.false_eq_true, if_false, charAt, List.getD_cons_zero, if_true, List.drop_succ_cons, List.drop_zero]
  have : idxOf 93 (n ++ [93]) = some n.length := idxOf_append_not_mem 93 n [] h93
  rw [this]
  simp

theorem keyStart_of {c : UInt8} (h : 47 < c ∧ c < 128 ∧ c ≠ 59 ∧ c ≠ 91) : isKeyStart c = true := by
  obtain ⟨h1, h2, h3, h4⟩ := h
  unfold isKeyStart
  have : c ≠ 35 := by
    intro e; subst e; exact absurd h1 (by decide)
  simp [this, h1, h2, h3]

theorem keyStart_not_space {c : UInt8} (h : 47 < c) : isSpace c = false := by
  unfold isSpace
  have h1 : c ≠ 32 := by intro e; subst e; exact absurd h (by decide)
  have h2 : c ≠ 10 := by intro e; subst e; exact absurd h (by decide)
  have h3 : c ≠ 13 := by intro e; subst e; exact absurd h (by decide)
  have h4 : c ≠ 9 := by intro e; subst e; exact absurd h (by decide)
  simp [h1, h2, h3, h4]

theorem blank_not_mem {ws : Bytes} (h : Blank ws) (c : UInt8) (h1 : c ≠ 32) (h2 : c ≠ 9) : c ∉ ws := by
  intro hc
  rcases h c hc with e | e
  · exact h1 e
  · exact h2 e

theorem classifyR_kv (ind key ws1 ws2 val ws3 : Bytes)
    (hind : Blank ind) (hkey : KeyOK key) (hws1 : Blank ws1) :
    classifyR (ind ++ key ++ ws1 ++ [61] ++ ws2 ++ val ++ ws3)
      = .kv (ind ++ key ++ ws1) (ws2 ++ val ++ ws3) := by
  obtain ⟨hne, h61, _, _, hhead, _⟩ := hkey
  obtain ⟨c, k', hk⟩ : ∃ c k', key = c :: k' := by
    cases key with
    | nil => exact absurd rfl hne
    | cons c k' => exact ⟨c, k', rfl⟩
  have hc := hhead c (by simp [hk])
  have hcs : isSpace c = false := keyStart_not_space hc.1
  -- the line as  ind ++ c :: rest
  have eline : ind ++ key ++ ws1 ++ [61] ++ ws2 ++ val ++ ws3 = ind ++ c :: (k' ++ ws1 ++ [61] ++ ws2 ++ val ++ ws3) := by
    simp [hk]
  have eline2 : ind ++ key ++ ws1 ++ [61] ++ ws2 ++ val ++ ws3 = (ind ++ key ++ ws1) ++ 61 :: (ws2 ++ val ++ ws3) := by
    simp
  have hnotin : 61 ∉ ind ++ key ++ ws1 := by
    simp only [List.mem_append, not_or]
    exact ⟨⟨blank_not_mem hind 61 (by decide) (by decide), h61⟩, blank_not_mem hws1 61 (by decide) (by decide)⟩
  have hidx : idxOf 61 (ind ++ key ++ ws1 ++ [61] ++ ws2 ++ val ++ ws3) = some (ind ++ key ++ ws1).length := by
    rw [eline2]; exact idxOf_append_not_mem 61 _ _ hnotin
  have hlen : (ind ++ key ++ ws1).length = (ind.length + k'.length + ws1.length) + 1 := by
    simp [hk]; omega
  unfold classifyR
  have hnonempty : (ind ++ key ++ ws1 ++ [61] ++ ws2 ++ val ++ ws3).isEmpty = false := by
    rw [eline]; cases ind <;> simp
  have hlead : leadSpaces (ind ++ key ++ ws1 ++ [61] ++ ws2 ++ val ++ ws3) = ind.length := by
    unfold leadSpaces
    rw [eline, takeWhile_append_stop ind c _ (blank_isSpace hind) hcs]
  have h0 : charAt (ind ++ key ++ ws1 ++ [61] ++ ws2 ++ val ++ ws3) 0 ≠ 91 := by
    rw [eline]
    cases ind with
    | nil => simpa [charAt] using hc.2.2.2
    | cons x t =>
      have : x = 32 ∨ x = 9 := hind x (by simp)
      rcases this with e | e <;> subst e <;> simp [charAt]
  have hci : charAt (ind ++ key ++ ws1 ++ [61] ++ ws2 ++ val ++ ws3) ind.length = c := by
    rw [eline]; exact charAt_append_len ind c _
  simp only [hnonempty, Bool.false_eq_true, if_false, hlead, h0, hci, keyStart_of hc, if_true, hidx, hlen]
  rw [← hlen, eline2]
  generalize ind ++ key ++ ws1 = A
  rw [take_len_append, drop_len_succ_append]

theorem classifyR_comment (ws : Bytes) (m : UInt8) (t : Bytes) (hws : Blank ws) (hm : m = 35 ∨ m = 59) :
    classifyR (ws ++ [m] ++ t) = .skip := by
  have e : ws ++ [m] ++ t = ws ++ m :: t := by simp
  rw [e]
  unfold classifyR
  have hms : isSpace m = false := by rcases hm with e | e <;> subst e <;> decide
  have hmk : isKeyStart m = false := by rcases hm with e | e <;> subst e <;> decide
  have hnonempty : (ws ++ m :: t).isEmpty = false := by cases ws <;> simp
  have hlead : leadSpaces (ws ++ m :: t) = ws.length := by
    unfold leadSpaces; rw [takeWhile_append_stop ws m t (blank_isSpace hws) hms]
  have h0 : charAt (ws ++ m :: t) 0 ≠ 91 := by
    cases ws with
    | nil => rcases hm with e | e <;> subst e <;> simp [charAt]
    | cons x r =>
      have : x = 32 ∨ x = 9 := hws x (by simp)
      rcases this with e | e <;> subst e <;> simp [charAt]
  simp [hnonempty, hlead, h0, charAt_append_len, hmk]

theorem classifyR_blank (ws : Bytes) (hws : Blank ws) : classifyR ws = .skip := by
  unfold classifyR
  cases ws with
  | nil => simp
  | cons x r =>
    have h0 : charAt (x :: r) 0 ≠ 91 := by
      have : x = 32 ∨ x = 9 := hws x (by simp)
      rcases this with e | e <;> subst e <;> simp [charAt]
    have hlead : leadSpaces (x :: r) = (x :: r).length := by
      unfold leadSpaces; rw [takeWhile_all _ (blank_isSpace hws)]
    have hk : isKeyStart (charAt (x :: r) (x :: r).length) = false := by
      rw [charAt_len]; decide
    simp only [List.isEmpty_cons, Bool.false_eq_true, if_false, h0, hlead, hk]

/-- the reader sees in the text of a well-formed item exactly what the item means -/
theorem evR_render (it : Item) (h : it.WF) : evR it.render = evOf it := by
  cases it with
  | header n =>
    simp only [Item.render, evR, classifyR_header n h, evOf]
  | kv ind key ws1 ws2 val ws3 =>
    obtain ⟨hind, hkey, hws1, hws2, hval, hws3⟩ := h
    simp only [Item.render, evR, classifyR_kv ind key ws1 ws2 val ws3 hind hkey hws1, evOf]
    have hk : trim (ind ++ key ++ ws1) = key := by
      apply trim_margins ind key ws1 (blank_isSpace hind) (blank_isSpace hws1)
      · intro c hc; exact keyStart_not_space (hkey.2.2.2.2.1 c hc).1
      · intro c hc; exact not_white_isSpace (hkey.2.2.2.2.2.1 c hc)
    have hv : trim (ws2 ++ val ++ ws3) = val := by
      apply trim_margins ws2 val ws3 (blank_isSpace hws2) (blank_isSpace hws3)
      · intro c hc; exact not_white_isSpace (hval.2.1 c hc)
      · intro c hc; exact not_white_isSpace (hval.2.2.1 c hc)
    rw [hk, hv, slashToBackslash_id key hkey.2.2.2.1]
  | comment ws m t =>
    obtain ⟨hws, hm, _, _⟩ := h
    simp only [Item.render, evR, classifyR_comment ws m t hws hm, evOf]
  | blank ws =>
    simp only [Item.render, evR, classifyR_blank ws h, evOf]


/-! ## lines of a text -/

/-- a line of text: no LF inside, no CR at its end -/
def LineOK (l : Bytes) : Prop := 10 ∉ l ∧ l.getLast? ≠ some 13

theorem stripCR_ok (l : Bytes) (h : l.getLast? ≠ some 13) : stripCR l = l := by
  simp [stripCR, h]

theorem stripCR_cr (l : Bytes) : stripCR (l ++ [13]) = l := by
  simp [stripCR]

theorem splitLF_noLF (l cur : Bytes) (h : 10 ∉ l) : splitLF l cur = [cur ++ l] := by
  induction l generalizing cur with
  | nil => simp [splitLF]
  | cons x t ih =>
    have hx : ¬ x = 10 := fun e => h (by simp [e])
    have ht : 10 ∉ t := fun e => h (by simp [e])
    simp [splitLF, hx, ih _ ht]

theorem splitLF_line (l rest cur : Bytes) (h : 10 ∉ l) :
    splitLF (l ++ 10 :: rest) cur = stripCR (cur ++ l) :: splitLF rest [] := by
  induction l generalizing cur with
  | nil => simp [splitLF]
  | cons x t ih =>
    have hx : ¬ x = 10 := fun e => h (by simp [e])
    have ht : 10 ∉ t := fun e => h (by simp [e])
    simp [splitLF, hx, ih _ ht]

/-- a line followed by a line end -/
theorem splitLF_eol (eol l rest : Bytes) (he : LineEnd eol) (hl : LineOK l) :
    splitLF (l ++ eol ++ rest) [] = l :: splitLF rest [] := by
  rcases he with e | e <;> subst e
  · have : l ++ [10] ++ rest = l ++ 10 :: rest := by simp
    rw [this, splitLF_line l rest [] hl.1]
    simp [stripCR_ok l hl.2]
  · have : l ++ [13, 10] ++ rest = (l ++ [13]) ++ 10 :: rest := by simp
    have h' : 10 ∉ l ++ [13] := by
      simp only [List.mem_append, List.mem_singleton, not_or]
      exact ⟨hl.1, by decide⟩
    rw [this, splitLF_line (l ++ [13]) rest [] h']
    simp [stripCR_cr]

theorem splitLF_eol_only (eol : Bytes) (he : LineEnd eol) : splitLF eol [] = [[], []] := by
  rcases he with e | e <;> subst e <;> rfl

/-- reading the text of lines joined by a line end gives the lines back, plus possibly empty lines at the end -/
theorem fileLines_join (eol : Bytes) (he : LineEnd eol) (fnl : Bool) (L : List Bytes) (hL : ∀ l ∈ L, LineOK l) :
    ∃ extra : List Bytes, (∀ x ∈ extra, x = []) ∧
      fileLines (joinWith eol L ++ (if fnl then eol else [])) = L ++ extra := by
  unfold fileLines
  induction L with
  | nil =>
    cases fnl
    · exact ⟨[[]], by simp, by simp [joinWith, splitLF]⟩
    · exact ⟨[[], []], by simp, by simp [joinWith, splitLF_eol_only eol he]⟩
  | cons l t ih =>
    have hl : LineOK l := hL l (by simp)
    cases t with
    | nil =>
      cases fnl
      · refine ⟨[], by simp, ?_⟩
        simp [joinWith, splitLF_noLF l [] hl.1]
      · refine ⟨[[]], by simp, ?_⟩
        have := splitLF_eol eol l [] he hl
        simp only [List.append_nil] at this
        simp [joinWith, this, splitLF]
    | cons l2 t2 =>
      obtain ⟨extra, hex, heq⟩ := ih (fun x hx => hL x (by simp [hx]))
      refine ⟨extra, hex, ?_⟩
      have e : joinWith eol (l :: l2 :: t2) ++ (if fnl then eol else []) =
          l ++ eol ++ (joinWith eol (l2 :: t2) ++ (if fnl then eol else [])) := by
        simp [joinWith]
      rw [e, splitLF_eol eol l _ he hl, heq]
      simp


/-! ## reading the text of a document -/

def NoCRLast (l : Bytes) : Prop := ∀ c, l.getLast? = some c → c ≠ 13

theorem noCRLast_append {a b : Bytes} (ha : NoCRLast a) (hb : NoCRLast b) : NoCRLast (a ++ b) := by
  intro c hc
  rw [List.getLast?_append] at hc
  cases hbl : b.getLast? with
  | none => rw [hbl] at hc; exact ha c (by simpa using hc)
  | some y => rw [hbl] at hc; simp at hc; subst hc; exact hb y hbl

theorem noCRLast_of_all {a : Bytes} (h : ∀ x ∈ a, x ≠ 13) : NoCRLast a := by
  intro c hc
  exact h c (List.mem_of_getLast? hc)

theorem noCRLast_blank {ws : Bytes} (h : Blank ws) : NoCRLast ws :=
  noCRLast_of_all (fun x hx => by rcases h x hx with e | e <;> subst e <;> decide)

theorem noCRLast_notWhite {v : Bytes} (h : ∀ c, v.getLast? = some c → ¬ White c) : NoCRLast v := by
  intro c hc e
  subst e
  exact h 13 hc (Or.inr (Or.inr (Or.inr rfl)))

theorem lineOK_of (l : Bytes) (h1 : 10 ∉ l) (h2 : NoCRLast l) : LineOK l :=
  ⟨h1, fun e => h2 13 e rfl⟩

theorem blank_noLF {ws : Bytes} (h : Blank ws) : 10 ∉ ws := blank_not_mem h 10 (by decide) (by decide)

theorem render_lineOK (it : Item) (h : it.WF) : LineOK it.render := by
  cases it with
  | header n =>
    apply lineOK_of
    · simp only [Item.render, List.mem_append, List.mem_singleton, not_or]
      exact ⟨⟨by decide, h.2.1⟩, by decide⟩
    · simp only [Item.render]
      intro c hc
      rw [List.getLast?_append] at hc
      simp at hc
      subst hc; decide
  | kv ind key ws1 ws2 val ws3 =>
    obtain ⟨hind, hkey, hws1, hws2, hval, hws3⟩ := h
    apply lineOK_of
    · simp only [Item.render, List.mem_append, List.mem_singleton, not_or]
      exact ⟨⟨⟨⟨⟨⟨blank_noLF hind, hkey.2.2.1⟩, blank_noLF hws1⟩, by decide⟩, blank_noLF hws2⟩, hval.1⟩, blank_noLF hws3⟩
    · simp only [Item.render]
      exact noCRLast_append (noCRLast_append (noCRLast_append (noCRLast_append (noCRLast_append (noCRLast_append
        (noCRLast_blank hind) (noCRLast_notWhite hkey.2.2.2.2.2.1)) (noCRLast_blank hws1)) (noCRLast_of_all (by simp)))
        (noCRLast_blank hws2)) (noCRLast_notWhite hval.2.2.1)) (noCRLast_blank hws3)
  | comment ws m t =>
    obtain ⟨hws, hm, ht, htl, _⟩ := h
    apply lineOK_of
    · simp only [Item.render, List.mem_append, List.mem_singleton, not_or]
      refine ⟨⟨blank_noLF hws, ?_⟩, ht⟩
      rcases hm with e | e <;> subst e <;> decide
    · simp only [Item.render]
      refine noCRLast_append (noCRLast_append (noCRLast_blank hws) (noCRLast_of_all ?_)) (fun c hc e => htl (e ▸ hc))
      intro x hx
      simp at hx; subst hx
      rcases hm with e | e <;> subst e <;> decide
  | blank ws =>
    exact lineOK_of _ (blank_noLF h) (noCRLast_blank h)

theorem evLookup_rel (s k : Bytes) (doc : List Item) (cur : Bytes) (acc : Option Bytes) :
    evLookup s k (doc.map evOf) cur acc = rel s k doc cur acc := by
  induction doc generalizing cur acc with
  | nil => rfl
  | cons it t ih =>
    cases it <;> simp [evOf, evLookup, rel, ih]

theorem evLookup_append_none (s k : Bytes) (a extra : List Ev) (cur : Bytes) (acc : Option Bytes)
    (h : ∀ e ∈ extra, e = Ev.none) : evLookup s k (a ++ extra) cur acc = evLookup s k a cur acc := by
  induction a generalizing cur acc with
  | nil =>
    induction extra generalizing cur acc with
    | nil => rfl
    | cons e t ih =>
      have he : e = Ev.none := h e (by simp)
      subst he
      simp only [List.nil_append, evLookup] at ih ⊢
      exact ih (fun e he => h e (by simp [he])) cur acc
  | cons e t ih =>
    cases e <;> simp [evLookup, ih]

theorem evR_nil : evR [] = Ev.none := by
  simp [evR, classifyR]

/-- `ini_read_spec` at the level of `lookup` -/
theorem read_render_lookup (doc : List Item) (hd : ∀ it ∈ doc, it.WF) (eol : Bytes) (he : LineEnd eol)
    (fnl sw : Bool) (s k : Bytes) :
    lookup (read (renderDoc doc eol fnl) sw).sections s k = relGet doc s k := by
  unfold AslModel.Ini.read renderDoc
  obtain ⟨extra, hex, heq⟩ := fileLines_join eol he fnl (doc.map Item.render) (by
    intro l hl
    obtain ⟨it, hit, rfl⟩ := List.mem_map.mp hl
    exact render_lineOK it (hd it hit))
  rw [heq, readLines_lookup, List.map_append, evLookup_append_none]
  · have : (doc.map Item.render).map evR = doc.map evOf := by
      rw [List.map_map]
      apply List.map_congr_left
      intro it hit
      exact evR_render it (hd it hit)
    rw [this, evLookup_rel]
    rfl
  · intro e hee
    obtain ⟨x, hx, rfl⟩ := List.mem_map.mp hee
    rw [hex x hx, evR_nil]


end AslProofs.Ini
