import AslProofs.Ini
/-! # C18 — lemmas about `IniFile::write` (core Lean only) -/
namespace AslProofs.Ini
open AslModel.Ini

/-! ## `write` never reads outside `_lines` -/

/-- more than one line ⇒ some line is not empty -/
def HasNE (lines : List Bytes) : Prop := lines.length ≤ 1 ∨ ∃ l ∈ lines, l ≠ []

theorem backBlankU_none (lines : List Bytes) (j : Nat) (h : backBlankU lines j = none) :
    ∀ i, i ≤ j → lines.getD i [] = [] := by
  induction j with
  | zero =>
    intro i hi
    have : i = 0 := by omega
    subst this
    unfold backBlankU at h
    cases hg : lines.getD 0 [] with
    | nil => rfl
    | cons a b => rw [hg] at h; simp at h
  | succ j ih =>
    intro i hi
    unfold backBlankU at h
    cases hg : lines.getD (j + 1) [] with
    | nil =>
      rw [hg] at h
      simp only [List.isEmpty_nil, if_true] at h
      by_cases hij : i = j + 1
      · subst hij; exact hg
      · exact ih h i (by omega)
    | cons a b => rw [hg] at h; simp at h

theorem appendPos_isSome (lines : List Bytes) (h : HasNE lines) : (appendPos lines).isSome = true := by
  unfold appendPos
  by_cases hl : lines.length ≤ 1
  · simp [hl]
  · simp only [hl, if_false]
    cases hb : backBlankU lines (lines.length - 1) with
    | some j => simp
    | none =>
      exfalso
      rcases h with h | ⟨l, hl', hne⟩
      · exact hl h
      · obtain ⟨i, hi, hget⟩ := List.mem_iff_getElem.mp hl'
        have := backBlankU_none lines _ hb i (by omega)
        rw [List.getD_eq_getElem?_getD, List.getElem?_eq_getElem hi, hget] at this
        exact hne (by simpa using this)

theorem kvLine_ne_nil (indent : Bytes) (kv : Bytes × Bytes) : kvLine indent kv ≠ [] := by
  simp [kvLine]

theorem placeSection_isSome (indent : Bytes) (lines : List Bytes) (title : Bytes) (sect : Section)
    (h : HasNE lines) : ∃ out, placeSection indent lines title sect = some out ∧ HasNE out := by
  unfold placeSection
  by_cases hs : sect.isEmpty = true
  · exact ⟨lines, by simp [hs], h⟩
  · simp only [hs, Bool.false_eq_true, if_false]
    obtain ⟨kv, rest, hsect⟩ : ∃ kv rest, sect = kv :: rest := by
      cases sect with
      | nil => simp at hs
      | cons kv rest => exact ⟨kv, rest, rfl⟩
    have hmem : kvLine indent kv ∈ sect.map (kvLine indent) := by
      simp [hsect]
    cases hf : findPos lines title with
    | some j =>
      refine ⟨_, rfl, Or.inr ⟨kvLine indent kv, ?_, kvLine_ne_nil _ _⟩⟩
      simp only [List.mem_append]
      exact Or.inl (Or.inr hmem)
    | none =>
      have := appendPos_isSome lines h
      cases ha : appendPos lines with
      | none => simp [ha] at this
      | some j =>
        refine ⟨_, rfl, Or.inr ⟨kvLine indent kv, ?_, kvLine_ne_nil _ _⟩⟩
        simp only [List.mem_append]
        exact Or.inl (Or.inr hmem)

theorem pass2_isSome (indent : Bytes) (secs : Dic Section) (lines : List Bytes) (h : HasNE lines) :
    ∃ out, pass2 indent lines secs = some out ∧ HasNE out := by
  induction secs generalizing lines with
  | nil => exact ⟨lines, rfl, h⟩
  | cons ts t ih =>
    obtain ⟨title, sect⟩ := ts
    obtain ⟨out1, h1, hne1⟩ := placeSection_isSome indent lines title sect h
    obtain ⟨out, h2, hne2⟩ := ih out1 hne1
    exact ⟨out, by simp [pass2, h1, h2], hne2⟩

theorem writeStep_ne_nil (indent : Bytes) (w : W1) (l : Bytes) (h : l ≠ []) : (writeStep indent w l).2 ≠ [] := by
  unfold writeStep
  cases classifyW l <;> simp [h]

theorem pass1_length (indent : Bytes) (w : W1) (lines : List Bytes) : (pass1 indent w lines).2.length = lines.length := by
  induction lines generalizing w with
  | nil => rfl
  | cons l t ih => simp [pass1, ih]

theorem pass1_exists_ne (indent : Bytes) (w : W1) (lines : List Bytes) (h : ∃ l ∈ lines, l ≠ []) :
    ∃ l ∈ (pass1 indent w lines).2, l ≠ [] := by
  induction lines generalizing w with
  | nil => simp at h
  | cons l t ih =>
    obtain ⟨x, hx, hne⟩ := h
    simp only [pass1]
    rcases List.mem_cons.mp hx with e | e
    · subst e
      exact ⟨_, by simp, writeStep_ne_nil indent w x hne⟩
    · obtain ⟨y, hy, hyne⟩ := ih (writeStep indent w l).1 ⟨x, e, hne⟩
      exact ⟨y, by simp [hy], hyne⟩

theorem pass1_hasNE (indent : Bytes) (w : W1) (lines : List Bytes) (h : HasNE lines) :
    HasNE (pass1 indent w lines).2 := by
  rcases h with h | h
  · exact Or.inl (by rw [pass1_length]; exact h)
  · exact Or.inr (pass1_exists_ne indent w lines h)

/-- `write` performs no out-of-bounds read when `_lines` is as the constructor leaves it -/
theorem write_isSome (ini : Ini) (h : HasNE ini.lines) : ∃ r, write ini = some r ∧ r.ini.lines = ini.lines := by
  unfold write
  simp only
  obtain ⟨out, ho, _⟩ := pass2_isSome ini.indent
    (pruneEmpty (pass1 ini.indent { sections := touch ini.sections nosection, newsecs := ini.sections, sec := nosection, modified := ini.modified } ini.lines).1.newsecs)
    _ (pass1_hasNE ini.indent { sections := touch ini.sections nosection, newsecs := ini.sections, sec := nosection, modified := ini.modified } ini.lines h)
  rw [ho]
  exact ⟨_, rfl, rfl⟩

theorem stripTrail_hasNE (ls : List Bytes) : HasNE (stripTrail ls) := by
  cases ls with
  | nil => exact Or.inl (by simp [stripTrail])
  | cons a t =>
    simp only [stripTrail]
    cases h : (t.reverse.dropWhile (·.isEmpty)) with
    | nil => exact Or.inl (by simp)
    | cons x r =>
      refine Or.inr ⟨x, by simp, ?_⟩
      have hw : List.dropWhile (fun (l : Bytes) => l.isEmpty) t.reverse ≠ [] := by rw [h]; simp
      have := List.head_dropWhile_not (fun (l : Bytes) => l.isEmpty) hw
      simp only [h, List.head_cons] at this
      intro e; subst e; simp at this

theorem read_hasNE (text : Bytes) (sw : Bool) : HasNE (read text sw).lines := by
  unfold AslModel.Ini.read readLines finish
  split <;> exact stripTrail_hasNE _

theorem openFile_hasNE (f : Option Bytes) (sw : Bool) : HasNE (openFile f sw).lines := by
  cases f with
  | none => exact Or.inl (by simp [openFile, readMissing])
  | some t => exact read_hasNE t sw

/-! ## events: append, occurrence, blocks of new keys -/

/-- does `s`/`k` get a value from these events (starting in section `cur`) -/
def occE (s k : Bytes) : List Ev → Bytes → Bool
  | [], _ => false
  | .sec n :: t, _ => occE s k t n
  | .kv key _ :: t, cur => (cur = s ∧ key = k) || occE s k t cur
  | .none :: t, cur => occE s k t cur

theorem evCur_append (a b : List Ev) (cur : Bytes) : evCur (a ++ b) cur = evCur b (evCur a cur) := by
  induction a generalizing cur with
  | nil => rfl
  | cons e t ih => cases e <;> simp [evCur, ih]

theorem evLookup_append (s k : Bytes) (a b : List Ev) (cur : Bytes) (acc : Option Bytes) :
    evLookup s k (a ++ b) cur acc = evLookup s k b (evCur a cur) (evLookup s k a cur acc) := by
  induction a generalizing cur acc with
  | nil => rfl
  | cons e t ih => cases e <;> simp [evLookup, evCur, ih]

theorem occE_append (s k : Bytes) (a b : List Ev) (cur : Bytes) :
    occE s k (a ++ b) cur = (occE s k a cur || occE s k b (evCur a cur)) := by
  induction a generalizing cur with
  | nil => simp [occE, evCur]
  | cons e t ih => cases e <;> simp [occE, evCur, ih, Bool.or_assoc]

theorem evLookup_of_not_occ (s k : Bytes) (evs : List Ev) (cur : Bytes) (acc : Option Bytes)
    (h : occE s k evs cur = false) : evLookup s k evs cur acc = acc := by
  induction evs generalizing cur acc with
  | nil => rfl
  | cons e t ih =>
    cases e with
    | none => exact ih cur acc (by simpa [occE] using h)
    | sec n => exact ih n acc (by simpa [occE] using h)
    | kv key v =>
      simp only [occE, Bool.or_eq_false_iff, decide_eq_false_iff_not] at h
      simp only [evLookup, h.1, if_false]
      exact ih cur acc h.2

/-- the events of the lines written for the entries of a section -/
def blockEv (sect : Section) : List Ev := sect.map fun kv => Ev.kv kv.1 kv.2

theorem evCur_block (sect : Section) (cur : Bytes) : evCur (blockEv sect) cur = cur := by
  induction sect with
  | nil => rfl
  | cons kv t ih => simpa [blockEv, evCur] using ih

theorem occE_block (s k : Bytes) (sect : Section) (cur : Bytes) :
    occE s k (blockEv sect) cur = (decide (cur = s) && dicHas sect k) := by
  induction sect with
  | nil => simp [blockEv, occE, dicHas, dicGet?]
  | cons kv t ih =>
    obtain ⟨k1, v1⟩ := kv
    simp only [blockEv, List.map_cons, occE] at ih ⊢
    rw [ih]
    by_cases hc : cur = s
    · by_cases hk : k1 = k
      · simp [hc, hk, dicHas, dicGet?]
      · simp [hc, hk, dicHas, dicGet?]
    · simp [hc]

def KeysNodup {α : Type} (d : Dic α) : Prop := (d.map Prod.fst).Nodup

theorem dicHas_false_of_not_mem {α : Type} (d : Dic α) (k : Bytes) (h : k ∉ d.map Prod.fst) : dicHas d k = false := by
  induction d with
  | nil => rfl
  | cons kv t ih =>
    obtain ⟨k1, v1⟩ := kv
    have h1 : ¬ k1 = k := fun e => h (by simp [e])
    have h2 : k ∉ t.map Prod.fst := fun e => h (by simp [e])
    simpa [dicHas, dicGet?, h1] using ih h2

theorem evLookup_block (s k : Bytes) (sect : Section) (hn : KeysNodup sect) (cur : Bytes) (acc : Option Bytes) :
    evLookup s k (blockEv sect) cur acc = if cur = s then (dicGet? sect k).or acc else acc := by
  induction sect generalizing acc with
  | nil => simp [blockEv, evLookup, dicGet?]
  | cons kv t ih =>
    obtain ⟨k1, v1⟩ := kv
    have hn' : KeysNodup t := (List.nodup_cons.mp hn).2
    have hk1 : k1 ∉ t.map Prod.fst := (List.nodup_cons.mp hn).1
    simp only [blockEv, List.map_cons, evLookup] at ih ⊢
    by_cases hc : cur = s
    · subst hc
      by_cases hk : k1 = k
      · subst hk
        have : occE cur k1 (blockEv t) cur = false := by
          rw [occE_block, dicHas_false_of_not_mem t k1 hk1]; simp
        have := evLookup_of_not_occ cur k1 (blockEv t) cur (some v1) this
        simp only [blockEv] at this
        simp [dicGet?, this]
      · simp [hk, dicGet?, ih hn']
    · simp [hc, ih hn']

end AslProofs.Ini
