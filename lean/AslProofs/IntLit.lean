import AslProofs.NumVal
import AslProofs.StrtodBig
/-!
# The number an integer literal of any length decodes to

Integer literals of more than 9 characters are handed to `atof` by the decoder (state INT).  For a literal
`[-]digits` spelling the integer `±n`: below `2^53` the double is exactly `±n`; from `2^53` on it is `n` rounded to
the nearest multiple of its binary64 spacing, ties to even (`NumVal.Nearest53`); from `2^1024` on it is ±infinity.
-/
set_option linter.unusedSimpArgs false
set_option linter.unusedVariables false
set_option exponentiation.threshold 1100
namespace AslProofs.Num
open AslModel NumVal AslModel.Xdl AslProofs.XdlEnc Rfc8259
open AslModel.Strtod (roundRatio)

/-- the spec-side value of `[-]digits` -/
theorem decVal_intlex (minus ip : Bytes) (hm : minus = [] ∨ minus = [45]) (hip : IntPart ip) :
    decVal (minus ++ ip) = (if minus = [45] then -((Strtod.digitsVal ip : Nat) : Int) else (Strtod.digitsVal ip : Nat)) := by
  obtain ⟨hne, hd⟩ := AslProofs.XdlRfc.intpart_digits hip
  have hdv := digitsVal_ifold ip hd
  rcases hm with rfl | rfl
  · have hc : ∀ c t, ip = c :: t → c ≠ 45 := by
      intro c t hct h; subst h; subst hct
      have := hd 45 (by simp); simp [isDig] at this
    have : decVal ip = ifold ip := by
      unfold decVal; split
      · rename_i ds; exact absurd rfl (hc 45 ds rfl)
      · rfl
    simp [hdv, this]
  · have : decVal ([45] ++ ip) = -ifold ip := by simp [decVal, ifold]
    rw [this, hdv]; simp

/-- `atof` on `[-]digits`: sign, zero, the early "more than 310 digits" exit, else the rounding routine -/
theorem atofBits_int (minus ip : Bytes) (hm : minus = [] ∨ minus = [45]) (hip : IntPart ip) :
    Strtod.atofBits (minus ++ ip) =
      (if Strtod.digitsVal ip = 0 then UInt64.ofNat (if minus = [45] then 2 ^ 63 else 0)
       else if (Strtod.decLen (Strtod.digitsVal ip) : Int) > 310 then infBits (decide (minus = [45]))
       else UInt64.ofNat ((if minus = [45] then 2 ^ 63 else 0) + roundRatio (Strtod.digitsVal ip) 1)) := by
  unfold Strtod.atofBits infBits
  rw [parseDec_int minus ip hm hip]
  generalize Strtod.digitsVal ip = n
  simp only [Bool.false_eq_true, if_false, Int.natCast_zero, Int.sub_zero, Int.add_zero, decide_eq_true_eq]
  by_cases h0 : n = 0
  · simp only [h0, if_true]
  · simp only [h0, if_false]
    by_cases h1 : (Strtod.decLen n : Int) > 310
    · simp only [h1, if_true]
    · have c2 : ¬ ((Strtod.decLen n : Int) < -326) := by omega
      simp only [h1, c2, if_false, ge_iff_le, Int.le_refl, if_true, Int.toNat_zero, Nat.pow_zero, Nat.mul_one]

/-- value of a normal double given by biased exponent ≥ 1075 and fraction: an integer -/
theorem dval_pack (neg : Bool) (be fr : Nat) (h1 : 1075 ≤ be) (h2 : be < 2047) (hfr : fr < 2 ^ 52) :
    dval (UInt64.ofNat ((if neg then 2 ^ 63 else 0) + (be * 2 ^ 52 + fr))) =
      (if neg then -(((fr + 2 ^ 52) * 2 ^ (be - 1075) : Nat) : Rat) else (((fr + 2 ^ 52) * 2 ^ (be - 1075) : Nat) : Rat)) := by
  have hval : ((fr + 2 ^ 52 : Nat) : Rat) * pow2 ((be : Int) - 1075) = (((fr + 2 ^ 52) * 2 ^ (be - 1075) : Nat) : Rat) := by
    unfold pow2
    have hc : (be : Int) - 1075 ≥ 0 := by omega
    have hto : ((be : Int) - 1075).toNat = be - 1075 := by omega
    simp only [hc, if_true, hto]
    push_cast; ring
  unfold dval
  cases neg
  · simp only [Bool.false_eq_true, if_false, Nat.zero_add]
    have ht : (UInt64.ofNat (be * 2 ^ 52 + fr)).toNat = be * 2 ^ 52 + fr := by
      simp only [UInt64.toNat_ofNat']; omega
    simp only [ht]
    have e1 : (be * 2 ^ 52 + fr) / 2 ^ 52 % 2048 = be := by omega
    have e2 : (be * 2 ^ 52 + fr) % 2 ^ 52 = fr := by omega
    have e3 : ¬ (be * 2 ^ 52 + fr) / 2 ^ 63 = 1 := by omega
    have e4 : ¬ (be = 0) := by omega
    simp only [e1, e2, e3, e4, if_false]
    exact hval
  · simp only [if_true]
    have ht : (UInt64.ofNat (2 ^ 63 + (be * 2 ^ 52 + fr))).toNat = 2 ^ 63 + (be * 2 ^ 52 + fr) := by
      simp only [UInt64.toNat_ofNat']; omega
    simp only [ht]
    have e1 : (2 ^ 63 + (be * 2 ^ 52 + fr)) / 2 ^ 52 % 2048 = be := by omega
    have e2 : (2 ^ 63 + (be * 2 ^ 52 + fr)) % 2 ^ 52 = fr := by omega
    have e3 : (2 ^ 63 + (be * 2 ^ 52 + fr)) / 2 ^ 63 = 1 := by omega
    have e4 : ¬ (be = 0) := by omega
    simp only [e1, e2, e3, e4, if_false, if_true]
    rw [hval]

theorem decLen_le_310 (n : Nat) (h : n < 2 ^ 1024) : ¬ ((Strtod.decLen n : Int) > 310) := by
  have : Strtod.decLen n ≤ 310 := by
    unfold Strtod.decLen; split
    · omega
    · exact (Nat.length_toDigits_le_iff (b := 10) (by omega) (by omega)).mpr (Nat.lt_trans h (by decide))
  omega

theorem pow_split (a b : Nat) : 2 ^ a * 2 ^ b = 2 ^ (a + b) := (Nat.pow_add 2 a b).symm

/-- **the double of an integer literal of any length** (what `atof` returns on `[-]digits`) -/
theorem int_literal_atof (minus ip : Bytes) (hm : minus = [] ∨ minus = [45]) (hip : IntPart ip) :
    ∃ n : Nat, decVal (minus ++ ip) = (if minus = [45] then -(n : Int) else (n : Int)) ∧
      (n < 2 ^ 53 → dval (Strtod.atofBits (minus ++ ip)) = ((decVal (minus ++ ip) : Int) : Rat)) ∧
      (2 ^ 53 ≤ n → n < 2 ^ 1024 → ∃ k, Nearest53 n k ∧
          (k < 2 ^ 1024 → dval (Strtod.atofBits (minus ++ ip)) = (if minus = [45] then -(k : Rat) else (k : Rat))) ∧
          (2 ^ 1024 ≤ k → Strtod.atofBits (minus ++ ip) = infBits (decide (minus = [45])))) ∧
      (2 ^ 1024 ≤ n → Strtod.atofBits (minus ++ ip) = infBits (decide (minus = [45]))) := by
  refine ⟨Strtod.digitsVal ip, decVal_intlex minus ip hm hip, ?_, ?_, ?_⟩
  · intro h53
    rw [atofBits_int minus ip hm hip, decVal_intlex minus ip hm hip]
    generalize Strtod.digitsVal ip = n at *
    by_cases h0 : n = 0
    · subst h0
      simp only [if_true]
      have := dval_zero_bits (decide (minus = [45]))
      simp only [decide_eq_true_eq] at this
      rw [this]; split <;> simp
    · simp only [h0, if_false]
      have hdl := decLen_le n (by omega)
      have c1 : ¬ ((Strtod.decLen n : Int) > 310) := by omega
      simp only [c1, if_false]
      have := dval_int_bits n (by omega) h53 (decide (minus = [45]))
      simp only [decide_eq_true_eq] at this
      rw [this]; split <;> simp
  · intro h53 h1024
    rw [atofBits_int minus ip hm hip]
    generalize Strtod.digitsVal ip = n at *
    have hn0 : n ≠ 0 := by omega
    have hL : Nat.log2 n < 1024 := (Nat.log2_lt hn0).mpr h1024
    obtain ⟨hL52, hq1, hq2⟩ := big_quot n h53
    obtain ⟨r1, r2, r3, r4, r5⟩ := roundUp_nearest n (Nat.log2 n - 52)
    simp only [hn0, decLen_le_310 n h1024, if_false, roundRatio_big n h53]
    refine ⟨roundUp (Nat.log2 n - 52) (n / 2 ^ (Nat.log2 n - 52)) (n % 2 ^ (Nat.log2 n - 52)) * 2 ^ (Nat.log2 n - 52),
      ⟨_, rfl, by omega, by omega, r3, r4, r5⟩, ?_, ?_⟩
    all_goals
      generalize hE : Nat.log2 n - 52 = e at *
      generalize roundUp e (n / 2 ^ e) (n % 2 ^ e) = q at *
      have he : e ≤ 971 := by omega
      unfold packBig
    · intro hk
      by_cases hq : q ≥ 2 ^ 53
      · have hq' : q = 2 ^ 53 := by omega
        subst hq'
        have hb : ¬ (e + 1076 ≥ 2047) := by
          intro hb
          have : 2 ^ 971 ≤ 2 ^ e := Nat.pow_le_pow_right (by omega) (by omega)
          have : 2 ^ 53 * 2 ^ 971 ≤ 2 ^ 53 * 2 ^ e := Nat.mul_le_mul_left _ this
          rw [pow_split] at this
          omega
        simp only [hq, hb, if_true, if_false]
        have := dval_pack (decide (minus = [45])) (e + 1076) 0 (by omega) (by omega) (by decide)
        simp only [decide_eq_true_eq, Nat.add_zero] at this
        rw [this]
        have e1 : e + 1076 - 1075 = e + 1 := by omega
        have e2 : (0 + 2 ^ 52) * 2 ^ (e + 1076 - 1075) = 2 ^ 53 * 2 ^ e := by rw [e1, Nat.pow_succ]; omega
        rw [e2]
      · have hb : ¬ (e + 1075 ≥ 2047) := by omega
        simp only [hq, hb, if_false]
        have := dval_pack (decide (minus = [45])) (e + 1075) (q - 2 ^ 52) (by omega) (by omega) (by omega)
        simp only [decide_eq_true_eq] at this
        rw [this]
        have e1 : e + 1075 - 1075 = e := by omega
        have e2 : q - 2 ^ 52 + 2 ^ 52 = q := by omega
        rw [e1, e2]
    · intro hk
      by_cases hq : q ≥ 2 ^ 53
      · have hq' : q = 2 ^ 53 := by omega
        subst hq'
        have hb : e + 1076 ≥ 2047 := by
          apply Classical.byContradiction
          intro hb
          have : 2 ^ e ≤ 2 ^ 970 := Nat.pow_le_pow_right (by omega) (by omega)
          have : 2 ^ 53 * 2 ^ e ≤ 2 ^ 53 * 2 ^ 970 := Nat.mul_le_mul_left _ this
          rw [pow_split 53 970] at this
          have : (2 : Nat) ^ (53 + 970) < 2 ^ 1024 := by decide
          omega
        simp only [hq, hb, if_true, infBits, decide_eq_true_eq]
      · exfalso
        have h1 : q * 2 ^ e < 2 ^ 53 * 2 ^ e := Nat.mul_lt_mul_of_pos_right (by omega) (Nat.pow_pos (by omega))
        have : 2 ^ e ≤ 2 ^ 971 := Nat.pow_le_pow_right (by omega) he
        have h2 : 2 ^ 53 * 2 ^ e ≤ 2 ^ 53 * 2 ^ 971 := Nat.mul_le_mul_left _ this
        rw [pow_split 53 971] at h2
        omega
  · intro h1024
    rw [atofBits_int minus ip hm hip]
    generalize Strtod.digitsVal ip = n at *
    have hn0 : n ≠ 0 := by omega
    have h53 : 2 ^ 53 ≤ n := Nat.le_trans (by decide) h1024
    have hL : 1024 ≤ Nat.log2 n := (Nat.le_log2 hn0).mpr h1024
    simp only [hn0, if_false]
    by_cases hd : (Strtod.decLen n : Int) > 310
    · simp only [hd, if_true]
    · simp only [hd, if_false, roundRatio_big n h53]
      generalize hE : Nat.log2 n - 52 = e at *
      generalize roundUp e (n / 2 ^ e) (n % 2 ^ e) = q at *
      have hb1 : e + 1076 ≥ 2047 := by omega
      have hb2 : e + 1075 ≥ 2047 := by omega
      unfold packBig infBits
      simp only [hb1, hb2, if_true, decide_eq_true_eq, ite_self]

end AslProofs.Num
