import AslModel.Xdl
/-!
# RFC 8259 — the JSON grammar as an inductive relation, written from the RFC (not from the parser)

`SerV v w` : the byte string `w` is a JSON *value* (no surrounding white space) denoting `v`;
`SerDoc v w` : `w` is a JSON-text (`ws value ws`).  The tree type `JV` of the model is reused as plain
data: a number denotes its lexeme (`JV.num lex`, "the decimal number spelled `lex`"), a string denotes
the UTF-8 bytes of its code points, an object denotes its member list in order (duplicates allowed).

Scope, as in the property: every RFC 8259 text except `\u0000` escapes and lone surrogates; any
nesting depth, any white space, every number spelling, every escape (`\/` and surrogate pairs
included).  Unescaped bytes ≥ 0x80 are accepted as they are (a superset of RFC 8259, which wants them
to be well-formed UTF-8).
-/
namespace Rfc8259
open AslModel.Xdl

/-- ws = *( %x20 / %x09 / %x0A / %x0D ) -/
def isWs (c : UInt8) : Prop := c = 0x20 ∨ c = 0x09 ∨ c = 0x0A ∨ c = 0x0D
def Ws (w : Bytes) : Prop := ∀ c ∈ w, isWs c

def isDig (c : UInt8) : Prop := 48 ≤ c ∧ c ≤ 57
def Digits (ds : Bytes) : Prop := ∀ c ∈ ds, isDig c

/-- int = zero / ( digit1-9 *DIGIT ) -/
inductive IntPart : Bytes → Prop
  | zero : IntPart [48]
  | nz (d : UInt8) (ds : Bytes) : 49 ≤ d → d ≤ 57 → Digits ds → IntPart (d :: ds)

/-- frac = decimal-point 1*DIGIT (or absent) -/
inductive Frac : Bytes → Prop
  | none : Frac []
  | some (d : UInt8) (ds : Bytes) : isDig d → Digits ds → Frac (46 :: d :: ds)

/-- exp = e [ minus / plus ] 1*DIGIT (or absent) -/
inductive Exp : Bytes → Prop
  | none : Exp []
  | some (e : UInt8) (sgn : Bytes) (d : UInt8) (ds : Bytes) : (e = 101 ∨ e = 69) →
      (sgn = [] ∨ sgn = [45] ∨ sgn = [43]) → isDig d → Digits ds → Exp (e :: sgn ++ d :: ds)

/-- number = [ minus ] int [ frac ] [ exp ] -/
inductive Number : Bytes → Prop
  | mk (minus ip fr ex : Bytes) : (minus = [] ∨ minus = [45]) → IntPart ip → Frac fr → Exp ex →
      Number (minus ++ ip ++ fr ++ ex)

/-- the two-character escapes: `\" \\ \/ \b \f \n \r \t` -/
def simpleEsc (e : UInt8) : Option UInt8 :=
  if e = 0x22 then some 0x22 else if e = 0x5C then some 0x5C else if e = 0x2F then some 0x2F
  else if e = 0x62 then some 0x08 else if e = 0x66 then some 0x0C else if e = 0x6E then some 0x0A
  else if e = 0x72 then some 0x0D else if e = 0x74 then some 0x09 else none

/-- HEXDIG (both cases) -/
def hexDig (c : UInt8) : Option Nat :=
  if 48 ≤ c ∧ c ≤ 57 then some (c.toNat - 48)
  else if 65 ≤ c ∧ c ≤ 70 then some (c.toNat - 55)
  else if 97 ≤ c ∧ c ≤ 102 then some (c.toNat - 87)
  else none

/-- the code unit written `\uXXXX` -/
def hex4 (a b c d : UInt8) : Option Nat := do
  let x ← hexDig a
  let y ← hexDig b
  let z ← hexDig c
  let w ← hexDig d
  pure (x * 4096 + y * 256 + z * 16 + w)

/-- UTF-8 (RFC 3629) of a Unicode scalar value -/
def utf8 (cp : Nat) : Bytes :=
  if cp < 0x80 then [UInt8.ofNat cp]
  else if cp < 0x800 then [UInt8.ofNat (0xC0 + cp / 64), UInt8.ofNat (0x80 + cp % 64)]
  else if cp < 0x10000 then
    [UInt8.ofNat (0xE0 + cp / 4096), UInt8.ofNat (0x80 + cp / 64 % 64), UInt8.ofNat (0x80 + cp % 64)]
  else
    [UInt8.ofNat (0xF0 + cp / 262144), UInt8.ofNat (0x80 + cp / 4096 % 64), UInt8.ofNat (0x80 + cp / 64 % 64),
     UInt8.ofNat (0x80 + cp % 64)]

/-- unescaped = %x20-21 / %x23-5B / %x5D-10FFFF, at the byte level -/
def unescaped (c : UInt8) : Prop := 0x20 ≤ c ∧ c ≠ 0x22 ∧ c ≠ 0x5C

/-- `Chars s w` : the characters `w` between the quotation marks denote the byte string `s` -/
inductive Chars : Bytes → Bytes → Prop
  | nil : Chars [] []
  | plain (c : UInt8) (s w : Bytes) : unescaped c → Chars s w → Chars (c :: s) (c :: w)
  | esc (e d : UInt8) (s w : Bytes) : simpleEsc e = some d → Chars s w → Chars (d :: s) (0x5C :: e :: w)
  | uni (a b c d : UInt8) (cp : Nat) (s w : Bytes) : hex4 a b c d = some cp → cp ≠ 0 →
      (cp < 0xD800 ∨ 0xDFFF < cp) → Chars s w →
      Chars (utf8 cp ++ s) (0x5C :: 0x75 :: a :: b :: c :: d :: w)
  | pair (a b c d a' b' c' d' : UInt8) (hi lo : Nat) (s w : Bytes) : hex4 a b c d = some hi →
      hex4 a' b' c' d' = some lo → 0xD800 ≤ hi → hi ≤ 0xDBFF → 0xDC00 ≤ lo → lo ≤ 0xDFFF → Chars s w →
      Chars (utf8 (0x10000 + (hi - 0xD800) * 0x400 + (lo - 0xDC00)) ++ s)
        (0x5C :: 0x75 :: a :: b :: c :: d :: 0x5C :: 0x75 :: a' :: b' :: c' :: d' :: w)

mutual
/-- value = false / null / true / object / array / number / string -/
inductive SerV : JV → Bytes → Prop
  | null : SerV .null [110, 117, 108, 108]
  | true : SerV (.bool true) [116, 114, 117, 101]
  | false : SerV (.bool false) [102, 97, 108, 115, 101]
  | num (lex : Bytes) : Number lex → SerV (.num lex) lex
  | str (s w : Bytes) : Chars s w → SerV (.str s) (0x22 :: w ++ [0x22])
  | arr0 (w : Bytes) : Ws w → SerV (.arr []) (0x5B :: w ++ [0x5D])
  | arr (vs : List JV) (w : Bytes) : SerElems vs w → SerV (.arr vs) (0x5B :: w ++ [0x5D])
  | obj0 (w : Bytes) : Ws w → SerV (.obj []) (0x7B :: w ++ [0x7D])
  | obj (ms : List (Bytes × JV)) (w : Bytes) : SerMembers ms w → SerV (.obj ms) (0x7B :: w ++ [0x7D])
/-- value *( value-separator value ), with the white space around each value -/
inductive SerElems : List JV → Bytes → Prop
  | one (v : JV) (a x b : Bytes) : Ws a → SerV v x → Ws b → SerElems [v] (a ++ x ++ b)
  | cons (v : JV) (vs : List JV) (a x b w : Bytes) : Ws a → SerV v x → Ws b → SerElems vs w →
      SerElems (v :: vs) (a ++ x ++ b ++ 0x2C :: w)
/-- member *( value-separator member ); member = string name-separator value -/
inductive SerMembers : List (Bytes × JV) → Bytes → Prop
  | one (k : Bytes) (v : JV) (a kw b c x d : Bytes) : Ws a → Chars k kw → Ws b → Ws c → SerV v x → Ws d →
      SerMembers [(k, v)] (a ++ 0x22 :: kw ++ 0x22 :: b ++ 0x3A :: c ++ x ++ d)
  | cons (k : Bytes) (v : JV) (ms : List (Bytes × JV)) (a kw b c x d w : Bytes) : Ws a → Chars k kw → Ws b →
      Ws c → SerV v x → Ws d → SerMembers ms w →
      SerMembers ((k, v) :: ms) (a ++ 0x22 :: kw ++ 0x22 :: b ++ 0x3A :: c ++ x ++ d ++ 0x2C :: w)
end

/-- JSON-text = ws value ws -/
def SerDoc (v : JV) (w : Bytes) : Prop := ∃ a x b, Ws a ∧ SerV v x ∧ Ws b ∧ w = a ++ x ++ b

/-! ## what the decoder is expected to return for a denoted value -/

/-- the integer spelled by `[-]digits` -/
def decVal (lex : Bytes) : Int :=
  match lex with
  | 45 :: ds => -(ds.foldl (fun (y : Int) c => 10 * y + ((c.toNat : Int) - 48)) 0)
  | ds => ds.foldl (fun (y : Int) c => 10 * y + ((c.toNat : Int) - 48)) 0

/-- no fraction and no exponent -/
def isIntLex (lex : Bytes) : Bool := lex.all fun c => c = 45 || (48 ≤ c && c ≤ 57)

mutual
/-- the `Var` the decoder builds: integers of at most 9 characters become `int`, every other number goes
    through `atof` on its lexeme; a duplicate key keeps only its last value (`norm_object_lookup`).  The order
    of the members in the list is a representation detail: `Var` objects are sorted maps and both sides of the
    correspondence check print members sorted by key, so no order is claimed or observable -/
def norm : JV → JV
  | .num lex => if isIntLex lex ∧ lex.length ≤ 9 then .int (decVal lex) else .num lex
  | .arr l => .arr (normL l)
  | .obj ms => .obj (normM ms [])
  | .null => .null
  | .bool b => .bool b
  | .int i => .int i
  | .str s => .str s
def normL : List JV → List JV
  | [] => []
  | x :: t => norm x :: normL t
def normM : List (Bytes × JV) → List (Bytes × JV) → List (Bytes × JV)
  | [], acc => acc
  | (k, v) :: t, acc => normM t (objSet acc k (norm v))
end

mutual
/-- nesting depth of arrays/objects -/
def depth : JV → Nat
  | .arr l => depthL l + 1
  | .obj ms => depthM ms + 1
  | _ => 0
def depthL : List JV → Nat
  | [] => 0
  | x :: t => max (depth x) (depthL t)
def depthM : List (Bytes × JV) → Nat
  | [] => 0
  | (_, v) :: t => max (depth v) (depthM t)
end

end Rfc8259
