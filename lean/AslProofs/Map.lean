import AslModel.Map
/-!
# Helper definitions and lemmas for the ordered map (`AslModel/Map.lean`)

Specification vocabulary (`StrictOrder`, `Sorted`, `lookup`, `IndexSpec`) and the loop-invariant proof of
`Map::indexOf`.  Core Lean only.
-/
namespace AslProofs.Map
open AslModel.Map

variable {K V : Type}

/-- `cmp` is the sign of a strict total order on the keys -/
structure StrictOrder (cmp : K → K → Ordering) : Prop where
  eq_iff : ∀ a b, cmp a b = .eq ↔ a = b
  gt_iff : ∀ a b, cmp a b = .gt ↔ cmp b a = .lt
  trans : ∀ a b c, cmp a b = .lt → cmp b c = .lt → cmp a c = .lt

/-- the storage is strictly ascending by key -/
def Sorted (cmp : K → K → Ordering) (l : List (K × V)) : Prop :=
  l.Pairwise (fun x y => cmp x.1 y.1 = .lt)

/-- what the encoded result of `indexOf` must mean:
`r ≥ 0`: slot `r` exists and holds the key; `r < 0`: `p = -r-1` is the unique insertion point -/
def IndexSpec (cmp : K → K → Ordering) (l : List (K × V)) (key : K) (r : Int) : Prop :=
  (0 ≤ r → ∃ h : r.toNat < l.length, cmp l[r.toNat].1 key = .eq) ∧
  (r < 0 → (-r - 1).toNat ≤ l.length ∧
    (∀ i (h : i < l.length), i < (-r - 1).toNat → cmp l[i].1 key = .lt) ∧
    (∀ i (h : i < l.length), (-r - 1).toNat ≤ i → cmp l[i].1 key = .gt))

theorem sorted_get {cmp : K → K → Ordering} {l : List (K × V)} (hs : Sorted cmp l)
    {i j : Nat} (hij : i < j) (hj : j < l.length) : cmp (l[i]'(by omega)).1 l[j].1 = .lt :=
  (List.pairwise_iff_getElem.mp hs) i j (by omega) hj hij

theorem below_lt {cmp : K → K → Ordering} (so : StrictOrder cmp) {l : List (K × V)} (hs : Sorted cmp l) {key : K}
    {i j : Nat} (hij : i ≤ j) (hj : j < l.length) (h : cmp l[j].1 key = .lt) : cmp (l[i]'(by omega)).1 key = .lt := by
  rcases Nat.lt_or_eq_of_le hij with h1 | h1
  · exact so.trans _ _ _ (sorted_get hs h1 hj) h
  · subst h1; exact h

theorem above_gt {cmp : K → K → Ordering} (so : StrictOrder cmp) {l : List (K × V)} (hs : Sorted cmp l) {key : K}
    {i j : Nat} (hij : i ≤ j) (hj : j < l.length) (h : cmp (l[i]'(by omega)).1 key = .gt) : cmp l[j].1 key = .gt := by
  rcases Nat.lt_or_eq_of_le hij with h1 | h1
  · have h2 := (so.gt_iff _ _).mp h
    exact (so.gt_iff _ _).mpr (so.trans _ _ _ h2 (sorted_get hs h1 hj))
  · subst h1; exact h

theorem not_lt_eq_gt {c : Ordering} (h1 : ¬ c = .eq) (h2 : ¬ c = .lt) : c = .gt := by
  cases c <;> simp_all

/-- steady state of the loop: `mn < mid < mx`, slot `mn` already tested `<` (or `mn = 0` untested),
slot `mx` already tested `>` -/
theorem loop_steady {cmp : K → K → Ordering} (so : StrictOrder cmp) (l : List (K × V)) (key : K) (hs : Sorted cmp l) :
    ∀ fuel mn mx mid, mx - mn ≤ fuel → (h1 : mn < mid) → (h2 : mid < mx) → (hmx : mx < l.length) →
      (mn = 0 ∨ cmp (l[mn]'(by omega)).1 key = .lt) → cmp l[mx].1 key = .gt →
      ∃ r, loop cmp l key fuel mn mx mid = some r ∧ IndexSpec cmp l key r := by
  intro fuel
  induction fuel with
  | zero => intro mn mx mid hf h1 h2; omega
  | succ fuel ih =>
    intro mn mx mid hf h1 h2 h3 hlo hhi
    have hmid : mid < l.length := by omega
    unfold loop
    rw [List.getElem?_eq_getElem hmid]
    simp only []
    by_cases hv : cmp l[mid].1 key = .eq
    · refine ⟨(mid : Int), by simp [hv], ?_, ?_⟩
      · intro _; exact ⟨by simpa using hmid, by simpa using hv⟩
      · intro h; omega
    · simp only [hv, if_false]
      by_cases hlt : cmp l[mid].1 key = .lt
      · simp only [hlt, if_true]
        by_cases hgap : mx - mid > 1
        · simp only [hgap, if_true]
          exact ih mid mx ((mx + mid) / 2) (by omega) (by omega) (by omega) h3 (Or.inr hlt) hhi
        · simp only [hgap, if_false]
          have hne : mid ≠ mx := by omega
          simp only [hne, if_false]
          rw [List.getElem?_eq_getElem hmid]
          simp only [hlt, if_true]
          have hmx : mx = mid + 1 := by omega
          refine ⟨_, rfl, ?_, ?_⟩
          · intro h; omega
          · intro _
            have hp : (-(-(mx : Int) - 1) - 1).toNat = mx := by omega
            rw [hp]
            refine ⟨by omega, ?_, ?_⟩
            · intro i hi hip
              exact below_lt so hs (by omega) hmid hlt
            · intro i hi hip
              exact above_gt so hs hip hi hhi
      · have hgt : cmp l[mid].1 key = .gt := not_lt_eq_gt hv hlt
        simp only [hlt, if_false]
        by_cases hgap : mid - mn > 1
        · simp only [hgap, if_true]
          exact ih mn mid ((mid + mn) / 2) (by omega) (by omega) (by omega) (by omega) hlo hgt
        · simp only [hgap, if_false]
          have hne : mn ≠ mid := by omega
          simp only [hne, if_false]
          have hmid1 : mid = mn + 1 := by omega
          have hmn : mn < l.length := by omega
          rw [List.getElem?_eq_getElem hmn]
          simp only []
          by_cases hw : cmp l[mn].1 key = .eq
          · refine ⟨(mn : Int), by simp [hw], ?_, ?_⟩
            · intro _; exact ⟨by simpa using hmn, by simpa using hw⟩
            · intro h; omega
          · simp only [hw, if_false]
            by_cases hwl : cmp l[mn].1 key = .lt
            · simp only [hwl, if_true]
              refine ⟨_, rfl, ?_, ?_⟩
              · intro h; omega
              · intro _
                have hp : (-(-(mid : Int) - 1) - 1).toNat = mid := by omega
                rw [hp]
                refine ⟨by omega, ?_, ?_⟩
                · intro i hi hip
                  exact below_lt so hs (by omega) hmn hwl
                · intro i hi hip
                  exact above_gt so hs hip hi hgt
            · have hwg : cmp l[mn].1 key = .gt := not_lt_eq_gt hw hwl
              simp only [hwl, if_false]
              have hmn0 : mn = 0 := by
                rcases hlo with h | h
                · exact h
                · exact absurd h hwl
              refine ⟨_, rfl, ?_, ?_⟩
              · intro h; omega
              · intro _
                have hp : (-(-(mn : Int) - 1) - 1).toNat = mn := by omega
                rw [hp]
                refine ⟨by omega, ?_, ?_⟩
                · intro i hi hip; omega
                · intro i hi hip
                  exact above_gt so hs hip hi hwg

end AslProofs.Map

namespace AslProofs.Map
open AslModel.Map
variable {K V : Type}

/-- `Map::indexOf` on a strictly ascending array: terminates without reading outside the array and its
encoded result satisfies `IndexSpec` -/
theorem indexOf_spec {cmp : K → K → Ordering} (so : StrictOrder cmp) (l : List (K × V)) (key : K) (hs : Sorted cmp l) :
    ∃ r, indexOf cmp l key = some r ∧ IndexSpec cmp l key r := by
  unfold indexOf
  by_cases hn : l.length = 0
  · refine ⟨-1, by simp [hn], ?_, ?_⟩
    · intro h; omega
    · intro _; refine ⟨by simp, ?_, ?_⟩ <;> intro i hi <;> omega
  · simp only [hn, if_false]
    have hlast : l.length - 1 < l.length := by omega
    unfold loop
    rw [List.getElem?_eq_getElem hlast]
    simp only []
    by_cases hv : cmp l[l.length - 1].1 key = .eq
    · refine ⟨((l.length - 1 : Nat) : Int), by simp [hv], ?_, ?_⟩
      · intro _; exact ⟨by simpa using hlast, by simpa using hv⟩
      · intro h; omega
    · simp only [hv, if_false]
      by_cases hlt : cmp l[l.length - 1].1 key = .lt
      · simp only [hlt, if_true, Nat.sub_self, Nat.not_lt_zero, gt_iff_lt, if_false]
        refine ⟨_, rfl, ?_, ?_⟩
        · intro h; omega
        · intro _
          have hp : (-(-((l.length - 1 : Nat) : Int) - 2) - 1).toNat = l.length := by omega
          rw [hp]
          refine ⟨by omega, ?_, ?_⟩
          · intro i hi hip
            exact below_lt so hs (by omega) hlast hlt
          · intro i hi hip; omega
      · have hgt : cmp l[l.length - 1].1 key = .gt := not_lt_eq_gt hv hlt
        simp only [hlt, if_false]
        by_cases hgap : l.length - 1 - 0 > 1
        · simp only [hgap, if_true]
          exact loop_steady so l key hs l.length 0 (l.length - 1) ((l.length - 1 + 0) / 2) (by omega) (by omega) (by omega)
            hlast (Or.inl rfl) hgt
        · simp only [hgap, if_false]
          by_cases h1 : 0 = l.length - 1
          · simp only [h1, if_true]
            refine ⟨_, rfl, ?_, ?_⟩
            · intro h; omega
            · intro _
              refine ⟨by simp, ?_, ?_⟩
              · intro i hi hip; simp at hip
              · intro i hi hip
                have : i = l.length - 1 := by omega
                subst this; exact hgt
          · simp only [h1, if_false]
            have hn2 : l.length = 2 := by omega
            have h0 : 0 < l.length := by omega
            rw [List.getElem?_eq_getElem h0]
            simp only []
            by_cases hw : cmp l[0].1 key = .eq
            · refine ⟨0, by simp [hw], ?_, ?_⟩
              · intro _; exact ⟨by simpa using h0, by simpa using hw⟩
              · intro h; omega
            · simp only [hw, if_false]
              by_cases hwl : cmp l[0].1 key = .lt
              · simp only [hwl, if_true]
                refine ⟨_, rfl, ?_, ?_⟩
                · intro h; omega
                · intro _
                  have hp : (-(-((l.length - 1 : Nat) : Int) - 1) - 1).toNat = 1 := by omega
                  rw [hp]
                  refine ⟨by omega, ?_, ?_⟩
                  · intro i hi hip
                    have : i = 0 := by omega
                    subst this; exact hwl
                  · intro i hi hip
                    have : i = l.length - 1 := by omega
                    subst this; exact hgt
              · have hwg : cmp l[0].1 key = .gt := not_lt_eq_gt hw hwl
                simp only [hwl, if_false]
                refine ⟨_, rfl, ?_, ?_⟩
                · intro h; omega
                · intro _
                  refine ⟨by simp, ?_, ?_⟩
                  · intro i hi hip; simp at hip
                  · intro i hi hip
                    exact above_gt so hs (Nat.zero_le i) hi hwg

end AslProofs.Map

namespace AslProofs.Map
open AslModel.Map
variable {K V : Type}

/-! ## abstraction: the finite map a key/value list stands for -/

/-- linear search for the first entry with the key: the abstract lookup -/
def lookup [DecidableEq K] (k : K) : List (K × V) → Option V
  | [] => none
  | (k', v) :: t => if k' = k then some v else lookup k t

def KeysNodup (l : List (K × V)) : Prop := l.Pairwise (fun x y => x.1 ≠ y.1)

theorem cmp_self {cmp : K → K → Ordering} (so : StrictOrder cmp) (a : K) : cmp a a = .eq := (so.eq_iff a a).mpr rfl

theorem lt_ne {cmp : K → K → Ordering} (so : StrictOrder cmp) {a b : K} (h : cmp a b = .lt) : a ≠ b := by
  intro e; subst e; rw [cmp_self so] at h; cases h

theorem gt_ne {cmp : K → K → Ordering} (so : StrictOrder cmp) {a b : K} (h : cmp a b = .gt) : a ≠ b := by
  intro e; subst e; rw [cmp_self so] at h; cases h

theorem Sorted.keysNodup {cmp : K → K → Ordering} (so : StrictOrder cmp) {l : List (K × V)} (hs : Sorted cmp l) :
    KeysNodup l := List.Pairwise.imp (fun h => lt_ne so h) hs

section
variable [DecidableEq K]

theorem lookup_append (k : K) (a b : List (K × V)) :
    lookup k (a ++ b) = (lookup k a).or (lookup k b) := by
  induction a with
  | nil => simp [lookup]
  | cons x t ih =>
    obtain ⟨k', v⟩ := x
    simp only [List.cons_append, lookup]
    by_cases h : k' = k
    · simp [h]
    · simp [h, ih]

theorem lookup_none {k : K} {l : List (K × V)} (h : ∀ x ∈ l, x.1 ≠ k) : lookup k l = none := by
  induction l with
  | nil => rfl
  | cons x t ih =>
    obtain ⟨k', v⟩ := x
    have h1 : k' ≠ k := h (k', v) (by simp)
    simp only [lookup, h1, if_false]
    exact ih (fun y hy => h y (by simp [hy]))

theorem lookup_mem {k : K} {v : V} {l : List (K × V)} (h : lookup k l = some v) : (k, v) ∈ l := by
  induction l with
  | nil => simp [lookup] at h
  | cons x t ih =>
    obtain ⟨k', v'⟩ := x
    simp only [lookup] at h
    by_cases h1 : k' = k
    · simp only [h1, if_true, Option.some.injEq] at h
      subst h1; subst h; simp
    · simp only [h1, if_false] at h
      exact List.mem_cons_of_mem _ (ih h)

theorem lookup_of_mem {k : K} {v : V} {l : List (K × V)} (hn : KeysNodup l) (h : (k, v) ∈ l) : lookup k l = some v := by
  induction l with
  | nil => simp at h
  | cons x t ih =>
    obtain ⟨k', v'⟩ := x
    have hn' := List.pairwise_cons.mp hn
    simp only [lookup]
    rcases List.mem_cons.mp h with h1 | h1
    · injection h1 with h2 h3; subst h2; subst h3; simp
    · have : k' ≠ k := hn'.1 (k, v) h1
      simp only [this, if_false]
      exact ih hn'.2 h1

theorem lookup_isSome_iff {k : K} {l : List (K × V)} : (lookup k l).isSome ↔ k ∈ l.map (·.1) := by
  induction l with
  | nil => simp [lookup]
  | cons x t ih =>
    obtain ⟨k', v'⟩ := x
    simp only [lookup, List.map_cons, List.mem_cons]
    by_cases h : k' = k
    · simp [h]
    · simp only [h, if_false, ih]
      constructor
      · intro hh; exact Or.inr hh
      · intro hh; rcases hh with hh | hh
        · exact absurd hh.symm h
        · exact hh

end

/-! ## list surgery used by `set`, `operator[]`, `remove` -/

theorem setValAt_keys (l : List (K × V)) (i : Nat) (v : V) : (setValAt l i v).map (·.1) = l.map (·.1) := by
  induction l generalizing i with
  | nil => rfl
  | cons x t ih =>
    obtain ⟨k', v'⟩ := x
    cases i with
    | zero => rfl
    | succ j => simp [setValAt, ih]

theorem setValAt_length (l : List (K × V)) (i : Nat) (v : V) : (setValAt l i v).length = l.length := by
  have := congrArg List.length (setValAt_keys l i v)
  simpa using this

theorem sorted_iff_keys {cmp : K → K → Ordering} (l : List (K × V)) :
    Sorted cmp l ↔ (l.map (·.1)).Pairwise (fun a b => cmp a b = .lt) := by
  unfold Sorted; rw [List.pairwise_map]

theorem setValAt_sorted {cmp : K → K → Ordering} {l : List (K × V)} (hs : Sorted cmp l) (i : Nat) (v : V) :
    Sorted cmp (setValAt l i v) := by
  rw [sorted_iff_keys, setValAt_keys, ← sorted_iff_keys]; exact hs

theorem lookup_setValAt [DecidableEq K] {l : List (K × V)} (hn : KeysNodup l) (i : Nat) (hi : i < l.length) (v : V) (k : K) :
    lookup k (setValAt l i v) = if k = l[i].1 then some v else lookup k l := by
  induction l generalizing i with
  | nil => simp at hi
  | cons x t ih =>
    obtain ⟨a, b⟩ := x
    have hn' := List.pairwise_cons.mp hn
    cases i with
    | zero =>
      simp only [setValAt, lookup, List.getElem_cons_zero]
      by_cases h : a = k
      · simp [h]
      · have : ¬ k = a := fun e => h e.symm
        simp [h, this]
    | succ j =>
      have hj : j < t.length := by simpa using hi
      simp only [setValAt, lookup, List.getElem_cons_succ]
      rw [ih hn'.2 j hj]
      by_cases h : a = k
      · have hne : ¬ k = t[j].1 := by
          intro e
          exact hn'.1 t[j] (List.getElem_mem hj) (by rw [h, e])
        simp [h, hne]
      · simp [h]

theorem mem_take_get {l : List (K × V)} {p : Nat} {x : K × V} (h : x ∈ l.take p) :
    ∃ i, ∃ hi : i < l.length, i < p ∧ l[i] = x := by
  obtain ⟨i, hi, e⟩ := List.getElem_of_mem h
  have hi' : i < min p l.length := by simpa using hi
  refine ⟨i, by omega, by omega, ?_⟩
  rw [← e, List.getElem_take]

theorem mem_drop_get {l : List (K × V)} {p : Nat} {x : K × V} (h : x ∈ l.drop p) :
    ∃ i, ∃ hi : i < l.length, p ≤ i ∧ l[i] = x := by
  obtain ⟨i, hi, e⟩ := List.getElem_of_mem h
  have hi' : i < l.length - p := by simpa using hi
  refine ⟨p + i, by omega, by omega, ?_⟩
  rw [← e, List.getElem_drop]

theorem insertAt_length (l : List (K × V)) (p : Nat) (hp : p ≤ l.length) (x : K × V) : (insertAt l p x).length = l.length + 1 := by
  simp [insertAt]; omega

theorem insertAt_sorted {cmp : K → K → Ordering} (so : StrictOrder cmp) {l : List (K × V)} (hs : Sorted cmp l)
    (p : Nat) (key : K) (v : V)
    (hlo : ∀ i (h : i < l.length), i < p → cmp l[i].1 key = .lt)
    (hhi : ∀ i (h : i < l.length), p ≤ i → cmp l[i].1 key = .gt) :
    Sorted cmp (insertAt l p (key, v)) := by
  unfold insertAt Sorted
  have hsplit : Sorted cmp (l.take p ++ l.drop p) := by rw [List.take_append_drop]; exact hs
  obtain ⟨h1, h2, h3⟩ := List.pairwise_append.mp hsplit
  refine List.pairwise_append.mpr ⟨h1, List.pairwise_cons.mpr ⟨?_, h2⟩, ?_⟩
  · intro y hy
    obtain ⟨i, hi, hip, e⟩ := mem_drop_get hy
    have := hhi i hi hip
    rw [e] at this
    exact (so.gt_iff _ _).mp this
  · intro x hx y hy
    rcases List.mem_cons.mp hy with e | hy'
    · subst e
      obtain ⟨i, hi, hip, e⟩ := mem_take_get hx
      have := hlo i hi hip
      rw [e] at this; exact this
    · exact h3 x hx y hy'

theorem lookup_insertAt [DecidableEq K] {cmp : K → K → Ordering} (so : StrictOrder cmp) (l : List (K × V))
    (p : Nat) (key : K) (v : V)
    (hlo : ∀ i (h : i < l.length), i < p → cmp l[i].1 key = .lt) (k : K) :
    lookup k (insertAt l p (key, v)) = if k = key then some v else lookup k l := by
  unfold insertAt
  rw [lookup_append]
  by_cases h : k = key
  · subst h
    have : lookup k (l.take p) = none := by
      apply lookup_none
      intro x hx
      obtain ⟨i, hi, hip, e⟩ := mem_take_get hx
      have := hlo i hi hip
      rw [e] at this; exact lt_ne so this
    simp [this, lookup]
  · have hne : ¬ key = k := fun e => h e.symm
    simp only [h, if_false, lookup, hne]
    rw [← lookup_append, List.take_append_drop]

theorem lookup_eraseIdx [DecidableEq K] {cmp : K → K → Ordering} (so : StrictOrder cmp) {l : List (K × V)} (hs : Sorted cmp l)
    (i : Nat) (hi : i < l.length) (k : K) :
    lookup k (l.eraseIdx i) = if k = l[i].1 then none else lookup k l := by
  have hl : l = l.take i ++ l[i] :: l.drop (i + 1) := by
    rw [List.getElem_cons_drop, List.take_append_drop]
  rw [List.eraseIdx_eq_take_drop_succ]
  by_cases h : k = l[i].1
  · simp only [h, if_true]
    apply lookup_none
    intro x hx
    rcases List.mem_append.mp hx with hx | hx
    · obtain ⟨j, hj, hji, e⟩ := mem_take_get hx
      have := sorted_get hs hji hi
      rw [e] at this; exact lt_ne so this
    · obtain ⟨j, hj, hji, e⟩ := mem_drop_get hx
      have := sorted_get hs (show i < j by omega) hj
      rw [e] at this; exact (lt_ne so this).symm
  · simp only [h, if_false]
    conv => rhs; rw [hl]
    rw [lookup_append, lookup_append]
    have hne : ¬ l[i].1 = k := fun e => h e.symm
    cases hx : l[i] with
    | mk a b =>
      rw [hx] at hne
      simp [lookup, hne]

theorem eraseIdx_sorted {cmp : K → K → Ordering} {l : List (K × V)} (hs : Sorted cmp l) (i : Nat) :
    Sorted cmp (l.eraseIdx i) :=
  List.Pairwise.sublist (List.eraseIdx_sublist l i) hs

end AslProofs.Map

namespace AslProofs.Map
open AslModel.Map
set_option linter.unusedSectionVars false
variable {K V : Type} [DecidableEq K]

/-! ## every operation of the ordered map against the abstract lookup -/

theorem index_key_eq {cmp : K → K → Ordering} (so : StrictOrder cmp) {l : List (K × V)} {key : K} {r : Int}
    (hspec : IndexSpec cmp l key r) (hr : 0 ≤ r) : ∃ h : r.toNat < l.length, l[r.toNat].1 = key := by
  obtain ⟨h, hc⟩ := hspec.1 hr
  exact ⟨h, (so.eq_iff _ _).mp hc⟩

theorem absent_of_neg {cmp : K → K → Ordering} (so : StrictOrder cmp) {l : List (K × V)} {key : K} {r : Int}
    (hspec : IndexSpec cmp l key r) (hr : r < 0) : lookup key l = none := by
  obtain ⟨_, hlo, hhi⟩ := hspec.2 hr
  apply lookup_none
  intro x hx
  obtain ⟨i, hi, e⟩ := List.getElem_of_mem hx
  by_cases hip : i < (-r - 1).toNat
  · have := hlo i hi hip; rw [e] at this; exact lt_ne so this
  · have := hhi i hi (by omega); rw [e] at this; exact gt_ne so this

theorem present_of_nonneg {cmp : K → K → Ordering} (so : StrictOrder cmp) {l : List (K × V)} (hs : Sorted cmp l) {key : K} {r : Int}
    (hspec : IndexSpec cmp l key r) (hr : 0 ≤ r) :
    ∃ h : r.toNat < l.length, l[r.toNat].1 = key ∧ lookup key l = some l[r.toNat].2 := by
  obtain ⟨h, hk⟩ := index_key_eq so hspec hr
  refine ⟨h, hk, ?_⟩
  apply lookup_of_mem (Sorted.keysNodup so hs)
  have : (key, l[r.toNat].2) = l[r.toNat] := by rw [← hk]
  rw [this]; exact List.getElem_mem h

theorem set_spec {cmp : K → K → Ordering} (so : StrictOrder cmp) {l : List (K × V)} (hs : Sorted cmp l) (key : K) (v : V) :
    ∃ l', set cmp l key v = some l' ∧ Sorted cmp l' ∧
      ∀ k, lookup k l' = if k = key then some v else lookup k l := by
  obtain ⟨r, hr, hspec⟩ := indexOf_spec so l key hs
  unfold AslModel.Map.set
  rw [hr]
  by_cases h0 : r ≥ 0
  · simp only [h0, if_true]
    obtain ⟨h, hk⟩ := index_key_eq so hspec h0
    refine ⟨_, rfl, setValAt_sorted hs _ _, ?_⟩
    intro k
    rw [lookup_setValAt (Sorted.keysNodup so hs) _ h, hk]
  · simp only [h0, if_false]
    obtain ⟨hp, hlo, hhi⟩ := hspec.2 (by omega)
    refine ⟨_, rfl, insertAt_sorted so hs _ key v hlo hhi, ?_⟩
    intro k
    exact lookup_insertAt so l _ key v hlo k

theorem index_spec {cmp : K → K → Ordering} (so : StrictOrder cmp) {l : List (K × V)} (hs : Sorted cmp l) (key : K) (dflt : V) :
    ∃ l' p, index cmp l key dflt = some (l', p) ∧ Sorted cmp l' ∧
      (∃ h : p < l'.length, l'[p] = (key, (lookup key l).getD dflt)) ∧
      ∀ k, lookup k l' = if k = key then some ((lookup key l).getD dflt) else lookup k l := by
  obtain ⟨r, hr, hspec⟩ := indexOf_spec so l key hs
  unfold index
  rw [hr]
  by_cases h0 : r ≥ 0
  · simp only [h0, if_true]
    obtain ⟨h, hk, hl⟩ := present_of_nonneg so hs hspec h0
    refine ⟨l, r.toNat, rfl, hs, ⟨h, ?_⟩, ?_⟩
    · rw [hl]; simp [← hk]
    · intro k
      by_cases hkk : k = key
      · subst hkk; simp [hl]
      · simp [hkk]
  · simp only [h0, if_false]
    obtain ⟨hp, hlo, hhi⟩ := hspec.2 (by omega)
    have habs := absent_of_neg so hspec (by omega)
    generalize (-r - 1).toNat = p at hp hlo hhi
    refine ⟨_, _, rfl, insertAt_sorted so hs _ key dflt hlo hhi, ⟨?_, ?_⟩, ?_⟩
    · rw [insertAt_length l _ hp]; omega
    · simp only [insertAt, habs, Option.getD_none]
      have hlen : (List.take p l).length = p := by simp [Nat.min_eq_left hp]
      rw [List.getElem_append_right (by omega)]
      simp [hlen]
    · intro k
      rw [habs]
      exact lookup_insertAt so l _ key dflt hlo k

theorem assign_spec {cmp : K → K → Ordering} (so : StrictOrder cmp) {l : List (K × V)} (hs : Sorted cmp l) (key : K) (dflt v : V) :
    ∃ l', assign cmp l key dflt v = some l' ∧ Sorted cmp l' ∧
      ∀ k, lookup k l' = if k = key then some v else lookup k l := by
  obtain ⟨l1, p, h1, hs1, ⟨hp, hget⟩, hl1⟩ := index_spec so hs key dflt
  unfold assign
  rw [h1]
  refine ⟨_, rfl, setValAt_sorted hs1 _ _, ?_⟩
  intro k
  rw [lookup_setValAt (Sorted.keysNodup so hs1) p hp, hget, hl1]
  by_cases hk : k = key <;> simp [hk]

theorem find_spec {cmp : K → K → Ordering} (so : StrictOrder cmp) {l : List (K × V)} (hs : Sorted cmp l) (key : K) :
    find cmp l key = some (lookup key l) := by
  obtain ⟨r, hr, hspec⟩ := indexOf_spec so l key hs
  unfold find
  rw [hr]
  by_cases h0 : r ≥ 0
  · simp only [h0, if_true]
    obtain ⟨h, hk, hl⟩ := present_of_nonneg so hs hspec h0
    rw [hl, List.getElem?_eq_getElem h]; rfl
  · simp only [h0, if_false]
    rw [absent_of_neg so hspec (by omega)]

theorem has_spec {cmp : K → K → Ordering} (so : StrictOrder cmp) {l : List (K × V)} (hs : Sorted cmp l) (key : K) :
    has cmp l key = some (lookup key l).isSome := by
  obtain ⟨r, hr, hspec⟩ := indexOf_spec so l key hs
  unfold has
  rw [hr]
  by_cases h0 : r ≥ 0
  · obtain ⟨h, hk, hl⟩ := present_of_nonneg so hs hspec h0
    simp [h0, hl]
  · rw [absent_of_neg so hspec (by omega)]
    simp [h0]

theorem get_spec {cmp : K → K → Ordering} (so : StrictOrder cmp) {l : List (K × V)} (hs : Sorted cmp l) (key : K) (dflt : V) :
    get cmp l key dflt = some ((lookup key l).getD dflt) := by
  unfold AslModel.Map.get
  rw [find_spec so hs]

theorem remove_spec {cmp : K → K → Ordering} (so : StrictOrder cmp) {l : List (K × V)} (hs : Sorted cmp l) (key : K) :
    ∃ l' b, remove cmp l key = some (l', b) ∧ Sorted cmp l' ∧ b = (lookup key l).isSome ∧
      ∀ k, lookup k l' = if k = key then none else lookup k l := by
  obtain ⟨r, hr, hspec⟩ := indexOf_spec so l key hs
  unfold remove
  rw [hr]
  by_cases h0 : r ≥ 0
  · simp only [h0, if_true]
    obtain ⟨h, hk, hl⟩ := present_of_nonneg so hs hspec h0
    refine ⟨_, _, rfl, eraseIdx_sorted hs _, by simp [hl], ?_⟩
    intro k
    rw [lookup_eraseIdx so hs _ h, hk]
  · simp only [h0, if_false]
    have habs := absent_of_neg so hspec (by omega)
    refine ⟨_, _, rfl, hs, by simp [habs], ?_⟩
    intro k
    by_cases hk : k = key
    · subst hk; simp [habs]
    · simp [hk]

theorem add_spec {cmp : K → K → Ordering} (so : StrictOrder cmp) (dflt : V) (d : List (K × V)) (hd : KeysNodup d) :
    ∀ {l : List (K × V)}, Sorted cmp l →
    ∃ l', add cmp dflt l d = some l' ∧ Sorted cmp l' ∧
      ∀ k, lookup k l' = (lookup k d).or (lookup k l) := by
  induction d with
  | nil => intro l hs; exact ⟨l, rfl, hs, by intro k; simp [lookup]⟩
  | cons x t ih =>
    intro l hs
    obtain ⟨a, b⟩ := x
    have hd' := List.pairwise_cons.mp hd
    obtain ⟨l1, h1, hs1, hl1⟩ := assign_spec so hs a dflt b
    obtain ⟨l2, h2, hs2, hl2⟩ := ih hd'.2 hs1
    refine ⟨l2, ?_, hs2, ?_⟩
    · unfold add at h2 ⊢
      simp only [List.foldl_cons, h1]
      exact h2
    · intro k
      rw [hl2, hl1]
      simp only [lookup]
      by_cases hk : k = a
      · subst hk
        have : lookup k t = none := lookup_none (fun y hy => (hd'.1 y hy).symm)
        simp [this]
      · have : ¬ a = k := fun e => hk e.symm
        simp [hk, this]

/-- two strictly ascending arrays that stand for the same finite map are the same array -/
theorem sorted_ext {cmp : K → K → Ordering} (so : StrictOrder cmp) :
    ∀ {a b : List (K × V)}, Sorted cmp a → Sorted cmp b → (∀ k, lookup k a = lookup k b) → a = b := by
  intro a
  induction a with
  | nil =>
    intro b _ _ h
    cases b with
    | nil => rfl
    | cons y t =>
      have := h y.1
      simp [lookup] at this
  | cons x s ih =>
    intro b ha hb h
    cases b with
    | nil =>
      have := h x.1
      simp [lookup] at this
    | cons y t =>
      obtain ⟨xk, xv⟩ := x
      obtain ⟨yk, yv⟩ := y
      have ha' := List.pairwise_cons.mp ha
      have hb' := List.pairwise_cons.mp hb
      have hkey : xk = yk := by
        apply Classical.byContradiction
        intro hne
        have h1 := h xk
        simp only [lookup, if_true] at h1
        have hne' : ¬ yk = xk := fun e => hne e.symm
        simp only [hne', if_false] at h1
        have m1 := lookup_mem h1.symm
        have h2 := h yk
        simp only [lookup, if_true, hne, if_false] at h2
        have m2 := lookup_mem h2
        have c1 := hb'.1 _ m1
        have c2 := ha'.1 _ m2
        have := so.trans _ _ _ c1 c2
        rw [cmp_self so] at this; cases this
      subst hkey
      have hval : xv = yv := by
        have := h xk
        simpa [lookup] using this
      subst hval
      congr 1
      apply ih ha'.2 hb'.2
      intro k
      by_cases hk : xk = k
      · subst hk
        rw [lookup_none (fun z hz => (lt_ne so (ha'.1 z hz)).symm),
            lookup_none (fun z hz => (lt_ne so (hb'.1 z hz)).symm)]
      · have := h k
        simpa [lookup, hk] using this

theorem eq_true_iff [DecidableEq V] (a b : List (K × V)) : AslModel.Map.eq a b = true ↔ a = b := by
  unfold AslModel.Map.eq
  constructor
  · intro h
    by_cases hl : a.length = b.length
    · simp only [hl, ne_eq, not_true_eq_false, if_false] at h
      apply List.ext_getElem hl
      intro i h1 h2
      have hz : i < (a.zip b).length := by simp; omega
      have := List.all_eq_true.mp h (a.zip b)[i] (List.getElem_mem hz)
      simp only [List.getElem_zip, Bool.and_eq_true, decide_eq_true_eq] at this
      exact Prod.ext this.1 this.2
    · simp [hl] at h
  · intro h; subst h
    simp only [ne_eq, not_true_eq_false, if_false]
    apply List.all_eq_true.mpr
    intro p hp
    have := List.of_mem_zip hp
    obtain ⟨i, hi, e⟩ := List.getElem_of_mem hp
    rw [List.getElem_zip] at e
    subst e; simp

end AslProofs.Map
