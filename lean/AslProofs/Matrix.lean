import Mathlib.Tactic.Ring
import Mathlib.Tactic.FieldSimp
import Mathlib.Tactic.FinCases
import Mathlib.Tactic.LinearCombination
import Mathlib.Tactic.Linarith
import Mathlib.LinearAlgebra.Matrix.Determinant.Basic
import Mathlib.LinearAlgebra.Matrix.NonsingularInverse
import Mathlib.Algebra.Quaternion
import Mathlib.Algebra.Order.Field.Basic
import AslModel.Fld
import Gen.Matrix4Gen
import Gen.Matrix3Gen
import Gen.QuatGen
/-!
# C20 — helper lemmas for the closed forms (Matrix4, Matrix3, Quaternion)

`fld K` instantiates the law-free scalar interface of the models from a Mathlib `Field`; the `fld_*` simp
lemmas turn the generated prefix terms (`F.add x y`) into ordinary field expressions, after which `ring`,
`field_simp` and `linear_combination` decide the identities.  `toM4`/`toM3`/`toH` read a model value as a
Mathlib matrix / quaternion (the specification side).
-/
namespace AslProofs.Matrix
open AslModel

variable {K : Type} [Field K]

/-- the scalar interface of the models, instantiated by a field -/
def fld (K : Type) [Field K] : Fld K := ⟨0, 1, (· + ·), (· - ·), (· * ·), (· / ·), (- ·)⟩

@[simp] theorem fld_zero : (fld K).zero = 0 := rfl
@[simp] theorem fld_one : (fld K).one = 1 := rfl
@[simp] theorem fld_add (a b : K) : (fld K).add a b = a + b := rfl
@[simp] theorem fld_sub (a b : K) : (fld K).sub a b = a - b := rfl
@[simp] theorem fld_mul (a b : K) : (fld K).mul a b = a * b := rfl
@[simp] theorem fld_div (a b : K) : (fld K).div a b = a / b := rfl
@[simp] theorem fld_neg (a : K) : (fld K).neg a = -a := rfl
@[simp] theorem fld_lit (n : Nat) : (fld K).lit n = (n : K) := by
  induction n with
  | zero => simp [Fld.lit]
  | succ n ih => simp [Fld.lit, ih]
@[simp] theorem fld_half : (fld K).half = 1 / 2 := by simp [Fld.half]

/-- a model 4×4 matrix (entry function) as a Mathlib matrix -/
def toM4 (a : Nat → Nat → K) : Matrix (Fin 4) (Fin 4) K := Matrix.of fun i j => a i.val j.val
/-- a model 3×3 matrix as a Mathlib matrix -/
def toM3 (a : Nat → Nat → K) : Matrix (Fin 3) (Fin 3) K := Matrix.of fun i j => a i.val j.val
/-- a model quaternion as a Mathlib quaternion (Hamilton's `w + xi + yj + zk`) -/
def toH (p : Quat K) : Quaternion K := ⟨p.w, p.x, p.y, p.z⟩
/-- `Vec4_` as a column -/
def toV4 (p : V4 K) : Fin 4 → K := ![p.x, p.y, p.z, p.w]
/-- `Vec3_` as a column -/
def toV3 (p : V3 K) : Fin 3 → K := ![p.x, p.y, p.z]

@[simp] theorem toH_re (p : Quat K) : (toH p).re = p.w := rfl
@[simp] theorem toH_imI (p : Quat K) : (toH p).imI = p.x := rfl
@[simp] theorem toH_imJ (p : Quat K) : (toH p).imJ = p.y := rfl
@[simp] theorem toH_imK (p : Quat K) : (toH p).imK = p.z := rfl

/-- `‖p‖² = 1` -/
def UnitQuat (p : Quat K) : Prop := p.w * p.w + p.x * p.x + p.y * p.y + p.z * p.z = 1

/-! ## 4×4 -/

theorem invD4_eq_det (a : Nat → Nat → K) : Gen.M4.invD (fld K) a = Gen.M4.det (fld K) a := by
  simp [Gen.M4.invD, Gen.M4.det]

set_option maxHeartbeats 2000000 in
theorem adj4_right (a : Nat → Nat → K) :
    toM4 a * toM4 (Gen.M4.invAdj (fld K) a) = Gen.M4.det (fld K) a • (1 : Matrix (Fin 4) (Fin 4) K) := by
  ext i j
  fin_cases i <;> fin_cases j <;>
    simp [toM4, Gen.M4.invAdj, Gen.M4.det, ofRows, Matrix.mul_apply, Fin.sum_univ_succ] <;> ring

set_option maxHeartbeats 2000000 in
theorem adj4_left (a : Nat → Nat → K) :
    toM4 (Gen.M4.invAdj (fld K) a) * toM4 a = Gen.M4.det (fld K) a • (1 : Matrix (Fin 4) (Fin 4) K) := by
  ext i j
  fin_cases i <;> fin_cases j <;>
    simp [toM4, Gen.M4.invAdj, Gen.M4.det, ofRows, Matrix.mul_apply, Fin.sum_univ_succ] <;> ring

theorem inverse4_eq (a : Nat → Nat → K) :
    toM4 (Gen.M4.inverse (fld K) a) = (1 / Gen.M4.det (fld K) a) • toM4 (Gen.M4.invAdj (fld K) a) := by
  ext i j
  simp [toM4, Gen.M4.inverse, Gen.M4.scale, invD4_eq_det]
  ring

/-! ## 3×3 -/

theorem invD3_eq_det (a : Nat → Nat → K) : Gen.M3.invD (fld K) a = Gen.M3.det (fld K) a := by
  simp [Gen.M3.invD, Gen.M3.det]

theorem adj3_right (a : Nat → Nat → K) :
    toM3 a * toM3 (Gen.M3.invAdj (fld K) a) = Gen.M3.det (fld K) a • (1 : Matrix (Fin 3) (Fin 3) K) := by
  ext i j
  fin_cases i <;> fin_cases j <;>
    simp [toM3, Gen.M3.invAdj, Gen.M3.det, ofRows, Matrix.mul_apply, Fin.sum_univ_succ] <;> ring

theorem adj3_left (a : Nat → Nat → K) :
    toM3 (Gen.M3.invAdj (fld K) a) * toM3 a = Gen.M3.det (fld K) a • (1 : Matrix (Fin 3) (Fin 3) K) := by
  ext i j
  fin_cases i <;> fin_cases j <;>
    simp [toM3, Gen.M3.invAdj, Gen.M3.det, ofRows, Matrix.mul_apply, Fin.sum_univ_succ] <;> ring

theorem inverse3_eq (a : Nat → Nat → K) :
    toM3 (Gen.M3.inverse (fld K) a) = (1 / Gen.M3.det (fld K) a) • toM3 (Gen.M3.invAdj (fld K) a) := by
  ext i j
  simp [toM3, Gen.M3.inverse, Gen.M3.scale, invD3_eq_det]
  ring

/-! ## quaternions -/

/-- homogeneous form of the rotation matrix of a quaternion: equals `matrix()` on unit quaternions and is
multiplicative on all quaternions -/
def Rh (p : Quat K) : Matrix (Fin 4) (Fin 4) K :=
  !![p.w*p.w + p.x*p.x - p.y*p.y - p.z*p.z, 2*(p.x*p.y - p.w*p.z), 2*(p.x*p.z + p.w*p.y), 0;
     2*(p.x*p.y + p.w*p.z), p.w*p.w - p.x*p.x + p.y*p.y - p.z*p.z, 2*(p.y*p.z - p.w*p.x), 0;
     2*(p.x*p.z - p.w*p.y), 2*(p.y*p.z + p.w*p.x), p.w*p.w - p.x*p.x - p.y*p.y + p.z*p.z, 0;
     0, 0, 0, p.w * p.w + p.x * p.x + p.y * p.y + p.z * p.z]

theorem qmat_eq_Rh (p : Quat K) (hp : UnitQuat p) : toM4 (Gen.Q.matrix (fld K) p) = Rh p := by
  unfold UnitQuat at hp
  ext i j
  fin_cases i <;> fin_cases j <;> simp [toM4, Gen.Q.matrix, ofRows, Rh] <;>
    first | ring1 | linear_combination (-1 : K) * hp

theorem unit_mul (p q : Quat K) (hp : UnitQuat p) (hq : UnitQuat q) : UnitQuat (Gen.Q.mul (fld K) p q) := by
  unfold UnitQuat at *
  simp [Gen.Q.mul]
  linear_combination (q.w * q.w + q.x * q.x + q.y * q.y + q.z * q.z) * hp + hq

theorem Rh_mul (p q : Quat K) : Rh (Gen.Q.mul (fld K) p q) = Rh p * Rh q := by
  ext i j
  fin_cases i <;> fin_cases j <;> simp [Rh, Gen.Q.mul, Matrix.mul_apply, Fin.sum_univ_succ] <;> ring

/-! ## `rotation()`: each branch inverts `matrix()` up to sign when its root is a non-zero square root -/

theorem rot0 (q : Quat K) (hq : UnitQuat q) (h2 : (2 : K) ≠ 0) (r : K)
    (hr : r * r = Gen.M4.rotRadicand0 (fld K) (Gen.Q.matrix (fld K) q)) (h0 : r ≠ 0) :
    Gen.M4.rotBranch0 (fld K) (Gen.Q.matrix (fld K) q) r = q ∨
    Gen.M4.rotBranch0 (fld K) (Gen.Q.matrix (fld K) q) r = Gen.Q.neg (fld K) q := by
  obtain ⟨w, x, y, z⟩ := q
  unfold UnitQuat at hq
  simp only at hq
  simp [Gen.M4.rotRadicand0, Gen.Q.matrix, ofRows] at hr
  have hw : (r - 2 * w) * (r + 2 * w) = 0 := by linear_combination hr - 4 * hq
  rcases mul_eq_zero.mp hw with h | h
  · have hr2 : r = 2 * w := by linear_combination h
    have hw0 : w ≠ 0 := by rintro rfl; apply h0; simpa using hr2
    left
    subst hr2
    simp [Gen.M4.rotBranch0, Gen.Q.matrix, ofRows]
    refine ⟨?_, ?_, ?_, ?_⟩ <;> field_simp <;> ring
  · have hr2 : r = -(2 * w) := by linear_combination h
    have hw0 : w ≠ 0 := by rintro rfl; apply h0; simpa using hr2
    right
    subst hr2
    simp [Gen.M4.rotBranch0, Gen.Q.matrix, Gen.Q.neg, ofRows]
    refine ⟨?_, ?_, ?_, ?_⟩ <;> field_simp <;> ring

theorem rot1 (q : Quat K) (h2 : (2 : K) ≠ 0) (r : K)
    (hr : r * r = Gen.M4.rotRadicand1 (fld K) (Gen.Q.matrix (fld K) q)) (h0 : r ≠ 0) :
    Gen.M4.rotBranch1 (fld K) (Gen.Q.matrix (fld K) q) r = q ∨
    Gen.M4.rotBranch1 (fld K) (Gen.Q.matrix (fld K) q) r = Gen.Q.neg (fld K) q := by
  obtain ⟨w, x, y, z⟩ := q
  simp [Gen.M4.rotRadicand1, Gen.Q.matrix, ofRows] at hr
  have hw : (r - 2 * y) * (r + 2 * y) = 0 := by linear_combination hr
  rcases mul_eq_zero.mp hw with h | h
  · have hr2 : r = 2 * y := by linear_combination h
    have hw0 : y ≠ 0 := by rintro rfl; apply h0; simpa using hr2
    left
    subst hr2
    simp [Gen.M4.rotBranch1, Gen.Q.matrix, ofRows]
    refine ⟨?_, ?_, ?_, ?_⟩ <;> field_simp <;> ring
  · have hr2 : r = -(2 * y) := by linear_combination h
    have hw0 : y ≠ 0 := by rintro rfl; apply h0; simpa using hr2
    right
    subst hr2
    simp [Gen.M4.rotBranch1, Gen.Q.matrix, Gen.Q.neg, ofRows]
    refine ⟨?_, ?_, ?_, ?_⟩ <;> field_simp <;> ring

theorem rot2 (q : Quat K) (h2 : (2 : K) ≠ 0) (r : K)
    (hr : r * r = Gen.M4.rotRadicand2 (fld K) (Gen.Q.matrix (fld K) q)) (h0 : r ≠ 0) :
    Gen.M4.rotBranch2 (fld K) (Gen.Q.matrix (fld K) q) r = q ∨
    Gen.M4.rotBranch2 (fld K) (Gen.Q.matrix (fld K) q) r = Gen.Q.neg (fld K) q := by
  obtain ⟨w, x, y, z⟩ := q
  simp [Gen.M4.rotRadicand2, Gen.Q.matrix, ofRows] at hr
  have hw : (r - 2 * z) * (r + 2 * z) = 0 := by linear_combination hr
  rcases mul_eq_zero.mp hw with h | h
  · have hr2 : r = 2 * z := by linear_combination h
    have hw0 : z ≠ 0 := by rintro rfl; apply h0; simpa using hr2
    left
    subst hr2
    simp [Gen.M4.rotBranch2, Gen.Q.matrix, ofRows]
    refine ⟨?_, ?_, ?_, ?_⟩ <;> field_simp <;> ring
  · have hr2 : r = -(2 * z) := by linear_combination h
    have hw0 : z ≠ 0 := by rintro rfl; apply h0; simpa using hr2
    right
    subst hr2
    simp [Gen.M4.rotBranch2, Gen.Q.matrix, Gen.Q.neg, ofRows]
    refine ⟨?_, ?_, ?_, ?_⟩ <;> field_simp <;> ring

theorem rot3 (q : Quat K) (h2 : (2 : K) ≠ 0) (r : K)
    (hr : r * r = Gen.M4.rotRadicand3 (fld K) (Gen.Q.matrix (fld K) q)) (h0 : r ≠ 0) :
    Gen.M4.rotBranch3 (fld K) (Gen.Q.matrix (fld K) q) r = q ∨
    Gen.M4.rotBranch3 (fld K) (Gen.Q.matrix (fld K) q) r = Gen.Q.neg (fld K) q := by
  obtain ⟨w, x, y, z⟩ := q
  simp [Gen.M4.rotRadicand3, Gen.Q.matrix, ofRows] at hr
  have hw : (r - 2 * x) * (r + 2 * x) = 0 := by linear_combination hr
  rcases mul_eq_zero.mp hw with h | h
  · have hr2 : r = 2 * x := by linear_combination h
    have hw0 : x ≠ 0 := by rintro rfl; apply h0; simpa using hr2
    left
    subst hr2
    simp [Gen.M4.rotBranch3, Gen.Q.matrix, ofRows]
    refine ⟨?_, ?_, ?_, ?_⟩ <;> field_simp <;> ring
  · have hr2 : r = -(2 * x) := by linear_combination h
    have hw0 : x ≠ 0 := by rintro rfl; apply h0; simpa using hr2
    right
    subst hr2
    simp [Gen.M4.rotBranch3, Gen.Q.matrix, Gen.Q.neg, ofRows]
    refine ⟨?_, ?_, ?_, ?_⟩ <;> field_simp <;> ring

section ordered
variable {R : Type} [Field R] [LinearOrder R] [IsStrictOrderedRing R]

set_option linter.unusedSimpArgs false in
/-- branch selection of `rotation()` over an ordered field: the selected radicand is at least 1 -/
theorem rotation_selects (C : Cmp R) (hlt : ∀ a b, C.lt a b = decide (a < b)) (q : Quat R) (hq : UnitQuat q) :
    (Gen.M4.rotation (fld R) C (Gen.Q.matrix (fld R) q) = Gen.M4.rotBranch0 (fld R) (Gen.Q.matrix (fld R) q) (C.sqrt (Gen.M4.rotRadicand0 (fld R) (Gen.Q.matrix (fld R) q))) ∧ 1 ≤ Gen.M4.rotRadicand0 (fld R) (Gen.Q.matrix (fld R) q)) ∨
    (Gen.M4.rotation (fld R) C (Gen.Q.matrix (fld R) q) = Gen.M4.rotBranch1 (fld R) (Gen.Q.matrix (fld R) q) (C.sqrt (Gen.M4.rotRadicand1 (fld R) (Gen.Q.matrix (fld R) q))) ∧ 1 ≤ Gen.M4.rotRadicand1 (fld R) (Gen.Q.matrix (fld R) q)) ∨
    (Gen.M4.rotation (fld R) C (Gen.Q.matrix (fld R) q) = Gen.M4.rotBranch2 (fld R) (Gen.Q.matrix (fld R) q) (C.sqrt (Gen.M4.rotRadicand2 (fld R) (Gen.Q.matrix (fld R) q))) ∧ 1 ≤ Gen.M4.rotRadicand2 (fld R) (Gen.Q.matrix (fld R) q)) ∨
    (Gen.M4.rotation (fld R) C (Gen.Q.matrix (fld R) q) = Gen.M4.rotBranch3 (fld R) (Gen.Q.matrix (fld R) q) (C.sqrt (Gen.M4.rotRadicand3 (fld R) (Gen.Q.matrix (fld R) q))) ∧ 1 ≤ Gen.M4.rotRadicand3 (fld R) (Gen.Q.matrix (fld R) q)) := by
  obtain ⟨w, x, y, z⟩ := q
  unfold UnitQuat at hq
  simp only at hq
  generalize ha : Gen.Q.matrix (fld R) ⟨w, x, y, z⟩ = a
  have e00 : a 0 0 = 1 - 2 * (y * y + z * z) := by subst ha; simp [Gen.Q.matrix, ofRows]
  have e11 : a 1 1 = 1 - 2 * (x * x + z * z) := by subst ha; simp [Gen.Q.matrix, ofRows]
  have e22 : a 2 2 = 1 - 2 * (x * x + y * y) := by subst ha; simp [Gen.Q.matrix, ofRows]
  simp only [Gen.M4.rotation, hlt, Gen.M4.rotRadicand0, Gen.M4.rotRadicand1, Gen.M4.rotRadicand2, Gen.M4.rotRadicand3,
    fld_add, fld_sub, fld_lit, Nat.cast_zero, Nat.cast_one]
  by_cases c0 : a 0 0 + a 1 1 + a 2 2 < 0
  · by_cases c1a : a 0 0 < a 1 1
    · by_cases c1b : a 1 1 < a 2 2
      · by_cases c2 : a 0 0 < a 2 2
        · right; right; left
          simp only [c0, c1a, c1b, c2, decide_true, decide_false, Bool.not_true, Bool.not_false, Bool.and_false, Bool.false_eq_true, if_false, if_true, true_and]
          rw [e00, e11, e22] at *; linarith
        · right; right; right
          simp only [c0, c1a, c1b, c2, decide_true, decide_false, Bool.not_true, Bool.not_false, Bool.and_false, Bool.false_eq_true, if_false, if_true, true_and]
          rw [e00, e11, e22] at *; linarith
      · right; left
        simp only [c0, c1a, c1b, decide_true, decide_false, Bool.not_true, Bool.not_false, Bool.and_true, Bool.false_eq_true, if_false, if_true, true_and]
        rw [e00, e11, e22] at *; linarith
    · by_cases c2 : a 0 0 < a 2 2
      · right; right; left
        simp only [c0, c1a, c2, decide_true, decide_false, Bool.not_true, Bool.false_and, Bool.false_eq_true, if_false, if_true, true_and]
        rw [e00, e11, e22] at *; linarith
      · right; right; right
        simp only [c0, c1a, c2, decide_true, decide_false, Bool.not_true, Bool.false_and, Bool.false_eq_true, if_false, if_true, true_and]
        rw [e00, e11, e22] at *; linarith
  · left
    simp only [c0, decide_false, Bool.not_false, if_true, true_and]
    linarith

end ordered

end AslProofs.Matrix
