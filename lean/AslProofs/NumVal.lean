import AslProofs.StrtodInt
import AslProofs.StrtodParse
import AslProofs.XdlEnc
import AslProofs.NumValDefs
import Mathlib.Tactic.FieldSimp
import Mathlib.Tactic.Ring
import Mathlib.Tactic.Linarith
import Mathlib.Tactic.NormNum
set_option linter.unusedSimpArgs false
set_option linter.unusedVariables false
namespace AslProofs.Num
open AslModel AslModel.Strtod NumVal AslModel.Xdl AslProofs.XdlEnc Rfc8259

/-- the double whose magnitude bits `roundRatio_int` produces is exactly `n` -/
theorem dval_int_bits (n : Nat) (h0 : 0 < n) (h53 : n < 2 ^ 53) (neg : Bool) :
    dval (UInt64.ofNat ((if neg then 2 ^ 63 else 0) + roundRatio n 1)) = (if neg then -(n : Rat) else (n : Rat)) := by
  have hn0 : n ≠ 0 := by omega
  have hL : Nat.log2 n < 53 := (Nat.log2_lt hn0).mpr h53
  have hlo : 2 ^ Nat.log2 n ≤ n := Nat.log2_self_le hn0
  have hhi : n < 2 ^ (Nat.log2 n + 1) := Nat.lt_log2_self
  rw [roundRatio_int n h0 h53]
  generalize hLe : Nat.log2 n = L at *
  have hq1 : 2 ^ 52 ≤ n * 2 ^ (52 - L) := by
    calc 2 ^ 52 = 2 ^ L * 2 ^ (52 - L) := by rw [← Nat.pow_add]; congr 1; omega
      _ ≤ n * 2 ^ (52 - L) := Nat.mul_le_mul_right _ hlo
  have hq2 : n * 2 ^ (52 - L) < 2 ^ 53 := by
    calc n * 2 ^ (52 - L) < 2 ^ (L + 1) * 2 ^ (52 - L) := Nat.mul_lt_mul_of_pos_right hhi (Nat.pow_pos (by omega))
      _ = 2 ^ 53 := by rw [← Nat.pow_add]; congr 1; omega
  generalize hq : n * 2 ^ (52 - L) = q at *
  have hk : (L + 1023) * 2 ^ 52 + (q - 2 ^ 52) < 2 ^ 63 := by omega
  have hval : ((q : Nat) : Rat) * pow2 ((L : Int) - 52) = (n : Rat) := by
    unfold pow2
    by_cases h52 : L = 52
    · subst h52; simp at hq ⊢; rw [← hq]
    · have : ¬ ((L : Int) - 52 ≥ 0) := by omega
      have hto : (-((L : Int) - 52)).toNat = 52 - L := by omega
      simp only [this, if_false, hto]
      rw [← hq]
      have hp : ((2 ^ (52 - L) : Nat) : Rat) ≠ 0 := by positivity
      push_cast
      field_simp
  unfold dval
  cases neg
  · simp only [Bool.false_eq_true, if_false, Nat.zero_add]
    have ht : (UInt64.ofNat ((L + 1023) * 2 ^ 52 + (q - 2 ^ 52))).toNat = (L + 1023) * 2 ^ 52 + (q - 2 ^ 52) := by
      simp only [UInt64.toNat_ofNat']; omega
    simp only [ht]
    have e1 : ((L + 1023) * 2 ^ 52 + (q - 2 ^ 52)) / 2 ^ 52 % 2048 = L + 1023 := by omega
    have e2 : ((L + 1023) * 2 ^ 52 + (q - 2 ^ 52)) % 2 ^ 52 = q - 2 ^ 52 := by omega
    have e3 : ¬ ((L + 1023) * 2 ^ 52 + (q - 2 ^ 52)) / 2 ^ 63 = 1 := by omega
    have e4 : ¬ (L + 1023 = 0) := by omega
    simp only [e1, e2, e3, e4, if_false]
    have e5 : q - 2 ^ 52 + 2 ^ 52 = q := by omega
    have e6 : ((L + 1023 : Nat) : Int) - 1075 = (L : Int) - 52 := by omega
    rw [e5, e6, hval]
  · simp only [if_true]
    have ht : (UInt64.ofNat (2 ^ 63 + ((L + 1023) * 2 ^ 52 + (q - 2 ^ 52)))).toNat = 2 ^ 63 + ((L + 1023) * 2 ^ 52 + (q - 2 ^ 52)) := by
      simp only [UInt64.toNat_ofNat']; omega
    simp only [ht]
    have e1 : (2 ^ 63 + ((L + 1023) * 2 ^ 52 + (q - 2 ^ 52))) / 2 ^ 52 % 2048 = L + 1023 := by omega
    have e2 : (2 ^ 63 + ((L + 1023) * 2 ^ 52 + (q - 2 ^ 52))) % 2 ^ 52 = q - 2 ^ 52 := by omega
    have e3 : (2 ^ 63 + ((L + 1023) * 2 ^ 52 + (q - 2 ^ 52))) / 2 ^ 63 = 1 := by omega
    have e4 : ¬ (L + 1023 = 0) := by omega
    simp only [e1, e2, e3, e4, if_false, if_true]
    have e5 : q - 2 ^ 52 + 2 ^ 52 = q := by omega
    have e6 : ((L + 1023 : Nat) : Int) - 1075 = (L : Int) - 52 := by omega
    rw [e5, e6, hval]


theorem decLen_le (n : Nat) (h : n < 10 ^ 16) : Strtod.decLen n ≤ 16 := by
  unfold Strtod.decLen
  split
  · omega
  · exact (Nat.length_toDigits_le_iff (b := 10) (by omega) (by omega)).mpr h

theorem dval_zero_bits (neg : Bool) : dval (UInt64.ofNat (if neg then 2 ^ 63 else 0)) = 0 := by
  cases neg <;> simp [dval]

/-- `atof` of the text `myitoa` prints is exactly the int (the ≥ 10-character ints the decoder hands to `atof`
    come back as the double of the same value) -/
theorem atof_int_exact (i : Int) (h1 : -2147483648 ≤ i) (h2 : i ≤ 2147483647) :
    dval (Strtod.atofBits (itoa i)) = (i : Rat) := by
  obtain ⟨⟨minus, ip, hm, hip, he⟩, hval⟩ := itoa_spec i h1 h2
  obtain ⟨hne, hd⟩ := AslProofs.XdlRfc.intpart_digits hip
  have hdv := digitsVal_ifold ip hd
  rw [he] at hval ⊢
  have hn : (Strtod.digitsVal ip : Int) = (if minus = [45] then -i else i) := by
    rcases hm with rfl | rfl
    · simp only [List.nil_append] at hval
      have hc : ∀ c t, ip = c :: t → c ≠ 45 := by
        intro c t hct h; subst h; subst hct
        have := hd 45 (by simp); simp [isDig] at this
      have : decVal ip = ifold ip := by
        unfold decVal; split
        · rename_i ds; exact absurd rfl (hc 45 ds rfl)
        · rfl
      simp [hdv, ← this, hval]
    · have : decVal ([45] ++ ip) = -ifold ip := by simp [decVal, ifold]
      rw [this] at hval
      simp [hdv]; omega
  generalize hnn : Strtod.digitsVal ip = n at *
  have hn53 : n < 2 ^ 53 := by split at hn <;> omega
  have hn16 : n < 10 ^ 16 := by split at hn <;> omega
  unfold Strtod.atofBits
  rw [parseDec_int minus ip hm hip, hnn]
  simp only [Bool.false_eq_true, if_false, Int.natCast_zero, Int.sub_zero, Int.add_zero]
  by_cases h0 : n = 0
  · simp only [h0, if_true]
    have hi : i = 0 := by split at hn <;> omega
    subst hi
    have := dval_zero_bits (decide (minus = [45]))
    simpa using this
  · simp only [h0, if_false]
    have hdl := decLen_le n hn16
    have c1 : ¬ ((Strtod.decLen n : Int) > 310) := by omega
    have c2 : ¬ ((Strtod.decLen n : Int) < -326) := by omega
    simp only [c1, c2, if_false, ge_iff_le, Int.le_refl, if_true, Int.toNat_zero, Nat.pow_zero, Nat.mul_one]
    have := dval_int_bits n (by omega) hn53 (decide (minus = [45]))
    simp only [decide_eq_true_eq] at this ⊢
    rw [this]
    rcases hm with rfl | rfl
    · simp at hn ⊢; exact_mod_cast hn
    · simp at hn ⊢
      have : (n : Int) = -i := hn
      have : (i : Rat) = -((n : Int) : Rat) := by rw [this]; push_cast; ring
      rw [this]; simp

end AslProofs.Num
