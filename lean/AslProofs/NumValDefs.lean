import AslModel.Strtod
/-!
# The real (rational) value of a binary64 bit pattern and of a decimal lexeme — specification side

`dval b` is the IEEE-754 value of the finite double with bit pattern `b`; `lexVal lex` is the decimal number
spelled by an RFC 8259 / C number lexeme `[-]digits[.digits][(e|E)[+-]digits]`.  Both are exact rationals
(core `Rat`).  These definitions are what "the same number" means in the C05 statements.
-/
namespace NumVal
open AslModel



def pow2 (e : Int) : Rat := if e ≥ 0 then ((2 ^ e.toNat : Nat) : Rat) else 1 / ((2 ^ (-e).toNat : Nat) : Rat)
def pow10 (e : Int) : Rat := if e ≥ 0 then ((10 ^ e.toNat : Nat) : Rat) else 1 / ((10 ^ (-e).toNat : Nat) : Rat)

/-- IEEE 754 binary64: sign, 11-bit biased exponent, 52-bit fraction (subnormals for exponent field 0) -/
def dval (b : UInt64) : Rat :=
  let n : Nat := b.toNat
  let be : Nat := n / 2 ^ 52 % 2048
  let fr : Nat := n % 2 ^ 52
  let mag : Rat := if be = 0 then (fr : Rat) * pow2 (-1074) else ((fr + 2 ^ 52 : Nat) : Rat) * pow2 ((be : Int) - 1075)
  if n / 2 ^ 63 = 1 then -mag else mag

/-- the decimal value of a number lexeme (its digits are read by `Strtod.parseDec`) -/
def lexVal (lex : List UInt8) : Rat :=
  let d := Strtod.parseDec lex
  let e : Int := (if d.expNeg then -(d.exp : Int) else (d.exp : Int)) - (d.fracLen : Int)
  (if d.neg then -1 else 1) * (d.mant : Rat) * pow10 e

def rabs (x : Rat) : Rat := if x < 0 then -x else x

/-- `v` is `x` correctly rounded to `P` significant decimal digits: within half a unit of the `P`-th digit -/
def RoundedTo (P : Nat) (x v : Rat) : Prop :=
  (x = 0 → v = 0) ∧ (x ≠ 0 → ∃ X : Int, pow10 X ≤ rabs x ∧ rabs x < pow10 (X + 1) ∧ rabs (v - x) ≤ pow10 (X - (P : Int) + 1) / 2)

/-- `k` is the natural number `n ≥ 2^53` correctly rounded to binary64: the doubles around `n` are the multiples
    `q·2^e` of the spacing `2^e`, `e = ⌊log2 n⌋ − 52`, with a 53-bit significand `2^52 ≤ q ≤ 2^53`; `k` is one of them at
    distance at most half a spacing from `n`, and on a tie the one with the even significand -/
def Nearest53 (n k : Nat) : Prop :=
  ∃ q, k = q * 2 ^ (Nat.log2 n - 52) ∧ 2 ^ 52 ≤ q ∧ q ≤ 2 ^ 53 ∧
    2 * (k - n) ≤ 2 ^ (Nat.log2 n - 52) ∧ 2 * (n - k) ≤ 2 ^ (Nat.log2 n - 52) ∧
    ((2 * (k - n) = 2 ^ (Nat.log2 n - 52) ∨ 2 * (n - k) = 2 ^ (Nat.log2 n - 52)) → q % 2 = 0)

/-- bit pattern of ±infinity -/
def infBits (neg : Bool) : UInt64 := UInt64.ofNat ((if neg then 2 ^ 63 else 0) + 2047 * 2 ^ 52)

end NumVal
