import AslModel.Codec
import AslProofs.Codec
open AslModel.Codec AslModel.Query

namespace AslProofs.Query

/-! ### `bytesLt` is a strict total order -/
theorem u8_lt_irrefl (a : UInt8) : ¬ a < a := by
  intro h; exact absurd h (UInt8.lt_irrefl a)

theorem bytesLt_irrefl (a : List UInt8) : bytesLt a a = false := by
  induction a with
  | nil => rfl
  | cons x r ih => simp [bytesLt, UInt8.lt_irrefl, ih]

theorem bytesLt_trichotomy (a b : List UInt8) (h1 : bytesLt a b = false) (h2 : bytesLt b a = false) : a = b := by
  induction a generalizing b with
  | nil => cases b with
    | nil => rfl
    | cons y s => simp [bytesLt] at h1
  | cons x r ih => cases b with
    | nil => simp [bytesLt] at h2
    | cons y s =>
      simp only [bytesLt] at h1 h2
      by_cases hxy : x < y
      · simp [hxy] at h1
      · by_cases hyx : y < x
        · simp [hyx] at h2
        · simp only [hxy, hyx, if_false] at h1 h2
          have : x = y := by
            have a1 := UInt8.not_lt.mp hxy
            have a2 := UInt8.not_lt.mp hyx
            exact UInt8.le_antisymm a2 a1
          rw [this, ih s h1 h2]

theorem bytesLt_asymm (a b : List UInt8) (h : bytesLt a b = true) : bytesLt b a = false := by
  induction a generalizing b with
  | nil => cases b with
    | nil => rfl
    | cons y s => rfl
  | cons x r ih => cases b with
    | nil => simp [bytesLt] at h
    | cons y s =>
      simp only [bytesLt] at h ⊢
      by_cases hxy : x < y
      · have : ¬ y < x := fun h' => absurd (UInt8.lt_trans hxy h') (UInt8.lt_irrefl x)
        simp [this, hxy]
      · by_cases hyx : y < x
        · simp [hxy, hyx] at h
        · simp only [hxy, hyx, if_false] at h ⊢
          exact ih s h

theorem bytesLt_trans (a b c : List UInt8) (h1 : bytesLt a b = true) (h2 : bytesLt b c = true) : bytesLt a c = true := by
  induction a generalizing b c with
  | nil => cases b with
    | nil => simp [bytesLt] at h1
    | cons y s => cases c with
      | nil => simp [bytesLt] at h2
      | cons z t => rfl
  | cons x r ih => cases b with
    | nil => simp [bytesLt] at h1
    | cons y s => cases c with
      | nil => simp [bytesLt] at h2
      | cons z t =>
        simp only [bytesLt] at h1 h2 ⊢
        by_cases hxy : x < y
        · by_cases hyz : y < z
          · simp [UInt8.lt_trans hxy hyz]
          · by_cases hzy : z < y
            · simp [hyz, hzy] at h2
            · have : y = z := UInt8.le_antisymm (UInt8.not_lt.mp hzy) (UInt8.not_lt.mp hyz)
              subst this; simp [hxy]
        · by_cases hyx : y < x
          · simp [hxy, hyx] at h1
          · have hxy' : x = y := UInt8.le_antisymm (UInt8.not_lt.mp hyx) (UInt8.not_lt.mp hxy)
            subst hxy'
            simp only [hxy, if_false] at h1
            by_cases hxz : x < z
            · simp [hxz]
            · simp only [hxz, if_false] at h2 ⊢
              by_cases hzx : z < x
              · simp [hzx] at h2
              · simp only [hzx, if_false] at h2 ⊢
                exact ih s t h1 h2

theorem strLt_irrefl (a : List UInt8) : strLt a a = false := bytesLt_irrefl _
theorem strLt_asymm (a b : List UInt8) (h : strLt a b = true) : strLt b a = false := bytesLt_asymm _ _ h
theorem strLt_trans (a b c : List UInt8) (h1 : strLt a b = true) (h2 : strLt b c = true) : strLt a c = true :=
  bytesLt_trans _ _ _ h1 h2
theorem strLt_trichotomy (a b : List UInt8) (h1 : strLt a b = false) (h2 : strLt b a = false) : cstr a = cstr b :=
  bytesLt_trichotomy _ _ h1 h2

/-! ### sorted dictionaries -/
def KeyLt (a b : List UInt8 × List UInt8) : Prop := strLt a.1 b.1 = true

abbrev Sorted (d : Dict) : Prop := d.Pairwise KeyLt

theorem dicSet_perm_sorted (d : Dict) (k v : List UInt8) (hs : Sorted d) (hk : ∀ kv ∈ d, cstr kv.1 ≠ cstr k) :
    Sorted (dicSet d k v) ∧ (dicSet d k v).Perm ((k, v) :: d) := by
  induction d with
  | nil => exact ⟨by simp [dicSet, Sorted], List.Perm.refl _⟩
  | cons e r ih =>
    obtain ⟨k', v'⟩ := e
    have hs' := List.pairwise_cons.mp hs
    unfold dicSet
    by_cases h1 : strLt k k' = true
    · simp only [h1, if_true]
      refine ⟨?_, List.Perm.refl _⟩
      refine List.pairwise_cons.mpr ⟨?_, hs⟩
      intro x hx
      rcases List.mem_cons.mp hx with rfl | hx
      · exact h1
      · exact strLt_trans _ _ _ h1 (hs'.1 x hx)
    · simp only [h1]
      by_cases h2 : strLt k' k = true
      · simp only [h2, if_true]
        have ihr := ih hs'.2 (fun kv hkv => hk kv (List.mem_cons_of_mem _ hkv))
        refine ⟨?_, ?_⟩
        · refine List.pairwise_cons.mpr ⟨?_, ihr.1⟩
          intro x hx
          have := ihr.2.subset hx
          rcases List.mem_cons.mp this with rfl | hx'
          · exact h2
          · exact hs'.1 x hx'
        · exact (List.Perm.cons _ ihr.2).trans (List.Perm.swap _ _ _)
      · exfalso
        have := strLt_trichotomy k k' (by simpa using h1) (by simpa using h2)
        exact hk (k', v') List.mem_cons_self this.symm

theorem ofPairs_aux (l acc : Dict) (hs : Sorted acc) (hnd : (l.map (fun kv => cstr kv.1)).Nodup)
    (hdis : ∀ kv ∈ l, ∀ kv' ∈ acc, cstr kv'.1 ≠ cstr kv.1) :
    Sorted (l.foldl (fun acc kv => dicSet acc kv.1 kv.2) acc) ∧
    (l.foldl (fun acc kv => dicSet acc kv.1 kv.2) acc).Perm (l ++ acc) := by
  induction l generalizing acc with
  | nil => exact ⟨hs, List.Perm.refl _⟩
  | cons e r ih =>
    simp only [List.foldl_cons]
    have h1 := dicSet_perm_sorted acc e.1 e.2 hs (fun kv' h' => hdis e List.mem_cons_self kv' h')
    simp only [List.map_cons, List.nodup_cons] at hnd
    have := ih (dicSet acc e.1 e.2) h1.1 hnd.2 (by
      intro kv hkv kv' hkv'
      rcases List.mem_cons.mp (h1.2.subset hkv') with rfl | hm
      · intro heq
        exact hnd.1 (List.mem_map.mpr ⟨kv, hkv, heq.symm⟩)
      · exact hdis kv (List.mem_cons_of_mem _ hkv) kv' hm)
    refine ⟨this.1, this.2.trans ?_⟩
    have : (r ++ dicSet acc e.1 e.2).Perm (r ++ (e :: acc)) := List.Perm.append_left r h1.2
    refine this.trans ?_
    exact List.perm_middle

theorem ofPairs_sorted_perm (l : Dict) (hnd : (l.map (fun kv => cstr kv.1)).Nodup) :
    Sorted (ofPairs l) ∧ (ofPairs l).Perm l := by
  have := ofPairs_aux l [] List.Pairwise.nil hnd (by intro _ _ _ h; cases h)
  simpa [ofPairs] using this

theorem sorted_nodup_keys (d : Dict) (h : Sorted d) : (d.map (fun kv => cstr kv.1)).Nodup := by
  induction d with
  | nil => simp
  | cons e r ih =>
    have hs := List.pairwise_cons.mp h
    simp only [List.map_cons, List.nodup_cons]
    refine ⟨?_, ih hs.2⟩
    intro hm
    obtain ⟨x, hx, hxe⟩ := List.mem_map.mp hm
    have := hs.1 x hx
    unfold KeyLt at this
    unfold strLt at this
    rw [hxe, bytesLt_irrefl] at this
    cases this

theorem sorted_perm_eq (a b : Dict) (ha : Sorted a) (hb : Sorted b) (h : a.Perm b) : a = b := by
  refine List.Perm.eq_of_pairwise ?_ ha hb h
  intro x y _ _ h1 h2
  unfold KeyLt at h1 h2
  rw [strLt_asymm _ _ h1] at h2
  cases h2

end AslProofs.Query
