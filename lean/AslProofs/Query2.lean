import AslModel.Codec
import AslProofs.Codec
import AslProofs.Query
open AslModel.Codec AslModel.Query

namespace AslProofs.Query

/-! ### split / join -/
theorem splitByte_ne_nil (sep : UInt8) (s : List UInt8) : splitByte sep s ≠ [] := by
  cases s with
  | nil => simp [splitByte]
  | cons c r =>
    unfold splitByte
    split
    · simp
    · split <;> simp

theorem splitByte_no_sep (sep : UInt8) (s : List UInt8) (h : sep ∉ s) : splitByte sep s = [s] := by
  induction s with
  | nil => rfl
  | cons c r ih =>
    have hc : c ≠ sep := fun e => h (by simp [e])
    have hr : sep ∉ r := fun e => h (List.mem_cons_of_mem _ e)
    unfold splitByte
    simp [hc, ih hr]

theorem splitByte_append (sep : UInt8) (a b : List UInt8) (h : sep ∉ a) :
    splitByte sep (a ++ sep :: b) = a :: splitByte sep b := by
  induction a with
  | nil => simp [splitByte]
  | cons c r ih =>
    have hc : c ≠ sep := fun e => h (by simp [e])
    have hr : sep ∉ r := fun e => h (List.mem_cons_of_mem _ e)
    simp only [List.cons_append]
    rw [splitByte]
    simp [hc, ih hr]

theorem splitByte_intercalate (sep : UInt8) (p : List UInt8) (ps : List (List UInt8))
    (h : ∀ x ∈ p :: ps, sep ∉ x) : splitByte sep (List.intercalate [sep] (p :: ps)) = p :: ps := by
  induction ps generalizing p with
  | nil => simpa [List.intercalate] using splitByte_no_sep sep p (h p List.mem_cons_self)
  | cons q qs ih =>
    have : List.intercalate [sep] (p :: q :: qs) = p ++ sep :: List.intercalate [sep] (q :: qs) := by
      simp [List.intercalate, List.intersperse]
    rw [this, splitByte_append sep p _ (h p List.mem_cons_self), ih q (fun x hx => h x (List.mem_cons_of_mem _ hx))]

theorem indexOfByte_append (c : UInt8) (a b : List UInt8) (h : c ∉ a) :
    indexOfByte c (a ++ c :: b) = some a.length := by
  induction a with
  | nil => simp [indexOfByte]
  | cons x r ih =>
    have hx : x ≠ c := fun e => h (by simp [e])
    have hr : c ∉ r := fun e => h (List.mem_cons_of_mem _ e)
    simp [indexOfByte, hx, ih hr]

theorem indexOfByte_nil (c : UInt8) : indexOfByte c [] = none := rfl

/-- what a well-formed entry is at the text level -/
def EntryOk (s1 s2 : UInt8) (kv : List UInt8 × List UInt8) : Prop :=
  kv.1 ≠ [] ∧ s1 ∉ kv.1 ∧ s2 ∉ kv.1 ∧ s1 ∉ kv.2

theorem splitDic_fold (s1 s2 : UInt8) (e acc : Dict) (h : ∀ kv ∈ e, EntryOk s1 s2 kv) :
    (e.map fun kv => kv.1 ++ [s2] ++ kv.2).foldl (fun acc p =>
      match indexOfByte s2 p with
      | some j => if j > 0 then dicSet acc (p.take j) (p.drop (j + 1)) else acc
      | none => acc) acc = e.foldl (fun acc kv => dicSet acc kv.1 kv.2) acc := by
  induction e generalizing acc with
  | nil => rfl
  | cons kv r ih =>
    obtain ⟨hne, _, h2, _⟩ := h kv List.mem_cons_self
    simp only [List.map_cons, List.foldl_cons]
    have hi : indexOfByte s2 (kv.1 ++ [s2] ++ kv.2) = some kv.1.length := by
      simpa using indexOfByte_append s2 kv.1 kv.2 h2
    have hpos : kv.1.length > 0 := List.length_pos_iff.mpr hne
    rw [hi]
    simp only [hpos, if_true]
    have ht : (kv.1 ++ [s2] ++ kv.2).take kv.1.length = kv.1 := by simp
    have hd : (kv.1 ++ [s2] ++ kv.2).drop (kv.1.length + 1) = kv.2 := by
      have : kv.1 ++ [s2] ++ kv.2 = (kv.1 ++ [s2]) ++ kv.2 := by simp
      rw [this, List.drop_append_of_le_length (by simp)]
      simp
    rw [ht, hd]
    exact ih _ (fun x hx => h x (List.mem_cons_of_mem _ hx))

theorem splitDic_join (s1 s2 : UInt8) (hne : s1 ≠ s2) (e : Dict) (h : ∀ kv ∈ e, EntryOk s1 s2 kv) :
    splitDic s1 s2 (join s1 s2 e) = ofPairs e := by
  unfold splitDic join ofPairs
  cases e with
  | nil => simp [List.intercalate, splitByte, indexOfByte]
  | cons kv r =>
    have hsep : ∀ x ∈ (kv :: r).map (fun kv => kv.1 ++ [s2] ++ kv.2), s1 ∉ x := by
      intro x hx
      obtain ⟨y, hy, rfl⟩ := List.mem_map.mp hx
      obtain ⟨_, a, _, b⟩ := h y hy
      simp only [List.mem_append, List.mem_cons, List.not_mem_nil, or_false, not_or]
      exact ⟨⟨a, hne⟩, b⟩
    rw [List.map_cons] at hsep ⊢
    rw [splitByte_intercalate s1 _ _ hsep]
    exact splitDic_fold s1 s2 (kv :: r) [] h

/-! ### the encoder's output -/
theorem enc_no (s : List UInt8) (c : UInt8) (h1 : isAlnumC c = false) (h2 : (urlKeep true).contains c = false) (h3 : c ≠ 37) :
    c ∉ urlEncode s true := by
  induction s with
  | nil => simp [urlEncode]
  | cons x t ih =>
    intro hc
    simp only [urlEncode, List.flatMap_cons, List.mem_append] at hc ih
    rcases hc with hc | hc
    · split at hc
      · simp only [List.mem_cons, List.not_mem_nil, or_false] at hc
        rcases hc with rfl | rfl | rfl
        · exact h3 rfl
        · have : ∀ n, n < 256 → isAlnumC (hexNibble (n >>> 4)) = true := by decide +kernel
          rw [this _ x.toNat_lt] at h1; cases h1
        · have : ∀ n, n < 256 → isAlnumC (hexNibble (n &&& 0x0f)) = true := by decide +kernel
          rw [this _ x.toNat_lt] at h1; cases h1
      · rename_i h
        simp only [List.mem_cons, List.not_mem_nil, or_false] at hc
        subst hc
        simp only [h1, Bool.not_false, Bool.true_and, Bool.not_eq_eq_eq_not, Bool.not_true] at h
        rw [h2] at h; simp at h
    · exact ih hc

theorem enc_ne_nil (s : List UInt8) (h : s ≠ []) : urlEncode s true ≠ [] := by
  cases s with
  | nil => exact absurd rfl h
  | cons x t =>
    simp only [urlEncode, List.flatMap_cons]
    split <;> simp

theorem enc_inj (a b : List UInt8) (h : urlEncode a true = urlEncode b true) : a = b := by
  have := congrArg urlDecode h
  rwa [AslProofs.Codec.url_roundtrip, AslProofs.Codec.url_roundtrip] at this

theorem plus_map_id (s : List UInt8) (h : (43 : UInt8) ∉ s) : s.map (fun c => if c = 43 then 32 else c) = s := by
  induction s with
  | nil => rfl
  | cons x r ih =>
    have hx : x ≠ 43 := fun e => h (by simp [e])
    simp [hx, ih (fun e => h (List.mem_cons_of_mem _ e))]

theorem mem_join (s1 s2 c : UInt8) (e : Dict) (h : c ∈ join s1 s2 e) :
    c = s1 ∨ c = s2 ∨ ∃ kv ∈ e, c ∈ kv.1 ∨ c ∈ kv.2 := by
  unfold join at h
  induction e with
  | nil => simp [List.intercalate] at h
  | cons kv r ih =>
    cases r with
    | nil =>
      simp only [List.map_cons, List.map_nil, List.intercalate, List.intersperse, List.flatten_cons, List.flatten_nil,
        List.append_nil, List.mem_append, List.mem_cons, List.not_mem_nil, or_false] at h
      rcases h with (h | h) | h
      · exact Or.inr (Or.inr ⟨kv, List.mem_cons_self, Or.inl h⟩)
      · exact Or.inr (Or.inl h)
      · exact Or.inr (Or.inr ⟨kv, List.mem_cons_self, Or.inr h⟩)
    | cons kv2 r2 =>
      have : List.intercalate [s1] ((kv :: kv2 :: r2).map fun kv => kv.1 ++ [s2] ++ kv.2) =
          (kv.1 ++ [s2] ++ kv.2) ++ s1 :: List.intercalate [s1] ((kv2 :: r2).map fun kv => kv.1 ++ [s2] ++ kv.2) := by
        simp [List.intercalate, List.intersperse]
      rw [this] at h
      simp only [List.mem_append, List.mem_cons, List.not_mem_nil, or_false] at h
      rcases h with ((h | h) | h) | h | h
      · exact Or.inr (Or.inr ⟨kv, List.mem_cons_self, Or.inl h⟩)
      · exact Or.inr (Or.inl h)
      · exact Or.inr (Or.inr ⟨kv, List.mem_cons_self, Or.inr h⟩)
      · exact Or.inl h
      · rcases ih h with h | h | ⟨x, hx, hh⟩
        · exact Or.inl h
        · exact Or.inr (Or.inl h)
        · exact Or.inr (Or.inr ⟨x, List.mem_cons_of_mem _ hx, hh⟩)

end AslProofs.Query
