import AslModel.Codec
import AslProofs.Codec
import AslProofs.Query
import AslProofs.Query2
open AslModel.Codec AslModel.Query

namespace AslProofs.Query

def encPair (kv : List UInt8 × List UInt8) : List UInt8 × List UInt8 := (urlEncode kv.1 true, urlEncode kv.2 true)
def decPair (kv : List UInt8 × List UInt8) : List UInt8 × List UInt8 := (urlDecode kv.1, urlDecode kv.2)

theorem decPair_encPair (kv) : decPair (encPair kv) = kv := by
  simp [decPair, encPair, AslProofs.Codec.url_roundtrip]

theorem amp_not_enc (s) : (38 : UInt8) ∉ urlEncode s true := enc_no s 38 (by decide) (by decide) (by decide)
theorem eq_not_enc (s) : (61 : UInt8) ∉ urlEncode s true := enc_no s 61 (by decide) (by decide) (by decide)
theorem plus_not_enc (s) : (43 : UInt8) ∉ urlEncode s true := enc_no s 43 (by decide) (by decide) (by decide)

theorem cstr_of_not_mem (s : List UInt8) (h : (0 : UInt8) ∉ s) : cstr s = s := by
  unfold cstr
  induction s with
  | nil => rfl
  | cons x r ih =>
    have hx : x ≠ 0 := fun e => h (by simp [e])
    have hr : (0 : UInt8) ∉ r := fun e => h (List.mem_cons_of_mem _ e)
    simp [List.takeWhile_cons, hx, ih hr]

theorem cstr_enc (s : List UInt8) : cstr (urlEncode s true) = urlEncode s true :=
  cstr_of_not_mem _ (enc_no s 0 (by decide) (by decide) (by decide))

theorem query_roundtrip (d : Dict) (hs : Sorted d) (hk : ∀ kv ∈ d, kv.1 ≠ []) : parseQuery (params d) = d := by
  -- the dictionary of encoded pairs
  have hm : (d.map fun kv => (urlEncode kv.1 true, urlEncode kv.2 true)) = d.map encPair := rfl
  have hnd : ((d.map encPair).map (fun kv => cstr kv.1)).Nodup := by
    rw [List.map_map]
    have hn := sorted_nodup_keys d hs
    unfold List.Nodup at hn ⊢
    rw [List.pairwise_map] at hn ⊢
    refine hn.imp ?_
    intro a b hab h
    simp only [Function.comp, encPair, cstr_enc] at h
    exact hab (by rw [enc_inj a.1 b.1 h])
  obtain ⟨hes, hep⟩ := ofPairs_sorted_perm (d.map encPair) hnd
  generalize he : ofPairs (d.map encPair) = e at hes hep
  have hin : ∀ kv ∈ e, ∃ kv0 ∈ d, kv = encPair kv0 := by
    intro kv h
    obtain ⟨y, hy, rfl⟩ := List.mem_map.mp (hep.subset h)
    exact ⟨y, hy, rfl⟩
  have hok : ∀ kv ∈ e, EntryOk 38 61 kv := by
    intro kv h
    obtain ⟨kv0, h0, rfl⟩ := hin kv h
    exact ⟨enc_ne_nil _ (hk kv0 h0), amp_not_enc _, eq_not_enc _, amp_not_enc _⟩
  have hplus : (43 : UInt8) ∉ join 38 61 e := by
    intro h
    rcases mem_join 38 61 43 e h with h | h | ⟨kv, hkv, h⟩
    · cases h
    · cases h
    · obtain ⟨kv0, _, rfl⟩ := hin kv hkv
      rcases h with h | h <;> exact plus_not_enc _ h
  unfold parseQuery params
  simp only [hm, he]
  rw [plus_map_id _ hplus, splitDic_join 38 61 (by decide) e hok]
  -- re-inserting a sorted dictionary gives it back
  have hee : ofPairs e = e := by
    obtain ⟨a, b⟩ := ofPairs_sorted_perm e (sorted_nodup_keys e hes)
    exact sorted_perm_eq _ _ a hes b
  rw [hee]
  have hperm : (e.map fun kv => (urlDecode kv.1, urlDecode kv.2)).Perm d := by
    have : (e.map decPair).Perm ((d.map encPair).map decPair) := hep.map decPair
    rw [List.map_map] at this
    have hid : d.map (decPair ∘ encPair) = d := by
      conv => rhs; rw [← List.map_id d]
      apply List.map_congr_left
      intro a _; exact decPair_encPair a
    rw [hid] at this
    exact this
  have hnd2 : ((e.map fun kv => (urlDecode kv.1, urlDecode kv.2)).map (fun kv => cstr kv.1)).Nodup :=
    (hperm.map (fun kv => cstr kv.1)).nodup_iff.mpr (sorted_nodup_keys d hs)
  obtain ⟨a, b⟩ := ofPairs_sorted_perm _ hnd2
  exact sorted_perm_eq _ _ a hs (b.trans hperm)


theorem dicSet_key_mem (d : Dict) (k v : List UInt8) : ∀ x ∈ dicSet d k v, x.1 = k ∨ ∃ y ∈ d, y.1 = x.1 := by
  induction d with
  | nil => intro x hx; simp [dicSet] at hx; exact Or.inl (by rw [hx])
  | cons e r ih =>
    obtain ⟨k', v'⟩ := e
    intro x hx
    unfold dicSet at hx
    split at hx
    · rcases List.mem_cons.mp hx with rfl | hx
      · exact Or.inl rfl
      · exact Or.inr ⟨x, hx, rfl⟩
    · split at hx
      · rcases List.mem_cons.mp hx with rfl | hx
        · exact Or.inr ⟨_, List.mem_cons_self, rfl⟩
        · rcases ih x hx with h | ⟨y, hy, h⟩
          · exact Or.inl h
          · exact Or.inr ⟨y, List.mem_cons_of_mem _ hy, h⟩
      · rcases List.mem_cons.mp hx with rfl | hx
        · exact Or.inr ⟨(k', v'), List.mem_cons_self, rfl⟩
        · exact Or.inr ⟨x, List.mem_cons_of_mem _ hx, rfl⟩

theorem dicSet_sorted (d : Dict) (k v : List UInt8) (hs : Sorted d) : Sorted (dicSet d k v) := by
  induction d with
  | nil => simp [dicSet, Sorted]
  | cons e r ih =>
    obtain ⟨k', v'⟩ := e
    have hs' := List.pairwise_cons.mp hs
    unfold dicSet
    by_cases h1 : strLt k k' = true
    · simp only [h1, if_true]
      refine List.pairwise_cons.mpr ⟨?_, hs⟩
      intro x hx
      rcases List.mem_cons.mp hx with rfl | hx
      · exact h1
      · exact strLt_trans _ _ _ h1 (hs'.1 x hx)
    · simp only [h1]
      by_cases h2 : strLt k' k = true
      · simp only [h2, if_true]
        refine List.pairwise_cons.mpr ⟨?_, ih hs'.2⟩
        intro x hx
        rcases dicSet_key_mem r k v x hx with h | ⟨y, hy, h⟩
        · unfold KeyLt; rw [h]; exact h2
        · have := hs'.1 y hy; unfold KeyLt at this ⊢; rw [← h]; exact this
      · simp only [h2]
        exact List.pairwise_cons.mpr ⟨fun x hx => hs'.1 x hx, hs'.2⟩

theorem ofPairs_sorted_any (l : Dict) : Sorted (ofPairs l) := by
  unfold ofPairs
  suffices ∀ acc, Sorted acc → Sorted (l.foldl (fun acc kv => dicSet acc kv.1 kv.2) acc) from this [] List.Pairwise.nil
  induction l with
  | nil => intro acc h; exact h
  | cons e r ih => intro acc h; exact ih _ (dicSet_sorted acc e.1 e.2 h)

theorem ofPairs_keys (l : Dict) : ∀ x ∈ ofPairs l, ∃ y ∈ l, y.1 = x.1 := by
  unfold ofPairs
  suffices ∀ acc x, x ∈ l.foldl (fun acc kv => dicSet acc kv.1 kv.2) acc → (∃ y ∈ l, y.1 = x.1) ∨ ∃ y ∈ acc, y.1 = x.1 by
    intro x hx
    rcases this [] x hx with h | ⟨_, h, _⟩
    · exact h
    · cases h
  induction l with
  | nil => intro acc x hx; exact Or.inr ⟨x, hx, rfl⟩
  | cons e r ih =>
    intro acc x hx
    rcases ih _ x hx with ⟨y, hy, h⟩ | ⟨y, hy, h⟩
    · exact Or.inl ⟨y, List.mem_cons_of_mem _ hy, h⟩
    · rcases dicSet_key_mem acc e.1 e.2 y hy with h' | ⟨z, hz, h'⟩
      · exact Or.inl ⟨e, List.mem_cons_self, by rw [← h, h']⟩
      · exact Or.inr ⟨z, hz, by rw [h', h]⟩


end AslProofs.Query
