import AslModel.Rc
/-! Invariant proofs for the reference-count / counter interleaving model (C12). Core Lean only. -/
namespace AslProofs.Rc
open AslModel.Rc

theorem sum_map_set {α} (f : α → Nat) (l : List α) (i : Nat) (a b : α) (h : l[i]? = some b) :
    ((l.set i a).map f).sum + f b = (l.map f).sum + f a := by
  induction l generalizing i with
  | nil => simp at h
  | cons x t ih =>
    cases i with
    | zero => simp at h; subst h; simp; omega
    | succ j =>
      simp at h
      have := ih j h
      simp only [List.set_cons_succ, List.map_cons, List.sum_cons]
      omega

theorem getD_set {α} (l : List α) (i j : Nat) (a d : α) :
    (l.set i a).getD j d = if i = j ∧ i < l.length then a else l.getD j d := by
  simp only [List.getD_eq_getElem?_getD, List.getElem?_set]
  by_cases h : i = j
  · subst h
    by_cases hl : i < l.length
    · simp [hl]
    · simp [hl]
  · simp [h]

theorem getD_upd {α} (l : List α) (i j : Nat) (f : α → α) (d : α) :
    (upd l i f).getD j d = if i = j ∧ i < l.length then f (l.getD i d) else l.getD j d := by
  unfold upd
  cases h : l[i]? with
  | none =>
    have : ¬ i < l.length := by
      intro hl; simp [List.getElem?_eq_getElem hl] at h
    simp [this]
  | some a =>
    have hl : i < l.length := by
      by_cases hl : i < l.length
      · exact hl
      · simp [List.getElem?_eq_none (Nat.le_of_not_lt hl)] at h
    rw [getD_set]
    have : l.getD i d = a := by simp [List.getD_eq_getElem?_getD, h]
    rw [this]

theorem length_upd {α} (l : List α) (i : Nat) (f : α → α) : (upd l i f).length = l.length := by
  unfold upd; split <;> simp

structure RcInv (c : Cfg) : Prop where
  len1 : c.alive.length = c.rc.length
  len2 : c.frees.length = c.rc.length
  rcEq : ∀ o, c.rc.getD o 0 = (heldCount c.thrs o : Int)
  aliveIff : ∀ o, c.alive.getD o false = true ↔ (0 < c.rc.getD o 0 ∨ 0 < pendCount c.thrs o)
  pendLe : ∀ o, pendCount c.thrs o ≤ 1
  pendZero : ∀ o, 0 < pendCount c.thrs o → c.rc.getD o 0 = 0
  freesEq : ∀ o, o < c.rc.length → c.frees.getD o 0 = if c.alive.getD o false = true then 0 else 1
theorem held_set (thrs : List Thr) (t : Nat) (th th' : Thr) (h : thrs[t]? = some th) (o : Nat) :
    heldCount (thrs.set t th') o + th.held.count o = heldCount thrs o + th'.held.count o :=
  sum_map_set (fun (th : Thr) => th.held.count o) thrs t th' th h

theorem pend_set (thrs : List Thr) (t : Nat) (th th' : Thr) (h : thrs[t]? = some th) (o : Nat) :
    pendCount (thrs.set t th') o + (if th.pending = some o then 1 else 0)
      = pendCount thrs o + (if th'.pending = some o then 1 else 0) :=
  sum_map_set (fun (th : Thr) => if th.pending = some o then 1 else 0) thrs t th' th h

theorem getD_lt_of_true (l : List Bool) (o : Nat) (h : l.getD o false = true) : o < l.length := by
  by_cases hl : o < l.length
  · exact hl
  · simp [List.getD_eq_getElem?_getD, List.getElem?_eq_none (Nat.le_of_not_lt hl)] at h

/-- updates that leave objects and ownership alone preserve the invariant -/
theorem RcInv.frame {c : Cfg} (hI : RcInv c) (t : Nat) (th th' : Thr) (h : c.thrs[t]? = some th)
    (hh : th'.held = th.held) (hp : th'.pending = th.pending) (ctr : List Int) (mtx : List Bool) (vars : List Int) :
    RcInv { c with ctr := ctr, mtx := mtx, vars := vars, thrs := c.thrs.set t th' } := by
  have hc : ∀ o, heldCount (c.thrs.set t th') o = heldCount c.thrs o := by
    intro o; have := held_set c.thrs t th th' h o; rw [hh] at this; omega
  have hq : ∀ o, pendCount (c.thrs.set t th') o = pendCount c.thrs o := by
    intro o; have := pend_set c.thrs t th th' h o; rw [hp] at this; omega
  exact ⟨hI.len1, hI.len2, fun o => by simp only [hc]; exact hI.rcEq o,
    fun o => by simp only [hq]; exact hI.aliveIff o, fun o => by simp only [hq]; exact hI.pendLe o,
    fun o => by simp only [hq]; exact hI.pendZero o, hI.freesEq⟩


theorem held_le (thrs : List Thr) (t : Nat) (th : Thr) (h : thrs[t]? = some th) (o : Nat) :
    th.held.count o ≤ heldCount thrs o := by
  have := held_set thrs t th { th with held := [] } h o
  simp at this; omega

theorem pend_ge (thrs : List Thr) (t : Nat) (th : Thr) (h : thrs[t]? = some th) (o : Nat) (hp : th.pending = some o) :
    1 ≤ pendCount thrs o := by
  have := pend_set thrs t th { th with pending := none } h o
  simp [hp] at this; omega


theorem count_pos_of_contains (l : List Nat) (o : Nat) (h : l.contains o = true) : 1 ≤ l.count o := by
  have : o ∈ l := by simpa using h
  exact List.count_pos_iff.mpr this

/-- `atomicInc` by a thread that holds a handle -/
theorem inv_inc {c : Cfg} (hI : RcInv c) (t : Nat) (th : Thr) (h : c.thrs[t]? = some th) (o : Nat)
    (hp : th.pending = none) (hheld : th.held.contains o = true) (rest : List Step) :
    c.alive.getD o false = true ∧
    RcInv { c with rc := upd c.rc o (· + 1),
                   thrs := c.thrs.set t { th with prog := rest, held := o :: th.held } } := by
  have hcnt := count_pos_of_contains _ _ hheld
  have hle := held_le c.thrs t th h o
  have hrc : 1 ≤ c.rc.getD o 0 := by rw [hI.rcEq o]; omega
  have hal : c.alive.getD o false = true := (hI.aliveIff o).mpr (Or.inl (by omega))
  refine ⟨hal, ?_⟩
  have holt : o < c.rc.length := by rw [← hI.len1]; exact getD_lt_of_true _ _ hal
  have hc : ∀ o', heldCount (c.thrs.set t { th with prog := rest, held := o :: th.held }) o'
      = heldCount c.thrs o' + (if o = o' then 1 else 0) := by
    intro o'
    have := held_set c.thrs t th { th with prog := rest, held := o :: th.held } h o'
    simp only [List.count_cons] at this
    by_cases ho : o = o'
    · simp [ho] at this ⊢; omega
    · simp [ho] at this ⊢; omega
  have hq : ∀ o', pendCount (c.thrs.set t { th with prog := rest, held := o :: th.held }) o' = pendCount c.thrs o' := by
    intro o'
    have := pend_set c.thrs t th { th with prog := rest, held := o :: th.held } h o'
    simp only at this; omega
  have hp0 : pendCount c.thrs o = 0 := by
    by_cases hz : 0 < pendCount c.thrs o
    · have := hI.pendZero o hz; omega
    · omega
  refine ⟨by simp [length_upd, hI.len1], by simp [length_upd, hI.len2], ?_, ?_, ?_, ?_, ?_⟩
  · intro o'; dsimp only
    rw [getD_upd, hc o']
    by_cases ho : o = o'
    · subst ho; simp only [holt, and_self, if_true]; rw [hI.rcEq o]; omega
    · simp only [ho, false_and, if_false]; rw [hI.rcEq o']; omega
  · intro o'; dsimp only
    rw [getD_upd, hq o']
    by_cases ho : o = o'
    · subst ho; simp only [holt, and_self, if_true]
      constructor
      · intro _; exact Or.inl (by omega)
      · intro _; exact hal
    · simp only [ho, false_and, if_false]; exact hI.aliveIff o'
  · intro o'; dsimp only; rw [hq o']; exact hI.pendLe o'
  · intro o'; dsimp only; rw [hq o', getD_upd]
    intro hz
    by_cases ho : o = o'
    · subst ho; omega
    · simp only [ho, false_and, if_false]; exact hI.pendZero o' hz
  · intro o' hlt; dsimp only at hlt ⊢
    rw [length_upd] at hlt
    exact hI.freesEq o' hlt

/-- `atomicDec` by a thread that holds a handle; a result of 0 makes it the one to release -/
theorem inv_dec {c : Cfg} (hI : RcInv c) (t : Nat) (th th' : Thr) (h : c.thrs[t]? = some th) (o : Nat)
    (hp : th.pending = none) (hheld : th.held.contains o = true)
    (hh : th'.held = th.held.erase o)
    (hpd : th'.pending = if c.rc.getD o 0 - 1 = 0 then some o else none) :
    c.alive.getD o false = true ∧
    RcInv { c with rc := upd c.rc o (· - 1), thrs := c.thrs.set t th' } := by
  have hcnt := count_pos_of_contains _ _ hheld
  have hle := held_le c.thrs t th h o
  have hrc : 1 ≤ c.rc.getD o 0 := by rw [hI.rcEq o]; omega
  have hal : c.alive.getD o false = true := (hI.aliveIff o).mpr (Or.inl (by omega))
  refine ⟨hal, ?_⟩
  have holt : o < c.rc.length := by rw [← hI.len1]; exact getD_lt_of_true _ _ hal
  have hc : ∀ o', heldCount (c.thrs.set t th') o' + (if o = o' then 1 else 0) = heldCount c.thrs o' := by
    intro o'
    have := held_set c.thrs t th th' h o'
    rw [hh, List.count_erase] at this
    have hle' := held_le c.thrs t th h o'
    by_cases ho : o = o'
    · subst ho; simp at this ⊢; omega
    · have hb : (o' == o) = false := by simp; exact fun hx => ho hx.symm
      simp [hb, ho] at *; omega
  have hp0 : pendCount c.thrs o = 0 := by
    by_cases hz : 0 < pendCount c.thrs o
    · have := hI.pendZero o hz; omega
    · omega
  have hq : ∀ o', pendCount (c.thrs.set t th') o'
      = pendCount c.thrs o' + (if c.rc.getD o 0 - 1 = 0 ∧ o = o' then 1 else 0) := by
    intro o'
    have := pend_set c.thrs t th th' h o'
    rw [hp, hpd] at this
    by_cases hr : c.rc.getD o 0 - 1 = 0
    · by_cases ho : o = o'
      · simp [hr, ho] at this ⊢; omega
      · simp [hr, ho] at this ⊢; omega
    · simp [hr] at this ⊢; omega
  refine ⟨by simp [length_upd, hI.len1], by simp [length_upd, hI.len2], ?_, ?_, ?_, ?_, ?_⟩
  · intro o'; dsimp only
    have := hc o'
    rw [getD_upd]
    by_cases ho : o = o'
    · subst ho; simp only [holt, and_self, if_true] at *; rw [hI.rcEq o]; omega
    · simp only [ho, false_and, if_false] at *; rw [hI.rcEq o']; omega
  · intro o'; dsimp only
    rw [getD_upd, hq o']
    by_cases ho : o = o'
    · subst ho; simp only [holt, and_self, if_true, and_true]
      constructor
      · intro _
        by_cases hr : c.rc.getD o 0 - 1 = 0
        · right; simp only [List.getD_eq_getElem?_getD] at hr ⊢; rw [if_pos hr]; omega
        · left; omega
      · intro _; exact hal
    · simp only [ho, false_and, and_false, if_false, Nat.add_zero]; exact hI.aliveIff o'
  · intro o'; dsimp only; rw [hq o']
    have := hI.pendLe o'
    by_cases ho : o = o'
    · subst ho; rw [hp0]; split <;> omega
    · simp only [ho, and_false, if_false]; omega
  · intro o'; dsimp only; rw [hq o', getD_upd]
    intro hz
    by_cases ho : o = o'
    · subst ho; simp only [holt, and_self, if_true, and_true] at *
      rw [hp0] at hz
      by_cases hr : c.rc.getD o 0 - 1 = 0
      · exact hr
      · simp only [List.getD_eq_getElem?_getD] at hr hz; rw [if_neg hr] at hz; omega
    · simp only [ho, false_and, and_false, if_false, Nat.add_zero] at *; exact hI.pendZero o' hz
  · intro o' hlt; dsimp only at hlt ⊢
    rw [length_upd] at hlt
    exact hI.freesEq o' hlt

/-- releasing the storage of `o` by the thread whose decrement reached 0 -/
theorem inv_free {c : Cfg} (hI : RcInv c) (t : Nat) (th : Thr) (h : c.thrs[t]? = some th) (o : Nat)
    (hp : th.pending = some o) :
    c.alive.getD o false = true ∧
    RcInv { c with alive := c.alive.set o false, frees := upd c.frees o (· + 1),
                   thrs := c.thrs.set t { th with pending := none } } := by
  have hge := pend_ge c.thrs t th h o hp
  have hal : c.alive.getD o false = true := (hI.aliveIff o).mpr (Or.inr (by omega))
  refine ⟨hal, ?_⟩
  have holt : o < c.alive.length := getD_lt_of_true _ _ hal
  have hc : ∀ o', heldCount (c.thrs.set t { th with pending := none }) o' = heldCount c.thrs o' := by
    intro o'; have := held_set c.thrs t th { th with pending := none } h o'; simp at this; omega
  have hq : ∀ o', pendCount (c.thrs.set t { th with pending := none }) o' + (if o = o' then 1 else 0) = pendCount c.thrs o' := by
    intro o'; have := pend_set c.thrs t th { th with pending := none } h o'
    simp [hp] at this; omega
  have hrc0 : c.rc.getD o 0 = 0 := hI.pendZero o (by omega)
  have hle := hI.pendLe o
  refine ⟨by simp [hI.len1], by simp [length_upd, hI.len2], fun o' => by simp only [hc]; exact hI.rcEq o', ?_, ?_, ?_, ?_⟩
  · intro o'
    have := hq o'
    simp only [getD_set]
    by_cases ho : o = o'
    · subst ho
      simp only [holt, and_self, if_true] at *
      constructor
      · intro hf; cases hf
      · intro hx; rcases hx with hx | hx
        · rw [hrc0] at hx; omega
        · omega
    · simp only [ho, false_and, if_false] at *
      rw [hI.aliveIff o']
      constructor
      · intro hx; rcases hx with hx | hx
        · exact Or.inl hx
        · exact Or.inr (by omega)
      · intro hx; rcases hx with hx | hx
        · exact Or.inl hx
        · exact Or.inr (by omega)
  · intro o'; dsimp only; have := hq o'; have := hI.pendLe o'; omega
  · intro o' hp'
    dsimp only at hp' ⊢
    have := hq o'
    by_cases ho : o = o'
    · subst ho; exact hrc0
    · simp only [ho, if_false] at this; exact hI.pendZero o' (by omega)
  · intro o' hlt
    simp only [getD_upd, getD_set]
    by_cases ho : o = o'
    · subst ho
      have h1 : o < c.frees.length := by rw [hI.len2, ← hI.len1]; exact holt
      simp only [h1, holt, and_self, if_true]
      have := hI.freesEq o (by rw [← hI.len1]; exact holt)
      rw [hal] at this
      simp only [if_true] at this
      rw [this]; simp
    · simp only [ho, false_and, if_false]
      exact hI.freesEq o' hlt
theorem RcInv.transfer {c c' : Cfg} (h : RcInv c) (h1 : c'.rc = c.rc) (h2 : c'.alive = c.alive)
    (h3 : c'.frees = c.frees) (h4 : c'.thrs = c.thrs) : RcInv c' :=
  ⟨by rw [h1, h2]; exact h.len1, by rw [h1, h3]; exact h.len2, by rw [h1, h4]; exact h.rcEq,
   by rw [h1, h2, h4]; exact h.aliveIff, by rw [h4]; exact h.pendLe, by rw [h1, h4]; exact h.pendZero,
   by rw [h1, h2, h3]; exact h.freesEq⟩

def AllWf (c : Cfg) : Prop := ∀ (t : Nat) (th : Thr), c.thrs[t]? = some th → wfThr th = true

theorem allWf_set {c : Cfg} (hw : AllWf c) (t : Nat) (th' : Thr) (h' : wfThr th' = true) (c' : Cfg)
    (hc : c'.thrs = c.thrs.set t th') : AllWf c' := by
  intro t' th'' hget
  rw [hc, List.getElem?_set] at hget
  by_cases ht : t = t'
  · subst ht
    by_cases hl : t < c.thrs.length
    · simp [hl] at hget; subst hget; exact h'
    · simp [hl] at hget
  · simp [ht] at hget; exact hw t' th'' hget

/-- **One step.**  From a configuration satisfying the invariant in which every thread's program is
    thread-locally well formed, any step of any thread keeps both and causes no memory error and no misuse. -/
theorem step_safe (c : Cfg) (t : Nat) (hI : RcInv c) (hw : AllWf c) (hb : c.bad = none) :
    RcInv (step c t) ∧ AllWf (step c t) ∧ (step c t).bad = none := by
  unfold step
  simp only [hb, Option.isSome_none, Bool.false_eq_true, if_false]
  cases h : c.thrs[t]? with
  | none => exact ⟨hI.transfer rfl rfl rfl rfl, fun t' th' h' => hw t' th' h', by first | trivial | rfl | exact hb⟩
  | some th =>
    have hwt := hw t th h
    simp only
    cases hp : th.pending with
    | some o =>
      simp only
      obtain ⟨hal, hI'⟩ := inv_free hI t th h o hp
      rw [if_pos hal]
      refine ⟨hI'.transfer rfl rfl rfl rfl, ?_, by first | trivial | rfl | exact hb⟩
      exact allWf_set hw t _ (by simpa [wfThr] using hwt) _ rfl
    | none =>
      simp only
      cases hprog : th.prog with
      | nil => exact ⟨hI.transfer rfl rfl rfl rfl, fun t' th' h' => hw t' th' h', by first | trivial | rfl | exact hb⟩
      | cons s rest =>
        unfold wfThr at hwt
        rw [hprog] at hwt
        cases s with
        | inc o =>
          simp only [wfProg, Bool.and_eq_true] at hwt
          obtain ⟨hheld, hrest⟩ := hwt
          obtain ⟨hal, hI'⟩ := inv_inc hI t th h o hp hheld rest
          simp only [hheld, hal, Bool.not_true, Bool.false_eq_true, if_false]
          exact ⟨hI'.transfer rfl rfl rfl (by simp [hp]), allWf_set hw t _ (by simpa [wfThr] using hrest) _ rfl, by first | trivial | rfl | exact hb⟩
        | dec o =>
          simp only [wfProg, Bool.and_eq_true] at hwt
          obtain ⟨hheld, hrest⟩ := hwt
          obtain ⟨hal, hI'⟩ := inv_dec hI t th
            { th with prog := rest, held := th.held.erase o, pending := if c.rc.getD o 0 - 1 = 0 then some o else none }
            h o hp hheld rfl rfl
          simp only [hheld, hal, Bool.not_true, Bool.false_eq_true, if_false]
          exact ⟨hI'.transfer rfl rfl rfl (by simp [hp]), allWf_set hw t _ (by simpa [wfThr] using hrest) _ rfl, by first | trivial | rfl | exact hb⟩
        | use o =>
          simp only [wfProg, Bool.and_eq_true] at hwt
          obtain ⟨hheld, hrest⟩ := hwt
          obtain ⟨hal, _⟩ := inv_inc hI t th h o hp hheld rest
          simp only [hheld, hal, Bool.not_true, Bool.false_eq_true, if_false]
          exact ⟨(hI.frame t th { prog := rest, held := th.held, pending := none, tmp := th.tmp } h rfl hp.symm c.ctr c.mtx c.vars).transfer rfl rfl rfl rfl, allWf_set hw t _ (by simpa [wfThr] using hrest) _ rfl, by first | trivial | rfl | exact hb⟩
        | add k d =>
          simp only [wfProg] at hwt
          dsimp only
          exact ⟨(hI.frame t th { prog := rest, held := th.held, pending := none, tmp := th.tmp } h rfl hp.symm c.ctr c.mtx c.vars).transfer rfl rfl rfl rfl, allWf_set hw t _ (by simpa [wfThr] using hwt) _ rfl, by first | trivial | rfl | exact hb⟩
        | lock m =>
          simp only [wfProg] at hwt
          dsimp only
          by_cases hm : c.mtx.getD m false = true
          · simp only [hm, if_true]; exact ⟨hI.transfer rfl rfl rfl rfl, fun t' th' h' => hw t' th' h', by first | trivial | rfl | exact hb⟩
          · simp only [hm, if_false]
            exact ⟨(hI.frame t th { prog := rest, held := th.held, pending := none, tmp := th.tmp } h rfl hp.symm c.ctr c.mtx c.vars).transfer rfl rfl rfl rfl, allWf_set hw t _ (by simpa [wfThr] using hwt) _ rfl, by first | trivial | rfl | exact hb⟩
        | unlock m =>
          simp only [wfProg] at hwt
          dsimp only
          exact ⟨(hI.frame t th { prog := rest, held := th.held, pending := none, tmp := th.tmp } h rfl hp.symm c.ctr c.mtx c.vars).transfer rfl rfl rfl rfl, allWf_set hw t _ (by simpa [wfThr] using hwt) _ rfl, by first | trivial | rfl | exact hb⟩
        | load x =>
          simp only [wfProg] at hwt
          dsimp only
          exact ⟨(hI.frame t th { prog := rest, held := th.held, pending := none, tmp := c.vars.getD x 0 } h rfl hp.symm c.ctr c.mtx c.vars).transfer rfl rfl rfl rfl, allWf_set hw t _ (by simpa [wfThr] using hwt) _ rfl, by first | trivial | rfl | exact hb⟩
        | store x d =>
          simp only [wfProg] at hwt
          dsimp only
          exact ⟨(hI.frame t th { prog := rest, held := th.held, pending := none, tmp := th.tmp } h rfl hp.symm c.ctr c.mtx c.vars).transfer rfl rfl rfl rfl, allWf_set hw t _ (by simpa [wfThr] using hwt) _ rfl, by first | trivial | rfl | exact hb⟩

/-- **Every schedule.** -/
theorem run_safe (s : List Nat) (c : Cfg) (hI : RcInv c) (hw : AllWf c) (hb : c.bad = none) :
    RcInv (run c s) ∧ AllWf (run c s) ∧ (run c s).bad = none := by
  induction s generalizing c with
  | nil => exact ⟨hI.transfer rfl rfl rfl rfl, fun t' th' h' => hw t' th' h', by first | trivial | rfl | exact hb⟩
  | cons t s ih =>
    unfold run
    by_cases he : enabled c t = true
    · simp only [he, if_true]
      obtain ⟨a, b, d⟩ := step_safe c t hI hw hb
      exact ih _ a b d
    · simp only [he]
      exact ih _ hI hw hb
theorem pendCount_zero_of_all_none (thrs : List Thr) (h : ∀ th ∈ thrs, th.pending = none) (o : Nat) :
    pendCount thrs o = 0 := by
  unfold pendCount
  induction thrs with
  | nil => rfl
  | cons a t ih =>
    simp only [List.map_cons, List.sum_cons]
    rw [ih (fun th hth => h th (List.mem_cons_of_mem _ hth)), h a (by simp)]
    simp

theorem heldCount_zero_of_not_mem (thrs : List Thr) (o : Nat) (h : ∀ th ∈ thrs, o ∉ th.held) :
    heldCount thrs o = 0 := by
  unfold heldCount
  induction thrs with
  | nil => rfl
  | cons a t ih =>
    simp only [List.map_cons, List.sum_cons]
    rw [ih (fun th hth => h th (List.mem_cons_of_mem _ hth)), List.count_eq_zero_of_not_mem (h a (by simp))]

/-- the initial configuration built from the threads' handle sets satisfies the invariant -/
theorem mkCfg_inv (nobj : Nat) (thrs : List Thr) (ctr : List Int) (nmtx : Nat) (vars : List Int)
    (hp : ∀ th ∈ thrs, th.pending = none)
    (hin : ∀ th ∈ thrs, ∀ o ∈ th.held, o < nobj)
    (hpos : ∀ o, o < nobj → 0 < heldCount thrs o) :
    RcInv (mkCfg nobj thrs ctr nmtx vars) := by
  have hrc : ∀ o, ((List.range nobj).map fun o => (heldCount thrs o : Int)).getD o 0 = (heldCount thrs o : Int) := by
    intro o
    by_cases ho : o < nobj
    · simp [List.getD_eq_getElem?_getD, ho]
    · have : heldCount thrs o = 0 := heldCount_zero_of_not_mem thrs o (fun th hth hm => ho (hin th hth o hm))
      simp [List.getD_eq_getElem?_getD, ho, this]
  have hal : ∀ o, (List.replicate nobj true).getD o false = decide (o < nobj) := by
    intro o
    by_cases ho : o < nobj
    · simp [List.getD_eq_getElem?_getD, ho]
    · simp [List.getD_eq_getElem?_getD, ho]
  refine ⟨by simp [mkCfg], by simp [mkCfg], fun o => by simp only [mkCfg]; exact hrc o, ?_, ?_, ?_, ?_⟩
  · intro o
    simp only [mkCfg]
    rw [hal, hrc, pendCount_zero_of_all_none thrs hp]
    by_cases ho : o < nobj
    · have := hpos o ho; simp [ho]; omega
    · have : heldCount thrs o = 0 := heldCount_zero_of_not_mem thrs o (fun th hth hm => ho (hin th hth o hm))
      simp [ho, this]
  · intro o; simp only [mkCfg]; rw [pendCount_zero_of_all_none thrs hp]; omega
  · intro o; simp only [mkCfg]; rw [pendCount_zero_of_all_none thrs hp]; intro h; omega
  · intro o ho
    simp only [mkCfg, List.length_map, List.length_range] at ho ⊢
    have h1 := hal o
    simp only [ho, decide_true] at h1
    simp [h1, List.getD_eq_getElem?_getD, ho]

theorem pendCount_zero_of_done (c : Cfg) (h : done c = true) (o : Nat) : pendCount c.thrs o = 0 := by
  apply pendCount_zero_of_all_none
  intro th hth
  unfold done at h
  rw [List.all_eq_true] at h
  have := h th hth
  simp only [Bool.and_eq_true, Option.isNone_iff_eq_none] at this
  exact this.2

/-- **When everything has run to completion**: an object no thread holds any more has been released
    exactly once; an object still held is alive and has never been released. -/
theorem final_state (c : Cfg) (hI : RcInv c) (hd : done c = true) (o : Nat) (ho : o < c.rc.length) :
    (heldCount c.thrs o = 0 → c.alive.getD o false = false ∧ c.frees.getD o 0 = 1) ∧
    (0 < heldCount c.thrs o → c.alive.getD o false = true ∧ c.frees.getD o 0 = 0) := by
  have hp := pendCount_zero_of_done c hd o
  have hrc := hI.rcEq o
  have ha := hI.aliveIff o
  have hf := hI.freesEq o ho
  constructor
  · intro h0
    have : ¬ (c.alive.getD o false = true) := by
      intro hx; rcases ha.mp hx with h | h <;> omega
    simp only [Bool.not_eq_true] at this
    simp only [this, Bool.false_eq_true, if_false] at hf
    exact ⟨this, hf⟩
  · intro hpos
    have : c.alive.getD o false = true := ha.mpr (Or.inl (by omega))
    simp only [this, if_true] at hf
    exact ⟨this, hf⟩
/-! ### atomic counters -/

/-- sum of the increments to counter `k` a program still has to perform -/
def addsOf (k : Nat) : List Step → Int
  | [] => 0
  | Step.add k' d :: rest => (if k' = k then d else 0) + addsOf k rest
  | _ :: rest => addsOf k rest

def remaining (thrs : List Thr) (k : Nat) : Int := (thrs.map fun th => addsOf k th.prog).sum

theorem sum_map_set_int {α} (f : α → Int) (l : List α) (i : Nat) (a b : α) (h : l[i]? = some b) :
    ((l.set i a).map f).sum + f b = (l.map f).sum + f a := by
  induction l generalizing i with
  | nil => simp at h
  | cons x t ih =>
    cases i with
    | zero => simp at h; subst h; simp; omega
    | succ j =>
      simp at h
      have := ih j h
      simp only [List.set_cons_succ, List.map_cons, List.sum_cons]
      omega

theorem remaining_set (thrs : List Thr) (t : Nat) (th th' : Thr) (h : thrs[t]? = some th) (k : Nat) :
    remaining (thrs.set t th') k + addsOf k th.prog = remaining thrs k + addsOf k th'.prog :=
  sum_map_set_int (fun (th : Thr) => addsOf k th.prog) thrs t th' th h

/-- **No update is ever lost**: the counter value plus what remains to be added is the same before and
    after any step of any thread (so after every schedule the counter is `initial + Σ all operations`). -/
theorem ctr_conserved (c : Cfg) (t k : Nat) (hk : k < c.ctr.length) :
    (step c t).ctr.getD k 0 + remaining (step c t).thrs k = c.ctr.getD k 0 + remaining c.thrs k := by
  unfold step
  split
  · rfl
  · cases h : c.thrs[t]? with
    | none => rfl
    | some th =>
      simp only
      cases hp : th.pending with
      | some o =>
        simp only
        split
        · have := remaining_set c.thrs t th { th with pending := none } h k
          simp only at this ⊢; omega
        · rfl
      | none =>
        simp only
        cases hprog : th.prog with
        | nil => rfl
        | cons s rest =>
          have hr : ∀ th' : Thr, th'.prog = rest →
              remaining (c.thrs.set t th') k + addsOf k (s :: rest) = remaining c.thrs k + addsOf k rest := by
            intro th' hth'
            have := remaining_set c.thrs t th th' h k
            rw [hprog, hth'] at this; exact this
          cases s with
          | inc o =>
            dsimp only
            split
            · rfl
            · split
              · rfl
              · have := hr { th with prog := rest, held := o :: th.held } rfl
                simp only [addsOf] at this; simp only [hp] at this ⊢; omega
          | dec o =>
            dsimp only
            split
            · rfl
            · split
              · rfl
              · have := hr ⟨rest, th.held.erase o, (if c.rc.getD o 0 - 1 = 0 then some o else none), th.tmp⟩ rfl
                simp only [addsOf] at this; simp only at this ⊢; omega
          | use o =>
            dsimp only
            split
            · rfl
            · split
              · rfl
              · have := hr { th with prog := rest } rfl
                simp only [addsOf] at this; simp only [hp] at this ⊢; omega
          | add k' d =>
            dsimp only
            have := hr { th with prog := rest } rfl
            simp only [addsOf] at this
            rw [getD_upd]
            simp only [hp] at this ⊢
            by_cases hkk : k' = k
            · subst hkk
              simp only [hk, and_self, if_true] at this ⊢; omega
            · simp only [hkk, false_and, if_false] at this ⊢; omega
          | lock m =>
            dsimp only
            split
            · rfl
            · have := hr { th with prog := rest } rfl
              simp only [addsOf] at this; simp only [hp] at this ⊢; omega
          | unlock m =>
            dsimp only
            have := hr { th with prog := rest } rfl
            simp only [addsOf] at this; simp only [hp] at this ⊢; omega
          | load x =>
            dsimp only
            have := hr { th with prog := rest, tmp := c.vars.getD x 0 } rfl
            simp only [addsOf] at this; simp only [hp] at this ⊢; omega
          | store x d =>
            dsimp only
            have := hr { th with prog := rest } rfl
            simp only [addsOf] at this; simp only [hp] at this ⊢; omega
theorem step_ctr_length (c : Cfg) (t : Nat) : (step c t).ctr.length = c.ctr.length := by
  unfold step
  split
  · rfl
  · split
    · rfl
    · split
      · split <;> rfl
      · split
        · rfl
        · split <;> (try split) <;> simp [length_upd]
        · split <;> (try split) <;> simp [length_upd]
        · split <;> (try split) <;> rfl
        · simp [length_upd]
        · split <;> rfl
        · rfl
        · rfl
        · rfl

theorem step_alive_length (c : Cfg) (t : Nat) : (step c t).alive.length = c.alive.length := by
  unfold step
  split
  · rfl
  · split
    · rfl
    · split
      · split <;> simp
      · split
        · rfl
        · split <;> (try split) <;> rfl
        · split <;> (try split) <;> rfl
        · split <;> (try split) <;> rfl
        · rfl
        · split <;> rfl
        · rfl
        · rfl
        · rfl

theorem run_alive_length (s : List Nat) (c : Cfg) : (run c s).alive.length = c.alive.length := by
  induction s generalizing c with
  | nil => rfl
  | cons t s ih =>
    unfold run
    by_cases he : enabled c t = true
    · simp only [he, if_true]; rw [ih, step_alive_length]
    · simp only [he]; exact ih c

theorem ctr_run (s : List Nat) (c : Cfg) (k : Nat) (hk : k < c.ctr.length) :
    (run c s).ctr.getD k 0 + remaining (run c s).thrs k = c.ctr.getD k 0 + remaining c.thrs k := by
  induction s generalizing c with
  | nil => rfl
  | cons t s ih =>
    unfold run
    by_cases he : enabled c t = true
    · simp only [he, if_true]
      rw [ih (step c t) (by rw [step_ctr_length]; exact hk), ctr_conserved c t k hk]
    · simp only [he]
      exact ih c hk

theorem remaining_zero_of_done (c : Cfg) (h : done c = true) (k : Nat) : remaining c.thrs k = 0 := by
  unfold done at h
  rw [List.all_eq_true] at h
  unfold remaining
  have : ∀ l : List Thr, (∀ th ∈ l, th.prog = []) → (l.map fun th => addsOf k th.prog).sum = 0 := by
    intro l hl
    induction l with
    | nil => rfl
    | cons a t ih =>
      simp only [List.map_cons, List.sum_cons]
      rw [ih (fun th hth => hl th (List.mem_cons_of_mem _ hth)), hl a (by simp)]
      simp [addsOf]
  apply this
  intro th hth
  have := h th hth
  simp only [Bool.and_eq_true, List.isEmpty_iff] at this
  exact this.1
end AslProofs.Rc
