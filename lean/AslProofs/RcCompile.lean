import AslModel.Rc
import AslModel.RcCompile
open AslModel.Rc Gen.Shapes AslModel.RcCompile

namespace AslProofs.RcCompile

/-- thread-local simulation of the handles a thread owns -/
def simHeld : List Nat → List Step → List Nat
  | h, [] => h
  | h, Step.inc o :: rest => simHeld (o :: h) rest
  | h, Step.dec o :: rest => simHeld (h.erase o) rest
  | h, _ :: rest => simHeld h rest

theorem wfProg_perm (p : List Step) : ∀ (H H' : List Nat), H.Perm H' → wfProg H p = wfProg H' p ∧ (simHeld H p).Perm (simHeld H' p) := by
  induction p with
  | nil => intro H H' h; exact ⟨rfl, h⟩
  | cons s r ih =>
    intro H H' h
    cases s with
    | inc o =>
      simp only [wfProg, simHeld]
      have hc : H.contains o = H'.contains o := by
        simp only [List.contains_eq_mem]; exact decide_eq_decide.mpr (h.mem_iff)
      obtain ⟨a, b⟩ := ih (o :: H) (o :: H') (h.cons o)
      exact ⟨by rw [hc, a], b⟩
    | dec o =>
      simp only [wfProg, simHeld]
      have hc : H.contains o = H'.contains o := by
        simp only [List.contains_eq_mem]; exact decide_eq_decide.mpr (h.mem_iff)
      obtain ⟨a, b⟩ := ih (H.erase o) (H'.erase o) (h.erase o)
      exact ⟨by rw [hc, a], b⟩
    | use o =>
      simp only [wfProg, simHeld]
      have hc : H.contains o = H'.contains o := by
        simp only [List.contains_eq_mem]; exact decide_eq_decide.mpr (h.mem_iff)
      obtain ⟨a, b⟩ := ih H H' h
      exact ⟨by rw [hc, a], b⟩
    | add c d => simpa [wfProg, simHeld] using ih H H' h
    | lock m => simpa [wfProg, simHeld] using ih H H' h
    | unlock m => simpa [wfProg, simHeld] using ih H H' h
    | load v => simpa [wfProg, simHeld] using ih H H' h
    | store v d => simpa [wfProg, simHeld] using ih H H' h

theorem wfProg_frame (p : List Step) : ∀ (H F : List Nat), wfProg H p = true →
    wfProg (H ++ F) p = true ∧ simHeld (H ++ F) p = simHeld H p ++ F := by
  induction p with
  | nil => intro H F _; exact ⟨rfl, rfl⟩
  | cons s r ih =>
    intro H F h
    cases s with
    | inc o =>
      simp only [wfProg, simHeld, Bool.and_eq_true] at h ⊢
      obtain ⟨a, b⟩ := ih (o :: H) F h.2
      refine ⟨⟨?_, a⟩, b⟩
      simp only [List.contains_eq_mem, decide_eq_true_eq, List.mem_append] at h ⊢
      exact Or.inl h.1
    | dec o =>
      simp only [wfProg, simHeld, Bool.and_eq_true] at h ⊢
      have hm : o ∈ H := by simpa using h.1
      obtain ⟨a, b⟩ := ih (H.erase o) F h.2
      rw [List.erase_append_left _ hm]
      refine ⟨⟨?_, a⟩, b⟩
      simp only [List.contains_eq_mem, decide_eq_true_eq, List.mem_append]
      exact Or.inl hm
    | use o =>
      simp only [wfProg, simHeld, Bool.and_eq_true] at h ⊢
      obtain ⟨a, b⟩ := ih H F h.2
      refine ⟨⟨?_, a⟩, b⟩
      simp only [List.contains_eq_mem, decide_eq_true_eq, List.mem_append] at h ⊢
      exact Or.inl h.1
    | add c d => simpa [wfProg, simHeld] using ih H F (by simpa [wfProg] using h)
    | lock m => simpa [wfProg, simHeld] using ih H F (by simpa [wfProg] using h)
    | unlock m => simpa [wfProg, simHeld] using ih H F (by simpa [wfProg] using h)
    | load v => simpa [wfProg, simHeld] using ih H F (by simpa [wfProg] using h)
    | store v d => simpa [wfProg, simHeld] using ih H F (by simpa [wfProg] using h)

theorem wfProg_append (p q : List Step) : ∀ H, wfProg H (p ++ q) = (wfProg H p && wfProg (simHeld H p) q) := by
  induction p with
  | nil => intro H; simp [wfProg, simHeld]
  | cons s r ih =>
    intro H
    cases s <;> simp [wfProg, simHeld, ih, Bool.and_assoc]

/-- an operation shape, instantiated, run by a thread that holds `pre ++ F`: valid, and leaves `post ++ F` -/
theorem shape_step (steps : List Step) (pre post : List Nat) (hw : wfProg pre steps = true)
    (hp : (simHeld pre steps).isPerm post = true) (H F : List Nat) (hH : H.Perm (pre ++ F)) :
    wfProg H steps = true ∧ (simHeld H steps).Perm (post ++ F) := by
  obtain ⟨a, b⟩ := wfProg_perm steps H (pre ++ F) hH
  obtain ⟨c, d⟩ := wfProg_frame steps pre F hw
  refine ⟨by rw [a, c], b.trans ?_⟩
  rw [d]
  exact (List.isPerm_iff.mp hp).append_right F

end AslProofs.RcCompile
