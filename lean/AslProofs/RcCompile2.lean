import AslModel.Rc
import AslModel.RcCompile
import AslProofs.RcCompile
open AslModel.Rc Gen.Shapes AslModel.RcCompile

namespace AslProofs.RcCompile

theorem evSteps_congr (k : Kind) (f g : Nat → Nat) (h : ∀ r, f r = g r) (evs : List Ev) : evSteps k f evs = evSteps k g evs := by
  have : f = g := funext h
  rw [this]

/-- the recorded shapes of handle type `k`, instantiated on the logical objects 0 and 1 in every way the
    compiler uses them, keep the thread-local ownership discipline and have the net effect of the operation -/
def checkShapes (k : Kind) : Bool :=
  [0, 1].all fun a =>
    let Ha := objHandles k a
    let b := 1 - a
    let Hb := objHandles k b
    let cp := evSteps k (fun _ => a) k.copy
    let dr := evSteps k (fun _ => a) k.dropNotLast
    let sf := evSteps k (fun r => if r == 0 then a else a) k.assignSelf
    let sm := evSteps k (fun r => if r == 0 then a else a) k.assignSameObj
    let df := evSteps k (fun r => if r == 0 then a else b) k.assignDiff
    wfProg Ha cp && (simHeld Ha cp).isPerm (Ha ++ Ha) &&
    wfProg Ha dr && (simHeld Ha dr).isPerm [] &&
    wfProg Ha sf && (simHeld Ha sf).isPerm Ha &&
    wfProg (Ha ++ Ha) sm && (simHeld (Ha ++ Ha) sm).isPerm (Ha ++ Ha) &&
    wfProg (Ha ++ Hb) df && (simHeld (Ha ++ Hb) df).isPerm (Hb ++ Hb)

theorem getElem_cons_eraseIdx_perm : ∀ (l : List Nat) (i : Nat) (h : i < l.length), l.Perm (l[i] :: l.eraseIdx i)
  | a :: l, 0, _ => by simp
  | a :: l, i + 1, h => by
    simp only [List.getElem_cons_succ, List.eraseIdx_cons_succ]
    have := getElem_cons_eraseIdx_perm l i (by simpa using h)
    exact (this.cons a).trans (List.Perm.swap _ _ _)

theorem set_perm_eraseIdx : ∀ (l : List Nat) (i x : Nat) (h : i < l.length), (l.set i x).Perm (x :: l.eraseIdx i)
  | a :: l, 0, x, _ => by simp
  | a :: l, i + 1, x, h => by
    simp only [List.set_cons_succ, List.eraseIdx_cons_succ]
    have := set_perm_eraseIdx l i x (by simpa using h)
    exact (this.cons a).trans (List.Perm.swap _ _ _)

theorem getElem_mem_eraseIdx : ∀ (l : List Nat) (i j : Nat) (hi : i < l.length) (hj : j < l.length), i ≠ j → l[j] ∈ l.eraseIdx i
  | a :: l, 0, j + 1, _, hj, _ => by simp
  | a :: l, i + 1, 0, _, _, _ => by simp
  | a :: l, i + 1, j + 1, hi, hj, hne => by
    simp only [List.getElem_cons_succ, List.eraseIdx_cons_succ]
    exact List.mem_cons_of_mem _ (getElem_mem_eraseIdx l i j (by simpa using hi) (by simpa using hj) (by omega))

theorem heldOf_perm (k : Kind) {a b : List Nat} (h : a.Perm b) : (heldOf k a).Perm (heldOf k b) :=
  List.Perm.flatMap_right _ h

theorem heldOf_cons (k : Kind) (o : Nat) (l : List Nat) : heldOf k (o :: l) = objHandles k o ++ heldOf k l := by
  simp [heldOf]

theorem lt_two (o : Nat) (h : o < 2) : o = 0 ∨ o = 1 := by omega

section
variable (k : Kind) (hk : checkShapes k = true)
include hk

theorem shapes_at (a : Nat) (ha : a < 2) :
    let Ha := objHandles k a
    let b := 1 - a
    let Hb := objHandles k b
    let cp := evSteps k (fun _ => a) k.copy
    let dr := evSteps k (fun _ => a) k.dropNotLast
    let sf := evSteps k (fun r => if r == 0 then a else a) k.assignSelf
    let sm := evSteps k (fun r => if r == 0 then a else a) k.assignSameObj
    let df := evSteps k (fun r => if r == 0 then a else b) k.assignDiff
    (wfProg Ha cp = true ∧ (simHeld Ha cp).isPerm (Ha ++ Ha) = true) ∧
    (wfProg Ha dr = true ∧ (simHeld Ha dr).isPerm [] = true) ∧
    (wfProg Ha sf = true ∧ (simHeld Ha sf).isPerm Ha = true) ∧
    (wfProg (Ha ++ Ha) sm = true ∧ (simHeld (Ha ++ Ha) sm).isPerm (Ha ++ Ha) = true) ∧
    (wfProg (Ha ++ Hb) df = true ∧ (simHeld (Ha ++ Hb) df).isPerm (Hb ++ Hb) = true) := by
  unfold checkShapes at hk
  simp only [List.all_cons, List.all_nil, Bool.and_true, Bool.and_eq_true] at hk
  rcases lt_two a ha with rfl | rfl
  · have := hk.1

    obtain ⟨⟨⟨⟨⟨⟨⟨⟨⟨h1, h2⟩, h3⟩, h4⟩, h5⟩, h6⟩, h7⟩, h8⟩, h9⟩, h10⟩ := this
    exact ⟨⟨h1, h2⟩, ⟨h3, h4⟩, ⟨h5, h6⟩, ⟨h7, h8⟩, ⟨h9, h10⟩⟩
  · have := hk.2

    obtain ⟨⟨⟨⟨⟨⟨⟨⟨⟨h1, h2⟩, h3⟩, h4⟩, h5⟩, h6⟩, h7⟩, h8⟩, h9⟩, h10⟩ := this
    exact ⟨⟨h1, h2⟩, ⟨h3, h4⟩, ⟨h5, h6⟩, ⟨h7, h8⟩, ⟨h9, h10⟩⟩

/-- dropping every handle, last first -/
theorem drops_wf : ∀ (l : List Nat) (H : List Nat), (∀ o ∈ l, o < 2) → H.Perm (heldOf k l) →
    wfProg H (l.flatMap fun o => evSteps k (fun _ => o) k.dropNotLast) = true := by
  intro l
  induction l with
  | nil => intro H _ _; rfl
  | cons o r ih =>
    intro H hlt hH
    simp only [List.flatMap_cons]
    rw [wfProg_append]
    obtain ⟨_, ⟨d1, d2⟩, _⟩ := shapes_at k hk o (hlt o List.mem_cons_self)
    rw [heldOf_cons] at hH
    obtain ⟨a, b⟩ := shape_step _ _ _ d1 d2 H (heldOf k r) hH
    rw [a, Bool.true_and]
    exact ih _ (fun x hx => hlt x (List.mem_cons_of_mem _ hx)) (by simpa using b)

end
end AslProofs.RcCompile
