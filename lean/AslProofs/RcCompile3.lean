import AslModel.Rc
import AslModel.RcCompile
import AslProofs.RcCompile
import AslProofs.RcCompile2
open AslModel.Rc Gen.Shapes AslModel.RcCompile

namespace AslProofs.RcCompile

theorem heldOf_append (k : Kind) (a b : List Nat) : heldOf k (a ++ b) = heldOf k a ++ heldOf k b := by
  simp [heldOf]

theorem getD_mem (l : List Nat) (i : Nat) (h : i < l.length) : l.getD i 0 = l[i] := by
  simp [List.getD_eq_getElem?_getD, h]

theorem uses_wf (l : List Nat) (q : List Step) (H : List Nat) (h : ∀ x ∈ l, x ∈ H) :
    wfProg H (l.map Step.use ++ q) = wfProg H q := by
  induction l with
  | nil => rfl
  | cons a r ih =>
    have ha : H.contains a = true := by simpa using h a List.mem_cons_self
    simp only [List.map_cons, List.cons_append, wfProg, ha, Bool.true_and]
    exact ih (fun x hx => h x (List.mem_cons_of_mem _ hx))

section
variable (k : Kind) (hk : checkShapes k = true)
include hk

theorem compile_wf : ∀ (ops : List String) (hs H : List Nat), (∀ o ∈ hs, o < 2) → H.Perm (heldOf k hs) →
    wfProg H (compileOps k ops hs) = true := by
  intro ops
  induction ops with
  | nil =>
    intro hs H hlt hH
    unfold compileOps
    exact drops_wf k hk hs.reverse H (fun o ho => hlt o (List.mem_reverse.mp ho))
      (hH.trans (heldOf_perm k (List.reverse_perm hs).symm))
  | cons op rest ih =>
    intro hs H hlt hH
    unfold compileOps
    simp only
    by_cases hn : (hs.length == 0) = true
    · simp only [hn, if_true]; exact ih hs H hlt hH
    · simp only [hn]
      have hpos : 0 < hs.length := by
        cases hs with
        | nil => simp at hn
        | cons a l => simp
      simp only [Bool.false_eq_true, if_false]
      split
      · -- copy
        rename_i i _
        have hidx : (i.toNat - '0'.toNat) % hs.length < hs.length := Nat.mod_lt _ hpos
        rw [getD_mem _ _ hidx]
        have hmem : hs[(i.toNat - '0'.toNat) % hs.length] ∈ hs := List.getElem_mem hidx
        generalize hs[(i.toNat - '0'.toNat) % hs.length] = o at hmem ⊢
        rw [wfProg_append]
        obtain ⟨⟨c1, c2⟩, _⟩ := shapes_at k hk o (hlt o hmem)
        have hp : hs.Perm (o :: hs.erase o) := List.perm_cons_erase hmem
        have hH' : H.Perm (objHandles k o ++ heldOf k (hs.erase o)) := by
          rw [← heldOf_cons]; exact hH.trans (heldOf_perm k hp)
        obtain ⟨a, b⟩ := shape_step _ _ _ c1 c2 H _ hH'
        rw [a, Bool.true_and]
        refine ih _ _ ?_ ?_
        · intro x hx
          rcases List.mem_append.mp hx with hx | hx
          · exact hlt x hx
          · simp at hx; subst hx; exact hlt _ hmem
        · refine b.trans ?_
          rw [heldOf_append, List.append_assoc]
          have : heldOf k [o] = objHandles k o := by simp [heldOf]
          rw [this]
          have h1 : (objHandles k o ++ heldOf k (hs.erase o)).Perm (heldOf k hs) := by
            rw [← heldOf_cons]; exact (heldOf_perm k hp).symm
          exact (List.perm_append_comm.trans (h1.append_right _))
      · -- read the payload through a handle
        rename_i i _
        have hidx : (i.toNat - '0'.toNat) % hs.length < hs.length := Nat.mod_lt _ hpos
        rw [getD_mem _ _ hidx]
        have hmem : hs[(i.toNat - '0'.toNat) % hs.length] ∈ hs := List.getElem_mem hidx
        generalize hs[(i.toNat - '0'.toNat) % hs.length] = o at hmem ⊢
        rw [uses_wf]
        · exact ih hs H hlt hH
        · intro x hx
          refine hH.symm.subset ?_
          unfold heldOf
          exact List.mem_flatMap.mpr ⟨o, hmem, hx⟩
      · -- drop the last handle
        have hidx : hs.length - 1 < hs.length := by omega
        rw [getD_mem _ _ hidx]
        have hsplit : hs = hs.dropLast ++ [hs[hs.length - 1]] := by
          have := List.dropLast_concat_getLast (l := hs) (by intro e; rw [e] at hpos; simp at hpos)
          rw [List.getLast_eq_getElem] at this
          exact this.symm
        generalize hs[hs.length - 1] = o at hsplit ⊢
        rw [wfProg_append]
        have hmem : o ∈ hs := by rw [hsplit]; simp
        obtain ⟨_, ⟨d1, d2⟩, _⟩ := shapes_at k hk o (hlt o hmem)
        have hH' : H.Perm (objHandles k o ++ heldOf k hs.dropLast) := by
          refine hH.trans ?_
          conv => lhs; rw [hsplit]
          rw [heldOf_append]
          have : heldOf k [o] = objHandles k o := by simp [heldOf]
          rw [this]
          exact List.perm_append_comm
        obtain ⟨a, b⟩ := shape_step _ _ _ d1 d2 H _ hH'
        rw [a, Bool.true_and]
        exact ih _ _ (fun x hx => hlt x (List.dropLast_subset hs hx)) (by simpa using b)
      · -- assignment
        rename_i i j _
        have hi : (i.toNat - '0'.toNat) % hs.length < hs.length := Nat.mod_lt _ hpos
        have hj : (j.toNat - '0'.toNat) % hs.length < hs.length := Nat.mod_lt _ hpos
        rw [getD_mem _ _ hi, getD_mem _ _ hj]
        generalize (i.toNat - '0'.toNat) % hs.length = i' at hi ⊢
        generalize (j.toNat - '0'.toNat) % hs.length = j' at hj ⊢
        rw [wfProg_append]
        have hmi : hs[i'] ∈ hs := List.getElem_mem hi
        have hmj : hs[j'] ∈ hs := List.getElem_mem hj
        have hset_lt : ∀ x ∈ hs.set i' hs[j'], x < 2 := by
          intro x hx
          rcases List.mem_or_eq_of_mem_set hx with h | h
          · exact hlt x h
          · rw [h]; exact hlt _ hmj
        have hp1 := getElem_cons_eraseIdx_perm hs i' hi
        have hp2 := set_perm_eraseIdx hs i' hs[j'] hi
        by_cases hij : i' = j'
        · -- self assignment
          subst hij
          simp only [beq_self_eq_true, if_true]
          obtain ⟨_, _, ⟨s1, s2⟩, _⟩ := shapes_at k hk hs[i'] (hlt _ hmi)
          have hH' : H.Perm (objHandles k hs[i'] ++ heldOf k (hs.eraseIdx i')) := by
            rw [← heldOf_cons]; exact hH.trans (heldOf_perm k hp1)
          have hsteps : evSteps k (fun r => if (r == 0) = true then hs[i'] else hs[i']) k.assignSelf =
              evSteps k (fun r => if r == 0 then hs[i'] else hs[i']) k.assignSelf := rfl
          obtain ⟨a, b⟩ := shape_step _ _ _ s1 s2 H _ hH'
          rw [a, Bool.true_and]
          refine ih _ _ hset_lt (b.trans ?_)
          rw [← heldOf_cons]; exact heldOf_perm k hp2.symm
        · have hne : (i' == j') = false := by simpa using hij
          simp only [hne, Bool.false_eq_true, if_false]
          have hjin : hs[j'] ∈ hs.eraseIdx i' := getElem_mem_eraseIdx hs i' j' hi hj hij
          have hp3 : (hs.eraseIdx i').Perm (hs[j'] :: (hs.eraseIdx i').erase hs[j']) := List.perm_cons_erase hjin
          generalize hR : (hs.eraseIdx i').erase hs[j'] = R at hp3
          have hHall : H.Perm (objHandles k hs[i'] ++ objHandles k hs[j'] ++ heldOf k R) := by
            refine hH.trans ((heldOf_perm k (hp1.trans (hp3.cons _))).trans ?_)
            rw [heldOf_cons, heldOf_cons, List.append_assoc]
          have hres : (objHandles k hs[j'] ++ objHandles k hs[j'] ++ heldOf k R).Perm (heldOf k (hs.set i' hs[j'])) := by
            refine List.Perm.trans ?_ (heldOf_perm k (hp2.trans (hp3.cons _))).symm
            rw [heldOf_cons, heldOf_cons, List.append_assoc]
          by_cases hobj : hs[i'] = hs[j']
          · -- two handles to the same object
            have hb : (hs[i'] == hs[j']) = true := by simpa using hobj
            simp only [hb, if_true]
            obtain ⟨_, _, _, ⟨m1, m2⟩, _⟩ := shapes_at k hk hs[j'] (hlt _ hmj)
            rw [hobj] at hHall ⊢
            obtain ⟨a, b⟩ := shape_step _ _ _ m1 m2 H _ hHall
            rw [a, Bool.true_and]
            exact ih _ _ hset_lt (b.trans hres)
          · have hb : (hs[i'] == hs[j']) = false := by simpa using hobj
            simp only [hb, Bool.false_eq_true, if_false]
            obtain ⟨_, _, _, _, ⟨f1, f2⟩⟩ := shapes_at k hk hs[i'] (hlt _ hmi)
            have hother : 1 - hs[i'] = hs[j'] := by
              have a1 := hlt _ hmi; have a2 := hlt _ hmj; omega
            rw [hother] at f1 f2
            obtain ⟨a, b⟩ := shape_step _ _ _ f1 f2 H _ hHall
            rw [a, Bool.true_and]
            exact ih _ _ hset_lt (b.trans hres)
      · exact ih hs H hlt hH
end
end AslProofs.RcCompile
