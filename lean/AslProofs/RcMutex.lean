import AslModel.Rc
import AslProofs.Rc
/-! `Atomic<T>`: mutex-protected read-modify-write never loses an update (C12). Core Lean only. -/
open AslModel.Rc
namespace AslProofs.Rc

/-- the steps of `Atomic<T>::operator+=(d)`: `Lock _(mutex); x = x + d;` on variable 0 / mutex 0 -/
def rmw (d : Int) : List Step := [Step.lock 0, Step.load 0, Step.store 0 d, Step.unlock 0]

/-- a whole number of `rmw` blocks; returns the sum of their deltas -/
def idleSum : List Step → Option Int
  | [] => some 0
  | Step.lock 0 :: Step.load 0 :: Step.store 0 d :: Step.unlock 0 :: rest => (idleSum rest).map (d + ·)
  | _ => none

/-- (holds the mutex?, has loaded?, sum of deltas not yet stored) for a program that is a suffix of rmw blocks -/
def pendOf : List Step → Option (Bool × Bool × Int)
  | Step.load 0 :: Step.store 0 d :: Step.unlock 0 :: rest => (idleSum rest).map fun p => (true, false, d + p)
  | Step.store 0 d :: Step.unlock 0 :: rest => (idleSum rest).map fun p => (true, true, d + p)
  | Step.unlock 0 :: rest => (idleSum rest).map fun p => (true, false, p)
  | prog => (idleSum prog).map fun p => (false, false, p)

def holdN (th : Thr) : Nat := match pendOf th.prog with
  | some (true, _, _) => 1
  | _ => 0
def pendI (th : Thr) : Int := match pendOf th.prog with
  | some (_, _, p) => p
  | none => 0

structure MInv (c : Cfg) (K : Int) : Prop where
  bad : c.bad = none
  shape : ∀ th ∈ c.thrs, th.pending = none ∧ ∃ h l p, pendOf th.prog = some (h, l, p) ∧ (l = true → th.tmp = c.vars.getD 0 0)
  mlen : 0 < c.mtx.length
  vlen : 0 < c.vars.length
  holds : (c.thrs.map holdN).sum = (if c.mtx.getD 0 false then 1 else 0)
  total : c.vars.getD 0 0 + (c.thrs.map pendI).sum = K

theorem idleSum_rmw (d : Int) (rest : List Step) : idleSum (rmw d ++ rest) = (idleSum rest).map (d + ·) := by
  simp [rmw, idleSum]

theorem idleSum_blocks (ds : List Int) : idleSum (ds.flatMap rmw) = some ds.sum := by
  induction ds with
  | nil => simp [idleSum]
  | cons d t ih => simp only [List.flatMap_cons, idleSum_rmw, ih, List.sum_cons]; rfl


theorem sum_zero_all (l : List Nat) (h : l.sum = 0) : ∀ x ∈ l, x = 0 := by
  induction l with
  | nil => intro x hx; cases hx
  | cons a t ih =>
    simp only [List.sum_cons] at h
    intro x hx
    simp only [List.mem_cons] at hx
    rcases hx with rfl | hx
    · omega
    · exact ih (by omega) x hx

/-- the holder is unique -/
theorem others_hold_zero (thrs : List Thr) (t : Nat) (th : Thr) (h : thrs[t]? = some th) (h1 : holdN th = 1)
    (hs : (thrs.map holdN).sum = 1) (j : Nat) (th' : Thr) (hj : thrs[j]? = some th') (hne : j ≠ t) : holdN th' = 0 := by
  have hz := sum_map_set holdN thrs t { th with prog := [] } th h
  have h0 : holdN { th with prog := [] } = 0 := by simp [holdN, pendOf, idleSum]
  rw [h0, h1, hs] at hz
  have hall := sum_zero_all _ (by omega : ((thrs.set t { th with prog := [] }).map holdN).sum = 0)
  apply hall
  rw [List.mem_map]
  refine ⟨th', ?_, rfl⟩
  have : (thrs.set t { th with prog := [] })[j]? = some th' := by
    rw [List.getElem?_set_ne (Ne.symm hne)]; exact hj
  exact List.mem_of_getElem? this

theorem holdN_le_one (th : Thr) : holdN th ≤ 1 := by
  unfold holdN; split <;> omega

theorem not_loaded_of_not_holding (th : Thr) (h l : Bool) (p : Int) (hp : pendOf th.prog = some (h, l, p))
    (h0 : holdN th = 0) : l = false := by
  unfold holdN at h0
  rw [hp] at h0
  cases h with
  | true => simp at h0
  | false =>
    -- a non-holding shape comes from the idle branch, which reports `loaded = false`
    unfold pendOf at hp
    split at hp <;> simp [Option.map] at hp <;> (try (split at hp <;> simp at hp)) <;> simp_all

theorem inv_lock (m : Nat) (rest : List Step) (r : Bool × Bool × Int) (h : pendOf (Step.lock m :: rest) = some r) :
    m = 0 ∧ ∃ d rest' p', rest = Step.load 0 :: Step.store 0 d :: Step.unlock 0 :: rest' ∧ idleSum rest' = some p' ∧ r = (false, false, d + p') := by
  unfold pendOf at h
  simp only [Option.map_eq_some_iff] at h
  obtain ⟨p, hp, rfl⟩ := h
  unfold idleSum at hp
  split at hp
  · rename_i heq; simp at heq
  · rename_i heq
    simp only [List.cons.injEq, Step.lock.injEq] at heq
    obtain ⟨rfl, rfl⟩ := heq
    simp only [Option.map_eq_some_iff] at hp
    obtain ⟨p', hp', rfl⟩ := hp
    exact ⟨rfl, _, _, p', rfl, hp', rfl⟩
  · cases hp

theorem inv_load (x : Nat) (rest : List Step) (r : Bool × Bool × Int) (h : pendOf (Step.load x :: rest) = some r) :
    x = 0 ∧ ∃ d rest' p', rest = Step.store 0 d :: Step.unlock 0 :: rest' ∧ idleSum rest' = some p' ∧ r = (true, false, d + p') := by
  unfold pendOf at h
  split at h
  · rename_i heq
    simp only [List.cons.injEq, Step.load.injEq] at heq
    obtain ⟨rfl, rfl⟩ := heq
    simp only [Option.map_eq_some_iff] at h
    obtain ⟨p', hp', rfl⟩ := h
    exact ⟨rfl, _, _, p', rfl, hp', rfl⟩
  · rename_i heq; simp at heq
  · rename_i heq; simp at heq
  · simp [idleSum] at h

theorem inv_store (x : Nat) (d : Int) (rest : List Step) (r : Bool × Bool × Int) (h : pendOf (Step.store x d :: rest) = some r) :
    x = 0 ∧ ∃ rest' p', rest = Step.unlock 0 :: rest' ∧ idleSum rest' = some p' ∧ r = (true, true, d + p') := by
  unfold pendOf at h
  split at h
  · rename_i heq; simp at heq
  · rename_i heq
    simp only [List.cons.injEq, Step.store.injEq] at heq
    obtain ⟨⟨rfl, rfl⟩, rfl⟩ := heq
    simp only [Option.map_eq_some_iff] at h
    obtain ⟨p', hp', rfl⟩ := h
    exact ⟨rfl, _, p', rfl, hp', rfl⟩
  · rename_i heq; simp at heq
  · simp [idleSum] at h

theorem inv_unlock (m : Nat) (rest : List Step) (r : Bool × Bool × Int) (h : pendOf (Step.unlock m :: rest) = some r) :
    m = 0 ∧ ∃ p', idleSum rest = some p' ∧ r = (true, false, p') := by
  unfold pendOf at h
  split at h
  · rename_i heq; simp at heq
  · rename_i heq; simp at heq
  · rename_i heq
    simp only [List.cons.injEq, Step.unlock.injEq] at heq
    obtain ⟨rfl, rfl⟩ := heq
    simp only [Option.map_eq_some_iff] at h
    obtain ⟨p', hp', rfl⟩ := h
    exact ⟨rfl, p', hp', rfl⟩
  · simp [idleSum] at h

theorem pendOf_idle (prog : List Step) (p : Int) (h : idleSum prog = some p) : pendOf prog = some (false, false, p) := by
  unfold pendOf
  split
  · simp [idleSum] at h
  · simp [idleSum] at h
  · simp [idleSum] at h
  · simp [h]

theorem mem_set_cases {α} (l : List α) (t : Nat) (a x : α) (hx : x ∈ l.set t a) : x = a ∨ ∃ j, j ≠ t ∧ l[j]? = some x := by
  rw [List.mem_iff_getElem?] at hx
  obtain ⟨j, hj⟩ := hx
  rw [List.getElem?_set] at hj
  by_cases h : t = j
  · subst h
    by_cases hl : t < l.length
    · simp [hl] at hj; exact Or.inl hj.symm
    · simp [hl] at hj
  · simp [h] at hj; exact Or.inr ⟨j, fun e => h e.symm, hj⟩

theorem mstep (c : Cfg) (K : Int) (t : Nat) (hI : MInv c K) (he : enabled c t = true) : MInv (step c t) K := by
  obtain ⟨hbad, hshape, hml, hvl, hholds, htotal⟩ := hI
  unfold enabled at he
  cases hth : c.thrs[t]? with
  | none => rw [hth] at he; cases he
  | some th =>
    rw [hth] at he
    have hmem : th ∈ c.thrs := List.mem_of_getElem? hth
    obtain ⟨hpend, h, l, p, hpo, hl⟩ := hshape th hmem
    simp only [hpend] at he
    unfold step
    simp only [hbad, Option.isSome_none, Bool.false_eq_true, if_false, hth, hpend]
    -- helper: invariant for the untouched threads
    have others : ∀ (th2 : Thr) (vars' : List Int), (∀ j th', j ≠ t → c.thrs[j]? = some th' → ∀ l' , (∃ h' p', pendOf th'.prog = some (h', l', p')) → l' = true → th'.tmp = vars'.getD 0 0) →
        (th2.pending = none ∧ ∃ h l p, pendOf th2.prog = some (h, l, p) ∧ (l = true → th2.tmp = vars'.getD 0 0)) →
        ∀ x ∈ c.thrs.set t th2, x.pending = none ∧ ∃ h l p, pendOf x.prog = some (h, l, p) ∧ (l = true → x.tmp = vars'.getD 0 0) := by
      intro th2 vars' hoth hnew x hx
      rcases mem_set_cases _ _ _ _ hx with rfl | ⟨j, hj, hget⟩
      · exact hnew
      · obtain ⟨a1, h', l', p', a2, a3⟩ := hshape x (List.mem_of_getElem? hget)
        exact ⟨a1, h', l', p', a2, fun hl' => hoth j x hj hget l' ⟨h', p', a2⟩ hl'⟩
    have sameVars : ∀ j th', j ≠ t → c.thrs[j]? = some th' → ∀ l', (∃ h' p', pendOf th'.prog = some (h', l', p')) → l' = true → th'.tmp = c.vars.getD 0 0 := by
      intro j th' _ hget l' ⟨h', p', hp'⟩ hl'
      obtain ⟨_, h2, l2, p2, b2, b3⟩ := hshape th' (List.mem_of_getElem? hget)
      rw [hp'] at b2; injection b2 with b2; injection b2 with _ b2; injection b2 with b2 _
      exact b3 (by rw [← b2]; exact hl')
    cases hprog : th.prog with
    | nil => rw [hprog] at he; cases he
    | cons s rest =>
      rw [hprog] at hpo
      cases s with
      | inc o => simp [pendOf, idleSum] at hpo
      | dec o => simp [pendOf, idleSum] at hpo
      | use o => simp [pendOf, idleSum] at hpo
      | add k d => simp [pendOf, idleSum] at hpo
      | lock m =>
        obtain ⟨rfl, d, rest', p', rfl, hidle, hr⟩ := inv_lock m rest _ hpo
        rw [hprog] at he
        simp only [Bool.not_eq_true'] at he
        simp only [he, Bool.false_eq_true, if_false]
        have hnewp : pendOf (Step.load 0 :: Step.store 0 d :: Step.unlock 0 :: rest') = some (true, false, d + p') := by
          simp [pendOf, hidle]
        have hh0 : holdN th = 0 := by simp [holdN, hprog, hpo, hr]
        have hpi : pendI th = d + p' := by simp [pendI, hprog, hpo, hr]
        refine ⟨rfl, ?_, by simp; omega, hvl, ?_, ?_⟩
        · exact others _ c.vars sameVars ⟨rfl, true, false, d + p', hnewp, by simp⟩
        · have := sum_map_set holdN c.thrs t (⟨Step.load 0 :: Step.store 0 d :: Step.unlock 0 :: rest', th.held, none, th.tmp⟩ : Thr) th hth
          have hh1 : holdN (⟨Step.load 0 :: Step.store 0 d :: Step.unlock 0 :: rest', th.held, none, th.tmp⟩ : Thr) = 1 := by simp [holdN, hnewp]
          rw [hh0, hh1, hholds, he] at this
          simp only [Bool.false_eq_true, if_false] at this
          have hg : (c.mtx.set 0 true).getD 0 false = true := by
            simp [List.getD_eq_getElem?_getD, List.getElem?_set, hml]
          simp only [hg, if_true]; omega
        · have := sum_map_set_int pendI c.thrs t (⟨Step.load 0 :: Step.store 0 d :: Step.unlock 0 :: rest', th.held, none, th.tmp⟩ : Thr) th hth
          have hp1 : pendI (⟨Step.load 0 :: Step.store 0 d :: Step.unlock 0 :: rest', th.held, none, th.tmp⟩ : Thr) = d + p' := by simp [pendI, hnewp]
          rw [hpi, hp1] at this
          simp only; omega
      | unlock m =>
        obtain ⟨rfl, p', hidle, hr⟩ := inv_unlock m rest _ hpo
        have hnewp : pendOf rest = some (false, false, p') := pendOf_idle rest p' hidle
        have hh1 : holdN th = 1 := by simp [holdN, hprog, hpo, hr]
        have hpi : pendI th = p' := by simp [pendI, hprog, hpo, hr]
        have hm : c.mtx.getD 0 false = true := by
          cases hx : c.mtx.getD 0 false with
          | true => rfl
          | false =>
            rw [hx] at hholds; simp only [Bool.false_eq_true, if_false] at hholds
            have h1 := sum_map_set holdN c.thrs t { th with prog := [] } th hth
            have h00 : holdN { th with prog := [] } = 0 := by simp [holdN, pendOf, idleSum]
            rw [hh1, hholds, h00] at h1; omega
        refine ⟨rfl, ?_, by simp; omega, hvl, ?_, ?_⟩
        · exact others _ c.vars sameVars ⟨rfl, false, false, p', hnewp, by simp⟩
        · have := sum_map_set holdN c.thrs t (⟨rest, th.held, none, th.tmp⟩ : Thr) th hth
          have hh0 : holdN (⟨rest, th.held, none, th.tmp⟩ : Thr) = 0 := by simp [holdN, hnewp]
          rw [hh1, hh0, hholds, hm] at this
          have hg : (c.mtx.set 0 false).getD 0 false = false := by
            simp [List.getD_eq_getElem?_getD, List.getElem?_set, hml]
          simp only [hg]; simp at this ⊢; omega
        · have := sum_map_set_int pendI c.thrs t (⟨rest, th.held, none, th.tmp⟩ : Thr) th hth
          have hp1 : pendI (⟨rest, th.held, none, th.tmp⟩ : Thr) = p' := by simp [pendI, hnewp]
          rw [hpi, hp1] at this
          simp only; omega
      | load x =>
        obtain ⟨rfl, d, rest', p', rfl, hidle, hr⟩ := inv_load x rest _ hpo
        have hnewp : pendOf (Step.store 0 d :: Step.unlock 0 :: rest') = some (true, true, d + p') := by
          simp [pendOf, hidle]
        have hh1 : holdN th = 1 := by simp [holdN, hprog, hpo, hr]
        have hpi : pendI th = d + p' := by simp [pendI, hprog, hpo, hr]
        refine ⟨rfl, ?_, hml, hvl, ?_, ?_⟩
        · exact others _ c.vars sameVars ⟨rfl, true, true, d + p', hnewp, fun _ => rfl⟩
        · have := sum_map_set holdN c.thrs t (⟨Step.store 0 d :: Step.unlock 0 :: rest', th.held, none, c.vars.getD 0 0⟩ : Thr) th hth
          have hh1' : holdN (⟨Step.store 0 d :: Step.unlock 0 :: rest', th.held, none, c.vars.getD 0 0⟩ : Thr) = 1 := by simp [holdN, hnewp]
          rw [hh1, hh1'] at this
          simp only; omega
        · have := sum_map_set_int pendI c.thrs t (⟨Step.store 0 d :: Step.unlock 0 :: rest', th.held, none, c.vars.getD 0 0⟩ : Thr) th hth
          have hp1 : pendI (⟨Step.store 0 d :: Step.unlock 0 :: rest', th.held, none, c.vars.getD 0 0⟩ : Thr) = d + p' := by simp [pendI, hnewp]
          rw [hpi, hp1] at this
          simp only; omega
      | store x d =>
        obtain ⟨rfl, rest', p', rfl, hidle, hr⟩ := inv_store x d rest _ hpo
        have hnewp : pendOf (Step.unlock 0 :: rest') = some (true, false, p') := by
          simp [pendOf, hidle]
        have hh1 : holdN th = 1 := by simp [holdN, hprog, hpo, hr]
        have hpi : pendI th = d + p' := by simp [pendI, hprog, hpo, hr]
        have hlt : th.tmp = c.vars.getD 0 0 := hl (by
          simp only [Prod.mk.injEq] at hr; exact hr.2.1)
        have hm : c.mtx.getD 0 false = true := by
          cases hx : c.mtx.getD 0 false with
          | true => rfl
          | false =>
            rw [hx] at hholds; simp only [Bool.false_eq_true, if_false] at hholds
            have h1 := sum_map_set holdN c.thrs t { th with prog := [] } th hth
            have h00 : holdN { th with prog := [] } = 0 := by simp [holdN, pendOf, idleSum]
            rw [hh1, hholds, h00] at h1; omega
        have hsum1 : (c.thrs.map holdN).sum = 1 := by rw [hholds, hm]; rfl
        have hg : (c.vars.set 0 (th.tmp + d)).getD 0 0 = th.tmp + d := by
          simp [List.getD_eq_getElem?_getD, List.getElem?_set, hvl]
        refine ⟨rfl, ?_, hml, by simp; omega, ?_, ?_⟩
        · apply others _ (c.vars.set 0 (th.tmp + d)) _ ⟨rfl, true, false, p', hnewp, by simp⟩
          intro j th' hj hget l' ⟨h', q', hq'⟩ hl'
          have h0 := others_hold_zero c.thrs t th hth hh1 hsum1 j th' hget hj
          have := not_loaded_of_not_holding th' h' l' q' hq' h0
          rw [this] at hl'; cases hl'
        · have := sum_map_set holdN c.thrs t (⟨Step.unlock 0 :: rest', th.held, none, th.tmp⟩ : Thr) th hth
          have hh1' : holdN (⟨Step.unlock 0 :: rest', th.held, none, th.tmp⟩ : Thr) = 1 := by simp [holdN, hnewp]
          rw [hh1, hh1'] at this
          simp only; omega
        · have := sum_map_set_int pendI c.thrs t (⟨Step.unlock 0 :: rest', th.held, none, th.tmp⟩ : Thr) th hth
          have hp1 : pendI (⟨Step.unlock 0 :: rest', th.held, none, th.tmp⟩ : Thr) = p' := by simp [pendI, hnewp]
          rw [hpi, hp1] at this
          have hg' : (c.vars.set 0 (th.tmp + d)).getD 0 0 = c.vars.getD 0 0 + d := by rw [hg, hlt]
          simp only [hg']; omega

theorem mrun (s : List Nat) (c : Cfg) (K : Int) (hI : MInv c K) : MInv (run c s) K := by
  induction s generalizing c with
  | nil => exact hI
  | cons t s ih =>
    unfold run
    by_cases he : enabled c t = true
    · simp only [he, if_true]; exact ih _ (mstep c K t hI he)
    · simp only [he]; exact ih c hI

def atomicThrs (progs : List (List Int)) : List Thr :=
  progs.map fun ds => ({ prog := ds.flatMap rmw, held := [], pending := none, tmp := 0 } : Thr)

def atomicCfg (progs : List (List Int)) (x0 : Int) : Cfg :=
  { rc := [], alive := [], frees := [], ctr := [], mtx := [false], vars := [x0], thrs := atomicThrs progs, bad := none }

theorem atomic_init (progs : List (List Int)) (x0 : Int) :
    MInv (atomicCfg progs x0) (x0 + (progs.map List.sum).sum) := by
  have hp : ∀ ds : List Int, pendOf (ds.flatMap rmw) = some (false, false, ds.sum) :=
    fun ds => pendOf_idle _ _ (idleSum_blocks ds)
  refine ⟨rfl, ?_, by simp [atomicCfg], by simp [atomicCfg], ?_, ?_⟩
  · intro th hth
    simp only [atomicCfg, atomicThrs, List.mem_map] at hth
    obtain ⟨ds, _, rfl⟩ := hth
    exact ⟨rfl, false, false, ds.sum, hp ds, by simp⟩
  · simp only [atomicCfg, atomicThrs, List.map_map]
    have : ∀ l : List (List Int), (l.map (holdN ∘ fun ds => ({ prog := ds.flatMap rmw, held := [], pending := none, tmp := 0 } : Thr))).sum = 0 := by
      intro l
      induction l with
      | nil => rfl
      | cons a t ih => simp only [List.map_cons, List.sum_cons, ih, Function.comp]; simp [holdN, hp a]
    rw [this]; simp
  · simp only [atomicCfg, atomicThrs, List.map_map]
    have : ∀ l : List (List Int), (l.map (pendI ∘ fun ds => ({ prog := ds.flatMap rmw, held := [], pending := none, tmp := 0 } : Thr))).sum = (l.map List.sum).sum := by
      intro l
      induction l with
      | nil => rfl
      | cons a t ih => simp only [List.map_cons, List.sum_cons, ih, Function.comp]; simp [pendI, hp a]
    rw [this]; simp

theorem pendI_zero_of_done (c : Cfg) (hd : done c = true) : (c.thrs.map pendI).sum = 0 := by
  unfold done at hd
  rw [List.all_eq_true] at hd
  have : ∀ l : List Thr, (∀ th ∈ l, th.prog = []) → (l.map pendI).sum = 0 := by
    intro l hl
    induction l with
    | nil => rfl
    | cons a t ih =>
      simp only [List.map_cons, List.sum_cons]
      rw [ih (fun th hth => hl th (List.mem_cons_of_mem _ hth))]
      have := hl a (by simp)
      simp [pendI, this, pendOf, idleSum]
  apply this
  intro th hth
  have := hd th hth
  simp only [Bool.and_eq_true, List.isEmpty_iff] at this
  exact this.1

/-- **atomic_T_sum**: mutex-protected read-modify-write operators never lose an update -/
theorem atomic_T_sum (progs : List (List Int)) (x0 : Int) (s : List Nat)
    (hd : done (run (atomicCfg progs x0) s) = true) :
    (run (atomicCfg progs x0) s).vars.getD 0 0 = x0 + (progs.map List.sum).sum ∧ (run (atomicCfg progs x0) s).bad = none := by
  have hI := mrun s _ _ (atomic_init progs x0)
  have := hI.total
  rw [pendI_zero_of_done _ hd] at this
  exact ⟨by omega, hI.bad⟩
end AslProofs.Rc
