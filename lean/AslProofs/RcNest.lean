import AslModel.RcNest
import AslProofs.Rc
/-! Invariant proofs for the nested-handle model (C12, `AslModel/RcNest.lean`). Core Lean only. -/
namespace AslProofs.RcNest
open AslModel.RcNest
open AslProofs.Rc (sum_map_set)

/-- handles to `p` stored in `ob` (none when its storage is released) -/
def g (p : Nat) (ob : Obj) : Nat := if ob.alive then ob.inner.count p else 0

/-- number of handles stored in `ob` -/
def gl (ob : Obj) : Nat := if ob.alive then ob.inner.length else 0

theorem handles_eq (h : Heap) (w : List Nat) (o : Nat) :
    handles h w o = h.roots.count o + (h.objs.map (g o)).sum + w.count o := rfl

theorem storedIn_eq (objs : List Obj) : storedIn objs = (objs.map gl).sum := rfl

theorem aliveAt_set (h : Heap) (o : Nat) (ob ob' : Obj) (ho : h.objs[o]? = some ob) (p : Nat) :
    aliveAt { h with objs := h.objs.set o ob' } p = if p = o then ob'.alive else aliveAt h p := by
  unfold aliveAt
  simp only [List.getElem?_set]
  have hl : o < h.objs.length := by
    by_cases hl : o < h.objs.length
    · exact hl
    · simp [List.getElem?_eq_none (Nat.le_of_not_lt hl)] at ho
  by_cases hp : p = o
  · subst hp; simp [hl]
  · have : ¬ o = p := fun e => hp e.symm
    simp [hp, this]

theorem rcAt_set (h : Heap) (o : Nat) (ob ob' : Obj) (ho : h.objs[o]? = some ob) (p : Nat) :
    rcAt { h with objs := h.objs.set o ob' } p = if p = o then ob'.rc else rcAt h p := by
  unfold rcAt
  simp only [List.getElem?_set]
  have hl : o < h.objs.length := by
    by_cases hl : o < h.objs.length
    · exact hl
    · simp [List.getElem?_eq_none (Nat.le_of_not_lt hl)] at ho
  by_cases hp : p = o
  · subst hp; simp [hl]
  · have : ¬ o = p := fun e => hp e.symm
    simp [hp, this]

theorem count_cons' (o p : Nat) (w : List Nat) : (o :: w).count p = w.count p + if o = p then 1 else 0 := by
  rw [List.count_cons]
  by_cases h : o = p <;> simp [h]

theorem count_set (l : List Nat) (i : Nat) (a b p : Nat) (h : l[i]? = some b) :
    (l.set i a).count p + (if b = p then 1 else 0) = l.count p + (if a = p then 1 else 0) := by
  induction l generalizing i with
  | nil => simp at h
  | cons x t ih =>
    cases i with
    | zero =>
      simp at h; subst h
      simp only [List.set_cons_zero, count_cons']
      omega
    | succ j =>
      simp at h
      have := ih j h
      simp only [List.set_cons_succ, count_cons']
      omega

theorem le_sum_of_getElem? {α} (f : α → Nat) (l : List α) (i : Nat) (a : α) (h : l[i]? = some a) :
    f a ≤ (l.map f).sum := by
  induction l generalizing i with
  | nil => simp at h
  | cons x t ih =>
    cases i with
    | zero => simp at h; subst h; simp
    | succ j =>
      simp at h
      have := ih j h
      simp only [List.map_cons, List.sum_cons]
      omega

theorem count_pos_of_getElem? (l : List Nat) (i s : Nat) (h : l[i]? = some s) : 1 ≤ l.count s := by
  have : s ∈ l := List.mem_of_getElem? h
  exact List.count_pos_iff.mpr this

/-- a handle read from live storage is counted by `handles` -/
theorem handles_pos_of_readLoc (h : Heap) (w : List Nat) (l : Loc) (s : Nat) (hr : readLoc h l = some s) :
    1 ≤ handles h w s := by
  rw [handles_eq]
  cases l with
  | root i =>
    have := count_pos_of_getElem? h.roots i s hr
    omega
  | inObj o i =>
    unfold readLoc at hr
    cases ho : h.objs[o]? with
    | none => simp [ho] at hr
    | some ob =>
      simp only [ho] at hr
      by_cases ha : ob.alive = true
      · simp only [ha, if_true] at hr
        have h1 := count_pos_of_getElem? ob.inner i s hr
        have h2 := le_sum_of_getElem? (g s) h.objs o ob ho
        have : g s ob = ob.inner.count s := by simp [g, ha]
        omega
      · simp [ha] at hr

theorem alive_of_handles_pos (h : Heap) (w : List Nat) (hI : Inv h w) (o : Nat) (hp : 1 ≤ handles h w o) :
    ∃ ob, h.objs[o]? = some ob ∧ ob.alive = true ∧ ob.rc = handles h w o := by
  have := hI o
  unfold aliveAt rcAt at this
  cases ho : h.objs[o]? with
  | none => simp [ho] at this; omega
  | some ob =>
    simp only [ho] at this
    by_cases ha : ob.alive = true
    · simp only [ha, if_true] at this
      exact ⟨ob, rfl, ha, this.symm⟩
    · simp [ha] at this; omega

/-- the destructor cascade keeps the invariant, touches no released storage, leaves the program variables
    alone, only ever releases (never revives) storage, and with the fuel of `fuelFor` runs to its end -/
theorem release_spec (f : Nat) (w : List Nat) (h : Heap) (hI : Inv h w) (hb : h.bad = false)
    (hf : w.length + storedIn h.objs + 1 ≤ f) :
    Inv (release f w h).1 [] ∧ (release f w h).1.bad = false ∧ (release f w h).1.roots = h.roots ∧
    (release f w h).2 = [] ∧ (release f w h).1.objs.length = h.objs.length ∧
    (∀ p, aliveAt (release f w h).1 p = true → aliveAt h p = true) := by
  induction f generalizing w h with
  | zero => omega
  | succ f ih =>
    cases w with
    | nil => exact ⟨by simpa [release] using hI, by simpa [release] using hb, by simp [release], by simp [release], by simp [release], fun p hp => by simpa [release] using hp⟩
    | cons o w =>
      have hpos : 1 ≤ handles h (o :: w) o := by
        rw [handles_eq, count_cons']; simp only [if_true]; omega
      obtain ⟨ob, ho, ha, hrc⟩ := alive_of_handles_pos h _ hI o hpos
      have hrc1 : 1 ≤ ob.rc := by omega
      simp only [release, ho]
      have hne : ¬ ((!ob.alive || ob.rc == 0) = true) := by
        simp [ha]; omega
      rw [if_neg hne]
      by_cases h1 : ob.rc = 1
      · -- last handle: release the block and queue the handles it contains
        have hc : (ob.rc == 1) = true := by simp [h1]
        rw [if_pos hc]
        let ob' : Obj := { ob with rc := 0, alive := false }
        have hI' : Inv { h with objs := h.objs.set o ob' } (ob.inner ++ w) := by
          intro p
          have hp := hI p
          rw [handles_eq] at hp ⊢
          rw [aliveAt_set h o ob ob' ho, rcAt_set h o ob ob' ho]
          have hs := sum_map_set (g p) h.objs o ob' ob ho
          have hg' : g p ob' = 0 := by simp [g, ob']
          have hg : g p ob = ob.inner.count p := by simp [g, ha]
          rw [count_cons'] at hp
          simp only [List.count_append]
          by_cases hpo : p = o
          · subst hpo
            simp only [if_true]
            have : handles h (p :: w) p = 1 := by omega
            rw [handles_eq, count_cons'] at this
            simp only [if_true] at this
            have hal : ob'.alive = false := rfl
            simp only [hal, Bool.false_eq_true, if_false]
            omega
          · have hop : ¬ o = p := fun e => hpo e.symm
            simp only [hpo, hop, if_false] at hp ⊢
            omega
        have hst : storedIn (h.objs.set o ob') + ob.inner.length = storedIn h.objs := by
          have hs := sum_map_set gl h.objs o ob' ob ho
          have : gl ob' = 0 := by simp [gl, ob']
          have : gl ob = ob.inner.length := by simp [gl, ha]
          rw [storedIn_eq, storedIn_eq]; omega
        have hf' : (ob.inner ++ w).length + storedIn (h.objs.set o ob') + 1 ≤ f := by
          simp only [List.length_append, List.length_cons] at hf ⊢; omega
        obtain ⟨a, b, c, d, e, m⟩ := ih (ob.inner ++ w) { h with objs := h.objs.set o ob' } hI' hb hf'
        refine ⟨a, b, c, d, by rw [e]; simp, fun p hp => ?_⟩
        have := m p hp
        rw [aliveAt_set h o ob ob' ho] at this
        by_cases hpo : p = o
        · simp [hpo, ob'] at this
        · simpa [hpo] using this
      · have hc : ¬ ((ob.rc == 1) = true) := by simp [h1]
        rw [if_neg hc]
        let ob' : Obj := { ob with rc := ob.rc - 1 }
        have hI' : Inv { h with objs := h.objs.set o ob' } w := by
          intro p
          have hp := hI p
          rw [handles_eq] at hp ⊢
          rw [aliveAt_set h o ob ob' ho, rcAt_set h o ob ob' ho]
          have hs := sum_map_set (g p) h.objs o ob' ob ho
          have hg' : g p ob' = g p ob := by simp [g, ob']
          rw [count_cons'] at hp
          by_cases hpo : p = o
          · subst hpo
            have ha' : aliveAt h p = true := by unfold aliveAt; simp [ho, ha]
            have hr' : rcAt h p = ob.rc := by unfold rcAt; simp [ho]
            have hal : ob'.alive = true := ha
            have hrc' : ob'.rc = ob.rc - 1 := rfl
            simp only [if_true, ha', hr', hal, hrc'] at hp ⊢
            omega
          · have hop : ¬ o = p := fun e => hpo e.symm
            simp only [hpo, hop, if_false] at hp ⊢
            omega
        have hst : storedIn (h.objs.set o ob') = storedIn h.objs := by
          have hs := sum_map_set gl h.objs o ob' ob ho
          have : gl ob' = gl ob := by simp [gl, ob']
          rw [storedIn_eq, storedIn_eq]; omega
        have hf' : w.length + storedIn (h.objs.set o ob') + 1 ≤ f := by
          simp only [List.length_cons] at hf; omega
        obtain ⟨a, b, c, d, e, m⟩ := ih w { h with objs := h.objs.set o ob' } hI' hb hf'
        refine ⟨a, b, c, d, by rw [e]; simp, fun p hp => ?_⟩
        have := m p hp
        rw [aliveAt_set h o ob ob' ho] at this
        by_cases hpo : p = o
        · subst hpo; unfold aliveAt; simp [ho, ha]
        · simpa [hpo] using this


/-! ### acquire, store, then release -/

theorem readLoc_inObj (h : Heap) (o i s : Nat) (hr : readLoc h (Loc.inObj o i) = some s) :
    ∃ ob, h.objs[o]? = some ob ∧ ob.alive = true ∧ ob.inner[i]? = some s := by
  unfold readLoc at hr
  cases ho : h.objs[o]? with
  | none => simp [ho] at hr
  | some ob =>
    simp only [ho] at hr
    by_cases ha : ob.alive = true
    · simp only [ha, if_true] at hr
      exact ⟨ob, rfl, ha, hr⟩
    · simp [ha] at hr

theorem lt_of_getElem?_some {α} (l : List α) (i : Nat) (a : α) (h : l[i]? = some a) : i < l.length := by
  by_cases hl : i < l.length
  · exact hl
  · simp [List.getElem?_eq_none (Nat.le_of_not_lt hl)] at h

/-- `++rc` through a handle read from live storage: no error, one more handle (kept in the work list) -/
theorem incr_spec (h : Heap) (hI : Inv h []) (hb : h.bad = false) (l : Loc) (s : Nat) (hr : readLoc h l = some s) :
    Inv (incr h s) [s] ∧ (incr h s).bad = false ∧ (incr h s).roots = h.roots ∧
    (∀ l', readLoc (incr h s) l' = readLoc h l') := by
  obtain ⟨ob, ho, ha, hrc⟩ := alive_of_handles_pos h [] hI s (handles_pos_of_readLoc h [] l s hr)
  have hincr : incr h s = { h with objs := h.objs.set s ⟨ob.rc + 1, ob.alive, ob.inner⟩ } := by
    simp only [incr, ho, ha, if_true]
  rw [hincr]
  let ob' : Obj := ⟨ob.rc + 1, ob.alive, ob.inner⟩
  refine ⟨?_, hb, rfl, ?_⟩
  · intro p
    have hp := hI p
    rw [handles_eq] at hp ⊢
    rw [aliveAt_set h s ob ob' ho, rcAt_set h s ob ob' ho]
    have hs := sum_map_set (g p) h.objs s ob' ob ho
    have hg' : g p ob' = g p ob := rfl
    rw [count_cons']
    simp only [List.count_nil] at hp ⊢
    show h.roots.count p + (List.map (g p) (h.objs.set s ob')).sum + _ = _
    by_cases hps : p = s
    · subst hps
      have ha' : aliveAt h p = true := by unfold aliveAt; simp [ho, ha]
      have hr' : rcAt h p = ob.rc := by unfold rcAt; simp [ho]
      have hal : ob'.alive = true := ha
      have hrc' : ob'.rc = ob.rc + 1 := rfl
      simp only [if_true, ha', hr', hal, hrc'] at hp ⊢
      omega
    · have hsp : ¬ s = p := fun e => hps e.symm
      simp only [hps, hsp, if_false] at hp ⊢
      omega
  · intro l'
    cases l' with
    | root i => rfl
    | inObj o i =>
      unfold readLoc
      simp only [List.getElem?_set]
      by_cases hos : s = o
      · subst hos
        have hl := lt_of_getElem?_some h.objs s ob ho
        simp only [hl, if_true, ho]
      · simp only [hos, if_false]

/-- storing `s` over the handle `d` at a live place moves one handle from the work list into storage -/
theorem writeLoc_spec (h : Heap) (l : Loc) (s d : Nat) (w : List Nat) (hI : Inv h (s :: w))
    (hr : readLoc h l = some d) : Inv (writeLoc h l s) (d :: w) ∧ (writeLoc h l s).bad = h.bad ∧
      (writeLoc h l s).objs.length = h.objs.length := by
  cases l with
  | root i =>
    refine ⟨?_, rfl, rfl⟩
    intro p
    have hp := hI p
    rw [handles_eq] at hp ⊢
    have hc := count_set h.roots i s d p hr
    rw [count_cons'] at hp ⊢
    have h1 : aliveAt (writeLoc h (Loc.root i) s) p = aliveAt h p := rfl
    have h2 : rcAt (writeLoc h (Loc.root i) s) p = rcAt h p := rfl
    have h3 : (writeLoc h (Loc.root i) s).objs = h.objs := rfl
    have h4 : (writeLoc h (Loc.root i) s).roots = h.roots.set i s := rfl
    rw [h1, h2, h3, h4]
    omega
  | inObj o i =>
    obtain ⟨ob, ho, ha, hi⟩ := readLoc_inObj h o i d hr
    have hw : writeLoc h (Loc.inObj o i) s = { h with objs := h.objs.set o ⟨ob.rc, ob.alive, ob.inner.set i s⟩ } := by
      simp only [writeLoc, ho]
    rw [hw]
    let ob' : Obj := ⟨ob.rc, ob.alive, ob.inner.set i s⟩
    refine ⟨?_, rfl, by simp⟩
    intro p
    have hp := hI p
    rw [handles_eq] at hp ⊢
    rw [aliveAt_set h o ob ob' ho, rcAt_set h o ob ob' ho]
    have hs := sum_map_set (g p) h.objs o ob' ob ho
    have hc := count_set ob.inner i s d p hi
    have hg : g p ob = ob.inner.count p := by simp [g, ha]
    have hg' : g p ob' = (ob.inner.set i s).count p := by
      show (if ob.alive = true then (ob.inner.set i s).count p else 0) = _
      simp [ha]
    rw [count_cons'] at hp ⊢
    have hA : (if p = o then ob'.alive else aliveAt h p) = aliveAt h p := by
      by_cases hpo : p = o
      · rw [hpo, if_pos rfl]; show ob.alive = aliveAt h o; unfold aliveAt; simp [ho]
      · simp [hpo]
    have hR : (if p = o then ob'.rc else rcAt h p) = rcAt h p := by
      by_cases hpo : p = o
      · rw [hpo, if_pos rfl]; show ob.rc = rcAt h o; unfold rcAt; simp [ho]
      · simp [hpo]
    rw [hA, hR]
    show h.roots.count p + (List.map (g p) (h.objs.set o ob')).sum + _ = _
    omega

/-- **the acquire-first assignment is safe**: from any heap that satisfies the invariant, for any two
    handle places in live storage — program variables or handles stored inside live objects, the source
    possibly inside the very object the destination is about to release — `*dst = *src` touches no
    released storage and re-establishes the invariant -/
theorem assign_acquire_first_safe (h : Heap) (dst src : Loc) (hI : Inv h []) (hb : h.bad = false)
    (hd : locLive h dst = true) (hs : locLive h src = true) :
    (assign true h dst src).bad = false ∧ Inv (assign true h dst src) [] := by
  unfold assign
  simp only [hb, Bool.false_eq_true, if_false, if_true]
  by_cases he : dst = src
  · simp only [he, if_true]; exact ⟨hb, hI⟩
  · simp only [he, if_false]
    unfold locLive at hd hs
    cases hrd : readLoc h dst with
    | none => simp [hrd] at hd
    | some d =>
      cases hrs : readLoc h src with
      | none => simp [hrs] at hs
      | some s =>
        simp only []
        obtain ⟨i1, i2, _, i4⟩ := incr_spec h hI hb src s hrs
        simp only [i2, Bool.false_eq_true, if_false]
        have hrd' : readLoc (incr h s) dst = some d := by rw [i4]; exact hrd
        obtain ⟨w1, w2, _⟩ := writeLoc_spec (incr h s) dst s d [] i1 hrd'
        have hb2 : (writeLoc (incr h s) dst s).bad = false := by rw [w2]; exact i2
        obtain ⟨a, b, _, _, _, _⟩ := release_spec (fuelFor (writeLoc (incr h s) dst s) [d]) [d] _ w1 hb2 (by unfold fuelFor; omega)
        exact ⟨b, a⟩

/-- …and a program variable assigned to holds the source's target afterwards, which is alive -/
theorem assign_acquire_first_result (h : Heap) (i : Nat) (src : Loc) (s : Nat) (hI : Inv h []) (hb : h.bad = false)
    (hd : locLive h (Loc.root i) = true) (hs : readLoc h src = some s) (hne : Loc.root i ≠ src) :
    (assign true h (Loc.root i) src).roots = h.roots.set i s ∧ aliveAt (assign true h (Loc.root i) src) s = true := by
  have hsafe := assign_acquire_first_safe h (Loc.root i) src hI hb hd (by unfold locLive; simp [hs])
  have hroots : (assign true h (Loc.root i) src).roots = h.roots.set i s := by
    unfold assign
    simp only [hb, Bool.false_eq_true, if_false, if_true, hne, hs]
    unfold locLive at hd
    cases hrd : readLoc h (Loc.root i) with
    | none => simp [hrd] at hd
    | some d =>
      simp only []
      obtain ⟨i1, i2, i3, i4⟩ := incr_spec h hI hb src s hs
      simp only [i2, Bool.false_eq_true, if_false]
      have hrd' : readLoc (incr h s) (Loc.root i) = some d := by rw [i4]; exact hrd
      obtain ⟨w1, w2, _⟩ := writeLoc_spec (incr h s) (Loc.root i) s d [] i1 hrd'
      have hb2 : (writeLoc (incr h s) (Loc.root i) s).bad = false := by rw [w2]; exact i2
      obtain ⟨_, _, c, _, _, _⟩ := release_spec (fuelFor (writeLoc (incr h s) (Loc.root i) s) [d]) [d] _ w1 hb2 (by unfold fuelFor; omega)
      rw [c]
      show (incr h s).roots.set i s = _
      rw [i3]
  refine ⟨hroots, ?_⟩
  -- `s` is in a program variable, so the invariant says it is alive
  have hlt : i < h.roots.length := by
    unfold locLive readLoc at hd
    by_cases hl : i < h.roots.length
    · exact hl
    · simp [List.getElem?_eq_none (Nat.le_of_not_lt hl)] at hd
  have hmem : s ∈ (assign true h (Loc.root i) src).roots := by
    rw [hroots]; exact List.mem_iff_getElem.mpr ⟨i, by simpa using hlt, by simp⟩
  have hpos : 1 ≤ handles (assign true h (Loc.root i) src) [] s := by
    rw [handles_eq]
    have := List.count_pos_iff.mpr hmem
    omega
  obtain ⟨ob, ho, ha, _⟩ := alive_of_handles_pos _ [] hsafe.2 s hpos
  unfold aliveAt; simp [ho, ha]

/-- a program variable going out of scope -/
theorem dropRoot_safe (h : Heap) (hI : Inv h []) (hb : h.bad = false) :
    (dropRoot h).bad = false ∧ Inv (dropRoot h) [] ∧ (dropRoot h).roots = h.roots.dropLast := by
  unfold dropRoot
  rw [if_neg (by simp [hb])]
  cases hl : h.roots.getLast? with
  | none =>
    have : h.roots = [] := by simpa using hl
    exact ⟨hb, hI, by simp [this]⟩
  | some d =>
    have hne : h.roots ≠ [] := by intro e; simp [e] at hl
    have hd : h.roots.getLast hne = d := by
      have := List.getLast?_eq_some_getLast hne
      rw [hl] at this; exact (Option.some.inj this).symm
    have hsplit : h.roots.dropLast ++ [d] = h.roots := by
      rw [← hd]; exact List.dropLast_concat_getLast hne
    have hI' : Inv { h with roots := h.roots.dropLast } [d] := by
      intro p
      have hp := hI p
      rw [handles_eq] at hp ⊢
      have : h.roots.count p = h.roots.dropLast.count p + [d].count p := by
        rw [← List.count_append, hsplit]
      have h1 : aliveAt { h with roots := h.roots.dropLast } p = aliveAt h p := rfl
      have h2 : rcAt { h with roots := h.roots.dropLast } p = rcAt h p := rfl
      rw [h1, h2]
      simp only [List.count_nil] at hp
      show h.roots.dropLast.count p + (List.map (g p) h.objs).sum + _ = _
      omega
    obtain ⟨a, b, c, _, _, _⟩ := release_spec (fuelFor { h with roots := h.roots.dropLast } [d]) [d] _ hI' hb (by unfold fuelFor; simp)
    exact ⟨b, a, c⟩

/-! ### every heap the harness can build satisfies the invariant -/

theorem map_range_getD {β} (descr : List (List Nat)) (f : List Nat → β) :
    (List.range descr.length).map (fun b => f (descr.getD b [])) = descr.map f := by
  apply List.ext_getElem
  · simp
  · intro i h1 h2
    simp at h1
    simp [List.getD_eq_getElem?_getD, List.getElem?_eq_getElem h1]

theorem count_zero_of_all_lt (l : List Nat) (n o : Nat) (h : l.all (· < n) = true) (ho : n ≤ o) : l.count o = 0 := by
  apply List.count_eq_zero.mpr
  intro hm
  have := List.all_eq_true.mp h o hm
  simp at this; omega

theorem sum_zero_of_all_zero {α} (f : α → Nat) (l : List α) (h : ∀ a ∈ l, f a = 0) : (l.map f).sum = 0 := by
  induction l with
  | nil => rfl
  | cons x t ih =>
    simp only [List.map_cons, List.sum_cons]
    rw [h x (by simp), ih (fun a ha => h a (by simp [ha]))]

theorem build_inv (descr : List (List Nat)) (roots : List Nat) (hw : wfDescr descr roots = true) :
    Inv (build descr roots) [] ∧ (build descr roots).bad = false ∧ (build descr roots).roots = roots := by
  unfold wfDescr at hw
  simp only [Bool.and_eq_true] at hw
  obtain ⟨hr, hd⟩ := hw
  unfold build
  simp only []
  let n := descr.length
  let cnt (o : Nat) : Nat := roots.count o + (descr.map fun inn => inn.count o).sum + 1
  let objs := (List.range n).map fun b => ({ rc := cnt b, alive := true, inner := descr.getD b [] } : Obj)
  let h0 : Heap := { objs := objs, roots := roots, bad := false }
  have hlen : objs.length = n := by simp [objs]
  have hget : ∀ o, o < n → objs[o]? = some { rc := cnt o, alive := true, inner := descr.getD o [] } := by
    intro o ho
    simp [objs, List.getElem?_map, List.getElem?_range ho]
  have hsum : ∀ o, (objs.map (g o)).sum = (descr.map fun inn => inn.count o).sum := by
    intro o
    have : objs.map (g o) = (List.range descr.length).map (fun b => (descr.getD b []).count o) := by
      simp [objs, g, n]
    rw [this, map_range_getD descr (fun inn => inn.count o)]
  have hI : Inv h0 (List.range n) := by
    intro o
    rw [handles_eq]
    show roots.count o + (objs.map (g o)).sum + _ = _
    rw [hsum o]
    by_cases ho : o < n
    · have ha : aliveAt h0 o = true := by unfold aliveAt; simp [h0, hget o ho]
      have hrc : rcAt h0 o = cnt o := by unfold rcAt; simp [h0, hget o ho]
      have hc : (List.range n).count o = 1 := by
        rw [(List.nodup_range).count]; simp [ho]
      rw [ha, hrc, hc]; rfl
    · have ha : aliveAt h0 o = false := by
        unfold aliveAt
        have : h0.objs[o]? = none := List.getElem?_eq_none (by simp [h0, hlen]; omega)
        simp [this]
      have hc : (List.range n).count o = 0 := by
        rw [(List.nodup_range).count]; simp [ho]
      have h1 := count_zero_of_all_lt roots n o hr (by omega)
      have h2 : (descr.map fun inn => inn.count o).sum = 0 := by
        apply sum_zero_of_all_zero
        intro inn hm
        exact count_zero_of_all_lt inn n o (List.all_eq_true.mp hd inn hm) (by omega)
      rw [ha, hc, h1, h2]; rfl
  obtain ⟨a, b, c, _, _, _⟩ := release_spec (n + storedIn objs + 1) (List.range n) h0 hI rfl (by simp only [List.length_range]; exact Nat.le_refl _)
  exact ⟨a, b, c⟩

/-! ### programs -/

theorem resolve_go_live (h : Heap) (cur : Loc) (es : List Nat) (l : Loc) (hr : resolve.go h cur es = some l) :
    locLive h l = true := by
  induction es generalizing cur with
  | nil =>
    unfold resolve.go at hr
    by_cases hl : locLive h cur = true
    · simp [hl] at hr; subst hr; exact hl
    · simp [hl] at hr
  | cons e es ih =>
    unfold resolve.go at hr
    cases hc : readLoc h cur with
    | none => simp [hc] at hr
    | some t => simp only [hc] at hr; exact ih _ hr

theorem resolve_live (h : Heap) (p : Path) (l : Loc) (hr : resolve h p = some l) : locLive h l = true :=
  resolve_go_live h _ _ l hr

theorem runOp_safe (h : Heap) (op : Op) (hI : Inv h []) (hb : h.bad = false) :
    (runOp true h op).bad = false ∧ Inv (runOp true h op) [] := by
  cases op with
  | drop => exact ⟨(dropRoot_safe h hI hb).1, (dropRoot_safe h hI hb).2.1⟩
  | assign d s =>
    cases hd : resolve h d with
    | none => simp only [runOp, hd]; exact ⟨hb, hI⟩
    | some dl =>
      cases hs : resolve h s with
      | none => simp only [runOp, hd, hs]; exact ⟨hb, hI⟩
      | some sl =>
        simp only [runOp, hd, hs]
        exact assign_acquire_first_safe h dl sl hI hb (resolve_live h d dl hd) (resolve_live h s sl hs)

theorem runOps_safe (ops : List Op) (h : Heap) (hI : Inv h []) (hb : h.bad = false) :
    (runOps true h ops).bad = false ∧ Inv (runOps true h ops) [] := by
  induction ops generalizing h with
  | nil => exact ⟨hb, hI⟩
  | cons op ops ih =>
    have := runOp_safe h op hI hb
    exact ih _ this.2 this.1

/-! ### no leak: a live object always has a positive count (so, with `Inv`, at least one handle) -/

/-- every object whose storage is allocated has a count of at least 1 -/
def Pos (h : Heap) : Prop := ∀ o, aliveAt h o = true → 0 < rcAt h o

theorem release_pos (f : Nat) (w : List Nat) (h : Heap) (hP : Pos h) : Pos (release f w h).1 := by
  induction f generalizing w h with
  | zero => simpa [release] using hP
  | succ f ih =>
    cases w with
    | nil => simpa [release] using hP
    | cons o w =>
      simp only [release]
      cases ho : h.objs[o]? with
      | none => exact hP
      | some ob =>
        simp only []
        by_cases hc : (!ob.alive || ob.rc == 0) = true
        · rw [if_pos hc]; exact hP
        · rw [if_neg hc]
          have hal : ob.alive = true := by
            cases hx : ob.alive with
            | true => rfl
            | false => simp [hx] at hc
          have hr0 : ob.rc ≠ 0 := by
            intro e; simp [e] at hc
          by_cases h1 : (ob.rc == 1) = true
          · rw [if_pos h1]
            apply ih
            intro p hp
            rw [aliveAt_set h o ob _ ho] at hp
            rw [rcAt_set h o ob _ ho]
            by_cases hpo : p = o
            · simp [hpo] at hp
            · simp only [hpo, if_false] at hp ⊢; exact hP p hp
          · rw [if_neg h1]
            apply ih
            intro p hp
            rw [aliveAt_set h o ob _ ho] at hp
            rw [rcAt_set h o ob _ ho]
            by_cases hpo : p = o
            · simp only [hpo, if_true]
              have : ob.rc ≠ 1 := by intro e; simp [e] at h1
              show 0 < ob.rc - 1
              omega
            · simp only [hpo, if_false] at hp ⊢; exact hP p hp

theorem incr_pos (h : Heap) (s : Nat) (hP : Pos h) : Pos (incr h s) := by
  unfold incr
  cases ho : h.objs[s]? with
  | none => exact hP
  | some ob =>
    simp only []
    by_cases ha : ob.alive = true
    · rw [if_pos ha]
      intro p hp
      rw [aliveAt_set h s ob _ ho] at hp
      rw [rcAt_set h s ob _ ho]
      by_cases hps : p = s
      · simp only [hps, if_true]; show 0 < ob.rc + 1; omega
      · simp only [hps, if_false] at hp ⊢; exact hP p hp
    · rw [if_neg ha]; exact hP

theorem writeLoc_pos (h : Heap) (l : Loc) (t : Nat) (hP : Pos h) : Pos (writeLoc h l t) := by
  cases l with
  | root i => exact hP
  | inObj o i =>
    cases ho : h.objs[o]? with
    | none => simpa [writeLoc, ho] using hP
    | some ob =>
      have hw : writeLoc h (Loc.inObj o i) t = { h with objs := h.objs.set o ⟨ob.rc, ob.alive, ob.inner.set i t⟩ } := by
        simp only [writeLoc, ho]
      rw [hw]
      intro p hp
      rw [aliveAt_set h o ob _ ho] at hp
      rw [rcAt_set h o ob _ ho]
      by_cases hpo : p = o
      · subst hpo
        simp only [if_true] at hp ⊢
        have ha : aliveAt h p = true := by unfold aliveAt; simp [ho]; exact hp
        have := hP p ha
        unfold rcAt at this; simpa [ho] using this
      · simp only [hpo, if_false] at hp ⊢; exact hP p hp

theorem assign_pos (h : Heap) (dst src : Loc) (hP : Pos h) : Pos (assign true h dst src) := by
  unfold assign
  by_cases hb : h.bad = true
  · simp only [hb, if_true]; exact hP
  · simp only [hb]
    by_cases he : dst = src
    · simp only [he, if_true]; exact hP
    · simp only [he, if_false, if_true]
      cases readLoc h dst with
      | none => exact hP
      | some d =>
        simp only []
        cases readLoc h src with
        | none => exact hP
        | some s =>
          simp only []
          by_cases hb1 : (incr h s).bad = true
          · simp only [hb1, if_true]; exact incr_pos h s hP
          · simp only [hb1]
            exact release_pos _ _ _ (writeLoc_pos _ dst s (incr_pos h s hP))

theorem dropRoot_pos (h : Heap) (hP : Pos h) : Pos (dropRoot h) := by
  unfold dropRoot
  by_cases hb : h.bad = true
  · simp only [hb, if_true]; exact hP
  · simp only [hb]
    cases h.roots.getLast? with
    | none => exact hP
    | some d => exact release_pos _ _ _ hP

theorem runOps_pos (ops : List Op) (h : Heap) (hP : Pos h) : Pos (runOps true h ops) := by
  induction ops generalizing h with
  | nil => exact hP
  | cons op ops ih =>
    apply ih
    cases op with
    | drop => exact dropRoot_pos h hP
    | assign d s =>
      cases hd : resolve h d with
      | none => simpa [runOp, hd] using hP
      | some dl =>
        cases hs : resolve h s with
        | none => simpa [runOp, hd, hs] using hP
        | some sl => simpa [runOp, hd, hs] using assign_pos h dl sl hP

theorem build_pos (descr : List (List Nat)) (roots : List Nat) : Pos (build descr roots) := by
  unfold build
  apply release_pos
  intro o ho
  unfold aliveAt at ho
  unfold rcAt
  simp only [List.getElem?_map] at ho ⊢
  cases hr : (List.range descr.length)[o]? with
  | none => simp [hr] at ho
  | some b => simp [hr]

end AslProofs.RcNest
