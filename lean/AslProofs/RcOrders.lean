import AslModel.RcOrders
import AslProofs.RcNest
/-! C12 — the statement orders of Shared::operator= and SmartObject::operator= against the Array order (`AslModel/RcOrders.lean`) -/
namespace AslProofs.RcOrders
open AslModel.RcNest

theorem assignOrd_array (h : Heap) (dst src : Loc) : assignOrd Order.array h dst src = assign true h dst src := by
  unfold assignOrd assign
  by_cases hb : h.bad = true
  · simp [hb]
  · by_cases he : dst = src
    · simp [hb, he]
    · cases hd : readLoc h dst with
      | none => simp [hb, he, hd]
      | some d =>
        cases hs : readLoc h src with
        | none => simp [hb, he, hd, hs]
        | some s => simp [hb, he, hd, hs]

theorem incr_writeLoc_bad (h : Heap) (l : Loc) (t s : Nat) : (incr (writeLoc h l t) s).bad = (incr h s).bad := by
  cases l with
  | root i => simp only [writeLoc, incr]; split <;> (try split) <;> rfl
  | inObj o i =>
    simp only [writeLoc]
    cases ho : h.objs[o]? with
    | none => rfl
    | some ob =>
      simp only [incr]
      by_cases hso : s = o
      · subst hso
        have hlt : s < h.objs.length := by
          rcases Nat.lt_or_ge s h.objs.length with h1 | h1
          · exact h1
          · rw [List.getElem?_eq_none_iff.mpr h1] at ho; cases ho
        have e1 : (h.objs.set s { ob with inner := ob.inner.set i t })[s]? = some { ob with inner := ob.inner.set i t } := by
          simp [List.getElem?_set, hlt]
        simp only [e1, ho]
        cases ob.alive <;> rfl
      · have : (h.objs.set o { ob with inner := ob.inner.set i t })[s]? = h.objs[s]? := by
          rw [List.getElem?_set]; simp [Ne.symm hso]
        simp only [this]
        split
        · split <;> rfl
        · rfl

theorem incr_writeLoc (h : Heap) (l : Loc) (t s : Nat) (hb : (incr h s).bad = false) :
    incr (writeLoc h l t) s = writeLoc (incr h s) l t := by
  cases l with
  | root i =>
    simp only [writeLoc, incr]; split <;> (try split) <;> rfl
  | inObj o i =>
    cases hs : h.objs[s]? with
    | none => simp [incr, hs] at hb
    | some sb =>
      obtain ⟨rc, al, inn⟩ := sb
      have hal : al = true := by
        cases al with
        | true => rfl
        | false => simp [incr, hs] at hb
      subst hal
      have hslt : s < h.objs.length := by
        rcases Nat.lt_or_ge s h.objs.length with h1 | h1
        · exact h1
        · rw [List.getElem?_eq_none_iff.mpr h1] at hs; cases hs
      cases ho : h.objs[o]? with
      | none =>
        have hol : h.objs.length ≤ o := List.getElem?_eq_none_iff.mp ho
        have e : (h.objs.set s { rc := rc + 1, alive := true, inner := inn })[o]? = none := by
          rw [List.getElem?_eq_none_iff]; simpa using hol
        simp only [writeLoc, ho, incr, hs, if_true, e]
      | some ob =>
        by_cases hso : s = o
        · subst hso
          have hob : ob = { rc := rc, alive := true, inner := inn } := by
            rw [hs] at ho; exact (Option.some.inj ho).symm
          subst hob
          have e1 : (h.objs.set s { rc := rc, alive := true, inner := inn.set i t })[s]? =
              some { rc := rc, alive := true, inner := inn.set i t } := by simp [List.getElem?_set, hslt]
          have e2 : (h.objs.set s { rc := rc + 1, alive := true, inner := inn })[s]? =
              some { rc := rc + 1, alive := true, inner := inn } := by simp [List.getElem?_set, hslt]
          simp only [writeLoc, hs, incr, e1, e2, if_true, List.set_set]
        · have holt : o < h.objs.length := by
            rcases Nat.lt_or_ge o h.objs.length with h1 | h1
            · exact h1
            · rw [List.getElem?_eq_none_iff.mpr h1] at ho; cases ho
          have e1 : (h.objs.set o { ob with inner := ob.inner.set i t })[s]? = some { rc := rc, alive := true, inner := inn } := by
            rw [List.getElem?_set]; simp [Ne.symm hso, hs]
          have e2 : (h.objs.set s { rc := rc + 1, alive := true, inner := inn })[o]? = some ob := by
            rw [List.getElem?_set]; simp [hso, ho]
          simp only [writeLoc, ho, incr, hs, e1, e2, if_true]
          rw [List.set_comm _ _ (Ne.symm hso)]


theorem incr_bad_eq (h : Heap) (s : Nat) (hb : h.bad = false) (hi : (incr h s).bad = true) : incr h s = { h with bad := true } := by
  unfold incr at *
  cases hs : h.objs[s]? with
  | none => rfl
  | some ob =>
    simp only [hs] at hi ⊢
    cases ha : ob.alive with
    | true => simp [ha, hb] at hi
    | false => simp

/-- `Shared::operator=` (store, increment, release) gives exactly the heap of the Array order, in every heap. -/
theorem assignOrd_shared (h : Heap) (dst src : Loc) : assignOrd Order.shared h dst src = assignOrd Order.array h dst src := by
  unfold assignOrd
  by_cases hb : h.bad = true
  · simp [hb]
  · by_cases he : dst = src
    · simp [hb, he]
    · cases hd : readLoc h dst with
      | none => simp [hb, he]
      | some d =>
        cases hs : readLoc h src with
        | none => simp [hb, he]
        | some s =>
          simp only [hb, he, if_false, Bool.false_eq_true]
          have hb' : h.bad = false := by simpa using hb
          rw [incr_writeLoc_bad]
          by_cases hi : (incr h s).bad = true
          · simp only [hi, if_true]; exact (incr_bad_eq h s hb' hi).symm
          · have hi' : (incr h s).bad = false := by simpa using hi
            simp only [hi', Bool.false_eq_true, if_false]
            rw [incr_writeLoc h dst s s hi']


theorem release_length (f : Nat) : ∀ (w : List Nat) (h : Heap), (release f w h).1.objs.length = h.objs.length := by
  induction f with
  | zero => intro w h; rfl
  | succ f ih =>
    intro w h
    cases w with
    | nil => rfl
    | cons x w =>
      simp only [release]
      cases hx : h.objs[x]? with
      | none => rfl
      | some xb =>
        simp only
        split
        · rfl
        · split
          · rw [ih]; simp
          · rw [ih]; simp

/-- released storage stays released -/
theorem release_dead (f : Nat) : ∀ (w : List Nat) (h : Heap) (o : Nat), aliveAt h o = false → aliveAt (release f w h).1 o = false := by
  induction f with
  | zero => intro w h o hd; exact hd
  | succ f ih =>
    intro w h o hd
    cases w with
    | nil => exact hd
    | cons x w =>
      simp only [release]
      cases hx : h.objs[x]? with
      | none => exact hd
      | some xb =>
        simp only
        split
        · exact hd
        · rename_i hn
          have hxa : xb.alive = true := by
            cases ha : xb.alive with
            | true => rfl
            | false => simp [ha] at hn
          have hox : o ≠ x := by
            intro e; subst e
            unfold aliveAt at hd; simp only [hx] at hd; rw [hxa] at hd; cases hd
          split
          · apply ih
            rw [AslProofs.RcNest.aliveAt_set h x xb _ hx o]; simp [hox, hd]
          · apply ih
            rw [AslProofs.RcNest.aliveAt_set h x xb _ hx o]; simp [hox, hd]


theorem lt_of_some {α} (l : List α) (i : Nat) (a : α) (h : l[i]? = some a) : i < l.length := by
  rcases Nat.lt_or_ge i l.length with h1 | h1
  · exact h1
  · rw [List.getElem?_eq_none_iff.mpr h1] at h; cases h

/-- a change of another object commutes with the store -/
theorem set_writeLoc_ne (h : Heap) (o i t x : Nat) (xb' : Obj) (hne : x ≠ o) :
    { writeLoc h (Loc.inObj o i) t with objs := (writeLoc h (Loc.inObj o i) t).objs.set x xb' } =
      writeLoc { h with objs := h.objs.set x xb' } (Loc.inObj o i) t := by
  simp only [writeLoc]
  have e : (h.objs.set x xb')[o]? = h.objs[o]? := by rw [List.getElem?_set]; simp [hne]
  rw [e]
  cases ho : h.objs[o]? with
  | none => rfl
  | some ob => simp only; rw [List.set_comm _ _ (Ne.symm hne)]

/-- a change of the count of the container commutes with the store -/
theorem set_writeLoc_rc (h : Heap) (o i t : Nat) (ob : Obj) (r : Nat) (ho : h.objs[o]? = some ob) :
    { writeLoc h (Loc.inObj o i) t with objs := (writeLoc h (Loc.inObj o i) t).objs.set o { rc := r, alive := ob.alive, inner := ob.inner.set i t } } =
      writeLoc { h with objs := h.objs.set o { ob with rc := r } } (Loc.inObj o i) t := by
  have hl := lt_of_some _ _ _ ho
  have e : (h.objs.set o { ob with rc := r })[o]? = some { ob with rc := r } := by simp [List.getElem?_set, hl]
  simp only [writeLoc, ho, e, List.set_set]

theorem writeLoc_lookup_ne (h : Heap) (o i t x : Nat) (hne : x ≠ o) : (writeLoc h (Loc.inObj o i) t).objs[x]? = h.objs[x]? := by
  simp only [writeLoc]
  cases ho : h.objs[o]? with
  | none => rfl
  | some ob => simp only; rw [List.getElem?_set]; simp [Ne.symm hne]

theorem writeLoc_bad (h : Heap) (l : Loc) (t : Nat) : (writeLoc h l t).bad = h.bad := by
  cases l with
  | root i => rfl
  | inObj o i => simp only [writeLoc]; split <;> rfl

theorem writeLoc_setbad (h : Heap) (l : Loc) (t : Nat) : { writeLoc h l t with bad := true } = writeLoc { h with bad := true } l t := by
  cases l with
  | root i => rfl
  | inObj o i => simp only [writeLoc]; split <;> rfl

/-- the destructor cascade never reads the destination place as long as the object that contains it survives:
    storing before or after the cascade gives the same heap -/
theorem release_writeLoc (f : Nat) : ∀ (w : List Nat) (h : Heap) (o i t : Nat),
    aliveAt (release f w (writeLoc h (Loc.inObj o i) t)).1 o = true →
    release f w (writeLoc h (Loc.inObj o i) t) = (writeLoc (release f w h).1 (Loc.inObj o i) t, (release f w h).2) := by
  induction f with
  | zero => intro w h o i t _; rfl
  | succ f ih =>
    intro w h o i t hal
    cases w with
    | nil => rfl
    | cons x w =>
      by_cases hxo : x = o
      · subst hxo
        cases ho : h.objs[x]? with
        | none =>
          have e : writeLoc h (Loc.inObj x i) t = h := by simp only [writeLoc, ho]
          rw [e]
          simp only [release, ho]
          simp only [writeLoc, ho]
        | some ob =>
          have hl := lt_of_some _ _ _ ho
          have e1 : (writeLoc h (Loc.inObj x i) t).objs[x]? = some { ob with inner := ob.inner.set i t } := by
            simp only [writeLoc, ho]; simp [List.getElem?_set, hl]
          simp only [release, e1, ho] at hal ⊢
          by_cases hc1 : (!ob.alive || ob.rc == 0) = true
          · simp only [hc1, if_true]; rw [writeLoc_setbad]
          · simp only [hc1, if_false, Bool.false_eq_true] at hal ⊢
            by_cases hc2 : (ob.rc == 1) = true
            · -- the container itself is freed: excluded by the hypothesis
              simp only [hc2, if_true] at hal
              have := release_dead f (ob.inner.set i t ++ w)
                { writeLoc h (Loc.inObj x i) t with objs := (writeLoc h (Loc.inObj x i) t).objs.set x { rc := 0, alive := false, inner := ob.inner.set i t } } x
                (by rw [AslProofs.RcNest.aliveAt_set _ x _ _ e1 x]; simp)
              rw [this] at hal; cases hal
            · simp only [hc2, if_false, Bool.false_eq_true] at hal ⊢
              rw [set_writeLoc_rc h x i t ob (ob.rc - 1) ho] at hal ⊢
              exact ih w _ x i t hal
      · have e1 := writeLoc_lookup_ne h o i t x hxo
        simp only [release, e1] at hal ⊢
        cases hx : h.objs[x]? with
        | none => simp only; rw [writeLoc_setbad]
        | some xb =>
          simp only [hx] at hal ⊢
          by_cases hc1 : (!xb.alive || xb.rc == 0) = true
          · simp only [hc1, if_true]; rw [writeLoc_setbad]
          · simp only [hc1, if_false, Bool.false_eq_true] at hal ⊢
            by_cases hc2 : (xb.rc == 1) = true
            · simp only [hc2, if_true] at hal ⊢
              rw [set_writeLoc_ne h o i t x _ hxo] at hal ⊢
              exact ih _ _ o i t hal
            · simp only [hc2, if_false, Bool.false_eq_true] at hal ⊢
              rw [set_writeLoc_ne h o i t x _ hxo] at hal ⊢
              exact ih _ _ o i t hal


theorem release_roots (f : Nat) : ∀ (w : List Nat) (h : Heap) (r : List Nat),
    release f w { h with roots := r } = ({ (release f w h).1 with roots := r }, (release f w h).2) := by
  induction f with
  | zero => intro w h r; rfl
  | succ f ih =>
    intro w h r
    cases w with
    | nil => rfl
    | cons x w =>
      simp only [release]
      cases hx : h.objs[x]? with
      | none => rfl
      | some xb =>
        simp only
        split
        · rfl
        · split
          · exact ih _ ⟨_, h.roots, h.bad⟩ r
          · exact ih _ ⟨_, h.roots, h.bad⟩ r

theorem set_self_of_getElem? (l : List Nat) (o a : Nat) (h : l[o]? = some a) : l.set o a = l := by
  apply List.ext_getElem?
  intro i
  rw [List.getElem?_set]
  split
  · rename_i e; subst e
    split
    · exact h.symm
    · rename_i hl; rw [List.getElem?_eq_none_iff.mpr (Nat.le_of_not_lt hl)]
  · rfl

theorem storedIn_set_inner (objs : List Obj) (o i t : Nat) (ob : Obj) (ho : objs[o]? = some ob) :
    storedIn (objs.set o { ob with inner := ob.inner.set i t }) = storedIn objs := by
  unfold storedIn
  rw [List.map_set]
  have hl := lt_of_some _ _ _ ho
  have : (objs.map fun ob => if ob.alive then ob.inner.length else 0)[o]? = some (if ob.alive then ob.inner.length else 0) := by
    simp [List.getElem?_map, ho]
  have e : (if ob.alive then (ob.inner.set i t).length else 0) = (if ob.alive then ob.inner.length else 0) := by simp
  simp only [e]
  rw [set_self_of_getElem? _ _ _ this]

theorem fuelFor_writeLoc (h : Heap) (l : Loc) (t : Nat) (w : List Nat) : fuelFor (writeLoc h l t) w = fuelFor h w := by
  cases l with
  | root i => rfl
  | inObj o i =>
    simp only [writeLoc]
    cases ho : h.objs[o]? with
    | none => rfl
    | some ob => simp only [fuelFor]; rw [storedIn_set_inner _ _ _ _ _ ho]


theorem writeLoc_aliveAt (h : Heap) (l : Loc) (t p : Nat) : aliveAt (writeLoc h l t) p = aliveAt h p := by
  cases l with
  | root i => rfl
  | inObj o i =>
    simp only [writeLoc]
    cases ho : h.objs[o]? with
    | none => rfl
    | some ob => simp only; rw [AslProofs.RcNest.aliveAt_set h o ob _ ho p]; split
                 · rename_i e; subst e; unfold aliveAt; simp [ho]
                 · rfl

theorem release_keeps_roots (f : Nat) (w : List Nat) (h : Heap) : (release f w h).1.roots = h.roots := by
  have := release_roots f w h h.roots
  have e : ({ h with roots := h.roots } : Heap) = h := rfl
  rw [e] at this
  have := congrArg (fun p => p.1.roots) this
  simpa using this

/-- **SmartObject's order** (increment, release, store) gives exactly the heap of the Array order whenever the Array order
    ends well and the object that holds the destination place is still allocated afterwards (program variables always are). -/
theorem assignOrd_smart (h : Heap) (dst src : Loc) (hok : (assignOrd Order.array h dst src).bad = false)
    (hc : containerAlive (assignOrd Order.array h dst src) dst = true) :
    assignOrd Order.smart h dst src = assignOrd Order.array h dst src := by
  unfold assignOrd at *
  by_cases hb : h.bad = true
  · simp [hb]
  · by_cases he : dst = src
    · simp [hb, he]
    · cases hd : readLoc h dst with
      | none => simp [hb, he]
      | some d =>
        cases hs : readLoc h src with
        | none => simp [hb, he]
        | some s =>
          simp only [hb, he, hd, hs, if_false, Bool.false_eq_true] at hok hc ⊢
          by_cases hi : (incr h s).bad = true
          · simp only [hi, if_true]
          · simp only [hi, if_false, Bool.false_eq_true] at hok hc ⊢
            rw [fuelFor_writeLoc] at hok hc ⊢
            cases dst with
            | root i =>
              have e : writeLoc (incr h s) (Loc.root i) s = { incr h s with roots := (incr h s).roots.set i s } := rfl
              have hr := release_roots (fuelFor (incr h s) [d]) [d] (incr h s) ((incr h s).roots.set i s)
              have hk := release_keeps_roots (fuelFor (incr h s) [d]) [d] (incr h s)
              rw [e, hr] at hok ⊢
              simp only at hok ⊢
              simp only [hok, Bool.false_eq_true, if_false, storeChecked, containerAlive, container, if_true, writeLoc, hk]
            | inObj o i =>
              have hal : aliveAt (release (fuelFor (incr h s) [d]) [d] (writeLoc (incr h s) (Loc.inObj o i) s)).1 o = true := by
                simpa [containerAlive, container] using hc
              have hrw := release_writeLoc _ _ _ _ _ _ hal
              rw [hrw] at hok hal ⊢
              simp only at hok hal ⊢
              rw [writeLoc_bad] at hok
              rw [writeLoc_aliveAt] at hal
              simp only [hok, Bool.false_eq_true, if_false, storeChecked, containerAlive, container, hal, if_true]

open AslProofs.RcNest

theorem aliveAt_of_read (h : Heap) (hI : Inv h []) (l : Loc) (t : Nat) (hr : readLoc h l = some t) : aliveAt h t = true := by
  have hp := handles_pos_of_readLoc h [] l t hr
  obtain ⟨ob, ho, ha, _⟩ := alive_of_handles_pos h [] hI t hp
  unfold aliveAt; simp [ho, ha]

/-- along a path that resolves to the place `(o, i)`, every container survives an update of the heap that keeps the program
    variables, keeps every other place of every surviving object, and re-establishes the invariant -/
theorem go_container_alive (h h' : Heap) (o i : Nat) (hroots : h'.roots = h.roots) (hI' : Inv h' [])
    (hedge : ∀ c e t, aliveAt h' c = true → readLoc h (Loc.inObj c e) = some t → ¬(c = o ∧ e = i) →
      readLoc h' (Loc.inObj c e) = some t) :
    ∀ (es : List Nat) (cur : Loc), containerAlive h' cur = true → resolve.go h cur es = some (Loc.inObj o i) →
      aliveAt h' o = true := by
  intro es
  induction es with
  | nil =>
    intro cur hc hr
    unfold resolve.go at hr
    by_cases hl : locLive h cur = true
    · simp [hl] at hr; subst hr; simpa [containerAlive, container] using hc
    · simp [hl] at hr
  | cons e es ih =>
    intro cur hc hr
    unfold resolve.go at hr
    cases hrd : readLoc h cur with
    | none => simp [hrd] at hr
    | some t =>
      simp only [hrd] at hr
      cases cur with
      | root r =>
        have : readLoc h' (Loc.root r) = some t := by
          simp only [readLoc] at hrd ⊢; rw [hroots]; exact hrd
        exact ih (Loc.inObj t e) (by simpa [containerAlive, container] using aliveAt_of_read h' hI' _ t this) hr
      | inObj c e' =>
        have hca : aliveAt h' c = true := by simpa [containerAlive, container] using hc
        by_cases hoi : c = o ∧ e' = i
        · rw [← hoi.1]; exact hca
        · have := hedge c e' t hca hrd hoi
          exact ih (Loc.inObj t e) (by simpa [containerAlive, container] using aliveAt_of_read h' hI' _ t this) hr


def innerAt (h : Heap) (c : Nat) : Option (List Nat) := (h.objs[c]?).map (·.inner)

theorem readLoc_inObj_eq (h : Heap) (c e : Nat) :
    readLoc h (Loc.inObj c e) = if aliveAt h c then (innerAt h c).bind (·[e]?) else none := by
  unfold readLoc aliveAt innerAt
  cases hc : h.objs[c]? with
  | none => simp [hc]
  | some ob => cases ha : ob.alive <;> simp [hc, ha]

theorem release_inner (f : Nat) : ∀ (w : List Nat) (h : Heap) (c : Nat), innerAt (release f w h).1 c = innerAt h c := by
  induction f with
  | zero => intro w h c; rfl
  | succ f ih =>
    intro w h c
    cases w with
    | nil => rfl
    | cons x w =>
      simp only [release]
      cases hx : h.objs[x]? with
      | none => rfl
      | some xb =>
        have hl := lt_of_some _ _ _ hx
        have key : ∀ (xb' : Obj), xb'.inner = xb.inner → innerAt { h with objs := h.objs.set x xb' } c = innerAt h c := by
          intro xb' hin
          unfold innerAt
          by_cases hxc : x = c
          · subst hxc; rw [List.getElem?_set_self hl, hx]; simp [hin]
          · rw [List.getElem?_set_ne hxc]
        simp only
        split
        · rfl
        · split
          · rw [ih]; exact key _ rfl
          · rw [ih]; exact key _ rfl

theorem incr_inner (h : Heap) (s c : Nat) : innerAt (incr h s) c = innerAt h c := by
  unfold incr
  cases hs : h.objs[s]? with
  | none => rfl
  | some sb =>
    simp only
    split
    · have hl := lt_of_some _ _ _ hs
      unfold innerAt
      by_cases hxc : s = c
      · subst hxc; rw [List.getElem?_set_self hl, hs]; simp
      · rw [List.getElem?_set_ne hxc]
    · rfl

theorem incr_roots (h : Heap) (s : Nat) : (incr h s).roots = h.roots := by
  unfold incr; split <;> (try split) <;> rfl

theorem writeLoc_inObj_roots (h : Heap) (o i t : Nat) : (writeLoc h (Loc.inObj o i) t).roots = h.roots := by
  simp only [writeLoc]; split <;> rfl

theorem writeLoc_inner_get (h : Heap) (o i t c e : Nat) (hne : ¬(c = o ∧ e = i)) :
    (innerAt (writeLoc h (Loc.inObj o i) t) c).bind (·[e]?) = (innerAt h c).bind (·[e]?) := by
  simp only [writeLoc]
  cases ho : h.objs[o]? with
  | none => rfl
  | some ob =>
    have hl := lt_of_some _ _ _ ho
    unfold innerAt
    by_cases hoc : o = c
    · subst hoc
      have hei : ¬ e = i := fun h => hne ⟨rfl, h⟩
      have hie : i ≠ e := fun h => hei h.symm
      rw [List.getElem?_set_self hl, ho]
      simp only [Option.map_some, Option.bind_some]
      rw [List.getElem?_set_ne hie]
    · rw [List.getElem?_set_ne hoc]


theorem locLive_container (h : Heap) (l : Loc) (hl : locLive h l = true) : containerAlive h l = true := by
  cases l with
  | root r => rfl
  | inObj c e =>
    unfold locLive at hl
    rw [readLoc_inObj_eq] at hl
    simp only [containerAlive, container]
    cases ha : aliveAt h c with
    | true => rfl
    | false => simp [ha] at hl

/-- **a destination reached by a path keeps its container**: after `*dst = *src` (Array order) the object that holds `dst` is
    still allocated, for every place `dst` that a path from a program variable resolves to -/
theorem path_container_survives (h : Heap) (p : Path) (dst src : Loc) (hI : Inv h []) (hb : h.bad = false)
    (hr : resolve h p = some dst) (hs : locLive h src = true) :
    containerAlive (assign true h dst src) dst = true := by
  have hd : locLive h dst = true := resolve_live h p dst hr
  cases dst with
  | root r => rfl
  | inObj o i =>
    obtain ⟨hok, hI'⟩ := assign_acquire_first_safe h (Loc.inObj o i) src hI hb hd hs
    -- unfold the assignment far enough to see its shape
    by_cases he : Loc.inObj o i = src
    · have : assign true h (Loc.inObj o i) src = h := by unfold assign; simp [hb, he]
      rw [this]; exact locLive_container h _ hd
    · cases hrd : readLoc h (Loc.inObj o i) with
      | none => unfold locLive at hd; rw [hrd] at hd; cases hd
      | some d =>
        cases hrs : readLoc h src with
        | none => unfold locLive at hs; rw [hrs] at hs; cases hs
        | some s =>
          have hshape : assign true h (Loc.inObj o i) src =
              if (incr h s).bad then incr h s
              else (release (fuelFor (writeLoc (incr h s) (Loc.inObj o i) s) [d]) [d] (writeLoc (incr h s) (Loc.inObj o i) s)).1 := by
            unfold assign; simp [hb, he, hrd, hrs]
          by_cases hib : (incr h s).bad = true
          · -- cannot happen: the result would be bad
            rw [hshape] at hok; simp [hib] at hok
          · have hib' : (incr h s).bad = false := by simpa using hib
            simp only [hib', Bool.false_eq_true, if_false] at hshape
            have hroots : (assign true h (Loc.inObj o i) src).roots = h.roots := by
              rw [hshape, release_keeps_roots, writeLoc_inObj_roots, incr_roots]
            have hedge : ∀ c e t, aliveAt (assign true h (Loc.inObj o i) src) c = true →
                readLoc h (Loc.inObj c e) = some t → ¬(c = o ∧ e = i) →
                readLoc (assign true h (Loc.inObj o i) src) (Loc.inObj c e) = some t := by
              intro c e t hca hrt hne
              rw [readLoc_inObj_eq] at hrt ⊢
              rw [hca]; simp only [if_true]
              have : innerAt (assign true h (Loc.inObj o i) src) c = innerAt (writeLoc (incr h s) (Loc.inObj o i) s) c := by
                rw [hshape, release_inner]
              rw [this, writeLoc_inner_get _ _ _ _ _ _ hne, incr_inner]
              cases hha : aliveAt h c with
              | true => simpa [hha] using hrt
              | false => simp [hha] at hrt
            unfold resolve at hr
            have := go_container_alive h _ o i hroots hI' hedge p.elems (Loc.root p.root) rfl hr
            simpa [containerAlive, container] using this


theorem runOpOrd_eq (ord : Order) (h : Heap) (op : Op) (hI : Inv h []) (hb : h.bad = false) :
    runOpOrd ord h op = runOp true h op := by
  cases op with
  | drop => rfl
  | assign d s =>
    cases hd : resolve h d with
    | none => simp [runOpOrd, runOp, hd]
    | some dl =>
      cases hs : resolve h s with
      | none => simp [runOpOrd, runOp, hd, hs]
      | some sl =>
        simp only [runOpOrd, runOp, hd, hs]
        have hdl := resolve_live h d dl hd
        have hsl := resolve_live h s sl hs
        cases ord with
        | array => exact assignOrd_array h dl sl
        | shared => rw [assignOrd_shared, assignOrd_array]
        | smart =>
          have hok := (assign_acquire_first_safe h dl sl hI hb hdl hsl).1
          have hc := path_container_survives h d dl sl hI hb hd hsl
          rw [← assignOrd_array] at hok hc ⊢
          exact assignOrd_smart h dl sl hok hc

theorem runOpsOrd_eq (ord : Order) (ops : List Op) : ∀ (h : Heap), Inv h [] → h.bad = false →
    runOpsOrd ord h ops = runOps true h ops := by
  induction ops with
  | nil => intro h _ _; rfl
  | cons op ops ih =>
    intro h hI hb
    unfold runOpsOrd runOps
    simp only [List.foldl_cons]
    rw [runOpOrd_eq ord h op hI hb]
    obtain ⟨hb', hI'⟩ := runOp_safe h op hI hb
    exact ih _ hI' hb'

end AslProofs.RcOrders
