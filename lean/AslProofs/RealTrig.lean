import AslProofs.AxisAngle
import Mathlib.Analysis.SpecialFunctions.Trigonometric.Inverse
import Mathlib.Analysis.SpecialFunctions.Complex.Arg
/-!
# C20 — the real trigonometric functions satisfy the hypotheses of the Euler / axis-angle theorems

`realTrig` is `cos`, `sin`, `arcsin`, `arccos`, `atan2(y, x) = arg(x + iy)`, `π` on `ℝ`; `realCmp` is `|·|`, `<`, `√`, `= 0`.
-/
namespace AslProofs.RealTrig
open AslModel AslProofs.Euler AslProofs.AxisAngle

noncomputable def realTrig : Trig ℝ :=
  ⟨Real.cos, Real.sin, Real.arcsin, Real.arccos, fun y x => Complex.arg ⟨x, y⟩, Real.pi⟩

noncomputable def realCmp : Cmp ℝ :=
  ⟨fun x => |x|, fun a b => decide (a < b), Real.sqrt, fun x => decide (x = 0)⟩

theorem realTrigOK : TrigOK realTrig where
  unit x := by
    show Real.cos x * Real.cos x + Real.sin x * Real.sin x = 1
    have := Real.cos_sq_add_sin_sq x; nlinarith
  atan2_spec s c h := by
    have hz : (⟨c, s⟩ : ℂ) ≠ 0 := by
      intro e
      have h1 := congrArg Complex.re e
      have h2 := congrArg Complex.im e
      simp at h1 h2
      rcases h with h | h
      · exact h h2
      · exact h h1
    refine ⟨‖(⟨c, s⟩ : ℂ)‖, norm_pos_iff.mpr hz, ?_, ?_⟩
    · show s = _ * Real.sin (Complex.arg ⟨c, s⟩)
      rw [Complex.sin_arg]; field_simp
    · show c = _ * Real.cos (Complex.arg ⟨c, s⟩)
      rw [Complex.cos_arg hz]; field_simp
  sin_zero := Real.sin_zero
  cos_zero := Real.cos_zero
  sin_neg := Real.sin_neg
  cos_neg := Real.cos_neg

theorem realTrigAA : TrigAA realTrig := ⟨realTrigOK, Real.sin_sub_pi, Real.cos_sub_pi⟩

theorem realTrigDouble : TrigDouble realTrig where
  unit := realTrigOK.unit
  cos_double x := by
    show Real.cos x = Real.cos (1 / 2 * x) * Real.cos (1 / 2 * x) - Real.sin (1 / 2 * x) * Real.sin (1 / 2 * x)
    have h := Real.cos_two_mul (1 / 2 * x)
    have h2 := Real.cos_sq_add_sin_sq (1 / 2 * x)
    have e : 2 * (1 / 2 * x) = x := by ring
    rw [e] at h
    nlinarith
  sin_double x := by
    show Real.sin x = 2 * Real.sin (1 / 2 * x) * Real.cos (1 / 2 * x)
    have h := Real.sin_two_mul (1 / 2 * x)
    have e : 2 * (1 / 2 * x) = x := by ring
    rw [e] at h
    exact h

theorem realCmpStd : CmpStd realCmp where
  lt _ _ := rfl
  eqz x := by simp [realCmp]
  sqrt z hz := ⟨Real.sqrt_nonneg z, Real.mul_self_sqrt hz⟩

end AslProofs.RealTrig
