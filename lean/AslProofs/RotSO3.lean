import AslProofs.Matrix
import Mathlib.LinearAlgebra.Matrix.Adjugate
/-!
# C20 — `Matrix4_::rotation()` on every proper rotation matrix (not only on the image of `Quaternion_::matrix`)

`SO3Rel a` collects the polynomial relations satisfied by the entries of a matrix with `a·aᵀ = 1`, `det a = 1`
(row and column orthonormality, and `a = cofactor matrix of a`).  The symmetric 4×4 matrix `Q(a)` whose entries are the
four radicands of `rotation()` (diagonal) and the sums/differences `a i j ± a j i` the branches read (off-diagonal) has
rank one on SO(3): all 2×2 minors `Q k i * Q k j = Q k k * Q i j` vanish (`minor*`, each a constant-coefficient
combination of the relations).  Hence each branch, dividing by the root of *its own* diagonal entry, returns a
quaternion `q` with `4 q_i q_j = Q i j`, and `Quaternion_::matrix` is linear in those products.

This file is written by `tools/props/c20_so3_minors.py` (it finds the coefficients of the `minor*` proofs by exact Gaussian
elimination; Lean re-checks each with `ring`).
-/
set_option linter.unusedSimpArgs false
namespace AslProofs.RotSO3
open AslModel AslProofs.Matrix

variable {K : Type} [Field K]

/-- the polynomial relations between the entries of a proper rotation matrix -/
structure SO3Rel (a : Nat → Nat → K) : Prop where
  R00 : a 0 0 * a 0 0 + a 0 1 * a 0 1 + a 0 2 * a 0 2 = 1
  R01 : a 0 0 * a 1 0 + a 0 1 * a 1 1 + a 0 2 * a 1 2 = 0
  R02 : a 0 0 * a 2 0 + a 0 1 * a 2 1 + a 0 2 * a 2 2 = 0
  R11 : a 1 0 * a 1 0 + a 1 1 * a 1 1 + a 1 2 * a 1 2 = 1
  R12 : a 1 0 * a 2 0 + a 1 1 * a 2 1 + a 1 2 * a 2 2 = 0
  R22 : a 2 0 * a 2 0 + a 2 1 * a 2 1 + a 2 2 * a 2 2 = 1
  C00 : a 0 0 * a 0 0 + a 1 0 * a 1 0 + a 2 0 * a 2 0 = 1
  C01 : a 0 0 * a 0 1 + a 1 0 * a 1 1 + a 2 0 * a 2 1 = 0
  C02 : a 0 0 * a 0 2 + a 1 0 * a 1 2 + a 2 0 * a 2 2 = 0
  C11 : a 0 1 * a 0 1 + a 1 1 * a 1 1 + a 2 1 * a 2 1 = 1
  C12 : a 0 1 * a 0 2 + a 1 1 * a 1 2 + a 2 1 * a 2 2 = 0
  C22 : a 0 2 * a 0 2 + a 1 2 * a 1 2 + a 2 2 * a 2 2 = 1
  F00 : a 0 0 = a 1 1 * a 2 2 - a 1 2 * a 2 1
  F01 : a 0 1 = a 1 2 * a 2 0 - a 1 0 * a 2 2
  F02 : a 0 2 = a 1 0 * a 2 1 - a 1 1 * a 2 0
  F10 : a 1 0 = a 2 1 * a 0 2 - a 2 2 * a 0 1
  F11 : a 1 1 = a 2 2 * a 0 0 - a 2 0 * a 0 2
  F12 : a 1 2 = a 2 0 * a 0 1 - a 2 1 * a 0 0
  F20 : a 2 0 = a 0 1 * a 1 2 - a 0 2 * a 1 1
  F21 : a 2 1 = a 0 2 * a 1 0 - a 0 0 * a 1 2
  F22 : a 2 2 = a 0 0 * a 1 1 - a 0 1 * a 1 0

/-- an orthogonal matrix of determinant one satisfies the relations -/
theorem so3_rel (a : Nat → Nat → K) (ho : toM3 a * (toM3 a).transpose = 1) (hd : (toM3 a).det = 1) : SO3Rel a := by
  have hc : (toM3 a).transpose * toM3 a = 1 := mul_eq_one_comm.mp ho
  have hadj : (toM3 a).adjugate = (toM3 a).transpose := by
    calc (toM3 a).adjugate = ((toM3 a).transpose * toM3 a) * (toM3 a).adjugate := by rw [hc, Matrix.one_mul]
      _ = (toM3 a).transpose * (toM3 a * (toM3 a).adjugate) := by rw [Matrix.mul_assoc]
      _ = (toM3 a).transpose := by rw [Matrix.mul_adjugate, hd, one_smul, Matrix.mul_one]
  rw [Matrix.adjugate_fin_three] at hadj
  constructor
  · have := congrFun (congrFun ho 0) 0
    simp [Matrix.mul_apply, Fin.sum_univ_succ, toM3] at this
    linear_combination this
  · have := congrFun (congrFun ho 0) 1
    simp [Matrix.mul_apply, Fin.sum_univ_succ, toM3] at this
    linear_combination this
  · have := congrFun (congrFun ho 0) 2
    simp [Matrix.mul_apply, Fin.sum_univ_succ, toM3] at this
    linear_combination this
  · have := congrFun (congrFun ho 1) 1
    simp [Matrix.mul_apply, Fin.sum_univ_succ, toM3] at this
    linear_combination this
  · have := congrFun (congrFun ho 1) 2
    simp [Matrix.mul_apply, Fin.sum_univ_succ, toM3] at this
    linear_combination this
  · have := congrFun (congrFun ho 2) 2
    simp [Matrix.mul_apply, Fin.sum_univ_succ, toM3] at this
    linear_combination this
  · have := congrFun (congrFun hc 0) 0
    simp [Matrix.mul_apply, Fin.sum_univ_succ, toM3] at this
    linear_combination this
  · have := congrFun (congrFun hc 0) 1
    simp [Matrix.mul_apply, Fin.sum_univ_succ, toM3] at this
    linear_combination this
  · have := congrFun (congrFun hc 0) 2
    simp [Matrix.mul_apply, Fin.sum_univ_succ, toM3] at this
    linear_combination this
  · have := congrFun (congrFun hc 1) 1
    simp [Matrix.mul_apply, Fin.sum_univ_succ, toM3] at this
    linear_combination this
  · have := congrFun (congrFun hc 1) 2
    simp [Matrix.mul_apply, Fin.sum_univ_succ, toM3] at this
    linear_combination this
  · have := congrFun (congrFun hc 2) 2
    simp [Matrix.mul_apply, Fin.sum_univ_succ, toM3] at this
    linear_combination this
  · have := congrFun (congrFun hadj 0) 0
    simp [toM3] at this
    linear_combination -this
  · have := congrFun (congrFun hadj 1) 0
    simp [toM3] at this
    linear_combination -this
  · have := congrFun (congrFun hadj 2) 0
    simp [toM3] at this
    linear_combination -this
  · have := congrFun (congrFun hadj 0) 1
    simp [toM3] at this
    linear_combination -this
  · have := congrFun (congrFun hadj 1) 1
    simp [toM3] at this
    linear_combination -this
  · have := congrFun (congrFun hadj 2) 1
    simp [toM3] at this
    linear_combination -this
  · have := congrFun (congrFun hadj 0) 2
    simp [toM3] at this
    linear_combination -this
  · have := congrFun (congrFun hadj 1) 2
    simp [toM3] at this
    linear_combination -this
  · have := congrFun (congrFun hadj 2) 2
    simp [toM3] at this
    linear_combination -this

theorem minor0_11 (a : Nat → Nat → K) (h : SO3Rel a) :
    (a 2 1 - a 1 2) * (a 2 1 - a 1 2) = (1 + (a 0 0 + a 1 1 + a 2 2)) * (1 + a 0 0 - a 1 1 - a 2 2) := by
  linear_combination (1) * h.R11 + (1) * h.R22 + (-1) * h.C00 + (-2) * h.F00

theorem minor0_12 (a : Nat → Nat → K) (h : SO3Rel a) :
    (a 2 1 - a 1 2) * (a 0 2 - a 2 0) = (1 + (a 0 0 + a 1 1 + a 2 2)) * (a 0 1 + a 1 0) := by
  linear_combination (-1) * h.R01 + (-1) * h.C01 + (-1) * h.F01 + (-1) * h.F10

theorem minor0_13 (a : Nat → Nat → K) (h : SO3Rel a) :
    (a 2 1 - a 1 2) * (a 1 0 - a 0 1) = (1 + (a 0 0 + a 1 1 + a 2 2)) * (a 2 0 + a 0 2) := by
  linear_combination (-1) * h.R02 + (-1) * h.C02 + (-1) * h.F02 + (-1) * h.F20

theorem minor0_22 (a : Nat → Nat → K) (h : SO3Rel a) :
    (a 0 2 - a 2 0) * (a 0 2 - a 2 0) = (1 + (a 0 0 + a 1 1 + a 2 2)) * (1 + a 1 1 - a 2 2 - a 0 0) := by
  linear_combination (1) * h.R00 + (1) * h.R22 + (-1) * h.C11 + (-2) * h.F11

theorem minor0_23 (a : Nat → Nat → K) (h : SO3Rel a) :
    (a 0 2 - a 2 0) * (a 1 0 - a 0 1) = (1 + (a 0 0 + a 1 1 + a 2 2)) * (a 1 2 + a 2 1) := by
  linear_combination (-1) * h.R12 + (-1) * h.C12 + (-1) * h.F12 + (-1) * h.F21

theorem minor0_33 (a : Nat → Nat → K) (h : SO3Rel a) :
    (a 1 0 - a 0 1) * (a 1 0 - a 0 1) = (1 + (a 0 0 + a 1 1 + a 2 2)) * (1 + a 2 2 - a 0 0 - a 1 1) := by
  linear_combination (-1) * h.R22 + (1) * h.C00 + (1) * h.C11 + (-2) * h.F22

theorem minor1_00 (a : Nat → Nat → K) (h : SO3Rel a) :
    (a 2 1 - a 1 2) * (a 2 1 - a 1 2) = (1 + a 0 0 - a 1 1 - a 2 2) * (1 + (a 0 0 + a 1 1 + a 2 2)) := by
  linear_combination (1) * h.R11 + (1) * h.R22 + (-1) * h.C00 + (-2) * h.F00

theorem minor1_02 (a : Nat → Nat → K) (h : SO3Rel a) :
    (a 2 1 - a 1 2) * (a 0 1 + a 1 0) = (1 + a 0 0 - a 1 1 - a 2 2) * (a 0 2 - a 2 0) := by
  linear_combination (1) * h.R02 + (-1) * h.C02 + (-1) * h.F02 + (1) * h.F20

theorem minor1_03 (a : Nat → Nat → K) (h : SO3Rel a) :
    (a 2 1 - a 1 2) * (a 2 0 + a 0 2) = (1 + a 0 0 - a 1 1 - a 2 2) * (a 1 0 - a 0 1) := by
  linear_combination (-1) * h.R01 + (1) * h.C01 + (1) * h.F01 + (-1) * h.F10

theorem minor1_22 (a : Nat → Nat → K) (h : SO3Rel a) :
    (a 0 1 + a 1 0) * (a 0 1 + a 1 0) = (1 + a 0 0 - a 1 1 - a 2 2) * (1 + a 1 1 - a 2 2 - a 0 0) := by
  linear_combination (-1) * h.R22 + (1) * h.C00 + (1) * h.C11 + (2) * h.F22

theorem minor1_23 (a : Nat → Nat → K) (h : SO3Rel a) :
    (a 0 1 + a 1 0) * (a 2 0 + a 0 2) = (1 + a 0 0 - a 1 1 - a 2 2) * (a 1 2 + a 2 1) := by
  linear_combination (1) * h.R12 + (1) * h.C12 + (-1) * h.F12 + (-1) * h.F21

theorem minor1_33 (a : Nat → Nat → K) (h : SO3Rel a) :
    (a 2 0 + a 0 2) * (a 2 0 + a 0 2) = (1 + a 0 0 - a 1 1 - a 2 2) * (1 + a 2 2 - a 0 0 - a 1 1) := by
  linear_combination (1) * h.R00 + (1) * h.R22 + (-1) * h.C11 + (2) * h.F11

theorem minor2_00 (a : Nat → Nat → K) (h : SO3Rel a) :
    (a 0 2 - a 2 0) * (a 0 2 - a 2 0) = (1 + a 1 1 - a 2 2 - a 0 0) * (1 + (a 0 0 + a 1 1 + a 2 2)) := by
  linear_combination (1) * h.R00 + (1) * h.R22 + (-1) * h.C11 + (-2) * h.F11

theorem minor2_01 (a : Nat → Nat → K) (h : SO3Rel a) :
    (a 0 2 - a 2 0) * (a 0 1 + a 1 0) = (1 + a 1 1 - a 2 2 - a 0 0) * (a 2 1 - a 1 2) := by
  linear_combination (-1) * h.R12 + (1) * h.C12 + (1) * h.F12 + (-1) * h.F21

theorem minor2_03 (a : Nat → Nat → K) (h : SO3Rel a) :
    (a 0 2 - a 2 0) * (a 1 2 + a 2 1) = (1 + a 1 1 - a 2 2 - a 0 0) * (a 1 0 - a 0 1) := by
  linear_combination (1) * h.R01 + (-1) * h.C01 + (1) * h.F01 + (-1) * h.F10

theorem minor2_11 (a : Nat → Nat → K) (h : SO3Rel a) :
    (a 0 1 + a 1 0) * (a 0 1 + a 1 0) = (1 + a 1 1 - a 2 2 - a 0 0) * (1 + a 0 0 - a 1 1 - a 2 2) := by
  linear_combination (-1) * h.R22 + (1) * h.C00 + (1) * h.C11 + (2) * h.F22

theorem minor2_13 (a : Nat → Nat → K) (h : SO3Rel a) :
    (a 0 1 + a 1 0) * (a 1 2 + a 2 1) = (1 + a 1 1 - a 2 2 - a 0 0) * (a 2 0 + a 0 2) := by
  linear_combination (1) * h.R02 + (1) * h.C02 + (-1) * h.F02 + (-1) * h.F20

theorem minor2_33 (a : Nat → Nat → K) (h : SO3Rel a) :
    (a 1 2 + a 2 1) * (a 1 2 + a 2 1) = (1 + a 1 1 - a 2 2 - a 0 0) * (1 + a 2 2 - a 0 0 - a 1 1) := by
  linear_combination (1) * h.R11 + (1) * h.R22 + (-1) * h.C00 + (2) * h.F00

theorem minor3_00 (a : Nat → Nat → K) (h : SO3Rel a) :
    (a 1 0 - a 0 1) * (a 1 0 - a 0 1) = (1 + a 2 2 - a 0 0 - a 1 1) * (1 + (a 0 0 + a 1 1 + a 2 2)) := by
  linear_combination (-1) * h.R22 + (1) * h.C00 + (1) * h.C11 + (-2) * h.F22

theorem minor3_01 (a : Nat → Nat → K) (h : SO3Rel a) :
    (a 1 0 - a 0 1) * (a 2 0 + a 0 2) = (1 + a 2 2 - a 0 0 - a 1 1) * (a 2 1 - a 1 2) := by
  linear_combination (1) * h.R12 + (-1) * h.C12 + (1) * h.F12 + (-1) * h.F21

theorem minor3_02 (a : Nat → Nat → K) (h : SO3Rel a) :
    (a 1 0 - a 0 1) * (a 1 2 + a 2 1) = (1 + a 2 2 - a 0 0 - a 1 1) * (a 0 2 - a 2 0) := by
  linear_combination (-1) * h.R02 + (1) * h.C02 + (-1) * h.F02 + (1) * h.F20

theorem minor3_11 (a : Nat → Nat → K) (h : SO3Rel a) :
    (a 2 0 + a 0 2) * (a 2 0 + a 0 2) = (1 + a 2 2 - a 0 0 - a 1 1) * (1 + a 0 0 - a 1 1 - a 2 2) := by
  linear_combination (1) * h.R00 + (1) * h.R22 + (-1) * h.C11 + (2) * h.F11

theorem minor3_12 (a : Nat → Nat → K) (h : SO3Rel a) :
    (a 2 0 + a 0 2) * (a 1 2 + a 2 1) = (1 + a 2 2 - a 0 0 - a 1 1) * (a 0 1 + a 1 0) := by
  linear_combination (1) * h.R01 + (1) * h.C01 + (-1) * h.F01 + (-1) * h.F10

theorem minor3_22 (a : Nat → Nat → K) (h : SO3Rel a) :
    (a 1 2 + a 2 1) * (a 1 2 + a 2 1) = (1 + a 2 2 - a 0 0 - a 1 1) * (1 + a 1 1 - a 2 2 - a 0 0) := by
  linear_combination (1) * h.R11 + (1) * h.R22 + (-1) * h.C00 + (2) * h.F00


/-- `Quaternion_::matrix` is linear in the products `q_i q_j` -/
theorem matrix_of_products (a : Nat → Nat → K) (q : Quat K) (h2 : (2 : K) ≠ 0)
    (hxx : 4 * (q.x * q.x) = 1 + a 0 0 - a 1 1 - a 2 2) (hyy : 4 * (q.y * q.y) = 1 + a 1 1 - a 2 2 - a 0 0)
    (hzz : 4 * (q.z * q.z) = 1 + a 2 2 - a 0 0 - a 1 1)
    (hxy : 4 * (q.x * q.y) = a 0 1 + a 1 0) (hyz : 4 * (q.y * q.z) = a 1 2 + a 2 1) (hxz : 4 * (q.x * q.z) = a 2 0 + a 0 2)
    (hwx : 4 * (q.w * q.x) = a 2 1 - a 1 2) (hwy : 4 * (q.w * q.y) = a 0 2 - a 2 0) (hwz : 4 * (q.w * q.z) = a 1 0 - a 0 1) :
    toM3 (Gen.Q.matrix (fld K) q) = toM3 a := by
  ext i j
  fin_cases i <;> fin_cases j <;> simp [toM3, Gen.Q.matrix, ofRows] <;> apply mul_left_cancel₀ h2
  · linear_combination (-1) * hyy + (-1) * hzz
  · linear_combination hxy - hwz
  · linear_combination hxz + hwy
  · linear_combination hxy + hwz
  · linear_combination (-1) * hxx + (-1) * hzz
  · linear_combination hyz - hwx
  · linear_combination hxz - hwy
  · linear_combination hyz + hwx
  · linear_combination (-1) * hxx + (-1) * hyy

theorem prod_div (u v c r : K) (h0 : r ≠ 0) (h2 : (2 : K) ≠ 0) (k : u * v = (r * r) * c) :
    4 * ((u * (1 / 2 / r)) * (v * (1 / 2 / r))) = c := by
  have e : 4 * ((u * (1 / 2 / r)) * (v * (1 / 2 / r))) = (u * v) * (4 * ((1 / 2 / r) * (1 / 2 / r))) := by ring
  rw [e, k]
  field_simp
  ring

theorem prod_half (u r : K) (h0 : r ≠ 0) (h2 : (2 : K) ≠ 0) : 4 * ((1 / 2 * r) * (u * (1 / 2 / r))) = u := by
  field_simp
  ring

theorem prod_sq (r : K) (h2 : (2 : K) ≠ 0) : 4 * ((1 / 2 * r) * (1 / 2 * r)) = r * r := by
  field_simp
  ring

/-- branch 0 of `rotation()` on a proper rotation matrix: with `r` a non-zero root of the branch's radicand, the quaternion
returned has the matrix it was computed from -/
theorem branch0_so3 (a : Nat → Nat → K) (h : SO3Rel a) (h2 : (2 : K) ≠ 0) (r : K)
    (hr : r * r = Gen.M4.rotRadicand0 (fld K) a) (h0 : r ≠ 0) :
    toM3 (Gen.Q.matrix (fld K) (Gen.M4.rotBranch0 (fld K) a r)) = toM3 a := by
  simp only [Gen.M4.rotRadicand0, fld_add, fld_sub, fld_lit, Nat.cast_one] at hr
  apply matrix_of_products a _ h2 <;>
    simp only [Gen.M4.rotBranch0, fld_add, fld_sub, fld_mul, fld_div, fld_half]
  · have e := prod_div (a 2 1 - a 1 2) (a 2 1 - a 1 2) (1 + a 0 0 - a 1 1 - a 2 2) r h0 h2 (by rw [hr]; exact minor0_11 a h)
    linear_combination e
  · have e := prod_div (a 0 2 - a 2 0) (a 0 2 - a 2 0) (1 + a 1 1 - a 2 2 - a 0 0) r h0 h2 (by rw [hr]; exact minor0_22 a h)
    linear_combination e
  · have e := prod_div (a 1 0 - a 0 1) (a 1 0 - a 0 1) (1 + a 2 2 - a 0 0 - a 1 1) r h0 h2 (by rw [hr]; exact minor0_33 a h)
    linear_combination e
  · have e := prod_div (a 2 1 - a 1 2) (a 0 2 - a 2 0) (a 0 1 + a 1 0) r h0 h2 (by rw [hr]; exact minor0_12 a h)
    linear_combination e
  · have e := prod_div (a 0 2 - a 2 0) (a 1 0 - a 0 1) (a 1 2 + a 2 1) r h0 h2 (by rw [hr]; exact minor0_23 a h)
    linear_combination e
  · have e := prod_div (a 2 1 - a 1 2) (a 1 0 - a 0 1) (a 2 0 + a 0 2) r h0 h2 (by rw [hr]; exact minor0_13 a h)
    linear_combination e
  · have e := prod_half (a 2 1 - a 1 2) r h0 h2
    linear_combination e
  · have e := prod_half (a 0 2 - a 2 0) r h0 h2
    linear_combination e
  · have e := prod_half (a 1 0 - a 0 1) r h0 h2
    linear_combination e

/-- branch 1 of `rotation()` on a proper rotation matrix: with `r` a non-zero root of the branch's radicand, the quaternion
returned has the matrix it was computed from -/
theorem branch1_so3 (a : Nat → Nat → K) (h : SO3Rel a) (h2 : (2 : K) ≠ 0) (r : K)
    (hr : r * r = Gen.M4.rotRadicand1 (fld K) a) (h0 : r ≠ 0) :
    toM3 (Gen.Q.matrix (fld K) (Gen.M4.rotBranch1 (fld K) a r)) = toM3 a := by
  simp only [Gen.M4.rotRadicand1, fld_add, fld_sub, fld_lit, Nat.cast_one] at hr
  apply matrix_of_products a _ h2 <;>
    simp only [Gen.M4.rotBranch1, fld_add, fld_sub, fld_mul, fld_div, fld_half]
  · have e := prod_div (a 0 1 + a 1 0) (a 0 1 + a 1 0) (1 + a 0 0 - a 1 1 - a 2 2) r h0 h2 (by rw [hr]; exact minor2_11 a h)
    linear_combination e
  · have e := prod_sq r h2
    linear_combination e + hr
  · have e := prod_div (a 1 2 + a 2 1) (a 1 2 + a 2 1) (1 + a 2 2 - a 0 0 - a 1 1) r h0 h2 (by rw [hr]; exact minor2_33 a h)
    linear_combination e
  · have e := prod_half (a 0 1 + a 1 0) r h0 h2
    linear_combination e
  · have e := prod_half (a 1 2 + a 2 1) r h0 h2
    linear_combination e
  · have e := prod_div (a 0 1 + a 1 0) (a 1 2 + a 2 1) (a 2 0 + a 0 2) r h0 h2 (by rw [hr]; exact minor2_13 a h)
    linear_combination e
  · have e := prod_div (a 0 2 - a 2 0) (a 0 1 + a 1 0) (a 2 1 - a 1 2) r h0 h2 (by rw [hr]; exact minor2_01 a h)
    linear_combination e
  · have e := prod_half (a 0 2 - a 2 0) r h0 h2
    linear_combination e
  · have e := prod_div (a 0 2 - a 2 0) (a 1 2 + a 2 1) (a 1 0 - a 0 1) r h0 h2 (by rw [hr]; exact minor2_03 a h)
    linear_combination e

/-- branch 2 of `rotation()` on a proper rotation matrix: with `r` a non-zero root of the branch's radicand, the quaternion
returned has the matrix it was computed from -/
theorem branch2_so3 (a : Nat → Nat → K) (h : SO3Rel a) (h2 : (2 : K) ≠ 0) (r : K)
    (hr : r * r = Gen.M4.rotRadicand2 (fld K) a) (h0 : r ≠ 0) :
    toM3 (Gen.Q.matrix (fld K) (Gen.M4.rotBranch2 (fld K) a r)) = toM3 a := by
  simp only [Gen.M4.rotRadicand2, fld_add, fld_sub, fld_lit, Nat.cast_one] at hr
  apply matrix_of_products a _ h2 <;>
    simp only [Gen.M4.rotBranch2, fld_add, fld_sub, fld_mul, fld_div, fld_half]
  · have e := prod_div (a 2 0 + a 0 2) (a 2 0 + a 0 2) (1 + a 0 0 - a 1 1 - a 2 2) r h0 h2 (by rw [hr]; exact minor3_11 a h)
    linear_combination e
  · have e := prod_div (a 1 2 + a 2 1) (a 1 2 + a 2 1) (1 + a 1 1 - a 2 2 - a 0 0) r h0 h2 (by rw [hr]; exact minor3_22 a h)
    linear_combination e
  · have e := prod_sq r h2
    linear_combination e + hr
  · have e := prod_div (a 2 0 + a 0 2) (a 1 2 + a 2 1) (a 0 1 + a 1 0) r h0 h2 (by rw [hr]; exact minor3_12 a h)
    linear_combination e
  · have e := prod_half (a 1 2 + a 2 1) r h0 h2
    linear_combination e
  · have e := prod_half (a 2 0 + a 0 2) r h0 h2
    linear_combination e
  · have e := prod_div (a 1 0 - a 0 1) (a 2 0 + a 0 2) (a 2 1 - a 1 2) r h0 h2 (by rw [hr]; exact minor3_01 a h)
    linear_combination e
  · have e := prod_div (a 1 0 - a 0 1) (a 1 2 + a 2 1) (a 0 2 - a 2 0) r h0 h2 (by rw [hr]; exact minor3_02 a h)
    linear_combination e
  · have e := prod_half (a 1 0 - a 0 1) r h0 h2
    linear_combination e

/-- branch 3 of `rotation()` on a proper rotation matrix: with `r` a non-zero root of the branch's radicand, the quaternion
returned has the matrix it was computed from -/
theorem branch3_so3 (a : Nat → Nat → K) (h : SO3Rel a) (h2 : (2 : K) ≠ 0) (r : K)
    (hr : r * r = Gen.M4.rotRadicand3 (fld K) a) (h0 : r ≠ 0) :
    toM3 (Gen.Q.matrix (fld K) (Gen.M4.rotBranch3 (fld K) a r)) = toM3 a := by
  simp only [Gen.M4.rotRadicand3, fld_add, fld_sub, fld_lit, Nat.cast_one] at hr
  apply matrix_of_products a _ h2 <;>
    simp only [Gen.M4.rotBranch3, fld_add, fld_sub, fld_mul, fld_div, fld_half]
  · have e := prod_sq r h2
    linear_combination e + hr
  · have e := prod_div (a 0 1 + a 1 0) (a 0 1 + a 1 0) (1 + a 1 1 - a 2 2 - a 0 0) r h0 h2 (by rw [hr]; exact minor1_22 a h)
    linear_combination e
  · have e := prod_div (a 2 0 + a 0 2) (a 2 0 + a 0 2) (1 + a 2 2 - a 0 0 - a 1 1) r h0 h2 (by rw [hr]; exact minor1_33 a h)
    linear_combination e
  · have e := prod_half (a 0 1 + a 1 0) r h0 h2
    linear_combination e
  · have e := prod_div (a 0 1 + a 1 0) (a 2 0 + a 0 2) (a 1 2 + a 2 1) r h0 h2 (by rw [hr]; exact minor1_23 a h)
    linear_combination e
  · have e := prod_half (a 2 0 + a 0 2) r h0 h2
    linear_combination e
  · have e := prod_half (a 2 1 - a 1 2) r h0 h2
    linear_combination e
  · have e := prod_div (a 2 1 - a 1 2) (a 0 1 + a 1 0) (a 0 2 - a 2 0) r h0 h2 (by rw [hr]; exact minor1_02 a h)
    linear_combination e
  · have e := prod_div (a 2 1 - a 1 2) (a 2 0 + a 0 2) (a 1 0 - a 0 1) r h0 h2 (by rw [hr]; exact minor1_03 a h)
    linear_combination e

/-- branch 0 on a proper rotation matrix returns a UNIT quaternion (the four radicands sum to 4) -/
theorem branch0_unit (a : Nat → Nat → K) (h : SO3Rel a) (h2 : (2 : K) ≠ 0) (r : K)
    (hr : r * r = Gen.M4.rotRadicand0 (fld K) a) (h0 : r ≠ 0) :
    UnitQuat (Gen.M4.rotBranch0 (fld K) a r) := by
  simp only [Gen.M4.rotRadicand0, fld_add, fld_sub, fld_lit, Nat.cast_one] at hr
  have h4 : (4 : K) ≠ 0 := by
    have : (4 : K) = 2 * 2 := by norm_num
    rw [this]; exact mul_ne_zero h2 h2
  unfold UnitQuat
  simp only [Gen.M4.rotBranch0, fld_add, fld_sub, fld_mul, fld_div, fld_half]
  apply mul_left_cancel₀ h4
  have e0 := prod_sq r h2
  have e1 := prod_div (a 2 1 - a 1 2) (a 2 1 - a 1 2) (1 + a 0 0 - a 1 1 - a 2 2) r h0 h2 (by rw [hr]; exact minor0_11 a h)
  have e2 := prod_div (a 0 2 - a 2 0) (a 0 2 - a 2 0) (1 + a 1 1 - a 2 2 - a 0 0) r h0 h2 (by rw [hr]; exact minor0_22 a h)
  have e3 := prod_div (a 1 0 - a 0 1) (a 1 0 - a 0 1) (1 + a 2 2 - a 0 0 - a 1 1) r h0 h2 (by rw [hr]; exact minor0_33 a h)
  linear_combination e0 + e1 + e2 + e3 + hr

/-- branch 1 on a proper rotation matrix returns a UNIT quaternion (the four radicands sum to 4) -/
theorem branch1_unit (a : Nat → Nat → K) (h : SO3Rel a) (h2 : (2 : K) ≠ 0) (r : K)
    (hr : r * r = Gen.M4.rotRadicand1 (fld K) a) (h0 : r ≠ 0) :
    UnitQuat (Gen.M4.rotBranch1 (fld K) a r) := by
  simp only [Gen.M4.rotRadicand1, fld_add, fld_sub, fld_lit, Nat.cast_one] at hr
  have h4 : (4 : K) ≠ 0 := by
    have : (4 : K) = 2 * 2 := by norm_num
    rw [this]; exact mul_ne_zero h2 h2
  unfold UnitQuat
  simp only [Gen.M4.rotBranch1, fld_add, fld_sub, fld_mul, fld_div, fld_half]
  apply mul_left_cancel₀ h4
  have e0 := prod_div (a 0 2 - a 2 0) (a 0 2 - a 2 0) (1 + (a 0 0 + a 1 1 + a 2 2)) r h0 h2 (by rw [hr]; exact minor2_00 a h)
  have e1 := prod_div (a 0 1 + a 1 0) (a 0 1 + a 1 0) (1 + a 0 0 - a 1 1 - a 2 2) r h0 h2 (by rw [hr]; exact minor2_11 a h)
  have e2 := prod_sq r h2
  have e3 := prod_div (a 1 2 + a 2 1) (a 1 2 + a 2 1) (1 + a 2 2 - a 0 0 - a 1 1) r h0 h2 (by rw [hr]; exact minor2_33 a h)
  linear_combination e0 + e1 + e2 + e3 + hr

/-- branch 2 on a proper rotation matrix returns a UNIT quaternion (the four radicands sum to 4) -/
theorem branch2_unit (a : Nat → Nat → K) (h : SO3Rel a) (h2 : (2 : K) ≠ 0) (r : K)
    (hr : r * r = Gen.M4.rotRadicand2 (fld K) a) (h0 : r ≠ 0) :
    UnitQuat (Gen.M4.rotBranch2 (fld K) a r) := by
  simp only [Gen.M4.rotRadicand2, fld_add, fld_sub, fld_lit, Nat.cast_one] at hr
  have h4 : (4 : K) ≠ 0 := by
    have : (4 : K) = 2 * 2 := by norm_num
    rw [this]; exact mul_ne_zero h2 h2
  unfold UnitQuat
  simp only [Gen.M4.rotBranch2, fld_add, fld_sub, fld_mul, fld_div, fld_half]
  apply mul_left_cancel₀ h4
  have e0 := prod_div (a 1 0 - a 0 1) (a 1 0 - a 0 1) (1 + (a 0 0 + a 1 1 + a 2 2)) r h0 h2 (by rw [hr]; exact minor3_00 a h)
  have e1 := prod_div (a 2 0 + a 0 2) (a 2 0 + a 0 2) (1 + a 0 0 - a 1 1 - a 2 2) r h0 h2 (by rw [hr]; exact minor3_11 a h)
  have e2 := prod_div (a 1 2 + a 2 1) (a 1 2 + a 2 1) (1 + a 1 1 - a 2 2 - a 0 0) r h0 h2 (by rw [hr]; exact minor3_22 a h)
  have e3 := prod_sq r h2
  linear_combination e0 + e1 + e2 + e3 + hr

/-- branch 3 on a proper rotation matrix returns a UNIT quaternion (the four radicands sum to 4) -/
theorem branch3_unit (a : Nat → Nat → K) (h : SO3Rel a) (h2 : (2 : K) ≠ 0) (r : K)
    (hr : r * r = Gen.M4.rotRadicand3 (fld K) a) (h0 : r ≠ 0) :
    UnitQuat (Gen.M4.rotBranch3 (fld K) a r) := by
  simp only [Gen.M4.rotRadicand3, fld_add, fld_sub, fld_lit, Nat.cast_one] at hr
  have h4 : (4 : K) ≠ 0 := by
    have : (4 : K) = 2 * 2 := by norm_num
    rw [this]; exact mul_ne_zero h2 h2
  unfold UnitQuat
  simp only [Gen.M4.rotBranch3, fld_add, fld_sub, fld_mul, fld_div, fld_half]
  apply mul_left_cancel₀ h4
  have e0 := prod_div (a 2 1 - a 1 2) (a 2 1 - a 1 2) (1 + (a 0 0 + a 1 1 + a 2 2)) r h0 h2 (by rw [hr]; exact minor1_00 a h)
  have e1 := prod_sq r h2
  have e2 := prod_div (a 0 1 + a 1 0) (a 0 1 + a 1 0) (1 + a 1 1 - a 2 2 - a 0 0) r h0 h2 (by rw [hr]; exact minor1_22 a h)
  have e3 := prod_div (a 2 0 + a 0 2) (a 2 0 + a 0 2) (1 + a 2 2 - a 0 0 - a 1 1) r h0 h2 (by rw [hr]; exact minor1_33 a h)
  linear_combination e0 + e1 + e2 + e3 + hr


section ordered
variable {R : Type} [Field R] [LinearOrder R] [IsStrictOrderedRing R]

/-- guard coverage of `rotation()` for an ARBITRARY matrix over an ordered field: the four guards are exhaustive, exactly
one branch is taken, and the radicand of the branch taken is at least 1 (the four radicands sum to 4, the first is below 1
when the trace is negative, and the guards pick the largest of the other three) -/
theorem rotation_selects_gen (C : Cmp R) (hlt : ∀ a b, C.lt a b = decide (a < b)) (a : Nat → Nat → R) :
    (Gen.M4.rotation (fld R) C a = Gen.M4.rotBranch0 (fld R) a (C.sqrt (Gen.M4.rotRadicand0 (fld R) a)) ∧ 1 ≤ Gen.M4.rotRadicand0 (fld R) a) ∨
    (Gen.M4.rotation (fld R) C a = Gen.M4.rotBranch1 (fld R) a (C.sqrt (Gen.M4.rotRadicand1 (fld R) a)) ∧ 1 ≤ Gen.M4.rotRadicand1 (fld R) a) ∨
    (Gen.M4.rotation (fld R) C a = Gen.M4.rotBranch2 (fld R) a (C.sqrt (Gen.M4.rotRadicand2 (fld R) a)) ∧ 1 ≤ Gen.M4.rotRadicand2 (fld R) a) ∨
    (Gen.M4.rotation (fld R) C a = Gen.M4.rotBranch3 (fld R) a (C.sqrt (Gen.M4.rotRadicand3 (fld R) a)) ∧ 1 ≤ Gen.M4.rotRadicand3 (fld R) a) := by
  simp only [Gen.M4.rotation, hlt, Gen.M4.rotRadicand0, Gen.M4.rotRadicand1, Gen.M4.rotRadicand2, Gen.M4.rotRadicand3,
    fld_add, fld_sub, fld_lit, Nat.cast_zero, Nat.cast_one]
  by_cases c0 : a 0 0 + a 1 1 + a 2 2 < 0
  · by_cases c1a : a 0 0 < a 1 1
    · by_cases c1b : a 1 1 < a 2 2
      · by_cases c2 : a 0 0 < a 2 2
        · right; right; left
          simp only [c0, c1a, c1b, c2, decide_true, decide_false, Bool.not_true, Bool.not_false, Bool.and_false, Bool.false_eq_true, if_false, if_true, true_and]
          linarith
        · right; right; right
          simp only [c0, c1a, c1b, c2, decide_true, decide_false, Bool.not_true, Bool.not_false, Bool.and_false, Bool.false_eq_true, if_false, if_true, true_and]
          linarith
      · right; left
        simp only [c0, c1a, c1b, decide_true, decide_false, Bool.not_true, Bool.not_false, Bool.and_true, Bool.false_eq_true, if_false, if_true, true_and]
        linarith
    · by_cases c2 : a 0 0 < a 2 2
      · right; right; left
        simp only [c0, c1a, c2, decide_true, decide_false, Bool.not_true, Bool.false_and, Bool.false_eq_true, if_false, if_true, true_and]
        linarith
      · right; right; right
        simp only [c0, c1a, c2, decide_true, decide_false, Bool.not_true, Bool.false_and, Bool.false_eq_true, if_false, if_true, true_and]
        linarith
  · left
    simp only [c0, decide_false, Bool.not_false, if_true, true_and]
    linarith

end ordered

end AslProofs.RotSO3
