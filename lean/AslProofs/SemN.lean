import AslModel.Thread
open AslModel.Thread.SemN
namespace AslProofs.SemN

theorem total_upd (n : Nat) (f : Nat → Nat) (k v : Nat) (hk : k < n) :
    total n (upd f k v) + f k = total n f + v := by
  unfold total
  induction n with
  | zero => omega
  | succ n ih =>
    rw [List.range_succ, List.map_append, List.map_append, List.sum_append, List.sum_append]
    simp only [List.map_cons, List.map_nil, List.sum_cons, List.sum_nil, Nat.add_zero]
    by_cases h : k = n
    · subst h
      have : (List.range k).map (upd f k v) = (List.range k).map f := by
        apply List.map_congr_left
        intro x hx
        have : x ≠ k := by have := List.mem_range.mp hx; omega
        simp [upd, this]
      rw [this]; simp [upd]; omega
    · have hk' : k < n := by omega
      have := ih hk'
      have hn : upd f k v n = f n := by simp [upd]; intro e; exact absurd e.symm h
      rw [hn]; omega

structure Inv (c c0 : Cfg) : Prop where
  nw : c.nW = c0.nW
  np : c.nP = c0.nP
  cons : c.count + c.doneW = c0.count + c.doneP
  tw : c.doneW + total c.nW c.wantW = total c0.nW c0.wantW
  tp : c.doneP + total c.nP c.wantP = total c0.nP c0.wantP

theorem inv_step (c c0 : Cfg) (a : Act) (h : Inv c c0) (he : enabled c a = true) : Inv (step c a) c0 := by
  obtain ⟨h1, h2, h3, h4, h5⟩ := h
  cases a with
  | wait i =>
    simp only [enabled, Bool.and_eq_true, decide_eq_true_eq] at he
    obtain ⟨⟨hi, hw⟩, hc⟩ := he
    have := total_upd c.nW c.wantW i (c.wantW i - 1) hi
    refine ⟨h1, h2, ?_, ?_, h5⟩
    · simp only [step]; omega
    · simp only [step]; omega
  | post j =>
    simp only [enabled, Bool.and_eq_true, decide_eq_true_eq] at he
    obtain ⟨hj, hp⟩ := he
    have := total_upd c.nP c.wantP j (c.wantP j - 1) hj
    refine ⟨h1, h2, ?_, h4, ?_⟩
    · simp only [step]; omega
    · simp only [step]; omega

theorem inv_run (r : List Act) (c c0 : Cfg) (h : Inv c c0) : Inv (run c r) c0 := by
  induction r generalizing c with
  | nil => exact h
  | cons a r ih =>
    unfold run
    by_cases he : enabled c a = true
    · simp only [he, if_true]; exact ih _ (inv_step c c0 a h he)
    · simp only [he]; exact ih c h

theorem inv_init (nW nP count : Nat) (wW wP : Nat → Nat) :
    Inv (init nW nP count wW wP) (init nW nP count wW wP) := by
  refine ⟨rfl, rfl, rfl, ?_, ?_⟩ <;> simp [init]

theorem total_zero (n : Nat) (f : Nat → Nat) (h : ∀ i, i < n → f i = 0) : total n f = 0 := by
  unfold total
  induction n with
  | zero => rfl
  | succ n ih =>
    rw [List.range_succ, List.map_append, List.sum_append, ih (fun i hi => h i (by omega))]
    simp [h n (by omega)]

end AslProofs.SemN
