import AslModel.Sha1
/-!
# SHA-1: the streaming implementation of src/SHA1.cpp equals FIPS 180-4 (core Lean only)

`transform_eq_compress` — the in-place circular 16-word message schedule of `SHA1::transform` computes
the 80-word FIPS schedule (invariant: the buffer holds the last 16 schedule words);
`finish_eq` / `hash_eq_fips` / `hashChunks_eq_fips` — buffering in `update`, the block loop, the
`0x80`, zero and length padding written through repeated `update` calls produce exactly the padded
message of FIPS 180-4 §5.1.1, for every message and every split into chunks.
Written for C11 (accept key); usable as C15's `sha1_eq_spec`.
-/
open AslModel.Sha1

namespace AslProofs.Sha1

/-- one step of the FIPS message schedule -/
def schedStep (ws : List W) (t : Nat) : List W :=
  let t := t + 16
  ws ++ [rol (ws.getD (t - 3) 0 ^^^ ws.getD (t - 8) 0 ^^^ ws.getD (t - 14) 0 ^^^ ws.getD (t - 16) 0) 1]

def schedN (w16 : List W) (n : Nat) : List W := (List.range n).foldl schedStep w16

theorem schedule_eq (w16 : List W) : Fips.schedule w16 = schedN w16 64 := rfl

theorem schedN_succ (w16 : List W) (n : Nat) : schedN w16 (n + 1) = schedStep (schedN w16 n) n := by
  simp [schedN, List.range_succ, List.foldl_append]

theorem schedN_length (w16 : List W) (h : w16.length = 16) (n : Nat) : (schedN w16 n).length = 16 + n := by
  induction n with
  | zero => simp [schedN, h]
  | succ n ih => rw [schedN_succ, schedStep]; simp [ih]; omega

theorem schedN_getD_stable (w16 : List W) (h : w16.length = 16) (n m i : Nat) (hnm : n ≤ m) (hi : i < 16 + n) :
    (schedN w16 m).getD i 0 = (schedN w16 n).getD i 0 := by
  induction m with
  | zero => have : n = 0 := by omega
            subst this; rfl
  | succ m ih =>
    by_cases hm : n = m + 1
    · subst hm; rfl
    · rw [schedN_succ, schedStep]
      have hl := schedN_length w16 h m
      simp only [List.getD_eq_getElem?_getD]
      rw [List.getElem?_append_left (by omega)]
      have := ih (by omega)
      simpa [List.getD_eq_getElem?_getD] using this

/-- the word `W_t` of the full schedule -/
def Wt (w16 : List W) (t : Nat) : W := (schedN w16 64).getD t 0

theorem Wt_rec (w16 : List W) (h : w16.length = 16) (t : Nat) (h16 : 16 ≤ t) (h80 : t < 80) :
    Wt w16 t = rol (Wt w16 (t - 3) ^^^ Wt w16 (t - 8) ^^^ Wt w16 (t - 14) ^^^ Wt w16 (t - 16)) 1 := by
  obtain ⟨n, rfl⟩ : ∃ n, t = n + 16 := ⟨t - 16, by omega⟩
  unfold Wt
  have hl := schedN_length w16 h n
  rw [schedN_getD_stable w16 h (n + 1) 64 (n + 16) (by omega) (by omega)]
  rw [schedN_getD_stable w16 h n 64 (n + 16 - 3) (by omega) (by omega)]
  rw [schedN_getD_stable w16 h n 64 (n + 16 - 8) (by omega) (by omega)]
  rw [schedN_getD_stable w16 h n 64 (n + 16 - 14) (by omega) (by omega)]
  rw [schedN_getD_stable w16 h n 64 (n + 16 - 16) (by omega) (by omega)]
  rw [schedN_succ, schedStep]
  simp only [List.getD_eq_getElem?_getD]
  rw [List.getElem?_append_right (by omega)]
  have : n + 16 - (schedN w16 n).length = 0 := by omega
  simp [this]

theorem Wt_init (w16 : List W) (h : w16.length = 16) (t : Nat) (ht : t < 16) : Wt w16 t = w16.getD t 0 := by
  unfold Wt
  rw [schedN_getD_stable w16 h 0 64 t (by omega) (by omega)]
  rfl


theorem getD_set (a : Array W) (i k : Nat) (v : W) (hi : i < a.size) :
    (a.setIfInBounds i v).getD k 0 = if i = k then v else a.getD k 0 := by
  simp only [Array.getD_eq_getD_getElem?, Array.getElem?_setIfInBounds, hi, if_true]
  split <;> simp

/-- the circular 16-word buffer holds the last 16 schedule words -/
def Inv (w16 : List W) (blk : Array W) (t : Nat) : Prop :=
  blk.size = 16 ∧ ∀ j, j < max t 16 → max t 16 ≤ j + 16 → blk.getD (j % 16) 0 = Wt w16 j

theorem rounds_eq (w16 : List W) (h16 : w16.length = 16) : ∀ (fuel : Nat) (blk : Array W) (s : St) (t : Nat),
    Inv w16 blk t → t + fuel ≤ 80 →
    Impl.rounds blk s t fuel = (List.range' t fuel).foldl (fun s t => round t s (Wt w16 t)) s := by
  intro fuel
  induction fuel with
  | zero => intro blk s t _ _; rfl
  | succ fuel ih =>
    intro blk s t hinv hle
    rw [Impl.rounds, List.range'_succ, List.foldl_cons]
    by_cases ht : t < 16
    · simp only [ht, if_true]
      have hw : blk.getD t 0 = Wt w16 t := by
        have := hinv.2 t (by omega) (by omega)
        rwa [Nat.mod_eq_of_lt ht] at this
      rw [hw]
      apply ih _ _ _ _ (by omega)
      refine ⟨hinv.1, fun j hj1 hj2 => hinv.2 j (by omega) (by omega)⟩
    · simp only [ht, if_false]
      have hm : max t 16 = t := by omega
      have e1 : blk.getD ((t + 13) % 16) 0 = Wt w16 (t - 3) := by
        have := hinv.2 (t - 3) (by omega) (by omega)
        rwa [show (t - 3) % 16 = (t + 13) % 16 by omega] at this
      have e2 : blk.getD ((t + 8) % 16) 0 = Wt w16 (t - 8) := by
        have := hinv.2 (t - 8) (by omega) (by omega)
        rwa [show (t - 8) % 16 = (t + 8) % 16 by omega] at this
      have e3 : blk.getD ((t + 2) % 16) 0 = Wt w16 (t - 14) := by
        have := hinv.2 (t - 14) (by omega) (by omega)
        rwa [show (t - 14) % 16 = (t + 2) % 16 by omega] at this
      have e4 : blk.getD (t % 16) 0 = Wt w16 (t - 16) := by
        have := hinv.2 (t - 16) (by omega) (by omega)
        rwa [show (t - 16) % 16 = t % 16 by omega] at this
      rw [e1, e2, e3, e4, ← Wt_rec w16 h16 t (by omega) (by omega)]
      apply ih _ _ _ _ (by omega)
      refine ⟨by rw [Array.size_setIfInBounds]; exact hinv.1, fun j hj1 hj2 => ?_⟩
      rw [getD_set _ _ _ _ (by rw [hinv.1]; omega)]
      by_cases hj : j = t
      · subst hj; simp
      · have : t % 16 ≠ j % 16 := by omega
        simp only [this, if_false]
        exact hinv.2 j (by omega) (by omega)

theorem words_length (b : List UInt8) : (words b).length = b.length / 4 := by
  fun_induction words b with
  | case1 b0 b1 b2 b3 t ih => simp [ih]; omega
  | case2 l h =>
    match l, h with
    | [], _ => simp
    | [_], _ => simp
    | [_, _], _ => simp
    | [_, _, _], _ => simp
    | a :: b :: c :: d :: t, h => exact absurd rfl (h a b c d t)

/-- `SHA1::transform` (in-place circular schedule) is the FIPS compression function -/
theorem transform_eq_compress (h : St) (block : List UInt8) (hb : block.length = 64) :
    Impl.transform h block = Fips.compress h block := by
  have h16 : (words block).length = 16 := by rw [words_length, hb]
  unfold Impl.transform Fips.compress
  have hr : Impl.rounds (words block).toArray h 0 80
      = (List.range 80).foldl (fun s t => round t s ((Fips.schedule (words block)).getD t 0)) h := by
    rw [rounds_eq (words block) h16 80 _ h 0 ?_ (by omega), List.range_eq_range']
    · rfl
    · refine ⟨by simp [h16], fun j hj1 hj2 => ?_⟩
      have hj : j < 16 := by omega
      rw [Nat.mod_eq_of_lt hj, Wt_init _ h16 j hj]
      simp [Array.getD_eq_getD_getElem?, List.getD_eq_getElem?_getD]
  simp only [hr]


/-- fold the FIPS compression function over the complete 64-byte blocks of `l` -/
def foldBlocks (h : St) (l : List UInt8) : St := (Fips.chunks64 l (l.length / 64 + 1)).foldl Fips.compress h

theorem foldBlocks_block (h : St) (b r : List UInt8) (hb : b.length = 64) :
    foldBlocks h (b ++ r) = foldBlocks (Fips.compress h b) r := by
  unfold foldBlocks
  have hf : (b ++ r).length / 64 + 1 = (r.length / 64 + 1) + 1 := by
    simp only [List.length_append, hb]; omega
  rw [hf, Fips.chunks64]
  have hge : (b ++ r).length ≥ 64 := by simp [hb]
  simp only [hge, if_true, List.foldl_cons]
  have ht : (b ++ r).take 64 = b := by rw [← hb]; exact List.take_left' rfl
  have hd : (b ++ r).drop 64 = r := by rw [← hb]; exact List.drop_left' rfl
  rw [ht, hd]

theorem foldBlocks_short (h : St) (r : List UInt8) (hr : r.length < 64) : foldBlocks h r = h := by
  unfold foldBlocks
  have : r.length / 64 = 0 := by omega
  rw [this, Fips.chunks64]
  have : ¬ r.length ≥ 64 := by omega
  simp [this]

theorem blocks_spec : ∀ (fuel : Nat) (h : St) (d : List UInt8), d.length / 64 < fuel →
    (Impl.blocks h d fuel).2.length = d.length % 64 ∧
    ∀ tail, foldBlocks h (d ++ tail) = foldBlocks (Impl.blocks h d fuel).1 ((Impl.blocks h d fuel).2 ++ tail) := by
  intro fuel
  induction fuel with
  | zero => intro h d hf; omega
  | succ fuel ih =>
    intro h d hf
    rw [Impl.blocks]
    by_cases hge : d.length ≥ 64
    · simp only [hge, if_true]
      have hlt : (d.drop 64).length / 64 < fuel := by simp; omega
      obtain ⟨h1, h2⟩ := ih (Impl.transform h (d.take 64)) (d.drop 64) hlt
      refine ⟨by rw [h1]; simp; omega, fun tail => ?_⟩
      have ht : (d.take 64).length = 64 := by simp; omega
      rw [← h2 tail, transform_eq_compress _ _ ht, ← foldBlocks_block h (d.take 64) _ ht, ← List.append_assoc, List.take_append_drop]
    · simp only [hge, if_false]
      exact ⟨by omega, fun _ => trivial⟩

/-- the streaming context `c` has absorbed the message prefix `m` -/
structure Rep (c : Impl.Ctx) (m : List UInt8) : Prop where
  buflen : c.buf.length = m.length % 64
  count : c.count = 8 * m.length % 2 ^ 64
  cont : ∀ tail, foldBlocks init (m ++ tail) = foldBlocks c.h (c.buf ++ tail)

theorem rep_new : Rep Impl.new [] := ⟨rfl, rfl, fun _ => rfl⟩

theorem rep_update (c : Impl.Ctx) (m d : List UInt8) (hr : Rep c m) : Rep (Impl.update c d) (m ++ d) := by
  have hj : c.buf.length < 64 := by rw [hr.buflen]; omega
  unfold Impl.update
  simp only
  by_cases hbig : c.buf.length + d.length > 63
  · simp only [hbig, if_true]
    have hi : 64 - c.buf.length ≤ d.length := by omega
    have hb1 : (c.buf ++ d.take (64 - c.buf.length)).length = 64 := by simp; omega
    have hfu : (d.drop (64 - c.buf.length)).length / 64 < d.length / 64 + 1 := by
      simp; omega
    obtain ⟨h1, h2⟩ := blocks_spec (d.length / 64 + 1) (Impl.transform c.h (c.buf ++ d.take (64 - c.buf.length))) (d.drop (64 - c.buf.length)) hfu
    refine ⟨?_, ?_, ?_⟩
    · simp only [h1, List.length_drop, List.length_append]
      have := hr.buflen; omega
    · simp only [List.length_append]; have := hr.count; omega
    · intro tail
      simp only
      rw [← h2 tail, transform_eq_compress _ _ hb1, ← foldBlocks_block c.h _ _ hb1, List.append_assoc, hr.cont]
      congr 1
      simp only [List.append_assoc]
      rw [← List.append_assoc (d.take _), List.take_append_drop]
  · simp only [hbig, if_false]
    refine ⟨?_, ?_, ?_⟩
    · simp only [List.length_append]; have := hr.buflen; omega
    · simp only [List.length_append]; have := hr.count; omega
    · intro tail
      simp only [List.append_assoc]
      exact hr.cont (d ++ tail)


theorem padZeros_spec : ∀ (fuel : Nat) (c : Impl.Ctx) (x : List UInt8), Rep c x → (120 - x.length % 64) % 64 ≤ fuel →
    Rep (Impl.padZeros c fuel) (x ++ List.replicate ((120 - x.length % 64) % 64) 0) := by
  intro fuel
  induction fuel with
  | zero =>
    intro c x hr hk
    have hk0 : (120 - x.length % 64) % 64 = 0 := by omega
    rw [hk0, Impl.padZeros]; simpa using hr
  | succ fuel ih =>
    intro c x hr hk
    rw [Impl.padZeros]
    have hc := hr.count
    by_cases h56 : x.length % 64 = 56
    · have hcond : (c.count % 512 / 8 * 8 != 448) = false := by
        have : c.count % 512 / 8 * 8 = 448 := by rw [hc]; omega
        simp [this]
      have hk0 : (120 - x.length % 64) % 64 = 0 := by omega
      simp only [hcond, Bool.false_eq_true, if_false, hk0]
      simpa using hr
    · have hcond : (c.count % 512 / 8 * 8 != 448) = true := by
        have : c.count % 512 / 8 * 8 ≠ 448 := by rw [hc]; omega
        simp [this]
      simp only [hcond, if_true]
      have hr' := rep_update c x [0] hr
      have hk' : (120 - (x ++ [0]).length % 64) % 64 ≤ fuel := by simp; omega
      have := ih _ _ hr' hk'
      have hs : (120 - x.length % 64) % 64 = (120 - (x ++ [0]).length % 64) % 64 + 1 := by simp; omega
      rw [hs, List.replicate_succ]
      simpa using this

theorem be64_mod (n : Nat) : Impl.be64 (n % 2 ^ 64) = Impl.be64 n := by
  unfold Impl.be64
  simp only [List.map_cons, List.map_nil, Nat.shiftRight_eq_div_pow]
  have e : ∀ a b : Nat, a = b → UInt8.ofNat a = UInt8.ofNat b := fun _ _ h => by rw [h]
  congr 1
  · apply e; omega
  congr 1
  · apply e; omega
  congr 1
  · apply e; omega
  congr 1
  · apply e; omega
  congr 1
  · apply e; omega
  congr 1
  · apply e; omega
  congr 1
  · apply e; omega
  congr 1
  · apply e; omega

/-- `end()` on a context that has absorbed `m` yields the FIPS 180-4 digest of `m` -/
theorem finish_eq (c : Impl.Ctx) (m : List UInt8) (r0 : Rep c m) : Impl.finish c = Fips.sha1 m := by
  unfold Impl.finish Fips.sha1
  simp only
  have r1 := rep_update _ _ [0x80] r0
  have hz : (120 - (m ++ [0x80]).length % 64) % 64 = (119 - m.length % 64) % 64 := by simp; omega
  have r2 := padZeros_spec 64 _ _ r1 (by omega)
  rw [hz] at r2
  have r3 := rep_update _ _ (Impl.be64 c.count) r2
  rw [r0.count, be64_mod] at r3
  have hpad : Fips.pad m = m ++ [0x80] ++ List.replicate ((119 - m.length % 64) % 64) 0 ++ Impl.be64 (8 * m.length) := rfl
  rw [hpad, r0.count, be64_mod]
  have hlen : (Impl.update (Impl.padZeros (Impl.update c [0x80]) 64) (Impl.be64 (8 * m.length))).buf.length = 0 := by
    rw [r3.buflen]
    simp [Impl.be64]; omega
  have hbuf := List.length_eq_zero_iff.mp hlen
  have hc := r3.cont []
  simp only [List.append_nil] at hc
  rw [hbuf] at hc
  have : foldBlocks (Impl.update (Impl.padZeros (Impl.update c [0x80]) 64) (Impl.be64 (8 * m.length))).h [] =
      (Impl.update (Impl.padZeros (Impl.update c [0x80]) 64) (Impl.be64 (8 * m.length))).h := foldBlocks_short _ _ (by simp)
  rw [this] at hc
  rw [← hc]
  rfl

/-- **SHA-1 of the streaming implementation = FIPS 180-4** for every message -/
theorem hash_eq_fips (m : List UInt8) : Impl.hash m = Fips.sha1 m := by
  unfold Impl.hash
  exact finish_eq _ m (by simpa using rep_update Impl.new [] m rep_new)

theorem rep_foldl (ds : List (List UInt8)) : ∀ (c : Impl.Ctx) (m : List UInt8), Rep c m →
    Rep (ds.foldl Impl.update c) (m ++ ds.flatten) := by
  induction ds with
  | nil => intro c m h; simpa using h
  | cons d ds ih =>
    intro c m h
    have := ih _ _ (rep_update c m d h)
    simpa [List.append_assoc] using this

/-- … and for every way of feeding the message in pieces -/
theorem hashChunks_eq_fips (ds : List (List UInt8)) : Impl.hashChunks ds = Fips.sha1 ds.flatten := by
  unfold Impl.hashChunks
  exact finish_eq _ _ (by simpa using rep_foldl ds Impl.new [] rep_new)

end AslProofs.Sha1
