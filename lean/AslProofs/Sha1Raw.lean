import AslModel.Sha1Raw
import AslProofs.Sha1
import AslProofs.Sha1Std
/-! The `SHA1` object with its full 64-byte buffer and two 32-bit count words (`Raw`) is simulated by the streaming
context `Impl.Ctx` — helper lemmas for C15; statements in `AslProps/C15.lean`. -/
namespace AslProofs.Sha1Raw
open AslModel.Sha1 AslProofs.Sha1

/-- `c` is what is live in the object `o` -/
structure Sim (o : Raw.Obj) (c : Impl.Ctx) : Prop where
  h : c.h = o.state
  count : c.count = o.c1.toNat * 2 ^ 32 + o.c0.toNat
  len : o.buffer.length = 64
  buf : c.buf = o.buffer.take c.buf.length

theorem sim_new : Sim Raw.new Impl.new := ⟨rfl, rfl, by simp [Raw.new], by simp [Impl.new]⟩

theorem loop_blocks (d : List UInt8) : ∀ (fuel : Nat) (h : St) (i : Nat),
    Impl.blocks h (d.drop i) fuel = ((Raw.loop h d i fuel).1, d.drop (Raw.loop h d i fuel).2) := by
  intro fuel
  induction fuel with
  | zero => intro h i; simp [Impl.blocks, Raw.loop]
  | succ fuel ih =>
    intro h i
    unfold Impl.blocks Raw.loop
    by_cases hc : i + 63 < d.length
    · have h2 : (d.drop i).length ≥ 64 := by simp; omega
      simp only [hc, h2, if_true, List.drop_drop]
      exact ih _ _
    · have h2 : ¬ (d.drop i).length ≥ 64 := by simp; omega
      simp only [hc, h2, if_false]

theorem memcpyAt_length (b : List UInt8) (j : Nat) (s : List UInt8) (hb : b.length = 64) (h : j + s.length ≤ 64) :
    (Raw.memcpyAt b j s).length = 64 := by
  simp [Raw.memcpyAt]; omega

theorem j_eq (o : Raw.Obj) (c : Impl.Ctx) (m : List UInt8) (hr : Rep c m) (hs : Sim o c) :
    (o.c0 >>> 3).toNat % 64 = c.buf.length := by
  have h1 := hr.buflen; have h2 := hr.count; have h3 := hs.count
  have h4 := o.c0.toNat_lt
  rw [UInt32.toNat_shiftRight]
  simp only [Nat.shiftRight_eq_div_pow, UInt32.toNat_ofNat, Nat.reduceMod, Nat.reducePow]
  omega

theorem sim_update (o : Raw.Obj) (c : Impl.Ctx) (m d : List UInt8) (hr : Rep c m) (hs : Sim o c)
    (hd : d.length < 2 ^ 31) : Sim (Raw.update o d) (Impl.update c d) := by
  have hr' := rep_update c m d hr
  have hj : c.buf.length < 64 := by rw [hr.buflen]; omega
  have hjc := j_eq o c m hr hs
  have hcw := AslProofs.Sha1Std.count_words_exact o.c0 o.c1 d.length hd
  have hcount : (c.count + 8 * d.length) % 2 ^ 64 =
      (Impl.countWords o.c0 o.c1 d.length).2.toNat * 2 ^ 32 + (Impl.countWords o.c0 o.c1 d.length).1.toNat := by
    rw [hcw, hs.count]
  have hlen := hs.len
  have hbuf := hs.buf
  by_cases hbig : c.buf.length + d.length > 63
  · have hb1 : Raw.memcpyAt o.buffer c.buf.length (d.take (64 - c.buf.length)) = c.buf ++ d.take (64 - c.buf.length) := by
      unfold Raw.memcpyAt
      rw [← hbuf]
      have : o.buffer.drop (c.buf.length + (d.take (64 - c.buf.length)).length) = [] := by
        apply List.drop_eq_nil_of_le
        simp; omega
      rw [this, List.append_nil]
    have hlb := loop_blocks d (d.length / 64 + 1) (Impl.transform c.h (c.buf ++ d.take (64 - c.buf.length))) (64 - c.buf.length)
    have hI : Impl.update c d = ⟨(Raw.loop (Impl.transform c.h (c.buf ++ d.take (64 - c.buf.length))) d (64 - c.buf.length) (d.length / 64 + 1)).1,
        (c.count + 8 * d.length) % 2 ^ 64,
        d.drop (Raw.loop (Impl.transform c.h (c.buf ++ d.take (64 - c.buf.length))) d (64 - c.buf.length) (d.length / 64 + 1)).2⟩ := by
      simp only [Impl.update, hbig, if_true, hlb]
    have hR : Raw.update o d = ⟨(Raw.loop (Impl.transform c.h (c.buf ++ d.take (64 - c.buf.length))) d (64 - c.buf.length) (d.length / 64 + 1)).1,
        (Impl.countWords o.c0 o.c1 d.length).1, (Impl.countWords o.c0 o.c1 d.length).2,
        Raw.memcpyAt (c.buf ++ d.take (64 - c.buf.length)) 0
          (d.drop (Raw.loop (Impl.transform c.h (c.buf ++ d.take (64 - c.buf.length))) d (64 - c.buf.length) (d.length / 64 + 1)).2)⟩ := by
      simp only [Raw.update, hjc, hbig, if_true, hb1, hs.h]
    have hrl := hr'.buflen
    rw [hI] at hrl ⊢
    rw [hR]
    simp only at hrl
    refine ⟨rfl, hcount, ?_, ?_⟩
    · apply memcpyAt_length
      · simp; omega
      · omega
    · simp [Raw.memcpyAt]
  · have hI : Impl.update c d = ⟨c.h, (c.count + 8 * d.length) % 2 ^ 64, c.buf ++ d⟩ := by
      simp only [Impl.update, hbig, if_false]
    have hR : Raw.update o d = ⟨o.state, (Impl.countWords o.c0 o.c1 d.length).1, (Impl.countWords o.c0 o.c1 d.length).2,
        Raw.memcpyAt o.buffer c.buf.length d⟩ := by
      simp only [Raw.update, hjc, hbig, if_false]
    rw [hI, hR]
    refine ⟨hs.h, hcount, ?_, ?_⟩
    · apply memcpyAt_length _ _ _ hlen; omega
    · show c.buf ++ d = (Raw.memcpyAt o.buffer c.buf.length d).take (c.buf ++ d).length
      unfold Raw.memcpyAt
      rw [← hbuf]
      simp only [List.length_append]
      rw [List.take_left' (by simp)]

theorem and504_small : ∀ y, y < 512 → y &&& 504 = y / 8 * 8 := by decide +kernel

theorem and504 (x : Nat) : x &&& 504 = x % 512 / 8 * 8 := by
  have h1 : (504 : Nat) = 511 &&& 504 := by decide
  have h2 : x &&& 511 = x % 512 := Nat.and_two_pow_sub_one_eq_mod x 9
  rw [h1, ← Nat.and_assoc, h2]
  rw [and504_small _ (Nat.mod_lt _ (by decide))]

theorem cond_eq (o : Raw.Obj) (c : Impl.Ctx) (hs : Sim o c) :
    ((o.c0 &&& 504) != 448) = (c.count % 512 / 8 * 8 != 448) := by
  have h1 : (o.c0 &&& 504).toNat = o.c0.toNat % 512 / 8 * 8 := by
    rw [UInt32.toNat_and]; exact and504 _
  have h2 : c.count % 512 = o.c0.toNat % 512 := by have := hs.count; omega
  have e : ∀ a : UInt32, (a = 448) ↔ (a.toNat = 448) :=
    fun a => ⟨fun h => by rw [h]; rfl, fun h => UInt32.toNat_inj.mp (by rw [h]; rfl)⟩
  rw [Bool.eq_iff_iff]
  simp only [bne_iff_ne, ne_eq]
  rw [h2, ← h1, e]

theorem sim_padLoop : ∀ (fuel : Nat) (o : Raw.Obj) (c : Impl.Ctx) (x : List UInt8), Rep c x → Sim o c →
    Sim (Raw.padLoop o fuel) (Impl.padZeros c fuel) ∧ ∃ x', Rep (Impl.padZeros c fuel) x' := by
  intro fuel
  induction fuel with
  | zero => intro o c x hr hs; exact ⟨hs, x, hr⟩
  | succ fuel ih =>
    intro o c x hr hs
    unfold Raw.padLoop Impl.padZeros
    rw [cond_eq o c hs]
    by_cases hc : (c.count % 512 / 8 * 8 != 448) = true
    · simp only [hc, if_true]
      exact ih _ _ (x ++ [0]) (rep_update c x [0] hr) (sim_update o c x [0] hr hs (by decide))
    · simp only [hc]
      exact ⟨hs, x, hr⟩

theorem finalcount_eq (o : Raw.Obj) (c : Impl.Ctx) (hs : Sim o c) : Raw.finalcount o = Impl.be64 c.count := by
  have h0 := o.c0.toNat_lt
  have h1 := o.c1.toNat_lt
  rw [hs.count]
  simp only [Raw.finalcount, Impl.be32bytes, Impl.be64, List.map, List.cons_append, List.nil_append,
    UInt32.toNat_shiftRight, Nat.shiftRight_eq_div_pow, UInt32.toNat_ofNat, Nat.reduceMod, Nat.reducePow]
  congr 1; · congr 1; omega
  congr 1; · congr 1; omega
  congr 1; · congr 1; omega
  congr 1; · congr 1; omega
  congr 1; · congr 1; omega
  congr 1; · congr 1; omega
  congr 1; · congr 1; omega
  congr 1; congr 1; omega

/-- `end()` on the object = `end()` on the context it is simulated by -/
theorem finish_eq (o : Raw.Obj) (c : Impl.Ctx) (m : List UInt8) (hr : Rep c m) (hs : Sim o c) :
    Raw.finish o = Impl.finish c := by
  unfold Raw.finish Impl.finish
  simp only
  rw [finalcount_eq o c hs]
  have r1 := rep_update c m [0x80] hr
  have s1 := sim_update o c m [0x80] hr hs (by decide)
  obtain ⟨s2, x, r2⟩ := sim_padLoop 64 _ _ _ r1 s1
  have s3 := sim_update _ _ x (Impl.be64 c.count) r2 s2 (by simp [Impl.be64])
  rw [s3.h]

theorem sim_foldl (ds : List (List UInt8)) (hd : ∀ d ∈ ds, d.length < 2 ^ 31) : ∀ (o : Raw.Obj) (c : Impl.Ctx) (m : List UInt8),
    Rep c m → Sim o c → Sim (ds.foldl Raw.update o) (ds.foldl Impl.update c) ∧ Rep (ds.foldl Impl.update c) (m ++ ds.flatten) := by
  induction ds with
  | nil => intro o c m hr hs; exact ⟨hs, by simpa using hr⟩
  | cons d ds ih =>
    intro o c m hr hs
    have h1 := ih (fun x hx => hd x (List.mem_cons_of_mem _ hx)) _ _ _ (rep_update c m d hr)
      (sim_update o c m d hr hs (hd d List.mem_cons_self))
    simpa [List.append_assoc] using h1

/-- the object driven by any sequence of `update` calls (each `int len ≥ 0`) and `end()` = the streaming context model -/
theorem raw_hashChunks_eq (ds : List (List UInt8)) (hd : ∀ d ∈ ds, d.length < 2 ^ 31) :
    Raw.hashChunks ds = Impl.hashChunks ds := by
  unfold Raw.hashChunks Impl.hashChunks
  obtain ⟨hs, hr⟩ := sim_foldl ds hd Raw.new Impl.new [] rep_new sim_new
  exact finish_eq _ _ _ hr hs

end AslProofs.Sha1Raw
