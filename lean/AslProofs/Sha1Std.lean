import AslModel.Sha1
import AslProofs.Sha1
open AslModel.Sha1
namespace AslProofs.Sha1Std

theorem ch_eq (b c d : UInt32) : (b &&& (c ^^^ d)) ^^^ d = (b &&& c) ^^^ (~~~b &&& d) := by
  apply UInt32.eq_of_toBitVec_eq
  simp only [UInt32.toBitVec_xor, UInt32.toBitVec_and, UInt32.toBitVec_not]
  ext i hi
  simp only [BitVec.getElem_xor, BitVec.getElem_and, BitVec.getElem_not]
  cases b.toBitVec[i] <;> cases c.toBitVec[i] <;> cases d.toBitVec[i] <;> rfl

theorem maj_eq (b c d : UInt32) : ((b ||| c) &&& d) ||| (b &&& c) = (b &&& c) ^^^ (b &&& d) ^^^ (c &&& d) := by
  apply UInt32.eq_of_toBitVec_eq
  simp only [UInt32.toBitVec_xor, UInt32.toBitVec_and, UInt32.toBitVec_or]
  ext i hi
  simp only [BitVec.getElem_xor, BitVec.getElem_and, BitVec.getElem_or]
  cases b.toBitVec[i] <;> cases c.toBitVec[i] <;> cases d.toBitVec[i] <;> rfl

/-- the code's round functions are the standard's -/
theorem f_eq (t : Nat) (b c d : W) : f t b c d = Std.ft t b c d := by
  unfold f Std.ft Std.Ch Std.Parity Std.Maj
  by_cases h1 : t < 20
  · have : t ≤ 19 := by omega
    simp only [h1, this, if_true]; exact ch_eq b c d
  · by_cases h2 : t < 40
    · have a1 : ¬ t ≤ 19 := by omega
      have a2 : t ≤ 39 := by omega
      simp only [h1, h2, a1, a2, if_true, if_false]
    · by_cases h3 : t < 60
      · have a1 : ¬ t ≤ 19 := by omega
        have a2 : ¬ t ≤ 39 := by omega
        have a3 : t ≤ 59 := by omega
        simp only [h1, h2, h3, a1, a2, a3, if_true, if_false]; exact maj_eq b c d
      · have a1 : ¬ t ≤ 19 := by omega
        have a2 : ¬ t ≤ 39 := by omega
        have a3 : ¬ t ≤ 59 := by omega
        simp only [h1, h2, h3, a1, a2, a3, if_false]

theorem k_eq (t : Nat) : k t = Std.Kt t := by
  unfold k Std.Kt
  by_cases h1 : t < 20
  · have : t ≤ 19 := by omega
    simp [h1, this]
  · by_cases h2 : t < 40
    · have a1 : ¬ t ≤ 19 := by omega
      have a2 : t ≤ 39 := by omega
      simp [h1, h2, a1, a2]
    · by_cases h3 : t < 60
      · have a1 : ¬ t ≤ 19 := by omega
        have a2 : ¬ t ≤ 39 := by omega
        have a3 : t ≤ 59 := by omega
        simp [h1, h2, h3, a1, a2, a3]
      · have a1 : ¬ t ≤ 19 := by omega
        have a2 : ¬ t ≤ 39 := by omega
        have a3 : ¬ t ≤ 59 := by omega
        simp [h1, h2, h3, a1, a2, a3]

theorem rol_eq (x : W) (n : Nat) : rol x n = Std.ROTL n x := rfl

theorem init_eq : init = Std.H0 := by decide

theorem round_eq (ws : List W) (s : St) (t : Nat) : round t s (ws.getD t 0) = Std.stepT ws s t := by
  unfold round Std.stepT
  simp only [f_eq, k_eq, rol_eq]

theorem schedule_eq_std (M : List W) : Fips.schedule M = Std.schedule M := rfl

theorem compress_eq (H : St) (block : List UInt8) : Fips.compress H block = Std.compress H block := by
  unfold Fips.compress Std.compress
  simp only [schedule_eq_std]
  have : (fun s t => round t s ((Std.schedule (words block)).getD t 0)) = Std.stepT (Std.schedule (words block)) := by
    funext s t; exact round_eq _ s t
  rw [this]
  simp only [UInt32.add_comm]

theorem be64_eq (n : Nat) : Impl.be64 n = Std.be64 n := by
  unfold Impl.be64 Std.be64
  simp only [List.map_cons, List.map_nil, Nat.shiftRight_eq_div_pow]


theorem pad_eq (m : List UInt8) : Fips.pad m = Std.pad m := by
  unfold Fips.pad Std.pad
  simp only [be64_eq]
  have : (119 - m.length % 64) % 64 = (64 - (m.length + 9) % 64) % 64 := by omega
  rw [this]

theorem fips_eq_std (m : List UInt8) : Fips.sha1 m = Std.sha1 m := by
  unfold Fips.sha1 Std.sha1
  simp only [pad_eq, init_eq]
  have : Fips.compress = Std.compress := by funext H b; exact compress_eq H b
  rw [this]

theorem pad_length (m : List UInt8) : (Std.pad m).length % 64 = 0 := by
  unfold Std.pad Std.be64
  simp only [List.length_append, List.length_cons, List.length_nil, List.length_replicate, List.length_map]
  omega

theorem count_words_exact (c0 c1 : UInt32) (len : Nat) (hl : len < 2 ^ 31) :
    (Impl.countWords c0 c1 len).2.toNat * 2 ^ 32 + (Impl.countWords c0 c1 len).1.toNat =
      (c1.toNat * 2 ^ 32 + c0.toNat + 8 * len) % 2 ^ 64 := by
  unfold Impl.countWords
  have h0 := c0.toNat_lt
  have h1 := c1.toNat_lt
  have hlen : (UInt32.ofNat len).toNat = len := by
    rw [UInt32.toNat_ofNat']; exact Nat.mod_eq_of_lt (by omega)
  have hadd : (UInt32.ofNat len <<< 3).toNat = (len * 8) % 2 ^ 32 := by
    rw [UInt32.toNat_shiftLeft, hlen]; simp [Nat.shiftLeft_eq]
  have hshr : (UInt32.ofNat len >>> 29).toNat = len / 2 ^ 29 := by
    rw [UInt32.toNat_shiftRight, hlen]; simp [Nat.shiftRight_eq_div_pow]
  simp only
  have hn0 : (c0 + UInt32.ofNat len <<< 3).toNat = (c0.toNat + (len * 8) % 2 ^ 32) % 2 ^ 32 := by
    rw [UInt32.toNat_add, hadd]
  by_cases hlt : c0 + UInt32.ofNat len <<< 3 < c0
  · simp only [hlt, if_true]
    have hlt' : (c0.toNat + (len * 8) % 2 ^ 32) % 2 ^ 32 < c0.toNat := by
      rw [← hn0]; exact UInt32.lt_iff_toNat_lt.mp hlt
    rw [UInt32.toNat_add, UInt32.toNat_add, hshr, hn0]
    simp only [UInt32.toNat_one]
    omega
  · simp only [hlt, if_false]
    have hlt' : ¬ (c0.toNat + (len * 8) % 2 ^ 32) % 2 ^ 32 < c0.toNat := by
      rw [← hn0]; exact fun h => hlt (UInt32.lt_iff_toNat_lt.mpr h)
    rw [UInt32.toNat_add, hshr, hn0]
    omega

end AslProofs.Sha1Std
