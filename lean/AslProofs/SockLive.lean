import AslProofs.SockServer
/-! C14 — progress of `stop(true)`: it is never blocked for ever.  Core Lean only. -/
open AslModel.SockServer
namespace AslProofs.SockLive
open AslProofs.SockServer

/-- handler steps a connection still needs once it has been accepted (status 2..6) -/
def work (x : Nat) : Nat := if 2 ≤ x ∧ x ≤ 6 then 7 - x else 0

def hw (n : Nat) (st : Nat → Nat) : Nat := ((List.range n).map fun c => work (st c)).sum

theorem hw_upd (n : Nat) (st : Nat → Nat) (c v : Nat) (hc : c < n) :
    hw n (upd st c v) + work (st c) = hw n st + work v := by
  unfold hw
  induction n with
  | zero => omega
  | succ n ih =>
    rw [List.range_succ, List.map_append, List.map_append, List.sum_append, List.sum_append]
    simp only [List.map_cons, List.map_nil, List.sum_cons, List.sum_nil, Nat.add_zero]
    by_cases hkn : c = n
    · subst hkn
      have hsame : ((List.range c).map fun k => work (upd st c v k)) = ((List.range c).map fun k => work (st k)) := by
        apply List.map_congr_left
        intro k hk
        rw [List.mem_range] at hk
        have : k ≠ c := by omega
        simp [upd, this]
      rw [hsame]
      simp only [upd, if_true]
      omega
    · have := ih (by omega)
      have hn : n ≠ c := fun h => hkn h.symm
      simp only [upd, hn, if_false] at this ⊢
      omega

theorem hw_pos (n : Nat) (st : Nat → Nat) (c : Nat) (hc : c < n) : work (st c) ≤ hw n st := by
  unfold hw
  induction n with
  | zero => omega
  | succ n ih =>
    rw [List.range_succ, List.map_append, List.sum_append]
    simp only [List.map_cons, List.map_nil, List.sum_cons, List.sum_nil, Nat.add_zero]
    by_cases hkn : c = n
    · subst hkn; omega
    · have := ih (by omega); omega

def apcRank : APc → Nat
  | APc.counting _ => 3
  | APc.inline _ => 2
  | APc.idle => 1
  | APc.exited => 0

def cpcRank : CPc → Nat
  | CPc.running => 3
  | CPc.waiting => 2
  | CPc.sawStopped => 1
  | _ => 0

/-- what is left to do before `stop(true)` returns -/
def mu (s : Cfg) : Nat := cpcRank s.cpc + apcRank s.apc + hw s.n s.st

/-- the step a fair scheduler takes next while `stop(true)` is pending: the accept loop first, then the handlers, then the controller -/
def next (s : Cfg) : Act :=
  match s.apc with
  | APc.counting _ => Act.count
  | APc.inline c => if s.st c = 3 then Act.hBegin c else if s.st c = 4 then Act.hEnd c else if s.st c = 5 then Act.hClose c else Act.hDec c
  | APc.idle => Act.check true
  | APc.exited =>
    match (List.range s.n).find? (fun c => inF (s.st c)) with
    | some c => if s.st c = 3 then Act.hBegin c else if s.st c = 4 then Act.hEnd c else if s.st c = 5 then Act.hClose c else Act.hDec c
    | none => if s.cpc = CPc.waiting then Act.readRunning else Act.readNum


def hstep (s : Cfg) (c : Nat) : Act :=
  if s.st c = 3 then Act.hBegin c else if s.st c = 4 then Act.hEnd c else if s.st c = 5 then Act.hClose c else Act.hDec c

theorem next_eq_inline (s : Cfg) (c : Nat) (h : s.apc = APc.inline c) : next s = hstep s c := by
  unfold next hstep; rw [h]

def Pending (s : Cfg) : Prop := s.cpc = CPc.waiting ∨ s.cpc = CPc.sawStopped

theorem hstep_progress (s : Cfg) (c : Nat) (hc : c < s.n) (hin : inF (s.st c) = true) (ht : handlerTurn s c = true)
    (hp : Pending s) :
    enabled s (hstep s c) = true ∧ hw (step s (hstep s c)).n (step s (hstep s c)).st + 1 = hw s.n s.st ∧
    (step s (hstep s c)).cpc = s.cpc ∧ apcRank (step s (hstep s c)).apc ≤ apcRank s.apc := by
  have hnd : (s.cpc == CPc.destroyed) = false := by
    rcases hp with h | h <;> rw [h] <;> rfl
  have hx : s.st c = 3 ∨ s.st c = 4 ∨ s.st c = 5 ∨ s.st c = 6 := by
    unfold inF at hin; simp at hin; omega
  have hu := fun v => hw_upd s.n s.st c v hc
  have w3 : work 3 = 4 := by decide
  have w4 : work 4 = 3 := by decide
  have w5 : work 5 = 2 := by decide
  have w6 : work 6 = 1 := by decide
  have w7 : work 7 = 0 := by decide
  rcases hx with h | h | h | h
  · have e : hstep s c = Act.hBegin c := by simp [hstep, h]
    rw [e]
    refine ⟨by simp [enabled, hc, h, ht], ?_, by simp [step, touchesServer, hnd], by simp [step, touchesServer, hnd]⟩
    have := hu 4; simp only [step, touchesServer, hnd, Bool.and_false, Bool.false_eq_true, if_false, h, w3, w4, w5, w6, w7] at this ⊢; omega
  · have e : hstep s c = Act.hEnd c := by simp [hstep, h]
    rw [e]
    refine ⟨by simp [enabled, hc, h, ht], ?_, by simp [step, touchesServer, hnd], by simp [step, touchesServer, hnd]⟩
    have := hu 5; simp only [step, touchesServer, hnd, Bool.and_false, Bool.false_eq_true, if_false, h, w3, w4, w5, w6, w7] at this ⊢; omega
  · have e : hstep s c = Act.hClose c := by simp [hstep, h]
    rw [e]
    refine ⟨by simp [enabled, hc, h, ht], ?_, by simp [step, touchesServer], by simp [step, touchesServer]⟩
    have := hu 6; simp only [step, touchesServer, Bool.false_and, Bool.false_eq_true, if_false, h, w3, w4, w5, w6, w7] at this ⊢; omega
  · have e : hstep s c = Act.hDec c := by simp [hstep, h]
    rw [e]
    refine ⟨by simp [enabled, hc, h, ht], ?_, by simp [step, touchesServer, hnd], ?_⟩
    · have := hu 7; simp only [step, touchesServer, hnd, Bool.and_false, Bool.false_eq_true, if_false, h, w3, w4, w5, w6, w7] at this ⊢; omega
    · simp only [step, touchesServer, hnd, Bool.and_false, Bool.false_eq_true, if_false]
      split
      · rename_i hs
        have ha : s.apc = APc.inline c := by simpa [handlerTurn, hs] using ht
        simp [apcRank, ha]
      · exact Nat.le_refl _


theorem step_n (s : Cfg) (a : Act) : (step s a).n = s.n := by
  unfold step
  cases a <;> simp only <;> (try split) <;> (try split) <;> rfl

/-- **the scheduler's step is enabled and strictly decreases what is left to do** -/
theorem next_progress (s : Cfg) (hI : SInv s) (hp : Pending s) :
    enabled s (next s) = true ∧ mu (step s (next s)) < mu s ∧
      (Pending (step s (next s)) ∨ (step s (next s)).cpc = CPc.returned) := by
  have hnd : (s.cpc == CPc.destroyed) = false := by
    rcases hp with h | h <;> rw [h] <;> rfl
  have hrs : s.reqStop = true := hI.rs.mpr (by rcases hp with h | h <;> rw [h] <;> simp)
  cases hapc : s.apc with
  | counting c =>
    have hc := hI.cntLt c hapc
    have hst : s.st c = 2 := (hI.st2 c hc).mpr hapc
    have e : next s = Act.count := by unfold next; rw [hapc]
    rw [e]
    have hu := hw_upd s.n s.st c 3 hc
    have w2 : work 2 = 5 := by decide
    have w3 : work 3 = 4 := by decide
    rw [hst, w2, w3] at hu
    refine ⟨by simp [enabled, hapc], ?_, ?_⟩
    · unfold mu
      simp only [step, touchesServer, hnd, Bool.and_false, Bool.false_eq_true, if_false, hapc]
      have : apcRank (if s.sequential = true then APc.inline c else APc.idle) ≤ 2 := by split <;> simp [apcRank]
      simp only [apcRank] at this ⊢
      omega
    · left; simpa [step, touchesServer, hnd, hapc, Pending] using hp
  | inline c =>
    obtain ⟨hc, hsq⟩ := hI.inlLt c hapc
    have hin : inF (s.st c) = true := ((hI.seq hsq) c hc).mpr hapc
    have ht : handlerTurn s c = true := by simp [handlerTurn, hapc]
    rw [next_eq_inline s c hapc]
    obtain ⟨h1, h2, h3, h4⟩ := hstep_progress s c hc hin ht hp
    refine ⟨h1, ?_, ?_⟩
    · unfold mu; rw [h3]; rw [step_n] at h2 ⊢; omega
    · left; unfold Pending; rw [h3]; exact hp
  | idle =>
    have e : next s = Act.check true := by unfold next; rw [hapc]
    rw [e]
    refine ⟨by simp [enabled, hapc, hrs], ?_, ?_⟩
    · unfold mu
      simp only [step, touchesServer, hnd, Bool.and_false, Bool.false_eq_true, if_false, if_true, hapc, apcRank]
      omega
    · left; simpa [step, touchesServer, hnd, Pending] using hp
  | exited =>
    have hrun : s.running = false := by
      cases hr : s.running with
      | false => rfl
      | true => exact absurd hapc (hI.runIff.mp hr)
    cases hf : (List.range s.n).find? (fun c => inF (s.st c)) with
    | some c =>
      have hin : inF (s.st c) = true := by have := List.find?_some hf; simpa using this
      have hc : c < s.n := by have := List.mem_of_find?_eq_some hf; simpa using this
      have hns : s.sequential = false := by
        cases hq : s.sequential with
        | false => rfl
        | true => have := ((hI.seq hq) c hc).mp hin; rw [hapc] at this; cases this
      have ht : handlerTurn s c = true := by simp [handlerTurn, hns]
      have e : next s = hstep s c := by unfold next hstep; rw [hapc]; simp only [hf]
      rw [e]
      obtain ⟨h1, h2, h3, h4⟩ := hstep_progress s c hc hin ht hp
      refine ⟨h1, ?_, ?_⟩
      · unfold mu; rw [h3]; rw [step_n] at h2 ⊢; omega
      · left; unfold Pending; rw [h3]; exact hp
    | none =>
      have hall : ∀ c, c < s.n → inF (s.st c) = false := by
        intro c hc
        have := List.find?_eq_none.mp hf c (by simpa using hc)
        simpa using this
      have hnum : s.num = 0 := by
        rw [hI.numEq]
        have : inFlight s = 0 := by
          rw [inFlight_eq]
          apply List.countP_eq_zero.mpr
          intro c hc; rw [List.mem_range] at hc; simp [hall c hc]
        simp [this]
      rcases hp with hw' | hs'
      · have e : next s = Act.readRunning := by unfold next; rw [hapc]; simp only [hf, hw', if_true]
        rw [e]
        refine ⟨by simp [enabled, hw'], ?_, ?_⟩
        · unfold mu; simp only [step, touchesServer, Bool.false_and, Bool.false_eq_true, if_false, hrun, hw', cpcRank]; omega
        · left; right; simp [step, touchesServer, hrun]
      · have e : next s = Act.readNum := by unfold next; rw [hapc]; simp only [hf, hs']; simp
        rw [e]
        refine ⟨by simp [enabled, hs'], ?_, ?_⟩
        · unfold mu; simp only [step, touchesServer, Bool.false_and, Bool.false_eq_true, if_false, hnum, hs', cpcRank]; simp
        · right; simp [step, touchesServer, hnum]


/-- **from any state in which `stop(true)` is pending, the server-side threads alone bring it to its return** (no new connection,
    no further accept is needed): following the scheduler for at most `mu s` steps -/
theorem stop_terminates_aux : ∀ (k : Nat) (s : Cfg), SInv s → Pending s → mu s ≤ k →
    ∃ r : List Act, (run s r).cpc = CPc.returned ∧ r.length ≤ k ∧ (∀ a ∈ r, ∀ c, a ≠ Act.connect c ∧ a ≠ Act.accept c) := by
  intro k
  induction k with
  | zero =>
    intro s hI hp hm
    obtain ⟨_, h2, _⟩ := next_progress s hI hp
    omega
  | succ k ih =>
    intro s hI hp hm
    obtain ⟨h1, h2, h3⟩ := next_progress s hI hp
    have hI' : SInv (step s (next s)) := step_inv s (next s) hI h1
    have hnc : ∀ c, next s ≠ Act.connect c ∧ next s ≠ Act.accept c := by
      intro c
      unfold next
      constructor <;> (split <;> (try split) <;> (try split) <;> (try split) <;> (try split) <;> simp)
    rcases h3 with h3 | h3
    · obtain ⟨r, hr, hl, hn⟩ := ih (step s (next s)) hI' h3 (by omega)
      refine ⟨next s :: r, ?_, by simp; omega, ?_⟩
      · unfold run; simp only [h1, if_true]; exact hr
      · intro a ha c
        rcases List.mem_cons.mp ha with e | e
        · rw [e]; exact hnc c
        · exact hn a e c
    · refine ⟨[next s], ?_, by simp, ?_⟩
      · unfold run; simp only [h1, if_true]; exact h3
      · intro a ha c
        have e : a = next s := by simpa using ha
        rw [e]; exact hnc c

end AslProofs.SockLive
