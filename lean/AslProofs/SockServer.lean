import AslModel.SockServer
/-! Invariant proofs for the SocketServer model (C14). Core Lean only. -/
open AslModel.SockServer
namespace AslProofs.SockServer

theorem countP_range_upd (p : Nat → Bool) (f : Nat → Nat) (n k v : Nat) (hk : k < n) :
    (List.range n).countP (fun c => p (upd f k v c)) + (if p (f k) then 1 else 0)
      = (List.range n).countP (fun c => p (f c)) + (if p v then 1 else 0) := by
  induction n with
  | zero => omega
  | succ n ih =>
    rw [List.range_succ, List.countP_append, List.countP_append]
    simp only [List.countP_cons, List.countP_nil, Nat.zero_add]
    by_cases hkn : k = n
    · subst hkn
      have hsame : (List.range k).countP (fun c => p (upd f k v c)) = (List.range k).countP (fun c => p (f c)) := by
        apply List.countP_congr
        intro c hc
        rw [List.mem_range] at hc
        have : c ≠ k := by omega
        simp [upd, this]
      rw [hsame]
      simp only [upd, if_true]
      by_cases h1 : p (f k) = true <;> by_cases h2 : p v = true <;> simp [h1, h2] <;> omega
    · have := ih (by omega)
      have hn : n ≠ k := fun h => hkn h.symm
      simp only [upd, hn, if_false] at this ⊢
      omega

theorem countP_range_same (p : Nat → Bool) (f g : Nat → Nat) (n : Nat) (h : ∀ c, c < n → f c = g c) :
    (List.range n).countP (fun c => p (f c)) = (List.range n).countP (fun c => p (g c)) := by
  apply List.countP_congr
  intro c hc
  rw [List.mem_range] at hc
  rw [h c hc]

def inF (x : Nat) : Bool := decide (3 ≤ x ∧ x ≤ 6)

theorem inFlight_eq (s : Cfg) : inFlight s = (List.range s.n).countP (fun c => inF (s.st c)) := rfl

theorem inFlight_pos_of (s : Cfg) (c : Nat) (hc : c < s.n) (h : inF (s.st c) = true) : 0 < inFlight s := by
  rw [inFlight_eq]
  apply List.countP_pos_iff.mpr
  exact ⟨c, List.mem_range.mpr hc, h⟩

theorem inFlight_zero (s : Cfg) (h : inFlight s = 0) (c : Nat) (hc : c < s.n) : inF (s.st c) = false := by
  by_cases hx : inF (s.st c) = true
  · have := inFlight_pos_of s c hc hx; omega
  · simpa using hx

structure SInv (s : Cfg) : Prop where
  runIff : s.running = true ↔ s.apc ≠ APc.exited
  numEq : s.num = (inFlight s : Int)
  st2 : ∀ c, c < s.n → (s.st c = 2 ↔ s.apc = APc.counting c)
  cntLt : ∀ c, s.apc = APc.counting c → c < s.n
  seq : s.sequential = true → ∀ c, c < s.n → (inF (s.st c) = true ↔ s.apc = APc.inline c)
  inlLt : ∀ c, s.apc = APc.inline c → c < s.n ∧ s.sequential = true
  ctl1 : (s.cpc = CPc.sawStopped ∨ s.cpc = CPc.returned ∨ s.cpc = CPc.destroyed) → s.apc = APc.exited
  ctl2 : (s.cpc = CPc.returned ∨ s.cpc = CPc.destroyed) → s.num = 0
  sb : ∀ c, c < s.n → s.serveBegins c = (if 4 ≤ s.st c then 1 else 0) ∧ s.serveEnds c = (if 5 ≤ s.st c then 1 else 0)
  notBad : s.bad = false
  rs : s.reqStop = true ↔ s.cpc ≠ CPc.running
  td : s.threadDone = true → s.apc = APc.exited
  jn : s.cpc = CPc.destroyed → s.threadDone = true
  jt : s.joins = true

theorem init_inv (n : Nat) (q : Bool) : SInv (init n q) := by
  refine ⟨by simp [init], ?_, by simp [init], by simp [init], by simp [init, inF], by simp [init], by simp [init],
    by simp [init], by simp [init], rfl, by simp [init], by simp [init], by simp [init], rfl⟩
  simp only [init, inFlight]
  have : (List.range n).countP (fun c => decide (3 ≤ (0:Nat) ∧ (0:Nat) ≤ 6)) = 0 := by
    apply List.countP_eq_zero.mpr; intro c _; simp
  simp [this]

/-- the destroyed server is never used: any server-touching step is disabled once the server is destroyed, and once
    `stop(true)` has returned the only one still possible is the end of the accept thread itself -/
theorem no_touch_after_return (s : Cfg) (a : Act) (hI : SInv s) (he : enabled s a = true)
    (ht : touchesServer a = true) : s.cpc ≠ CPc.destroyed ∧ (a ≠ Act.loopEnd → s.cpc ≠ CPc.returned) := by
  have key : s.apc ≠ APc.exited ∨ 0 < s.num → s.cpc ≠ CPc.destroyed ∧ (a ≠ Act.loopEnd → s.cpc ≠ CPc.returned) := by
    intro h
    constructor
    · intro hc
      rcases h with h | h
      · exact h (hI.ctl1 (Or.inr (Or.inr hc)))
      · have := hI.ctl2 (Or.inr hc); omega
    · intro _ hc
      rcases h with h | h
      · exact h (hI.ctl1 (Or.inr (Or.inl hc)))
      · have := hI.ctl2 (Or.inl hc); omega
  have flight : ∀ c, c < s.n → inF (s.st c) = true → 0 < s.num := by
    intro c hc h
    have := inFlight_pos_of s c hc h
    rw [hI.numEq]; omega
  cases a with
  | connect c => simp [touchesServer] at ht
  | hClose c => simp [touchesServer] at ht
  | reqStop => simp [touchesServer] at ht
  | readRunning => simp [touchesServer] at ht
  | readNum => simp [touchesServer] at ht
  | destroy => simp [touchesServer] at ht
  | accept c =>
    simp only [enabled, Bool.and_eq_true, beq_iff_eq, decide_eq_true_eq] at he
    exact key (Or.inl (by rw [he.1.2]; simp))
  | count =>
    simp only [enabled] at he
    cases hap : s.apc with
    | counting c => exact key (Or.inl (by rw [hap]; simp))
    | idle => rw [hap] at he; cases he
    | inline c => rw [hap] at he; cases he
    | exited => rw [hap] at he; cases he
  | check seen =>
    simp only [enabled, Bool.and_eq_true, beq_iff_eq] at he
    exact key (Or.inl (by rw [he.1]; simp))
  | loopFail =>
    simp only [enabled, beq_iff_eq] at he
    exact key (Or.inl (by rw [he]; simp))
  | acceptFail =>
    simp only [enabled, beq_iff_eq] at he
    exact key (Or.inl (by rw [he]; simp))
  | loopEnd =>
    simp only [enabled, Bool.and_eq_true, beq_iff_eq, Bool.not_eq_true'] at he
    refine ⟨?_, fun h => absurd rfl h⟩
    intro hc
    have := hI.jn hc
    rw [he.2] at this; cases this
  | hBegin c =>
    simp only [enabled, Bool.and_eq_true, beq_iff_eq, decide_eq_true_eq] at he
    exact key (Or.inr (flight c he.1.1 (by simp [inF, he.1.2])))
  | hEnd c =>
    simp only [enabled, Bool.and_eq_true, beq_iff_eq, decide_eq_true_eq] at he
    exact key (Or.inr (flight c he.1.1 (by simp [inF, he.1.2])))
  | hDec c =>
    simp only [enabled, Bool.and_eq_true, beq_iff_eq, decide_eq_true_eq] at he
    exact key (Or.inr (flight c he.1.1 (by simp [inF, he.1.2])))

def cnt (n : Nat) (st : Nat → Nat) : Nat := (List.range n).countP (fun c => inF (st c))
theorem inFlight_cnt (s : Cfg) : inFlight s = cnt s.n s.st := rfl

/-- effect on the in-flight count of changing the status of one connection -/
theorem cnt_upd (n : Nat) (st : Nat → Nat) (c v : Nat) (hc : c < n) :
    (cnt n (upd st c v) : Int) + (if inF (st c) then 1 else 0) = (cnt n st : Int) + (if inF v then 1 else 0) := by
  have := countP_range_upd inF st n c v hc
  unfold cnt
  by_cases h1 : inF (st c) = true <;> by_cases h2 : inF v = true <;> simp [h1, h2] at this ⊢ <;> omega

theorem step_inv (s : Cfg) (a : Act) (hI : SInv s) (he : enabled s a = true) : SInv (step s a) := by
  have hnt := no_touch_after_return s a hI he
  have hbad : (if touchesServer a && s.cpc == CPc.destroyed then { s with bad := true } else s) = s := by
    by_cases ht : touchesServer a = true
    · have := (hnt ht).1
      simp [ht, this]
    · simp [ht]
  unfold step
  simp only [hbad]
  obtain ⟨runIff, numEq, st2, cntLt, seq, inlLt, ctl1, ctl2, sb, notBad, rs, td, jn, jt⟩ := hI
  rw [inFlight_cnt] at numEq
  -- generic per-connection bookkeeping when connection c moves from status x to v
  have stUpd : ∀ (c v : Nat) (P : Nat → Prop) (Q : Nat → Prop), (∀ c', c' ≠ c → (P (s.st c') ↔ Q c')) → (P v ↔ Q c) →
      ∀ c', (P (upd s.st c v c') ↔ Q c') := by
    intro c v P Q h1 h2 c'
    simp only [upd]
    by_cases h : c' = c
    · subst h; simpa using h2
    · simp only [h, if_false]; exact h1 c' h
  cases a with
  | connect c =>
    simp only [enabled, Bool.and_eq_true, beq_iff_eq, decide_eq_true_eq] at he
    obtain ⟨hc, h0⟩ := he
    have hfl := cnt_upd s.n s.st c 1 hc
    simp only [h0, inF] at hfl
    refine ⟨runIff, ?_, ?_, cntLt, ?_, inlLt, ctl1, ctl2, ?_, notBad, rs, (by first | exact td | (intro h; have := td h; simp_all)), (by first | exact jn | (intro h; simp at h) | (intro h; simp_all)), jt⟩
    · show s.num = ((cnt s.n (upd s.st c 1) : Nat) : Int)
      simp at hfl; omega
    · intro c' hc'
      simp only [upd]
      by_cases h : c' = c
      · subst h; simp only [if_true]
        have := (st2 c' hc'); rw [h0] at this
        constructor
        · intro hx; omega
        · intro hx; have := this.mpr hx; omega
      · simp only [h, if_false]; exact st2 c' hc'
    · intro hq c' hc'
      simp only [upd]
      by_cases h : c' = c
      · subst h; simp only [if_true]
        have := seq hq c' hc'; rw [h0] at this
        simp only [inF] at this ⊢
        constructor
        · intro hx; simp at hx
        · intro hx; have := this.mpr hx; simp at this
      · simp only [h, if_false]; exact seq hq c' hc'
    · intro c' hc'
      simp only [upd]
      by_cases h : c' = c
      · subst h; simp only [if_true]
        have := sb c' hc'; rw [h0] at this; simpa using this
      · simp only [h, if_false]; exact sb c' hc'
  | accept c =>
    simp only [enabled, Bool.and_eq_true, beq_iff_eq, decide_eq_true_eq] at he
    obtain ⟨⟨hc, hap⟩, h1⟩ := he
    have hfl := cnt_upd s.n s.st c 2 hc
    simp only [h1, inF] at hfl
    refine ⟨by simp only; rw [runIff, hap]; simp, ?_, ?_, ?_, ?_, ?_, ?_, ctl2, ?_, notBad, rs, (by first | exact td | (intro h; have := td h; simp_all)), (by first | exact jn | (intro h; simp at h) | (intro h; simp_all)), jt⟩
    · show s.num = ((cnt s.n (upd s.st c 2) : Nat) : Int)
      simp at hfl; omega
    · intro c' hc'
      have a1 := st2 c' hc'
      simp only [upd]
      by_cases h : c' = c <;> simp_all
      exact fun hx => h hx.symm
    · intro c' hx; simp at hx; subst hx; exact hc
    · intro hq c' hc'
      have a1 := seq hq c' hc'
      simp only [upd]
      by_cases h : c' = c <;> simp_all [inF]
    · intro c' hx; simp at hx
    · intro hx; have := ctl1 hx; simp_all
    · intro c' hc'
      have a1 := sb c' hc'
      simp only [upd]
      by_cases h : c' = c <;> simp_all
  | count =>
    simp only [enabled] at he
    cases hap : s.apc with
    | idle => rw [hap] at he; cases he
    | inline c => rw [hap] at he; cases he
    | exited => rw [hap] at he; cases he
    | counting c =>
      simp only
      have hc := cntLt c hap
      have h2 : s.st c = 2 := (st2 c hc).mpr hap
      have hfl := cnt_upd s.n s.st c 3 hc
      simp only [h2, inF] at hfl
      refine ⟨?_, ?_, ?_, ?_, ?_, ?_, ?_, ?_, ?_, notBad, rs, (by first | exact td | (intro h; have := td h; simp_all)), (by first | exact jn | (intro h; simp at h) | (intro h; simp_all)), jt⟩
      · simp only; rw [runIff, hap]; by_cases hq : s.sequential = true <;> simp [hq]
      · show s.num + 1 = ((cnt s.n (upd s.st c 3) : Nat) : Int)
        simp at hfl; omega
      · intro c' hc'
        have a1 := st2 c' hc'
        simp only [upd]
        by_cases h : c' = c <;> by_cases hq : s.sequential = true <;> simp_all <;> try (intro hx; exact h hx.symm)
      · intro c' hx; by_cases hq : s.sequential = true <;> simp [hq] at hx
      · intro hq c' hc'
        dsimp only at hq hc' ⊢
        have a1 := seq hq c' hc'
        rw [hap] at a1
        simp only [upd, hq, if_true]
        by_cases h : c' = c
        · subst h; simp [inF]
        · simp only [h, if_false]
          constructor
          · intro hx; have := a1.mp hx; cases this
          · intro hx; injection hx with hx; exact absurd hx.symm h
      · intro c' hx
        by_cases hq : s.sequential = true
        · simp [hq] at hx; subst hx; exact ⟨hc, hq⟩
        · simp [hq] at hx
      · intro hx; have := ctl1 hx; simp_all
      · intro hx; have := ctl1 (Or.inr hx); simp_all
      · intro c' hc'
        have a1 := sb c' hc'
        simp only [upd]
        by_cases h : c' = c
        · subst h; simp only [if_true]; rw [h2] at a1; simpa using a1
        · simp only [h, if_false]; exact a1
  | hBegin c =>
    simp only [enabled, handlerTurn, Bool.and_eq_true, beq_iff_eq, decide_eq_true_eq, Bool.or_eq_true, Bool.not_eq_true'] at he
    obtain ⟨⟨hc, h1⟩, hturn⟩ := he
    have hfl := cnt_upd s.n s.st c 4 hc
    simp only [h1, inF] at hfl
    refine ⟨runIff, ?_, ?_, cntLt, ?_, inlLt, ctl1, ctl2, ?_, notBad, rs, (by first | exact td | (intro h; have := td h; simp_all)), (by first | exact jn | (intro h; simp at h) | (intro h; simp_all)), jt⟩
    · show s.num = ((cnt s.n (upd s.st c 4) : Nat) : Int)
      simp at hfl; omega
    · intro c' hc'
      have a1 := st2 c' hc'
      simp only [upd]
      by_cases h : c' = c <;> simp_all
    · intro hq c' hc'
      have a1 := seq hq c' hc'
      simp only [upd]
      by_cases h : c' = c <;> simp_all [inF]
    · intro c' hc'
      have a1 := sb c' hc'
      simp only [upd]
      by_cases h : c' = c <;> simp_all
  | hEnd c =>
    simp only [enabled, handlerTurn, Bool.and_eq_true, beq_iff_eq, decide_eq_true_eq, Bool.or_eq_true, Bool.not_eq_true'] at he
    obtain ⟨⟨hc, h1⟩, hturn⟩ := he
    have hfl := cnt_upd s.n s.st c 5 hc
    simp only [h1, inF] at hfl
    refine ⟨runIff, ?_, ?_, cntLt, ?_, inlLt, ctl1, ctl2, ?_, notBad, rs, (by first | exact td | (intro h; have := td h; simp_all)), (by first | exact jn | (intro h; simp at h) | (intro h; simp_all)), jt⟩
    · show s.num = ((cnt s.n (upd s.st c 5) : Nat) : Int)
      simp at hfl; omega
    · intro c' hc'
      have a1 := st2 c' hc'
      simp only [upd]
      by_cases h : c' = c <;> simp_all
    · intro hq c' hc'
      have a1 := seq hq c' hc'
      simp only [upd]
      by_cases h : c' = c <;> simp_all [inF]
    · intro c' hc'
      have a1 := sb c' hc'
      simp only [upd]
      by_cases h : c' = c <;> simp_all
  | hClose c =>
    simp only [enabled, handlerTurn, Bool.and_eq_true, beq_iff_eq, decide_eq_true_eq, Bool.or_eq_true, Bool.not_eq_true'] at he
    obtain ⟨⟨hc, h1⟩, hturn⟩ := he
    have hfl := cnt_upd s.n s.st c 6 hc
    simp only [h1, inF] at hfl
    refine ⟨runIff, ?_, ?_, cntLt, ?_, inlLt, ctl1, ctl2, ?_, notBad, rs, (by first | exact td | (intro h; have := td h; simp_all)), (by first | exact jn | (intro h; simp at h) | (intro h; simp_all)), jt⟩
    · show s.num = ((cnt s.n (upd s.st c 6) : Nat) : Int)
      simp at hfl; omega
    · intro c' hc'
      have a1 := st2 c' hc'
      simp only [upd]
      by_cases h : c' = c <;> simp_all
    · intro hq c' hc'
      have a1 := seq hq c' hc'
      simp only [upd]
      by_cases h : c' = c <;> simp_all [inF]
    · intro c' hc'
      have a1 := sb c' hc'
      simp only [upd]
      by_cases h : c' = c <;> simp_all
  | hDec c =>
    simp only [enabled, handlerTurn, Bool.and_eq_true, beq_iff_eq, decide_eq_true_eq, Bool.or_eq_true, Bool.not_eq_true'] at he
    obtain ⟨⟨hc, h1⟩, hturn⟩ := he
    have hfl := cnt_upd s.n s.st c 7 hc
    simp only [h1, inF] at hfl
    have hnum : 0 < s.num := by simp at hfl; omega
    refine ⟨?_, ?_, ?_, ?_, ?_, ?_, ?_, ?_, ?_, notBad, rs, (by first | exact td | (intro h; have := td h; simp_all)), (by first | exact jn | (intro h; simp at h) | (intro h; simp_all)), jt⟩
    · simp only
      by_cases hq : s.sequential = true
      · have a1 := (seq hq c hc).mp (by simp [inF, h1])
        simp_all
      · simp [hq]; exact runIff
    · show s.num - 1 = ((cnt s.n (upd s.st c 7) : Nat) : Int)
      simp at hfl; omega
    · intro c' hc'
      have a1 := st2 c' hc'
      simp only [upd]
      by_cases hq : s.sequential = true
      · have a2 := (seq hq c hc).mp (by simp [inF, h1])
        by_cases h : c' = c <;> simp_all <;> try (intro hx; exact h hx.symm)
      · by_cases h : c' = c <;> simp_all
    · intro c' hx
      by_cases hq : s.sequential = true
      · simp [hq] at hx
      · simp [hq] at hx; exact cntLt c' hx
    · intro hq c' hc'
      have a1 := seq hq c' hc'
      have a2 := (seq hq c hc).mp (by simp [inF, h1])
      simp only [upd]
      by_cases h : c' = c <;> simp_all [inF] <;> try (intro hx; exact h hx.symm)
    · intro c' hx
      by_cases hq : s.sequential = true
      · simp [hq] at hx
      · simp [hq] at hx; exact inlLt c' hx
    · intro hx
      have := ctl1 hx
      by_cases hq : s.sequential = true
      · have a2 := (seq hq c hc).mp (by simp [inF, h1]); simp_all
      · simp [hq]; exact this
    · intro hx; have := ctl2 hx; omega
    · intro c' hc'
      have a1 := sb c' hc'
      simp only [upd]
      by_cases h : c' = c <;> simp_all
  | check seen =>
    simp only [enabled, Bool.and_eq_true, beq_iff_eq, Bool.or_eq_true, Bool.not_eq_true'] at he
    obtain ⟨hap, hseen⟩ := he
    cases seen with
    | false => simp only [Bool.false_eq_true, if_false]; exact ⟨runIff, by rw [inFlight_cnt]; exact numEq, st2, cntLt, seq, inlLt, ctl1, ctl2, sb, notBad, rs, (by first | exact td | (intro h; have := td h; simp_all)), (by first | exact jn | (intro h; simp at h) | (intro h; simp_all)), jt⟩
    | true =>
      simp only [if_true]
      refine ⟨by simp, by rw [inFlight_cnt]; exact numEq, ?_, ?_, ?_, ?_, ?_, ctl2, sb, notBad, rs, (by first | exact td | (intro h; have := td h; simp_all)), (by first | exact jn | (intro h; simp at h) | (intro h; simp_all)), jt⟩
      · intro c' hc'; have := st2 c' hc'; simp_all
      · intro c' hx; simp at hx
      · intro hq c' hc'; have := seq hq c' hc'; simp_all
      · intro c' hx; simp at hx
      · intro _; rfl
  | reqStop =>
    simp only [enabled, beq_iff_eq] at he
    refine ⟨runIff, by rw [inFlight_cnt]; exact numEq, st2, cntLt, seq, inlLt, ?_, ?_, sb, notBad, by simp, (by first | exact td | (intro h; have := td h; simp_all)), (by first | exact jn | (intro h; simp at h) | (intro h; simp_all)), jt⟩
    · intro hx; simp at hx
    · intro hx; simp at hx
  | readRunning =>
    simp only [enabled, beq_iff_eq] at he
    by_cases hr : s.running = true
    · simp only [hr, if_true]; exact ⟨runIff, by rw [inFlight_cnt]; exact numEq, st2, cntLt, seq, inlLt, ctl1, ctl2, sb, notBad, rs, (by first | exact td | (intro h; have := td h; simp_all)), (by first | exact jn | (intro h; simp at h) | (intro h; simp_all)), jt⟩
    · have hr' : s.running = false := by simpa using hr
      simp only [hr', Bool.false_eq_true, if_false]
      have hex : s.apc = APc.exited := by
        by_cases hx : s.apc = APc.exited
        · exact hx
        · exact absurd (runIff.mpr hx) hr
      refine ⟨by simp [hex], by rw [inFlight_cnt]; exact numEq, st2, cntLt, seq, inlLt, fun _ => hex, ?_, sb, notBad, ?_, (by first | exact td | (intro h; have := td h; simp_all)), (by first | exact jn | (intro h; simp at h) | (intro h; simp_all)), jt⟩
      · intro hx; simp at hx
      · simp only; rw [rs, he]; simp
  | readNum =>
    simp only [enabled, beq_iff_eq] at he
    have hex := ctl1 (Or.inl he)
    by_cases hn : s.num > 0
    · rw [if_pos hn]
      refine ⟨runIff, by rw [inFlight_cnt]; exact numEq, st2, cntLt, seq, inlLt, ?_, ?_, sb, notBad, ?_, (by first | exact td | (intro h; have := td h; simp_all)), (by first | exact jn | (intro h; simp at h) | (intro h; simp_all)), jt⟩
      · intro hx; simp at hx
      · intro hx; simp at hx
      · simp only; rw [rs, he]; simp
    · rw [if_neg hn]
      have h0 : s.num = 0 := by omega
      refine ⟨runIff, by rw [inFlight_cnt]; exact numEq, st2, cntLt, seq, inlLt, fun _ => hex, fun _ => h0, sb, notBad, ?_, (by first | exact td | (intro h; have := td h; simp_all)), (by first | exact jn | (intro h; simp at h) | (intro h; simp_all)), jt⟩
      simp only; rw [rs, he]; simp
  | destroy =>
    simp only [enabled, Bool.and_eq_true, beq_iff_eq, Bool.or_eq_true, Bool.not_eq_true'] at he
    obtain ⟨he, hj⟩ := he
    have htd : s.threadDone = true := by
      rcases hj with hj | hj
      · rw [jt] at hj; cases hj
      · exact hj
    have hex := ctl1 (Or.inr (Or.inl he))
    have h0 := ctl2 (Or.inl he)
    refine ⟨runIff, by rw [inFlight_cnt]; exact numEq, st2, cntLt, seq, inlLt, fun _ => hex, fun _ => h0, sb, notBad, ?_, td, fun _ => htd, jt⟩
    simp only; rw [rs, he]; simp
  | loopFail =>
    simp only [enabled, beq_iff_eq] at he
    have hap := he
    refine ⟨by simp, by rw [inFlight_cnt]; exact numEq, ?_, ?_, ?_, ?_, ?_, ctl2, sb, notBad, rs, fun _ => rfl, jn, jt⟩
    · intro c' hc'; have := st2 c' hc'; simp_all
    · intro c' hx; simp at hx
    · intro hq c' hc'; have := seq hq c' hc'; simp_all
    · intro c' hx; simp at hx
    · intro _; rfl
  | loopEnd =>
    simp only [enabled, Bool.and_eq_true, beq_iff_eq, Bool.not_eq_true'] at he
    exact ⟨runIff, by rw [inFlight_cnt]; exact numEq, st2, cntLt, seq, inlLt, ctl1, ctl2, sb, notBad, rs, fun _ => he.1, fun _ => rfl, jt⟩
  | acceptFail =>
    by_cases hsk : s.skipsFailed = true
    · simp only [hsk, if_true]
      exact ⟨runIff, by rw [inFlight_cnt]; exact numEq, st2, cntLt, seq, inlLt, ctl1, ctl2, sb, notBad, rs, td, jn, jt⟩
    · simp only [hsk]
      exact ⟨runIff, by rw [inFlight_cnt]; exact numEq, st2, cntLt, seq, inlLt, ctl1, ctl2, sb, notBad, rs, td, jn, jt⟩

theorem run_inv (r : List Act) (s : Cfg) (hI : SInv s) : SInv (run s r) := by
  induction r generalizing s with
  | nil => exact hI
  | cons a r ih =>
    unfold run
    by_cases he : enabled s a = true
    · simp only [he, if_true]; exact ih _ (step_inv s a hI he)
    · simp only [he]; exact ih s hI

/-- once `stop(true)` has returned only the environment (new connection attempts) and the destructor can act -/
theorem after_return_enabled (s : Cfg) (a : Act) (hI : SInv s)
    (hc : s.cpc = CPc.returned ∨ s.cpc = CPc.destroyed) (he : enabled s a = true) :
    (∃ c, a = Act.connect c) ∨ a = Act.destroy ∨ (a = Act.loopEnd ∧ s.cpc = CPc.returned) := by
  have hex := hI.ctl1 (Or.inr hc)
  have h0 := hI.ctl2 hc
  have hfl : ∀ c, c < s.n → inF (s.st c) = false := by
    intro c hcn
    apply inFlight_zero s _ c hcn
    have := hI.numEq; omega
  cases a with
  | connect c => exact Or.inl ⟨c, rfl⟩
  | destroy => exact Or.inr (Or.inl rfl)
  | loopFail => simp [enabled, hex] at he
  | acceptFail => simp [enabled, hex] at he
  | loopEnd =>
    rcases hc with hc | hc
    · exact Or.inr (Or.inr ⟨rfl, hc⟩)
    · simp only [enabled, Bool.and_eq_true, beq_iff_eq, Bool.not_eq_true'] at he
      have := hI.jn hc; rw [he.2] at this; cases this
  | accept c => simp [enabled, hex] at he
  | count => simp [enabled, hex] at he
  | check seen => simp [enabled, hex] at he
  | hBegin c =>
    simp only [enabled, Bool.and_eq_true, beq_iff_eq, decide_eq_true_eq] at he
    have := hfl c he.1.1; simp [inF, he.1.2] at this
  | hEnd c =>
    simp only [enabled, Bool.and_eq_true, beq_iff_eq, decide_eq_true_eq] at he
    have := hfl c he.1.1; simp [inF, he.1.2] at this
  | hClose c =>
    simp only [enabled, Bool.and_eq_true, beq_iff_eq, decide_eq_true_eq] at he
    have := hfl c he.1.1; simp [inF, he.1.2] at this
  | hDec c =>
    simp only [enabled, Bool.and_eq_true, beq_iff_eq, decide_eq_true_eq] at he
    have := hfl c he.1.1; simp [inF, he.1.2] at this
  | reqStop => rcases hc with hc | hc <;> simp [enabled, hc] at he
  | readRunning => rcases hc with hc | hc <;> simp [enabled, hc] at he
  | readNum => rcases hc with hc | hc <;> simp [enabled, hc] at he

theorem after_return_stable (r : List Act) (s : Cfg) (hI : SInv s)
    (hc : s.cpc = CPc.returned ∨ s.cpc = CPc.destroyed) :
    (run s r).serveBegins = s.serveBegins ∧ (run s r).serveEnds = s.serveEnds ∧ (run s r).running = s.running ∧
    (run s r).apc = s.apc ∧ (run s r).num = s.num ∧
    ((run s r).cpc = CPc.returned ∨ (run s r).cpc = CPc.destroyed) := by
  induction r generalizing s with
  | nil => exact ⟨rfl, rfl, rfl, rfl, rfl, hc⟩
  | cons a r ih =>
    unfold run
    by_cases he : enabled s a = true
    · simp only [he, if_true]
      have hI' := step_inv s a hI he
      rcases after_return_enabled s a hI hc he with ⟨c, rfl⟩ | rfl | ⟨rfl, hret⟩
      · have hs : (step s (Act.connect c)).cpc = s.cpc := by simp [step, touchesServer]
        have := ih (step s (Act.connect c)) hI' (by rw [hs]; exact hc)
        simpa [step, touchesServer] using this
      · have hs : (step s Act.destroy).cpc = CPc.destroyed := by simp [step, touchesServer]
        have := ih (step s Act.destroy) hI' (Or.inr hs)
        simpa [step, touchesServer] using this
      · have hs : (step s Act.loopEnd).cpc = s.cpc := by simp [step, touchesServer, hret]
        have := ih (step s Act.loopEnd) hI' (by rw [hs]; exact hc)
        simpa [step, touchesServer, hret] using this
    · simp only [he]; exact ih s hI hc

/-! ### failed accepts -/

theorem step_skipsFailed (s : Cfg) (a : Act) : (step s a).skipsFailed = s.skipsFailed := by
  unfold step
  cases a <;> simp only [] <;> (repeat' split) <;> simp

theorem step_phantom (s : Cfg) (a : Act) (h : s.skipsFailed = true) : (step s a).phantom = s.phantom := by
  unfold step
  cases a <;> simp only [] <;> (repeat' split) <;> simp_all

theorem run_phantom (r : List Act) (s : Cfg) (h : s.skipsFailed = true) :
    (run s r).phantom = s.phantom ∧ (run s r).skipsFailed = true := by
  induction r generalizing s with
  | nil => exact ⟨rfl, h⟩
  | cons a r ih =>
    unfold run
    by_cases he : enabled s a = true
    · simp only [he, if_true]
      have := ih (step s a) (by rw [step_skipsFailed]; exact h)
      rw [step_phantom s a h] at this
      exact this
    · simp only [he]; exact ih s h

end AslProofs.SockServer
