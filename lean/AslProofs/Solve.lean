import AslProofs.Matrix
import AslModel.Solve
import Mathlib.Algebra.BigOperators.Group.Finset.Basic
import Mathlib.Algebra.BigOperators.Intervals
/-!
# C20 — correctness of the `solve_` model (Gaussian elimination through a row-permutation vector)

Everything is over an arbitrary field.  The elimination is analysed by invariants (`Inv`, `RowInv`):
the rows `_[0..k)` are triangular with non-zero pivots, every solution of the current system solves the
original one (also for the homogeneous system, which is how non-singularity of the *original* matrix yields
a non-zero pivot candidate at every step, `pivot_exists`), the permutation vector stays a permutation.
The pivot-selection function is an arbitrary `pick` with `PickOK pick`; `pivotSearch_ok` shows that the
transcribed search loop of the code is admissible for any `fabs`/`<` satisfying `CmpOK`.
-/
open AslModel AslModel.Solve AslProofs.Matrix

namespace AslProofs.Solve
variable {K : Type} [Field K]

omit [Field K] in
theorem look_tab (r c : Nat) (f : Nat → Nat → K) : look (tab r c f) f = f := by
  funext i j
  unfold look tab
  by_cases hi : i < r
  · by_cases hj : j < c
    · simp [hi, hj]
    · simp [hi, hj]
  · simp [hi]

theorem foldl_range'_inv {σ : Type} (step : σ → Nat → σ) (P : Nat → σ → Prop) :
    ∀ (len s : Nat) (st : σ), P s st →
      (∀ i st, s ≤ i → i < s + len → P i st → P (i + 1) (step st i)) →
      P (s + len) ((List.range' s len).foldl step st) := by
  intro len
  induction len with
  | zero => intro s st h _; simpa using h
  | succ len ih =>
    intro s st h hstep
    rw [List.range'_succ, List.foldl_cons]
    have := ih (s + 1) (step st s) (hstep s st (le_refl _) (by omega) h)
      (fun i st' h1 h2 h3 => hstep i st' (by omega) (by omega) h3)
    have e : s + (len + 1) = s + 1 + len := by omega
    rw [e]; exact this

theorem foldl_range_inv {σ : Type} (step : σ → Nat → σ) (P : Nat → σ → Prop) (n : Nat) (st : σ)
    (h0 : P 0 st) (hstep : ∀ i st, i < n → P i st → P (i + 1) (step st i)) :
    P n ((List.range n).foldl step st) := by
  rw [List.range_eq_range']
  have := foldl_range'_inv step P n 0 st h0 (fun i st _ h2 h3 => hstep i st (by omega) h3)
  simpa using this

theorem foldl_range_rev_inv {σ : Type} (step : σ → Nat → σ) (P : Nat → σ → Prop) :
    ∀ (n : Nat) (st : σ), P n st → (∀ k st, k < n → P (k + 1) st → P k (step st k)) →
      P 0 ((List.range n).reverse.foldl step st) := by
  intro n
  induction n with
  | zero => intro st h _; simpa using h
  | succ n ih =>
    intro st h hstep
    rw [List.range_succ, List.reverse_append, List.reverse_singleton, List.singleton_append, List.foldl_cons]
    exact ih (step st n) (hstep n st (by omega) h) (fun k st' hk h' => hstep k st' (by omega) h')

theorem sumTo_eq (n : Nat) (f : Nat → K) : sumTo (fld K) n f = ∑ k ∈ Finset.range n, f k := by
  unfold sumTo
  have := foldl_range_inv (fun s k => (fld K).add s (f k)) (fun i s => s = ∑ k ∈ Finset.range i, f k) n (fld K).zero
    (by simp) (by intro i st _ h; simp [h, Finset.sum_range_succ])
  exact this

theorem foldl_range'_sum (s len : Nat) (g : Nat → K) :
    (List.range' s len).foldl (fun t i => (fld K).add t (g i)) (fld K).zero = ∑ i ∈ Finset.range len, g (s + i) := by
  have := foldl_range'_inv (fun t i => (fld K).add t (g i)) (fun i t => t = ∑ k ∈ Finset.range (i - s), g (s + k)) len s (fld K).zero
    (by simp) (by
      intro i st h1 _ h
      have e : i + 1 - s = (i - s) + 1 := by omega
      rw [e, Finset.sum_range_succ, h]
      have : s + (i - s) = i := by omega
      simp [this])
  simpa using this

theorem sum_split (n c : Nat) (h : c < n) (g : Nat → K) :
    ∑ i ∈ Finset.range n, g i = ∑ i ∈ Finset.range c, g i + g c + ∑ i ∈ Finset.range (n - (c + 1)), g (c + 1 + i) := by
  have e : n = (c + 1) + (n - (c + 1)) := by omega
  conv_lhs => rw [e]
  rw [Finset.sum_range_add, Finset.sum_range_succ]


/-- `Σ_{c<n} row c · y c` -/
def dot (n : Nat) (row y : Nat → K) : K := ∑ c ∈ Finset.range n, row c * y c

/-! ## back substitution -/

theorem backSub_spec (n : Nat) (U : Nat → Nat → K) (d x0 : Nat → K)
    (htri : ∀ c, c < n → ∀ i, i < c → U c i = 0) (hpiv : ∀ c, c < n → U c c ≠ 0) :
    (∀ c, c < n → dot n (U c) (backSub (fld K) n U d x0) = d c) ∧
    (∀ i, n ≤ i → backSub (fld K) n U d x0 i = x0 i) := by
  unfold backSub
  have := foldl_range_rev_inv (backStep (fld K) n U d)
    (fun k (s : BS K) => (∀ c, k ≤ c → c < n → dot n (U c) s.x = d c) ∧ (∀ i, n ≤ i → s.x i = x0 i)) n ⟨x0, 0⟩
    ⟨by intro c h1 h2; omega, by intro i _; rfl⟩
    (by
      intro k s hk ⟨h1, h2⟩
      constructor
      · intro c hc hcn
        by_cases hck : c = k
        · subst hck
          simp only [backStep, dot]
          rw [foldl_range'_sum, sum_split n c hcn]
          have z : ∑ i ∈ Finset.range c, U c i * setAt s.x c
              ((fld K).div ((fld K).sub (d c) (∑ i ∈ Finset.range (n - (c + 1)), (fld K).mul (U c (c + 1 + i)) (s.x (c + 1 + i)))) (U c c)) i = 0 := by
            apply Finset.sum_eq_zero
            intro i hi
            rw [htri c hcn i (Finset.mem_range.mp hi)]; ring
          rw [z]
          have e : ∀ i, setAt s.x c ((fld K).div ((fld K).sub (d c) (∑ i ∈ Finset.range (n - (c + 1)), (fld K).mul (U c (c + 1 + i)) (s.x (c + 1 + i)))) (U c c)) (c + 1 + i) = s.x (c + 1 + i) := by
            intro i; have : c + 1 + i ≠ c := by omega
            simp [setAt, this]
          simp only [e]
          simp only [setAt, if_true, fld_div, fld_sub, fld_mul]
          have := hpiv c hcn
          field_simp
          ring
        · have hc' : k + 1 ≤ c := by omega
          have := h1 c hc' hcn
          rw [← this]
          simp only [backStep, dot]
          apply Finset.sum_congr rfl
          intro i _
          by_cases hik : i = k
          · subst hik
            rw [htri c hcn i (by omega)]; ring
          · simp [setAt, hik]
      · intro i hi
        simp only [backStep, setAt]
        have : i ≠ k := by omega
        simp [this, h2 i hi])
  exact ⟨fun c hc => this.1 c (Nat.zero_le _) hc, this.2⟩


/-! ## permutation vector -/

/-- `p` restricted to `[0,n)` is a permutation of `[0,n)` -/
structure PermOn (n : Nat) (p : Nat → Nat) : Prop where
  lt : ∀ i, i < n → p i < n
  inj : ∀ i i', i < n → i' < n → p i = p i' → i = i'
  surj : ∀ r, r < n → ∃ i, i < n ∧ p i = r

theorem permOn_id (n : Nat) : PermOn n (fun i => i) :=
  ⟨fun _ h => h, fun _ _ _ _ h => h, fun r h => ⟨r, h, rfl⟩⟩

theorem permOn_swap {n : Nat} {p : Nat → Nat} (h : PermOn n p) {i j : Nat} (hi : i < n) (hj : j < n) :
    PermOn n (swapP p i j) := by
  refine ⟨?_, ?_, ?_⟩
  · intro t ht
    simp only [swapP]
    split_ifs
    · exact h.lt j hj
    · exact h.lt i hi
    · exact h.lt t ht
  · intro t t' ht ht' e
    simp only [swapP] at e
    split_ifs at e with h1 h2 h3 h4 h5 h6 <;>
      first
        | omega
        | (have := h.inj _ _ (by assumption) (by assumption) e; omega)
  · intro r hr
    obtain ⟨t, ht, e⟩ := h.surj r hr
    by_cases h1 : t = i
    · refine ⟨j, hj, ?_⟩
      simp only [swapP]
      split_ifs with h2
      · subst h1; subst h2; exact e
      · subst h1; exact e
    · by_cases h2 : t = j
      · refine ⟨i, hi, ?_⟩
        simp only [swapP, if_true]
        subst h2; exact e
      · exact ⟨t, ht, by simp [swapP, h1, h2, e]⟩

/-! ## elimination invariant -/

/-- non-singular: the homogeneous system has only the trivial solution -/
def NS (n : Nat) (A0 : Nat → Nat → K) : Prop :=
  ∀ y : Nat → K, (∀ r, r < n → dot n (A0 r) y = 0) → ∀ c, c < n → y c = 0

/-- a pivot-selection function is admissible if it returns a non-zero candidate of `[k,n)` whenever one exists -/
def PickOK (pick : (Nat → K) → Nat → Nat → Nat) : Prop :=
  ∀ (col : Nat → K) (k n : Nat), (∃ i, k ≤ i ∧ i < n ∧ col i ≠ 0) →
    k ≤ pick col k n ∧ pick col k n < n ∧ col (pick col k n) ≠ 0

/-- invariant of the forward elimination after `k` columns, relative to the system `(A0, b0 column j)` it started from -/
structure Inv (n j : Nat) (A0 b0 : Nat → Nat → K) (k : Nat) (s : St K) : Prop where
  perm : PermOn n s.p
  sol : ∀ (y : Nat → K) (β : K), (∀ r, r < n → dot n (s.A r) y = β * s.b r j) →
    ∀ r, r < n → dot n (A0 r) y = β * b0 r j
  tri : ∀ i, i < n → ∀ c, c < k → c < i → s.A (s.p i) c = 0
  piv : ∀ c, c < k → s.A (s.p c) c ≠ 0
  bcol : ∀ r c, c ≠ j → s.b r c = b0 r c

theorem pivot_exists {n j : Nat} {A0 b0 : Nat → Nat → K} {k : Nat} {s : St K}
    (inv : Inv n j A0 b0 k s) (hk : k < n) (hNS : NS n A0) :
    ∃ i, k ≤ i ∧ i < n ∧ s.A (s.p i) k ≠ 0 := by
  by_contra hcon
  push Not at hcon
  let U : Nat → Nat → K := fun c i => s.A (s.p c) i
  obtain ⟨hy1, _⟩ := backSub_spec k U (fun c => -(U c k)) (fun _ => 0)
    (fun c hc i hi => inv.tri c (by omega) i (by omega) hi) (fun c hc => inv.piv c hc)
  let y' := backSub (fld K) k U (fun c => -(U c k)) (fun _ => 0)
  let y : Nat → K := fun i => if i < k then y' i else if i = k then 1 else 0
  have hrows : ∀ t, t < n → dot n (s.A (s.p t)) y = 0 := by
    intro t ht
    by_cases htk : t < k
    · unfold dot
      rw [sum_split n k hk]
      have e1 : ∑ i ∈ Finset.range k, s.A (s.p t) i * y i = -(U t k) := by
        rw [← hy1 t htk]
        unfold dot
        apply Finset.sum_congr rfl
        intro i hi
        have : i < k := Finset.mem_range.mp hi
        simp [y, this, U, y']
      have e2 : ∑ i ∈ Finset.range (n - (k + 1)), s.A (s.p t) (k + 1 + i) * y (k + 1 + i) = 0 := by
        apply Finset.sum_eq_zero
        intro i _
        have h1 : ¬ (k + 1 + i < k) := by omega
        have h2 : ¬ (k + 1 + i = k) := by omega
        simp [y, h1, h2]
      rw [e1, e2]
      simp [y, U]
    · unfold dot
      apply Finset.sum_eq_zero
      intro i _
      by_cases h1 : i < k
      · rw [inv.tri t ht i h1 (by omega)]; ring
      · by_cases h2 : i = k
        · subst h2; rw [hcon t (by omega) ht]; ring
        · simp [y, h1, h2]
  have hall : ∀ r, r < n → dot n (s.A r) y = 0 * s.b r j := by
    intro r hr
    obtain ⟨t, ht, e⟩ := inv.perm.surj r hr
    rw [← e, hrows t ht]; ring
  have h0 := inv.sol y 0 hall
  have := hNS y (fun r hr => by rw [h0 r hr]; ring) k hk
  simp [y] at this


/-- invariant of the inner loop `for (i = k+1; i < n; i++)` relative to the state `s1` at its start -/
structure RowInv (n j k : Nat) (s1 : St K) (i : Nat) (st : St K) : Prop where
  p_eq : st.p = s1.p
  keepA : ∀ t, t < n → (t ≤ k ∨ i ≤ t) → ∀ c, st.A (s1.p t) c = s1.A (s1.p t) c
  keepb : ∀ t, t < n → (t ≤ k ∨ i ≤ t) → st.b (s1.p t) j = s1.b (s1.p t) j
  doneA : ∀ t, k < t → t < i → t < n → ∀ c, c < n →
    st.A (s1.p t) c = s1.A (s1.p t) c + s1.A (s1.p k) c * (-(s1.A (s1.p t) k) / s1.A (s1.p k) k)
  doneb : ∀ t, k < t → t < i → t < n →
    st.b (s1.p t) j = s1.b (s1.p t) j + s1.b (s1.p k) j * (-(s1.A (s1.p t) k) / s1.A (s1.p k) k)
  bcol : ∀ r c, c ≠ j → st.b r c = s1.b r c

theorem elimRow_inv {n j k : Nat} {s1 : St K} (hp : PermOn n s1.p) (hk : k < n)
    (htri : ∀ c, c < k → s1.A (s1.p k) c = 0)
    {i : Nat} {st : St K} (hi1 : k + 1 ≤ i) (hi2 : i < n) (h : RowInv n j k s1 i st) :
    RowInv n j k s1 (i + 1) (elimRow (fld K) n j k st i) := by
  have hii : st.p i = s1.p i := by rw [h.p_eq]
  have hkk : st.p k = s1.p k := by rw [h.p_eq]
  have hAi : ∀ c, st.A (s1.p i) c = s1.A (s1.p i) c := h.keepA i hi2 (Or.inr (le_refl _))
  have hAk : ∀ c, st.A (s1.p k) c = s1.A (s1.p k) c := h.keepA k hk (Or.inl (le_refl _))
  have hbi : st.b (s1.p i) j = s1.b (s1.p i) j := h.keepb i hi2 (Or.inr (le_refl _))
  have hbk : st.b (s1.p k) j = s1.b (s1.p k) j := h.keepb k hk (Or.inl (le_refl _))
  have hne : ∀ t, t < n → t ≠ i → s1.p t ≠ s1.p i := fun t ht hti e => hti (hp.inj t i ht hi2 e)
  have eA : (elimRow (fld K) n j k st i).A = rowOp (fld K) n k st.A (s1.p i) (s1.p k)
      (-(s1.A (s1.p i) k) / s1.A (s1.p k) k) := by
    simp only [elimRow, look_tab, hii, hkk, hAi, hAk, fld_div, fld_neg]
  have eb : (elimRow (fld K) n j k st i).b = upd st.b (s1.p i) j
      (s1.b (s1.p i) j + s1.b (s1.p k) j * (-(s1.A (s1.p i) k) / s1.A (s1.p k) k)) := by
    simp only [elimRow, hii, hkk, hAi, hAk, hbi, hbk, fld_div, fld_neg, fld_add, fld_mul]
  refine ⟨?_, ?_, ?_, ?_, ?_, ?_⟩
  · simp only [elimRow]; exact h.p_eq
  · intro t ht hcase c
    have hti : t ≠ i := by omega
    rw [eA]
    simp only [rowOp, hne t ht hti, false_and, if_false]
    exact h.keepA t ht (by omega) c
  · intro t ht hcase
    have hti : t ≠ i := by omega
    rw [eb]
    simp only [upd, hne t ht hti, false_and, if_false]
    exact h.keepb t ht (by omega)
  · intro t hkt hti ht c hc
    by_cases e : t = i
    · subst e
      rw [eA]
      simp only [rowOp, true_and, hc, and_true, fld_add, fld_mul]
      by_cases hkc : k ≤ c
      · simp only [hkc, if_true, hAi, hAk]
      · simp only [hkc, if_false, hAi]
        rw [htri c (by omega)]; ring
    · rw [eA]
      simp only [rowOp, hne t ht e, false_and, if_false]
      exact h.doneA t hkt (by omega) ht c hc
  · intro t hkt hti ht
    by_cases e : t = i
    · subst e
      rw [eb]
      simp [upd]
    · rw [eb]
      simp only [upd, hne t ht e, false_and, if_false]
      exact h.doneb t hkt (by omega) ht
  · intro r c hc
    rw [eb]
    simp only [upd, hc, and_false, if_false]
    exact h.bcol r c hc


theorem dot_add_smul (n : Nat) (a b y : Nat → K) (f : K) (r : Nat → K) (h : ∀ c, c < n → r c = a c + b c * f) :
    dot n r y = dot n a y + f * dot n b y := by
  unfold dot
  rw [Finset.mul_sum, ← Finset.sum_add_distrib]
  apply Finset.sum_congr rfl
  intro c hc
  rw [h c (Finset.mem_range.mp hc)]; ring

theorem dot_congr (n : Nat) (a b y : Nat → K) (h : ∀ c, c < n → a c = b c) : dot n a y = dot n b y := by
  unfold dot
  apply Finset.sum_congr rfl
  intro c hc
  rw [h c (Finset.mem_range.mp hc)]

theorem elimStep_inv {n j : Nat} {A0 b0 : Nat → Nat → K} {k : Nat} {s : St K} {pick : (Nat → K) → Nat → Nat → Nat}
    (inv : Inv n j A0 b0 k s) (hk : k < n) (hNS : NS n A0) (hpick : PickOK pick) :
    Inv n j A0 b0 (k + 1) (elimStep (fld K) pick n j s k) := by
  obtain ⟨hip1, hip2, hip3⟩ := hpick (fun i => s.A (s.p i) k) k n (pivot_exists inv hk hNS)
  -- the state after the swap
  let ip := pick (fun i => s.A (s.p i) k) k n
  let s1 : St K := { s with p := swapP s.p k ip }
  have hp1 : PermOn n s1.p := permOn_swap inv.perm hk hip2
  have hs1k : s1.p k = s.p ip := by simp [s1, swapP]
  have hpos : ∀ t, t < n → ∃ t', t' < n ∧ s1.p t = s.p t' ∧ (t < k → t' = t) ∧ (k ≤ t → k ≤ t') := by
    intro t ht
    by_cases h1 : t = k
    · exact ⟨ip, hip2, by simp [s1, swapP, h1], by omega, by intro _; exact hip1⟩
    · by_cases h2 : t = ip
      · have h3 : ip ≠ k := h2 ▸ h1
        exact ⟨k, hk, by simp [s1, swapP, h2, h3], by omega, by omega⟩
      · exact ⟨t, ht, by simp [s1, swapP, h1, h2], by omega, by omega⟩
  have tri1 : ∀ t, t < n → ∀ c, c < k → c < t → s1.A (s1.p t) c = 0 := by
    intro t ht c hc hct
    obtain ⟨t', ht', e, h1, h2⟩ := hpos t ht
    rw [e]
    by_cases htk : t < k
    · rw [h1 htk]; exact inv.tri t ht c hc hct
    · exact inv.tri t' ht' c hc (by have := h2 (by omega); omega)
  have piv1 : s1.A (s1.p k) k ≠ 0 := by rw [hs1k]; exact hip3
  have pivlt : ∀ c, c < k → s1.A (s1.p c) c ≠ 0 := by
    intro c hc
    obtain ⟨t', _, e, h1, _⟩ := hpos c (by omega)
    rw [e, h1 hc]; exact inv.piv c hc
  -- the inner loop
  have hloop := foldl_range'_inv (elimRow (fld K) n j k) (fun i st => RowInv n j k s1 i st) (n - (k + 1)) (k + 1) s1
    ⟨rfl, fun _ _ _ _ => rfl, fun _ _ _ => rfl, fun t h1 h2 _ _ _ => by omega, fun t h1 h2 _ => by omega, fun _ _ _ => rfl⟩
    (fun i st h1 h2 h3 => elimRow_inv hp1 hk (fun c hc => tri1 k hk c hc hc) h1 (by omega) h3)
  have hn : k + 1 + (n - (k + 1)) = n := by omega
  rw [hn] at hloop
  have hres : elimStep (fld K) pick n j s k = (List.range' (k + 1) (n - (k + 1))).foldl (elimRow (fld K) n j k) s1 := rfl
  rw [hres]
  generalize (List.range' (k + 1) (n - (k + 1))).foldl (elimRow (fld K) n j k) s1 = st at hloop ⊢
  refine ⟨?_, ?_, ?_, ?_, ?_⟩
  · rw [hloop.p_eq]; exact hp1
  · intro y β hy r hr
    apply inv.sol y β _ r hr
    -- rows of s (= rows of s1) satisfy the equations
    have hkrow : dot n (s1.A (s1.p k)) y = β * s1.b (s1.p k) j := by
      have := hy (s1.p k) (hp1.lt k hk)
      rw [dot_congr n _ _ y (fun c _ => hloop.keepA k hk (Or.inl (le_refl _)) c), hloop.keepb k hk (Or.inl (le_refl _))] at this
      exact this
    intro r' hr'
    obtain ⟨t, ht, e⟩ := hp1.surj r' hr'
    show dot n (s1.A r') y = β * s1.b r' j
    rw [← e]
    by_cases htk : t ≤ k
    · have := hy (s1.p t) (hp1.lt t ht)
      rw [dot_congr n _ _ y (fun c _ => hloop.keepA t ht (Or.inl htk) c), hloop.keepb t ht (Or.inl htk)] at this
      exact this
    · have h1 := hy (s1.p t) (hp1.lt t ht)
      rw [dot_add_smul n (s1.A (s1.p t)) (s1.A (s1.p k)) y _ _ (fun c hc => hloop.doneA t (by omega) ht ht c hc),
        hloop.doneb t (by omega) ht ht, hkrow] at h1
      linear_combination h1
  · intro t ht c hc hct
    rw [hloop.p_eq]
    by_cases htk : t ≤ k
    · rw [hloop.keepA t ht (Or.inl htk) c]
      exact tri1 t ht c (by omega) hct
    · rw [hloop.doneA t (by omega) ht ht c (by omega)]
      by_cases hck : c = k
      · subst hck
        field_simp
        ring
      · rw [tri1 t ht c (by omega) hct, tri1 k hk c (by omega) (by omega)]; ring
  · intro c hc
    rw [hloop.p_eq, hloop.keepA c (by omega) (Or.inl (by omega)) c]
    by_cases hck : c = k
    · subst hck; exact piv1
    · exact pivlt c (by omega)
  · intro r c hc
    rw [hloop.bcol r c hc]
    exact inv.bcol r c hc


theorem eliminate_inv {n j : Nat} {A0 b0 : Nat → Nat → K} {pick : (Nat → K) → Nat → Nat → Nat}
    (hNS : NS n A0) (hpick : PickOK pick) :
    Inv n j A0 b0 (n - 1) (eliminate (fld K) pick n j ⟨A0, b0, fun i => i⟩) := by
  unfold eliminate
  apply foldl_range_inv (elimStep (fld K) pick n j) (fun k st => Inv n j A0 b0 k st) (n - 1)
  · exact ⟨permOn_id n, fun y β h => h, fun _ _ c hc _ => by omega, fun c hc => by omega, fun _ _ _ => rfl⟩
  · intro k st hk h
    exact elimStep_inv h (by omega) hNS hpick

/-- one right-hand-side column: the computed column solves the original system -/
theorem solveCol_spec {n m : Nat} {A0 : Nat → Nat → K} {pick : (Nat → K) → Nat → Nat → Nat}
    (hNS : NS n A0) (hpick : PickOK pick) (b x : Nat → Nat → K) (j : Nat) :
    (∀ r, r < n → dot n (A0 r) (fun i => (solveCol (fld K) pick n m A0 (b, x) j).2 i j) = b r j) ∧
    (∀ i c, c ≠ j → (solveCol (fld K) pick n m A0 (b, x) j).2 i c = x i c) ∧
    (∀ r c, c ≠ j → (solveCol (fld K) pick n m A0 (b, x) j).1 r c = b r c) := by
  have inv := eliminate_inv (j := j) (b0 := b) hNS hpick
  simp only [solveCol, look_tab]
  generalize eliminate (fld K) pick n j ⟨A0, b, fun i => i⟩ = s at inv
  refine ⟨?_, ?_, ?_⟩
  · intro r hr
    simp only [if_true]
    -- all pivots are non-zero, including the last one (no search for the last column)
    have hpiv : ∀ c, c < n → s.A (s.p c) c ≠ 0 := by
      intro c hc
      by_cases h : c < n - 1
      · exact inv.piv c h
      · have hc' : c = n - 1 := by omega
        obtain ⟨i, hi1, hi2, hi3⟩ := pivot_exists inv (by omega : n - 1 < n) hNS
        have : i = n - 1 := by omega
        subst hc'; rw [this] at hi3; exact hi3
    have htri : ∀ c, c < n → ∀ i, i < c → s.A (s.p c) i = 0 := by
      intro c hc i hi
      exact inv.tri c hc i (by omega) hi
    obtain ⟨hx, _⟩ := backSub_spec n (fun k i => s.A (s.p k) i) (fun k => s.b (s.p k) j) (fun i => x i j) htri hpiv
    have hall : ∀ r', r' < n → dot n (s.A r') (backSub (fld K) n (fun k i => s.A (s.p k) i) (fun k => s.b (s.p k) j) (fun i => x i j)) = 1 * s.b r' j := by
      intro r' hr'
      obtain ⟨t, ht, e⟩ := inv.perm.surj r' hr'
      rw [← e, one_mul]
      exact hx t ht
    have := inv.sol _ 1 hall r hr
    rw [one_mul] at this
    exact this
  · intro i c hc
    simp [hc]
  · intro r c hc
    exact inv.bcol r c hc

/-- all columns: `A·X = b` entry-wise for the square case of `solve_` -/
theorem solveSq_spec {n m : Nat} {A0 b0 : Nat → Nat → K} {pick : (Nat → K) → Nat → Nat → Nat}
    (hNS : NS n A0) (hpick : PickOK pick) :
    ∀ j, j < m → ∀ r, r < n → dot n (A0 r) (fun i => (solveSq (fld K) pick ⟨n, n, A0⟩ ⟨n, m, b0⟩).e i j) = b0 r j := by
  simp only [solveSq]
  have := foldl_range_inv (solveCol (fld K) pick n m A0)
    (fun j (bx : (Nat → Nat → K) × (Nat → Nat → K)) =>
      (∀ r c, j ≤ c → bx.1 r c = b0 r c) ∧ (∀ c, c < j → ∀ r, r < n → dot n (A0 r) (fun i => bx.2 i c) = b0 r c))
    m (b0, fun _ _ => (fld K).zero)
    ⟨fun _ _ _ => rfl, fun c hc => by omega⟩
    (by
      intro j bx hj ⟨h1, h2⟩
      obtain ⟨s1, s2, s3⟩ := solveCol_spec (m := m) hNS hpick bx.1 bx.2 j
      constructor
      · intro r c hc
        rw [s3 r c (by omega)]; exact h1 r c (by omega)
      · intro c hc r hr
        by_cases hcj : c = j
        · subst hcj
          rw [s1 r hr]; exact h1 r c (le_refl _)
        · have : (fun i => (solveCol (fld K) pick n m A0 bx j).2 i c) = fun i => bx.2 i c := by
            funext i; exact s2 i c hcj
          rw [this]; exact h2 c (by omega) r hr)
  intro j hj r hr
  exact this.2 j hj r hr

/-! ## the pivot search of the code is admissible -/

/-- what the pivot search needs from `fabs` and `<`: `0 < |x|` exactly for non-zero `x`, and nothing is
below-or-equal zero in absolute value except zero (true of the reals, of IEEE numbers other than NaN, of the prime-field order) -/
structure CmpOK (C : Cmp K) : Prop where
  pos : ∀ x, C.lt 0 (C.abs x) = true ↔ x ≠ 0
  nz : ∀ y x, C.lt (C.abs y) (C.abs x) = true → x ≠ 0

theorem pivotSearch_ok (C : Cmp K) (hC : CmpOK C) : PickOK (pivotSearch (fld K) C) := by
  intro col k n ⟨i0, h1, h2, h3⟩
  unfold pivotSearch
  have := foldl_range'_inv
    (fun (st : K × Nat) i => if C.lt st.1 (C.abs (col i)) then (C.abs (col i), i) else st)
    (fun i st => (st.1 = 0 ∧ ∀ t, k ≤ t → t < i → col t = 0) ∨
      ((∃ y, st.1 = C.abs y) ∧ k ≤ st.2 ∧ st.2 < i ∧ col st.2 ≠ 0))
    (n - k) k ((fld K).zero, 0) (Or.inl ⟨rfl, fun t h1 h2 => by omega⟩)
    (by
      intro i st hi1 hi2 h
      by_cases hlt : C.lt st.1 (C.abs (col i)) = true
      · simp only [hlt, if_true]
        right
        refine ⟨⟨col i, rfl⟩, hi1, by omega, ?_⟩
        rcases h with ⟨h0, _⟩ | ⟨⟨y, hy⟩, _⟩
        · rw [h0] at hlt; exact (hC.pos _).mp hlt
        · rw [hy] at hlt; exact hC.nz y _ hlt
      · have hlt' : C.lt st.1 (C.abs (col i)) = false := by simpa using hlt
        simp only [hlt', Bool.false_eq_true, if_false]
        rcases h with ⟨h0, hz⟩ | ⟨hy, a, b, c⟩
        · left
          refine ⟨h0, ?_⟩
          intro t ht1 ht2
          by_cases e : t = i
          · subst e
            by_contra hne
            rw [h0] at hlt
            exact hlt ((hC.pos _).mpr hne)
          · exact hz t ht1 (by omega)
        · right; exact ⟨hy, a, by omega, c⟩)
  have e : k + (n - k) = n := by omega
  rw [e] at this
  rcases this with ⟨_, hz⟩ | ⟨_, a, b, c⟩
  · exact absurd (hz i0 h1 h2) h3
  · exact ⟨a, b, c⟩

end AslProofs.Solve
