import AslProofs.Matrix
import AslModel.Solve
