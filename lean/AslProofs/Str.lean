import AslModel.Str
/-! Helper lemmas for C03 (String).  Property statements live in `AslProps/C03.lean`.  Core Lean only. -/
set_option linter.unusedVariables false
namespace AslProofs.Str
open AslModel.Str

/-! ## abstract (character-level) specifications used by the property theorems -/

/-- standard non-overlapping left-to-right replacement (what `bytes.replace` / `std::string` loops do) -/
def replaceAbs (a b : Bytes) (s : Bytes) : Bytes :=
  match s with
  | [] => []
  | c :: t =>
    if h : a ≠ [] ∧ a <+: c :: t then b ++ replaceAbs a b ((c :: t).drop a.length)
    else c :: replaceAbs a b t
termination_by s.length
decreasing_by
  · have : 0 < a.length := List.length_pos_iff.mpr h.1
    simp only [List.length_drop, List.length_cons]; omega
  · simp

/-- standard split by a non-empty separator: scan left to right, cut at every (non-overlapping) occurrence -/
def splitAbs (sep : Bytes) (cur : Bytes) (s : Bytes) : List Bytes :=
  match s with
  | [] => [cur]
  | c :: t =>
    if h : sep ≠ [] ∧ sep <+: c :: t then cur :: splitAbs sep [] ((c :: t).drop sep.length)
    else splitAbs sep (cur ++ [c]) t
termination_by s.length
decreasing_by
  · have : 0 < sep.length := List.length_pos_iff.mpr h.1
    simp only [List.length_drop, List.length_cons]; omega
  · simp

/-! ## strstr -/

theorem strstr_some {pat : Bytes} : ∀ {s : Bytes} {k : Nat}, strstr pat s = some k →
    pat <+: s.drop k ∧ k + pat.length ≤ s.length ∧ ∀ k', k' < k → ¬ pat <+: s.drop k'
  | [], k, h => by
    simp only [strstr] at h
    split at h
    · rename_i he
      have : pat = [] := by simpa using he
      cases h; subst this; simp
    · cases h
  | c :: t, k, h => by
    simp only [strstr] at h
    split at h
    · rename_i hp
      cases h
      have hp' := List.isPrefixOf_iff_prefix.mp hp
      refine ⟨by simpa using hp', ?_, by intro k' hk'; omega⟩
      simpa using hp'.length_le
    · rename_i hp
      cases hk : strstr pat t with
      | none => simp [hk] at h
      | some k0 =>
        simp only [hk, Option.map_some, Option.some.injEq] at h
        subst h
        obtain ⟨h1, h2, h3⟩ := strstr_some hk
        refine ⟨by simpa using h1, by simp only [List.length_cons]; omega, ?_⟩
        intro k' hk'
        cases k' with
        | zero =>
          intro hpre
          exact hp (List.isPrefixOf_iff_prefix.mpr (by simpa using hpre))
        | succ k'' =>
          simpa using h3 k'' (by omega)

theorem strstr_none {pat : Bytes} : ∀ {s : Bytes}, strstr pat s = none → ∀ k', ¬ pat <+: s.drop k'
  | [], h => by
    simp only [strstr] at h
    split at h
    · cases h
    · rename_i he
      intro k' hpre
      simp only [List.drop_nil, List.prefix_nil] at hpre
      exact he (by simp [hpre])
  | c :: t, h => by
    simp only [strstr] at h
    split at h
    · cases h
    · rename_i hp
      cases hk : strstr pat t with
      | some k0 => simp [hk] at h
      | none =>
        intro k'
        cases k' with
        | zero => intro hpre; exact hp (List.isPrefixOf_iff_prefix.mpr (by simpa using hpre))
        | succ k'' => simpa using strstr_none hk k''

/-- `strstr` finds an occurrence whenever there is one -/
theorem strstr_isSome_of_occ {pat s : Bytes} {k : Nat} (h : pat <+: s.drop k) : ∃ j, strstr pat s = some j ∧ j ≤ k := by
  cases hs : strstr pat s with
  | none => exact absurd h (strstr_none hs k)
  | some j =>
    refine ⟨j, rfl, ?_⟩
    by_cases hjk : j ≤ k
    · exact hjk
    · exact absurd h ((strstr_some hs).2.2 k (by omega))

/-! ## replace -/

theorem replaceAbs_nil (a b : Bytes) : replaceAbs a b [] = [] := by
  unfold replaceAbs; rfl

/-- scanning up to the first occurrence -/
theorem replaceAbs_scan (a b : Bytes) (ha : a ≠ []) : ∀ (u : Bytes),
    (∀ k, strstr a u = some k → replaceAbs a b u = u.take k ++ b ++ replaceAbs a b (u.drop (k + a.length))) ∧
    (strstr a u = none → replaceAbs a b u = u)
  | [] => by
    constructor
    · intro k hk
      simp only [strstr] at hk
      split at hk
      · rename_i he; exact absurd (by simpa using he) ha
      · cases hk
    · intro _; exact replaceAbs_nil a b
  | c :: t => by
    have ih := replaceAbs_scan a b ha t
    constructor
    · intro k hk
      simp only [strstr] at hk
      split at hk
      · rename_i hp
        cases hk
        have hp' := List.isPrefixOf_iff_prefix.mp hp
        rw [replaceAbs]
        simp [ha, hp']
      · rename_i hp
        have hp' : ¬ a <+: c :: t := fun h => hp (List.isPrefixOf_iff_prefix.mpr h)
        cases hk0 : strstr a t with
        | none => simp [hk0] at hk
        | some k0 =>
          simp only [hk0, Option.map_some, Option.some.injEq] at hk
          subst hk
          rw [replaceAbs]
          simp only [hp', and_false, dite_false]
          rw [ih.1 k0 hk0]
          simp [Nat.add_right_comm]
    · intro hn
      simp only [strstr] at hn
      split at hn
      · cases hn
      · rename_i hp
        have hp' : ¬ a <+: c :: t := fun h => hp (List.isPrefixOf_iff_prefix.mpr h)
        cases hk0 : strstr a t with
        | some k0 => simp [hk0] at hn
        | none =>
          rw [replaceAbs]
          simp only [hp', and_false, dite_false]
          rw [ih.2 hk0]

theorem sub_eq (s : Bytes) (i j : Nat) : sub s i j = (s.drop i).take (j - i) := rfl

theorem replaceLoop_eq (a b s : Bytes) (ha : a ≠ []) (i : Nat) (out : Bytes) (hi : i ≤ s.length) :
    replaceLoop a b s i out = out ++ b ++ replaceAbs a b (s.drop i) := by
  have hm : 0 < a.length := List.length_pos_iff.mpr ha
  fun_induction replaceLoop a b s i out with
  | case1 i out h j ih =>
    have hscan := replaceAbs_scan a b ha (s.drop i)
    cases hk : strstr a (s.drop i) with
    | some k =>
      have hj : j = i + k := by simp [j, nextCut, hk]
      obtain ⟨_, hlen, _⟩ := strstr_some hk
      simp only [List.length_drop] at hlen
      rw [ih (by omega), hscan.1 k hk, hj, sub_eq]
      simp [List.drop_drop, Nat.add_assoc]
    | none =>
      have hj : j = s.length := by simp [j, nextCut, hk]
      rw [hscan.2 hk]
      have hnext : ∀ o, replaceLoop a b s (j + a.length) o = o := by
        intro o
        unfold replaceLoop
        rw [dif_neg (by omega)]
      rw [hnext, hj, sub_eq, List.take_of_length_le (by simp)]
  | case2 i out h => omega

/-- the index loop of `String::replace` computes the standard replacement -/
theorem replace_eq (s a b : Bytes) (ha : a ≠ []) : replace s a b = replaceAbs a b s := by
  have hscan := replaceAbs_scan a b ha s
  unfold replace
  cases hk : strstr a s with
  | none => simp [hscan.2 hk]
  | some j =>
    obtain ⟨_, hlen, _⟩ := strstr_some hk
    simp only
    rw [replaceLoop_eq a b s ha _ _ hlen, hscan.1 j hk]
    simp [sub_eq]

/-! ## split / join -/

theorem splitAbs_scan (sep : Bytes) (hs : sep ≠ []) : ∀ (u cur : Bytes),
    (∀ k, strstr sep u = some k → splitAbs sep cur u = (cur ++ u.take k) :: splitAbs sep [] (u.drop (k + sep.length))) ∧
    (strstr sep u = none → splitAbs sep cur u = [cur ++ u])
  | [], cur => by
    constructor
    · intro k hk
      simp only [strstr] at hk
      split at hk
      · rename_i he; exact absurd (by simpa using he) hs
      · cases hk
    · intro _; unfold splitAbs; simp
  | c :: t, cur => by
    have ih := splitAbs_scan sep hs t (cur ++ [c])
    constructor
    · intro k hk
      simp only [strstr] at hk
      split at hk
      · rename_i hp
        cases hk
        have hp' := List.isPrefixOf_iff_prefix.mp hp
        rw [splitAbs]
        simp [hs, hp']
      · rename_i hp
        have hp' : ¬ sep <+: c :: t := fun h => hp (List.isPrefixOf_iff_prefix.mpr h)
        cases hk0 : strstr sep t with
        | none => simp [hk0] at hk
        | some k0 =>
          simp only [hk0, Option.map_some, Option.some.injEq] at hk
          subst hk
          rw [splitAbs]
          simp only [hp', and_false, dite_false]
          rw [ih.1 k0 hk0]
          simp [Nat.add_right_comm]
    · intro hn
      simp only [strstr] at hn
      split at hn
      · cases hn
      · rename_i hp
        have hp' : ¬ sep <+: c :: t := fun h => hp (List.isPrefixOf_iff_prefix.mpr h)
        cases hk0 : strstr sep t with
        | some k0 => simp [hk0] at hn
        | none =>
          rw [splitAbs]
          simp only [hp', and_false, dite_false]
          rw [ih.2 hk0]
          simp

theorem splitLoop_eq (sep s : Bytes) (hs : sep ≠ []) (i : Nat) (hi : i ≤ s.length) :
    splitLoop sep s i = splitAbs sep [] (s.drop i) := by
  have hm : 0 < sep.length := List.length_pos_iff.mpr hs
  fun_induction splitLoop sep s i with
  | case1 i h j ih =>
    have hscan := splitAbs_scan sep hs (s.drop i) []
    cases hk : strstr sep (s.drop i) with
    | some k =>
      have hj : j = i + k := by simp [j, nextCut, hk]
      obtain ⟨_, hlen, _⟩ := strstr_some hk
      simp only [List.length_drop] at hlen
      rw [ih (by omega), hscan.1 k hk, hj, sub_eq]
      simp [List.drop_drop, Nat.add_assoc]
    | none =>
      have hj : j = s.length := by simp [j, nextCut, hk]
      rw [hscan.2 hk]
      have hnext : splitLoop sep s (j + sep.length) = [] := by
        unfold splitLoop
        rw [dif_neg (by omega)]
      rw [hnext, hj, sub_eq, List.take_of_length_le (by simp)]
      simp
  | case2 i h => omega

theorem split_eq (sep s : Bytes) (hs : sep ≠ []) : split sep s = splitAbs sep [] s := by
  unfold split
  rw [splitLoop_eq sep s hs 0 (by omega)]
  simp

theorem joinLoop_eq (sep : Bytes) : ∀ (l : List Bytes) (acc : Bytes),
    joinLoop sep acc l = acc ++ (l.map (sep ++ ·)).flatten
  | [], acc => by simp [joinLoop]
  | p :: t, acc => by simp [joinLoop, joinLoop_eq sep t]

/-- `join` is `intercalate` -/
theorem join_cons_cons (sep p q : Bytes) (t : List Bytes) :
    join sep (p :: q :: t) = p ++ sep ++ join sep (q :: t) := by
  simp [join, joinLoop, joinLoop_eq]

theorem splitLoop_ne_nil (sep s : Bytes) (hs : sep ≠ []) (i : Nat) (hi : i ≤ s.length) : splitLoop sep s i ≠ [] := by
  have hm : 0 < sep.length := List.length_pos_iff.mpr hs
  unfold splitLoop
  simp [hi, hm]

theorem join_splitLoop (sep s : Bytes) (hs : sep ≠ []) (i : Nat) (hi : i ≤ s.length) :
    join sep (splitLoop sep s i) = s.drop i := by
  have hm : 0 < sep.length := List.length_pos_iff.mpr hs
  fun_induction splitLoop sep s i with
  | case1 i h j ih =>
    cases hk : strstr sep (s.drop i) with
    | some k =>
      have hj : j = i + k := by simp [j, nextCut, hk]
      obtain ⟨hpre, hlen, _⟩ := strstr_some hk
      simp only [List.length_drop] at hlen
      have hne := splitLoop_ne_nil sep s hs (j + sep.length) (by omega)
      cases hrest : splitLoop sep s (j + sep.length) with
      | nil => exact absurd hrest hne
      | cons q t =>
        rw [join_cons_cons, ← hrest, ih (by omega), sub_eq, hj]
        have h3 := List.prefix_iff_eq_append.mp hpre
        simp only [List.drop_drop] at h3
        have e : i + k - i = k := by omega
        rw [e, List.append_assoc]
        have : sep ++ List.drop (i + k + sep.length) s = List.drop (i + k) s := by
          rw [← h3]
        rw [this]
        have h4 : List.drop (i + k) s = List.drop k (List.drop i s) := by simp [List.drop_drop]
        rw [h4, List.take_append_drop]
    | none =>
      have hj : j = s.length := by simp [j, nextCut, hk]
      have : splitLoop sep s (j + sep.length) = [] := by
        unfold splitLoop
        rw [dif_neg (by omega)]
      rw [this, hj, sub_eq]
      simp only [join, joinLoop]
      rw [List.take_of_length_le (by simp)]
  | case2 i h => omega


/-! ## trim -/

theorem trimEnd_self (s : Bytes) (i : Nat) : trimEnd s i i = i := by
  cases i with
  | zero => rfl
  | succ k => simp [trimEnd]

theorem trimEnd_rev (p : Bytes) : ∀ (w rest : Bytes),
    trimEnd (p ++ w.reverse ++ rest) p.length (p.length + w.length) = p.length + (w.dropWhile isSpace).length
  | [], rest => by simp [trimEnd_self]
  | x :: w', rest => by
    have ih := trimEnd_rev p w' ([x] ++ rest)
    have hs : p ++ (x :: w').reverse ++ rest = p ++ w'.reverse ++ ([x] ++ rest) := by simp
    have hx : (p ++ w'.reverse ++ ([x] ++ rest)).getD (p.length + w'.length) 0 = x := by
      rw [List.getD_eq_getElem?_getD]
      have : p.length + w'.length = (p ++ w'.reverse).length := by simp
      rw [this, List.getElem?_append_right (Nat.le_refl _)]
      simp
    rw [hs]
    have e : p.length + (x :: w').length = (p.length + w'.length) + 1 := by simp; omega
    rw [e, trimEnd]
    have hn : ¬ (p.length + w'.length + 1 ≤ p.length) := by omega
    simp only [hn, if_false, hx]
    by_cases hsp : isSpace x = true
    · simp only [hsp, Bool.not_true, Bool.false_eq_true, if_false, List.dropWhile_cons_of_pos]
      exact ih
    · have hsp' : isSpace x = false := by simpa using hsp
      simp [hsp', List.dropWhile_cons_of_neg]
      omega

theorem take_length_dropWhile_reverse (f : UInt8 → Bool) (u : Bytes) :
    u.take (u.reverse.dropWhile f).length = (u.reverse.dropWhile f).reverse := by
  have h : u.reverse.takeWhile f ++ u.reverse.dropWhile f = u.reverse := List.takeWhile_append_dropWhile
  have h2 : u = (u.reverse.dropWhile f).reverse ++ (u.reverse.takeWhile f).reverse := by
    have := congrArg List.reverse h
    simp only [List.reverse_reverse, List.reverse_append] at this
    exact this.symm
  generalize u.reverse.dropWhile f = dw at h2
  generalize u.reverse.takeWhile f = tw at h2
  subst h2
  rw [List.take_left' (by simp)]

/-- the two scans of `trimmed()`/`trim()` select exactly the text without leading/trailing blanks -/
theorem trimmed_eq (s : Bytes) :
    trimmed s = ((s.dropWhile isSpace).reverse.dropWhile isSpace).reverse := by
  unfold trimmed trimStart
  have hs : s.takeWhile isSpace ++ s.dropWhile isSpace = s := List.takeWhile_append_dropWhile
  generalize s.takeWhile isSpace = p at hs ⊢
  generalize s.dropWhile isSpace = u at hs ⊢
  subst hs
  have hJ := trimEnd_rev p u.reverse []
  simp only [List.reverse_reverse, List.append_nil, List.length_reverse] at hJ
  simp only [List.length_append, hJ, sub_eq, Nat.add_sub_cancel_left]
  rw [List.drop_left' rfl]
  exact take_length_dropWhile_reverse isSpace u

theorem trimEnd_le (s : Bytes) (i : Nat) : ∀ J, trimEnd s i J ≤ J
  | 0 => by simp [trimEnd]
  | J + 1 => by
    rw [trimEnd]
    split
    · omega
    · split
      · omega
      · have := trimEnd_le s i J; omega

theorem trimEnd_ge (s : Bytes) (i : Nat) : ∀ J, i ≤ J → i ≤ trimEnd s i J
  | 0, h => by simp [trimEnd]; omega
  | J + 1, h => by
    rw [trimEnd]
    split
    · omega
    · split
      · omega
      · exact trimEnd_ge s i J (by omega)

theorem trimStart_le (s : Bytes) : trimStart s ≤ s.length := by
  unfold trimStart
  exact (List.takeWhile_prefix _).length_le

/-! ## indexOf / lastIndexOf -/

theorem indexOf_some {s pat : Bytes} {i0 k : Nat} (hi0 : i0 ≤ s.length) (h : indexOf s pat i0 = some k) :
    i0 ≤ k ∧ pat <+: s.drop k ∧ k + pat.length ≤ s.length ∧ ∀ k', i0 ≤ k' → k' < k → ¬ pat <+: s.drop k' := by
  unfold indexOf at h
  cases hk : strstr pat (s.drop i0) with
  | none => simp [hk] at h
  | some j =>
    simp only [hk, Option.map_some, Option.some.injEq] at h
    subst h
    obtain ⟨h1, h2, h3⟩ := strstr_some hk
    simp only [List.drop_drop, List.length_drop] at h1 h2 h3
    refine ⟨by omega, h1, by omega, ?_⟩
    intro k' hk1 hk2
    have := h3 (k' - i0) (by omega)
    have e : i0 + (k' - i0) = k' := by omega
    rwa [e] at this

theorem indexOf_none {s pat : Bytes} {i0 : Nat} (h : indexOf s pat i0 = none) :
    ∀ k', i0 ≤ k' → ¬ pat <+: s.drop k' := by
  unfold indexOf at h
  cases hk : strstr pat (s.drop i0) with
  | some j => simp [hk] at h
  | none =>
    intro k' hk'
    have := strstr_none hk (k' - i0)
    simp only [List.drop_drop] at this
    have e : i0 + (k' - i0) = k' := by omega
    rwa [e] at this

theorem lastIndexOfLoop_spec (s pat : Bytes) (hp : pat ≠ []) (i : Nat) (j : Option Nat) :
    ((∀ k, i ≤ k → ¬ pat <+: s.drop k) ∧ lastIndexOfLoop s pat i j = j) ∨
    (∃ k, i ≤ k ∧ lastIndexOfLoop s pat i j = some k ∧ pat <+: s.drop k ∧ ∀ k', k < k' → ¬ pat <+: s.drop k') := by
  fun_induction lastIndexOfLoop s pat i j with
  | case1 i j h k hk ih =>
    obtain ⟨h1, _, _⟩ := strstr_some hk
    simp only [List.drop_drop] at h1
    rcases ih with ⟨hno, hr⟩ | ⟨k2, hk2, hr, hocc, hmax⟩
    · right
      exact ⟨i + k, by omega, hr, h1, fun k' hk' => hno k' (by omega)⟩
    · right
      exact ⟨k2, by omega, hr, hocc, hmax⟩
  | case2 i j h hk =>
    left
    refine ⟨?_, rfl⟩
    intro k hik
    have := strstr_none hk (k - i)
    simp only [List.drop_drop] at this
    have e : i + (k - i) = k := by omega
    rwa [e] at this
  | case3 i j h =>
    left
    refine ⟨?_, rfl⟩
    intro k hik hpre
    have : s.drop k = [] := List.drop_eq_nil_of_le (by omega)
    rw [this] at hpre
    exact hp (List.prefix_nil.mp hpre)

/-! ## strcmp -/

theorem strcmp_spec : ∀ (a b : Bytes),
    (strcmp a b = -1 ∧ a < b) ∨ (strcmp a b = 0 ∧ a = b) ∨ (strcmp a b = 1 ∧ b < a)
  | [], [] => by simp [strcmp]
  | [], y :: b => by simp [strcmp]
  | x :: a, [] => by simp [strcmp]
  | x :: a, y :: b => by
    rw [strcmp]
    by_cases h1 : x < y
    · simp [h1, List.cons_lt_cons_iff]
    · by_cases h2 : y < x
      · simp [h1, h2, List.cons_lt_cons_iff]
      · have hxy : x = y := by
          have := UInt8.le_antisymm (UInt8.not_lt.mp h2) (UInt8.not_lt.mp h1)
          exact this
        subst hxy
        simp only [h1, if_false]
        rcases strcmp_spec a b with ⟨h, hl⟩ | ⟨h, he⟩ | ⟨h, hg⟩
        · left; exact ⟨h, List.cons_lt_cons_iff.mpr (Or.inr ⟨rfl, hl⟩)⟩
        · right; left; exact ⟨h, by rw [he]⟩
        · right; right; exact ⟨h, List.cons_lt_cons_iff.mpr (Or.inr ⟨rfl, hg⟩)⟩

/-! ## numbers -/

def IsDigit (c : UInt8) : Prop := 48 ≤ c ∧ c ≤ 57

theorem digit_of_mod (n : Nat) : IsDigit (UInt8.ofNat (48 + n % 10)) ∧ (UInt8.ofNat (48 + n % 10)).toNat = 48 + n % 10 := by
  have h : n % 10 < 10 := Nat.mod_lt _ (by decide)
  have h2 : (UInt8.ofNat (48 + n % 10)).toNat = 48 + n % 10 := by
    simp only [UInt8.toNat_ofNat']
    omega
  refine ⟨⟨?_, ?_⟩, h2⟩
  · rw [UInt8.le_iff_toNat_le, h2]; simp
  · rw [UInt8.le_iff_toNat_le, h2]; simp; omega

theorem digitsRev_zero : digitsRev 0 = [] := by unfold digitsRev; simp

theorem digitsRev_pos (n : Nat) (h : n ≠ 0) : digitsRev n = UInt8.ofNat (48 + n % 10) :: digitsRev (n / 10) := by
  rw [digitsRev]; simp [h]

theorem digitsRev_digits (n : Nat) : ∀ c ∈ digitsRev n, IsDigit c := by
  induction n using Nat.strongRecOn with
  | _ n ih =>
    by_cases h : n = 0
    · subst h; simp [digitsRev_zero]
    · rw [digitsRev_pos n h]
      intro c hc
      rcases List.mem_cons.mp hc with rfl | hc
      · exact (digit_of_mod n).1
      · exact ih (n / 10) (by omega) c hc

theorem digitsRev_ne_nil (n : Nat) (h : n ≠ 0) : digitsRev n ≠ [] := by
  rw [digitsRev_pos n h]; simp

/-- reading back the digits written most-significant first -/
theorem digitLoop_digits (n : Nat) : ∀ (t : Bytes), digitLoop ((digitsRev n).reverse ++ t) 0 = digitLoop t n := by
  induction n using Nat.strongRecOn with
  | _ n ih =>
    intro t
    by_cases h : n = 0
    · subst h; simp [digitsRev_zero]
    · rw [digitsRev_pos n h, List.reverse_cons, List.append_assoc, ih (n / 10) (by omega)]
      obtain ⟨⟨d1, d2⟩, d3⟩ := digit_of_mod n
      simp only [List.singleton_append, digitLoop, d1, d2, and_self, if_true, d3]
      congr 1
      omega

theorem digitLoop_nil (y : Int) : digitLoop [] y = y := rfl

theorem signSplit_digit (c : UInt8) (t : Bytes) (h : IsDigit c) : signSplit (c :: t) = (1, c :: t) := by
  have h1 : c ≠ 45 := by intro e; subst e; exact absurd h.1 (by decide)
  have h2 : c ≠ 43 := by intro e; subst e; exact absurd h.1 (by decide)
  unfold signSplit
  split
  · rename_i heq; cases heq; exact absurd rfl h1
  · rename_i heq; cases heq; exact absurd rfl h2
  · rfl

theorem head_digit (n : Nat) (h : n ≠ 0) : ∃ c t, (digitsRev n).reverse = c :: t ∧ IsDigit c := by
  cases hr : (digitsRev n).reverse with
  | nil => exact absurd (List.reverse_eq_nil_iff.mp hr) (digitsRev_ne_nil n h)
  | cons c t =>
    refine ⟨c, t, rfl, digitsRev_digits n c ?_⟩
    have : c ∈ (digitsRev n).reverse := by rw [hr]; simp
    simpa using this

theorem wrap32_id (x : Int) (h1 : -2147483648 ≤ x) (h2 : x < 2147483648) : wrap32 x = x := by
  unfold wrap32; rw [Int.bmod_def]; split <;> omega

theorem wrap64_id (x : Int) (h1 : -9223372036854775808 ≤ x) (h2 : x < 9223372036854775808) : wrap64 x = x := by
  unfold wrap64; rw [Int.bmod_def]; split <;> omega

/-- positive numbers: `atoi`-style loops read back `(digitsRev n).reverse` as `n` -/
theorem parse_pos (n : Nat) (h : n ≠ 0) :
    signSplit ((digitsRev n).reverse) = (1, (digitsRev n).reverse) ∧ digitLoop (digitsRev n).reverse 0 = n := by
  obtain ⟨c, t, hr, hd⟩ := head_digit n h
  constructor
  · rw [hr]; exact signSplit_digit c t hd
  · have := digitLoop_digits n []
    simpa [digitLoop_nil] using this

theorem myatoi_myitoa (x : Int) (h1 : -2147483648 ≤ x) (h2 : x < 2147483648) : myatoi (myitoa x) = x := by
  unfold myitoa
  by_cases h0 : x = 0
  · subst h0; decide
  · simp only [h0, if_false]
    by_cases hneg : x < 0
    · simp only [hneg, if_true]
      by_cases hmin : x = -2147483648
      · subst hmin; decide
      · simp only [hmin, if_false]
        have hn : (-x).toNat ≠ 0 := by omega
        obtain ⟨_, hd⟩ := parse_pos (-x).toNat hn
        unfold myatoi
        simp only [signSplit, hd]
        rw [wrap32_id] <;> omega
    · simp only [hneg, if_false]
      have hn : x.toNat ≠ 0 := by omega
      obtain ⟨hs, hd⟩ := parse_pos x.toNat hn
      unfold myatoi
      simp only [hs, hd]
      rw [wrap32_id] <;> omega

theorem myatol_myltoa (x : Int) (h1 : -9223372036854775808 ≤ x) (h2 : x < 9223372036854775808) : myatol (myltoa x) = x := by
  unfold myltoa
  by_cases h0 : x = 0
  · subst h0; decide
  · simp only [h0, if_false]
    by_cases hneg : x < 0
    · simp only [hneg, if_true]
      have hm : (18446744073709551616 - (x % 18446744073709551616).toNat) % 18446744073709551616 = (-x).toNat := by omega
      rw [hm]
      have hn : (-x).toNat ≠ 0 := by omega
      obtain ⟨_, hd⟩ := parse_pos (-x).toNat hn
      unfold myatol
      simp only [signSplit, hd]
      rw [wrap64_id] <;> omega
    · simp only [hneg, if_false]
      have hm : (x % 18446744073709551616).toNat = x.toNat := by omega
      rw [hm]
      have hn : x.toNat ≠ 0 := by omega
      obtain ⟨hs, hd⟩ := parse_pos x.toNat hn
      unfold myatol
      simp only [hs, hd]
      rw [wrap64_id] <;> omega

theorem utoa_parse (x : Nat) : signSplit (utoa x) = (1, utoa x) ∧ digitLoop (utoa x) 0 = x := by
  unfold utoa
  by_cases h0 : x = 0
  · subst h0; decide
  · simp only [h0, if_false]
    exact parse_pos x h0

theorem utoa_head_digit (x : Nat) : ∃ c t, utoa x = c :: t ∧ IsDigit c := by
  unfold utoa
  by_cases h0 : x = 0
  · subst h0; exact ⟨48, [], rfl, ⟨by decide, by decide⟩⟩
  · simp only [h0, if_false]
    exact head_digit x h0

/-- `(ULong)(Long)String(x)`: `myatol` wraps, the cast back to unsigned recovers `x` -/
theorem toU64_myatol_utoa (x : Nat) (h : x < 18446744073709551616) : toU64 (myatol (utoa x)) = x := by
  obtain ⟨hs, hd⟩ := utoa_parse x
  unfold myatol toU64 wrap64
  simp only [hs, hd]
  rw [Int.bmod_def]
  split <;> omega

theorem cIsSpace_digit (c : UInt8) (h : IsDigit c) : cIsSpace c = false := by
  obtain ⟨h1, h2⟩ := h
  unfold cIsSpace
  have a : c.toNat ≥ 48 := by simpa [UInt8.le_iff_toNat_le] using h1
  have e1 : (c == 32) = false := by
    apply beq_false_of_ne; intro e; subst e; simp at a
  have e2 : (c ≤ 13) = False := by
    simp only [eq_iff_iff, iff_false, UInt8.not_le, UInt8.lt_iff_toNat_lt]; simp; omega
  simp [e1, e2]

/-- `(unsigned)String(x)` = `atoi(...)`: strtol does not saturate below 2^32, the casts recover `x` -/
theorem toU32_cAtoi_utoa (x : Nat) (h : x < 4294967296) : toU32 (cAtoi (utoa x)) = x := by
  obtain ⟨hs, hd⟩ := utoa_parse x
  obtain ⟨c, t, hu, hc⟩ := utoa_head_digit x
  have hdw : (utoa x).dropWhile cIsSpace = utoa x := by
    rw [hu, List.dropWhile_cons_of_neg (by simp [cIsSpace_digit c hc])]
  unfold cAtoi toU32 wrap32
  simp only [hdw, hs, hd]
  have e1 : ¬ ((x : Int) * 1 > 9223372036854775807) := by omega
  have e2 : ¬ ((x : Int) * 1 < -9223372036854775808) := by omega
  simp only [e1, e2, if_false]
  rw [Int.bmod_def]
  split <;> omega

/-- number of characters written: at most 10 digits for `n < 10^10`, 20 for `n < 10^20` -/
theorem digitsRev_length (k : Nat) : ∀ n, n < 10 ^ k → (digitsRev n).length ≤ k := by
  induction k with
  | zero => intro n h; have : n = 0 := by simpa using h
            subst this; simp [digitsRev_zero]
  | succ k ih =>
    intro n h
    by_cases h0 : n = 0
    · subst h0; simp [digitsRev_zero]
    · rw [digitsRev_pos n h0]
      have : n / 10 < 10 ^ k := by
        rw [Nat.pow_succ] at h
        omega
      have := ih (n / 10) this
      simp only [List.length_cons]; omega


/-! ## canonical decimal text -/

def ascii (b : UInt8) : Char := Char.ofNat b.toNat

theorem digitChar_small : ∀ d, d < 10 → ascii (UInt8.ofNat (48 + d)) = d.digitChar := by decide

/-- the digits written are exactly those of Lean's `Nat.toDigits 10` -/
theorem digitsRev_toDigits (n : Nat) (h : n ≠ 0) : (digitsRev n).reverse.map ascii = Nat.toDigits 10 n := by
  induction n using Nat.strongRecOn with
  | _ n ih =>
    rw [digitsRev_pos n h, List.reverse_cons, List.map_append, List.map_cons, List.map_nil,
      digitChar_small (n % 10) (Nat.mod_lt _ (by decide)), ← Nat.toDigits_of_lt_base (b := 10) (Nat.mod_lt n (by decide))]
    by_cases h10 : n / 10 = 0
    · have : n % 10 = n := by omega
      rw [h10, digitsRev_zero, this]; rfl
    · rw [ih (n / 10) (by omega) h10, Nat.toDigits_append_toDigits (by decide) (by omega) (Nat.mod_lt _ (by decide))]
      congr 1; omega

/-- `%u`/`%llu` text (and the magnitude part of `myitoa`/`myltoa`) is Lean's `Nat.repr`: canonical decimal, no leading zeros -/
theorem utoa_repr (n : Nat) : String.ofList ((utoa n).map ascii) = Nat.repr n := by
  unfold utoa Nat.repr
  split
  · rename_i h; subst h; rfl
  · rename_i h; rw [digitsRev_toDigits n h]

theorem utoa_no_leading_zero (n : Nat) (h : n ≠ 0) : (utoa n).head? ≠ some 48 := by
  unfold utoa
  simp only [h, if_false]
  induction n using Nat.strongRecOn with
  | _ n ih =>
    rw [digitsRev_pos n h, List.reverse_cons]
    by_cases h10 : n / 10 = 0
    · rw [h10, digitsRev_zero]
      have hd : n % 10 ≠ 0 := by omega
      have := (digit_of_mod n).2
      simp only [List.reverse_nil, List.nil_append, List.head?_cons, ne_eq, Option.some.injEq]
      intro e
      have e2 := congrArg UInt8.toNat e
      rw [this] at e2
      simp at e2; omega
    · have hne := digitsRev_ne_nil (n / 10) h10
      have := ih (n / 10) (by omega) h10
      cases hr : (digitsRev (n / 10)).reverse with
      | nil => exact absurd (List.reverse_eq_nil_iff.mp hr) hne
      | cons c t => rw [hr] at this; simpa using this

theorem intmin_digits : Gen.Str.intMinText = 45 :: (digitsRev 2147483648).reverse := by
  simp [digitsRev_pos, digitsRev_zero, Gen.Str.intMinText]

/-- `myitoa` is an optional `-` followed by the canonical decimal text of the magnitude, for every `int`
    (the `INT_MIN` literal included — a fact about the regenerated literal) -/
theorem myitoa_shape (x : Int) (h1 : -2147483648 ≤ x) (h2 : x < 2147483648) :
    myitoa x = if x < 0 then 45 :: utoa (-x).toNat else utoa x.toNat := by
  unfold myitoa utoa
  by_cases h0 : x = 0
  · subst h0; rfl
  · simp only [h0, if_false]
    by_cases hneg : x < 0
    · simp only [hneg, if_true]
      by_cases hmin : x = -2147483648
      · subst hmin
        simp only [if_true, intmin_digits]
        rfl
      · have : (-x).toNat ≠ 0 := by omega
        simp only [hmin, if_false, this]
    · have : x.toNat ≠ 0 := by omega
      simp only [hneg, if_false, this]

theorem myltoa_shape (x : Int) (h1 : -9223372036854775808 ≤ x) (h2 : x < 9223372036854775808) :
    myltoa x = if x < 0 then 45 :: utoa (-x).toNat else utoa x.toNat := by
  unfold myltoa utoa
  by_cases h0 : x = 0
  · subst h0; rfl
  · simp only [h0, if_false]
    by_cases hneg : x < 0
    · have hm : (18446744073709551616 - (x % 18446744073709551616).toNat) % 18446744073709551616 = (-x).toNat := by omega
      have : (-x).toNat ≠ 0 := by omega
      simp only [hneg, if_true, hm, this, if_false]
    · have hm : (x % 18446744073709551616).toNat = x.toNat := by omega
      have : x.toNat ≠ 0 := by omega
      simp only [hneg, if_false, hm, this]

/-! ## substr -/

/-- `substr(i, n)` for a string shorter than 2^31, `-len ≤ i`, `0 ≤ n` (both `int`): none of the code's `int`
    additions wraps any more, and the indices select at most `n` bytes from the start position -/
theorem substrIdx_spec (s : Bytes) (i n : Int) (hlen : (s.length : Int) < 2147483648)
    (hi : -(s.length : Int) ≤ i) (hi2 : i < 2147483648) (hn : 0 ≤ n) (hn2 : n < 2147483648) :
    ∃ a b, substrIdx s.length i n = some (a, b) ∧ a ≤ b ∧ b ≤ s.length ∧
      sub s a b = (s.drop (if i < 0 then i + s.length else i).toNat).take n.toNat := by
  have hst : (if i < 0 then wrap32 (i + s.length) else i) = (if i < 0 then i + s.length else i) := by
    split
    · rw [wrap32_id] <;> omega
    · rfl
  unfold substrIdx
  simp only [hst]
  generalize hS : (if i < 0 then i + (s.length : Int) else i) = st
  have hst0 : 0 ≤ st := by subst hS; split <;> omega
  have hst2 : st < 2147483648 := by subst hS; split <;> omega
  have hneg : ¬ st < 0 := by omega
  simp only [hneg, if_false]
  by_cases hge : st ≥ s.length
  · simp only [hge, if_true]
    have hw : wrap32 ((s.length : Int) - s.length) = 0 := by rw [Int.sub_self]; rfl
    have hj : (if n > wrap32 ((s.length : Int) - s.length) then (s.length : Int) else wrap32 (s.length + n)) = s.length := by
      rw [hw]
      split
      · rfl
      · have : n = 0 := by omega
        subst this; rw [wrap32_id] <;> omega
    rw [hj]
    simp only [Int.lt_irrefl, if_false, Int.toNat_natCast]
    refine ⟨_, _, rfl, Nat.le_refl _, Nat.le_refl _, ?_⟩
    rw [sub_eq, List.drop_eq_nil_of_le (Nat.le_refl _), List.drop_eq_nil_of_le (by omega)]
    simp
  · simp only [hge, if_false]
    have hw : wrap32 ((s.length : Int) - st) = s.length - st := by rw [wrap32_id] <;> omega
    rw [hw]
    by_cases hbig : n > (s.length : Int) - st
    · simp only [hbig, if_true]
      have : ¬ ((s.length : Int) < st) := by omega
      simp only [this, if_false, Int.toNat_natCast]
      refine ⟨_, _, rfl, by omega, Nat.le_refl _, ?_⟩
      rw [sub_eq, List.take_of_length_le (by simp), List.take_of_length_le (by simp only [List.length_drop]; omega)]
    · simp only [hbig, if_false]
      have hw2 : wrap32 (st + n) = st + n := by rw [wrap32_id] <;> omega
      rw [hw2]
      have : ¬ (st + n < st) := by omega
      simp only [this, if_false]
      refine ⟨_, _, rfl, by omega, by omega, ?_⟩
      rw [sub_eq]
      congr 1
      omega

/-- before the repair: `"hello world".substr(1, INT_MAX)` computed `1 + INT_MAX = INT_MIN` and asked for a
    string of negative size (`none`), although all arguments are in range -/
theorem substr_unrepaired_counterexample :
    substrIdxUnrepaired 11 1 2147483647 = none ∧ substrIdx 11 1 2147483647 = some (1, 11) := by decide

end AslProofs.Str
