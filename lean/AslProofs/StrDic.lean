import AslModel.Str
import AslProofs.Str
/-!
# C03 — `split(sep1, sep2)` → `Dic`: the association list built by the loop

`dic[key] = value` on a `Dic` is "replace or insert"; the model keeps the association list with the overwritten
entry removed and the new one appended.  `mem_build` is the generic statement about such a loop: an entry is in the
result iff it comes from the LAST element of the input that produces its key.
-/
namespace AslProofs.Str
open AslModel.Str

/-- the `(key, value)` pair a piece `p` contributes: `j = p.indexOf(sep2); if (j > 0) (p[0..j), p[j+|sep2|..))` -/
def kvOf (sep2 p : Bytes) : Option (Bytes × Bytes) :=
  match indexOf p sep2 0 with
  | some j => if j > 0 then some (sub p 0 j, sub p (j + sep2.length) p.length) else none
  | none => none

abbrev Assoc := List (Bytes × Bytes)

def upsert (d : Assoc) (kv : Bytes × Bytes) : Assoc := d.filter (·.1 != kv.1) ++ [kv]

def stepF (f : Bytes → Option (Bytes × Bytes)) (d : Assoc) (p : Bytes) : Assoc :=
  match f p with
  | some kv => upsert d kv
  | none => d

theorem splitDic_eq (s sep1 sep2 : Bytes) : splitDic s sep1 sep2 = (split sep1 s).foldl (stepF (kvOf sep2)) [] := by
  unfold splitDic
  congr 1
  funext dic p
  unfold stepF kvOf upsert
  cases indexOf p sep2 0 with
  | none => rfl
  | some j => by_cases hj : j > 0 <;> simp [hj]

theorem mem_upsert (d : Assoc) (kv x : Bytes × Bytes) : x ∈ upsert d kv ↔ (x ∈ d ∧ x.1 ≠ kv.1) ∨ x = kv := by
  unfold upsert
  simp [List.mem_filter]

theorem nodup_upsert (d : Assoc) (kv : Bytes × Bytes) (h : (d.map (·.1)).Nodup) : ((upsert d kv).map (·.1)).Nodup := by
  unfold upsert
  rw [List.map_append, List.nodup_append]
  refine ⟨(List.filter_sublist.map _).nodup h, by simp, ?_⟩
  intro a ha b hb
  simp only [List.map_cons, List.map_nil, List.mem_singleton] at hb
  subst hb
  obtain ⟨x, hx, rfl⟩ := List.mem_map.mp ha
  have := (List.mem_filter.mp hx).2
  simpa using this

theorem nodup_build (f : Bytes → Option (Bytes × Bytes)) (l : List Bytes) (d : Assoc) (h : (d.map (·.1)).Nodup) :
    ((l.foldl (stepF f) d).map (·.1)).Nodup := by
  induction l generalizing d with
  | nil => exact h
  | cons a l ih =>
    rw [List.foldl_cons]
    apply ih
    unfold stepF
    cases f a with
    | none => exact h
    | some kv => exact nodup_upsert d kv h

/-- no later element produces key `k` -/
def NoKey (f : Bytes → Option (Bytes × Bytes)) (k : Bytes) (l : List Bytes) : Prop := ∀ q ∈ l, ∀ v', f q ≠ some (k, v')

theorem mem_build (f : Bytes → Option (Bytes × Bytes)) (l : List Bytes) (d : Assoc) (k v : Bytes) :
    (k, v) ∈ l.foldl (stepF f) d ↔
      (∃ pre p post, l = pre ++ p :: post ∧ f p = some (k, v) ∧ NoKey f k post) ∨ ((k, v) ∈ d ∧ NoKey f k l) := by
  induction l generalizing d with
  | nil => simp [NoKey]
  | cons a l ih =>
    rw [List.foldl_cons, ih]
    have hA : (∃ pre p post, a :: l = pre ++ p :: post ∧ f p = some (k, v) ∧ NoKey f k post) ↔
        (f a = some (k, v) ∧ NoKey f k l) ∨ (∃ pre p post, l = pre ++ p :: post ∧ f p = some (k, v) ∧ NoKey f k post) := by
      constructor
      · rintro ⟨pre, p, post, e, hp, hn⟩
        cases pre with
        | nil => simp at e; obtain ⟨rfl, rfl⟩ := e; exact Or.inl ⟨hp, hn⟩
        | cons b pre => simp at e; obtain ⟨rfl, rfl⟩ := e; exact Or.inr ⟨pre, p, post, rfl, hp, hn⟩
      · rintro (⟨hp, hn⟩ | ⟨pre, p, post, e, hp, hn⟩)
        · exact ⟨[], a, l, rfl, hp, hn⟩
        · exact ⟨a :: pre, p, post, by rw [e]; rfl, hp, hn⟩
    have hN : NoKey f k (a :: l) ↔ (∀ v', f a ≠ some (k, v')) ∧ NoKey f k l := by
      unfold NoKey; simp
    rw [hA, hN]
    unfold stepF
    cases hfa : f a with
    | none => simp
    | some kv =>
      obtain ⟨k0, v0⟩ := kv
      simp only [mem_upsert, Option.some.injEq, Prod.mk.injEq, ne_eq]
      by_cases hk : k0 = k
      · subst hk
        by_cases hv : v0 = v
        · subst hv; simp [Or.comm]
        · have hv' : ¬ v = v0 := fun e => hv e.symm
          simp [hv, hv']
      · have hk' : ¬ k = k0 := fun e => hk e.symm
        simp [hk, hk']

/-- what a piece contributes: a non-empty key, followed by the FIRST occurrence of `sep2`, followed by the value -/
theorem kvOf_some {sep2 p k v : Bytes} (h : kvOf sep2 p = some (k, v)) :
    k ≠ [] ∧ p = k ++ sep2 ++ v ∧ ∀ i, i < k.length → ¬ sep2 <+: p.drop i := by
  unfold kvOf at h
  cases hj : indexOf p sep2 0 with
  | none => simp [hj] at h
  | some j =>
    simp only [hj] at h
    by_cases hpos : j > 0
    · rw [if_pos hpos] at h
      obtain ⟨_, hpre, hle, hfirst⟩ := indexOf_some (Nat.zero_le _) hj
      simp only [Option.some.injEq, Prod.mk.injEq] at h
      obtain ⟨hk, hv⟩ := h
      have hk' : k = p.take j := by rw [← hk]; simp [sub]
      have hv' : v = p.drop (j + sep2.length) := by
        rw [← hv]; unfold sub; rw [List.take_of_length_le (by simp)]
      have hkl : k.length = j := by rw [hk', List.length_take]; omega
      refine ⟨?_, ?_, ?_⟩
      · intro e; rw [e] at hkl; simp at hkl; omega
      · obtain ⟨t, ht⟩ := hpre
        have : t = p.drop (j + sep2.length) := by
          rw [← List.drop_drop, ← ht, List.drop_left]
        rw [hk', hv', ← this, List.append_assoc, ht, List.take_append_drop]
      · intro i hi; exact hfirst i (Nat.zero_le _) (by omega)
    · rw [if_neg hpos] at h; cases h

theorem kvOf_none_of {sep2 p : Bytes} (h : kvOf sep2 p = none) :
    (∀ i, ¬ sep2 <+: p.drop i) ∨ sep2 <+: p := by
  unfold kvOf at h
  cases hj : indexOf p sep2 0 with
  | none => exact Or.inl fun i => indexOf_none hj i (Nat.zero_le _)
  | some j =>
    simp only [hj] at h
    by_cases hpos : j > 0
    · rw [if_pos hpos] at h; cases h
    · have : j = 0 := by omega
      subst this
      exact Or.inr (by simpa using (indexOf_some (Nat.zero_le _) hj).2.1)

/-- specification of one entry, free of the code's index arithmetic: the piece `p` is `k ++ sep2 ++ v` with a non-empty
    key `k`, and that occurrence of `sep2` is the first one in `p` -/
def DicEntry (sep2 p k v : Bytes) : Prop :=
  k ≠ [] ∧ p = k ++ sep2 ++ v ∧ ∀ i, i < k.length → ¬ sep2 <+: p.drop i

theorem kvOf_iff (sep2 p k v : Bytes) : kvOf sep2 p = some (k, v) ↔ DicEntry sep2 p k v := by
  refine ⟨kvOf_some, ?_⟩
  rintro ⟨hk, hp, hfirst⟩
  have hkpos : 0 < k.length := List.length_pos_iff.mpr hk
  have hdrop : p.drop k.length = sep2 ++ v := by rw [hp, List.append_assoc, List.drop_left]
  have hocc : sep2 <+: p.drop k.length := by rw [hdrop]; exact List.prefix_append _ _
  unfold kvOf
  cases hj : indexOf p sep2 0 with
  | none => exact absurd hocc (indexOf_none hj _ (Nat.zero_le _))
  | some j =>
    obtain ⟨_, hpre, _, hmin⟩ := indexOf_some (Nat.zero_le _) hj
    have hjk : j = k.length := by
      rcases Nat.lt_trichotomy j k.length with hlt | he | hgt
      · exact absurd hpre (hfirst j hlt)
      · exact he
      · exact absurd hocc (hmin _ (Nat.zero_le _) hgt)
    subst hjk
    simp only [if_pos hkpos, Option.some.injEq, Prod.mk.injEq]
    constructor
    · unfold sub; rw [hp]; simp
    · unfold sub; rw [List.take_of_length_le (by simp), ← List.drop_drop, hdrop, List.drop_left]

/-- `split(sep1, sep2)`: the keys are distinct, and `(k, v)` is an entry iff the LAST piece of the standard split by
    `sep1` that has key `k` is `k ++ sep2 ++ v` -/
theorem splitDic_spec (s sep1 sep2 : Bytes) (hs : sep1 ≠ []) :
    ((splitDic s sep1 sep2).map (·.1)).Nodup ∧
    ∀ k v, (k, v) ∈ splitDic s sep1 sep2 ↔
      ∃ pre p post, splitAbs sep1 [] s = pre ++ p :: post ∧ DicEntry sep2 p k v ∧ ∀ q ∈ post, ∀ v', ¬ DicEntry sep2 q k v' := by
  rw [splitDic_eq, split_eq sep1 s hs]
  refine ⟨nodup_build _ _ [] (by simp), fun k v => ?_⟩
  rw [mem_build]
  simp only [List.not_mem_nil, false_and, or_false, NoKey, ne_eq, kvOf_iff]

end AslProofs.Str
