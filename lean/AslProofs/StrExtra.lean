import AslProofs.StrHist
/-! Layer-A lemmas for C03, part 2: whitespace split, strchr/strrchr, strncmp-based prefix/suffix tests. Core Lean only. -/
set_option linter.unusedVariables false
namespace AslProofs.Str
open AslModel.Str AslModel.Str.Rep

/-! ## whitespace split -/

/-- tokens separated by runs of blanks (what `split()` is documented to return) -/
def tokensAbs (s : Bytes) : List Bytes :=
  match h : s.dropWhile isSpace with
  | [] => []
  | c :: rest => (c :: rest.takeWhile (fun x => !isSpace x)) :: tokensAbs (rest.dropWhile (fun x => !isSpace x))
termination_by s.length
decreasing_by
  have h1 : (s.dropWhile isSpace).length ≤ s.length := (List.dropWhile_suffix _).length_le
  have h2 : (rest.dropWhile (fun x => !isSpace x)).length ≤ rest.length := (List.dropWhile_suffix _).length_le
  rw [h] at h1
  simp only [List.length_cons] at h1
  omega

theorem tokensAbs_nil : tokensAbs [] = [] := by
  rw [tokensAbs]; split
  · rfl
  · rename_i h; simp at h

theorem tokensAbs_space (c : UInt8) (t : Bytes) (hc : isSpace c = true) : tokensAbs (c :: t) = tokensAbs t := by
  rw [tokensAbs, tokensAbs]
  have : (c :: t).dropWhile isSpace = t.dropWhile isSpace := List.dropWhile_cons_of_pos hc
  split <;> split <;> simp_all

theorem tokensAbs_tok (c : UInt8) (t : Bytes) (hc : isSpace c = false) :
    tokensAbs (c :: t) = (c :: t.takeWhile (fun x => !isSpace x)) :: tokensAbs (t.dropWhile (fun x => !isSpace x)) := by
  rw [tokensAbs]
  have : (c :: t).dropWhile isSpace = c :: t := List.dropWhile_cons_of_neg (by simp [hc])
  split
  · rename_i h; rw [this] at h; cases h
  · rename_i c' rest h; rw [this] at h; cases h; rfl

theorem take_length_takeWhile (p : UInt8 → Bool) (l : Bytes) : l.take (l.takeWhile p).length = l.takeWhile p := by
  have h := List.takeWhile_append_dropWhile (p := p) (l := l)
  generalize l.takeWhile p = tw at h ⊢
  generalize l.dropWhile p = dw at h
  subst h
  exact List.take_left' rfl

theorem drop_length_takeWhile (p : UInt8 → Bool) (l : Bytes) : l.drop (l.takeWhile p).length = l.dropWhile p := by
  have h := List.takeWhile_append_dropWhile (p := p) (l := l)
  generalize l.takeWhile p = tw at h ⊢
  generalize l.dropWhile p = dw at h ⊢
  subst h
  exact List.drop_left' rfl

theorem splitWsLoop_eq (s : Bytes) (i : Nat) (hi : i ≤ s.length) : splitWsLoop s i = tokensAbs (s.drop i) := by
  fun_induction splitWsLoop s i with
  | case1 h =>
    rw [List.drop_eq_nil_of_le (by omega), tokensAbs_nil]
  | case2 i h hne hsp ih =>
    have hlt : i < s.length := by omega
    rw [List.drop_eq_getElem_cons hlt]
    have hc : isSpace s[i] = true := by
      simpa [List.getD_eq_getElem?_getD, List.getElem?_eq_getElem hlt] using hsp
    rw [tokensAbs_space _ _ hc]
    exact ih (by omega)
  | case3 i h hne hsp j ih =>
    have hlt : i < s.length := by omega
    have hc : isSpace s[i] = false := by
      simpa [List.getD_eq_getElem?_getD, List.getElem?_eq_getElem hlt] using hsp
    rw [List.drop_eq_getElem_cons hlt, tokensAbs_tok _ _ hc]
    have hj : j = i + 1 + ((s.drop (i + 1)).takeWhile (fun c => !isSpace c)).length := rfl
    have htw : ((s.drop (i + 1)).takeWhile (fun c => !isSpace c)).length ≤ (s.drop (i + 1)).length :=
      (List.takeWhile_prefix _).length_le
    simp only [List.length_drop] at htw
    have hsub : sub s i j = s[i] :: (s.drop (i + 1)).takeWhile (fun x => !isSpace x) := by
      rw [sub_eq, List.drop_eq_getElem_cons hlt]
      have : j - i = ((s.drop (i + 1)).takeWhile (fun c => !isSpace c)).length + 1 := by omega
      rw [this, List.take_succ_cons, take_length_takeWhile]
    rw [hsub]
    congr 1
    -- the rest: after the token comes either the end or one blank
    have hdw : (s.drop (i + 1)).dropWhile (fun x => !isSpace x) = s.drop j := by
      rw [← drop_length_takeWhile, List.drop_drop, hj]
    rw [hdw]
    by_cases hje : j < s.length
    · rw [ih (by omega), List.drop_eq_getElem_cons hje]
      have hsp2 : isSpace s[j] = true := by
        have hd := List.drop_eq_getElem_cons hje
        rw [← hdw] at hd
        have hnn : (s.drop (i + 1)).dropWhile (fun x => !isSpace x) ≠ [] := by
          rw [hd]; exact List.cons_ne_nil _ _
        have h3 := List.head_dropWhile_not (fun x => !isSpace x) hnn
        have h4 : ((s.drop (i + 1)).dropWhile (fun x => !isSpace x)).head hnn = s[j] := by
          simp only [hd, List.head_cons]
        rw [h4] at h3
        simpa using h3
      rw [tokensAbs_space _ _ hsp2]
    · have : j = s.length := by omega
      rw [List.drop_eq_nil_of_le (by omega), tokensAbs_nil]
      unfold AslModel.Str.splitWsLoop
      rw [dif_neg (by omega)]
  | case4 i h => omega

theorem splitWs_eq (s : Bytes) : splitWs s = tokensAbs s := by
  unfold AslModel.Str.splitWs; rw [splitWsLoop_eq s 0 (by omega)]; rfl


/-! ## strchr / strrchr / strncmp -/

theorem strchr_some {c : UInt8} (hc : c ≠ 0) : ∀ {s : Bytes} {k : Nat}, strchr c s = some k →
    k < s.length ∧ s.getD k 0 = c ∧ ∀ k', k' < k → s.getD k' 0 ≠ c
  | [], k, h => by simp [strchr, hc] at h
  | x :: t, k, h => by
    simp only [strchr] at h
    split at h
    · rename_i hx
      cases h
      have : x = c := by simpa using hx
      exact ⟨by simp, by simp [this], fun k' hk' => by omega⟩
    · rename_i hx
      cases hk : strchr c t with
      | none => simp [hk] at h
      | some k0 =>
        simp only [hk, Option.map_some, Option.some.injEq] at h
        subst h
        obtain ⟨h1, h2, h3⟩ := strchr_some hc hk
        refine ⟨by simp only [List.length_cons]; omega, by simpa using h2, ?_⟩
        intro k' hk'
        cases k' with
        | zero => simpa using hx
        | succ k'' => simpa using h3 k'' (by omega)

theorem strchr_none {c : UInt8} : ∀ {s : Bytes}, strchr c s = none → c ∉ s
  | [], _ => by simp
  | x :: t, h => by
    simp only [strchr] at h
    split at h
    · cases h
    · rename_i hx
      cases hk : strchr c t with
      | some k0 => simp [hk] at h
      | none =>
        have := strchr_none hk
        have hxc : ¬ x = c := by simpa using hx
        simp only [List.mem_cons, not_or]
        exact ⟨fun e => hxc e.symm, this⟩

theorem strrchr_some {c : UInt8} (hc : c ≠ 0) : ∀ {s : Bytes} {k : Nat}, strrchr c s = some k →
    k < s.length ∧ s.getD k 0 = c ∧ ∀ k', k < k' → k' < s.length → s.getD k' 0 ≠ c
  | [], k, h => by simp [strrchr, hc] at h
  | x :: t, k, h => by
    simp only [strrchr] at h
    cases hk : strrchr c t with
    | some k0 =>
      simp only [hk, Option.some.injEq] at h
      subst h
      obtain ⟨h1, h2, h3⟩ := strrchr_some hc hk
      refine ⟨by simp only [List.length_cons]; omega, by simpa using h2, ?_⟩
      intro k' hk' hl
      cases k' with
      | zero => omega
      | succ k'' => simpa using h3 k'' (by omega) (by simpa using hl)
    | none =>
      simp only [hk] at h
      split at h
      · rename_i hx
        cases h
        have hxc : x = c := by simpa using hx
        refine ⟨by simp, by simp [hxc], ?_⟩
        intro k' hk' hl
        cases k' with
        | zero => omega
        | succ k'' =>
          -- no occurrence in the tail
          have hno : ∀ {u : Bytes}, strrchr c u = none → c ∉ u := by
            intro u
            induction u with
            | nil => intro _; simp
            | cons y u ih =>
              intro hu
              simp only [strrchr] at hu
              cases hk2 : strrchr c u with
              | some _ => simp [hk2] at hu
              | none =>
                simp only [hk2] at hu
                split at hu
                · cases hu
                · rename_i hy
                  have hyc : ¬ y = c := by simpa using hy
                  simp only [List.mem_cons, not_or]
                  exact ⟨fun e => hyc e.symm, ih hk2⟩
          have hnot := hno hk
          have hl' : k'' < t.length := by simpa using hl
          intro heq
          apply hnot
          have : t.getD k'' 0 = c := by simpa using heq
          rw [List.getD_eq_getElem?_getD, List.getElem?_eq_getElem hl'] at this
          simp only [Option.getD_some] at this
          rw [← this]; exact List.getElem_mem hl'
      · cases h

theorem strncmp_zero_iff : ∀ (n : Nat) (a b : Bytes), strncmp n a b = 0 ↔ a.take n = b.take n
  | 0, a, b => by simp [strncmp]
  | n + 1, [], [] => by simp [strncmp]
  | n + 1, [], y :: b => by simp [strncmp]
  | n + 1, x :: a, [] => by simp [strncmp]
  | n + 1, x :: a, y :: b => by
    rw [strncmp]
    by_cases h1 : x < y
    · have : x ≠ y := fun e => by subst e; exact absurd h1 (UInt8.lt_irrefl _)
      simp [h1, this]
    · by_cases h2 : y < x
      · have : x ≠ y := fun e => by subst e; exact absurd h2 (UInt8.lt_irrefl _)
        simp [h1, h2, this]
      · have hxy : x = y := UInt8.le_antisymm (UInt8.not_lt.mp h2) (UInt8.not_lt.mp h1)
        subst hxy
        simp only [h1, if_false, List.take_succ_cons, List.cons.injEq, true_and]
        exact strncmp_zero_iff n a b

/-- `startsWith`: `_len >= n && strncmp(str(), p, n) == 0` -/
theorem startsWith_iff (s p : Bytes) :
    (s.length ≥ p.length && strncmp p.length s p == 0) = true ↔ p <+: s := by
  simp only [Bool.and_eq_true, decide_eq_true_eq, beq_iff_eq, strncmp_zero_iff, List.take_of_length_le (Nat.le_refl _)]
  constructor
  · rintro ⟨_, h⟩; rw [List.prefix_iff_eq_take]; exact h.symm
  · intro h; exact ⟨h.length_le, (List.prefix_iff_eq_take.mp h).symm⟩

/-- `endsWith`: `_len >= n && strncmp(str() + _len - n, p, n) == 0` -/
theorem endsWith_iff (s p : Bytes) :
    (s.length ≥ p.length && strncmp p.length (s.drop (s.length - p.length)) p == 0) = true ↔ p <:+ s := by
  simp only [Bool.and_eq_true, decide_eq_true_eq, beq_iff_eq, strncmp_zero_iff, List.take_of_length_le (Nat.le_refl _)]
  constructor
  · rintro ⟨hl, h⟩
    rw [List.take_of_length_le (by simp only [List.length_drop]; omega)] at h
    exact ⟨s.take (s.length - p.length), by
      have := List.take_append_drop (s.length - p.length) s
      rw [h] at this; exact this⟩
  · rintro ⟨u, rfl⟩
    refine ⟨by simp, ?_⟩
    simp


theorem strrchr_none {c : UInt8} : ∀ {s : Bytes}, strrchr c s = none → c ∉ s
  | [], _ => by simp
  | y :: u, hu => by
    simp only [strrchr] at hu
    cases hk2 : strrchr c u with
    | some _ => simp [hk2] at hu
    | none =>
      simp only [hk2] at hu
      split at hu
      · cases hu
      · rename_i hy
        have hyc : ¬ y = c := by simpa using hy
        simp only [List.mem_cons, not_or]
        exact ⟨fun e => hyc e.symm, strrchr_none hk2⟩

theorem getD_drop (s : Bytes) (i k : Nat) : (s.drop i).getD k 0 = s.getD (i + k) 0 := by
  simp [List.getD_eq_getElem?_getD, List.getElem?_drop]

/-- `indexOf(char c, int i0)`: the first position at or after `i0` holding `c` -/
theorem indexOfChar_some {s : Bytes} {c : UInt8} {i0 k : Nat} (hc : c ≠ 0) (h : indexOfChar s c i0 = some k) :
    i0 ≤ k ∧ k < s.length ∧ s.getD k 0 = c ∧ ∀ k', i0 ≤ k' → k' < k → s.getD k' 0 ≠ c := by
  unfold indexOfChar at h
  cases hk : strchr c (s.drop i0) with
  | none => simp [hk] at h
  | some j =>
    simp only [hk, Option.map_some, Option.some.injEq] at h
    subst h
    obtain ⟨h1, h2, h3⟩ := strchr_some hc hk
    simp only [List.length_drop] at h1
    rw [getD_drop] at h2
    refine ⟨by omega, by omega, h2, ?_⟩
    intro k' hk1 hk2
    have := h3 (k' - i0) (by omega)
    rw [getD_drop] at this
    have e : i0 + (k' - i0) = k' := by omega
    rwa [e] at this

theorem indexOfChar_none {s : Bytes} {c : UInt8} {i0 : Nat} (h : indexOfChar s c i0 = none) :
    ∀ k', i0 ≤ k' → k' < s.length → s.getD k' 0 ≠ c := by
  unfold indexOfChar at h
  cases hk : strchr c (s.drop i0) with
  | some j => simp [hk] at h
  | none =>
    intro k' h1 h2 heq
    have hmem := strchr_none hk
    apply hmem
    have hl : k' - i0 < (s.drop i0).length := by simp only [List.length_drop]; omega
    have : (s.drop i0).getD (k' - i0) 0 = c := by
      rw [getD_drop]
      have e : i0 + (k' - i0) = k' := by omega
      rw [e]; exact heq
    rw [List.getD_eq_getElem?_getD, List.getElem?_eq_getElem hl] at this
    simp only [Option.getD_some] at this
    rw [← this]; exact List.getElem_mem hl

/-! ## `split()` by blanks on the representation -/

theorem tokEnd_le (s : Bytes) (j : Nat) (hj : j ≤ s.length) : j ≤ tokEnd s j ∧ tokEnd s j ≤ s.length := by
  unfold tokEnd
  have := (List.takeWhile_prefix (l := s.drop j) (fun c => !isSpace c)).length_le
  simp only [List.length_drop] at this
  omega

theorem splitWsLoop_rep {r : Rep} {s : Bytes} (hm : Models r s) (i : Nat) :
    ∃ l, Rep.splitWsLoop r i = some l ∧ AllModels l (AslModel.Str.splitWsLoop s i) := by
  fun_induction AslModel.Str.splitWsLoop s i with
  | case1 h =>
    refine ⟨[], ?_, AllModels.nil⟩
    rw [Rep.splitWsLoop]
    simp [hm.toList]
  | case2 i h hne hsp ih =>
    obtain ⟨l, hl, hf⟩ := ih
    refine ⟨l, ?_, hf⟩
    rw [Rep.splitWsLoop]
    simp only [hm.toList, h, dite_true, hne, if_false, hsp, if_true]
    exact hl
  | case3 i h hne hsp j ih =>
    obtain ⟨l, hl, hf⟩ := ih
    have hj := tokEnd_le s (i + 1) (by omega)
    obtain ⟨p, hp, hpm⟩ := substring_spec hm i j (by omega) hj.2
    refine ⟨p :: l, ?_, AllModels.cons hpm hf⟩
    rw [Rep.splitWsLoop]
    simp only [hm.toList, h, dite_true, hne, if_false, hsp]
    rw [hp]; simp only [Option.bind_some]
    rw [hl]; rfl
  | case4 i h =>
    refine ⟨[], ?_, AllModels.nil⟩
    rw [Rep.splitWsLoop]
    simp [hm.toList, h]

/-- `split()`: in bounds, every token a well-formed String, and the tokens are the maximal runs of non-blank bytes -/
theorem splitWs_rep {r : Rep} {s : Bytes} (hm : Models r s) :
    ∃ l, r.splitWs = some l ∧ AllModels l (tokensAbs s) := by
  obtain ⟨l, hl, hf⟩ := splitWsLoop_rep hm 0
  rw [show AslModel.Str.splitWsLoop s 0 = splitWs s from rfl, splitWs_eq] at hf
  exact ⟨l, hl, hf⟩


/-! ## `split(sep, out)` / `split(out)` into a caller-supplied array that may hold the operands -/

theorem fillArray_spec : ∀ {parts : List Rep} {ts : List Bytes}, AllModels parts ts →
    ∃ l, fillArray parts = some l ∧ AllModels l ts := by
  intro parts ts h
  induction h with
  | nil => exact ⟨[], rfl, AllModels.nil⟩
  | cons hp _ ih =>
    obtain ⟨l, hl, hf⟩ := ih
    obtain ⟨q, hq, hqm⟩ := assign_ext empty_models (hp.toList ▸ hp.2.2.1 : NulFree _)
    rw [hp.toList] at hqm
    refine ⟨q :: l, ?_, AllModels.cons hqm hf⟩
    unfold fillArray at hl ⊢
    simp only [List.mapM_cons, hq, hl, Option.bind_eq_bind, Option.bind_some, Option.pure_def]

theorem copyAll_spec : ∀ {parts : List Rep} {ts : List Bytes}, AllModels parts ts →
    ∃ l, parts.mapM copy = some l ∧ AllModels l ts := by
  intro parts ts h
  induction h with
  | nil => exact ⟨[], rfl, AllModels.nil⟩
  | cons hp _ ih =>
    obtain ⟨l, hl, hf⟩ := ih
    obtain ⟨q, hq, hqm⟩ := copy_spec hp
    refine ⟨q :: l, ?_, AllModels.cons hqm hf⟩
    simp only [List.mapM_cons, hq, hl, Option.bind_eq_bind, Option.bind_some, Option.pure_def]

/-- the operand `ref` denotes a live, well-formed String with text `t` (an element of `out`, or a String elsewhere) -/
def RefModels (out : Cells) (ref : Ref) (t : Bytes) : Prop :=
  match ref with
  | .ext r => Models r t
  | .cell k => ∃ r, out[k]? = some (some r) ∧ Models r t

theorem deref_of_models {out : Cells} {ref : Ref} {t : Bytes} (h : RefModels out ref t) :
    ∃ r, deref out ref = some r ∧ Models r t := by
  cases ref with
  | ext r => exact ⟨r, rfl, h⟩
  | cell k =>
    obtain ⟨r, hk, hm⟩ := h
    exact ⟨r, by simp [deref, hk], hm⟩

/-- a cleared array has no readable element -/
theorem deref_clear_cell (out : Cells) (k : Nat) : deref (clearCells out) (.cell k) = none := by
  show ((out.map fun _ => (none : Option Rep))[k]?).bind id = none
  rw [List.getElem?_map]
  cases out[k]? <;> rfl

theorem deref_clear_ext (out : Cells) (r : Rep) : deref (clearCells out) (.ext r) = some r := rfl

theorem splitInto_spec {out : Cells} {self sep : Ref} {s sp : Bytes} (hs : RefModels out self s) (hp : RefModels out sep sp)
    (hne : sp ≠ []) : ∃ l, splitInto out self sep = some (liveCells l) ∧ AllModels l (splitAbs sp [] s) := by
  obtain ⟨rs, h1, hm⟩ := deref_of_models hs
  obtain ⟨rp, h2, hpm⟩ := deref_of_models hp
  obtain ⟨parts, hsp, hf⟩ := split_rep hm sp
  rw [split_eq sp s hne] at hf
  obtain ⟨l, hl, hlf⟩ := fillArray_spec hf
  exact ⟨l, by simp only [splitInto, h1, h2, Option.bind_some, hpm.toList, hsp, hl, Option.map_some], hlf⟩

theorem splitWsInto_spec {out : Cells} {self : Ref} {s : Bytes} (hs : RefModels out self s) :
    ∃ l, splitWsInto out self = some (liveCells l) ∧ AllModels l (tokensAbs s) := by
  obtain ⟨rs, h1, hm⟩ := deref_of_models hs
  obtain ⟨parts, hsp, hf⟩ := splitWs_rep hm
  obtain ⟨l, hl, hlf⟩ := fillArray_spec hf
  exact ⟨l, by simp only [splitWsInto, h1, Option.bind_some, hsp, hl, Option.map_some], hlf⟩

/-- the statement order before the repair fails as soon as an operand is an element of the output array … -/
theorem splitIntoOld_fails (out : Cells) (k : Nat) (other : Ref) :
    splitIntoOld out (.cell k) other = none ∧ splitIntoOld out other (.cell k) = none ∧ splitWsIntoOld out (.cell k) = none := by
  refine ⟨?_, ?_, ?_⟩
  · unfold splitIntoOld
    cases deref (clearCells out) other <;> simp [deref_clear_cell]
  · unfold splitIntoOld; simp [deref_clear_cell]
  · unfold splitWsIntoOld; simp [deref_clear_cell]

/-- … and was correct when both operands live outside it -/
theorem splitIntoOld_ext (out : Cells) {r rp : Rep} {s sp : Bytes} (hm : Models r s) (hpm : Models rp sp) (hne : sp ≠ []) :
    (∃ l, splitIntoOld out (.ext r) (.ext rp) = some (liveCells l) ∧ AllModels l (splitAbs sp [] s)) ∧
    (∃ l, splitWsIntoOld out (.ext r) = some (liveCells l) ∧ AllModels l (tokensAbs s)) := by
  constructor
  · obtain ⟨parts, hsp, hf⟩ := split_rep hm sp
    rw [split_eq sp s hne] at hf
    obtain ⟨l, hl, hlf⟩ := copyAll_spec hf
    exact ⟨l, by simp only [splitIntoOld, deref_clear_ext, Option.bind_some, hpm.toList, hsp, hl, Option.map_some], hlf⟩
  · obtain ⟨parts, hsp, hf⟩ := splitWs_rep hm
    obtain ⟨l, hl, hlf⟩ := copyAll_spec hf
    exact ⟨l, by simp only [splitWsIntoOld, deref_clear_ext, Option.bind_some, hsp, hl, Option.map_some], hlf⟩

end AslProofs.Str
