import AslProofs.StrOps
/-! Layer-B lemmas for C03, part 3: printf retry loops and the mutation interpreter.  Core Lean only. -/
set_option linter.unusedVariables false
namespace AslProofs.Str
open AslModel.Str AslModel.Str.Rep

/-! ### printf-style constructors -/

theorem cap_pos (r : Rep) (h : r.buf.length = r.cap) (hb : 0 < r.buf.length) : 0 < r.cap := by omega

/-- one `vsnprintf` into a block that is large enough: the complete text arrives -/
theorem vsnprintf_fits {r : Rep} (hc : r.buf.length = r.cap) (text : Bytes) (hn : NulFree text) (h : text.length < r.cap) :
    ∃ b, Rep.vsnprintf r.buf r.cap text = some b ∧ Models { r with buf := b, len := text.length } text := by
  obtain ⟨b1, h1, hM⟩ := store_text0 hc text h hn
  refine ⟨b1, ?_, hM⟩
  unfold Rep.vsnprintf
  have h0 : r.cap ≠ 0 := by omega
  have hmin : min text.length (r.cap - 1) = text.length := by omega
  simp only [h0, if_false, hmin, List.take_of_length_le (Nat.le_refl _), h1]

/-- one `vsnprintf` into a block that is too small: truncated, but in bounds -/
theorem vsnprintf_short {r : Rep} (hc : r.buf.length = r.cap) (text : Bytes) (h0 : 0 < r.cap) :
    ∃ b, Rep.vsnprintf r.buf r.cap text = some b ∧ b.length = r.buf.length := by
  unfold Rep.vsnprintf
  have h0' : r.cap ≠ 0 := by omega
  simp only [h0', if_false]
  have ht := List.length_take_le (min text.length (r.cap - 1)) text
  have hl : (text.take (min text.length (r.cap - 1)) ++ [0]).length ≤ r.buf.length := by
    rw [List.length_append, List.length_singleton]; omega
  rw [wr_prefix _ _ hl]
  refine ⟨_, rfl, ?_⟩
  rw [List.length_append, List.length_drop]; omega

theorem fmtLoop_fits (text : Bytes) (hn : NulFree text) : ∀ (tries : Nat) {r : Rep}, r.buf.length = r.cap →
    text.length < r.cap → ∃ r', fmtLoop text tries r = some r' ∧ Models r' text
  | 0, r, hc, h => by
    obtain ⟨b, hb, hM⟩ := vsnprintf_fits hc text hn h
    exact ⟨_, by simp only [fmtLoop, hb, Option.map_some], hM⟩
  | t + 1, r, hc, h => by
    obtain ⟨b, hb, hM⟩ := vsnprintf_fits hc text hn h
    refine ⟨_, ?_, hM⟩
    simp only [fmtLoop, hb, Option.bind_some]
    have : ¬ (text.length ≥ Rep.cap { r with buf := b }) := by
      show ¬ (text.length ≥ r.cap); omega
    rw [if_neg this]

/-- the retry loop: whatever the first buffer size, the complete text is produced (at most one resize) -/
theorem fmtLoop_total (text : Bytes) (hn : NulFree text) (tries : Nat) {r : Rep} (hc : r.buf.length = r.cap)
    (h0 : 0 < r.cap) : ∃ r', fmtLoop text (tries + 1) r = some r' ∧ Models r' text := by
  by_cases h : text.length < r.cap
  · exact fmtLoop_fits text hn (tries + 1) hc h
  · obtain ⟨b, hb, hbl⟩ := vsnprintf_short hc text h0
    have hc2 : ({ r with buf := b } : Rep).buf.length = ({ r with buf := b } : Rep).cap := by
      show b.length = r.cap; omega
    obtain ⟨r3, B, hr3, hl3, hc3, hB, hbuf3⟩ := resize_nokeep hc2 text.length
    have hlt : text.length < r3.cap := by
      rw [← hc3, hbuf3]
      simp only [List.length_append, List.length_take, List.length_cons]; omega
    obtain ⟨r', hr', hM⟩ := fmtLoop_fits text hn tries hc3 hlt
    refine ⟨r', ?_, hM⟩
    simp only [fmtLoop, hb, Option.bind_some]
    have : text.length ≥ Rep.cap { r with buf := b } := by
      show text.length ≥ r.cap; omega
    rw [if_pos this, hr3]
    exact hr'

/-- a second failed attempt never happens: with one retry left the result is the same as with nine -/
theorem fmtLoop_two_attempts (text : Bytes) (hn : NulFree text) (tries : Nat) {r : Rep} (hc : r.buf.length = r.cap)
    (h0 : 0 < r.cap) : fmtLoop text (tries + 1) r = fmtLoop text 1 r := by
  by_cases h : text.length < r.cap
  · obtain ⟨b, hb, hM⟩ := vsnprintf_fits hc text hn h
    have : ¬ (text.length ≥ Rep.cap { r with buf := b }) := by
      show ¬ (text.length ≥ r.cap); omega
    simp only [fmtLoop, hb, Option.bind_some, if_neg this]
  · obtain ⟨b, hb, hbl⟩ := vsnprintf_short hc text h0
    have hc2 : ({ r with buf := b } : Rep).buf.length = ({ r with buf := b } : Rep).cap := by
      show b.length = r.cap; omega
    obtain ⟨r3, B, hr3, hl3, hc3, hB, hbuf3⟩ := resize_nokeep hc2 text.length
    have hlt : text.length < r3.cap := by
      rw [← hc3, hbuf3]
      simp only [List.length_append, List.length_take, List.length_cons]; omega
    have : text.length ≥ Rep.cap { r with buf := b } := by
      show text.length ≥ r.cap; omega
    simp only [fmtLoop, hb, Option.bind_some, if_pos this, hr3]
    obtain ⟨b3, hb3, _⟩ := vsnprintf_fits hc3 text hn hlt
    cases tries with
    | zero => rfl
    | succ t =>
      have hno : ¬ (text.length ≥ Rep.cap { r3 with buf := b3 }) := by
        show ¬ (text.length ≥ r3.cap); omega
      simp only [fmtLoop, hb3, Option.bind_some, if_neg hno, Option.map_some]

theorem ofFormat_spec (n0 : Nat) (text : Bytes) (hn : NulFree text) :
    ∃ r, ofFormat n0 text = some r ∧ Models r text := by
  unfold ofFormat
  have ha := alloc_spec (if n0 = 0 then Gen.Str.fmtDefault else n0)
  have ht : Gen.Str.fmtTries - 1 = (Gen.Str.fmtTries - 2) + 1 := by have := gen_printf.1; omega
  rw [ht]
  exact fmtLoop_total text hn _ ha.1 (by omega)

theorem ofFormat_two_attempts (n0 : Nat) (text : Bytes) (hn : NulFree text) :
    ofFormat n0 text = fmtLoop text 1 (alloc (if n0 = 0 then Gen.Str.fmtDefault else n0)) := by
  unfold ofFormat
  have ha := alloc_spec (if n0 = 0 then Gen.Str.fmtDefault else n0)
  have ht : Gen.Str.fmtTries - 1 = (Gen.Str.fmtTries - 2) + 1 := by have := gen_printf.1; omega
  rw [ht]
  exact fmtLoop_two_attempts text hn _ ha.1 (by omega)

theorem ofF_spec (text : Bytes) (hn : NulFree text) : ∃ r, ofF text = some r ∧ Models r text := by
  obtain ⟨_, _, g3, g4⟩ := gen_printf
  have hsp0 : Gen.Str.fSpace ≠ 0 := by omega
  unfold ofF
  by_cases h : text.length ≥ Gen.Str.fSpace
  · -- the stack buffer is too small: truncated write, then the loop in the string's storage
    have hss : ∃ ss, Rep.vsnprintf (fresh Gen.Str.fStack) Gen.Str.fSpace text = some ss := by
      unfold Rep.vsnprintf
      have ht := List.length_take_le (min text.length (Gen.Str.fSpace - 1)) text
      have hl : (text.take (min text.length (Gen.Str.fSpace - 1)) ++ [0]).length ≤ (fresh Gen.Str.fStack).length := by
        rw [List.length_append, List.length_singleton, fresh_length]; omega
      rw [if_neg hsp0, wr_prefix _ _ hl]
      exact ⟨_, rfl⟩
    obtain ⟨ss, hss⟩ := hss
    obtain ⟨r3, B, hr3, hl3, hc3, hB, hbuf3⟩ := resize_nokeep empty_models.1 text.length
    have hlt : text.length < r3.cap := by
      rw [← hc3, hbuf3]
      simp only [List.length_append, List.length_take, List.length_cons]; omega
    obtain ⟨r', hr', hM⟩ := fmtLoop_fits text hn (Gen.Str.fTries - 2) hc3 hlt
    refine ⟨r', ?_, hM⟩
    rw [hss]; simp only [Option.bind_some]
    rw [if_pos h, hr3]; simp only [Option.bind_some]
    exact hr'
  · have hlen : text.length < Gen.Str.fSpace := by omega
    have hss : Rep.vsnprintf (fresh Gen.Str.fStack) Gen.Str.fSpace text =
        some (text ++ [0] ++ (fresh Gen.Str.fStack).drop (text ++ [0]).length) := by
      unfold Rep.vsnprintf
      have hmin : min text.length (Gen.Str.fSpace - 1) = text.length := by omega
      have hl : (text ++ [0]).length ≤ (fresh Gen.Str.fStack).length := by
        rw [List.length_append, List.length_singleton, fresh_length]; omega
      rw [if_neg hsp0, hmin, List.take_of_length_le (Nat.le_refl _), wr_prefix _ _ hl]
    have hrd : rd (text ++ [0] ++ (fresh Gen.Str.fStack).drop (text ++ [0]).length) 0 text.length = some text := by
      have := rd_mid' [] text ([0] ++ (fresh Gen.Str.fStack).drop (text ++ [0]).length) 0 text.length rfl rfl
      simpa using this
    obtain ⟨s1, hs1, hM⟩ := assign_ext empty_models hn
    refine ⟨{ s1 with len := text.length }, ?_, ?_⟩
    · rw [hss]; simp only [Option.bind_some]
      rw [if_neg h, hrd]; simp only [Option.bind_some]
      rw [hs1]; rfl
    · have : ({ s1 with len := text.length } : Rep) = s1 := by
        have := hM.2.1
        cases s1; simp_all
      rw [this]; exact hM

/-- once the text fits, the number of retries left is irrelevant: exactly one `vsnprintf` happens -/
theorem fmtLoop_fits_any (text : Bytes) (hn : NulFree text) (tries : Nat) {r : Rep} (hc : r.buf.length = r.cap)
    (h : text.length < r.cap) : fmtLoop text tries r = fmtLoop text 0 r := by
  obtain ⟨b, hb, _⟩ := vsnprintf_fits hc text hn h
  cases tries with
  | zero => rfl
  | succ t =>
    have hno : ¬ (text.length ≥ Rep.cap { r with buf := b }) := by
      show ¬ (text.length ≥ r.cap); omega
    simp only [fmtLoop, hb, Option.bind_some, if_neg hno, Option.map_some]

/-- `String::f`: a text shorter than the stack buffer costs one `vsnprintf` (then `assign`); a longer one costs the
    failed stack attempt, one `resize`, and exactly one more `vsnprintf` (`fmtLoop … 0` = a single attempt) -/
theorem ofF_two_attempts (text : Bytes) (hn : NulFree text) :
    (text.length < Gen.Str.fSpace → ofF text = (Rep.empty.assign (.ext text)).map fun s => { s with len := text.length }) ∧
    (text.length ≥ Gen.Str.fSpace → ofF text = (Rep.empty.resize text.length false).bind fun s => fmtLoop text 0 s) := by
  obtain ⟨_, _, g3, g4⟩ := gen_printf
  have hsp0 : Gen.Str.fSpace ≠ 0 := by omega
  constructor
  · intro hlen
    have h : ¬ text.length ≥ Gen.Str.fSpace := by omega
    have hss : Rep.vsnprintf (fresh Gen.Str.fStack) Gen.Str.fSpace text =
        some (text ++ [0] ++ (fresh Gen.Str.fStack).drop (text ++ [0]).length) := by
      unfold Rep.vsnprintf
      have hmin : min text.length (Gen.Str.fSpace - 1) = text.length := by omega
      have hl : (text ++ [0]).length ≤ (fresh Gen.Str.fStack).length := by
        rw [List.length_append, List.length_singleton, fresh_length]; omega
      rw [if_neg hsp0, hmin, List.take_of_length_le (Nat.le_refl _), wr_prefix _ _ hl]
    have hrd : rd (text ++ [0] ++ (fresh Gen.Str.fStack).drop (text ++ [0]).length) 0 text.length = some text := by
      have := rd_mid' [] text ([0] ++ (fresh Gen.Str.fStack).drop (text ++ [0]).length) 0 text.length rfl rfl
      simpa using this
    unfold ofF
    rw [hss]; simp only [Option.bind_some]
    rw [if_neg h, hrd]; simp only [Option.bind_some]
  · intro h
    have hss : ∃ ss, Rep.vsnprintf (fresh Gen.Str.fStack) Gen.Str.fSpace text = some ss := by
      unfold Rep.vsnprintf
      have ht := List.length_take_le (min text.length (Gen.Str.fSpace - 1)) text
      have hl : (text.take (min text.length (Gen.Str.fSpace - 1)) ++ [0]).length ≤ (fresh Gen.Str.fStack).length := by
        rw [List.length_append, List.length_singleton, fresh_length]; omega
      rw [if_neg hsp0, wr_prefix _ _ hl]
      exact ⟨_, rfl⟩
    obtain ⟨ss, hss⟩ := hss
    obtain ⟨r3, B, hr3, hl3, hc3, hB, hbuf3⟩ := resize_nokeep empty_models.1 text.length
    have hlt : text.length < r3.cap := by
      rw [← hc3, hbuf3]
      simp only [List.length_append, List.length_take, List.length_cons]; omega
    unfold ofF
    rw [hss]; simp only [Option.bind_some]
    rw [if_pos h, hr3]; simp only [Option.bind_some]
    exact fmtLoop_fits_any text hn _ hc3 hlt

/-! ### `String(float)`, `String(double)`: storing the text libc formatted -/

theorem gen_float : 13 < (alloc Gen.Str.floatAlloc).cap ∧ 24 < Gen.Str.doubleStack := by decide

/-- `String(float)`: whenever the `%.7g` text is shorter than the storage obtained (13 characters at most; see `gen_float`) -/
theorem ofFloat_spec (text : Bytes) (hn : NulFree text) (h : text.length < (alloc Gen.Str.floatAlloc).cap) :
    ∃ r, ofFloat text = some r ∧ Models r text := by
  obtain ⟨b, hb, hM⟩ := vsnprintf_fits (alloc_spec Gen.Str.floatAlloc).1 text hn h
  exact ⟨_, by unfold ofFloat; simp only [hb, Option.map_some], hM⟩

/-- `String(double)`: whenever the `%.15g` text fits the 32-byte stack buffer (24 characters at most) -/
theorem ofDouble_spec (text : Bytes) (hn : NulFree text) (h : text.length < Gen.Str.doubleStack) :
    ∃ r, ofDouble text = some r ∧ Models r text := by
  have hsp0 : Gen.Str.doubleStack ≠ 0 := by omega
  have hss : Rep.vsnprintf (fresh Gen.Str.doubleStack) Gen.Str.doubleStack text =
      some (text ++ 0 :: (fresh Gen.Str.doubleStack).drop (text ++ [0]).length) := by
    unfold Rep.vsnprintf
    have hmin : min text.length (Gen.Str.doubleStack - 1) = text.length := by omega
    have hl : (text ++ [0]).length ≤ (fresh Gen.Str.doubleStack).length := by
      rw [List.length_append, List.length_singleton, fresh_length]; omega
    rw [if_neg hsp0, hmin, List.take_of_length_le (Nat.le_refl _), wr_prefix _ _ hl]
    simp
  obtain ⟨b1, h1, hM⟩ := store_text0 (alloc_spec text.length).1 text (alloc_spec text.length).2 hn
  refine ⟨_, ?_, hM⟩
  unfold ofDouble
  rw [hss]; simp only [Option.bind_some]
  rw [cstr_append_zero text _ hn, h1]; rfl

/-! ### the mutation interpreter -/

/-- byte-string meaning of each mutation (the reference model) -/
def _root_.AslModel.Str.Rep.Mut.abs (s : Bytes) : Mut → Bytes
  | .assign b => b
  | .append b => s ++ b
  | .appendChar c => s ++ [c]
  | .appendInt x => s ++ myitoa x
  | .appendSelf a b => s ++ (s.drop (piece s.length a b).1).take (piece s.length a b).2
  | .plusSelf => s ++ s
  | .assignSelf a b => (s.drop (piece s.length a b).1).take (piece s.length a b).2
  | .assignTail a => s.drop (a % (s.length + 1))
  | .selfEq => s
  | .trim => ((s.dropWhile isSpace).reverse.dropWhile isSpace).reverse
  | .clear => []
  | .shrink a => s.take (a % (s.length + 1))
  | .grow n c => s ++ List.replicate n c
  | .refill n c => List.replicate n c
  | .reserve _ => s
  | .pokeFix a => s.take (a % (s.length + 1))
  | .replaceMe a b => s.map fun c => if c == a then b else c

/-- arguments the property quantifies over: NUL-free bytes, non-NUL chars, 32-bit ints -/
def _root_.AslModel.Str.Rep.Mut.Valid : Mut → Prop
  | .assign b => NulFree b
  | .append b => NulFree b
  | .appendChar c => c ≠ 0
  | .appendInt x => -2147483648 ≤ x ∧ x < 2147483648
  | .grow _ c => c ≠ 0
  | .refill _ c => c ≠ 0
  | .replaceMe a b => a ≠ 0 ∧ b ≠ 0
  | _ => True

/-- the table of `Mut.abs`, spelled out (documentation; every line is `rfl`) -/
theorem mutation_meaning (s : Bytes) :
    (∀ b, Mut.abs s (.assign b) = b) ∧ (∀ b, Mut.abs s (.append b) = s ++ b) ∧
    (∀ c, Mut.abs s (.appendChar c) = s ++ [c]) ∧ (∀ x, Mut.abs s (.appendInt x) = s ++ myitoa x) ∧
    (∀ a b, Mut.abs s (.appendSelf a b) = s ++ (s.drop (piece s.length a b).1).take (piece s.length a b).2) ∧
    Mut.abs s .plusSelf = s ++ s ∧
    (∀ a b, Mut.abs s (.assignSelf a b) = (s.drop (piece s.length a b).1).take (piece s.length a b).2) ∧
    (∀ a, Mut.abs s (.assignTail a) = s.drop (a % (s.length + 1))) ∧ Mut.abs s .selfEq = s ∧
    Mut.abs s .trim = ((s.dropWhile isSpace).reverse.dropWhile isSpace).reverse ∧ Mut.abs s .clear = [] ∧
    (∀ a, Mut.abs s (.shrink a) = s.take (a % (s.length + 1))) ∧
    (∀ n c, Mut.abs s (.grow n c) = s ++ List.replicate n c) ∧ (∀ n c, Mut.abs s (.refill n c) = List.replicate n c) ∧
    (∀ n, Mut.abs s (.reserve n) = s) ∧ (∀ a, Mut.abs s (.pokeFix a) = s.take (a % (s.length + 1))) ∧
    (∀ a b, Mut.abs s (.replaceMe a b) = s.map fun c => if c == a then b else c) :=
  ⟨fun _ => rfl, fun _ => rfl, fun _ => rfl, fun _ => rfl, fun _ _ => rfl, rfl, fun _ _ => rfl, fun _ => rfl, rfl, rfl, rfl,
   fun _ => rfl, fun _ _ => rfl, fun _ _ => rfl, fun _ => rfl, fun _ => rfl, fun _ _ => rfl⟩

theorem piece_le (len a b : Nat) : (piece len a b).1 + (piece len a b).2 ≤ len := by
  unfold piece
  simp only
  have h1 : a % (len + 1) < len + 1 := Nat.mod_lt _ (by omega)
  have h2 : b % (len - a % (len + 1) + 1) < len - a % (len + 1) + 1 := Nat.mod_lt _ (by omega)
  omega

theorem sub_add (s : Bytes) (off n : Nat) : sub s off (off + n) = (s.drop off).take n := by
  rw [sub_eq, Nat.add_sub_cancel_left]

theorem shrink_spec {r : Rep} {s : Bytes} (hm : Models r s) (n : Nat) (hn : n ≤ s.length) :
    ∃ r', r.resize n = some r' ∧ Models r' (s.take n) := by
  obtain ⟨r', B, hr, hl, hc, ⟨Y, hY⟩, hB, hbuf⟩ := resize_keep hm n
  refine ⟨r', hr, hc, ?_, hm.2.2.1.take n, B.drop (n + 1), ?_⟩
  · rw [hl]; simp only [List.length_take]; omega
  · rw [hbuf]; subst hY
    rw [List.take_append_of_le_length hn]

theorem grow_spec {r : Rep} {s : Bytes} (hm : Models r s) (n : Nat) (c : UInt8) (hc : c ≠ 0) :
    ∃ r', r.mutate (.grow n c) = some r' ∧ Models r' (s ++ List.replicate n c) := by
  obtain ⟨r1, B, hr, hl, hcap, ⟨Y, hY⟩, hB, hbuf⟩ := resize_keep hm (s.length + n)
  subst hY
  have hYl : n < Y.length := by simp only [List.length_append] at hB; omega
  have hb1 : r1.buf = s ++ Y.take n ++ 0 :: (s ++ Y).drop (s.length + n + 1) := by
    rw [hbuf, List.take_append]; simp [List.take_of_length_le]
  have hw := wr_mid s (Y.take n) (0 :: (s ++ Y).drop (s.length + n + 1)) (List.replicate n c)
    (by simp only [List.length_take, List.length_replicate]; omega)
  refine ⟨{ r1 with buf := s ++ List.replicate n c ++ 0 :: (s ++ Y).drop (s.length + n + 1) }, ?_, ?_, ?_,
    hm.2.2.1.append (NulFree.replicate c hc n), _, rfl⟩
  · simp only [Rep.mutate, hm.2.1, hr, Option.bind_some, hb1, hw, Option.map_some]
  · show _ = r1.cap
    rw [← hcap, hb1]
    simp only [List.length_append, List.length_cons, List.length_take, List.length_replicate]; omega
  · show r1.len = _
    rw [hl]; simp

theorem refill_spec {r : Rep} {s : Bytes} (hm : Models r s) (n : Nat) (c : UInt8) (hc : c ≠ 0) :
    ∃ r', r.mutate (.refill n c) = some r' ∧ Models r' (List.replicate n c) := by
  obtain ⟨r1, B, hr, hl, hcap, hB, hbuf⟩ := resize_nokeep hm.1 n
  have hw := wr_mid' [] (B.take n) (0 :: B.drop (n + 1)) (List.replicate n c) 0 rfl
    (by simp only [List.length_take, List.length_replicate]; omega)
  simp only [List.nil_append] at hw
  refine ⟨{ r1 with buf := List.replicate n c ++ 0 :: B.drop (n + 1) }, ?_, ?_, ?_, NulFree.replicate c hc n, _, rfl⟩
  · simp only [Rep.mutate, hr, Option.bind_some, hbuf, hw, Option.map_some]
  · show _ = r1.cap
    rw [← hcap, hbuf]
    simp only [List.length_append, List.length_cons, List.length_take, List.length_replicate]; omega
  · show r1.len = _
    rw [hl]; simp

theorem pokeFix_spec {r : Rep} {s : Bytes} (hm : Models r s) (a : Nat) :
    ∃ r', r.mutate (.pokeFix a) = some r' ∧ Models r' (s.take (a % (s.length + 1))) := by
  obtain ⟨hcap, hlen, hnf, tail, hbuf⟩ := hm
  have hk : a % (s.length + 1) < s.length + 1 := Nat.mod_lt _ (by omega)
  generalize hkk : a % (s.length + 1) = k at hk
  have hkb : k < r.buf.length := by rw [hbuf]; simp only [List.length_append, List.length_cons]; omega
  have hw : wr r.buf k [0] = some (s.take k ++ 0 :: r.buf.drop (k + 1)) := by
    rw [wr_term hkb, hbuf, List.take_append_of_le_length (by omega)]
  have hcs : cstr (s.take k ++ 0 :: r.buf.drop (k + 1)) = s.take k := cstr_append_zero _ _ (hnf.take k)
  refine ⟨{ r with buf := s.take k ++ 0 :: r.buf.drop (k + 1), len := (s.take k).length }, ?_, ?_, rfl, hnf.take k, _, rfl⟩
  · simp only [Rep.mutate, hlen, hkk, hw, Option.map_some, hcs]
  · show _ = r.cap
    rw [← hcap]
    simp only [List.length_append, List.length_cons, List.length_take, List.length_drop]; omega

theorem replaceMeBuf_spec (a b : UInt8) (ha : a ≠ 0) (hb : b ≠ 0) : ∀ (s tail : Bytes), NulFree s →
    replaceMeBuf a b (s ++ 0 :: tail) = some (s.map (fun c => if c == a then b else c) ++ 0 :: tail)
  | [], tail, _ => by
    have : ((0 : UInt8) == a) = false := by
      apply beq_false_of_ne; exact fun e => ha e.symm
    simp [replaceMeBuf, this]
  | c :: t, tail, hn => by
    have hc : c ≠ 0 := hn c (by simp)
    have ht : NulFree t := fun x hx => hn x (by simp [hx])
    have ih := replaceMeBuf_spec a b ha hb t tail ht
    have hc' : ((if c == a then b else c) == 0) = false := by
      apply beq_false_of_ne
      split
      · exact hb
      · exact hc
    simp only [List.cons_append, replaceMeBuf, hc', Bool.false_eq_true, if_false, ih, Option.map_some, List.map_cons]

theorem replaceMe_spec {r : Rep} {s : Bytes} (hm : Models r s) (a b : UInt8) (ha : a ≠ 0) (hb : b ≠ 0) :
    ∃ r', r.replaceMe a b = some r' ∧ Models r' (s.map fun c => if c == a then b else c) := by
  obtain ⟨hcap, hlen, hnf, tail, hbuf⟩ := hm
  refine ⟨{ r with buf := s.map (fun c => if c == a then b else c) ++ 0 :: tail }, ?_, ?_, by simpa using hlen, ?_, tail, rfl⟩
  · unfold Rep.replaceMe
    rw [hbuf, replaceMeBuf_spec a b ha hb s tail hnf]; rfl
  · show _ = r.cap
    rw [← hcap, hbuf]; simp
  · intro c hc
    obtain ⟨x, hx, rfl⟩ := List.mem_map.mp hc
    split
    · exact hb
    · exact hnf x hx

/-- every mutation with admissible arguments stays in bounds, keeps the invariant and has its byte-string meaning -/
theorem mutate_spec {r : Rep} {s : Bytes} (hm : Models r s) (m : Mut) (hv : m.Valid) :
    ∃ r', r.mutate m = some r' ∧ Models r' (Mut.abs s m) := by
  have hlen := hm.2.1
  cases m with
  | assign b => exact assign_ext hm hv
  | append b => exact append_ext hm hv
  | appendChar c => exact appendChar_spec hm c hv
  | appendInt x =>
    obtain ⟨v, hv1, hvm⟩ := ofInt_spec x hv.1 hv.2
    obtain ⟨r', hr, hM⟩ := append_ext hm (hvm.toList ▸ hvm.2.2.1 : NulFree v.toList)
    rw [hvm.toList] at hM
    exact ⟨r', by simp only [Rep.mutate, hv1, Option.bind_some, hr], hM⟩
  | appendSelf a b =>
    have := append_self hm _ _ (piece_le s.length a b)
    rw [sub_add] at this
    simpa only [Rep.mutate, hlen, Mut.abs] using this
  | plusSelf =>
    have := append_self hm 0 s.length (by omega)
    rw [sub_add] at this
    simpa [Rep.mutate, hlen, Mut.abs] using this
  | assignSelf a b =>
    have := assign_self hm _ _ (piece_le s.length a b)
    rw [sub_add] at this
    simpa only [Rep.mutate, hlen, Mut.abs] using this
  | assignTail a =>
    have hk : a % (s.length + 1) < s.length + 1 := Nat.mod_lt _ (by omega)
    have := assign_self hm (a % (s.length + 1)) (s.length - a % (s.length + 1)) (by omega)
    rw [sub_add, List.take_of_length_le (by simp only [List.length_drop]; omega)] at this
    simpa only [Rep.mutate, hlen, Mut.abs] using this
  | selfEq =>
    have := assign_self hm 0 s.length (by omega)
    rw [sub_add] at this
    simpa [Rep.mutate, hlen, Mut.abs] using this
  | trim =>
    have := trim_spec hm
    rw [trimmed_eq] at this
    exact this
  | clear => exact clear_spec hm
  | shrink a =>
    have hk : a % (s.length + 1) < s.length + 1 := Nat.mod_lt _ (by omega)
    have := shrink_spec hm (a % (s.length + 1)) (by omega)
    simpa only [Rep.mutate, hlen, Mut.abs] using this
  | grow n c => exact grow_spec hm n c hv
  | refill n c => exact refill_spec hm n c hv
  | reserve n => exact resize_reserve hm n
  | pokeFix a => exact pokeFix_spec hm a
  | replaceMe a b => exact replaceMe_spec hm a b hv.1 hv.2

/-- all histories -/
theorem run_spec : ∀ (ms : List Mut) {r : Rep} {s : Bytes}, Models r s → (∀ m ∈ ms, m.Valid) →
    ∃ r', r.run ms = some r' ∧ Models r' (ms.foldl Mut.abs s)
  | [], r, s, hm, _ => ⟨r, rfl, hm⟩
  | m :: ms, r, s, hm, hv => by
    obtain ⟨r1, h1, hm1⟩ := mutate_spec hm m (hv m (by simp))
    obtain ⟨r', h2, hm2⟩ := run_spec ms hm1 (fun m' hm' => hv m' (by simp [hm']))
    exact ⟨r', by simp only [Rep.run, h1, Option.bind_some, h2], by simpa using hm2⟩

end AslProofs.Str
