import AslProofs.StrRep
/-! Layer-B lemmas for C03, part 2: constructors, substring/concat/trim, split/join/replace,
number and printf constructors, the mutation interpreter.  Core Lean only. -/
set_option linter.unusedVariables false
namespace AslProofs.Str
open AslModel.Str AslModel.Str.Rep

/-! ### writing at the end of a known prefix -/

theorem wr_at_end (A rest bs : Bytes) (h : bs.length ≤ rest.length) :
    wr (A ++ rest) A.length bs = some (A ++ bs ++ rest.drop bs.length) := by
  have := wr_mid A (rest.take bs.length) (rest.drop bs.length) bs (by simp only [List.length_take]; omega)
  rw [List.append_assoc, List.take_append_drop] at this
  exact this

theorem wr_prefix (buf bs : Bytes) (h : bs.length ≤ buf.length) :
    wr buf 0 bs = some (bs ++ buf.drop bs.length) := by
  have := wr_at_end [] buf bs h
  simpa using this

/-- a well-sized block with room for `b` and its terminator becomes a representation of `b`
    (two stores: the text, then `s[n] = 0`) -/
theorem store_text {a : Rep} (hc : a.buf.length = a.cap) (b : Bytes) (h : b.length < a.cap) (hb : NulFree b) :
    ∃ buf1 buf2, wr a.buf 0 b = some buf1 ∧ wr buf1 b.length [0] = some buf2 ∧
      Models { a with buf := buf2, len := b.length } b := by
  have h1 := wr_prefix a.buf b (by omega)
  have h2 := wr_at_end b (a.buf.drop b.length) [0] (by simp only [List.length_drop, List.length_singleton]; omega)
  refine ⟨_, _, h1, h2, ?_, rfl, hb, (a.buf.drop b.length).drop 1, by simp⟩
  show _ = a.cap
  rw [← hc]
  simp only [List.length_append, List.length_drop, List.length_singleton]; omega

/-- the same with one store of `b ++ [0]` (`memcpy(str(), txt, _len + 1)`) -/
theorem store_text0 {a : Rep} (hc : a.buf.length = a.cap) (b : Bytes) (h : b.length < a.cap) (hb : NulFree b) :
    ∃ buf1, wr a.buf 0 (b ++ [0]) = some buf1 ∧ Models { a with buf := buf1, len := b.length } b := by
  have h1 := wr_prefix a.buf (b ++ [0]) (by simp only [List.length_append, List.length_singleton]; omega)
  refine ⟨_, h1, ?_, rfl, hb, a.buf.drop (b ++ [0]).length, by simp⟩
  show _ = a.cap
  rw [← hc]
  simp only [List.length_append, List.length_drop, List.length_singleton]; omega

/-! ### facts about the regenerated constants of `Gen/StrGen.lean` (the G obligations; restated in `AslProps/C03.lean`) -/

theorem gen_space_pos : 0 < SPACE := by decide
theorem gen_number_allocs : 11 < (alloc Gen.Str.intAlloc).cap ∧ 10 < (alloc Gen.Str.uintAlloc).cap ∧
    5 < (alloc Gen.Str.boolAlloc).cap := by decide
theorem gen_long_allocs : Gen.Str.longInlineBelow ≤ 1000000000000000 ∧ Gen.Str.longInlineAbove ≤ 100000000000000 ∧
    15 < (alloc (SPACE - 1)).cap ∧ 20 < (alloc Gen.Str.longHeapAlloc).cap ∧ Gen.Str.ulongInlineBelow ≤ 1000000000000000 ∧
    20 < (alloc Gen.Str.ulongHeapAlloc).cap := by decide
theorem gen_printf : 2 ≤ Gen.Str.fmtTries ∧ 2 ≤ Gen.Str.fTries ∧ Gen.Str.fSpace ≤ Gen.Str.fStack ∧ 0 < Gen.Str.fSpace := by
  decide
theorem gen_intmin : myatoi Gen.Str.intMinText = -2147483648 ∧ (∀ c ∈ Gen.Str.intMinText, c ≠ 0) ∧
    Gen.Str.intMinText.length ≤ 11 ∧ Gen.Str.intMinLen = Gen.Str.intMinText.length := by decide

/-! ### constructors -/

theorem alloc_spec (n : Nat) : (alloc n).buf.length = (alloc n).cap ∧ n < (alloc n).cap := by
  unfold alloc
  by_cases h : n < SPACE
  · rw [if_pos h]
    exact ⟨by simp [Rep.cap, fresh_length], by simpa [Rep.cap] using h⟩
  · rw [if_neg h]
    have hz : max (n + 1) Gen.Str.allocMin ≠ 0 := by omega
    refine ⟨by simp only [Rep.cap]; rw [if_neg hz]; exact fresh_length _, ?_⟩
    simp only [Rep.cap]; rw [if_neg hz]; omega

theorem init_spec (n : Nat) : (init n).buf.length = (init n).cap ∧ n < (init n).cap ∧ (init n).len = n := by
  have h := alloc_spec n
  exact ⟨h.1, h.2, rfl⟩

theorem ofBytes_spec (b : Bytes) (hb : NulFree b) : ∃ r, ofBytes b = some r ∧ Models r b := by
  obtain ⟨hc, hl, _⟩ := init_spec b.length
  obtain ⟨b1, b2, h1, h2, hM⟩ := store_text hc b hl hb
  refine ⟨_, ?_, hM⟩
  unfold ofBytes
  simp only [h1, Option.bind_some, h2, Option.map_some]
  simp [init]

theorem ofCStr_spec (b : Bytes) (hb : NulFree b) : ∃ r, ofCStr b = some r ∧ Models r b := by
  obtain ⟨hc, hl, _⟩ := init_spec b.length
  obtain ⟨b1, h1, hM⟩ := store_text0 hc b hl hb
  refine ⟨_, ?_, hM⟩
  unfold ofCStr
  simp only [h1, Option.map_some]
  simp [init]

theorem empty_models : Models Rep.empty [] := by
  have := gen_space_pos
  refine ⟨by simp only [Rep.empty, Rep.cap, List.length_cons, fresh_length, if_true]; omega, rfl, NulFree.nil,
    fresh (SPACE - 1), rfl⟩

theorem rd_text0 {r : Rep} {s : Bytes} (hm : Models r s) : rd r.buf 0 (r.len + 1) = some (s ++ [0]) := by
  obtain ⟨_, hlen, _, tail, hbuf⟩ := hm
  rw [hbuf, hlen]
  have := rd_mid' [] (s ++ [0]) tail 0 (s.length + 1) rfl (by simp)
  simpa using this

theorem rd_text {r : Rep} {s : Bytes} (hm : Models r s) : rd r.buf 0 r.len = some s := by
  obtain ⟨_, hlen, _, tail, hbuf⟩ := hm
  rw [hbuf, hlen]
  have := rd_mid' [] s (0 :: tail) 0 s.length rfl rfl
  simpa using this

theorem copy_spec {r : Rep} {s : Bytes} (hm : Models r s) : ∃ r', copy r = some r' ∧ Models r' s := by
  obtain ⟨hc, hl, _⟩ := init_spec s.length
  obtain ⟨b1, h1, hM⟩ := store_text0 hc s hl hm.2.2.1
  refine ⟨_, ?_, hM⟩
  unfold copy
  rw [rd_text0 hm, hm.2.1]
  simp only [Option.bind_some, h1, Option.map_some]
  simp [init]

theorem ofChar_spec (c : UInt8) (hc : c ≠ 0) : ∃ r, ofChar c = some r ∧ Models r [c] := by
  have hb : NulFree [c] := fun x hx => by simp at hx; rw [hx]; exact hc
  obtain ⟨hcap, hl, _⟩ := init_spec 1
  obtain ⟨b1, h1, hM⟩ := store_text0 hcap [c] hl hb
  refine ⟨_, ?_, hM⟩
  unfold ofChar
  simp only [List.singleton_append] at h1
  simp only [h1, Option.map_some]
  simp [init]

/-- `String(cap, n)`: a well-sized block, `_len = n`, with room for `max cap n` bytes and a terminator -/
theorem ctor2_spec (cap n : Nat) :
    ∃ r0, ctor2 cap n = some r0 ∧ r0.buf.length = r0.cap ∧ r0.len = n ∧ max cap n < r0.cap := by
  obtain ⟨hc, hl, _⟩ := init_spec (max cap n)
  have hn : n < (init (max cap n)).buf.length := by omega
  unfold ctor2
  simp only [wr_term hn, Option.map_some]
  refine ⟨_, rfl, ?_, rfl, ?_⟩
  · show (List.take n (init (max cap n)).buf ++ 0 :: List.drop (n + 1) (init (max cap n)).buf).length = (init (max cap n)).cap
    simp only [List.length_append, List.length_take, List.length_cons, List.length_drop]
    omega
  · exact hl

/-- `ctor2 k k` followed by storing `k` bytes and the terminator -/
theorem ctor2_fill (b : Bytes) (hb : NulFree b) :
    ∃ r0 buf1 buf2, ctor2 b.length b.length = some r0 ∧ wr r0.buf 0 b = some buf1 ∧ wr buf1 b.length [0] = some buf2 ∧
      Models { r0 with buf := buf2 } b := by
  obtain ⟨r0, h0, hc, hl, hlt⟩ := ctor2_spec b.length b.length
  obtain ⟨b1, b2, h1, h2, hM⟩ := store_text hc b (by omega) hb
  refine ⟨r0, b1, b2, h0, h1, h2, ?_⟩
  have : ({ r0 with buf := b2, len := b.length } : Rep) = { r0 with buf := b2 } := by rw [← hl]
  rw [← this]; exact hM

/-- `String::repeat(c, n)` for every `int n`: a negative count gives the empty string -/
theorem repeatChar_spec (c : UInt8) (hc : c ≠ 0) (n0 : Int) :
    ∃ r, repeatChar c n0 = some r ∧ Models r (List.replicate (if n0 < 0 then 0 else n0.toNat) c) := by
  simp only [repeatChar]
  generalize (if n0 < 0 then 0 else n0.toNat) = n
  obtain ⟨r0, b1, b2, h0, h1, h2, hM⟩ := ctor2_fill (List.replicate n c) (NulFree.replicate c hc n)
  simp only [List.length_replicate] at h0 h2
  refine ⟨_, ?_, hM⟩
  simp only [h0, Option.bind_some, h1, h2, Option.map_some]

/-! ### `substring`, `substr`, `concat`, `clear`, `trim` -/

theorem substring_spec {r : Rep} {s : Bytes} (hm : Models r s) (i j : Nat) (hij : i ≤ j) (hj : j ≤ s.length) :
    ∃ r', r.substring i j = some r' ∧ Models r' (sub s i j) := by
  have hpl : (sub s i j).length = j - i := by
    rw [sub_eq]; simp only [List.length_take, List.length_drop]; omega
  obtain ⟨r0, b1, b2, h0, h1, h2, hM⟩ := ctor2_fill (sub s i j) (hm.2.2.1.sub i j)
  rw [hpl] at h0 h2
  have hrd : rd r.buf i (j - i) = some (sub s i j) := by
    obtain ⟨_, _, _, tail, hbuf⟩ := hm
    rw [hbuf]
    have := rd_piece s (0 :: tail) i (j - i) (by omega)
    rwa [Nat.add_sub_cancel' hij] at this
  refine ⟨_, ?_, hM⟩
  unfold Rep.substring
  simp only [hij, if_true, h0, Option.bind_some, hrd, h1, h2, Option.map_some]

theorem substr_spec {r : Rep} {s : Bytes} (hm : Models r s) (i n : Int) (hlen : (s.length : Int) < 2147483648)
    (hi : -(s.length : Int) ≤ i) (hi2 : i < 2147483648) (hn : 0 ≤ n) (hn2 : n < 2147483648) :
    ∃ r', r.substr i n = some r' ∧
      Models r' ((s.drop (if i < 0 then i + s.length else i).toNat).take n.toNat) := by
  obtain ⟨a, b, hidx, hab, hb, hsub⟩ := substrIdx_spec s i n hlen hi hi2 hn hn2
  obtain ⟨r', hr, hM⟩ := substring_spec hm a b hab hb
  refine ⟨r', ?_, by rw [← hsub]; exact hM⟩
  unfold Rep.substr
  rw [hm.2.1, hidx]
  exact hr

theorem concat_spec {r : Rep} {s b : Bytes} (hm : Models r s) (hb : NulFree b) :
    ∃ r', r.concat b = some r' ∧ Models r' (s ++ b) := by
  have hlen := hm.2.1
  obtain ⟨r0, h0, hc, hl, hlt⟩ := ctor2_spec (s.length + b.length) (s.length + b.length)
  have hcap : s.length + b.length < r0.buf.length := by omega
  have hrd : rd r.buf 0 s.length = some s := by rw [← hlen]; exact rd_text hm
  have h1 := wr_prefix r0.buf s (by omega)
  have h2 := wr_at_end s (r0.buf.drop s.length) b (by simp only [List.length_drop]; omega)
  have h3 := wr_at_end (s ++ b) ((r0.buf.drop s.length).drop b.length) [0]
    (by simp only [List.length_drop, List.length_singleton]; omega)
  rw [List.length_append] at h3
  refine ⟨{ r0 with buf := s ++ b ++ ([0] : Bytes) ++ ((r0.buf.drop s.length).drop b.length).drop 1 }, ?_, ?_, ?_,
    hm.2.2.1.append hb, (((r0.buf.drop s.length).drop b.length).drop 1), ?_⟩
  · unfold Rep.concat
    simp only [hlen, h0, Option.bind_some, hrd, h1, h2, h3, Option.map_some, List.length_singleton]
  · show _ = r0.cap
    rw [← hc]
    simp only [List.length_append, List.length_drop, List.length_singleton]; omega
  · show r0.len = (s ++ b).length
    rw [hl, List.length_append]
  · simp

theorem clear_spec {r : Rep} {s : Bytes} (hm : Models r s) : ∃ r', r.clear = some r' ∧ Models r' [] := by
  obtain ⟨hcap, hlen, hnf, tail, hbuf⟩ := hm
  have hpos : 0 < r.buf.length := by rw [hbuf]; simp only [List.length_append, List.length_cons]; omega
  have h1 := wr_prefix r.buf [0] (by simp only [List.length_singleton]; omega)
  refine ⟨_, by unfold Rep.clear; simp only [h1, Option.map_some]; rfl, ?_, rfl, NulFree.nil, r.buf.drop 1, by simp⟩
  show _ = r.cap
  rw [← hcap]
  simp only [List.length_append, List.length_drop, List.length_singleton]; omega

theorem trim_eq_assign (r : Rep) :
    r.trim = r.assign (.self (trimStart r.toList) (trimEnd r.toList (trimStart r.toList) r.len - trimStart r.toList)) := rfl

theorem trim_spec {r : Rep} {s : Bytes} (hm : Models r s) : ∃ r', r.trim = some r' ∧ Models r' (trimmed s) := by
  rw [trim_eq_assign, hm.toList, hm.2.1]
  have h1 := trimStart_le s
  have h2 := trimEnd_le s (trimStart s) s.length
  have h3 := trimEnd_ge s (trimStart s) s.length h1
  obtain ⟨r', hr, hM⟩ := assign_self hm (trimStart s) (trimEnd s (trimStart s) s.length - trimStart s) (by omega)
  refine ⟨r', hr, ?_⟩
  have e : trimStart s + (trimEnd s (trimStart s) s.length - trimStart s) = trimEnd s (trimStart s) s.length := by omega
  rw [e] at hM
  exact hM

theorem trimmed_spec {r : Rep} {s : Bytes} (hm : Models r s) : ∃ r', r.trimmed = some r' ∧ Models r' (trimmed s) := by
  unfold Rep.trimmed
  rw [hm.toList, hm.2.1]
  exact substring_spec hm _ _ (trimEnd_ge s (trimStart s) s.length (trimStart_le s)) (trimEnd_le s (trimStart s) s.length)


/-! ### comparison operators -/

theorem eq_iff {r r' : Rep} {s t : Bytes} (h : Models r s) (h' : Models r' t) : r.eq r' = true ↔ s = t := by
  unfold Rep.eq
  have e1 : r.buf.take r.len = s := h.toList
  by_cases hl : s.length = t.length
  · have e2 : r'.buf.take r.len = t := by rw [h.2.1, hl, ← h'.2.1]; exact h'.toList
    have : ¬ ((r.len != r'.len) = true) := by simp [h.2.1, h'.2.1, hl]
    simp [this, e1, e2]
  · have : (r.len != r'.len) = true := by simp [h.2.1, h'.2.1, hl]
    simp only [this, if_true]
    constructor
    · intro e; cases e
    · intro e; subst e; exact absurd rfl hl

theorem ne_eq_not_eq (r r' : Rep) : r.ne r' = !r.eq r' := by
  unfold Rep.ne Rep.eq
  split <;> simp [bne]

theorem strcmp_lt_iff (a b : Bytes) : strcmp a b < 0 ↔ a < b := by
  rcases strcmp_spec a b with ⟨h, hl⟩ | ⟨h, he⟩ | ⟨h, hg⟩
  · rw [h]; exact ⟨fun _ => hl, fun _ => by decide⟩
  · rw [h, he]; exact ⟨fun hh => absurd hh (by decide), fun hh => absurd hh (List.lt_irrefl b)⟩
  · rw [h]; exact ⟨fun hh => absurd hh (by decide), fun hh => absurd hg (List.lt_asymm hh)⟩

theorem strcmp_eq_iff (a b : Bytes) : strcmp a b = 0 ↔ a = b := by
  rcases strcmp_spec a b with ⟨h, hl⟩ | ⟨h, he⟩ | ⟨h, hg⟩
  · rw [h]; exact ⟨fun hh => absurd hh (by decide), fun e => by subst e; exact absurd hl (List.lt_irrefl a)⟩
  · rw [h]; exact ⟨fun _ => he, fun _ => rfl⟩
  · rw [h]; exact ⟨fun hh => absurd hh (by decide), fun e => by subst e; exact absurd hg (List.lt_irrefl a)⟩

theorem lt_iff {r r' : Rep} {s t : Bytes} (h : Models r s) (h' : Models r' t) : r.lt r' = true ↔ s < t := by
  unfold Rep.lt Rep.compare
  rw [h.view, h'.view, decide_eq_true_eq]
  exact strcmp_lt_iff s t

theorem eqCStr_iff {r : Rep} {s : Bytes} (h : Models r s) (t : Bytes) : r.eqCStr t = true ↔ s = t := by
  unfold Rep.eqCStr
  rw [h.view, beq_iff_eq]
  exact strcmp_eq_iff s t

/-! ### `split`, `join`, `replace` on the representation -/

theorem nextCut_le (s pat : Bytes) (i : Nat) (h : i ≤ s.length) : nextCut s pat i ≤ s.length := by
  unfold nextCut
  cases hk : strstr pat (s.drop i) with
  | none => simp
  | some k =>
    obtain ⟨_, h2, _⟩ := strstr_some hk
    simp only [List.length_drop] at h2
    simp only; omega

/-- element-wise `Models` for lists of pieces -/
inductive AllModels : List Rep → List Bytes → Prop
  | nil : AllModels [] []
  | cons {p : Rep} {t : Bytes} {ps : List Rep} {ts : List Bytes} : Models p t → AllModels ps ts → AllModels (p :: ps) (t :: ts)

theorem AllModels.map_toList {ps : List Rep} {ts : List Bytes} (h : AllModels ps ts) : ps.map Rep.toList = ts := by
  induction h with
  | nil => rfl
  | cons hp _ ih => simp [hp.toList, ih]

theorem splitLoop_rep {r : Rep} {s : Bytes} (hm : Models r s) (sep : Bytes) (i : Nat) :
    ∃ l, Rep.splitLoop r sep i = some l ∧ AllModels l (AslModel.Str.splitLoop sep s i) := by
  fun_induction AslModel.Str.splitLoop sep s i with
  | case1 i h j ih =>
    obtain ⟨l, hl, hf⟩ := ih
    obtain ⟨p, hp, hpm⟩ := substring_spec hm i j (nextCut_ge s sep i h.1) (nextCut_le s sep i h.1)
    refine ⟨p :: l, ?_, AllModels.cons hpm hf⟩
    rw [Rep.splitLoop]
    have h' : i ≤ r.toList.length ∧ 0 < sep.length := by rw [hm.toList]; exact h
    rw [dif_pos h']
    simp only [hm.toList]
    rw [hp]
    simp only [Option.bind_some]
    rw [hl]; rfl
  | case2 i h =>
    refine ⟨[], ?_, AllModels.nil⟩
    rw [Rep.splitLoop]
    have h' : ¬ (i ≤ r.toList.length ∧ 0 < sep.length) := by rw [hm.toList]; exact h
    rw [dif_neg h']

theorem split_rep {r : Rep} {s : Bytes} (hm : Models r s) (sep : Bytes) :
    ∃ l, r.split sep = some l ∧ AllModels l (AslModel.Str.split sep s) :=
  splitLoop_rep hm sep 0

theorem joinLoop_rep {sepR : Rep} {sep : Bytes} (hsep : Models sepR sep) :
    ∀ {ps : List Rep} {parts : List Bytes}, AllModels ps parts → ∀ {acc : Rep} {a : Bytes}, Models acc a →
      ∃ r', Rep.joinLoop sepR acc ps = some r' ∧ Models r' (AslModel.Str.joinLoop sep a parts) := by
  intro ps parts hf
  induction hf with
  | nil => intro acc a ha; exact ⟨acc, rfl, ha⟩
  | cons hp _ ih =>
    intro acc a ha
    rename_i p part ps' parts'
    obtain ⟨a1, h1, hm1⟩ := append_ext ha (hsep.toList ▸ hsep.2.2.1 : NulFree sepR.toList)
    obtain ⟨v, h2, hm2⟩ := copy_spec hp
    obtain ⟨a2, h3, hm3⟩ := append_ext hm1 (hm2.toList ▸ hm2.2.2.1 : NulFree v.toList)
    rw [hsep.toList, hm2.toList] at hm3
    obtain ⟨r', h4, hm4⟩ := ih hm3
    refine ⟨r', ?_, hm4⟩
    simp only [Rep.joinLoop, h1, Option.bind_some, h2, h3, h4]

theorem join_rep {sepR : Rep} {sep : Bytes} (hsep : Models sepR sep) {ps : List Rep} {parts : List Bytes}
    (hf : AllModels ps parts) :
    ∃ r', Rep.join sepR ps = some r' ∧ Models r' (AslModel.Str.join sep parts) := by
  cases hf with
  | nil => exact ofCStr_spec [] NulFree.nil
  | cons hp hrest =>
    obtain ⟨s0, h0, hm0⟩ := copy_spec hp
    obtain ⟨r', h1, hm1⟩ := joinLoop_rep hsep hrest hm0
    exact ⟨r', by simp only [Rep.join, h0, Option.bind_some, h1], hm1⟩

theorem replaceLoop_rep {r : Rep} {s : Bytes} (hm : Models r s) (a b : Bytes) (hb : NulFree b) (i : Nat) (o : Bytes) :
    ∀ outR, Models outR o →
      ∃ r', Rep.replaceLoop r a b i outR = some r' ∧ Models r' (AslModel.Str.replaceLoop a b s i o) := by
  fun_induction AslModel.Str.replaceLoop a b s i o with
  | case1 i o h j ih =>
    intro outR ho
    have hj1 := nextCut_ge s a i h.1
    have hj2 := nextCut_le s a i h.1
    obtain ⟨o1, h1, hm1⟩ := append_ext ho hb
    have hrd : rd r.buf i (j - i) = some (sub s i j) := by
      obtain ⟨_, _, _, tail, hbuf⟩ := hm
      rw [hbuf]
      have := rd_piece s (0 :: tail) i (j - i) (by omega)
      rwa [Nat.add_sub_cancel' hj1] at this
    obtain ⟨o2, h2, hm2⟩ := append_ext hm1 (hm.2.2.1.sub i j)
    obtain ⟨r', h3, hm3⟩ := ih o2 hm2
    refine ⟨r', ?_, hm3⟩
    rw [Rep.replaceLoop]
    have h' : i ≤ r.toList.length ∧ 0 < a.length := by rw [hm.toList]; exact h
    rw [dif_pos h']
    simp only [hm.toList]
    rw [h1]; simp only [Option.bind_some]
    rw [hrd]; simp only [Option.bind_some]
    rw [h2]; simp only [Option.bind_some]
    exact h3
  | case2 i o h =>
    intro outR ho
    refine ⟨outR, ?_, ho⟩
    rw [Rep.replaceLoop]
    have h' : ¬ (i ≤ r.toList.length ∧ 0 < a.length) := by rw [hm.toList]; exact h
    rw [dif_neg h']

theorem ctor2_zero (cap : Nat) : ∃ r0, ctor2 cap 0 = some r0 ∧ Models r0 [] := by
  obtain ⟨r0, h0, hc, hl, hlt⟩ := ctor2_spec cap 0
  refine ⟨r0, h0, hc, hl, NulFree.nil, ?_⟩
  unfold ctor2 at h0
  have hn : 0 < (init (max cap 0)).buf.length := by have := init_spec (max cap 0); omega
  simp only [wr_term hn, Option.map_some, Option.some.injEq] at h0
  subst h0
  exact ⟨(init (max cap 0)).buf.drop 1, by simp⟩

theorem replace_rep {r : Rep} {s : Bytes} (hm : Models r s) (a b : Bytes) (hb : NulFree b) :
    ∃ r', r.replace a b = some r' ∧ Models r' (AslModel.Str.replace s a b) := by
  unfold Rep.replace AslModel.Str.replace
  rw [hm.toList]
  cases hk : strstr a s with
  | none => simpa using copy_spec hm
  | some j =>
    obtain ⟨_, hlen, _⟩ := strstr_some hk
    obtain ⟨out0, h0, hm0⟩ := ctor2_zero r.len
    obtain ⟨p, h1, hm1⟩ := substring_spec hm 0 j (by omega) (by omega)
    obtain ⟨out1, h2, hm2⟩ := append_ext hm0 (hm1.toList ▸ hm1.2.2.1 : NulFree p.toList)
    rw [hm1.toList, List.nil_append] at hm2
    obtain ⟨r', h3, hm3⟩ := replaceLoop_rep hm a b hb (j + a.length) (sub s 0 j) out1 hm2
    refine ⟨r', ?_, hm3⟩
    simp only [h0, Option.bind_some, h1, h2, h3]

/-! ### number constructors -/

theorem IsDigit.ne_zero {c : UInt8} (h : IsDigit c) : c ≠ 0 := by
  intro e; subst e; exact absurd h.1 (by decide)

theorem digits_nulfree (n : Nat) : NulFree (digitsRev n).reverse := by
  intro c hc
  exact (digitsRev_digits n c (by simpa using hc)).ne_zero

theorem utoa_nulfree (x : Nat) : NulFree (utoa x) := by
  unfold utoa
  split
  · intro c hc; simp at hc; subst hc; decide
  · exact digits_nulfree x

theorem neg_nulfree (n : Nat) : NulFree (45 :: (digitsRev n).reverse) := by
  intro c hc
  rcases List.mem_cons.mp hc with rfl | h
  · decide
  · exact digits_nulfree n c h

theorem myitoa_nulfree (x : Int) : NulFree (myitoa x) := by
  unfold myitoa
  split
  · intro c hc; simp at hc; subst hc; decide
  · split
    · split
      · exact gen_intmin.2.1
      · exact neg_nulfree _
    · exact digits_nulfree _

theorem myltoa_nulfree (x : Int) : NulFree (myltoa x) := by
  unfold myltoa
  split
  · intro c hc; simp at hc; subst hc; decide
  · simp only
    split
    · exact neg_nulfree _
    · exact digits_nulfree _

theorem utoa_length (k x : Nat) (hk : 1 ≤ k) (h : x < 10 ^ k) : (utoa x).length ≤ k := by
  unfold utoa
  split
  · simpa using hk
  · simpa using digitsRev_length k x h

theorem myitoa_length (x : Int) (h1 : -2147483648 ≤ x) (h2 : x < 2147483648) : (myitoa x).length ≤ 11 := by
  unfold myitoa
  split
  · simp
  · split
    · split
      · exact gen_intmin.2.2.1
      · have := digitsRev_length 10 (-x).toNat (by omega)
        simp only [List.length_cons, List.length_reverse]; omega
    · have := digitsRev_length 10 x.toNat (by omega)
      simp only [List.length_reverse]; omega

theorem ofText_spec (allocN : Nat) (txt : Bytes) (h : txt.length < (alloc allocN).cap) (hn : NulFree txt) :
    ∃ r, ofText allocN txt = some r ∧ Models r txt := by
  obtain ⟨b1, h1, hM⟩ := store_text0 (alloc_spec allocN).1 txt h hn
  exact ⟨_, by unfold ofText; simp only [h1, Option.map_some], hM⟩

theorem ofInt_spec (x : Int) (h1 : -2147483648 ≤ x) (h2 : x < 2147483648) :
    ∃ r, ofInt x = some r ∧ Models r (myitoa x) := by
  apply ofText_spec
  · have := myitoa_length x h1 h2
    have := gen_number_allocs.1
    omega
  · exact myitoa_nulfree x

theorem ofUInt_spec (x : Nat) (h : x < 4294967296) : ∃ r, ofUInt x = some r ∧ Models r (utoa x) := by
  apply ofText_spec
  · have := utoa_length 10 x (by omega) (by omega)
    have := gen_number_allocs.2.1
    omega
  · exact utoa_nulfree x

theorem ofULong_spec (x : Nat) (h : x < 18446744073709551616) : ∃ r, ofULong x = some r ∧ Models r (utoa x) := by
  unfold ofULong
  obtain ⟨_, _, g3, _, g5, g6⟩ := gen_long_allocs
  apply ofText_spec
  · split
    · have := utoa_length 15 x (by omega) (by omega); omega
    · have := utoa_length 20 x (by omega) (by omega); omega
  · exact utoa_nulfree x

theorem ofBool_spec (x : Bool) : ∃ r, ofBool x = some r ∧
    Models r (if x then [116, 114, 117, 101] else [102, 97, 108, 115, 101]) := by
  apply ofText_spec
  · have := gen_number_allocs.2.2
    cases x <;> simp <;> omega
  · cases x <;> (intro c hc; simp at hc; rcases hc with rfl | rfl | rfl | rfl | rfl <;> decide)

theorem myltoa_length (x : Int) (h1 : -9223372036854775808 ≤ x) (h2 : x < 9223372036854775808) :
    (myltoa x).length ≤ 20 ∧ (x < 1000000000000000 ∧ x > -100000000000000 → (myltoa x).length ≤ 15) := by
  unfold myltoa
  split
  · simp
  · simp only
    split
    · rename_i hneg
      have hm : (18446744073709551616 - (x % 18446744073709551616).toNat) % 18446744073709551616 = (-x).toNat := by omega
      rw [hm]
      constructor
      · have := digitsRev_length 19 (-x).toNat (by omega)
        simp only [List.length_cons, List.length_reverse]; omega
      · intro hr
        have := digitsRev_length 14 (-x).toNat (by omega)
        simp only [List.length_cons, List.length_reverse]; omega
    · have hm : (x % 18446744073709551616).toNat = x.toNat := by omega
      rw [hm]
      constructor
      · have := digitsRev_length 19 x.toNat (by omega)
        simp only [List.length_reverse]; omega
      · intro hr
        have := digitsRev_length 15 x.toNat (by omega)
        simp only [List.length_reverse]; omega

theorem ofLong_spec (x : Int) (h1 : -9223372036854775808 ≤ x) (h2 : x < 9223372036854775808) :
    ∃ r, ofLong x = some r ∧ Models r (myltoa x) := by
  unfold ofLong
  obtain ⟨hl1, hl2⟩ := myltoa_length x h1 h2
  obtain ⟨g1, g2, g3, g4, _, _⟩ := gen_long_allocs
  apply ofText_spec
  · split
    · rename_i hr
      have := hl2 ⟨by omega, by omega⟩; omega
    · omega
  · exact myltoa_nulfree x

end AslProofs.Str
