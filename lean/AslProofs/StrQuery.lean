import AslModel.Str
import AslProofs.Str
import AslProofs.StrRep
import AslProofs.StrOps
import AslProofs.StrExtra
/-!
# C03 — the single-character tests, `operator[]`, `ok`/`!`/`isTrue`, `contains`

Helper lemmas for the queries that read one byte of the storage block (`Rep.charAt` = `str()[i]`, `none` outside
the block): under the representation invariant every such read is inside the block and yields the byte of the text
(or the terminator at `length()`).
-/
namespace AslProofs.Str
open AslModel.Str AslModel.Str.Rep

theorem charAt_lt {r : Rep} {s : Bytes} (h : Models r s) (i : Nat) (hi : i < s.length) : r.charAt i = some s[i] := by
  obtain ⟨_, _, _, tail, hb⟩ := h
  unfold Rep.charAt
  rw [hb, List.getElem?_append_left hi, List.getElem?_eq_getElem hi]

theorem charAt_len {r : Rep} {s : Bytes} (h : Models r s) : r.charAt s.length = some 0 := by
  obtain ⟨_, _, _, tail, hb⟩ := h
  unfold Rep.charAt
  rw [hb, List.getElem?_append_right (Nat.le_refl _)]
  simp

theorem charAt_zero {r : Rep} {s : Bytes} (h : Models r s) : r.charAt 0 = some (s.headD 0) := by
  cases s with
  | nil => simpa using charAt_len h
  | cons a t => exact charAt_lt h 0 (by simp)

theorem startsWithChar_spec {r : Rep} {s : Bytes} (h : Models r s) (c : UInt8) :
    ∃ b, r.startsWithChar c = some b ∧ (b = true ↔ (s.head? = some c ∨ (s = [] ∧ c = 0))) := by
  unfold Rep.startsWithChar
  rw [charAt_zero h]
  refine ⟨_, rfl, ?_⟩
  cases s with
  | nil =>
    show ((0 : UInt8) == c) = true ↔ _
    rw [beq_iff_eq]
    exact ⟨fun e => Or.inr ⟨rfl, e.symm⟩, fun e => by
      rcases e with e | ⟨_, e⟩
      · cases e
      · exact e.symm⟩
  | cons a t =>
    show (a == c) = true ↔ _
    rw [beq_iff_eq]
    exact ⟨fun e => Or.inl (by rw [e]; rfl), fun e => by
      rcases e with e | ⟨e, _⟩
      · cases e; rfl
      · cases e⟩

theorem endsWithChar_spec {r : Rep} {s : Bytes} (h : Models r s) (c : UInt8) :
    ∃ b, r.endsWithChar c = some b ∧ (b = true ↔ s.getLast? = some c) := by
  unfold Rep.endsWithChar
  rw [h.2.1]
  by_cases hs : s = []
  · subst hs; exact ⟨false, by simp, by simp⟩
  · have hpos : 0 < s.length := List.length_pos_iff.mpr hs
    rw [if_pos hpos, charAt_lt h (s.length - 1) (by omega)]
    refine ⟨_, rfl, ?_⟩
    rw [List.getLast?_eq_getElem?, List.getElem?_eq_getElem (by omega)]
    simp

theorem eqChar_spec {r : Rep} {s : Bytes} (h : Models r s) (c : UInt8) :
    ∃ b, r.eqChar c = some b ∧ (b = true ↔ s = [c]) := by
  unfold Rep.eqChar
  rw [h.2.1, charAt_zero h]
  match s with
  | [] => exact ⟨false, by simp, by simp⟩
  | [a] => exact ⟨a == c, by simp, by simp⟩
  | a :: b :: t => exact ⟨false, by simp, by simp⟩

theorem ok_iff {r : Rep} {s : Bytes} (h : Models r s) : (r.ok = true ↔ s ≠ []) ∧ (r.isEmpty = true ↔ s = []) := by
  unfold Rep.ok Rep.isEmpty
  rw [h.2.1]
  cases s <;> simp

theorem isTrue_spec {r : Rep} {s : Bytes} (h : Models r s) :
    ∃ b, r.isTrue = some b ∧
      (b = true ↔ s ≠ [] ∧ s ≠ [48] ∧ s.head? ≠ some 78 ∧ s.head? ≠ some 110 ∧ s.head? ≠ some 102 ∧ s.head? ≠ some 70) := by
  unfold Rep.isTrue
  rw [charAt_zero h, h.2.1]
  refine ⟨_, rfl, ?_⟩
  have he := eqCStr_iff h [48]
  cases s with
  | nil => simp
  | cons a t =>
    by_cases h48 : r.eqCStr [48] = true
    · have := he.mp h48; simp [h48, this]
    · have hne : ¬ (a :: t = [48]) := fun e => h48 (he.mpr e)
      simp only [Bool.not_eq_true] at h48
      simp [h48, hne, and_assoc]

theorem infix_iff_prefix_drop (p s : Bytes) : p <:+: s ↔ ∃ k, p <+: s.drop k := by
  constructor
  · rintro ⟨a, b, e⟩
    refine ⟨a.length, ?_⟩
    rw [← e, List.append_assoc, List.drop_left]
    exact List.prefix_append p b
  · rintro ⟨k, hk⟩
    exact List.IsInfix.trans hk.isInfix (List.drop_suffix k s).isInfix

theorem contains_iff {r : Rep} {s : Bytes} (h : Models r s) (p : Bytes) : r.contains p = true ↔ p <:+: s := by
  unfold Rep.contains
  rw [h.view, infix_iff_prefix_drop]
  cases hk : indexOf s p 0 with
  | some k => exact ⟨fun _ => ⟨k, (indexOf_some (Nat.zero_le _) hk).2.1⟩, fun _ => rfl⟩
  | none =>
    refine ⟨fun hh => by simp at hh, fun ⟨k, hp⟩ => absurd hp (indexOf_none hk k (Nat.zero_le _))⟩

theorem containsChar_iff {r : Rep} {s : Bytes} (h : Models r s) (c : UInt8) (hc : c ≠ 0) :
    r.containsChar c = true ↔ c ∈ s := by
  unfold Rep.containsChar
  rw [h.view]
  cases hk : indexOfChar s c 0 with
  | some k =>
    obtain ⟨_, hlt, hg, _⟩ := indexOfChar_some hc hk
    refine ⟨fun _ => ?_, fun _ => rfl⟩
    rw [← hg, List.getD_eq_getElem?_getD, List.getElem?_eq_getElem hlt]
    simp
  | none =>
    refine ⟨fun hh => by simp at hh, fun hm => ?_⟩
    obtain ⟨i, hi, he⟩ := List.getElem_of_mem hm
    have := indexOfChar_none hk i (Nat.zero_le _) hi
    rw [List.getD_eq_getElem?_getD, List.getElem?_eq_getElem hi] at this
    exact absurd he (by simpa using this)

/-! ### `toInt`/`toLong` on number texts with a tail -/

/-- the digit loop stops at a tail that does not start with a digit -/
theorem digitLoop_stop (t : Bytes) (y : Int) (ht : ∀ c, t.head? = some c → ¬ IsDigit c) : digitLoop t y = y := by
  cases t with
  | nil => rfl
  | cons c t =>
    have := ht c rfl
    unfold IsDigit at this
    simp only [digitLoop, this, if_false]

theorem digitLoop_utoa_tail (n : Nat) (t : Bytes) (ht : ∀ c, t.head? = some c → ¬ IsDigit c) :
    digitLoop (utoa n ++ t) 0 = n := by
  unfold utoa
  by_cases h0 : n = 0
  · subst h0
    simp only [if_true, List.singleton_append, digitLoop]
    simp [digitLoop_stop t _ ht]
  · simp only [h0, if_false]
    rw [digitLoop_digits, digitLoop_stop t _ ht]

theorem signSplit_utoa_tail (n : Nat) (t : Bytes) : signSplit (utoa n ++ t) = (1, utoa n ++ t) := by
  obtain ⟨c, u, hu, hd⟩ := utoa_head_digit n
  rw [hu, List.cons_append]
  exact signSplit_digit c _ hd

/-- `toInt()`/`toLong()` (`myatoi`/`myatol`) on an optional sign, a decimal number of ANY size and a tail that does not
    start with a digit: the value, reduced to the two's-complement range -/
theorem atoi_tail (n : Nat) (t : Bytes) (ht : ∀ c, t.head? = some c → ¬ IsDigit c) :
    myatoi (utoa n ++ t) = wrap32 n ∧ myatoi (45 :: (utoa n ++ t)) = wrap32 (-n) ∧ myatoi (43 :: (utoa n ++ t)) = wrap32 n ∧
    myatol (utoa n ++ t) = wrap64 n ∧ myatol (45 :: (utoa n ++ t)) = wrap64 (-n) ∧ myatol (43 :: (utoa n ++ t)) = wrap64 n := by
  have hd := digitLoop_utoa_tail n t ht
  have hs := signSplit_utoa_tail n t
  have h45 : signSplit (45 :: (utoa n ++ t)) = (-1, utoa n ++ t) := rfl
  have h43 : signSplit (43 :: (utoa n ++ t)) = (1, utoa n ++ t) := rfl
  refine ⟨?_, ?_, ?_, ?_, ?_, ?_⟩
  · unfold myatoi; rw [hs]; simp [hd]
  · unfold myatoi; rw [h45]; simp [hd]
  · unfold myatoi; rw [h43]; simp [hd]
  · unfold myatol; rw [hs]; simp [hd]
  · unfold myatol; rw [h45]; simp [hd]
  · unfold myatol; rw [h43]; simp [hd]

end AslProofs.Str
