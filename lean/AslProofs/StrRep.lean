import AslProofs.Str
/-! Layer-B lemmas for C03: the representation invariant through every storage operation. Core Lean only. -/
set_option linter.unusedVariables false
namespace AslProofs.Str
open AslModel.Str AslModel.Str.Rep

def NulFree (b : Bytes) : Prop := ∀ c ∈ b, c ≠ 0

/-- `r` represents the byte string `s`: the block has `cap()` bytes, `_len = |s|`, the block starts with
    `s` followed by the terminator, and `s` has no NUL (so `strlen(str()) = length()`), hence `|s| < cap()` -/
def Models (r : Rep) (s : Bytes) : Prop :=
  r.buf.length = r.cap ∧ r.len = s.length ∧ NulFree s ∧ ∃ tail, r.buf = s ++ 0 :: tail

theorem NulFree.append {a b : Bytes} (ha : NulFree a) (hb : NulFree b) : NulFree (a ++ b) := by
  intro c hc
  rcases List.mem_append.mp hc with h | h
  · exact ha c h
  · exact hb c h

theorem NulFree.take {a : Bytes} (ha : NulFree a) (n : Nat) : NulFree (a.take n) :=
  fun c hc => ha c (List.mem_of_mem_take hc)

theorem NulFree.drop {a : Bytes} (ha : NulFree a) (n : Nat) : NulFree (a.drop n) :=
  fun c hc => ha c (List.mem_of_mem_drop hc)

theorem NulFree.sub {a : Bytes} (ha : NulFree a) (i j : Nat) : NulFree (sub a i j) :=
  (ha.drop i).take (j - i)

theorem NulFree.nil : NulFree [] := fun c hc => by simp at hc

theorem NulFree.replicate (c : UInt8) (hc : c ≠ 0) (n : Nat) : NulFree (List.replicate n c) := by
  intro x hx
  rw [(List.mem_replicate.mp hx).2]; exact hc

theorem cstr_append_zero (s tail : Bytes) (hs : NulFree s) : cstr (s ++ 0 :: tail) = s := by
  unfold cstr
  induction s with
  | nil => simp
  | cons c t ih =>
    have hc : c ≠ 0 := hs c (by simp)
    have ht : NulFree t := fun x hx => hs x (by simp [hx])
    simp [List.takeWhile_cons, hc, ih ht]

theorem Models.toList {r : Rep} {s : Bytes} (h : Models r s) : r.toList = s := by
  obtain ⟨_, hl, _, tail, hb⟩ := h
  unfold Rep.toList
  rw [hb, hl, List.take_left' rfl]

/-- `strlen(str()) == length()` -/
theorem Models.view {r : Rep} {s : Bytes} (h : Models r s) : r.view = s := by
  obtain ⟨_, hl, hn, tail, hb⟩ := h
  unfold Rep.view
  rw [hb, cstr_append_zero s tail hn]

theorem Models.lt_cap {r : Rep} {s : Bytes} (h : Models r s) : s.length < r.cap := by
  obtain ⟨hc, hl, hn, tail, hb⟩ := h
  rw [← hc, hb]; simp

/-! ### block reads and writes -/

theorem wr_some {buf bs : Bytes} {off : Nat} (h : off + bs.length ≤ buf.length) :
    wr buf off bs = some (buf.take off ++ bs ++ buf.drop (off + bs.length)) := by
  unfold wr; simp [h]

theorem rd_some {buf : Bytes} {off n : Nat} (h : off + n ≤ buf.length) :
    rd buf off n = some ((buf.drop off).take n) := by
  unfold rd; simp [h]

/-- writing `bs` over the middle part of `A ++ B ++ C` -/
theorem wr_mid (A B C bs : Bytes) (h : B.length = bs.length) :
    wr (A ++ B ++ C) A.length bs = some (A ++ bs ++ C) := by
  rw [wr_some (by simp only [List.length_append]; omega)]
  have h1 : (A ++ B ++ C).take A.length = A := by rw [List.append_assoc, List.take_left' rfl]
  have h2 : (A ++ B ++ C).drop (A.length + bs.length) = C := by
    rw [← h, ← List.length_append, List.drop_left' rfl]
  rw [h1, h2]

theorem wr_mid' (A B C bs : Bytes) (off : Nat) (ho : off = A.length) (h : B.length = bs.length) :
    wr (A ++ B ++ C) off bs = some (A ++ bs ++ C) := by
  subst ho; exact wr_mid A B C bs h

theorem rd_mid (A B C : Bytes) : rd (A ++ B ++ C) A.length B.length = some B := by
  rw [rd_some (by simp only [List.length_append]; omega)]
  rw [List.append_assoc, List.drop_left' rfl, List.take_left' rfl]

theorem rd_mid' (A B C : Bytes) (off n : Nat) (ho : off = A.length) (hn : n = B.length) :
    rd (A ++ B ++ C) off n = some B := by
  subst ho; subst hn; exact rd_mid A B C

/-- the terminator store `s[n] = 0` -/
theorem wr_term {B : Bytes} {n : Nat} (h : n < B.length) :
    wr B n [0] = some (B.take n ++ 0 :: B.drop (n + 1)) := by
  rw [wr_some (by simp only [List.length_cons, List.length_nil]; omega)]
  simp

theorem fresh_length (n : Nat) : (fresh n).length = n := by simp [fresh]

/-- reading a piece of the string part of the block -/
theorem rd_piece (s rest : Bytes) (off n : Nat) (h : off + n ≤ s.length) :
    rd (s ++ rest) off n = some (sub s off (off + n)) := by
  rw [rd_some (by simp only [List.length_append]; omega), sub_eq, Nat.add_sub_cancel_left]
  congr 1
  rw [List.drop_append, List.take_append]
  have e1 : off - s.length = 0 := by omega
  have e2 : n - (List.drop off s).length = 0 := by simp only [List.length_drop]; omega
  rw [e1, e2]; simp

/-! ### `resize` -/

theorem cap_inline {r : Rep} (h : r.size = 0) : r.cap = SPACE := by simp [Rep.cap, h]
theorem cap_heap {r : Rep} (h : r.size ≠ 0) : r.cap = r.size := by simp [Rep.cap, h]

/-- `resize(n)` (keep, newlen): the result block is some `B` that starts with the old text, cut at `n` by the
    terminator.  Covers growing (old text kept) and shrinking (old text truncated) in every branch. -/
theorem resize_keep {r : Rep} {s : Bytes} (hm : Models r s) (n : Nat) :
    ∃ r' B, r.resize n = some r' ∧ r'.len = n ∧ r'.buf.length = r'.cap ∧
      s <+: B ∧ n < B.length ∧ r'.buf = B.take n ++ 0 :: B.drop (n + 1) := by
  obtain ⟨hcap, hlen, hnf, tail, hbuf⟩ := hm
  have hpre : s <+: r.buf := ⟨0 :: tail, hbuf.symm⟩
  have hlt : s.length < r.buf.length := by rw [hbuf]; simp
  have fin : ∀ (B : Bytes) (sz : Nat), n < B.length → B.length = (if sz = 0 then SPACE else sz) →
      (B.take n ++ 0 :: B.drop (n + 1)).length = (if sz = 0 then SPACE else sz) := by
    intro B sz h1 h2
    simp only [List.length_append, List.length_take, List.length_cons, List.length_drop]
    omega
  unfold Rep.resize
  by_cases h0 : r.size = 0
  · have hc16 : r.buf.length = SPACE := by rw [hcap, cap_inline h0]
    simp only [h0, if_true]
    by_cases hn : n < SPACE
    · simp only [hn, if_true]
      have hnb : n < r.buf.length := by rw [hc16]; exact hn
      rw [wr_term hnb]
      refine ⟨_, r.buf, rfl, rfl, ?_, hpre, hnb, rfl⟩
      simp only [Rep.cap, h0, if_true]
      have := fin r.buf 0 hnb (by simp [hc16])
      simpa using this
    · simp only [hn, if_false]
      have hn16 : SPACE ≤ n := Nat.le_of_not_lt hn
      have hrd : rd r.buf 0 (r.len + 1) = some (s ++ [0]) := by
        rw [hbuf, hlen]
        have := rd_mid' [] (s ++ [0]) tail 0 (s.length + 1) rfl (by simp)
        simpa using this
      have hwr : wr (fresh (max (n + 1) Gen.Str.heapMin)) 0 (s ++ [0]) = some (s ++ [0] ++ (fresh (max (n + 1) Gen.Str.heapMin)).drop (s.length + 1)) := by
        rw [wr_some (by simp [fresh_length]; omega)]
        simp
      simp only [hrd, Option.bind_some, hwr]
      have hB : n < (s ++ [0] ++ (fresh (max (n + 1) Gen.Str.heapMin)).drop (s.length + 1)).length := by
        simp [fresh_length]; omega
      rw [wr_term hB]
      refine ⟨_, _, rfl, rfl, ?_, ?_, hB, rfl⟩
      · have hsz : max (n + 1) Gen.Str.heapMin ≠ 0 := by omega
        simp only [Rep.cap, hsz, if_false]
        have := fin (s ++ [0] ++ (fresh (max (n + 1) Gen.Str.heapMin)).drop (s.length + 1)) (max (n + 1) Gen.Str.heapMin) hB
          (by simp [fresh_length, hsz]; omega)
        simpa [hsz] using this
      · exact ⟨[0] ++ (fresh (max (n + 1) Gen.Str.heapMin)).drop (s.length + 1), by simp⟩
  · have hcs : r.buf.length = r.size := by rw [hcap, cap_heap h0]
    simp only [h0, if_false]
    by_cases hg : n + 1 > r.size
    · -- grow
      simp only [hg, if_true]
      have hne : ¬ (max (if r.size < Gen.Str.doubleBelow then 2 * r.size else Gen.Str.sizeMax) (n + 1) = r.size) := by
        have : n + 1 ≤ max (if r.size < Gen.Str.doubleBelow then 2 * r.size else Gen.Str.sizeMax) (n + 1) := Nat.le_max_right _ _
        omega
      simp only [hne, if_false]
      generalize hsz : max (if r.size < Gen.Str.doubleBelow then 2 * r.size else Gen.Str.sizeMax) (n + 1) = size2
      have hs2 : n + 1 ≤ size2 := by rw [← hsz]; exact Nat.le_max_right _ _
      by_cases hk : r.size < Gen.Str.reallocFrom
      · simp only [hk, if_true]
        have hmin : min n (r.len + 1) = s.length + 1 := by omega
        have hrd : rd r.buf 0 (min n (r.len + 1)) = some (s ++ [0]) := by
          rw [hmin, hbuf]
          have := rd_mid' [] (s ++ [0]) tail 0 (s.length + 1) rfl (by simp)
          simpa using this
        have hwr : wr (fresh size2) 0 (s ++ [0]) = some (s ++ [0] ++ (fresh size2).drop (s.length + 1)) := by
          rw [wr_some (by simp [fresh_length]; omega)]
          simp
        simp only [hrd, Option.bind_some, hwr, Option.map_some]
        have hB : n < (s ++ [0] ++ (fresh size2).drop (s.length + 1)).length := by
          simp [fresh_length]; omega
        rw [wr_term hB]
        refine ⟨_, _, rfl, rfl, ?_, ?_, hB, rfl⟩
        · have hsz0 : size2 ≠ 0 := by omega
          simp only [Rep.cap, hsz0, if_false]
          have := fin (s ++ [0] ++ (fresh size2).drop (s.length + 1)) size2 hB (by simp [fresh_length, hsz0]; omega)
          simpa [hsz0] using this
        · exact ⟨[0] ++ (fresh size2).drop (s.length + 1), by simp⟩
      · simp only [hk, if_false, Option.bind_some]
        have hB : n < (r.buf ++ fresh (size2 - r.size)).length := by
          simp [fresh_length]; omega
        rw [wr_term hB]
        refine ⟨_, _, rfl, rfl, ?_, ?_, hB, rfl⟩
        · have hsz0 : size2 ≠ 0 := by omega
          simp only [Rep.cap, hsz0, if_false]
          have := fin (r.buf ++ fresh (size2 - r.size)) size2 hB (by simp [fresh_length, hsz0]; omega)
          simpa [hsz0] using this
        · exact hpre.trans (List.prefix_append _ _)
    · -- fits
      simp only [hg, if_false, if_true, Option.bind_some]
      have hnb : n < r.buf.length := by omega
      rw [wr_term hnb]
      refine ⟨_, r.buf, rfl, rfl, ?_, hpre, hnb, rfl⟩
      simp only [Rep.cap, h0, if_false]
      have := fin r.buf r.size hnb (by simp [h0, hcs])
      simpa [h0] using this


/-- `resize(n, false)`: no content is promised, but the block is big enough and terminated at `n`.
    Needs only a well-sized block (the printf constructors call it with `_len` still unset). -/
theorem resize_nokeep {r : Rep} (hcap : r.buf.length = r.cap) (n : Nat) :
    ∃ r', ∃ B : Bytes, r.resize n false = some r' ∧ r'.len = n ∧ r'.buf.length = r'.cap ∧
      n < B.length ∧ r'.buf = B.take n ++ 0 :: B.drop (n + 1) := by
  have fin : ∀ (B : Bytes) (sz : Nat), n < B.length → B.length = (if sz = 0 then SPACE else sz) →
      (B.take n ++ 0 :: B.drop (n + 1)).length = (if sz = 0 then SPACE else sz) := by
    intro B sz h1 h2
    simp only [List.length_append, List.length_take, List.length_cons, List.length_drop]
    omega
  unfold Rep.resize
  by_cases h0 : r.size = 0
  · have hc16 : r.buf.length = SPACE := by rw [hcap, cap_inline h0]
    simp only [h0, if_true]
    by_cases hn : n < SPACE
    · simp only [hn, if_true]
      have hnb : n < r.buf.length := by rw [hc16]; exact hn
      rw [wr_term hnb]
      refine ⟨_, r.buf, rfl, rfl, ?_, hnb, rfl⟩
      simp only [Rep.cap, h0, if_true]
      have := fin r.buf 0 hnb (by simp [hc16])
      simpa using this
    · simp only [hn, if_false]
      have hn16 : SPACE ≤ n := Nat.le_of_not_lt hn
      simp only [Bool.false_eq_true, if_false, Option.bind_some, if_true]
      have hB : n < (fresh (max (n + 1) Gen.Str.heapMin)).length := by simp [fresh_length]; omega
      rw [wr_term hB]
      refine ⟨_, _, rfl, rfl, ?_, hB, rfl⟩
      have hsz : max (n + 1) Gen.Str.heapMin ≠ 0 := by omega
      simp only [Rep.cap, hsz, if_false]
      have := fin (fresh (max (n + 1) Gen.Str.heapMin)) (max (n + 1) Gen.Str.heapMin) hB (by simp [fresh_length, hsz])
      simpa [hsz] using this
  · have hcs : r.buf.length = r.size := by rw [hcap, cap_heap h0]
    simp only [h0, if_false]
    by_cases hg : n + 1 > r.size
    · simp only [hg, if_true]
      have hne : ¬ (max (if r.size < Gen.Str.doubleBelow then 2 * r.size else Gen.Str.sizeMax) (n + 1) = r.size) := by
        have : n + 1 ≤ max (if r.size < Gen.Str.doubleBelow then 2 * r.size else Gen.Str.sizeMax) (n + 1) := Nat.le_max_right _ _
        omega
      simp only [hne, if_false]
      generalize hsz : max (if r.size < Gen.Str.doubleBelow then 2 * r.size else Gen.Str.sizeMax) (n + 1) = size2
      have hs2 : n + 1 ≤ size2 := by rw [← hsz]; exact Nat.le_max_right _ _
      have hsz0 : size2 ≠ 0 := by omega
      by_cases hk : r.size < Gen.Str.reallocFrom
      · simp only [hk, if_true, Bool.false_eq_true, if_false, Option.map_some, Option.bind_some]
        have hB : n < (fresh size2).length := by simp [fresh_length]; omega
        rw [wr_term hB]
        refine ⟨_, _, rfl, rfl, ?_, hB, rfl⟩
        simp only [Rep.cap, hsz0, if_false]
        have := fin (fresh size2) size2 hB (by simp [fresh_length, hsz0])
        simpa [hsz0] using this
      · simp only [hk, if_false, Option.bind_some, if_true]
        have hB : n < (r.buf ++ fresh (size2 - r.size)).length := by
          simp [fresh_length]; omega
        rw [wr_term hB]
        refine ⟨_, _, rfl, rfl, ?_, hB, rfl⟩
        simp only [Rep.cap, hsz0, if_false]
        have := fin (r.buf ++ fresh (size2 - r.size)) size2 hB (by simp [fresh_length, hsz0]; omega)
        simpa [hsz0] using this
    · simp only [hg, if_false, if_true, Option.bind_some]
      have hnb : n < r.buf.length := by omega
      rw [wr_term hnb]
      refine ⟨_, r.buf, rfl, rfl, ?_, hnb, rfl⟩
      simp only [Rep.cap, h0, if_false]
      have := fin r.buf r.size hnb (by simp [h0, hcs])
      simpa [h0] using this

/-- `resize(n, true, false)` ("reserve"): the text is unchanged -/
theorem resize_reserve {r : Rep} {s : Bytes} (hm : Models r s) (n : Nat) :
    ∃ r', r.resize n true false = some r' ∧ Models r' s := by
  obtain ⟨hcap, hlen, hnf, tail, hbuf⟩ := hm
  have hlt : s.length < r.buf.length := by rw [hbuf]; simp
  unfold Rep.resize
  by_cases h0 : r.size = 0
  · have hc16 : r.buf.length = SPACE := by rw [hcap, cap_inline h0]
    simp only [h0, if_true]
    by_cases hn : n < SPACE
    · simp only [hn, if_true, Bool.false_eq_true, if_false]
      exact ⟨r, rfl, hcap, hlen, hnf, tail, hbuf⟩
    · simp only [hn, if_false]
      have hn16 : SPACE ≤ n := Nat.le_of_not_lt hn
      have hrd : rd r.buf 0 (r.len + 1) = some (s ++ [0]) := by
        rw [hbuf, hlen]
        have := rd_mid' [] (s ++ [0]) tail 0 (s.length + 1) rfl (by simp)
        simpa using this
      have hwr : wr (fresh (max (n + 1) Gen.Str.heapMin)) 0 (s ++ [0]) = some (s ++ [0] ++ (fresh (max (n + 1) Gen.Str.heapMin)).drop (s.length + 1)) := by
        rw [wr_some (by simp [fresh_length]; omega)]
        simp
      simp only [hrd, Option.bind_some, hwr, Bool.false_eq_true, if_false, if_true]
      refine ⟨_, rfl, ?_, hlen, hnf, (fresh (max (n + 1) Gen.Str.heapMin)).drop (s.length + 1), by simp⟩
      have hsz : max (n + 1) Gen.Str.heapMin ≠ 0 := by omega
      simp [Rep.cap, hsz, fresh_length]; omega
  · have hcs : r.buf.length = r.size := by rw [hcap, cap_heap h0]
    simp only [h0, if_false]
    by_cases hg : n + 1 > r.size
    · simp only [hg, if_true]
      have hne : ¬ (max (if r.size < Gen.Str.doubleBelow then 2 * r.size else Gen.Str.sizeMax) (n + 1) = r.size) := by
        have : n + 1 ≤ max (if r.size < Gen.Str.doubleBelow then 2 * r.size else Gen.Str.sizeMax) (n + 1) := Nat.le_max_right _ _
        omega
      simp only [hne, if_false]
      generalize hsz : max (if r.size < Gen.Str.doubleBelow then 2 * r.size else Gen.Str.sizeMax) (n + 1) = size2
      have hs2 : n + 1 ≤ size2 := by rw [← hsz]; exact Nat.le_max_right _ _
      have hsz0 : size2 ≠ 0 := by omega
      by_cases hk : r.size < Gen.Str.reallocFrom
      · simp only [hk, if_true]
        have hmin : min n (r.len + 1) = s.length + 1 := by omega
        have hrd : rd r.buf 0 (min n (r.len + 1)) = some (s ++ [0]) := by
          rw [hmin, hbuf]
          have := rd_mid' [] (s ++ [0]) tail 0 (s.length + 1) rfl (by simp)
          simpa using this
        have hwr : wr (fresh size2) 0 (s ++ [0]) = some (s ++ [0] ++ (fresh size2).drop (s.length + 1)) := by
          rw [wr_some (by simp [fresh_length]; omega)]
          simp
        simp only [hrd, Option.bind_some, hwr, Option.map_some, Bool.false_eq_true, if_false]
        refine ⟨_, rfl, ?_, hlen, hnf, (fresh size2).drop (s.length + 1), by simp⟩
        simp [Rep.cap, hsz0, fresh_length]; omega
      · simp only [hk, if_false, Option.bind_some, Bool.false_eq_true]
        refine ⟨_, rfl, ?_, hlen, hnf, tail ++ fresh (size2 - r.size), by simp [hbuf]⟩
        simp [Rep.cap, hsz0, fresh_length]; omega
    · simp only [hg, if_false, if_true, Option.bind_some, Bool.false_eq_true]
      exact ⟨r, rfl, hcap, hlen, hnf, tail, hbuf⟩

/-! ### room for `k` more bytes after the text -/

/-- the block starts with `s`, then `k` bytes that may be overwritten, then at least one more byte -/
def Room (r : Rep) (s : Bytes) (k : Nat) : Prop :=
  r.buf.length = r.cap ∧ ∃ X c tail, X.length = k ∧ r.buf = s ++ X ++ c :: tail

theorem room_of_resize {r : Rep} {s : Bytes} (hm : Models r s) (k : Nat) :
    ∃ r1, r.resize (s.length + k) = some r1 ∧ r1.len = s.length + k ∧ Room r1 s k := by
  obtain ⟨r1, B, hr, hl, hc, ⟨Y, hY⟩, hB, hbuf⟩ := resize_keep hm (s.length + k)
  refine ⟨r1, hr, hl, hc, Y.take k, 0, B.drop (s.length + k + 1), ?_, ?_⟩
  · subst hY
    simp only [List.length_append] at hB
    simp only [List.length_take]; omega
  · rw [hbuf]; subst hY
    rw [List.take_append]; simp [List.take_of_length_le]

theorem room_of_fit {r : Rep} {s : Bytes} (hm : Models r s) (k : Nat) (h : s.length + k < r.cap) (len' : Nat) :
    Room { r with len := len' } s k := by
  obtain ⟨hcap, hlen, hnf, tail, hbuf⟩ := hm
  have hl : (0 :: tail).length > k := by
    have : r.buf.length = s.length + (0 :: tail).length := by rw [hbuf]; simp
    omega
  refine ⟨by simpa [Rep.cap] using hcap, (0 :: tail).take k, ((0 :: tail).drop k).head (by
    intro e; have := congrArg List.length e; simp only [List.length_drop, List.length_nil] at this; omega),
    ((0 :: tail).drop k).tail, by simp only [List.length_take]; omega, ?_⟩
  show r.buf = _
  rw [hbuf, List.append_assoc]
  congr 1
  rw [List.cons_head_tail, List.take_append_drop]

/-- fill the room with `b` and terminate: the string becomes `s ++ b` -/
theorem fill_room {r1 : Rep} {s b : Bytes} (hroom : Room r1 s b.length) (hs : NulFree s) (hb : NulFree b) :
    ∃ buf1 buf2, wr r1.buf s.length b = some buf1 ∧ wr buf1 (s.length + b.length) [0] = some buf2 ∧
      Models { r1 with buf := buf2, len := s.length + b.length } (s ++ b) := by
  obtain ⟨hc, X, c, tail, hX, hbuf⟩ := hroom
  have h1 : wr r1.buf s.length b = some (s ++ b ++ c :: tail) := by
    rw [hbuf]; exact wr_mid s X (c :: tail) b hX
  have h2 : wr (s ++ b ++ c :: tail) (s.length + b.length) [0] = some (s ++ b ++ 0 :: tail) := by
    have := wr_mid' (s ++ b) [c] tail [0] (s.length + b.length) (by simp) rfl
    simpa using this
  refine ⟨_, _, h1, h2, ?_, by simp, hs.append hb, tail, rfl⟩
  show (s ++ b ++ 0 :: tail).length = Rep.cap { r1 with buf := _, len := _ }
  have : (s ++ b ++ 0 :: tail).length = r1.buf.length := by rw [hbuf]; simp [hX]
  rw [this, hc]; rfl

/-! ### `append`, `operator+=(char)`, `assign` -/

/-- after the resize-or-bump step of `append`/`+=` there is room for `k` bytes and `_len = |s| + k` -/
theorem append_prep {r : Rep} {s : Bytes} (hm : Models r s) (k : Nat) :
    ∃ r1, (if r.len + k ≥ r.size then r.resize (r.len + k) else some { r with len := r.len + k }) = some r1 ∧
      r1.len = s.length + k ∧ Room r1 s k := by
  have hlen := hm.2.1
  by_cases hge : r.len + k ≥ r.size
  · rw [if_pos hge, hlen]
    exact room_of_resize hm k
  · rw [if_neg hge]
    have hsz : r.size ≠ 0 := by omega
    refine ⟨_, rfl, by simp [hlen], room_of_fit hm k ?_ _⟩
    rw [cap_heap hsz]; omega

theorem append_unfold_ext (r : Rep) (b : Bytes) : r.append (.ext b) =
    (if r.len + b.length ≥ r.size then r.resize (r.len + b.length) else some { r with len := r.len + b.length }).bind fun r1 =>
      (wr r1.buf (r1.len - b.length) b).bind fun buf => (wr buf r1.len [0]).map fun buf => { r1 with buf := buf } := rfl

theorem append_unfold_self (r : Rep) (off k : Nat) : r.append (.self off k) =
    (if r.len + k ≥ r.size then r.resize (r.len + k) else some { r with len := r.len + k }).bind fun r1 =>
      (rd r1.buf off k).bind fun b =>
        (wr r1.buf (r1.len - k) b).bind fun buf => (wr buf r1.len [0]).map fun buf => { r1 with buf := buf } := rfl

theorem appendChar_unfold (r : Rep) (c : UInt8) : r.appendChar c =
    (if r.len + 1 ≥ r.size then r.resize (r.len + 1) else some r).bind fun r1 =>
      (wr r1.buf (r.len + 1 - 1) [c]).bind fun buf => (wr buf (r.len + 1) [0]).map fun buf =>
        { r1 with buf := buf, len := r.len + 1 } := rfl

theorem append_ext {r : Rep} {s b : Bytes} (hm : Models r s) (hb : NulFree b) :
    ∃ r', r.append (.ext b) = some r' ∧ Models r' (s ++ b) := by
  obtain ⟨r1, h1, hl1, hroom⟩ := append_prep hm b.length
  obtain ⟨buf1, buf2, hw1, hw2, hM⟩ := fill_room hroom hm.2.2.1 hb
  refine ⟨_, ?_, hM⟩
  rw [append_unfold_ext, h1]
  simp only [Option.bind_some, hl1, Nat.add_sub_cancel, hw1, hw2, Option.map_some]

/-- appending a piece `[off, off+k)` of the string's own storage -/
theorem append_self {r : Rep} {s : Bytes} (hm : Models r s) (off k : Nat) (h : off + k ≤ s.length) :
    ∃ r', r.append (.self off k) = some r' ∧ Models r' (s ++ sub s off (off + k)) := by
  obtain ⟨r1, h1, hl1, hroom⟩ := append_prep hm k
  have hpl : (sub s off (off + k)).length = k := by
    rw [sub_eq]; simp only [List.length_take, List.length_drop]; omega
  have hrd : rd r1.buf off k = some (sub s off (off + k)) := by
    obtain ⟨_, X, c, tail, hX, hbuf⟩ := hroom
    rw [hbuf, List.append_assoc]
    exact rd_piece s _ off k h
  have hroom' : Room r1 s (sub s off (off + k)).length := by rw [hpl]; exact hroom
  obtain ⟨buf1, buf2, hw1, hw2, hM⟩ := fill_room hroom' hm.2.2.1 (hm.2.2.1.sub off (off + k))
  rw [hpl] at hw2 hM
  refine ⟨_, ?_, hM⟩
  rw [append_unfold_self, h1]
  simp only [Option.bind_some, hl1, Nat.add_sub_cancel, hrd, hw1, hw2, Option.map_some]

theorem appendChar_spec {r : Rep} {s : Bytes} (hm : Models r s) (c : UInt8) (hc : c ≠ 0) :
    ∃ r', r.appendChar c = some r' ∧ Models r' (s ++ [c]) := by
  have hlen := hm.2.1
  have hb : NulFree [c] := fun x hx => by simp at hx; rw [hx]; exact hc
  have hprep : ∃ r1, (if r.len + 1 ≥ r.size then r.resize (r.len + 1) else some r) = some r1 ∧ Room r1 s 1 := by
    by_cases hge : r.len + 1 ≥ r.size
    · rw [if_pos hge, hlen]
      obtain ⟨r1, hr, _, hroom⟩ := room_of_resize hm 1
      exact ⟨r1, hr, hroom⟩
    · rw [if_neg hge]
      have hsz : r.size ≠ 0 := by omega
      exact ⟨r, rfl, room_of_fit hm 1 (by rw [cap_heap hsz]; omega) r.len⟩
  obtain ⟨r1, h1, hroom⟩ := hprep
  obtain ⟨buf1, buf2, hw1, hw2, hM⟩ := fill_room (b := [c]) hroom hm.2.2.1 hb
  refine ⟨_, ?_, hM⟩
  rw [appendChar_unfold, h1]
  simp only [List.length_singleton] at hw2
  simp only [Option.bind_some, hlen, Nat.add_sub_cancel, hw1, hw2, Option.map_some, List.length_singleton]

theorem assign_ext {r : Rep} {s b : Bytes} (hm : Models r s) (hb : NulFree b) :
    ∃ r', r.assign (.ext b) = some r' ∧ Models r' b := by
  obtain ⟨r1, B, hr, hl, hc, hB, hbuf⟩ := resize_nokeep hm.1 b.length
  have hw1 : wr r1.buf 0 (b.take r1.len) = some (b ++ 0 :: B.drop (b.length + 1)) := by
    rw [hl, List.take_of_length_le (Nat.le_refl _), hbuf]
    have := wr_mid' [] (B.take b.length) (0 :: B.drop (b.length + 1)) b 0 rfl (by simp only [List.length_take]; omega)
    simpa using this
  have hw2 : wr (b ++ 0 :: B.drop (b.length + 1)) r1.len [0] = some (b ++ 0 :: B.drop (b.length + 1)) := by
    rw [hl]
    have := wr_mid' b [0] (B.drop (b.length + 1)) [0] b.length rfl rfl
    simpa using this
  refine ⟨{ r1 with buf := b ++ 0 :: B.drop (b.length + 1) }, ?_, ?_, hl, hb, _, rfl⟩
  · unfold Rep.assign
    simp only [hr, Option.bind_some, hw1, hw2, Option.map_some]
  · show (b ++ 0 :: B.drop (b.length + 1)).length = Rep.cap { r1 with buf := _ }
    have : (b ++ 0 :: B.drop (b.length + 1)).length = r1.buf.length := by
      rw [hbuf]; simp only [List.length_append, List.length_cons, List.length_take]; omega
    rw [this, hc]; rfl

/-- assigning a piece of the string's own storage (`s = *s + k`, `s.assign(*s + off, n)`) -/
theorem assign_self {r : Rep} {s : Bytes} (hm : Models r s) (off k : Nat) (h : off + k ≤ s.length) :
    ∃ r', r.assign (.self off k) = some r' ∧ Models r' (sub s off (off + k)) := by
  obtain ⟨hcap, hlen, hnf, tail, hbuf⟩ := hm
  have hpl : (sub s off (off + k)).length = k := by
    rw [sub_eq]; simp only [List.length_take, List.length_drop]; omega
  have hrd : rd r.buf off k = some (sub s off (off + k)) := by
    rw [hbuf]; exact rd_piece s _ off k h
  have hkl : k < r.buf.length := by rw [hbuf]; simp only [List.length_append, List.length_cons]; omega
  have hw1 : wr r.buf 0 (sub s off (off + k)) = some (sub s off (off + k) ++ r.buf.drop k) := by
    rw [wr_some (by rw [hpl]; omega), hpl]; simp
  have hw2 : wr (sub s off (off + k) ++ r.buf.drop k) k [0] = some (sub s off (off + k) ++ 0 :: r.buf.drop (k + 1)) := by
    rw [List.drop_eq_getElem_cons hkl]
    have := wr_mid' (sub s off (off + k)) [r.buf[k]] (r.buf.drop (k + 1)) [0] k hpl.symm rfl
    simpa using this
  refine ⟨{ r with buf := sub s off (off + k) ++ 0 :: r.buf.drop (k + 1), len := k }, ?_, ?_, hpl.symm,
    hnf.sub off (off + k), _, rfl⟩
  · unfold Rep.assign
    simp only [hrd, Option.bind_some, hw1, hw2, Option.map_some]
  · show (sub s off (off + k) ++ 0 :: r.buf.drop (k + 1)).length = Rep.cap { r with buf := _, len := _ }
    have : (sub s off (off + k) ++ 0 :: r.buf.drop (k + 1)).length = r.buf.length := by
      simp only [List.length_append, List.length_cons, List.length_drop, hpl]; omega
    rw [this, hcap]; rfl

end AslProofs.Str
