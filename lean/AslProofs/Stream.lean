import AslModel.Stream
import AslProofs.Bits
/-!
# C16 — helper lemmas for the binary stream model (core Lean only)

Byte lists vs positional values (`leBytes`, `leVal`), `swapBytes = reverse`, the `|`/`<<` assembly of
`read2/4/8` as Horner sums, and closed forms of `putGeneric` / `getGeneric` / `readN`.
-/
namespace AslProofs.Stream
open AslModel.Stream Gen.Stream AslProofs.Bits

theorem swapBytes_eq_reverse (l : List UInt8) : swapBytes l = l.reverse := by
  apply List.ext_getElem
  · simp [swapBytes]
  · intro i h1 h2
    simp only [swapBytes, List.length_map, List.length_range] at h1
    simp only [swapBytes, swapIndex, List.getElem_map, List.getElem_range, List.getElem_reverse]
    have : l.length - i - 1 < l.length := by omega
    simp [List.getD, this]
    congr 1
    omega

@[simp] theorem leBytes_length (w v : Nat) : (leBytes w v).length = w := by
  induction w generalizing v with
  | zero => rfl
  | succ w ih => simp [leBytes, ih]

theorem leVal_leBytes (w v : Nat) : leVal (leBytes w v) = v % 256 ^ w := by
  induction w generalizing v with
  | zero => simp [leBytes, leVal, Nat.mod_one]
  | succ w ih =>
    simp only [leBytes, leVal, ih]
    rw [UInt8.toNat_ofNat_of_lt' (Nat.mod_lt _ (by decide)), Nat.pow_succ', Nat.mod_mul]

theorem leVal_append (x y : List UInt8) : leVal (x ++ y) = leVal x + 256 ^ x.length * leVal y := by
  induction x with
  | nil => simp [leVal]
  | cons a t ih => simp only [List.cons_append, leVal, ih, List.length_cons, Nat.pow_succ']; rw [Nat.mul_add, Nat.mul_assoc]; omega

theorem leVal_lt (bs : List UInt8) : leVal bs < 256 ^ bs.length := by
  induction bs with
  | nil => simp [leVal]
  | cons a t ih =>
    simp only [leVal, List.length_cons, Nat.pow_succ']
    have := a.toNat_lt
    omega

theorem map_range_rev {α} (f : Nat → α) (w : Nat) :
    (List.range w).map (fun i => f (w - 1 - i)) = ((List.range w).map f).reverse := by
  apply List.ext_getElem
  · simp
  · intro i h1 h2
    simp only [List.length_map, List.length_range] at h1
    simp [List.getElem_reverse]

theorem leBytes_eq_range (w v : Nat) :
    leBytes w v = (List.range w).map fun i => UInt8.ofNat (v / 256 ^ i % 256) := by
  induction w generalizing v with
  | zero => rfl
  | succ w ih =>
    rw [List.range_succ_eq_map, List.map_cons, List.map_map, leBytes, ih]
    congr 1
    · simp
    · apply List.map_congr_left
      intro i _
      simp only [Function.comp, Nat.pow_succ', Nat.div_div_eq_div_mul]

theorem leBytes_reverse_eq_range (w v : Nat) :
    (leBytes w v).reverse = (List.range w).map fun i => UInt8.ofNat (v / 256 ^ (w - 1 - i) % 256) := by
  rw [leBytes_eq_range, map_range_rev (fun i => UInt8.ofNat (v / 256 ^ i % 256))]

theorem foldr_little (bs : List UInt8) : bs.foldr (fun b a => b.toNat + 256 * a) 0 = leVal bs := by
  induction bs with
  | nil => rfl
  | cons a t ih => simp [List.foldr, leVal, ih]

theorem foldl_big_aux (bs : List UInt8) (a : Nat) :
    bs.foldl (fun a b => a * 256 + b.toNat) a = leVal bs.reverse + a * 256 ^ bs.length := by
  induction bs generalizing a with
  | nil => simp [leVal]
  | cons b t ih =>
    simp only [List.foldl, ih, List.reverse_cons, leVal_append, List.length_reverse, leVal, List.length_cons, Nat.pow_succ',
      Nat.mul_zero, Nat.add_zero]
    rw [Nat.add_mul, Nat.mul_assoc, Nat.mul_comm (256 ^ t.length) b.toNat]
    omega

theorem foldl_big (bs : List UInt8) : bs.foldl (fun a b => a * 256 + b.toNat) 0 = leVal bs.reverse := by
  rw [foldl_big_aux]; simp

theorem or_step (A p s : Nat) (hp : p < 256) : (A <<< (s + 8)) ||| (p <<< s) = (A * 256 + p) <<< s := by
  rw [Nat.add_comm s 8, Nat.shiftLeft_add, ← Nat.shiftLeft_or_distrib, shl_or A p 8 (by omega)]

theorem orTerms2 (p : Nat → Nat) (i1 i0 : Nat) (h0 : p i0 < 256) :
    orTerms [(i1, 8), (i0, 0)] p = p i1 * 256 + p i0 := by
  simp only [orTerms, List.foldl, Nat.zero_or, Nat.shiftLeft_zero]
  exact shl_or (p i1) (p i0) 8 (by omega)

theorem orTerms4 (p : Nat → Nat) (i3 i2 i1 i0 : Nat) (h2 : p i2 < 256) (h1 : p i1 < 256) (h0 : p i0 < 256) :
    orTerms [(i3, 24), (i2, 16), (i1, 8), (i0, 0)] p = ((p i3 * 256 + p i2) * 256 + p i1) * 256 + p i0 := by
  simp only [orTerms, List.foldl, Nat.zero_or, Nat.shiftLeft_zero]
  rw [or_step (p i3) (p i2) 16 h2, or_step _ (p i1) 8 h1]
  exact shl_or _ (p i0) 8 (by omega)

theorem orTerms8 (p : Nat → Nat) (i7 i6 i5 i4 i3 i2 i1 i0 : Nat)
    (h6 : p i6 < 256) (h5 : p i5 < 256) (h4 : p i4 < 256) (h3 : p i3 < 256)
    (h2 : p i2 < 256) (h1 : p i1 < 256) (h0 : p i0 < 256) :
    orTerms [(i7, 56), (i6, 48), (i5, 40), (i4, 32), (i3, 24), (i2, 16), (i1, 8), (i0, 0)] p =
      ((((((p i7 * 256 + p i6) * 256 + p i5) * 256 + p i4) * 256 + p i3) * 256 + p i2) * 256 + p i1) * 256 + p i0 := by
  simp only [orTerms, List.foldl, Nat.zero_or, Nat.shiftLeft_zero]
  rw [or_step (p i7) (p i6) 48 h6, or_step _ (p i5) 40 h5, or_step _ (p i4) 32 h4, or_step _ (p i3) 24 h3,
    or_step _ (p i2) 16 h2, or_step _ (p i1) 8 h1]
  exact shl_or _ (p i0) 8 (by omega)

/-- most-significant-first bytes -/
def beBytes (w v : Nat) : List UInt8 := (leBytes w v).reverse
/-- value of most-significant-first bytes -/
def beVal (bs : List UInt8) : Nat := leVal bs.reverse

theorem putGeneric_eq (swap : Bool) (w v : Nat) :
    putGeneric swap w v = if swap = hostLittle then beBytes w v else leBytes w v := by
  unfold putGeneric objRep beBytes
  generalize hostLittle = hl
  cases swap <;> cases hl <;> simp [swapBytes_eq_reverse]

theorem getGeneric_eq (swap : Bool) (w : Nat) (bs : List UInt8) :
    getGeneric swap w bs = (if swap = hostLittle then beVal (bs.take w) else leVal (bs.take w), bs.drop w) := by
  unfold getGeneric objVal beVal
  generalize hostLittle = hl
  cases swap <;> cases hl <;> simp [swapBytes_eq_reverse]

theorem beVal_beBytes (w v : Nat) : beVal (beBytes w v) = v % 256 ^ w := by
  simp [beVal, beBytes, leVal_leBytes]

theorem take_leBytes_append (w v : Nat) (r : List UInt8) : (leBytes w v ++ r).take w = leBytes w v := by
  rw [List.take_left' (leBytes_length w v)]
theorem drop_leBytes_append (w v : Nat) (r : List UInt8) : (leBytes w v ++ r).drop w = r := by
  rw [List.drop_left' (leBytes_length w v)]
theorem take_beBytes_append (w v : Nat) (r : List UInt8) : (beBytes w v ++ r).take w = beBytes w v := by
  rw [List.take_left' (by simp [beBytes])]
theorem drop_beBytes_append (w v : Nat) (r : List UInt8) : (beBytes w v ++ r).drop w = r := by
  rw [List.drop_left' (by simp [beBytes])]

theorem readN2_eq (c : Bool) (bs : List UInt8) (h : 2 ≤ bs.length) :
    readN c [(0, 8), (1, 0)] [(1, 8), (0, 0)] 2 2 bs =
      (if c then beVal (bs.take 2) else leVal (bs.take 2), bs.drop 2) := by
  match bs, h with
  | b0 :: b1 :: r, _ =>
    have h0 := b0.toNat_lt; have h1 := b1.toNat_lt
    cases c
    · simp only [readN, Bool.false_eq_true, if_false]
      rw [orTerms2 _ 1 0 (by simpa using h0)]
      simp [leVal]; omega
    · simp only [readN, if_true]
      rw [orTerms2 _ 0 1 (by simpa using h1)]
      simp [beVal, leVal]; omega

theorem readN4_eq (c : Bool) (bs : List UInt8) (h : 4 ≤ bs.length) :
    readN c [(0, 24), (1, 16), (2, 8), (3, 0)] [(3, 24), (2, 16), (1, 8), (0, 0)] 4 4 bs =
      (if c then beVal (bs.take 4) else leVal (bs.take 4), bs.drop 4) := by
  match bs, h with
  | b0 :: b1 :: b2 :: b3 :: r, _ =>
    have h0 := b0.toNat_lt; have h1 := b1.toNat_lt; have h2 := b2.toNat_lt; have h3 := b3.toNat_lt
    cases c
    · simp only [readN, Bool.false_eq_true, if_false]
      rw [orTerms4 _ 3 2 1 0 (by simpa using h2) (by simpa using h1) (by simpa using h0)]
      simp [leVal]; omega
    · simp only [readN, if_true]
      rw [orTerms4 _ 0 1 2 3 (by simpa using h1) (by simpa using h2) (by simpa using h3)]
      simp [beVal, leVal]; omega

theorem readN8_eq (c : Bool) (bs : List UInt8) (h : 8 ≤ bs.length) :
    readN c [(0, 56), (1, 48), (2, 40), (3, 32), (4, 24), (5, 16), (6, 8), (7, 0)]
        [(7, 56), (6, 48), (5, 40), (4, 32), (3, 24), (2, 16), (1, 8), (0, 0)] 8 8 bs =
      (if c then beVal (bs.take 8) else leVal (bs.take 8), bs.drop 8) := by
  match bs, h with
  | b0 :: b1 :: b2 :: b3 :: b4 :: b5 :: b6 :: b7 :: r, _ =>
    have h0 := b0.toNat_lt; have h1 := b1.toNat_lt; have h2 := b2.toNat_lt; have h3 := b3.toNat_lt
    have h4 := b4.toNat_lt; have h5 := b5.toNat_lt; have h6 := b6.toNat_lt; have h7 := b7.toNat_lt
    cases c
    · simp only [readN, Bool.false_eq_true, if_false]
      rw [orTerms8 _ 7 6 5 4 3 2 1 0 (by simpa using h6) (by simpa using h5) (by simpa using h4) (by simpa using h3)
        (by simpa using h2) (by simpa using h1) (by simpa using h0)]
      simp [leVal]; omega
    · simp only [readN, if_true]
      rw [orTerms8 _ 0 1 2 3 4 5 6 7 (by simpa using h1) (by simpa using h2) (by simpa using h3) (by simpa using h4)
        (by simpa using h5) (by simpa using h6) (by simpa using h7)]
      simp [beVal, leVal]; omega

end AslProofs.Stream
