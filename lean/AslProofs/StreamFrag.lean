import AslModel.Stream
/-!
# C16 — a Socket whose bytes arrive in pieces: the receive loop of `Socket_::read(void*, int)` returns the same bytes
whatever the partition (helper lemmas for `C16.socket_read_*`)
-/
namespace AslProofs.StreamFrag
open AslModel.Stream Gen.Stream

/-- every piece holds at least one byte (a `recv` that returns 0 bytes means the peer closed the connection) -/
def Live (ps : List (List UInt8)) : Prop := ∀ p ∈ ps, p ≠ []

theorem live_nil : Live [] := by intro p h; cases h

theorem live_tail {p : List UInt8} {ps : List (List UInt8)} (h : Live (p :: ps)) : Live ps :=
  fun q hq => h q (List.mem_cons_of_mem _ hq)

theorem recvLoop_spec (ps : List (List UInt8)) (h : Live ps) (size : Nat) (hs : 0 < size) :
    (sockRecvLoop size ps).1 = ps.flatten.take size ∧ (sockRecvLoop size ps).2.flatten = ps.flatten.drop size ∧
    Live (sockRecvLoop size ps).2 := by
  induction ps generalizing size with
  | nil => simp [sockRecvLoop, live_nil]
  | cons p ps ih =>
    have hp : p ≠ [] := h p (List.mem_cons_self)
    have hl : p.length ≠ 0 := by
      intro h0; exact hp (List.eq_nil_of_length_eq_zero h0)
    have ht := live_tail h
    unfold sockRecvLoop
    simp only [hl, if_false]
    by_cases h1 : size < p.length
    · simp only [h1, if_true, List.flatten_cons]
      refine ⟨?_, ?_, ?_⟩
      · rw [List.take_append_of_le_length (Nat.le_of_lt h1)]
      · rw [List.drop_append_of_le_length (Nat.le_of_lt h1)]
      · intro q hq
        rcases List.mem_cons.mp hq with rfl | hq
        · intro hd
          have := congrArg List.length hd
          simp at this; omega
        · exact ht q hq
    · simp only [h1, if_false]
      by_cases h2 : size = p.length
      · subst h2
        simp only [if_true, List.flatten_cons]
        refine ⟨?_, ?_, ht⟩
        · simp
        · simp
      · simp only [h2, if_false, List.flatten_cons]
        have h3 : 0 < size - p.length := by omega
        obtain ⟨a, b, c⟩ := ih ht (size - p.length) h3
        refine ⟨?_, ?_, c⟩
        · have e1 : p.take size = p := List.take_of_length_le (by omega)
          rw [a, List.take_append, e1]
        · have e2 : p.drop size = [] := List.drop_of_length_le (by omega)
          rw [b, List.drop_append, e2]; simp

theorem sockRead_spec (ps : List (List UInt8)) (h : Live ps) (n : Nat) :
    (sockRead n ps).1 = ps.flatten.take n ∧ (sockRead n ps).2.flatten = ps.flatten.drop n ∧
    Live (sockRead n ps).2 := by
  unfold sockRead
  by_cases h0 : n = 0
  · subst h0; simp [h]
  · simp only [h0, if_false]; exact recvLoop_spec ps h n (by omega)

theorem sockReadBytes_eq (n : Nat) (ps : List (List UInt8)) : sockReadBytes n ps = sockRead n ps := by
  unfold sockReadBytes sockReadResult sockRead
  by_cases h0 : n = 0
  · simp [h0]
  · simp [h0, sockReadRet]

theorem getGenericFrag_spec (swap : Bool) (w : Nat) (ps : List (List UInt8)) (h : Live ps) :
    (getGenericFrag swap w ps).1 = (getGeneric swap w ps.flatten).1 ∧
    (getGenericFrag swap w ps).2.flatten = (getGeneric swap w ps.flatten).2 ∧ Live (getGenericFrag swap w ps).2 := by
  obtain ⟨a, b, c⟩ := sockRead_spec ps h w
  simp only [getGenericFrag, getGeneric, a, b]
  exact ⟨trivial, trivial, c⟩

theorem getScalarFrag_spec (e : Endian) (t : Ty) (ps : List (List UInt8)) (h : Live ps) :
    (getScalarFrag e t ps).1 = (getScalar .sock e t ps.flatten).1 ∧
    (getScalarFrag e t ps).2.flatten = (getScalar .sock e t ps.flatten).2 ∧ Live (getScalarFrag e t ps).2 := by
  cases t <;> simp only [getScalarFrag, getScalar] <;> exact getGenericFrag_spec _ _ ps h

theorem getManyFrag_spec (e : Endian) (t : Ty) (n : Nat) (ps : List (List UInt8)) (h : Live ps) :
    (getManyFrag e t n ps).1 = (getMany .sock e t n ps.flatten).1 ∧
    (getManyFrag e t n ps).2.flatten = (getMany .sock e t n ps.flatten).2 ∧ Live (getManyFrag e t n ps).2 := by
  induction n generalizing ps with
  | zero => simp [getManyFrag, getMany, h]
  | succ n ih =>
    obtain ⟨a, b, c⟩ := getScalarFrag_spec e t ps h
    obtain ⟨a', b', c'⟩ := ih (getScalarFrag e t ps).2 c
    simp only [getManyFrag, getMany]
    rw [b] at a' b'
    exact ⟨by rw [a, a'], b', c'⟩

theorem getArrayFrag_spec (e : Endian) (t : Ty) (n : Nat) (ps : List (List UInt8)) (h : Live ps) :
    (getArrayFrag e t n ps).1 = (getArray .sock e t n ps.flatten).1 ∧
    (getArrayFrag e t n ps).2.flatten = (getArray .sock e t n ps.flatten).2 ∧ Live (getArrayFrag e t n ps).2 := by
  unfold getArrayFrag getArray
  by_cases hsw : rArraySwap .sock e (arithT t) = true
  · simp only [hsw, if_true]; exact getManyFrag_spec e t n ps h
  · simp only [hsw]
    obtain ⟨a, b, c⟩ := sockRead_spec ps h (rArrayCount .sock n (sizeofT t))
    simp only [Bool.false_eq_true, if_false, a, b]
    exact ⟨trivial, trivial, c⟩

theorem readOpFrag_spec (e : Endian) (ps : List (List UInt8)) (h : Live ps) (op : ROp) :
    (readOpFrag e ps op).1 = (readOp .sock e ps.flatten op).1 ∧
    (readOpFrag e ps op).2.1.flatten = (readOp .sock e ps.flatten op).2.1 ∧
    (readOpFrag e ps op).2.2 = (readOp .sock e ps.flatten op).2.2 ∧ Live (readOpFrag e ps op).2.1 := by
  cases op with
  | setEndian e' => simp [readOpFrag, readOp, h]
  | scalar t =>
    obtain ⟨a, b, c⟩ := getScalarFrag_spec e t ps h
    simp only [readOpFrag, readOp, a, b]; exact ⟨trivial, trivial, trivial, c⟩
  | bytes n =>
    obtain ⟨a, b, c⟩ := sockRead_spec ps h (rawReadCount .sock n)
    simp only [readOpFrag, readOp, sockReadBytes_eq, a, b]; exact ⟨trivial, by simp [rawReadCount, rawReadAdv], trivial, c⟩
  | skip n =>
    obtain ⟨a, b, c⟩ := sockRead_spec ps h (skipAdv .sock n)
    simp only [readOpFrag, readOp, b]; exact ⟨trivial, trivial, trivial, c⟩
  | array t n =>
    obtain ⟨a, b, c⟩ := getArrayFrag_spec e t n ps h
    simp only [readOpFrag, readOp, a, b]; exact ⟨trivial, trivial, trivial, c⟩

theorem readAllFrag_spec (ops : List ROp) (e : Endian) (ps : List (List UInt8)) (h : Live ps) :
    (readAllFrag e ps ops).1 = (readAll .sock e ps.flatten ops).1 ∧
    (readAllFrag e ps ops).2.1 = (readAll .sock e ps.flatten ops).2.1 ∧
    (readAllFrag e ps ops).2.2.flatten = (readAll .sock e ps.flatten ops).2.2 ∧ Live (readAllFrag e ps ops).2.2 := by
  induction ops generalizing e ps with
  | nil => simp [readAllFrag, readAll, h]
  | cons op ops ih =>
    obtain ⟨a, b, c, d⟩ := readOpFrag_spec e ps h op
    obtain ⟨a', b', c', d'⟩ := ih (readOpFrag e ps op).1 (readOpFrag e ps op).2.1 d
    simp only [readAllFrag, readAll]
    rw [← a, ← b, ← c]
    exact ⟨a', by rw [b'], c', d'⟩

theorem getStringFrag_spec (e : Endian) (ps : List (List UInt8)) (h : Live ps) :
    (getStringFrag e ps).map (fun r => (r.1, r.2.flatten)) = getString .sock e ps.flatten ∧
    ∀ r, getStringFrag e ps = some r → Live r.2 := by
  obtain ⟨a, b, c⟩ := getScalarFrag_spec e .i32 ps h
  obtain ⟨a', b', c'⟩ := sockRead_spec _ c (getScalarFrag e .i32 ps).1
  unfold getStringFrag getString
  simp only [sockReadBytes_eq]
  by_cases h4 : ps.flatten.length < 4
  · simp only [h4, if_true, Option.map_none]
    exact ⟨trivial, fun r hr => by cases hr⟩
  · simp only [h4, if_false]
    by_cases h31 : (getScalarFrag e .i32 ps).1 ≥ 2 ^ 31
    · have h31' := h31; rw [a] at h31'
      simp only [h31, h31', if_true, Option.map_some, b]
      exact ⟨trivial, fun r hr => by cases hr; exact c⟩
    · have h31' := h31; rw [a] at h31'
      simp only [h31, h31', if_false]
      by_cases hl : (getScalarFrag e .i32 ps).2.flatten.length < (getScalarFrag e .i32 ps).1
      · have hl' := hl; rw [a, b] at hl'
        have hk : (Kind.sock == Kind.sock) = true := by decide
        simp only [hl, hl', hk, if_true, Option.map_none]
        exact ⟨trivial, fun r hr => by cases hr⟩
      · have hl' := hl; rw [a, b] at hl'
        have hk : (Kind.sock == Kind.sock) = true := by decide
        simp only [hl, hl', hk, if_false, if_true, Option.map_some, a', b']
        refine ⟨?_, fun r hr => ?_⟩
        · rw [a, b]
        · cases hr; exact c'

theorem cutGo_spec (offs : List Nat) (bs : List UInt8) (i : Nat) :
    (cutGo offs i bs).flatten = bs ∧ Live (cutGo offs i bs) := by
  induction bs generalizing i with
  | nil => simp [cutGo, live_nil]
  | cons b bs ih =>
    obtain ⟨a, l⟩ := ih (i + 1)
    unfold cutGo
    cases hc : cutGo offs (i + 1) bs with
    | nil =>
      rw [hc] at a
      simp only [List.flatten_nil] at a
      subst a
      refine ⟨by simp, ?_⟩
      intro p hp; simp at hp; subst hp; simp
    | cons p ps =>
      rw [hc] at a l
      simp only
      by_cases hm : offs.contains (i + 1) = true
      · simp only [hm, if_true]
        refine ⟨by simp [← a], ?_⟩
        intro q hq
        rcases List.mem_cons.mp hq with rfl | hq
        · simp
        · exact l q hq
      · simp only [hm]
        refine ⟨by simp [← a], ?_⟩
        intro q hq
        rcases List.mem_cons.mp hq with rfl | hq
        · simp
        · exact l q (List.mem_cons_of_mem _ hq)

theorem cutPieces_spec (cuts : List Nat) (bs : List UInt8) :
    (cutPieces cuts bs).flatten = bs ∧ Live (cutPieces cuts bs) := cutGo_spec _ bs 0

end AslProofs.StreamFrag
