import AslProps.C16Spec
import AslProofs.Stream
/-!
# C16 — helper lemmas relating the specification (`AslProps/C16Spec.lean`) to the model primitives
-/
namespace AslProofs.StreamSpec
open AslModel.Stream AslProofs.Stream Gen.Stream C16 C16.Spec

theorem bytes_big (w v : Nat) : bytes .big w v = beBytes w v := by
  simp only [bytes, beBytes]; exact (leBytes_reverse_eq_range w v).symm

theorem bytes_little (w v : Nat) : bytes .little w v = leBytes w v := by
  simp only [bytes]; exact (leBytes_eq_range w v).symm

theorem value_big (bs : List UInt8) : value .big bs = beVal bs := by
  simp only [value, beVal]; exact foldl_big bs

theorem value_little (bs : List UInt8) : value .little bs = leVal bs := by
  simp only [value]; exact foldr_little bs


theorem putGeneric_spec (k : Kind) (e : Endian) (w v : Nat) :
    putGeneric (scalarSwap k e) w v = bytes (resolve e) w v := by
  rw [putGeneric_eq]
  cases k <;> cases e <;> simp [scalarSwap, sbSwap, fileWSwap, sockWSwap, otherEndian, hostLittle, resolve, host,
    bytes_big, bytes_little]


theorem bytes_one (o : Order) (v : Nat) : bytes o 1 v = [UInt8.ofNat v] := by
  cases o <;> simp [bytes, List.range_succ] <;> exact UInt8.ofNat_mod_size.symm ▸ rfl


@[simp] theorem bytes_length (o : Order) (w v : Nat) : (bytes o w v).length = w := by
  cases o <;> simp [bytes]


theorem arrayMem_spec (t : Ty) (vs : List Nat) : arrayMem t vs = vs.flatMap (bytes host (sizeofT t)) := by
  have : objRep (sizeofT t) = bytes host (sizeofT t) := by
    funext v; simp [objRep, host, hostLittle, bytes_little]
  rw [arrayMem, this]


theorem flatMap_congr' {α β} (f g : α → List β) (l : List α) (h : ∀ a ∈ l, f a = g a) :
    l.flatMap f = l.flatMap g := by
  induction l with
  | nil => rfl
  | cons a t ih =>
    simp only [List.flatMap_cons]
    rw [h a List.mem_cons_self, ih (fun b hb => h b (List.mem_cons_of_mem _ hb))]


theorem flatMap_length_const {α β} (f : α → List β) (n : Nat) (l : List α) (h : ∀ a, (f a).length = n) :
    (l.flatMap f).length = l.length * n := by
  induction l with
  | nil => simp
  | cons a t ih => simp [List.flatMap_cons, ih, h, Nat.add_mul]; omega


/-- G obligation: `write(p, n)` hands on exactly `n` bytes, `read(n)` returns `n` bytes and moves by `n`, `skip(n)` moves by
    exactly `n` — in all three classes -/
theorem gen_raw_counts (k : Kind) (n : Nat) :
    rawWriteCount k n = n ∧ rawReadCount k n = n ∧ rawReadAdv k n = n ∧ skipAdv k n = n := by
  cases k <;> simp [rawWriteCount, rawReadCount, rawReadAdv, skipAdv, sbWriteCount, sbrReadCount, sbrReadAdv, sbrSkipAdv,
    fileWriteCount, fileReadCount, sockSkipCount]

@[simp] theorem rawWriteCount_eq (k : Kind) (n : Nat) : rawWriteCount k n = n := (gen_raw_counts k n).1
@[simp] theorem rawReadCount_eq (k : Kind) (n : Nat) : rawReadCount k n = n := (gen_raw_counts k n).2.1
@[simp] theorem rawReadAdv_eq (k : Kind) (n : Nat) : rawReadAdv k n = n := (gen_raw_counts k n).2.2.1
@[simp] theorem skipAdv_eq (k : Kind) (n : Nat) : skipAdv k n = n := (gen_raw_counts k n).2.2.2

theorem writeAll_append (k : Kind) (e : Endian) (a b : List WOp) :
    writeAll k e (a ++ b) = ((writeAll k (writeAll k e a).1 b).1, (writeAll k e a).2 ++ (writeAll k (writeAll k e a).1 b).2) := by
  induction a generalizing e with
  | nil => simp [writeAll]
  | cons op r ih => simp [writeAll, ih, List.append_assoc]


theorem value_resolve (e : Endian) (bs : List UInt8) :
    value (resolve e) bs = if resolve e = .big then beVal bs else leVal bs := by
  cases h : resolve e <;> simp [value_big, value_little]


/-- the multi-byte `operator>>` overloads of `StreamBufferReader`, given the two G obligations about
    `read2/4/8` (their terms and their byte-order test) -/
theorem sbr_multi
    (gen_reader_terms : read2Then = [(0, 8), (1, 0)] ∧ read2Else = [(1, 8), (0, 0)] ∧ read2Adv = 2 ∧
      read4Then = [(0, 24), (1, 16), (2, 8), (3, 0)] ∧ read4Else = [(3, 24), (2, 16), (1, 8), (0, 0)] ∧ read4Adv = 4 ∧
      read8Then = [(0, 56), (1, 48), (2, 40), (3, 32), (4, 24), (5, 16), (6, 8), (7, 0)] ∧
      read8Else = [(7, 56), (6, 48), (5, 40), (4, 32), (3, 24), (2, 16), (1, 8), (0, 0)] ∧ read8Adv = 8)
    (e : Endian)
    (gen_reader_cond : (read2Cond e = true ↔ resolve e = .big) ∧ (read4Cond e = true ↔ resolve e = .big) ∧
      (read8Cond e = true ↔ resolve e = .big))
    (t : Ty) (bs : List UInt8) (hw : 2 ≤ sizeofT t) (hn : sizeofT t ≤ bs.length) :
    sbrGet e t bs = (value (resolve e) (bs.take (sizeofT t)), bs.drop (sizeofT t)) := by
  obtain ⟨a2, b2, c2, a4, b4, c4, a8, b8, c8⟩ := gen_reader_terms
  obtain ⟨h2, h4, h8⟩ := gen_reader_cond
  rw [value_resolve]
  cases t <;> simp only [sizeofT] at hw hn <;> first | omega | skip
  case i16 => simp only [sbrGet, sbrWidth, sizeofT]; rw [a2, b2, c2, readN2_eq _ bs hn]; simp only [h2]
  case u16 => simp only [sbrGet, sbrWidth, sizeofT]; rw [a2, b2, c2, readN2_eq _ bs hn]; simp only [h2]
  case i32 => simp only [sbrGet, sbrWidth, sizeofT]; rw [a4, b4, c4, readN4_eq _ bs hn]; simp only [h4]
  case u32 => simp only [sbrGet, sbrWidth, sizeofT]; rw [a4, b4, c4, readN4_eq _ bs hn]; simp only [h4]
  case f32 => simp only [sbrGet, sbrWidth, sizeofT]; rw [a4, b4, c4, readN4_eq _ bs hn]; simp only [h4]
  case i64 => simp only [sbrGet, sbrWidth, sizeofT]; rw [a8, b8, c8, readN8_eq _ bs hn]; simp only [h8]
  case u64 => simp only [sbrGet, sbrWidth, sizeofT]; rw [a8, b8, c8, readN8_eq _ bs hn]; simp only [h8]
  case f64 => simp only [sbrGet, sbrWidth, sizeofT]; rw [a8, b8, c8, readN8_eq _ bs hn]; simp only [h8]


theorem value_one (o : Order) (b : UInt8) : value o [b] = b.toNat := by
  cases o <;> simp [value]


theorem getGeneric_spec (k : Kind) (e : Endian) (hk : k ≠ .sb) (w : Nat) (bs : List UInt8) :
    getGeneric (readSwap k e) w bs = (value (resolve e) (bs.take w), bs.drop w) := by
  rw [getGeneric_eq, value_resolve]
  cases k <;> first | exact absurd rfl hk | skip
  all_goals cases e <;> simp [readSwap, fileRSwap, sockRSwap, otherEndian, hostLittle, resolve, host]


theorem value_bytes (o : Order) (w v : Nat) : value o (bytes o w v) = v % 256 ^ w := by
  cases o
  · rw [value_big, bytes_big, beVal_beBytes]
  · rw [value_little, bytes_little, leVal_leBytes]


theorem readAll_append (k : Kind) (e : Endian) (bs : List UInt8) (a b : List ROp) :
    readAll k e bs (a ++ b) =
      ((readAll k (readAll k e bs a).1 (readAll k e bs a).2.2 b).1,
       (readAll k e bs a).2.1 ++ (readAll k (readAll k e bs a).1 (readAll k e bs a).2.2 b).2.1,
       (readAll k (readAll k e bs a).1 (readAll k e bs a).2.2 b).2.2) := by
  induction a generalizing e bs with
  | nil => simp [readAll]
  | cons op r ih => simp [readAll, ih]

theorem valid_lt (t : Ty) (v : Nat) (hv : ValidBits t v) : v < 256 ^ sizeofT t := by
  by_cases hb : t = .b
  · subst hb; simp [ValidBits] at hv; simp [sizeofT]; omega
  · simpa [ValidBits, hb] using hv


/-- decoding an array's storage gives its elements -/
theorem memVals_arrayMem (t : Ty) (vs : List Nat) (hv : ∀ v ∈ vs, ValidBits t v) :
    memVals (sizeofT t) vs.length (arrayMem t vs) = vs := by
  rw [arrayMem_spec]
  induction vs with
  | nil => simp [memVals]
  | cons a r ih =>
    have hb : (bytes host (sizeofT t) a).length = sizeofT t := bytes_length _ _ _
    simp only [List.flatMap_cons, List.length_cons, memVals]
    rw [List.take_left' hb, List.drop_left' hb, ih (fun v h => hv v (List.mem_cons_of_mem _ h))]
    congr 1
    simp [objVal, host, hostLittle, bytes_little, leVal_leBytes, Nat.mod_eq_of_lt (valid_lt t a (hv a List.mem_cons_self))]

end AslProofs.StreamSpec
