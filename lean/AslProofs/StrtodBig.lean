import AslModel.Strtod
import AslProofs.StrtodInt
/-!
# `Strtod.roundRatio n 1` for integers of 54 bits and more (core Lean only)

What the rounding routine computes when the decimal number is an integer `n ≥ 2^53`: the quotient and
remainder by the spacing `2^(log2 n − 52)`, rounded half to even, with the carry into the next binade and
the overflow to infinity.  Used for the integer literals of more than 9 characters, which the decoder hands
to `atof`.
-/
set_option linter.unusedSimpArgs false
set_option linter.unusedVariables false
namespace AslProofs.Num
open AslModel AslModel.Strtod

/-- the 53-bit quotient of `n ≥ 2^53` by its spacing -/
theorem big_quot (n : Nat) (h53 : 2 ^ 53 ≤ n) :
    52 < Nat.log2 n ∧ 2 ^ 52 ≤ n / 2 ^ (Nat.log2 n - 52) ∧ n / 2 ^ (Nat.log2 n - 52) < 2 ^ 53 := by
  have hn0 : n ≠ 0 := by omega
  have hL : 53 ≤ Nat.log2 n := (Nat.le_log2 hn0).mpr h53
  have hlo : 2 ^ Nat.log2 n ≤ n := Nat.log2_self_le hn0
  have hhi : n < 2 ^ (Nat.log2 n + 1) := Nat.lt_log2_self
  generalize Nat.log2 n = L at *
  have hp : 0 < 2 ^ (L - 52) := Nat.pow_pos (by omega)
  refine ⟨by omega, ?_, ?_⟩
  · rw [Nat.le_div_iff_mul_le hp, ← Nat.pow_add]
    have : 52 + (L - 52) = L := by omega
    rw [this]; exact hlo
  · rw [Nat.div_lt_iff_lt_mul hp, ← Nat.pow_add]
    have : 53 + (L - 52) = L + 1 := by omega
    rw [this]; exact hhi

/-- the rounding step of `roundRatio`: quotient `q0`, remainder `r` by the spacing `2^e`, half to even -/
def roundUp (e q0 r : Nat) : Nat := if 2 * r > 2 ^ e ∨ (2 * r = 2 ^ e ∧ q0 % 2 = 1) then q0 + 1 else q0

/-- biased exponent and fraction of `q·2^e` (`2^52 ≤ q ≤ 2^53`), infinity on overflow -/
def packBig (e q : Nat) : Nat :=
  if q ≥ 2 ^ 53 then (if e + 1076 ≥ 2047 then 2047 * 2 ^ 52 else (e + 1076) * 2 ^ 52)
  else (if e + 1075 ≥ 2047 then 2047 * 2 ^ 52 else (e + 1075) * 2 ^ 52 + (q - 2 ^ 52))

theorem roundRatio_big (n : Nat) (h53 : 2 ^ 53 ≤ n) :
    roundRatio n 1 = packBig (Nat.log2 n - 52)
      (roundUp (Nat.log2 n - 52) (n / 2 ^ (Nat.log2 n - 52)) (n % 2 ^ (Nat.log2 n - 52))) := by
  obtain ⟨hL, hq1, hq2⟩ := big_quot n h53
  generalize hLe : Nat.log2 n = L at *
  obtain ⟨e, rfl⟩ : ∃ e, L = e + 52 := ⟨L - 52, by omega⟩
  simp only [Nat.add_sub_cancel] at hq1 hq2 ⊢
  generalize hQ : n / 2 ^ e = q0 at *
  generalize hR : n % 2 ^ e = r at *
  have he0 : max (((e + 52 : Nat) : Int) - (0 : Nat) - 52) (-1074) = ((e : Nat) : Int) := by
    simp only [Int.natCast_zero, Int.sub_zero]; omega
  have hge : ((e : Nat) : Int) ≥ 0 := by omega
  have c1 : ¬ (q0 ≥ 2 ^ 53) := by omega
  have c2 : ¬ (q0 < 2 ^ 52 ∧ ((e : Nat) : Int) > -1074) := by omega
  have c3 : ¬ (q0 < 2 ^ 52) := by omega
  have c4 : ¬ (q0 + 1 < 2 ^ 52) := by omega
  unfold roundRatio roundUp packBig
  simp only [log2_one, hLe, he0, hge, if_true, Int.toNat_natCast, Nat.one_mul, hQ, hR, c1, c2, if_false]
  by_cases hup : 2 * r > 2 ^ e ∨ (2 * r = 2 ^ e ∧ q0 % 2 = 1)
  · simp only [hup, if_true]
    by_cases hc : q0 + 1 ≥ 2 ^ 53
    · have hq : q0 + 1 = 2 ^ 53 := by omega
      have c5 : ¬ ((q0 + 1) / 2 < 2 ^ 52) := by omega
      have c6 : (q0 + 1) / 2 - 2 ^ 52 = 0 := by omega
      simp only [hc, if_true, c5, if_false, c6]
      by_cases hb : e + 1076 ≥ 2047
      · have : ((e : Nat) : Int) + 1 + 1075 ≥ 2047 := by omega
        simp only [hb, this, if_true]
      · have h1 : ¬ (((e : Nat) : Int) + 1 + 1075 ≥ 2047) := by omega
        have h2 : (((e : Nat) : Int) + 1 + 1075).toNat = e + 1076 := by omega
        simp only [hb, h1, h2, if_false]; exact Nat.add_zero _
    · simp only [hc, if_false, c4]
      by_cases hb : e + 1075 ≥ 2047
      · have : ((e : Nat) : Int) + 1075 ≥ 2047 := by omega
        simp only [hb, this, if_true]
      · have h1 : ¬ (((e : Nat) : Int) + 1075 ≥ 2047) := by omega
        have h2 : (((e : Nat) : Int) + 1075).toNat = e + 1075 := by omega
        simp only [hb, h1, h2, if_false]
  · simp only [hup, if_false, c1, c3]
    by_cases hb : e + 1075 ≥ 2047
    · have : ((e : Nat) : Int) + 1075 ≥ 2047 := by omega
      simp only [hb, this, if_true]
    · have h1 : ¬ (((e : Nat) : Int) + 1075 ≥ 2047) := by omega
      have h2 : (((e : Nat) : Int) + 1075).toNat = e + 1075 := by omega
      simp only [hb, h1, h2, if_false]

/-- the rounding step picks the multiple of the spacing nearest to `n`, the even one on a tie -/
theorem roundUp_nearest (n e : Nat) :
    n / 2 ^ e ≤ roundUp e (n / 2 ^ e) (n % 2 ^ e) ∧ roundUp e (n / 2 ^ e) (n % 2 ^ e) ≤ n / 2 ^ e + 1 ∧
    2 * (roundUp e (n / 2 ^ e) (n % 2 ^ e) * 2 ^ e - n) ≤ 2 ^ e ∧
    2 * (n - roundUp e (n / 2 ^ e) (n % 2 ^ e) * 2 ^ e) ≤ 2 ^ e ∧
    ((2 * (roundUp e (n / 2 ^ e) (n % 2 ^ e) * 2 ^ e - n) = 2 ^ e ∨
      2 * (n - roundUp e (n / 2 ^ e) (n % 2 ^ e) * 2 ^ e) = 2 ^ e) → roundUp e (n / 2 ^ e) (n % 2 ^ e) % 2 = 0) := by
  have hp : 0 < 2 ^ e := Nat.pow_pos (by omega)
  have hdm : n / 2 ^ e * 2 ^ e + n % 2 ^ e = n := by rw [Nat.mul_comm]; exact Nat.div_add_mod n (2 ^ e)
  have hr : n % 2 ^ e < 2 ^ e := Nat.mod_lt n hp
  unfold roundUp
  generalize 2 ^ e = P at *
  generalize n / P = q0 at *
  generalize n % P = r at *
  split
  · rename_i h
    have : (q0 + 1) * P = q0 * P + P := by rw [Nat.add_mul, Nat.one_mul]
    simp only [this]
    generalize q0 * P = a at *
    omega
  · rename_i h
    generalize q0 * P = a at *
    omega

end AslProofs.Num
