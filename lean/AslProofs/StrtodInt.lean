import AslModel.Strtod
import AslModel.Dtoa
import AslProofs.XdlEnc
set_option linter.unusedSimpArgs false
set_option linter.unusedVariables false
namespace AslProofs.Num
open AslModel AslModel.Strtod

theorem log2_one : Nat.log2 1 = 0 := by decide

/-- `strtod` on an integer below 2^53 (`num = n`, `den = 1`): the exact double, no rounding -/
theorem roundRatio_int (n : Nat) (h0 : 0 < n) (h53 : n < 2 ^ 53) :
    roundRatio n 1 = (Nat.log2 n + 1023) * 2 ^ 52 + (n * 2 ^ (52 - Nat.log2 n) - 2 ^ 52) := by
  have hn0 : n ≠ 0 := by omega
  have hL : Nat.log2 n < 53 := (Nat.log2_lt hn0).mpr h53
  have hlo : 2 ^ Nat.log2 n ≤ n := Nat.log2_self_le hn0
  have hhi : n < 2 ^ (Nat.log2 n + 1) := Nat.lt_log2_self
  generalize hLe : Nat.log2 n = L at *
  have hq1 : 2 ^ 52 ≤ n * 2 ^ (52 - L) := by
    calc 2 ^ 52 = 2 ^ L * 2 ^ (52 - L) := by rw [← Nat.pow_add]; congr 1; omega
      _ ≤ n * 2 ^ (52 - L) := Nat.mul_le_mul_right _ hlo
  have hq2 : n * 2 ^ (52 - L) < 2 ^ 53 := by
    calc n * 2 ^ (52 - L) < 2 ^ (L + 1) * 2 ^ (52 - L) := Nat.mul_lt_mul_of_pos_right hhi (Nat.pow_pos (by omega))
      _ = 2 ^ 53 := by rw [← Nat.pow_add]; congr 1; omega
  unfold roundRatio
  simp only [hLe, log2_one]
  have he0 : max ((L : Int) - (0 : Nat) - 52) (-1074) = (L : Int) - 52 := by
    simp only [Int.natCast_zero, Int.sub_zero]; omega
  simp only [he0]
  by_cases h52 : L = 52
  · subst h52
    have hq1' : 2 ^ 52 ≤ n := by simpa using hq1
    have hq2' : n < 2 ^ 53 := h53
    simp [Nat.not_le.mpr hq2', Nat.not_lt.mpr hq1', Nat.mod_one]
  · have hneg : ¬ ((L : Int) - 52 ≥ 0) := by omega
    have hto : (-((L : Int) - 52)).toNat = 52 - L := by omega
    have hneg' : ¬ ((52 : Int) ≤ (L : Int)) := by omega
    have hbe : ((L : Int) - 52 + 1075).toNat = L + 1023 := by omega
    have hbe2 : ¬ ((2047 : Int) ≤ (L : Int) - 52 + 1075) := by omega
    simp [hneg', hto, Nat.mod_one, Nat.not_le.mpr hq2, Nat.not_lt.mpr hq1, hbe, hbe2]



end AslProofs.Num
