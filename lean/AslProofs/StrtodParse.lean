import AslProofs.StrtodInt
import AslProofs.XdlEnc
set_option linter.unusedSimpArgs false
set_option linter.unusedVariables false
namespace AslProofs.Num
open AslModel AslModel.Xdl AslProofs.XdlEnc Rfc8259

theorem sdigit_of_isDig {c : UInt8} (h : isDig c) : Strtod.isDigit c = true := by
  simp [Strtod.isDigit, h.1, h.2]

theorem takeWhile_digits (ds : Bytes) (h : Digits ds) :
    ds.takeWhile Strtod.isDigit = ds ∧ ds.dropWhile Strtod.isDigit = [] := by
  induction ds with
  | nil => simp
  | cons c t ih =>
    have hc := sdigit_of_isDig (h c (by simp))
    have := ih (fun x hx => h x (by simp [hx]))
    simp [List.takeWhile_cons, List.dropWhile_cons, hc, this.1, this.2]

theorem digitsVal_fold (ds : Bytes) (h : Digits ds) : ∀ a : Nat,
    ((ds.foldl (fun y c => 10 * y + (c.toNat - 48)) a : Nat) : Int) =
      ds.foldl (fun (y : Int) c => 10 * y + ((c.toNat : Int) - 48)) (a : Int) := by
  induction ds with
  | nil => intro a; rfl
  | cons c t ih =>
    intro a
    have hc := (h c (by simp)).1
    have h48 : 48 ≤ c.toNat := by simpa [UInt8.le_iff_toNat_le] using hc
    simp only [List.foldl_cons]
    rw [ih (fun x hx => h x (by simp [hx]))]
    congr 1
    omega

theorem digitsVal_ifold (ds : Bytes) (h : Digits ds) : ((Strtod.digitsVal ds : Nat) : Int) = ifold ds := by
  have := digitsVal_fold ds h 0
  simpa [Strtod.digitsVal, ifold] using this

/-- `parseDec` on `[-]digits` -/
theorem parseDec_int (minus ip : Bytes) (hm : minus = [] ∨ minus = [45]) (hip : IntPart ip) :
    Strtod.parseDec (minus ++ ip) =
      { neg := decide (minus = [45]), mant := Strtod.digitsVal ip, fracLen := 0, expNeg := false, exp := 0 } := by
  obtain ⟨hne, hd⟩ := AslProofs.XdlRfc.intpart_digits hip
  obtain ⟨ht, hdr⟩ := takeWhile_digits ip hd
  have hfirst : ∃ c t, ip = c :: t ∧ c ≠ 45 ∧ c ≠ 43 := by
    cases ip with
    | nil => exact absurd rfl hne
    | cons c t =>
      have := hd c (by simp)
      refine ⟨c, t, rfl, ?_, ?_⟩ <;> (intro h; subst h; simp [isDig] at this)
  obtain ⟨c, t, hct, h45, h43⟩ := hfirst
  rcases hm with rfl | rfl
  · have e1 : Strtod.splitSign ip = (false, ip) := by
      rw [hct]; unfold Strtod.splitSign; split
      · rename_i heq; simp at heq; exact absurd heq.1 h45
      · rename_i heq; simp at heq; exact absurd heq.1 h43
      · rfl
    simp [Strtod.parseDec, e1, ht, hdr, Strtod.splitFrac, Strtod.splitExp, Strtod.digitsVal]
  · simp [Strtod.parseDec, Strtod.splitSign, ht, hdr, Strtod.splitFrac, Strtod.splitExp, Strtod.digitsVal]

end AslProofs.Num
