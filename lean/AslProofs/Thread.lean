import AslModel.Thread
/-! Helper lemmas and invariants for C13 (Thread / parallel_for / Semaphore / Condition). Core Lean only. -/
namespace AslProofs.Thread
section ParFor
open AslModel.Thread.ParFor


theorem loop_mem (fuel : Nat) (a b n x : Int) (hn : 0 < n) (hf : (b - a).toNat ≤ fuel) :
    x ∈ loop fuel a b n ↔ x < b ∧ ∃ m : Nat, x = a + m * n := by
  induction fuel generalizing a with
  | zero =>
    simp only [loop, List.not_mem_nil, false_iff]
    rintro ⟨hx, m, rfl⟩
    have : (0:Int) ≤ m * n := Int.mul_nonneg (Int.natCast_nonneg m) (Int.le_of_lt hn)
    omega
  | succ fuel ih =>
    unfold loop
    by_cases hab : a < b
    · simp only [hab, if_true, List.mem_cons]
      rw [ih (a + n) (by omega)]
      constructor
      · rintro (rfl | ⟨hx, m, rfl⟩)
        · exact ⟨hab, 0, by simp⟩
        · refine ⟨hx, m + 1, ?_⟩
          simp only [Int.natCast_add, Int.natCast_one, Int.add_mul, Int.one_mul]; omega
      · rintro ⟨hx, m, rfl⟩
        cases m with
        | zero => left; simp
        | succ m =>
          right
          refine ⟨hx, m, ?_⟩
          simp only [Int.natCast_add, Int.natCast_one, Int.add_mul, Int.one_mul]; omega
    · simp only [hab, if_false, List.not_mem_nil, false_iff]
      rintro ⟨hx, m, rfl⟩
      have : (0:Int) ≤ m * n := Int.mul_nonneg (Int.natCast_nonneg m) (Int.le_of_lt hn)
      omega

theorem loop_lt (fuel : Nat) (a b n : Int) (hn : 0 < n) : ∀ x ∈ loop fuel a b n, a ≤ x := by
  induction fuel generalizing a with
  | zero => simp [loop]
  | succ fuel ih =>
    unfold loop
    split
    · intro x hx
      simp only [List.mem_cons] at hx
      rcases hx with rfl | hx
      · omega
      · have := ih (a + n) x hx; omega
    · simp

theorem loop_nodup (fuel : Nat) (a b n : Int) (hn : 0 < n) : (loop fuel a b n).Nodup := by
  induction fuel generalizing a with
  | zero => simp [loop]
  | succ fuel ih =>
    unfold loop
    split
    · rw [List.nodup_cons]
      refine ⟨?_, ih (a + n)⟩
      intro hmem
      have := loop_lt fuel (a + n) b n hn a hmem
      omega
    · simp

theorem mod_unique (n : Int) (k1 k2 : Nat) (m1 m2 : Nat) (hn : 0 < n) (h1 : (k1:Int) < n) (h2 : (k2:Int) < n)
    (h : (k1:Int) + m1 * n = k2 + m2 * n) : k1 = k2 := by
  have e1 : ((k1:Int) + m1 * n) % n = k1 := by
    rw [Int.add_mul_emod_self_right]; exact Int.emod_eq_of_lt (Int.natCast_nonneg _) h1
  have e2 : ((k2:Int) + m2 * n) % n = k2 := by
    rw [Int.add_mul_emod_self_right]; exact Int.emod_eq_of_lt (Int.natCast_nonneg _) h2
  rw [h, e2] at e1
  exact_mod_cast e1.symm

/-- every index of `[i0, i1)` is run, and no other -/
theorem all_mem (i0 i1 : Int) (nth : Nat) (hnth : 1 ≤ nth) (x : Int) :
    x ∈ all i0 i1 nth ↔ i0 ≤ x ∧ x < i1 := by
  unfold all
  simp only [List.mem_flatMap, List.mem_range]
  by_cases hlt : i0 < i1
  · have hn : 0 < nWorkers i0 i1 nth := by unfold nWorkers; omega
    have hnle : nWorkers i0 i1 nth ≤ i1 - i0 := by unfold nWorkers; omega
    constructor
    · rintro ⟨k, hk, hx⟩
      unfold worker at hx
      rw [loop_mem _ _ _ _ _ hn (by omega)] at hx
      obtain ⟨hxb, m, rfl⟩ := hx
      have : (0:Int) ≤ m * nWorkers i0 i1 nth := Int.mul_nonneg (Int.natCast_nonneg m) (Int.le_of_lt hn)
      exact ⟨by omega, hxb⟩
    · rintro ⟨h0, h1⟩
      have hd : 0 ≤ x - i0 := by omega
      have hmod0 := Int.emod_nonneg (x - i0) (Int.ne_of_gt hn)
      have hmodlt := Int.emod_lt_of_pos (x - i0) hn
      have hdiv0 : 0 ≤ (x - i0) / nWorkers i0 i1 nth := Int.ediv_nonneg hd (Int.le_of_lt hn)
      refine ⟨((x - i0) % nWorkers i0 i1 nth).toNat, by omega, ?_⟩
      unfold worker
      rw [loop_mem _ _ _ _ _ hn (by omega)]
      refine ⟨h1, ((x - i0) / nWorkers i0 i1 nth).toNat, ?_⟩
      have := Int.emod_add_mul_ediv (x - i0) (nWorkers i0 i1 nth)
      rw [Int.toNat_of_nonneg hmod0, Int.toNat_of_nonneg hdiv0]
      rw [Int.mul_comm] at this
      omega
  · have : (nWorkers i0 i1 nth).toNat = 0 := by unfold nWorkers; omega
    simp only [this, Nat.not_lt_zero, false_and, exists_false, false_iff]
    omega

/-- no index is run twice -/
theorem all_nodup (i0 i1 : Int) (nth : Nat) : (all i0 i1 nth).Nodup := by
  unfold all
  by_cases hn : 0 < nWorkers i0 i1 nth
  · rw [List.Nodup, List.pairwise_flatMap]
    constructor
    · intro k _
      exact loop_nodup _ _ _ _ hn
    · have hr := List.pairwise_lt_range (n := (nWorkers i0 i1 nth).toNat)
      have hmem : ∀ k ∈ List.range (nWorkers i0 i1 nth).toNat, (k:Int) < nWorkers i0 i1 nth := by
        intro k hk; rw [List.mem_range] at hk; omega
      refine List.Pairwise.imp_of_mem ?_ hr
      intro k1 k2 hk1 hk2 hlt x hx y hy hxy
      unfold worker at hx hy
      have hle : nWorkers i0 i1 nth ≤ i1 - i0 := by unfold nWorkers; omega
      have hl : i0 < i1 := by omega
      rw [loop_mem _ _ _ _ _ hn (by omega)] at hx hy
      obtain ⟨_, m1, rfl⟩ := hx
      obtain ⟨_, m2, h2⟩ := hy
      have := mod_unique (nWorkers i0 i1 nth) k1 k2 m1 m2 hn (hmem k1 hk1) (hmem k2 hk2) (by omega)
      omega
  · have : (nWorkers i0 i1 nth).toNat = 0 := by omega
    simp [this]

end ParFor
theorem count_flatMap_range (n : Nat) (f : Nat → List Int) (i : Int) :
    ((List.range n).flatMap f).count i = ((List.range n).map fun k => (f k).count i).sum := by
  induction n with
  | zero => rfl
  | succ n ih =>
    rw [List.range_succ, List.flatMap_append, List.count_append, ih, List.map_append, List.sum_append]
    simp


section Handover
open AslModel.Thread.Handover


/-- facts about one worker that hold in every reachable configuration -/
def WInv (c : Cfg) (j : Nat) : Prop :=
  (c.ready j = true ↔ 3 ≤ c.wpc j) ∧ c.ran j = (if 4 ≤ c.wpc j then 1 else 0) ∧
  (c.finished j = true ↔ c.wpc j = 5) ∧ c.wpc j ≤ 5

/-- where the creator is constrains where every worker can be -/
def PosInv (c : Cfg) : Prop :=
  match c.cpos with
  | CPos.spawn k => k < c.n ∧ ∀ j, j < c.n →
      (j < k → 2 ≤ c.wpc j ∧ c.ctxValid j = false ∧ c.objAlive j = true) ∧
      (k ≤ j → c.wpc j = 0 ∧ c.ctxValid j = false)
  | CPos.spin k => k < c.n ∧ ∀ j, j < c.n →
      (j < k → 2 ≤ c.wpc j ∧ c.ctxValid j = false ∧ c.objAlive j = true) ∧
      (j = k → 1 ≤ c.wpc j ∧ c.ctxValid j = true ∧ c.objAlive j = true) ∧
      (k < j → c.wpc j = 0 ∧ c.ctxValid j = false)
  | CPos.join k => k < c.n ∧ ∀ j, j < c.n →
      2 ≤ c.wpc j ∧ c.ctxValid j = false ∧ (j < k → c.wpc j = 5 ∧ c.objAlive j = false) ∧ (k ≤ j → c.objAlive j = true)
  | CPos.del k => k < c.n ∧ c.wpc k = 5 ∧ ∀ j, j < c.n →
      2 ≤ c.wpc j ∧ c.ctxValid j = false ∧ (j < k → c.wpc j = 5 ∧ c.objAlive j = false) ∧ (k ≤ j → c.objAlive j = true)
  | CPos.done => ∀ j, j < c.n → c.wpc j = 5 ∧ c.ctxValid j = false

structure HInv (c : Cfg) : Prop where
  w : ∀ j, j < c.n → WInv c j
  pos : PosInv c

/-- a function thread that has copied its context but not yet set `ready` still has a live context (the creator is
    spinning on that very flag) -/
def RInv (c : Cfg) : Prop := c.ctxFree = false → ∀ j, j < c.n → c.wpc j = 2 → c.ctxValid j = true

theorem init_rinv (n : Nat) (cf : Bool) : RInv (init n cf) := by
  intro _ j _ h; simp [init] at h

theorem init_inv (n : Nat) (cf : Bool) : HInv (init n cf) := by
  constructor
  · intro j _; simp [WInv, init]
  · unfold PosInv init
    by_cases h : n = 0
    · simp [h]
    · simp [h]; omega

theorem creator_step (c : Cfg) (hI : HInv c) (hb : c.bad = none) (he : enabled c none = true) :
    HInv (step c none) ∧ (step c none).bad = none := by
  obtain ⟨hw, hp⟩ := hI
  unfold step
  unfold enabled at he
  unfold PosInv at hp
  cases hc : c.cpos with
  | spawn k =>
    rw [hc] at hp
    simp only
    obtain ⟨hk, hall⟩ := hp
    by_cases hcf : c.ctxFree = true
    · rw [if_pos hcf]
      have hk0 := (hall k hk).2 (Nat.le_refl _)
      have hwk := hw k hk
      refine ⟨⟨?_, ?_⟩, hb⟩
      · intro j hj
        have := hw j hj
        unfold WInv at *
        simp only [upd]
        by_cases hjk : j = k
        · subst hjk; simp_all
        · simp only [hjk, if_false]; exact this
      · unfold PosInv
        simp only [upd]
        by_cases hn : k + 1 < c.n
        · simp only [hn, if_true]
          refine ⟨by first | trivial | exact hn, ?_⟩
          intro j hj
          have hj' := hall j hj
          refine ⟨?_, ?_⟩
          · intro h
            by_cases hjk : j = k
            · subst hjk; simp only [if_true]; exact ⟨by omega, hk0.2, by first | trivial | rfl⟩
            · simp only [hjk, if_false]; exact hj'.1 (by omega)
          · intro h; have : j ≠ k := by omega
            simp only [this, if_false]; exact hj'.2 (by omega)
        · simp only [hn, if_false]
          refine ⟨by omega, ?_⟩
          intro j hj
          have hj' := hall j hj
          by_cases hjk : j = k
          · subst hjk; simp only [if_true]
            exact ⟨by omega, hk0.2, by intro h; omega, fun _ => by first | trivial | rfl⟩
          · simp only [hjk, if_false]
            have := hj'.1 (by omega)
            exact ⟨this.1, this.2.1, by intro h; omega, fun _ => this.2.2⟩
    · rw [if_neg hcf]
      refine ⟨⟨?_, ?_⟩, hb⟩
      · intro j hj
        have := hw j hj
        have hj' := hall j hj
        unfold WInv at *
        simp only [upd]
        by_cases hjk : j = k
        · subst hjk
          have := (hj'.2 (Nat.le_refl _))
          simp_all
        · simp_all
      · unfold PosInv
        simp only [upd]
        refine ⟨hk, ?_⟩
        intro j hj
        have hj' := hall j hj
        refine ⟨?_, ?_, ?_⟩
        · intro h; have : j ≠ k := by omega
          simp only [this, if_false]; exact hj'.1 h
        · intro h; subst h; simp
        · intro h; have : j ≠ k := by omega
          simp only [this, if_false]; exact hj'.2 (by omega)
  | spin k =>
    rw [hc] at hp he
    simp only at he ⊢
    obtain ⟨hk, hall⟩ := hp
    rw [if_pos he]
    have hwk := hw k hk
    have hk3 : 3 ≤ c.wpc k := (hwk.1).mp he
    refine ⟨⟨?_, ?_⟩, hb⟩
    · intro j hj
      have := hw j hj
      unfold WInv at *
      exact this
    · unfold PosInv
      simp only [upd]
      by_cases hn : k + 1 < c.n
      · simp only [hn, if_true]
        refine ⟨by first | trivial | exact hn, ?_⟩
        intro j hj
        have hj' := hall j hj
        refine ⟨?_, ?_⟩
        · intro h
          by_cases hjk : j = k
          · subst hjk; simp only [if_true]; exact ⟨by omega, by first | trivial | rfl, (hj'.2.1 rfl).2.2⟩
          · simp only [hjk, if_false]; exact hj'.1 (by omega)
        · intro h; have : j ≠ k := by omega
          simp only [this, if_false]; exact hj'.2.2 (by omega)
      · simp only [hn, if_false]
        refine ⟨by omega, ?_⟩
        intro j hj
        have hj' := hall j hj
        by_cases hjk : j = k
        · subst hjk; simp only [if_true]
          exact ⟨by omega, by first | trivial | rfl, by intro h; omega, fun _ => (hj'.2.1 rfl).2.2⟩
        · simp only [hjk, if_false]
          have := hj'.1 (by omega)
          exact ⟨this.1, this.2.1, by intro h; omega, fun _ => this.2.2⟩
  | join k =>
    rw [hc] at hp he
    simp only at he ⊢
    obtain ⟨hk, hall⟩ := hp
    rw [if_pos he]
    refine ⟨⟨?_, ?_⟩, hb⟩
    · intro j hj; have := hw j hj; unfold WInv at *; exact this
    · unfold PosInv
      simp only
      exact ⟨hk, by simpa using he, hall⟩
  | del k =>
    rw [hc] at hp
    simp only
    obtain ⟨hk, hk5, hall⟩ := hp
    refine ⟨⟨?_, ?_⟩, hb⟩
    · intro j hj; have := hw j hj; unfold WInv at *; exact this
    · unfold PosInv
      simp only [upd]
      by_cases hn : k + 1 < c.n
      · simp only [hn, if_true]
        refine ⟨by first | trivial | exact hn, ?_⟩
        intro j hj
        have hj' := hall j hj
        refine ⟨hj'.1, hj'.2.1, ?_, ?_⟩
        · intro h
          by_cases hjk : j = k
          · subst hjk; simp [hk5]
          · simp only [hjk, if_false]; exact hj'.2.2.1 (by omega)
        · intro h; have : j ≠ k := by omega
          simp only [this, if_false]; exact hj'.2.2.2 (by omega)
      · simp only [hn, if_false]
        intro j hj
        have hj' := hall j hj
        by_cases hjk : j = k
        · subst hjk; exact ⟨hk5, hj'.2.1⟩
        · exact ⟨(hj'.2.2.1 (by omega)).1, hj'.2.1⟩
  | done =>
    rw [hc] at he; simp at he

/-- a worker step changes only that worker's own counters; positions of the creator are untouched -/
theorem posInv_of_wpc_mono (c c' : Cfg) (k : Nat) (hk : k < c.n)
    (hn : c'.n = c.n) (hcp : c'.cpos = c.cpos) (hcv : c'.ctxValid = c.ctxValid) (hoa : c'.objAlive = c.objAlive)
    (hw : ∀ j, j ≠ k → c'.wpc j = c.wpc j) (hp : PosInv c)
    (hk1 : c.wpc k ≤ c'.wpc k) (hk0 : 1 ≤ c.wpc k) (hk5 : c.wpc k = 5 → c'.wpc k = 5) : PosInv c' := by
  unfold PosInv at *
  rw [hcp, hn, hcv, hoa]
  cases hc : c.cpos with
  | spawn p =>
    rw [hc] at hp; simp only at hp ⊢
    refine ⟨hp.1, ?_⟩
    intro j hj
    have := hp.2 j hj
    by_cases hjk : j = k
    · subst hjk
      refine ⟨fun h => ?_, fun h => ?_⟩
      · obtain ⟨a1, a2⟩ := this.1 h; exact ⟨by omega, a2⟩
      · obtain ⟨a1, a2⟩ := this.2 h; omega
    · rw [hw j hjk]; exact this
  | spin p =>
    rw [hc] at hp; simp only at hp ⊢
    refine ⟨hp.1, ?_⟩
    intro j hj
    have := hp.2 j hj
    by_cases hjk : j = k
    · subst hjk
      refine ⟨fun h => ?_, fun h => ?_, fun h => ?_⟩
      · obtain ⟨a1, a2⟩ := this.1 h; exact ⟨by omega, a2⟩
      · obtain ⟨a1, a2⟩ := this.2.1 h; exact ⟨by omega, a2⟩
      · obtain ⟨a1, a2⟩ := this.2.2 h; omega
    · rw [hw j hjk]; exact this
  | join p =>
    rw [hc] at hp; simp only at hp ⊢
    refine ⟨hp.1, ?_⟩
    intro j hj
    have := hp.2 j hj
    by_cases hjk : j = k
    · subst hjk
      obtain ⟨b1, b2, b3, b4⟩ := this
      refine ⟨by omega, b2, fun h => ?_, b4⟩
      obtain ⟨a1, a2⟩ := b3 h; exact ⟨hk5 a1, a2⟩
    · rw [hw j hjk]; exact this
  | del p =>
    rw [hc] at hp; simp only at hp ⊢
    refine ⟨hp.1, ?_, ?_⟩
    · by_cases hpk : p = k
      · subst hpk; exact hk5 hp.2.1
      · rw [hw p hpk]; exact hp.2.1
    · intro j hj
      have := hp.2.2 j hj
      by_cases hjk : j = k
      · subst hjk
        obtain ⟨b1, b2, b3, b4⟩ := this
        refine ⟨by omega, b2, fun h => ?_, b4⟩
        obtain ⟨a1, a2⟩ := b3 h; exact ⟨hk5 a1, a2⟩
      · rw [hw j hjk]; exact this
  | done =>
    rw [hc] at hp; simp only at hp ⊢
    intro j hj
    have := hp j hj
    by_cases hjk : j = k
    · subst hjk; exact ⟨hk5 this.1, this.2⟩
    · rw [hw j hjk]; exact this

theorem worker_step (c : Cfg) (k : Nat) (hI : HInv c) (hr : RInv c) (hb : c.bad = none) (he : enabled c (some k) = true) :
    HInv (step c (some k)) ∧ (step c (some k)).bad = none := by
  obtain ⟨hw, hp⟩ := hI
  simp only [enabled, Bool.and_eq_true, decide_eq_true_eq] at he
  obtain ⟨⟨hk, h1⟩, h5⟩ := he
  have hwk := hw k hk
  unfold WInv at hwk
  -- what the creator's position says about worker k
  have hctx : c.wpc k = 1 → c.ctxValid k = true := by
    intro h
    unfold PosInv at hp
    cases hc : c.cpos with
    | spawn p => rw [hc] at hp; have := hp.2 k hk; by_cases hlt : k < p
                 · have := this.1 hlt; omega
                 · have := this.2 (by omega); omega
    | spin p => rw [hc] at hp; have := hp.2 k hk
                by_cases hlt : k < p
                · have := this.1 hlt; omega
                · by_cases heq : k = p
                  · exact (this.2.1 heq).2.1
                  · have := this.2.2 (by omega); omega
    | join p => rw [hc] at hp; have := hp.2 k hk; omega
    | del p => rw [hc] at hp; have := hp.2.2 k hk; omega
    | done => rw [hc] at hp; have := hp k hk; omega
  have hobj : c.wpc k = 4 → c.objAlive k = true := by
    intro h
    unfold PosInv at hp
    cases hc : c.cpos with
    | spawn p => rw [hc] at hp; have := hp.2 k hk; by_cases hlt : k < p
                 · exact (this.1 hlt).2.2
                 · have := this.2 (by omega); omega
    | spin p => rw [hc] at hp; have := hp.2 k hk
                by_cases hlt : k < p
                · exact (this.1 hlt).2.2
                · by_cases heq : k = p
                  · exact (this.2.1 heq).2.2
                  · have := this.2.2 (by omega); omega
    | join p => rw [hc] at hp; have := hp.2 k hk
                by_cases hlt : k < p
                · have := this.2.2.1 hlt; omega
                · exact this.2.2.2 (by omega)
    | del p => rw [hc] at hp; have := hp.2.2 k hk
               by_cases hlt : k < p
               · have := this.2.2.1 hlt; omega
               · exact this.2.2.2 (by omega)
    | done => rw [hc] at hp; have := hp k hk; omega
  have hcases : c.wpc k = 1 ∨ c.wpc k = 2 ∨ c.wpc k = 3 ∨ c.wpc k = 4 := by
    omega
  unfold step
  dsimp only
  rcases hcases with h | h | h | h
  · rw [if_pos h, if_pos (hctx h)]
    refine ⟨⟨?_, ?_⟩, hb⟩
    · intro j hj
      have := hw j hj
      unfold WInv at *
      simp only [upd]
      by_cases hjk : j = k
      · subst hjk; simp_all
      · simp only [hjk, if_false]; exact this
    · exact posInv_of_wpc_mono c _ k hk rfl rfl rfl rfl (fun j hj => by simp [upd, hj]) hp (by simp [upd, h]) (by omega) (by omega)
  · have hcv : (c.ctxFree || c.ctxValid k) = true := by
      by_cases hcf : c.ctxFree = true
      · simp [hcf]
      · have : c.ctxFree = false := by simpa using hcf
        simp [hr this k hk h]
    rw [if_neg (by omega), if_pos h, if_pos hcv]
    refine ⟨⟨?_, ?_⟩, hb⟩
    · intro j hj
      have := hw j hj
      unfold WInv at *
      simp only [upd]
      by_cases hjk : j = k
      · subst hjk; simp_all
      · simp only [hjk, if_false]; exact this
    · exact posInv_of_wpc_mono c _ k hk rfl rfl rfl rfl (fun j hj => by simp [upd, hj]) hp (by simp [upd, h]) (by omega) (by omega)
  · rw [if_neg (by omega), if_neg (by omega), if_pos h]
    refine ⟨⟨?_, ?_⟩, hb⟩
    · intro j hj
      have := hw j hj
      unfold WInv at *
      simp only [upd]
      by_cases hjk : j = k
      · subst hjk; simp_all
      · simp only [hjk, if_false]; exact this
    · exact posInv_of_wpc_mono c _ k hk rfl rfl rfl rfl (fun j hj => by simp [upd, hj]) hp (by simp [upd, h]) (by omega) (by omega)
  · rw [if_neg (by omega), if_neg (by omega), if_neg (by omega), if_pos h, if_pos (hobj h)]
    refine ⟨⟨?_, ?_⟩, hb⟩
    · intro j hj
      have := hw j hj
      unfold WInv at *
      simp only [upd]
      by_cases hjk : j = k
      · subst hjk; simp_all
      · simp only [hjk, if_false]; exact this
    · exact posInv_of_wpc_mono c _ k hk rfl rfl rfl rfl (fun j hj => by simp [upd, hj]) hp (by simp [upd, h]) (by omega) (by omega)

theorem rinv_step (c : Cfg) (a : Option Nat) (hI : HInv c) (hr : RInv c) (he : enabled c a = true) : RInv (step c a) := by
  obtain ⟨hw, hp⟩ := hI
  cases a with
  | none =>
    unfold step
    unfold enabled at he
    cases hc : c.cpos with
    | spawn k =>
      simp only
      by_cases hcf : c.ctxFree = true
      · rw [if_pos hcf]; intro h; simp [hcf] at h
      · rw [if_neg hcf]
        intro hf j hj h2
        simp only [upd] at h2 ⊢
        by_cases hjk : j = k
        · subst hjk; simp at h2
        · simp only [hjk, if_false] at h2 ⊢; exact hr hf j hj h2
    | spin k =>
      rw [hc] at he
      simp only at he ⊢
      rw [if_pos he]
      intro hf j hj h2
      simp only [upd] at h2 ⊢
      by_cases hjk : j = k
      · subst hjk
        have := ((hw j hj).1).mp he
        omega
      · simp only [hjk, if_false]; exact hr hf j hj h2
    | join k =>
      rw [hc] at he; simp only at he ⊢; rw [if_pos he]; exact hr
    | del k => simp only; exact hr
    | done => simp only; exact hr
  | some k =>
    unfold step
    dsimp only
    by_cases h1 : c.wpc k = 1
    · rw [if_pos h1]
      by_cases hv : c.ctxValid k = true
      · rw [if_pos hv]
        intro hf j hj h2
        simp only [upd] at h2 ⊢
        by_cases hjk : j = k
        · subst hjk; exact hv
        · simp only [hjk, if_false] at h2; exact hr hf j hj h2
      · rw [if_neg hv]; exact hr
    · rw [if_neg h1]
      by_cases h2 : c.wpc k = 2
      · rw [if_pos h2]
        split
        · intro hf j hj hj2
          simp only [upd] at hj2 ⊢
          by_cases hjk : j = k
          · subst hjk; simp at hj2
          · simp only [hjk, if_false] at hj2; exact hr hf j hj hj2
        · exact hr
      · rw [if_neg h2]
        by_cases h3 : c.wpc k = 3
        · rw [if_pos h3]
          intro hf j hj hj2
          simp only [upd] at hj2 ⊢
          by_cases hjk : j = k
          · subst hjk; simp at hj2
          · simp only [hjk, if_false] at hj2; exact hr hf j hj hj2
        · rw [if_neg h3]
          by_cases h4 : c.wpc k = 4
          · rw [if_pos h4]
            split
            · intro hf j hj hj2
              simp only [upd] at hj2 ⊢
              by_cases hjk : j = k
              · subst hjk; simp at hj2
              · simp only [hjk, if_false] at hj2; exact hr hf j hj hj2
            · exact hr
          · rw [if_neg h4]; exact hr

theorem step_inv (c : Cfg) (a : Option Nat) (hI : HInv c) (hr : RInv c) (hb : c.bad = none) (he : enabled c a = true) :
    HInv (step c a) ∧ RInv (step c a) ∧ (step c a).bad = none := by
  have hr' := rinv_step c a hI hr he
  cases a with
  | none => obtain ⟨a1, a2⟩ := creator_step c hI hb he; exact ⟨a1, hr', a2⟩
  | some k => obtain ⟨a1, a2⟩ := worker_step c k hI hr hb he; exact ⟨a1, hr', a2⟩

theorem run_inv2 (s : List (Option Nat)) (c : Cfg) (hI : HInv c) (hr : RInv c) (hb : c.bad = none) :
    HInv (run c s) ∧ RInv (run c s) ∧ (run c s).bad = none := by
  induction s generalizing c with
  | nil => exact ⟨hI, hr, hb⟩
  | cons a s ih =>
    unfold run
    by_cases he : enabled c a = true
    · simp only [he, hb, Option.isNone_none, Bool.and_self, if_true]
      obtain ⟨h1, h2, h3⟩ := step_inv c a hI hr hb he
      exact ih _ h1 h2 h3
    · simp only [he, Bool.false_and]
      exact ih c hI hr hb

theorem run_inv (s : List (Option Nat)) (c : Cfg) (hI : HInv c) (hr : RInv c) (hb : c.bad = none) :
    HInv (run c s) ∧ (run c s).bad = none := by
  obtain ⟨a, _, b⟩ := run_inv2 s c hI hr hb
  exact ⟨a, b⟩

theorem run_n (s : List (Option Nat)) (c : Cfg) : (run c s).n = c.n := by
  induction s generalizing c with
  | nil => rfl
  | cons a s ih =>
    unfold run
    split
    · rw [ih]
      unfold step
      cases a with
      | none => dsimp only; split <;> (try split) <;> rfl
      | some k =>
        dsimp only
        by_cases h1 : c.wpc k = 1 <;> by_cases h2 : c.wpc k = 2 <;> by_cases h3 : c.wpc k = 3 <;> by_cases h4 : c.wpc k = 4 <;>
          by_cases h5 : c.ctxValid k = true <;> by_cases h6 : c.objAlive k = true <;> by_cases h7 : c.ctxFree = true <;> simp [h1, h2, h3, h4, h5, h6, h7]
    · exact ih c

end Handover
section Sync
open AslModel.Thread.Sync


/-- posts are never lost: what was posted is either still in the count or was consumed by a completed wait -/
theorem sem_conserved (s : Sem) (ops : List SemOp) :
    (s.run ops).count + (s.run ops).waits + s.posts = s.count + s.waits + (s.run ops).posts := by
  induction ops generalizing s with
  | nil => simp [Sem.run]
  | cons o r ih =>
    cases o with
    | post => simp only [Sem.run]; have := ih s.post; simp only [Sem.post] at this ⊢; omega
    | wait =>
      simp only [Sem.run]; have := ih s.wait
      unfold Sem.wait at this ⊢
      by_cases h : 0 < s.count
      · simp only [h, if_true] at this ⊢; omega
      · simp only [h, if_false] at this ⊢; omega

def CInv (c : Cond) : Prop :=
  (c.w = WPc.sleeping → c.s = SPc.start ∨ c.s = SPc.locked ∨ c.s = SPc.predSet) ∧
  (c.mutex = some true ↔ c.w = WPc.locked) ∧
  (c.mutex = some false ↔ (c.s = SPc.locked ∨ c.s = SPc.predSet ∨ c.s = SPc.signalled)) ∧
  (c.pred = true ↔ (c.s = SPc.predSet ∨ c.s = SPc.signalled ∨ c.s = SPc.done)) ∧
  c.w ≠ WPc.relocked

theorem cinv_init : CInv Cond.init := by
  simp [CInv, Cond.init]

theorem cinv_step (c : Cond) (a : Bool) (h : CInv c) (he : c.enabled a = true) : CInv (c.step a) := by
  obtain ⟨m, p, w, s⟩ := c
  unfold CInv at *
  cases a <;> cases w <;> cases s <;> cases m <;> cases p <;>
    simp_all [Cond.step, Cond.enabled] <;> (try (rename_i b; cases b <;> simp_all))

theorem cinv_run (c : Cond) (s : List Bool) (h : CInv c) : CInv (c.run s) := by
  induction s generalizing c with
  | nil => exact h
  | cons a r ih =>
    unfold Cond.run
    by_cases he : c.enabled a = true
    · simp only [he, if_true]; exact ih _ (cinv_step c a h he)
    · simp only [he]; exact ih c h

end Sync

/-! ## condition variable, any number of waiters -/
section SyncN
open AslModel.Thread.Sync AslModel.Thread.SyncN

structure NInv (c : CondN) : Prop where
  sleepOk : ∀ i, c.w i = WPc.sleeping → (c.s = SPc.start ∨ c.s = SPc.locked ∨ c.s = SPc.predSet)
  wHolds : ∀ i, c.mutex = Holder.waiter i ↔ c.w i = WPc.locked
  sHolds : c.mutex = Holder.signaler ↔ (c.s = SPc.locked ∨ c.s = SPc.predSet ∨ c.s = SPc.signalled)
  predIff : c.pred = true ↔ (c.s = SPc.predSet ∨ c.s = SPc.signalled ∨ c.s = SPc.done)
  noRelocked : ∀ i, c.w i ≠ WPc.relocked
  holderLt : ∀ j, c.mutex = Holder.waiter j → j < c.n

theorem ninv_init (n : Nat) : NInv (init n) := by
  refine ⟨by simp [init], by simp [init], by simp [init], by simp [init], by simp [init], by simp [init]⟩

theorem ninv_step (c : CondN) (a : Option Nat) (h : NInv c) (he : enabled c a = true) : NInv (step c a) := by
  obtain ⟨h1, h2, h3, h4, h5, h6⟩ := h
  cases a with
  | some i =>
    simp only [enabled, Bool.and_eq_true, decide_eq_true_eq] at he
    obtain ⟨hi, he⟩ := he
    unfold step
    cases hw : c.w i with
    | start =>
      rw [hw] at he; simp only [beq_iff_eq] at he
      simp only [hw]
      refine ⟨?_, ?_, ?_, h4, ?_, ?_⟩
      · intro j hj; simp only [upd] at hj; by_cases hji : j = i
        · subst hji; simp at hj
        · simp only [hji, if_false] at hj; exact h1 j hj
      · intro j; simp only [upd]; by_cases hji : j = i
        · subst hji; simp
        · simp only [hji, if_false]
          constructor
          · intro hx; injection hx with hx; exact absurd hx.symm hji
          · intro hx; have := (h2 j).mpr hx; rw [he] at this; cases this
      · simp only; rw [← h3, he]; simp
      · intro j; simp only [upd]; by_cases hji : j = i
        · subst hji; simp
        · simp only [hji, if_false]; exact h5 j
      · intro j hx; simp only at hx; injection hx with hx; subst hx; exact hi
    | locked =>
      have hm : c.mutex = Holder.waiter i := (h2 i).mpr hw
      have hs : ¬ (c.s = SPc.locked ∨ c.s = SPc.predSet ∨ c.s = SPc.signalled) := by
        intro hx; have := h3.mpr hx; rw [hm] at this; cases this
      simp only [hw]
      by_cases hp : c.pred = true
      · simp only [hp, if_true]
        refine ⟨?_, ?_, ?_, by simpa [hp] using h4, ?_, ?_⟩
        · intro j hj; simp only [upd] at hj; by_cases hji : j = i
          · subst hji; simp at hj
          · simp only [hji, if_false] at hj; exact h1 j hj
        · intro j; simp only [upd]; by_cases hji : j = i
          · subst hji; simp
          · simp only [hji, if_false]
            constructor
            · intro hx; cases hx
            · intro hx; have := (h2 j).mpr hx; rw [hm] at this; injection this with this; exact absurd this.symm hji
        · simp only; constructor
          · intro hx; cases hx
          · intro hx; exact absurd hx hs
        · intro j; simp only [upd]; by_cases hji : j = i
          · subst hji; simp
          · simp only [hji, if_false]; exact h5 j
        · intro j hx; cases hx
      · have hp' : c.pred = false := by simpa using hp
        simp only [hp', Bool.false_eq_true, if_false]
        have hsd : c.s ≠ SPc.done := by
          intro hx; have := h4.mpr (Or.inr (Or.inr hx)); rw [hp'] at this; cases this
        refine ⟨?_, ?_, ?_, by simpa [hp'] using h4, ?_, ?_⟩
        · intro j hj; simp only [upd] at hj; by_cases hji : j = i
          · -- the waiter goes to sleep holding the mutex with pred false: the signaler has not started
            cases hsc : c.s with
            | start => exact Or.inl rfl
            | locked => exact Or.inr (Or.inl rfl)
            | predSet => exact Or.inr (Or.inr rfl)
            | signalled => exact absurd (Or.inr (Or.inr hsc)) hs
            | done => exact absurd hsc hsd
          · simp only [hji, if_false] at hj; exact h1 j hj
        · intro j; simp only [upd]; by_cases hji : j = i
          · subst hji; simp
          · simp only [hji, if_false]
            constructor
            · intro hx; cases hx
            · intro hx; have := (h2 j).mpr hx; rw [hm] at this; injection this with this; exact absurd this.symm hji
        · simp only; constructor
          · intro hx; cases hx
          · intro hx; exact absurd hx hs
        · intro j; simp only [upd]; by_cases hji : j = i
          · subst hji; simp
          · simp only [hji, if_false]; exact h5 j
        · intro j hx; cases hx
    | woken =>
      rw [hw] at he; simp only [beq_iff_eq] at he
      simp only [hw]
      refine ⟨?_, ?_, ?_, h4, ?_, ?_⟩
      · intro j hj; simp only [upd] at hj; by_cases hji : j = i
        · subst hji; simp at hj
        · simp only [hji, if_false] at hj; exact h1 j hj
      · intro j; simp only [upd]; by_cases hji : j = i
        · subst hji; simp
        · simp only [hji, if_false]
          constructor
          · intro hx; injection hx with hx; exact absurd hx.symm hji
          · intro hx; have := (h2 j).mpr hx; rw [he] at this; cases this
      · simp only; rw [← h3, he]; simp
      · intro j; simp only [upd]; by_cases hji : j = i
        · subst hji; simp
        · simp only [hji, if_false]; exact h5 j
      · intro j hx; simp only at hx; injection hx with hx; subst hx; exact hi
    | sleeping => rw [hw] at he; cases he
    | relocked => rw [hw] at he; cases he
    | done => rw [hw] at he; cases he
  | none =>
    simp only [enabled] at he
    unfold step
    cases hs : c.s with
    | start =>
      rw [hs] at he; simp only [beq_iff_eq] at he
      simp only [hs]
      refine ⟨?_, ?_, by simp, ?_, h5, by intro j hx; cases hx⟩
      · intro j hj; exact Or.inr (Or.inl rfl)
      · intro j; constructor
        · intro hx; cases hx
        · intro hx; have := (h2 j).mpr hx; rw [he] at this; cases this
      · simp only; rw [h4, hs]; simp
    | locked =>
      simp only [hs]
      refine ⟨?_, h2, by rw [h3, hs]; simp, by simp, h5, h6⟩
      intro j hj; exact Or.inr (Or.inr rfl)
    | predSet =>
      simp only [hs]
      refine ⟨?_, ?_, by rw [h3, hs]; simp, by rw [h4, hs]; simp, ?_, h6⟩
      · intro j hj
        by_cases hx : c.w j = WPc.sleeping
        · simp [hx] at hj
        · simp only [hx, if_false] at hj
      · intro j
        by_cases hx : c.w j = WPc.sleeping
        · simp only [hx, if_true]
          constructor
          · intro hy; have := (h2 j).mp hy; rw [hx] at this; cases this
          · intro hy; cases hy
        · simp only [hx, if_false]; exact h2 j
      · intro j
        by_cases hx : c.w j = WPc.sleeping
        · simp [hx]
        · simp only [hx, if_false]; exact h5 j
    | signalled =>
      have hm : c.mutex = Holder.signaler := h3.mpr (Or.inr (Or.inr hs))
      simp only [hs]
      refine ⟨?_, ?_, by simp, by rw [h4, hs]; simp, h5, by intro j hx; cases hx⟩
      · intro j hj; have := h1 j hj; rw [hs] at this; simp at this
      · intro j; constructor
        · intro hx; cases hx
        · intro hx; have := (h2 j).mpr hx; rw [hm] at this; cases this
    | done => rw [hs] at he; cases he

theorem ninv_run (c : CondN) (r : List (Option Nat)) (h : NInv c) : NInv (run c r) := by
  induction r generalizing c with
  | nil => exact h
  | cons a r ih =>
    unfold run
    by_cases he : enabled c a = true
    · simp only [he, if_true]; exact ih _ (ninv_step c a h he)
    · simp only [he]; exact ih c h

theorem condn_step_n (c : CondN) (a : Option Nat) : (step c a).n = c.n := by
  cases a with
  | some i => simp only [step]; split <;> (try split) <;> rfl
  | none => simp only [step]; split <;> rfl

theorem condn_run_n (c : CondN) (r : List (Option Nat)) : (run c r).n = c.n := by
  induction r generalizing c with
  | nil => rfl
  | cons a r ih =>
    unfold run
    split
    · rw [ih, condn_step_n]
    · exact ih c

end SyncN
end AslProofs.Thread
