import AslModel.ThreadEnd
/-! Invariant proofs for the thread start fence and thread end models (C13). Core Lean only. -/
namespace AslProofs.ThreadFence
open AslModel.ThreadFence

structure FInv (c : Cfg) : Prop where
  f : c.fenced = true
  rl : c.ready = true → c.loads = 0
  lr : c.creatorLeft = true → c.ready = true
  ns : c.stale = false

theorem init_inv (k : Nat) : FInv (init k true) := ⟨rfl, by simp [init], by simp [init], rfl⟩

theorem step_inv (c : Cfg) (a : Act) (h : FInv c) (he : enabled c a = true) : FInv (step c a) := by
  obtain ⟨f, rl, lr, ns⟩ := h
  cases a with
  | load =>
    simp only [enabled, decide_eq_true_eq] at he
    have hr : c.ready = false := by
      cases hx : c.ready with
      | false => rfl
      | true => have := rl hx; omega
    have hl : c.creatorLeft = false := by
      cases hx : c.creatorLeft with
      | false => rfl
      | true => have := lr hx; rw [hr] at this; cases this
    exact ⟨f, by simp [step, hr], by simp [step, hl], by simp [step, ns, hl]⟩
  | store =>
    simp only [enabled, Bool.and_eq_true, Bool.not_eq_true', Bool.or_eq_true, beq_iff_eq] at he
    have h0 : c.loads = 0 := by
      rcases he.2 with h | h
      · rw [f] at h; cases h
      · exact h
    exact ⟨f, fun _ => h0, fun _ => rfl, ns⟩
  | leave =>
    simp only [enabled, Bool.and_eq_true, Bool.not_eq_true'] at he
    exact ⟨f, rl, fun _ => he.1, ns⟩

theorem run_inv (r : List Act) (c : Cfg) (h : FInv c) : FInv (run c r) := by
  induction r generalizing c with
  | nil => exact h
  | cons a r ih =>
    unfold run
    by_cases he : enabled c a = true
    · simp only [he, if_true]; exact ih _ (step_inv c a h he)
    · simp only [he]; exact ih c h

end AslProofs.ThreadFence

namespace AslProofs.ThreadEnd
open AslModel.ThreadEnd

/-- the invariant of the current code (`endedFirst`, `holdsState`), as a decidable predicate -/
def inv (c : Cfg) : Bool :=
  c.endedFirst && c.holdsState && !c.bad && decide (c.wpc ≤ 4) && decide (c.owner ≤ 2) &&
  decide (c.stateRefs = (if c.objAlive then 1 else 0) + (if c.wpc < 4 then 1 else 0)) &&
  (!c.finished || decide (3 ≤ c.wpc)) &&
  (if c.selfOwned then decide (c.owner = 0) && (c.objAlive == decide (c.wpc ≤ 1))
   else (c.objAlive == decide (c.owner ≠ 2)) && (decide (c.owner = 0) || c.finished))

theorem init_inv (so : Bool) : inv (init true true so) = true := by
  cases so <;> decide

/-- a configuration with the invariant has small control fields: enumerate them -/
theorem step_inv (c : Cfg) (a : Act) (h : inv c = true) (he : enabled c a = true) : inv (step c a) = true := by
  obtain ⟨ef, hs, so, wpc, oa, sr, fin, ow, bad⟩ := c
  have hw : wpc ≤ 4 := by
    simp only [inv, Bool.and_eq_true, decide_eq_true_eq] at h; omega
  have ho : ow ≤ 2 := by
    simp only [inv, Bool.and_eq_true, decide_eq_true_eq] at h; omega
  have hr : sr ≤ 2 := by
    simp only [inv, Bool.and_eq_true, decide_eq_true_eq] at h
    have := h.1.1.2
    split at this <;> split at this <;> omega
  have e1 : wpc = 0 ∨ wpc = 1 ∨ wpc = 2 ∨ wpc = 3 ∨ wpc = 4 := by omega
  have e2 : ow = 0 ∨ ow = 1 ∨ ow = 2 := by omega
  have e3 : sr = 0 ∨ sr = 1 ∨ sr = 2 := by omega
  rcases e1 with rfl | rfl | rfl | rfl | rfl <;> rcases e2 with rfl | rfl | rfl <;> rcases e3 with rfl | rfl | rfl <;>
    cases ef <;> cases hs <;> cases so <;> cases oa <;> cases fin <;> cases bad <;>
    first
    | (exfalso; revert h; decide)
    | (cases a <;> first | (exfalso; revert he; decide) | decide)

theorem run_inv (r : List Act) (c : Cfg) (h : inv c = true) : inv (run c r) = true := by
  induction r generalizing c with
  | nil => exact h
  | cons a r ih =>
    unfold run
    by_cases he : enabled c a = true
    · simp only [he, if_true]; exact ih _ (step_inv c a h he)
    · simp only [he]; exact ih c h

theorem inv_not_bad (c : Cfg) (h : inv c = true) : c.bad = false := by
  simp only [inv, Bool.and_eq_true, Bool.not_eq_true'] at h
  exact h.1.1.1.1.1.2

theorem inv_refs (c : Cfg) (h : inv c = true) :
    c.stateRefs = (if c.objAlive then 1 else 0) + (if c.wpc < 4 then 1 else 0) := by
  simp only [inv, Bool.and_eq_true, decide_eq_true_eq] at h
  exact h.1.1.2

end AslProofs.ThreadEnd

namespace AslProofs.ThreadCopies
open AslModel.ThreadCopies

structure CInv (c : Cfg) : Prop where
  nb : c.bad = false
  rc : c.refs = c.objs + (if c.worker < 2 then 1 else 0)
  al : c.stateAlive = decide (0 < c.refs)
  fr : c.frees = (if c.stateAlive then 0 else 1)
  fl : c.finished = decide (1 ≤ c.worker)
  wk : c.worker ≤ 2

theorem init_inv : CInv init := ⟨rfl, rfl, rfl, rfl, rfl, by decide⟩

theorem unref_inv (c : Cfg) (o w : Nat) (hb : c.bad = false) (hr : c.refs = o + w + 1)
    (hal : c.stateAlive = true) (hf : c.frees = 0) :
    (unref c).bad = false ∧ (unref c).refs = o + w ∧ (unref c).stateAlive = decide (0 < o + w) ∧
    (unref c).frees = (if (unref c).stateAlive then 0 else 1) ∧ (unref c).finished = c.finished ∧
    (unref c).objs = c.objs ∧ (unref c).worker = c.worker := by
  unfold unref
  have h0 : ¬ ((!c.stateAlive || c.refs == 0) = true) := by simp [hal]; omega
  rw [if_neg h0]
  by_cases h1 : c.refs = 1
  · have : (c.refs == 1) = true := by simp [h1]
    rw [if_pos this]
    have : o + w = 0 := by omega
    simp [hb, this, hf]
  · have : ¬ ((c.refs == 1) = true) := by simp [h1]
    rw [if_neg this]
    have hp : 0 < o + w := by omega
    simp [hb, hal, hf, hp]; omega

theorem step_inv (c : Cfg) (a : Act) (h : CInv c) (he : enabled c a = true) : CInv (step c a) := by
  obtain ⟨nb, rc, al, fr, fl, wk⟩ := h
  cases a with
  | copy =>
    simp only [enabled, Bool.and_eq_true, decide_eq_true_eq] at he
    have hal : c.stateAlive = true := by rw [al]; simp; omega
    simp only [step, hal, if_true]
    refine ⟨nb, by simp only []; omega, by show true = decide (0 < c.refs + 1); simp, by simpa [hal] using fr, fl, wk⟩
  | finish =>
    simp only [enabled, Bool.and_eq_true, beq_iff_eq] at he
    have hal : c.stateAlive = true := by rw [al]; simp; rw [rc, he.1]; simp
    simp only [step, hal, if_true]
    refine ⟨nb, by show c.refs = c.objs + _; rw [rc, he.1]; simp, by show true = decide (0 < c.refs); rw [← al]; exact hal.symm, by simpa [hal] using fr, by simp, by simp⟩
  | drop =>
    simp only [enabled, Bool.and_eq_true, decide_eq_true_eq] at he
    have hal : c.stateAlive = true := by rw [al]; simp; omega
    have hf0 : c.frees = 0 := by rw [fr, hal]; rfl
    obtain ⟨a1, a2, a3, a4, a5, a6, a7⟩ := unref_inv { c with objs := c.objs - 1 } (c.objs - 1) (if c.worker < 2 then 1 else 0) nb
      (by show c.refs = _; omega) hal hf0
    simp only [step]
    refine ⟨a1, by rw [a2, a6, a7], by rw [a3, a2], a4, by rw [a5, a7]; exact fl, by rw [a7]; exact wk⟩
  | release =>
    simp only [enabled, Bool.and_eq_true, beq_iff_eq] at he
    have hal : c.stateAlive = true := by rw [al]; simp; rw [rc, he.1]; simp
    have hf0 : c.frees = 0 := by rw [fr, hal]; rfl
    obtain ⟨a1, a2, a3, a4, a5, a6, a7⟩ := unref_inv { c with worker := 2 } c.objs 0 nb
      (by show c.refs = _; rw [rc, he.1]; simp) hal hf0
    simp only [step]
    refine ⟨a1, by rw [a2, a6, a7]; simp, by rw [a3, a2], a4, by rw [a5, a7]; simp [fl, he.1], by rw [a7]; exact Nat.le_refl 2⟩

theorem run_inv (r : List Act) (c : Cfg) (h : CInv c) : CInv (run c r) := by
  induction r generalizing c with
  | nil => exact h
  | cons a r ih =>
    unfold run
    by_cases he : enabled c a = true
    · simp only [he, if_true]; exact ih _ (step_inv c a h he)
    · simp only [he]; exact ih c h

end AslProofs.ThreadCopies
