import AslModel.ThreadEnd
/-! Invariant proofs for the thread start fence and thread end models (C13). Core Lean only. -/
namespace AslProofs.ThreadFence
open AslModel.ThreadFence

structure FInv (c : Cfg) : Prop where
  f : c.fenced = true
  rl : c.ready = true → c.loads = 0
  lr : c.creatorLeft = true → c.ready = true
  ns : c.stale = false

theorem init_inv (k : Nat) : FInv (init k true) := ⟨rfl, by simp [init], by simp [init], rfl⟩

theorem step_inv (c : Cfg) (a : Act) (h : FInv c) (he : enabled c a = true) : FInv (step c a) := by
  obtain ⟨f, rl, lr, ns⟩ := h
  cases a with
  | load =>
    simp only [enabled, decide_eq_true_eq] at he
    have hr : c.ready = false := by
      cases hx : c.ready with
      | false => rfl
      | true => have := rl hx; omega
    have hl : c.creatorLeft = false := by
      cases hx : c.creatorLeft with
      | false => rfl
      | true => have := lr hx; rw [hr] at this; cases this
    exact ⟨f, by simp [step, hr], by simp [step, hl], by simp [step, ns, hl]⟩
  | store =>
    simp only [enabled, Bool.and_eq_true, Bool.not_eq_true', Bool.or_eq_true, beq_iff_eq] at he
    have h0 : c.loads = 0 := by
      rcases he.2 with h | h
      · rw [f] at h; cases h
      · exact h
    exact ⟨f, fun _ => h0, fun _ => rfl, ns⟩
  | leave =>
    simp only [enabled, Bool.and_eq_true, Bool.not_eq_true'] at he
    exact ⟨f, rl, fun _ => he.1, ns⟩

theorem run_inv (r : List Act) (c : Cfg) (h : FInv c) : FInv (run c r) := by
  induction r generalizing c with
  | nil => exact h
  | cons a r ih =>
    unfold run
    by_cases he : enabled c a = true
    · simp only [he, if_true]; exact ih _ (step_inv c a h he)
    · simp only [he]; exact ih c h

end AslProofs.ThreadFence

namespace AslProofs.ThreadEnd
open AslModel.ThreadEnd

/-- the invariant of the current code (`endedFirst`, `holdsState`), as a decidable predicate -/
def inv (c : Cfg) : Bool :=
  c.endedFirst && c.holdsState && !c.bad && decide (c.wpc ≤ 4) && decide (c.owner ≤ 2) &&
  decide (c.stateRefs = (if c.objAlive then 1 else 0) + (if c.wpc < 4 then 1 else 0)) &&
  (!c.finished || decide (3 ≤ c.wpc)) &&
  (if c.selfOwned then decide (c.owner = 0) && (c.objAlive == decide (c.wpc ≤ 1))
   else (c.objAlive == decide (c.owner ≠ 2)) && (decide (c.owner = 0) || c.finished))

theorem init_inv (so : Bool) : inv (init true true so) = true := by
  cases so <;> decide

/-- a configuration with the invariant has small control fields: enumerate them -/
theorem step_inv (c : Cfg) (a : Act) (h : inv c = true) (he : enabled c a = true) : inv (step c a) = true := by
  obtain ⟨ef, hs, so, wpc, oa, sr, fin, ow, bad⟩ := c
  have hw : wpc ≤ 4 := by
    simp only [inv, Bool.and_eq_true, decide_eq_true_eq] at h; omega
  have ho : ow ≤ 2 := by
    simp only [inv, Bool.and_eq_true, decide_eq_true_eq] at h; omega
  have hr : sr ≤ 2 := by
    simp only [inv, Bool.and_eq_true, decide_eq_true_eq] at h
    have := h.1.1.2
    split at this <;> split at this <;> omega
  have e1 : wpc = 0 ∨ wpc = 1 ∨ wpc = 2 ∨ wpc = 3 ∨ wpc = 4 := by omega
  have e2 : ow = 0 ∨ ow = 1 ∨ ow = 2 := by omega
  have e3 : sr = 0 ∨ sr = 1 ∨ sr = 2 := by omega
  rcases e1 with rfl | rfl | rfl | rfl | rfl <;> rcases e2 with rfl | rfl | rfl <;> rcases e3 with rfl | rfl | rfl <;>
    cases ef <;> cases hs <;> cases so <;> cases oa <;> cases fin <;> cases bad <;>
    first
    | (exfalso; revert h; decide)
    | (cases a <;> first | (exfalso; revert he; decide) | decide)

theorem run_inv (r : List Act) (c : Cfg) (h : inv c = true) : inv (run c r) = true := by
  induction r generalizing c with
  | nil => exact h
  | cons a r ih =>
    unfold run
    by_cases he : enabled c a = true
    · simp only [he, if_true]; exact ih _ (step_inv c a h he)
    · simp only [he]; exact ih c h

theorem inv_not_bad (c : Cfg) (h : inv c = true) : c.bad = false := by
  simp only [inv, Bool.and_eq_true, Bool.not_eq_true'] at h
  exact h.1.1.1.1.1.2

theorem inv_refs (c : Cfg) (h : inv c = true) :
    c.stateRefs = (if c.objAlive then 1 else 0) + (if c.wpc < 4 then 1 else 0) := by
  simp only [inv, Bool.and_eq_true, decide_eq_true_eq] at h
  exact h.1.1.2

end AslProofs.ThreadEnd
