/-
  C13 — invariant of repeated start/join rounds (`AslModel/ThreadRounds.lean`).
-/
import AslModel.ThreadRounds

namespace AslProofs.ThreadRounds
open AslModel.Thread.Rounds

def Before (c : Cfg) (i : Nat) : Prop := c.ph i = WPh.idle ∧ c.runs i = c.rounds
def During (c : Cfg) (i : Nat) : Prop :=
  (c.ph i = WPh.running ∧ c.runs i = c.rounds) ∨ (c.ph i = WPh.ended ∧ c.runs i = c.rounds + 1)
def After (c : Cfg) (i : Nat) : Prop := c.ph i = WPh.idle ∧ c.runs i = c.rounds + 1

structure RInv (c : Cfg) : Prop where
  noFlag : c.joinUsesFlag = false
  notEarly : c.early = false
  flagIff : ∀ i, c.flag i = true ↔ 1 ≤ c.runs i
  starting : ∀ j, c.cpc = CPc.starting j → j ≤ c.n ∧ ∀ i, i < c.n → (i < j → During c i) ∧ (j ≤ i → Before c i)
  joining : ∀ j, c.cpc = CPc.joining j → j ≤ c.n ∧ ∀ i, i < c.n → (i < j → After c i) ∧ (j ≤ i → During c i)

theorem rinv_init (n : Nat) : RInv (init n false) := by
  constructor <;> simp [init, Before, During, After]

theorem rinv_step (c : Cfg) (a : Act) (h : RInv c) (he : enabled c a = true) : RInv (step c a) := by
  obtain ⟨h1, h2, h3, h4, h5⟩ := h
  cases a with
  | creator =>
    cases hc : c.cpc with
    | starting j =>
      have ⟨hj, hall⟩ := h4 j hc
      simp only [step, hc]
      by_cases hjn : j < c.n
      · simp only [hjn, if_true]
        refine ⟨h1, h2, h3, ?_, ?_⟩
        · intro j' hj'
          have e : j' = j + 1 := by injection hj' with e; exact e.symm
          subst e
          refine ⟨by dsimp only; omega, ?_⟩
          intro i hi
          dsimp only at hi
          by_cases hij : i = j
          · subst hij
            have hb := (hall i hi).2 (Nat.le_refl _)
            exact ⟨fun _ => Or.inl ⟨by simp [upd], hb.2⟩, fun h => absurd h (by omega)⟩
          · have hd := hall i hi
            simp only [During, Before, upd, hij, if_false] at hd ⊢
            exact ⟨fun h => hd.1 (by omega), fun h => hd.2 (by omega)⟩
        · intro j' hj'; cases hj'
      · simp only [hjn, if_false]
        have hjeq : j = c.n := by omega
        refine ⟨h1, h2, h3, ?_, ?_⟩
        · intro j' hj'; cases hj'
        · intro j' hj'
          have e : j' = 0 := by injection hj' with e; exact e.symm
          subst e
          refine ⟨by dsimp only; omega, ?_⟩
          intro i hi
          dsimp only at hi
          exact ⟨fun h => absurd h (by omega), fun _ => (hall i hi).1 (by omega)⟩
    | joining j =>
      have ⟨hj, hall⟩ := h5 j hc
      simp only [enabled, hc, h1, Bool.false_and, Bool.or_false] at he
      simp only [step, hc]
      by_cases hjn : j < c.n
      · simp only [hjn, if_true] at he ⊢
        simp only [he, if_true]
        have he' : c.ph j = WPh.ended := by simpa using he
        refine ⟨h1, h2, h3, ?_, ?_⟩
        · intro j' hj'; cases hj'
        · intro j' hj'
          have e : j' = j + 1 := by injection hj' with e; exact e.symm
          subst e
          refine ⟨by dsimp only; omega, ?_⟩
          intro i hi
          dsimp only at hi
          by_cases hij : i = j
          · subst hij
            have hd := (hall i hi).2 (Nat.le_refl _)
            refine ⟨fun _ => ?_, fun h => absurd h (by omega)⟩
            rcases hd with ⟨hr, _⟩ | ⟨_, hr⟩
            · rw [he'] at hr; cases hr
            · exact ⟨by simp [upd], hr⟩
          · have hd := hall i hi
            simp only [During, After, upd, hij, if_false] at hd ⊢
            exact ⟨fun h => hd.1 (by omega), fun h => hd.2 (by omega)⟩
      · simp only [hjn, if_false]
        refine ⟨h1, h2, h3, ?_, ?_⟩
        · intro j' hj'
          have e : j' = 0 := by injection hj' with e; exact e.symm
          subst e
          refine ⟨by dsimp only; omega, ?_⟩
          intro i hi
          dsimp only at hi
          have ha := (hall i hi).1 (by omega)
          exact ⟨fun h => absurd h (by omega), fun _ => ⟨ha.1, ha.2⟩⟩
        · intro j' hj'; cases hj'
  | worker i =>
    simp only [enabled, Bool.and_eq_true, decide_eq_true_eq, beq_iff_eq] at he
    obtain ⟨hi, hr⟩ := he
    simp only [step]
    have hmove : ∀ k, k < c.n → During c k → During { c with ph := upd c.ph i WPh.ended, runs := upd c.runs i (c.runs i + 1), flag := upd c.flag i true } k := by
      intro k hk hd
      by_cases hki : k = i
      · subst hki
        rcases hd with ⟨_, hq⟩ | ⟨hp, _⟩
        · exact Or.inr ⟨by simp [upd], by simp [upd, hq]⟩
        · rw [hr] at hp; cases hp
      · simpa [During, upd, hki] using hd
    refine ⟨h1, h2, ?_, ?_, ?_⟩
    · intro k
      by_cases hki : k = i
      · subst hki; simp [upd]
      · simpa [upd, hki] using h3 k
    · intro j hj'
      have ⟨hj, hall⟩ := h4 j hj'
      refine ⟨hj, fun k hk => ⟨fun h => hmove k hk ((hall k hk).1 h), fun h => ?_⟩⟩
      have hb := (hall k hk).2 h
      have hki : k ≠ i := by intro e; subst e; rw [hb.1] at hr; cases hr
      simpa [Before, upd, hki] using hb
    · intro j hj'
      have ⟨hj, hall⟩ := h5 j hj'
      refine ⟨hj, fun k hk => ⟨fun h => ?_, fun h => hmove k hk ((hall k hk).2 h)⟩⟩
      have hb := (hall k hk).1 h
      have hki : k ≠ i := by intro e; subst e; rw [hb.1] at hr; cases hr
      simpa [After, upd, hki] using hb

theorem rinv_run (c : Cfg) (r : List Act) (h : RInv c) : RInv (run c r) := by
  induction r generalizing c with
  | nil => exact h
  | cons a r ih =>
    unfold run
    by_cases he : enabled c a = true
    · simp only [he, if_true]; exact ih _ (rinv_step c a h he)
    · simp only [he]; exact ih c h

theorem step_n (c : Cfg) (a : Act) : (step c a).n = c.n := by
  cases a with
  | creator => simp only [step]; split <;> split <;> (try split) <;> rfl
  | worker i => rfl

theorem run_n (c : Cfg) (r : List Act) : (run c r).n = c.n := by
  induction r generalizing c with
  | nil => rfl
  | cons a r ih => unfold run; split
                   · rw [ih, step_n]
                   · exact ih c

end AslProofs.ThreadRounds
