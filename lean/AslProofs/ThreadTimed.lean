/-
  C13 — invariants of the condition-variable protocol with timed waits and spurious wake-ups
  (`AslModel/ThreadTimed.lean`) and of the semaphore with failing attempts.
-/
import AslModel.ThreadTimed

namespace AslProofs.ThreadTimed
open AslModel.Thread.SyncT

structure TInv (c : CondT) : Prop where
  sleepOk : ∀ i, c.w i = TPc.sleeping → (c.s = SPc.start ∨ c.s = SPc.locked ∨ c.s = SPc.predSet)
  wHolds : ∀ i, c.mutex = Holder.waiter i ↔ (c.w i = TPc.locked ∨ c.w i = TPc.leaving)
  sHolds : c.mutex = Holder.signaler ↔ (c.s = SPc.locked ∨ c.s = SPc.predSet ∨ c.s = SPc.signalled)
  predIff : c.pred = true ↔ (c.s = SPc.predSet ∨ c.s = SPc.signalled ∨ c.s = SPc.done)
  holderLt : ∀ j, c.mutex = Holder.waiter j → j < c.n
  sawOk : ∀ i, c.sawPred i = true → c.pred = true
  leaveOk : c.loops = true → ∀ i, (c.w i = TPc.leaving ∨ c.w i = TPc.done) → (c.sawPred i = true ∨ c.timedOut i = true)
  tmoOk : ∀ i, c.w i = TPc.woken true → c.timed i = true
  timedOutOk : ∀ i, c.timedOut i = true → (c.timed i = true ∧ c.giveUp i = true)

theorem tinv_init (n : Nat) (l : Bool) (t g : Nat → Bool) : TInv (init n l t g) := by
  constructor <;> simp [init]

theorem step_consts (c : CondT) (a : Act) :
    (step c a).n = c.n ∧ (step c a).loops = c.loops ∧ (step c a).timed = c.timed ∧ (step c a).giveUp = c.giveUp := by
  cases a with
  | waiter i => simp only [step]; split <;> (try split) <;> (try split) <;> simp
  | signaler => simp only [step]; split <;> simp
  | wake i t => simp [step]

theorem spc_cases (s : SPc) : s = SPc.start ∨ s = SPc.locked ∨ s = SPc.predSet ∨ s = SPc.signalled ∨ s = SPc.done := by
  cases s <;> simp

theorem tinv_step (c : CondT) (a : Act) (h : TInv c) (he : enabled c a = true) : TInv (step c a) := by
  obtain ⟨h1, h2, h3, h4, h5, h6, h7, h8, h9⟩ := h
  have hS := spc_cases c.s
  cases a with
  | waiter i =>
    simp only [enabled, Bool.and_eq_true, decide_eq_true_eq] at he
    obtain ⟨hi, he⟩ := he
    cases hw : c.w i with
    | start =>
      simp only [hw, beq_iff_eq] at he
      simp only [step, hw]
      constructor <;> grind [upd]
    | locked =>
      simp only [step, hw]
      by_cases hp : c.pred = true
      · simp only [hp, if_true]
        constructor <;> grind [upd]
      · simp only [hp]
        constructor <;> grind [upd]
    | sleeping => simp [hw] at he
    | woken t =>
      simp only [hw, beq_iff_eq] at he
      simp only [step, hw]
      split
      · constructor <;> grind [upd]
      · split
        · constructor <;> grind [upd]
        · constructor <;> grind [upd]
    | leaving =>
      simp only [step, hw]
      constructor <;> grind [upd]
    | done => simp [hw] at he
  | signaler =>
    simp only [enabled] at he
    cases hs : c.s with
    | start =>
      simp only [hs, beq_iff_eq] at he
      simp only [step, hs]
      constructor <;> grind
    | locked =>
      simp only [step, hs]
      constructor <;> grind
    | predSet =>
      simp only [step, hs]
      constructor <;> grind
    | signalled =>
      simp only [step, hs]
      constructor <;> grind
    | done => simp [hs] at he
  | wake i t =>
    simp only [enabled, Bool.and_eq_true, decide_eq_true_eq, beq_iff_eq, Bool.or_eq_true, Bool.not_eq_true'] at he
    obtain ⟨⟨hi, hw⟩, ht⟩ := he
    have hpre : c.w i = TPc.sleeping ∨ c.w i = TPc.woken false := by grind
    simp only [step]
    constructor <;> grind [upd]

theorem tinv_run (c : CondT) (r : List Act) (h : TInv c) : TInv (run c r) := by
  induction r generalizing c with
  | nil => exact h
  | cons a r ih =>
    unfold run
    by_cases he : enabled c a = true
    · simp only [he, if_true]; exact ih _ (tinv_step c a h he)
    · simp only [he]; exact ih c h

theorem run_consts (c : CondT) (r : List Act) :
    (run c r).n = c.n ∧ (run c r).loops = c.loops ∧ (run c r).timed = c.timed ∧ (run c r).giveUp = c.giveUp := by
  induction r generalizing c with
  | nil => simp [run]
  | cons a r ih =>
    unfold run
    split
    · have h1 := ih (step c a); have h2 := step_consts c a
      grind
    · exact ih c

end AslProofs.ThreadTimed

namespace AslProofs.SemT
open AslModel.Thread.SemT

/-- units are conserved: initial + posts = count + successful takes, whatever fails in between -/
def Conserved (k : Nat) (s : Sem) : Prop := k + s.posts = s.count + s.taken

theorem conserved_step (k : Nat) (s : Sem) (a : Op) (h : Conserved k s) (he : enabled s a = true) :
    Conserved k (step s a) := by
  unfold Conserved at *
  cases a with
  | post => simp only [step]; omega
  | wait => simp only [enabled, decide_eq_true_eq] at he; simp only [step]; omega
  | tryWait => simp only [step]; split <;> simp only <;> omega
  | timedWait t =>
    cases t with
    | true => simp only [step, if_true]; omega
    | false => simp only [enabled, Bool.false_or, decide_eq_true_eq] at he; simp [step]; omega

theorem conserved_run (k : Nat) (s : Sem) (r : List Op) (h : Conserved k s) : Conserved k (run s r) := by
  induction r generalizing s with
  | nil => exact h
  | cons a r ih =>
    unfold run
    by_cases he : enabled s a = true
    · simp only [he, if_true]; exact ih _ (conserved_step k s a h he)
    · simp only [he]; exact ih s h

end AslProofs.SemT
